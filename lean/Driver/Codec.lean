/-
  Driver.Codec — line protocol codec (IO glue, outside the proofs): values, operators, expressions,
  environments, errors.  Mirrors /verif/harness/src/codec.rs and env.rs.
-/
import SlacModel.Spec
import SlacModel.Num
import SlacModel.Env
import SlacModel.Unicode
import SlacModel.Token
open Slac

namespace Codec

def hexDigit (c : Char) : Nat :=
  if '0' ≤ c ∧ c ≤ '9' then c.toNat - 48 else if 'a' ≤ c ∧ c ≤ 'f' then c.toNat - 87 else c.toNat - 55

def hexToNat (s : List Char) : Nat := s.foldl (fun a c => a * 16 + hexDigit c) 0

def unhexBytes : List Char → List UInt8
  | a :: b :: r => (hexDigit a * 16 + hexDigit b).toUInt8 :: unhexBytes r
  | _ => []

def unhex (s : String) : Str :=
  if s == "-" then [] else
  match String.fromUTF8? (ByteArray.mk (unhexBytes s.toList).toArray) with
  | some str => str.toList
  | none => ['?']

def hexChars : Array Char := #['0','1','2','3','4','5','6','7','8','9','a','b','c','d','e','f']
def natToHex (n : Nat) (width : Nat) : String :=
  let ds := Nat.toDigits 16 n
  String.ofList (List.replicate (width - ds.length) '0' ++ ds)
def hex (s : Str) : String :=
  if s.isEmpty then "-" else
  let bytes := (String.ofList s).toUTF8
  bytes.foldl (fun (acc : String) b => (acc.push hexChars[b.toNat / 16]!).push hexChars[b.toNat % 16]!) ""

abbrev V := Value Float
abbrev Ex := Expr Float

def showVal : V → String
  | .bool b => if b then "B1" else "B0"
  | .num x => if F64.isNaN x then "Nnan" else "N" ++ natToHex x.toBits.toNat 16
  | .str s => "S" ++ hex s
  | .arr vs => String.intercalate " " (("A" ++ toString vs.length) :: showValList vs)
where showValList : List V → List String
  | [] => []
  | v :: vs => showVal v :: showValList vs

def opNames : List (String × Op) := [("Plus", .plus), ("Minus", .minus), ("Multiply", .multiply), ("Divide", .divide),
  ("Greater", .greater), ("GreaterEqual", .greaterEqual), ("Less", .less), ("LessEqual", .lessEqual), ("Equal", .equal),
  ("NotEqual", .notEqual), ("And", .and), ("Or", .or), ("Xor", .xor), ("Not", .not), ("Div", .div), ("Mod", .mod),
  ("TernaryCondition", .ternaryCondition)]
def opOfString (s : String) : Option Op := (opNames.find? (·.1 == s)).map (·.2)
def opName (o : Op) : String := ((opNames.find? (·.2 == o)).map (·.1)).getD "?"

abbrev P (α : Type) := List String → Option (α × List String)

partial def parseVal : P V
  | t :: r =>
    match t.toList with
    | ['B', '0'] => some (.bool false, r)
    | ['B', '1'] => some (.bool true, r)
    | 'N' :: h => if h == ['n','a','n'] then some (.num F64.nan, r) else some (.num (Float.ofBits (UInt64.ofNat (hexToNat h))), r)
    | 'S' :: h => some (.str (unhex (String.ofList h)), r)
    | 'A' :: n =>
      let k := (String.ofList n).toNat!
      let rec go (k : Nat) (r : List String) (acc : List V) : Option (List V × List String) :=
        match k with
        | 0 => some (acc.reverse, r)
        | k+1 => match parseVal r with
          | some (v, r') => go k r' (v :: acc)
          | none => none
      match go k r [] with
      | some (vs, r') => some (.arr vs, r')
      | none => none
    | _ => none
  | [] => none

def parseN (p : P α) : Nat → List String → List α → Option (List α × List String)
  | 0, r, acc => some (acc.reverse, r)
  | k+1, r, acc => match p r with
    | some (v, r') => parseN p k r' (v :: acc)
    | none => none

partial def parseExpr : P Ex
  | "L" :: r => (parseVal r).map fun (v, r) => (.lit v, r)
  | "V" :: n :: r => some (.var (unhex n), r)
  | "U" :: o :: r => do let op ← opOfString o; let (e, r) ← parseExpr r; pure (.unary e op, r)
  | "I" :: o :: r => do let op ← opOfString o; let (l, r) ← parseExpr r; let (x, r) ← parseExpr r; pure (.binary l x op, r)
  | "T" :: o :: r => do
      let op ← opOfString o; let (l, r) ← parseExpr r; let (m, r) ← parseExpr r; let (x, r) ← parseExpr r
      pure (.ternary l m x op, r)
  | "R" :: n :: r => do let (es, r) ← parseN parseExpr n.toNat! r []; pure (.array es, r)
  | "C" :: f :: n :: r => do let (es, r) ← parseN parseExpr n.toNat! r []; pure (.call (unhex f) es, r)
  | _ => none

partial def showExpr : Ex → String
  | .lit v => "L " ++ showVal v
  | .var n => "V " ++ hex n
  | .unary e op => s!"U {opName op} {showExpr e}"
  | .binary l r op => s!"I {opName op} {showExpr l} {showExpr r}"
  | .ternary l m r op => s!"T {opName op} {showExpr l} {showExpr m} {showExpr r}"
  | .array es => String.intercalate " " (s!"R {es.length}" :: es.map showExpr)
  | .call f es => String.intercalate " " (s!"C {hex f} {es.length}" :: es.map showExpr)

def tokNames : List (String × Token Float) := [("(", .leftParen), (")", .rightParen), ("[", .leftBracket), ("]", .rightBracket),
  ("+", .plus), ("-", .minus), ("*", .star), ("/", .slash), (",", .comma), (">", .greater), (">=", .greaterEqual), ("<", .less),
  ("<=", .lessEqual), ("=", .equal), ("<>", .notEqual), ("and", .and), ("or", .or), ("xor", .xor), ("not", .not), ("div", .div), ("mod", .mod)]

def tokName : Token Float → String
  | .leftParen => "(" | .rightParen => ")" | .leftBracket => "[" | .rightBracket => "]" | .plus => "+" | .minus => "-"
  | .star => "*" | .slash => "/" | .comma => "," | .greater => ">" | .greaterEqual => ">=" | .less => "<" | .lessEqual => "<="
  | .equal => "=" | .notEqual => "<>" | .and => "and" | .or => "or" | .xor => "xor" | .not => "not" | .div => "div" | .mod => "mod"
  | .literal v => "# " ++ showVal v
  | .identifier n => "@" ++ hex n

def parseTok : P (Token Float)
  | "#" :: r => (parseVal r).map fun (v, r) => (.literal v, r)
  | t :: r =>
    if t.startsWith "@" then some (.identifier (unhex (t.drop 1).toString), r)
    else (tokNames.find? (·.1 == t)).map fun (_, k) => (k, r)
  | [] => none

partial def parseToks (r : List String) (acc : List (Token Float)) : Option (List (Token Float)) :=
  match r with
  | [] => some acc.reverse
  | _ => match parseTok r with
    | some (t, r') => parseToks r' (t :: acc)
    | none => none

def showToks (ts : List (Token Float)) : String := if ts.isEmpty then "-" else String.intercalate " " (ts.map tokName)

def showCErr : CErr Float → String
  | .eof => "Eof"
  | .invalidCharacter c => "InvalidCharacter " ++ String.ofList (Nat.toDigits 16 c.toNat)
  | .invalidNumber => "InvalidNumber"
  | .unterminatedStringLiteral => "UnterminatedStringLiteral"
  | .multipleExpressions _ => "MultipleExpressions"
  | .noValidPrefixToken _ => "NoValidPrefixToken"
  | .noValidInfixToken _ => "NoValidInfixToken"
  | .callNotOnVariable _ => "CallNotOnVariable"
  | .previousTokenNotFound => "PreviousTokenNotFound"
  | .invalidToken _ => "InvalidToken"
  | .tokenNotAnOperator _ => "TokenNotAnOperator"

def showNativeErr : NativeError → String
  | .functionNotFound n => "FunctionNotFound " ++ hex n
  | .wrongParameterCount k => s!"WrongParameterCount {k}"
  | .wrongParameterType => "WrongParameterType"
  | .indexOutOfBounds i => s!"IndexOutOfBounds {i}"
  | .indexNegative => "IndexNegative"
  | .custom _ => "CustomError"

def showErr : Err → String
  | .undefinedVariable n => "UndefinedVariable " ++ hex n
  | .invalidUnary op => "InvalidUnaryOperator " ++ opName op
  | .invalidBinary op => "InvalidBinaryOperator " ++ opName op
  | .invalidTernary op => "InvalidTernaryOperator " ++ opName op
  | .native f e => s!"NativeFunctionError {hex f} {showNativeErr e}"

def showRes : Except Err V → String
  | .ok v => "ok " ++ showVal v
  | .error e => "err " ++ showErr e
def showNRes : Except NativeError V → String
  | .ok v => "ok " ++ showVal v
  | .error e => "err " ++ showNativeErr e

def showEvent : Event Float → String
  | .lookup n => "lk " ++ hex n
  | .call f args => String.intercalate " " (s!"cl {hex f} {args.length}" :: args.map showVal)
def showTrace (t : List (Event Float)) : String :=
  if t.isEmpty then "-" else String.intercalate " , " (t.map showEvent)

def showFnRes : FnRes → String
  | .exist p => s!"Exists {if p then 1 else 0}"
  | .notFound => "NotFound"
  | .wrongArity a b => s!"WrongArity {a} {b}"

/-! test behaviours — mirror of harness/src/env.rs -/
def ifThen : List V → Except NativeError V
  | .bool c :: first :: rest => if c then .ok first else .ok ((rest.head?).getD (Value.empty first))
  | [_, _] => .error .wrongParameterType
  | _ => .error (.wrongParameterCount 2)

def behaviour (stdlib : String → Option (List V → Except NativeError V)) (b : String) : Option (List V → Except NativeError V) :=
  match b with
  | "first" => some fun p => match p with | v :: _ => .ok v | [] => .error (.wrongParameterCount 1)
  | "cnt" => some fun p => .ok (.num (F64.ofNat p.length))
  | "fail" => some fun _ => .error (.custom ['b','o','o','m'])
  | "arr" => some fun p => .ok (.arr p)
  | "k0" => some fun _ => .ok (.bool true)
  | "k1" => some fun _ => .ok (.num 0)
  | "k2" => some fun _ => .ok (.str ['k'])
  | "k3" => some fun _ => .ok (.arr [])
  | "last" => some fun p => match p.getLast? with | some v => .ok v | none => .error .wrongParameterType
  | "ifthen" => some ifThen
  | other => if other.startsWith "b:" then stdlib (other.drop 2).toString else none

structure FnDesc where
  name : Str
  arity : Arity
  pure : Bool
  beh : String

def parseFnDesc : P FnDesc
  | n :: k :: req :: opt :: pure :: beh :: r =>
    let arity := match k with | "P" => Arity.polyadic req.toNat! opt.toNat! | "V" => .variadic | _ => .none
    some ({ name := unhex n, arity, pure := pure == "1", beh }, r)
  | _ => none

def behTag (b : String) : Nat := b.toList.foldl (fun a c => a * 131 + c.toNat) 7

def mkFn (stdlib : String → Option (List V → Except NativeError V)) (d : FnDesc) : Option (Fn Float) :=
  (behaviour stdlib d.beh).map fun run => { name := d.name, arity := d.arity, pure := d.pure, run, tag := behTag d.beh }

def fold : Str → Str := Unicode.lowerStr

/-- `E nv (name value)* nf (fn desc)*` → StaticEnv, built by the same add_variable / add_function sequence -/
def parseEnvWith (fold : Str → Str) (stdlib : String → Option (List V → Except NativeError V)) : P (StaticEnv Float)
  | "E" :: nv :: r => do
    let pv : P (Str × V) := fun r => match r with
      | n :: r => (parseVal r).map fun (v, r) => ((unhex n, v), r)
      | [] => none
    let (vars, r) ← parseN pv nv.toNat! r []
    match r with
    | nf :: r =>
      let (fns, r) ← parseN parseFnDesc nf.toNat! r []
      let env0 : StaticEnv Float := vars.foldl (fun s (n, v) => s.addVariable fold n v) StaticEnv.empty
      let env ← fns.foldlM (fun s d => (mkFn stdlib d).map (s.addFunction fold ·)) env0
      pure (env, r)
    | [] => none
  | _ => none

/-- the environment of the `StaticEnvironment` streams: keys folded with `str::to_lowercase` -/
def parseEnv (stdlib : String → Option (List V → Except NativeError V)) : P (StaticEnv Float) := parseEnvWith fold stdlib

end Codec
