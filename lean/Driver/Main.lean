/-
  Driver.Main — line protocol driver: one request line in, one answer line out, computed by the model
  (and, after ` | `, by the specification where the oracle lives in Lean).
-/
import Driver.Codec
import SlacModel.Display
import SlacModel.Json
open Slac Codec

def ordStr : Ordering → String | .lt => "-1" | .eq => "0" | .gt => "1"
def tf (b : Bool) : String := if b then "T" else "F"

def noStdlib : String → Option (List V → Except NativeError V) := fun _ => none

def fbits (s : String) : Float := Float.ofBits (UInt64.ofNat (hexToNat s.toList))
def fout (x : Float) : String := if F64.isNaN x then "nan" else natToHex x.toBits.toNat 16

def runNum : List String → Option String
  | ["trunc", a] => some (fout (F64.trunc (fbits a)))
  | ["fract", a] => some (fout (F64.fract (fbits a)))
  | ["round", a] => some (fout (F64.round (fbits a)))
  | ["abs", a] => some (fout (Float.abs (fbits a)))
  | ["neg", a] => some (fout (-(fbits a)))
  | ["sqrt", a] => some (fout (Float.sqrt (fbits a)))
  | ["add", a, b] => some (fout (fbits a + fbits b))
  | ["sub", a, b] => some (fout (fbits a - fbits b))
  | ["mul", a, b] => some (fout (fbits a * fbits b))
  | ["div", a, b] => some (fout (fbits a / fbits b))
  | ["rem", a, b] => some (fout (F64.rem (fbits a) (fbits b)))
  | ["pcmp", a, b] => some (match F64.pcmp (fbits a) (fbits b) with | none => "none" | some o => ordStr o)
  | ["eq", a, b] => some (toString (F64.beq (fbits a) (fbits b)))
  | ["usize", a] => some (toString (F64.toUsize (fbits a)))
  | ["u32", a] => some (toString (F64.toU32 (fbits a)))
  | ["u8", a] => some (toString (F64.toU8 (fbits a)))
  | ["i32", a] => some (toString (F64.toI32 (fbits a)))
  | ["i64", a] => some (toString (F64.toI64 (fbits a)))
  | ["floorusize", a] => some (toString (F64.floorToUsize (fbits a)))
  | ["ofi64", a] => some (fout (F64.ofInt a.toInt!))
  | ["ofu64", a] => some (fout (F64.ofNat a.toNat!))
  | ["parse", h] => some (match F64.parse (unhex h) with | some x => "some " ++ fout x | none => "none")
  | ["display", a] => some (hex (F64.display (fbits a)))
  | _ => none

def runCmp (r : List String) : Option String := do
  let (a, r) ← parseVal r
  let (b, _) ← parseVal r
  pure s!"{ordStr (Value.cmp a b)} {tf (Value.eq a b)} {tf (Value.isEmpty a)} {tf (Value.asBool a)} {tf (Value.lt a b)}{tf (Value.le a b)}{tf (Value.gt a b)}{tf (Value.ge a b)}{tf (!Value.eq a b)}"

def runEval (r : List String) : Option String := do
  let (senv, r) ← parseEnv noStdlib r
  let (e, _) ← parseExpr r
  let env := senv.toEnv fold
  let m := evalT env e
  let s := spec env e
  pure s!"{showRes m.1} ; {showTrace m.2} | {showRes s.1.toExcept} ; {showTrace s.2}"

/-- `env <ops>`: one answer per op, joined by " , " (mirror of harness run_env) -/
def showFn (f : Fn Float) (behName : String) : String :=
  let a := match f.arity with | .polyadic r o => s!"P{r}+{o}" | .variadic => "V" | .none => "N"
  s!"{hex f.name}:{a}:{if f.pure then 1 else 0}:{behName}"

/-- the driver keeps the behaviour name next to the function object (the model's `tag` identifies it) -/
def behOfTag (tag : Nat) : String :=
  (["first", "cnt", "fail", "arr", "k0", "k1", "k2", "k3", "last", "ifthen"].find? (fun b => behTag b == tag)).getD "?"

def insertSorted (x : String) : List String → List String
  | [] => [x]
  | y :: ys => if x ≤ y then x :: y :: ys else y :: insertSorted x ys

partial def runEnvOps (s : StaticEnv Float) (r : List String) (acc : List String) : Option (List String) :=
  match r with
  | [] => some acc.reverse
  | "av" :: n :: r => do let (v, r) ← parseVal r; runEnvOps (s.addVariable fold (unhex n) v) r ("-" :: acc)
  | "rv" :: n :: r =>
    let (s', o) := s.removeVariable fold (unhex n)
    runEnvOps s' r ((match o with | some v => "some " ++ showVal v | none => "none") :: acc)
  | "cv" :: r => runEnvOps s.clearVariables r ("-" :: acc)
  | "af" :: r => do let (d, r) ← parseFnDesc r; let f ← mkFn noStdlib d; runEnvOps (s.addFunction fold f) r ("-" :: acc)
  | "afs" :: k :: r => do
    let (ds, r) ← parseN parseFnDesc k.toNat! r []
    let fs ← ds.mapM (mkFn noStdlib)
    runEnvOps (s.addFunctions fold fs) r ("-" :: acc)
  | "rf" :: n :: r =>
    let (s', o) := s.removeFunction fold (unhex n)
    runEnvOps s' r ((match o with | some f => "some " ++ showFn f (behOfTag f.tag) | none => "none") :: acc)
  | "gv" :: n :: r => runEnvOps s r ((match s.getVariable fold (unhex n) with | some v => "some " ++ showVal v | none => "none") :: acc)
  | "ve" :: n :: r => runEnvOps s r (tf (s.variableExists fold (unhex n)) :: acc)
  | "cl" :: n :: k :: r => do let (args, r) ← parseN parseVal k.toNat! r []; runEnvOps s r (showNRes (s.call fold (unhex n) args) :: acc)
  | "fe" :: n :: k :: r => runEnvOps s r (showFnRes (s.functionExists fold (unhex n) k.toNat!) :: acc)
  | "lf" :: r =>
    let l := (s.listFunctions.map fun f => showFn f (behOfTag f.tag)).foldl (fun a x => insertSorted x a) []
    runEnvOps s r (("[" ++ String.intercalate " " l ++ "]") :: acc)
  | _ => none

def runEnv (r : List String) : Option String := (runEnvOps StaticEnv.empty r []).map (String.intercalate " , ")

def jnFloat : JsonNum Float := ⟨F64.isFinite, F64.ofInt⟩

partial def canonJson : Json Float → String
  | .null => "null"
  | .bool b => toString b
  | .num x => "F" ++ natToHex x.toBits.toNat 16
  | .int i => s!"I{i}"
  | .str s => "\"" ++ hex s ++ "\""
  | .arr xs => "[" ++ String.intercalate "," (xs.map canonJson) ++ "]"
  | .obj fs =>
    let kv := (fs.map fun (k, v) => String.ofList k ++ ":" ++ canonJson v).foldl (fun a x => insertSorted x a) []
    "{" ++ String.intercalate "," kv ++ "}"

def runJson (r : List String) : Option String := do
  let (e, _) ← parseExpr r
  let j := Json.ofExpr jnFloat e
  let rt := match Json.toExpr jnFloat j with
    | some e' => if showExpr e' == showExpr e then "same" else "differs"
    | none => "err"
  pure s!"{canonJson j} ; {rt} ; {rt}"

def step (line : String) : String :=
  let r := match (line.trimAscii.toString.splitOn " ").filter (· ≠ "") with
    | "num" :: r => runNum r
    | "cmp" :: r => runCmp r
    | "eval" :: r => runEval r
    | "env" :: r => runEnv r
    | "json" :: r => runJson r
    | _ => none
  r.getD "bad"

partial def loop (h out : IO.FS.Stream) : IO Unit := do
  let line ← h.getLine
  if line.isEmpty then return ()
  out.putStrLn (step line)
  loop h out

def main : IO Unit := do loop (← IO.getStdin) (← IO.getStdout)
