/-
  Driver.Main — line protocol driver: one request line in, one answer line out, computed by the model
  (and, after ` | `, by the specification where the oracle lives in Lean).
-/
import Driver.Codec
import Driver.TimeRange
import Driver.Script
import Driver.RegexRun
import SlacModel.Display
import SlacModel.Json
import SlacModel.JsonText
import SlacModel.Optimizer
import SlacModel.Registry
import SlacModel.Nondet
import SlacModel.Parser
import SlacModel.Render
import SlacProofs.OrderSafe
import SlacModel.Validate
import SlacModel.Scanner
import SlacModel.Regex
import SlacModel.DebugFmt
open Slac Codec

def ordStr : Ordering → String | .lt => "-1" | .eq => "0" | .gt => "1"
def tf (b : Bool) : String := if b then "T" else "F"

def noStdlib : String → Option (List V → Except NativeError V) := fun _ => none

def fbits (s : String) : Float := Float.ofBits (UInt64.ofNat (hexToNat s.toList))
def fout (x : Float) : String := if F64.isNaN x then "nan" else natToHex x.toBits.toNat 16

def runNum : List String → Option String
  | ["trunc", a] => some (fout (F64.trunc (fbits a)))
  | ["fract", a] => some (fout (F64.fract (fbits a)))
  | ["round", a] => some (fout (F64.round (fbits a)))
  | ["abs", a] => some (fout (Float.abs (fbits a)))
  | ["neg", a] => some (fout (-(fbits a)))
  | ["sqrt", a] => some (fout (Float.sqrt (fbits a)))
  | ["add", a, b] => some (fout (fbits a + fbits b))
  | ["sub", a, b] => some (fout (fbits a - fbits b))
  | ["mul", a, b] => some (fout (fbits a * fbits b))
  | ["div", a, b] => some (fout (fbits a / fbits b))
  | ["rem", a, b] => some (fout (F64.rem (fbits a) (fbits b)))
  | ["pcmp", a, b] => some (match F64.pcmp (fbits a) (fbits b) with | none => "none" | some o => ordStr o)
  | ["eq", a, b] => some (toString (F64.beq (fbits a) (fbits b)))
  | ["usize", a] => some (toString (F64.toUsize (fbits a)))
  | ["u32", a] => some (toString (F64.toU32 (fbits a)))
  | ["u8", a] => some (toString (F64.toU8 (fbits a)))
  | ["i32", a] => some (toString (F64.toI32 (fbits a)))
  | ["i64", a] => some (toString (F64.toI64 (fbits a)))
  | ["floorusize", a] => some (toString (F64.floorToUsize (fbits a)))
  | ["ofi64", a] => some (fout (F64.ofInt a.toInt!))
  | ["ofu64", a] => some (fout (F64.ofNat a.toNat!))
  | ["parse", h] => some (match F64.parse (unhex h) with | some x => "some " ++ fout x | none => "none")
  | ["display", a] => some (hex (F64.display (fbits a)))
  | _ => none

def runCmp (r : List String) : Option String := do
  let (a, r) ← parseVal r
  let (b, _) ← parseVal r
  pure s!"{ordStr (Value.cmp a b)} {tf (Value.eq a b)} {tf (Value.isEmpty a)} {tf (Value.asBool a)} {tf (Value.lt a b)}{tf (Value.le a b)}{tf (Value.gt a b)}{tf (Value.ge a b)}{tf (!Value.eq a b)}"

def runEval (r : List String) : Option String := do
  let (senv, r) ← parseEnv noStdlib r
  let (e, _) ← parseExpr r
  let env := senv.toEnv fold
  let m := evalT env e
  let s := spec env e
  pure s!"{showRes m.1} ; {showTrace m.2} | {showRes s.1.toExcept} ; {showTrace s.2}"

/-- `evalcs`: the same trees against a CASE-SENSITIVE host environment (names compared exactly: the association-list environment with the
    identity as key function) -/
def runEvalCs (r : List String) : Option String := do
  let (senv, r) ← parseEnvWith id noStdlib r
  let (e, _) ← parseExpr r
  let env := senv.toEnv id
  let m := evalT env e
  let s := spec env e
  pure s!"{showRes m.1} ; {showTrace m.2} | {showRes s.1.toExcept} ; {showTrace s.2}"

/-- `env <ops>`: one answer per op, joined by " , " (mirror of harness run_env) -/
def showFn (f : Fn Float) (behName : String) : String :=
  let a := match f.arity with | .polyadic r o => s!"P{r}+{o}" | .variadic => "V" | .none => "N"
  s!"{hex f.name}:{a}:{if f.pure then 1 else 0}:{behName}"

/-- the driver keeps the behaviour name next to the function object (the model's `tag` identifies it) -/
def behOfTag (tag : Nat) : String :=
  (["first", "cnt", "fail", "arr", "k0", "k1", "k2", "k3", "last", "ifthen"].find? (fun b => behTag b == tag)).getD "?"

/-- builtins registered by `ext` (extend_environment) carry the tag of no test behaviour: shown as `b:<registered name>` -/
def showFnOf (f : Fn Float) : String :=
  let b := behOfTag f.tag
  showFn f (if b == "?" then "b:" ++ String.ofList f.name else b)

/-- the standard library as `extend_environment` registers it (one-based strings: the default build) -/
def extStdlib (nm : String) : Option (List V → Except NativeError V) :=
  (alGet (fold nm.toList) (Script.stdlibEnv ⟨Unicode.lowerStr, Unicode.upperStr⟩ 1).fns).map (·.run)

def insertSorted (x : String) : List String → List String
  | [] => [x]
  | y :: ys => if x ≤ y then x :: y :: ys else y :: insertSorted x ys

partial def runEnvOps (s : StaticEnv Float) (r : List String) (acc : List String) : Option (List String) :=
  match r with
  | [] => some acc.reverse
  | "av" :: n :: r => do let (v, r) ← parseVal r; runEnvOps (s.addVariable fold (unhex n) v) r ("-" :: acc)
  | "rv" :: n :: r =>
    let (s', o) := s.removeVariable fold (unhex n)
    runEnvOps s' r ((match o with | some v => "some " ++ showVal v | none => "none") :: acc)
  | "cv" :: r => runEnvOps s.clearVariables r ("-" :: acc)
  | "af" :: r => do let (d, r) ← parseFnDesc r; let f ← mkFn noStdlib d; runEnvOps (s.addFunction fold f) r ("-" :: acc)
  | "afs" :: k :: r => do
    let (ds, r) ← parseN parseFnDesc k.toNat! r []
    let fs ← ds.mapM (mkFn noStdlib)
    runEnvOps (s.addFunctions fold fs) r ("-" :: acc)
  | "rf" :: n :: r =>
    let (s', o) := s.removeFunction fold (unhex n)
    runEnvOps s' r ((match o with | some f => "some " ++ showFnOf f | none => "none") :: acc)
  | "gv" :: n :: r => runEnvOps s r ((match s.getVariable fold (unhex n) with | some v => "some " ++ showVal v | none => "none") :: acc)
  | "ve" :: n :: r => runEnvOps s r (tf (s.variableExists fold (unhex n)) :: acc)
  | "cl" :: n :: k :: r => do
    let (args, r) ← parseN parseVal k.toNat! r []
    let res := s.call fold (unhex n) args
    let shown := match res with | .error (.custom m) => if m == Script.marker then "UNMODELLED" else showNRes res | _ => showNRes res
    runEnvOps s r (shown :: acc)
  -- `ext k <k function descriptions b:<name>>`: `extend_environment` = add_functions(builtins()); the harness lists what it registers
  | "ext" :: k :: r => do
    let (ds, r) ← parseN parseFnDesc k.toNat! r []
    let fs ← ds.mapM (mkFn extStdlib)
    runEnvOps (s.addFunctions fold fs) r ("-" :: acc)
  | "fe" :: n :: k :: r => runEnvOps s r (showFnRes (s.functionExists fold (unhex n) k.toNat!) :: acc)
  | "lf" :: r =>
    let l := (s.listFunctions.map showFnOf).foldl (fun a x => insertSorted x a) []
    runEnvOps s r (("[" ++ String.intercalate " " l ++ "]") :: acc)
  | _ => none

def runEnv (r : List String) : Option String :=
  (runEnvOps StaticEnv.empty r []).map fun l => if l.contains "UNMODELLED" then "unmodelled" else String.intercalate " , " l

/-- Bool version of `Opt.Foldable` (the property's notion of a constant-foldable node) -/
def foldableB (env : Env Float) : Ex → Bool
  | .unary r _ => Opt.isLit r
  | .binary l r _ => Opt.isLit l && Opt.isLit r
  | .array es => Opt.allLit es
  | .ternary l _ _ op => op == .ternaryCondition && Opt.isLit l
  | .call f ps => (f == Opt.ifThenName && ps.length == 3) || (Opt.allLit ps && env.fnExists f ps.length == .exist true)
  | _ => false

def pureEvent (env : Env Float) : Event Float → Bool
  | .call f vs => env.fnExists f vs.length == .exist true
  | .lookup _ => false

def isOkChk : Except VErr Unit → Bool | .ok _ => true | .error _ => false

def runOpt (r : List String) : Option String := do
  let (senv, r) ← parseEnv noStdlib r
  let (e, _) ← parseExpr r
  let env := senv.toEnv fold
  let (res, trace) := Opt.optimizeT env (Opt.mu e + 1) e
  let (status, e') := match res with
    | .ok t => ("ok", t)
    | .err t er => ("err " ++ showErr er, t)
    | .outOfFuel => ("outOfFuel", e)
  let anyFold := (Opt.subterms e').any (foldableB env)
  let idem := match Opt.optimize env (Opt.mu e' + 1) e' with
    | .ok t => showExpr t == showExpr e'
    | _ => false
  pure s!"{status} {showExpr e'} ; {showTrace trace} ; pre {showRes (evalR env e)} ; post {showRes (evalR env e')} ; chk {tf (isOkChk (checkVF env e))} {tf (isOkChk (checkVF env e'))} ; fold {tf anyFold} ; idem {tf idem} ; nodes {Opt.nodes e'} {Opt.nodes e} ; if3 {tf (Opt.if3 e > 0)} ; pur {tf (trace.all (pureEvent env))}"

def caseMap : Stdlib.CaseMap := ⟨Unicode.lowerStr, Unicode.upperStr⟩

/-- the driver's builtin table: the generic registry, with `str` replaced by the Float-specific total version
    (Rust `Debug` formatting of arrays needs the number's Debug form) -/
def builtinFloat (o : Nat) (nm : String) : Option (Registry.F Float) :=
  if nm == "str" then some (Registry.tot DebugFmt.strF) else Registry.builtin (N := Float) caseMap o nm

/-- the host's local time zone (environment variable `SLAC_MODEL_TZ`, read once in `main`): how the four builtins that
    consult it (`TimeRfc.zoned`) are answered -/
inductive ZoneMode where
  | utc                      -- unset or `UTC`: through the registry (the `Zone.utc` instances)
  | zone (z : Time.Zone)     -- a POSIX rule string the model understands (`Zone.ofPosix`)
  | unknown                  -- anything else

def zoneMode : Option String → ZoneMode
  | none => .utc
  | some s => if s == "UTC" then .utc else match Time.Zone.ofPosix s.toList with | some z => .zone z | none => .unknown

/-- the answer of a local-zone builtin under a non-UTC mode; `none` = not such a builtin (or mode `utc`) -/
def zoneAnswer (zm : ZoneMode) (nm : String) (args : List V) : Option String :=
  match zm with
  | .utc => none
  | .unknown => (TimeRfc.zoned (N := Float) Time.Zone.utc nm).map fun _ => "unmodelled local-time-zone"
  | .zone z => (TimeRfc.zoned (N := Float) z nm).map fun f =>
      match f args with
      | none => "unmodelled local-offset-out-of-range"
      | some res => showNRes res

def runCall (zm : ZoneMode) (r : List String) : Option String :=
  match r with
  | off :: name :: n :: r => do
    let (args, _) ← parseN parseVal n.toNat! r []
    let o : Nat := if off == "0" then 0 else 1
    let nm := String.ofList (unhex name)
    if (nm == "sort" || nm == "max" || nm == "min") && !Order.safeB (Stdlib.smartVec args) then pure "unmodelled unsafe-order" else
    if let some ans := zoneAnswer zm nm args then pure ans else
    match builtinFloat o nm with
    | none => pure (match RegexRun.run nm args with | some res => showNRes res | none => "unmodelled")
    | some f => match f args with
      | none => pure "unmodelled"
      | some res => pure (showNRes res)
  | _ => none

def showCOutExpr : COut Float Ex → String
  | .ok e => "ok " ++ showExpr e
  | .err e => "err " ++ showCErr e
  | .outOfFuel => "outOfFuel"
  | .panic => "panic"

def runParse (r : List String) : Option String := do
  let ts ← parseToks r []
  pure (showCOutExpr (Parser.parse ts))

/-- `rt <style> <expr>`: render (model renderer: minimal for style 0, full otherwise), parse, compare -/
def runRt (r : List String) : Option String :=
  match r with
  | style :: r => do
    let (e, _) ← parseExpr r
    if !Render.srcExpr e then pure "unmodelled not-source-expressible" else
    let ts := if style == "0" then Render.renderMin e else Render.renderFull e
    match Parser.parse ts with
    | .ok e' => pure (if showExpr e' == showExpr e then "same" else "differs " ++ showExpr e')
    | .err er => pure ("err " ++ showCErr er)
    | _ => pure "outOfFuel"
  | _ => none

def showVErr : VErr → String
  | .missingVariable n => "MissingVariable " ++ hex n
  | .missingFunction n => "MissingFunction " ++ hex n
  | .paramCountMismatch n a b c => s!"ParamCountMismatch {hex n} {a} {b} {c}"
  | .invalidUnaryOperator op => "InvalidUnaryOperator " ++ opName op
  | .invalidBinaryOperator op => "InvalidBinaryOperator " ++ opName op
  | .invalidTernaryOperator op => "InvalidTernaryOperator " ++ opName op
  | .literalNotBoolean => "LiteralNotBoolean"
def showChk : Except VErr Unit → String
  | .ok _ => "ok"
  | .error e => "err " ++ showVErr e

def runChkvf (r : List String) : Option String := do
  let (senv, r) ← parseEnv noStdlib r
  let (e, _) ← parseExpr r
  let env := senv.toEnv fold
  pure s!"{showChk (checkVF env e)} ; {showRes (evalR env e)}"

def resultPosB : Ex → List Ex
  | .ternary _ m r op => if op == .ternaryCondition then resultPosB m ++ resultPosB r else []
  | .var n => [.var n]
  | .call n ps => [.call n ps]
  | _ => []

def runChkbool (r : List String) : Option String := do
  let (senv, r) ← parseEnv noStdlib r
  let (e, _) ← parseExpr r
  let env := senv.toEnv fold
  let proviso := (resultPosB e).all fun x => match evalR env x with | .ok (.bool _) => true | .ok _ => false | .error _ => true
  pure s!"{showChk (checkBool e)} ; {showRes (evalR env e)} ; rp {tf proviso}"

def charClass : Scanner.CharClass := ⟨Unicode.isAlphabetic, Unicode.isNumeric, Unicode.lowerStr⟩

def showCOutToks : COut Float (List (Token Float)) → String
  | .ok ts => "ok " ++ showToks ts
  | .err e => "err " ++ showCErr e
  | .outOfFuel => "outOfFuel"
  | .panic => "panic"

def runScan : List String → Option String
  | [h] => some (showCOutToks (Scanner.scan charClass (unhex h)))
  | _ => none

/-- FNV-1a over the bytes of an answer -/
def fnv (d : UInt64) (s : String) : UInt64 := s.toUTF8.foldl (fun d b => (d ^^^ b.toUInt64) * 0x100000001B3) d

def kwList : List Str := [['a','n','d'], ['o','r'], ['x','o','r'], ['n','o','t'], ['d','i','v'], ['m','o','d'], ['t','r','u','e'], ['f','a','l','s','e']]

/-- the texts of one code point in the `scanchars` stream (mirror of harness lang.rs `scan_contexts`) -/
def scanContexts (c : Char) : List Str :=
  [[c], ['a', c], [c, 'a'], ['1', c], ['1', '.', c], ['\'', c, '\''], [c, ' ', c]] ++
  kwList.flatMap fun kw => [false, true].flatMap fun up =>
    let base := if up then kw.map Char.toUpper else kw
    (List.range base.length).map fun i => base.set i c

def runScanRange : List String → Option String
  | [s, c] =>
    let s := s.toNat!; let c := c.toNat!
    let d := (List.range c).foldl (fun (d : UInt64) i =>
      let cp := s + i
      if cp < 0xD800 || (0xDFFF < cp && cp < 0x110000) then
        (scanContexts (Char.ofNat cp)).foldl (fun d t => fnv d (showCOutToks (Scanner.scan charClass t))) d
      else d) 0xcbf29ce484222325
    some s!"viol 0 digest {TimeRange.hex16 d}"
  | _ => none

/-- `slac::compile` = tokenize, then compile_ast -/
def compileModel (src : Str) : COut Float Ex :=
  match Scanner.scan (N := Float) charClass src with
  | .ok ts => Parser.parse ts
  | .err e => .err e
  | .outOfFuel => .outOfFuel
  | .panic => .panic

def runCompile : List String → Option String
  | [h] => some (showCOutExpr (compileModel (unhex h)))
  | _ => none

def runLay : List String → Option String
  | [a, b] =>
    let x := showCOutToks (Scanner.scan charClass (unhex a))
    let y := showCOutToks (Scanner.scan charClass (unhex b))
    some (if x == y then "same" else "differs")
  | _ => none

def runRr : List String → Option String
  | [h] =>
    match compileModel (unhex h) with
    | .ok e =>
      (match Parser.parse (Render.renderMin e) with
       | .ok e' => some (if showExpr e' == showExpr e then "same" else "differs " ++ showExpr e')
       | .err er => some ("err " ++ showCErr er)
       | _ => some "outOfFuel")
    | _ => some "reject"
  | _ => none

/-- `re <name> <n> <args…> || <raw engine answers>`: the wrapper model over the shipped engine answers -/
def parseSTok (t : String) : Option Str := match t.toList with | 'S' :: h => some (unhex (String.ofList h)) | _ => none

def parseEngine : List String → Option (Regex.Engine Unit)
  | ["-"] => some ⟨fun _ => .error [], fun _ _ => false, fun _ _ => [], fun _ _ => none, fun _ => 0, fun _ h _ _ => h⟩
  | ["err"] => some ⟨fun _ => .error ['e'], fun _ _ => false, fun _ _ => [], fun _ _ => none, fun _ => 0, fun _ h _ _ => h⟩
  | "ok" :: m :: clen :: nf :: r => do
    let k := nf.toNat!
    let finds ← (r.take k).mapM parseSTok
    let r := r.drop k
    let (caps, r) ← match r with
      | "none" :: r => some (none, r)
      | "some" :: c :: r =>
        let c := c.toNat!
        (do let cs ← (r.take c).mapM (fun t => if t == "~" then some none else (parseSTok t).map some); pure (some cs, r.drop c))
      | _ => none
    let rep ← match r with | [t] => parseSTok t | _ => none
    pure ⟨fun _ => .ok (), fun _ _ => m == "T", fun _ _ => finds, fun _ _ => caps, fun _ => clen.toNat!, fun _ _ _ _ => rep⟩
  | _ => none

def splitAtBar (r : List String) : List String × List String :=
  (r.takeWhile (· ≠ "||"), (r.dropWhile (· ≠ "||")).drop 1)

def runRe (r : List String) : Option String :=
  match r with
  | name :: n :: r => do
    let (a, e) := splitAtBar r
    let (args, _) ← parseN parseVal n.toNat! a []
    let E ← parseEngine e
    let res : Stdlib.Res Float ← match String.ofList (unhex name) with
      | "re_is_match" => some (Regex.isMatch E args)
      | "re_find" => some (Regex.find E args)
      | "re_capture" => some (Regex.capture E args)
      | "re_replace" => some (Regex.replace E args)
      | _ => none
    pure (showNRes res)
  | _ => none

/-- neighbours of a double in bit order (for the search of the random word behind an answer of `random`) -/
def floatNeighbours (x : Float) : List Float :=
  let b := x.toBits
  [x, Float.ofBits (b + 1), Float.ofBits (b - 1), Float.ofBits (b + 2), Float.ofBits (b - 2)]

/-- is there a random word `u : u64` with `randomWith u args = ans`?  `u as f64` ranges over the integer-valued doubles of
    [0, 2^64]; the candidates are the doubles next to `x · 2^64 / m`, converted back to a word. -/
def randomAllowed (args : List V) (ans : Stdlib.Res Float) : Bool :=
  let probe := Nondet.randomWith (N := Float) 0 args
  match probe, ans with
  | .error e, .error e' => showNativeErr e == showNativeErr e'
  | .ok _, .ok (.num x) =>
    let m : Float := match args with | .num m :: _ => m | _ => 1.0
    let two64 : Float := F64.ofNat (2 ^ 64)
    let cands : List Nat := ((floatNeighbours (x * two64 / m)).filterMap fun r =>
      if r >= 0.0 && r <= two64 && r.floor == r then some (min r.toUInt64.toNat (2 ^ 64 - 1)) else none) ++ [0, 1, 2 ^ 64 - 1, 2 ^ 63]
    cands.any fun u => showNRes (Nondet.randomWith (N := Float) u args) == showNRes ans
  | _, _ => false

/-- `nd <hexname> <n> <args…> || <answer>`: is the recorded answer one the model allows? -/
def runNd (r : List String) : Option String :=
  match r with
  | name :: n :: r => do
    let (a, e) := splitAtBar r
    let (args, _) ← parseN parseVal n.toNat! a []
    let ans : Stdlib.Res Float ← match e with
      | "ok" :: v => (parseVal v).map fun p => .ok p.1
      | ["err", "WrongParameterType"] => some (.error .wrongParameterType)
      | _ => none
    let okk := match String.ofList (unhex name) with
      | "choice" =>
        -- complete by `choice_small_words`: the words below the list length produce every possible answer
        (List.range (max 1 (Stdlib.smartVec args).length)).any fun w => showNRes (Nondet.choiceWith w args) == showNRes ans
      | "random" => randomAllowed args ans
      | _ => false
    pure (if okk then "member" else s!"violation {showNRes ans}")
  | _ => none

def jnFloat : JsonNum Float := ⟨F64.isFinite, F64.ofInt⟩

partial def canonJson : Json Float → String
  | .null => "null"
  | .bool b => toString b
  | .num x => "F" ++ natToHex x.toBits.toNat 16
  | .int i => s!"I{i}"
  | .str s => "\"" ++ hex s ++ "\""
  | .arr xs => "[" ++ String.intercalate "," (xs.map canonJson) ++ "]"
  | .obj fs =>
    let kv := (fs.map fun (k, v) => String.ofList k ++ ":" ++ canonJson v).foldl (fun a x => insertSorted x a) []
    "{" ++ String.intercalate "," kv ++ "}"

def runJson (r : List String) : Option String := do
  let (e, _) ← parseExpr r
  let j := Json.ofExpr jnFloat e
  let rt := match Json.toExpr jnFloat j with
    | some e' => if showExpr e' == showExpr e then "same" else "differs"
    | none => "err"
  -- the text route: print (serde_json::to_string), parse back with the depth-limited reader (serde_json::from_str), decode
  let text := JsonText.printJson j
  let rtText := match (JsonText.parseJson text).bind (Json.toExpr jnFloat) with
    | some e' => if showExpr e' == showExpr e then "same" else "differs"
    | none => "err"
  pure s!"{canonJson j} ; {rt} ; {rtText} ; text {hex text}"

def step (zm : ZoneMode) (line : String) : String :=
  let r := match (line.trimAscii.toString.splitOn " ").filter (· ≠ "") with
    | "num" :: r => runNum r
    | "cmp" :: r => runCmp r
    | "eval" :: r => runEval r
    | "env" :: r => runEnv r
    | "evalcs" :: r => runEvalCs r
    | "json" :: r => runJson r
    | "opt" :: r => runOpt r
    | "call" :: r => runCall zm r
    | "parse" :: r => runParse r
    | "rt" :: r => runRt r
    | "chkvf" :: r => runChkvf r
    | "scan" :: r => runScan r
    | "compile" :: r => runCompile r
    | "lay" :: r => runLay r
    | "rr" :: r => runRr r
    | "re" :: r => runRe r
    | "nd" :: r => runNd r
    | "tmrange" :: r => TimeRange.run r
    | "scanrange" :: r => runScanRange r
    | "script" :: r => Script.run charClass caseMap r
    | "chkbool" :: r => runChkbool r
    | _ => none
  r.getD "bad"

partial def loop (zm : ZoneMode) (h out : IO.FS.Stream) : IO Unit := do
  let line ← h.getLine
  if line.isEmpty then return ()
  out.putStrLn (step zm line)
  loop zm h out

def main : IO Unit := do loop (zoneMode (← IO.getEnv "SLAC_MODEL_TZ")) (← IO.getStdin) (← IO.getStdout)
