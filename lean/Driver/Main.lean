/-
  Driver.Main — line protocol driver: one request line in, one answer line out, computed by the model
  (and, after ` | `, by the specification where the oracle lives in Lean).
-/
import Driver.Codec
import SlacModel.Display
open Slac Codec

def ordStr : Ordering → String | .lt => "-1" | .eq => "0" | .gt => "1"
def tf (b : Bool) : String := if b then "T" else "F"

def noStdlib : String → Option (List V → Except NativeError V) := fun _ => none

def fbits (s : String) : Float := Float.ofBits (UInt64.ofNat (hexToNat s.toList))
def fout (x : Float) : String := if F64.isNaN x then "nan" else natToHex x.toBits.toNat 16

def runNum : List String → Option String
  | ["trunc", a] => some (fout (F64.trunc (fbits a)))
  | ["fract", a] => some (fout (F64.fract (fbits a)))
  | ["round", a] => some (fout (F64.round (fbits a)))
  | ["abs", a] => some (fout (Float.abs (fbits a)))
  | ["neg", a] => some (fout (-(fbits a)))
  | ["sqrt", a] => some (fout (Float.sqrt (fbits a)))
  | ["add", a, b] => some (fout (fbits a + fbits b))
  | ["sub", a, b] => some (fout (fbits a - fbits b))
  | ["mul", a, b] => some (fout (fbits a * fbits b))
  | ["div", a, b] => some (fout (fbits a / fbits b))
  | ["rem", a, b] => some (fout (F64.rem (fbits a) (fbits b)))
  | ["pcmp", a, b] => some (match F64.pcmp (fbits a) (fbits b) with | none => "none" | some o => ordStr o)
  | ["eq", a, b] => some (toString (F64.beq (fbits a) (fbits b)))
  | ["usize", a] => some (toString (F64.toUsize (fbits a)))
  | ["u32", a] => some (toString (F64.toU32 (fbits a)))
  | ["u8", a] => some (toString (F64.toU8 (fbits a)))
  | ["i32", a] => some (toString (F64.toI32 (fbits a)))
  | ["i64", a] => some (toString (F64.toI64 (fbits a)))
  | ["floorusize", a] => some (toString (F64.floorToUsize (fbits a)))
  | ["ofi64", a] => some (fout (F64.ofInt a.toInt!))
  | ["ofu64", a] => some (fout (F64.ofNat a.toNat!))
  | ["parse", h] => some (match F64.parse (unhex h) with | some x => "some " ++ fout x | none => "none")
  | ["display", a] => some (hex (F64.display (fbits a)))
  | _ => none

def runCmp (r : List String) : Option String := do
  let (a, r) ← parseVal r
  let (b, _) ← parseVal r
  pure s!"{ordStr (Value.cmp a b)} {tf (Value.eq a b)} {tf (Value.isEmpty a)} {tf (Value.asBool a)} {tf (Value.lt a b)}{tf (Value.le a b)}{tf (Value.gt a b)}{tf (Value.ge a b)}{tf (!Value.eq a b)}"

def runEval (r : List String) : Option String := do
  let (senv, r) ← parseEnv noStdlib r
  let (e, _) ← parseExpr r
  let env := senv.toEnv fold
  let m := evalT env e
  let s := spec env e
  pure s!"{showRes m.1} ; {showTrace m.2} | {showRes s.1.toExcept} ; {showTrace s.2}"

def step (line : String) : String :=
  let r := match (line.trimAscii.toString.splitOn " ").filter (· ≠ "") with
    | "num" :: r => runNum r
    | "cmp" :: r => runCmp r
    | "eval" :: r => runEval r
    | _ => none
  r.getD "bad"

partial def loop (h out : IO.FS.Stream) : IO Unit := do
  let line ← h.getLine
  if line.isEmpty then return ()
  out.putStrLn (step line)
  loop h out

def main : IO Unit := do loop (← IO.getStdin) (← IO.getStdout)
