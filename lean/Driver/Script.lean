/-
  Driver.Script — model side of the `script` stream: scan, parse, validate, execute, optimize, execute again, against a
  StaticEnv holding every row of the regenerated builtin table with its model function from SlacModel.Registry.
-/
import Driver.Codec
import SlacModel.Scanner
import SlacModel.Parser
import SlacModel.Validate
import SlacModel.Optimizer
import SlacModel.Registry
import SlacModel.Generated.Builtins
import SlacProofs.OrderSafe
import SlacModel.DebugFmt
open Slac Codec

namespace Script

def marker : Str := ['\x00', 'u', 'n', 'm']

def stdlibEnv (cm : Stdlib.CaseMap) (off : Nat) : StaticEnv Float :=
  Generated.builtins.foldl (fun s row =>
    let nm := String.ofList row.name
    let reg : Option (Registry.F Float) := if nm == "str" then some (Registry.tot DebugFmt.strF) else Registry.builtin (N := Float) cm off nm
    let run : List V → Except NativeError V := match reg with
      | some f => fun args =>
        -- sort/max/min on collections outside the Safe ordering domain: Rust leaves the result unspecified (known finding)
        if (nm == "sort" || nm == "max" || nm == "min") && !Order.safeB (Stdlib.smartVec args) then .error (.custom marker) else
        match f args with | some r => r | none => .error (.custom marker)
      | none => fun _ => .error (.custom marker)
    let arity := match row.kind with | 0 => Arity.polyadic row.req row.opt | 1 => .variadic | _ => .none
    s.addFunction fold { name := row.name, arity, pure := row.pure, run, tag := 0 }) StaticEnv.empty

def isMarked : Except Err V → Bool
  | .error (.native _ (.custom m)) => m == marker
  | _ => false

def showChkV : Except VErr Unit → String
  | .ok _ => "ok"
  | .error (.missingVariable n) => "err MissingVariable " ++ hex n
  | .error (.missingFunction n) => "err MissingFunction " ++ hex n
  | .error (.paramCountMismatch n a b c) => s!"err ParamCountMismatch {hex n} {a} {b} {c}"
  | .error (.invalidUnaryOperator op) => "err InvalidUnaryOperator " ++ opName op
  | .error (.invalidBinaryOperator op) => "err InvalidBinaryOperator " ++ opName op
  | .error (.invalidTernaryOperator op) => "err InvalidTernaryOperator " ++ opName op
  | .error .literalNotBoolean => "err LiteralNotBoolean"

def run (cc : Scanner.CharClass) (cm : Stdlib.CaseMap) (r : List String) : Option String :=
  match r with
  | h :: nv :: r => do
    let pv : P (Str × V) := fun r => match r with
      | n :: r => (parseVal r).map fun (v, r) => ((unhex n, v), r)
      | [] => none
    let (vars, _) ← parseN pv nv.toNat! r []
    let senv := vars.foldl (fun s (n, v) => s.addVariable fold n v) (stdlibEnv cm 1)
    let env := senv.toEnv fold
    match Scanner.scan (N := Float) cc (unhex h) with
    | .err e => pure ("err " ++ showCErr e)
    | .ok ts =>
      match Parser.parse ts with
      | .err e => pure ("err " ++ showCErr e)
      | .ok e =>
        let r1 := evalR env e
        let (o, e2) := match Opt.optimize env (Opt.mu e + 1) e with
          | .ok t => ("ok", t)
          | .err t er => ("err " ++ showErr er, t)
          | .outOfFuel => ("outOfFuel", e)
        let r2 := evalR env e2
        let optMarked := match Opt.optimize env (Opt.mu e + 1) e with | .err _ er => isMarked (.error er) | _ => false
        if isMarked r1 || isMarked r2 || optMarked then pure "unmodelled" else
        pure s!"ok ; chk {showChkV (checkVF env e)} ; bool {showChkV (checkBool e)} ; exec {showRes r1} ; opt {o} ; exec2 {showRes r2}"
      | _ => pure "outOfFuel"
    | _ => pure "outOfFuel"
  | _ => none

end Script
