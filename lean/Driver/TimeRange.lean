/-
  Driver.TimeRange — model side of the `tmrange` stream (C16): the same ranges evaluated with SlacModel.Time on Float,
  answering `viol <n> digest <hex>` (mirror of harness/src/timerange.rs).
-/
import SlacModel.Time
open Slac Slac.Time

namespace TimeRange
abbrev V := Value Float

def fnum : Except NativeError V → Option Float | .ok (.num x) => some x | _ => none
def n (x : Int) : V := .num (F64.ofInt x)
def mix (d : UInt64) (x : Float) : UInt64 := d * 0x100000001B3 + x.toBits
def feq (a : Option Float) (b : Int) : Bool := match a with | some x => x.toBits == (F64.ofInt b).toBits || (x == F64.ofInt b) | none => false

structure Acc where
  viol : Nat := 0
  digest : UInt64 := 0

def pad (w : Nat) (k : Nat) : Str := Time.pad w k

def dateText (y : Int) (m d : Nat) : Str := pad 4 y.toNat ++ ['-'] ++ pad 2 m ++ ['-'] ++ pad 2 d

def stepDate (a : Acc) (z : Int) : Acc :=
  let (y, m, d) := civilFromDays z
  match fnum (encodeDate [n y, n m, n d]) with
  | none => { a with viol := a.viol + 1 }
  | some x =>
    let a := { a with digest := mix a.digest x }
    if !(x == F64.ofInt z) then { a with viol := a.viol + 1 } else
    let xv : V := .num x
    let ok := feq (fnum (year [xv])) y && feq (fnum (month [xv])) m && feq (fnum (day [xv])) d
      && feq (fnum (dayOfWeek [xv])) ((z + 3) % 7) && (match isLeapYear [xv] with | .ok (.bool b) => b == isLeap y | _ => false)
      && feq (fnum (hour [xv])) 0 && feq (fnum (millisecond [xv])) 0
    if !ok then { a with viol := a.viol + 1 } else
    if 0 ≤ y && y ≤ 9999 then
      let s := dateText y m d
      let p := match dateToString [.str "%Y-%m-%d".toList, xv] with | some (.ok (.str t)) => t == s | _ => false
      let q := match stringToDate [.str s] with | some r => (match fnum r with | some x2 => x2 == x | none => false) | none => false
      if p && q then a else { a with viol := a.viol + 1 }
    else a

def stepMs (a : Acc) (ms : Int) : Acc :=
  let h := ms / 3600000; let mi := ms / 60000 % 60; let s := ms / 1000 % 60; let ml := ms % 1000
  match fnum (encodeTime [n h, n mi, n s, n ml]) with
  | none => { a with viol := a.viol + 1 }
  | some x =>
    let a := { a with digest := mix a.digest x }
    if !(x == F64.ofInt ms / 86400000) then { a with viol := a.viol + 1 } else
    let xv : V := .num x
    let ok := feq (fnum (hour [xv])) h && feq (fnum (minute [xv])) mi && feq (fnum (second [xv])) s && feq (fnum (millisecond [xv])) ml
    if ok then a else { a with viol := a.viol + 1 }

def splitmix (st : UInt64) : UInt64 × UInt64 :=
  let st := st + 0x9E3779B97F4A7C15
  let z := st
  let z := (z ^^^ (z >>> 30)) * 0xBF58476D1CE4E5B9
  let z := (z ^^^ (z >>> 27)) * 0x94D049BB133111EB
  (st, z ^^^ (z >>> 31))

def dim (y : Int) (m : Nat) : Nat := daysInMonth y m

def stepCombo (near : Bool) (p : Acc × UInt64) : Acc × UInt64 :=
  let (a, st) := p
  let (st, r1) := splitmix st; let (st, r2) := splitmix st; let (st, r3) := splitmix st
  let z : Int := if !near then (r1 % 3652059).toNat - 719162 else if (r1 >>> 40) &&& 1 == 0 then (r1 % 1025).toNat - 512 else (r1 % 140001).toNat - 70000
  let ms : Int := if near && (r2 >>> 40) &&& 1 == 0 then ((r2 % 86400) * 1000).toNat else (r2 % 86400000).toNat
  let k : Int := if near then (r3 % 241).toNat - 120 else (r3 % 48001).toNat - 24000
  let (y, m, d) := civilFromDays z
  let h := ms / 3600000; let mi := ms / 60000 % 60; let s := ms / 1000 % 60; let ml := ms % 1000
  match fnum (encodeDate [n y, n m, n d]), fnum (encodeTime [n h, n mi, n s, n ml]) with
  | some xd, some xt =>
    let x := xd + xt
    let a := { a with digest := mix a.digest x }
    let xv : V := .num x
    let ok := feq (fnum (year [xv])) y && feq (fnum (month [xv])) m && feq (fnum (day [xv])) d
      && feq (fnum (hour [xv])) h && feq (fnum (minute [xv])) mi && feq (fnum (second [xv])) s && feq (fnum (millisecond [xv])) ml
    if !ok then ({ a with viol := a.viol + 1 }, st) else
    let a :=
      if ml == 0 then
        let txt := dateText y m d ++ [' '] ++ pad 2 h.toNat ++ [':'] ++ pad 2 mi.toNat ++ [':'] ++ pad 2 s.toNat
        match (stringToDatetime [.str txt]).bind fnum with
        | some x2 =>
          let a := { a with digest := mix a.digest x2 }
          let x2v : V := .num x2
          let okS := feq (fnum (second [x2v])) s && feq (fnum (day [x2v])) d &&
            (match dateToString [.str "%Y-%m-%d %H:%M:%S".toList, x2v] with | some (.ok (.str t)) => t == txt | _ => false)
          if okS then a else { a with viol := a.viol + 1 }
        | none => { a with viol := a.viol + 1 }
      else a
    match fnum (incMonth [xv, n k]) with
    | some x3 =>
      let a := { a with digest := mix a.digest x3 }
      let tot := y * 12 + ((m : Int) - 1) + k; let y3 := tot / 12; let m3 := (tot % 12).toNat + 1
      let x3v : V := .num x3
      let ok3 := feq (fnum (year [x3v])) y3 && feq (fnum (month [x3v])) m3 && feq (fnum (day [x3v])) (min d (dim y3 m3))
        && feq (fnum (hour [x3v])) h && feq (fnum (minute [x3v])) mi && feq (fnum (second [x3v])) s && feq (fnum (millisecond [x3v])) ml
      (if ok3 then a else { a with viol := a.viol + 1 }, st)
    | none => ({ a with viol := a.viol + 1 }, st)
  | _, _ => ({ a with viol := a.viol + 1 }, st)

def isErr : Except NativeError V → Bool | .error _ => true | .ok _ => false
def isErrO : Option (Except NativeError V) → Bool | some (.error _) => true | _ => false

/-- rejections (mirror of the harness's "r" ranges): every listed invalid date / time must be an error value -/
def stepReject (a : Acc) (i : Int) : Acc :=
  let y := 1 + (i * 37) % 9999
  let feb : Int := if isLeap y then 30 else 29
  let badDates : List (Int × Int × Int) := [(y, 13, 1), (y, 0, 1), (y, 2, feb), (y, 2, 30), (y, 4, 31), (y, 1, 0), (y, 1, 32), (y, 12, 32), (y, -1, 5)]
  let a := badDates.foldl (fun (a : Acc) (p : Int × Int × Int) =>
    let (yy, mm, dd) := p
    let a := if isErr (encodeDate [n yy, n mm, n dd]) then a else { a with viol := a.viol + 1 }
    if 0 ≤ mm && mm ≤ 99 && 0 ≤ dd && dd ≤ 99 then
      (if isErrO (stringToDate [.str (pad 4 yy.toNat ++ ['-'] ++ pad 2 mm.toNat ++ ['-'] ++ pad 2 dd.toNat)]) then a else { a with viol := a.viol + 1 })
    else a) a
  let h := i % 24; let mi := (i * 7) % 60; let s := (i * 11) % 60
  let badTimes : List (Int × Int × Int) := [(24, mi, s), (25 + i % 40, mi, s), (h, 60, s), (h, 61 + i % 30, s), (h, mi, 60), (h, mi, 61 + i % 30), (h, mi, 99)]
  let a := badTimes.foldl (fun (a : Acc) (p : Int × Int × Int) =>
    let (hh, mm, ss) := p
    let txt := pad 2 hh.toNat ++ [':'] ++ pad 2 mm.toNat ++ [':'] ++ pad 2 ss.toNat
    let a := if isErr (encodeTime [n hh, n mm, n ss]) then a else { a with viol := a.viol + 1 }
    let a := if isErrO (stringToTime [.str txt]) then a else { a with viol := a.viol + 1 }
    if isErrO (stringToDatetime [.str ("2024-03-01 ".toList ++ txt)]) then a else { a with viol := a.viol + 1 }) a
  [(-1, mi, s), (h, -1, s), (h, mi, -1)].foldl (fun (a : Acc) (p : Int × Int × Int) =>
    let (hh, mm, ss) := p
    if isErr (encodeTime [n hh, n mm, n ss]) then a else { a with viol := a.viol + 1 }) a

def iterate {α : Type} (f : α → α) : Nat → α → α
  | 0, a => a
  | k + 1, a => iterate f k (f a)

def hex16 (d : UInt64) : String :=
  let ds := Nat.toDigits 16 d.toNat
  String.ofList (List.replicate (16 - ds.length) '0' ++ ds)

def run : List String → Option String
  | [kind, start, cnt] =>
    let s := start.toInt!; let c := cnt.toNat!
    let a : Acc := match kind with
      | "d" => (List.range c).foldl (fun (a : Acc) (i : Nat) => stepDate a (s + Int.ofNat i)) {}
      | "t" => (List.range c).foldl (fun (a : Acc) (i : Nat) => stepMs a (s + Int.ofNat i)) {}
      | "r" => (List.range c).foldl (fun (a : Acc) (i : Nat) => stepReject a (s + Int.ofNat i)) {}
      | "n" => (iterate (stepCombo true) c ({}, UInt64.ofNat (s.toNat % 2^64))).1
      | _ => (iterate (stepCombo false) c ({}, UInt64.ofNat (s.toNat % 2^64))).1
    some s!"viol {a.viol} digest {hex16 a.digest}"
  | _ => none

end TimeRange
