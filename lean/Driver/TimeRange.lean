/-
  Driver.TimeRange — model side of the `tmrange` stream (C16): the same ranges evaluated with SlacModel.Time on Float,
  answering `viol <n> digest <hex>` (mirror of harness/src/timerange.rs).
-/
import SlacModel.Time
open Slac Slac.Time

namespace TimeRange
abbrev V := Value Float

def fnum : Except NativeError V → Option Float | .ok (.num x) => some x | _ => none
def n (x : Int) : V := .num (F64.ofInt x)
def mix (d : UInt64) (x : Float) : UInt64 := d * 0x100000001B3 + x.toBits
def feq (a : Option Float) (b : Int) : Bool := match a with | some x => x.toBits == (F64.ofInt b).toBits || (x == F64.ofInt b) | none => false

structure Acc where
  viol : Nat := 0
  digest : UInt64 := 0

def pad (w : Nat) (k : Nat) : Str := Time.pad w k

def dateText (y : Int) (m d : Nat) : Str := pad 4 y.toNat ++ ['-'] ++ pad 2 m ++ ['-'] ++ pad 2 d

def stepDate (a : Acc) (z : Int) : Acc :=
  let (y, m, d) := civilFromDays z
  match fnum (encodeDate [n y, n m, n d]) with
  | none => { a with viol := a.viol + 1 }
  | some x =>
    let a := { a with digest := mix a.digest x }
    if !(x == F64.ofInt z) then { a with viol := a.viol + 1 } else
    let xv : V := .num x
    let ok := feq (fnum (year [xv])) y && feq (fnum (month [xv])) m && feq (fnum (day [xv])) d
      && feq (fnum (dayOfWeek [xv])) ((z + 3) % 7) && (match isLeapYear [xv] with | .ok (.bool b) => b == isLeap y | _ => false)
      && feq (fnum (hour [xv])) 0 && feq (fnum (millisecond [xv])) 0
    if !ok then { a with viol := a.viol + 1 } else
    if 0 ≤ y && y ≤ 9999 then
      let s := dateText y m d
      let p := match dateToString [.str "%Y-%m-%d".toList, xv] with | some (.ok (.str t)) => t == s | _ => false
      let q := match stringToDate [.str s] with | some r => (match fnum r with | some x2 => x2 == x | none => false) | none => false
      if p && q then a else { a with viol := a.viol + 1 }
    else a

def stepMs (a : Acc) (ms : Int) : Acc :=
  let h := ms / 3600000; let mi := ms / 60000 % 60; let s := ms / 1000 % 60; let ml := ms % 1000
  match fnum (encodeTime [n h, n mi, n s, n ml]) with
  | none => { a with viol := a.viol + 1 }
  | some x =>
    let a := { a with digest := mix a.digest x }
    if !(x == F64.ofInt ms / 86400000) then { a with viol := a.viol + 1 } else
    let xv : V := .num x
    let ok := feq (fnum (hour [xv])) h && feq (fnum (minute [xv])) mi && feq (fnum (second [xv])) s && feq (fnum (millisecond [xv])) ml
    if ok then a else { a with viol := a.viol + 1 }

def splitmix (st : UInt64) : UInt64 × UInt64 :=
  let st := st + 0x9E3779B97F4A7C15
  let z := st
  let z := (z ^^^ (z >>> 30)) * 0xBF58476D1CE4E5B9
  let z := (z ^^^ (z >>> 27)) * 0x94D049BB133111EB
  (st, z ^^^ (z >>> 31))

def dim (y : Int) (m : Nat) : Nat := daysInMonth y m

def stepCombo (p : Acc × UInt64) : Acc × UInt64 :=
  let (a, st) := p
  let (st, r1) := splitmix st; let (st, r2) := splitmix st; let (st, r3) := splitmix st
  let z : Int := (r1 % 3652059).toNat - 719162; let ms : Int := (r2 % 86400000).toNat; let k : Int := (r3 % 48001).toNat - 24000
  let (y, m, d) := civilFromDays z
  let h := ms / 3600000; let mi := ms / 60000 % 60; let s := ms / 1000 % 60; let ml := ms % 1000
  match fnum (encodeDate [n y, n m, n d]), fnum (encodeTime [n h, n mi, n s, n ml]) with
  | some xd, some xt =>
    let x := xd + xt
    let a := { a with digest := mix a.digest x }
    let xv : V := .num x
    let ok := feq (fnum (year [xv])) y && feq (fnum (month [xv])) m && feq (fnum (day [xv])) d
      && feq (fnum (hour [xv])) h && feq (fnum (minute [xv])) mi && feq (fnum (second [xv])) s && feq (fnum (millisecond [xv])) ml
    if !ok then ({ a with viol := a.viol + 1 }, st) else
    let a :=
      if ml == 0 then
        let txt := dateText y m d ++ [' '] ++ pad 2 h.toNat ++ [':'] ++ pad 2 mi.toNat ++ [':'] ++ pad 2 s.toNat
        match (stringToDatetime [.str txt]).bind fnum with
        | some x2 =>
          let a := { a with digest := mix a.digest x2 }
          let x2v : V := .num x2
          let okS := feq (fnum (second [x2v])) s && feq (fnum (day [x2v])) d &&
            (match dateToString [.str "%Y-%m-%d %H:%M:%S".toList, x2v] with | some (.ok (.str t)) => t == txt | _ => false)
          if okS then a else { a with viol := a.viol + 1 }
        | none => { a with viol := a.viol + 1 }
      else a
    match fnum (incMonth [xv, n k]) with
    | some x3 =>
      let a := { a with digest := mix a.digest x3 }
      let tot := y * 12 + ((m : Int) - 1) + k; let y3 := tot / 12; let m3 := (tot % 12).toNat + 1
      let x3v : V := .num x3
      let ok3 := feq (fnum (year [x3v])) y3 && feq (fnum (month [x3v])) m3 && feq (fnum (day [x3v])) (min d (dim y3 m3))
        && feq (fnum (hour [x3v])) h && feq (fnum (minute [x3v])) mi && feq (fnum (second [x3v])) s && feq (fnum (millisecond [x3v])) ml
      (if ok3 then a else { a with viol := a.viol + 1 }, st)
    | none => ({ a with viol := a.viol + 1 }, st)
  | _, _ => ({ a with viol := a.viol + 1 }, st)

def iterate {α : Type} (f : α → α) : Nat → α → α
  | 0, a => a
  | k + 1, a => iterate f k (f a)

def hex16 (d : UInt64) : String :=
  let ds := Nat.toDigits 16 d.toNat
  String.ofList (List.replicate (16 - ds.length) '0' ++ ds)

def run : List String → Option String
  | [kind, start, cnt] =>
    let s := start.toInt!; let c := cnt.toNat!
    let a : Acc := match kind with
      | "d" => (List.range c).foldl (fun (a : Acc) (i : Nat) => stepDate a (s + Int.ofNat i)) {}
      | "t" => (List.range c).foldl (fun (a : Acc) (i : Nat) => stepMs a (s + Int.ofNat i)) {}
      | _ => (iterate stepCombo c ({}, UInt64.ofNat (s.toNat % 2^64))).1
    some s!"viol {a.viol} digest {hex16 a.digest}"
  | _ => none

end TimeRange
