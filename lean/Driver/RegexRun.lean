/-
  Driver.RegexRun — answers `re_is_match`, `re_find`, `re_capture`, `re_replace` calls with the concrete engine
  model of SlacModel.RegexEngine.  `none` = not modelled (other function name, a pattern outside the supported
  subset, or a (pattern, haystack) pair on which the backtracking model would take too long).

  The model is a backtracking matcher and can take exponential time where regex-lite's PikeVM is linear.  The
  driver therefore first replays the search with an instrumented COPY of the matcher (`mB` … `withinBudget`) that
  counts steps and gives up beyond `budget`; only when that run completes is the model itself evaluated.  The copy
  decides nothing but whether an answer is given: every answer comes from `RegexEngine.engine`.
-/
import SlacModel.RegexEngine
import SlacModel.NumX
open Slac

namespace RegexRun
open RegexEngine

/-- outcome of a budgeted run: finished with `left` steps to spare, or out of budget -/
inductive Out (α : Type)
  | done (r : α) (left : Nat)
  | out

abbrev KB := Cur → Caps → Nat → Out (Option Res)
abbrev MB := Cur → Caps → KB → Nat → Out (Option Res)

def orElseB (x : Out (Option Res)) (y : Nat → Out (Option Res)) : Out (Option Res) :=
  match x with
  | .done none b => y b
  | o => o

def repExactB (body : MB) : Nat → MB
  | 0, cur, caps, k, b => k cur caps b
  | n + 1, cur, caps, k, b => body cur caps (fun c' caps' b' => repExactB body n c' caps' k b') b

def repOptB (body : MB) (greedy : Bool) : Nat → MB
  | 0, cur, caps, k, b => k cur caps b
  | n + 1, cur, caps, k, b =>
    if greedy then orElseB (body cur caps (fun c' caps' b' => repOptB body greedy n c' caps' k b') b) (k cur caps)
    else orElseB (k cur caps b) (body cur caps (fun c' caps' b' => repOptB body greedy n c' caps' k b'))

def repStarB (body : MB) (greedy : Bool) : Nat → MB
  | 0, cur, caps, k, b => k cur caps b
  | f + 1, cur, caps, k, b =>
    let again : Nat → Out (Option Res) := body cur caps
      (fun c' caps' b' => if c'.rest.length < cur.rest.length then repStarB body greedy f c' caps' k b' else .done none b')
    if greedy then orElseB (again b) (k cur caps) else orElseB (k cur caps b) again

def mB : Ast → MB
  | _, _, _, _, 0 => .out
  | .empty, cur, caps, k, b + 1 => k cur caps b
  | .chr c, cur, caps, k, b + 1 =>
    match cur.rest with
    | [] => .done none b
    | d :: t => if d = c then k (cur.adv d t) caps b else .done none b
  | .cls rs, cur, caps, k, b + 1 =>
    match cur.rest with
    | [] => .done none b
    | d :: t => if inRanges rs d then k (cur.adv d t) caps b else .done none b
  | .look l, cur, caps, k, b + 1 => if lookOk l cur then k cur caps b else .done none b
  | .rep mn mx g x, cur, caps, k, b + 1 =>
    repExactB (mB x) mn cur caps (fun c caps' b' =>
      match mx with
      | none => repStarB (mB x) g c.rest.length c caps' k b'
      | some n => repOptB (mB x) g (n - mn) c caps' k b') b
  | .cap i x, cur, caps, k, b + 1 => mB x cur caps (fun c' caps' b' => k c' (caps'.set i (some (cur.i, c'.i))) b') b
  | .cat a c, cur, caps, k, b + 1 => mB a cur caps (fun c' caps' b' => mB c c' caps' k b') b
  | .alt a c, cur, caps, k, b + 1 => orElseB (mB a cur caps k b) (mB c cur caps k)

def acceptB : KB := fun c caps b => .done (some (c, caps)) b

def searchFromB (re : Compiled) : Nat → Option Char → Str → Nat → Out (Option Mt)
  | i, prev, [], b =>
    match mB re.ast ⟨i, prev, []⟩ (List.replicate re.ncap none) acceptB b with
    | .done (some r) b' => .done (some ⟨i, r.1, r.2⟩) b'
    | .done none b' => .done none b'
    | .out => .out
  | i, prev, c :: t, b =>
    match mB re.ast ⟨i, prev, c :: t⟩ (List.replicate re.ncap none) acceptB b with
    | .done (some r) b' => .done (some ⟨i, r.1, r.2⟩) b'
    | .done none b' => searchFromB re (i + 1) (some c) t b'
    | .out => .out

/-- `findIterAux` with a step budget: `true` = completed -/
def findIterB (re : Compiled) : Nat → Cur → Option Nat → Nat → Bool
  | 0, _, _, _ => true
  | f + 1, cur, last, b =>
    match searchFromB re cur.i cur.prev cur.rest b with
    | .out => false
    | .done none _ => true
    | .done (some x) b' =>
      if x.isEmptyMatch && last == some x.e.i then
        match cur.rest with
        | [] => true
        | c :: t =>
          match searchFromB re (cur.i + 1) (some c) t b' with
          | .out => false
          | .done none _ => true
          | .done (some y) b'' => findIterB re f y.e (some y.e.i) b''
      else findIterB re f x.e (some x.e.i) b'

def budget : Nat := 3000000

def withinBudget (re : Compiled) (h : Str) : Bool := findIterB re (h.length + 2) (cur0 h) none budget

/-- reason why the model does not answer for these arguments, if any -/
def unsupportedWhy (args : List (Value Float)) : Option String :=
  match args with
  | .str h :: .str p :: _ =>
    match compileP p with
    | .unsup w => some w
    | .err _ => none
    | .ok re => if withinBudget re h then none else some "budget"
  | _ :: .str p :: _ => RegexEngine.unsupportedWhy p
  | _ => none

def run (name : String) (args : List (Value Float)) : Option (Stdlib.Res Float) :=
  if (unsupportedWhy args).isSome then none else
  match name with
  | "re_is_match" => some (Regex.isMatch RegexEngine.engine args)
  | "re_find" => some (Regex.find RegexEngine.engine args)
  | "re_capture" => some (Regex.capture RegexEngine.engine args)
  | "re_replace" => some (Regex.replace RegexEngine.engine args)
  | _ => none

end RegexRun
