/-
  C01 (parser half) — compiling inverts rendering.

  "For every expression tree that can be written in source syntax, rendering it to text — fully parenthesised, or with
  only the parentheses required by the documented precedence order (or < and < xor < equality < comparison < additive
  < multiplicative < unary < call) and left-associativity of binary operators — and compiling that text yields exactly
  that tree.  Conversely, whenever compile accepts a text, re-rendering the tree it produced and compiling again
  reproduces the same tree."

  This file is the token-level half (`Compiler::compile_ast`, modelled by `Slac.Parser.parse`); the text level
  (scanner / un-lexer) is a separate file.

  * "every parenthesisation style" is the judgement `Rn 1 e ts` of SlacModel.Render: required parentheses present,
    any number of redundant ones anywhere.  `renderMin` (only required) and `renderFull` (all) are two instances.
  * "every source-expressible tree" is `SrcExpr e`: unary ∈ {minus, not}, binary ∈ the 15 binary operators, no ternary
    node, arbitrary literal values and names, arrays and calls of any length, any shape and depth.
  * `parse` runs the model with the fixed fuel `4 * length + 4`; no theorem below has a fuel side condition.
-/
import SlacProofs.ParserKey
import SlacProofs.ParserRender
set_option autoImplicit false
namespace Slac.C01
open Slac.Parser Slac.Render
variable {N : Type}

/-! ### 1. any rendering compiles to the tree it renders -/

/-- Pratt-loop lemma at top level: some fuel parses a rendering of `e` to exactly `e`, consuming everything. -/
theorem parse_of_renders {e : Expr N} {ts : List (Token N)} (h : Rn 1 e ts) :
    ∃ f, parsePrec f 1 ts = .ok (e, []) :=
  parsePrec_of_renders h

/-- … and so does the fixed fuel of `parse` (no hypothesis on `e` needed: `Rn` only renders source trees). -/
theorem parse_rendering {e : Expr N} {ts : List (Token N)} (h : Rn 1 e ts) : parse ts = .ok e := by
  obtain ⟨f, hf⟩ := parse_of_renders h
  unfold parse
  rw [parsePrec_at_parseFuel hf]
  rfl

theorem parse_renders {e : Expr N} {ts : List (Token N)} (_ : SrcExpr e) (h : Rn 1 e ts) : parse ts = .ok e :=
  parse_rendering h

/-- what `Rn` can render is exactly the source-expressible trees (⊆ here, ⊇ is `renderMin_renders`) -/
theorem renders_src {q : Nat} {e : Expr N} {ts : List (Token N)} (h : Rn q e ts) : SrcExpr e := rn_src h

/-! ### 2. the two executable renderers -/

theorem renderMin_renders {e : Expr N} (h : SrcExpr e) : Rn 1 e (renderMin e) := renderAt_renders 1 h

theorem renderFull_renders {e : Expr N} (h : SrcExpr e) : Rn 1 e (renderFull e) :=
  renderFull_full e h 1 (by omega)

theorem parse_renderMin {e : Expr N} (h : SrcExpr e) : parse (renderMin e) = .ok e :=
  parse_renders h (renderMin_renders h)

theorem parse_renderFull {e : Expr N} (h : SrcExpr e) : parse (renderFull e) = .ok e :=
  parse_renders h (renderFull_renders h)

/-! ### 3. the parser only produces source-expressible trees -/

theorem parse_ok_iff {ts : List (Token N)} {e : Expr N} :
    parse ts = .ok e ↔ parsePrec (parseFuel ts.length) 1 ts = .ok (e, []) := by
  unfold parse finish
  constructor
  · intro h
    split at h
    · rename_i heq; cases h; exact heq
    all_goals cases h
  · intro h; rw [h]

theorem parse_wf {ts : List (Token N)} {e : Expr N} (h : parse ts = .ok e) : SrcExpr e :=
  (parser_wf _).1 _ _ _ (parse_ok_iff.1 h)

/-! ### 4. the converse direction -/

theorem reparse {ts : List (Token N)} {e : Expr N} (h : parse ts = .ok e) : parse (renderMin e) = .ok e :=
  parse_renderMin (parse_wf h)

theorem reparse_full {ts : List (Token N)} {e : Expr N} (h : parse ts = .ok e) : parse (renderFull e) = .ok e :=
  parse_renderFull (parse_wf h)

/-- any re-rendering, not just the two executable ones -/
theorem reparse_any {ts ts' : List (Token N)} {e : Expr N} (_ : parse ts = .ok e) (h' : Rn 1 e ts') :
    parse ts' = .ok e :=
  parse_rendering h'

/-- consequently two renderings of different trees are different token lists -/
theorem renders_injective {e e' : Expr N} {ts : List (Token N)} (h : Rn 1 e ts) (h' : Rn 1 e' ts) : e = e' := by
  have h1 := parse_rendering h
  rw [parse_rendering h'] at h1
  cases h1; rfl

/-! ### 5. tests (concrete inputs; non-vacuity of the statements above) -/

section tests
private abbrev a : Expr Nat := .var ['a']
private abbrev b : Expr Nat := .var ['b']
private abbrev c : Expr Nat := .var ['c']
private abbrev ta : Token Nat := .identifier ['a']
private abbrev tb : Token Nat := .identifier ['b']
private abbrev tc : Token Nat := .identifier ['c']

/- test: left associativity, `a - b - c` = `(a - b) - c` -/
example : parse [ta, .minus, tb, .minus, tc] = .ok (.binary (.binary a b .minus) c .minus) := rfl
/- test: `a - (b - c)` keeps its parentheses -/
example : parse [ta, .minus, .leftParen, tb, .minus, tc, .rightParen] = .ok (.binary a (.binary b c .minus) .minus) := rfl
example : renderMin (.binary a (.binary b c .minus) .minus) = [ta, .minus, .leftParen, tb, .minus, tc, .rightParen] := rfl
example : renderMin (.binary (.binary a b .minus) c .minus) = [ta, .minus, tb, .minus, tc] := rfl
/- test: precedence, `a + b * c` = `a + (b * c)`, `a * b + c` = `(a * b) + c` -/
example : parse [ta, .plus, tb, .star, tc] = .ok (.binary a (.binary b c .multiply) .plus) := rfl
example : parse [ta, .star, tb, .plus, tc] = .ok (.binary (.binary a b .multiply) c .plus) := rfl
/- test: `not a and b` = `(not a) and b`;  `-a * b` = `(-a) * b` -/
example : parse [.not, ta, .and, tb] = .ok (.binary (.unary a .not) b .and) := rfl
example : parse [.minus, ta, .star, tb] = .ok (.binary (.unary a .minus) b .multiply) := rfl
/- test: `not (a and b)` needs its parentheses -/
example : renderMin (.unary (.binary a b .and) .not) = [.not, .leftParen, ta, .and, tb, .rightParen] := rfl
/- test: or < and < xor < equality < comparison -/
example : parse [ta, .or, tb, .and, tc] = .ok (.binary a (.binary b c .and) .or) := rfl
example : parse [ta, .and, tb, .xor, tc] = .ok (.binary a (.binary b c .xor) .and) := rfl
example : parse [ta, .xor, tb, .equal, tc] = .ok (.binary a (.binary b c .equal) .xor) := rfl
example : parse [ta, .equal, tb, .less, tc] = .ok (.binary a (.binary b c .less) .equal) := rfl
example : parse [ta, .less, tb, .plus, tc] = .ok (.binary a (.binary b c .plus) .less) := rfl
example : parse [ta, .star, tb, .div, tc] = .ok (.binary (.binary a b .multiply) c .div) := rfl
/- test: calls and arrays; commas are optional and a trailing comma is accepted (quirk of expression_list) -/
example : parse [ta, .leftParen, tb, .comma, tc, .rightParen] = .ok (.call ['a'] [b, c]) := rfl
example : parse [ta, .leftParen, tb, tc, .comma, .rightParen] = .ok (.call ['a'] [b, c]) := rfl
example : parse [.leftBracket, .rightBracket] = .ok (.array ([] : List (Expr Nat))) := rfl
example : parse [.leftBracket, ta, .comma, .leftBracket, tb, .rightBracket, .rightBracket]
    = .ok (.array [a, .array [b]]) := rfl
/- test: the error values of compiler.rs -/
example : parse ([] : List (Token Nat)) = .err .eof := rfl
example : parse ([.minus] : List (Token Nat)) = .err .eof := rfl
example : parse [ta, .plus] = .err .eof := rfl
example : parse [.leftParen, ta] = .err .eof := rfl
example : parse [ta, .leftParen] = .err .eof := rfl
example : parse [.leftBracket, ta] = .err .eof := rfl
example : parse [ta, tb] = .err (.multipleExpressions tb) := rfl
example : parse [ta, .rightParen] = .err (.multipleExpressions .rightParen) := rfl
example : parse [.leftParen, ta, tb] = .err (.invalidToken tb) := rfl
example : parse ([.leftBracket, .comma, .rightBracket] : List (Token Nat)) = .err (.noValidPrefixToken .comma) := rfl
example : parse ([.star] : List (Token Nat)) = .err (.noValidPrefixToken .star) := rfl
example : parse ([.literal (.num 1), .leftParen, .rightParen] : List (Token Nat))
    = .err (.callNotOnVariable .leftParen) := rfl
example : parse [.leftParen, ta, .plus, tb, .rightParen, .leftParen, .rightParen]
    = .err (.callNotOnVariable .leftParen) := rfl
/- test (quirk): a parenthesised variable can still be called, `(a)(b)` = `a(b)`; no rendering has this shape -/
example : parse [.leftParen, ta, .rightParen, .leftParen, tb, .rightParen] = .ok (.call ['a'] [b]) := rfl

/- test: a rendering with redundant parentheses, `((a)) - (b - (c))`, is an `Rn 1` and parses (hypotheses of
   `parse_renders` are satisfiable by something that is neither `renderMin` nor `renderFull`) -/
example : Rn 1 (.binary a (.binary b c .minus) .minus)
    [.leftParen, .leftParen, ta, .rightParen, .rightParen, .minus,
     .leftParen, tb, .minus, .leftParen, tc, .rightParen, .rightParen] :=
  .bare (by decide)
    (.binary (t := .minus) (tl := [.leftParen, .leftParen, ta, .rightParen, .rightParen])
      (tr := [.leftParen, tb, .minus, .leftParen, tc, .rightParen, .rightParen]) rfl
      (.paren (ts := [.leftParen, ta, .rightParen]) (.paren (ts := [ta]) (.bare (by decide) (.var _))))
      (.paren (ts := [tb, .minus, .leftParen, tc, .rightParen])
        (.bare (by decide) (.binary (t := .minus) (tl := [tb]) (tr := [.leftParen, tc, .rightParen]) rfl
          (.bare (by decide) (.var _)) (.paren (ts := [tc]) (.bare (by decide) (.var _)))))))

/- test: instances of the theorems on a tree with every constructor -/
private def big : Expr Nat :=
  .binary (.unary (.call ['f'] [.array [a, .lit (.bool true)], .binary a b .or]) .not)
    (.binary (.lit (.str ['x'])) (.binary b c .mod) .minus) .and
example : SrcExpr big := by decide
example : parse (renderMin big) = .ok big := parse_renderMin (by decide)
example : parse (renderFull big) = .ok big := parse_renderFull (by decide)
example : (renderMin big).length = 19 ∧ (renderFull big).length = 29 := by decide
/- test: trees outside `SrcExpr` (ternary node; `not` as a binary operator) do not round-trip, so the hypothesis is needed -/
example : ¬ SrcExpr (.ternary a b c .ternaryCondition : Expr Nat) := by decide
example : ¬ SrcExpr (.binary a b .not : Expr Nat) := by decide
end tests

end Slac.C01
