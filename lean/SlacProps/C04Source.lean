/-
  C04 — the translator leg of the tie for the tree-walking interpreter.  `SlacModel/Generated/SrcInterp.lean` is
  REGENERATED on every check run by /verif/tools/rs2lean.py from the current text of /repo/src/interpreter.rs
  (`TreeWalkingInterpreter`: expression, unary, binary, boolean, ternary, get_values, array, variable, call).  It is
  a monadic program in `W N = StateM (List (Event N))` (SlacModel/SrcPrelude.lean): the state is the log of the
  calls made on the `&dyn Environment` so far, `envVariable` / `envCall` append one event each.
  The theorems say that the hand-written, compositional model of SlacModel/Interp.lean is exactly the translated
  source, result AND event trace, for every number type `N`, every environment, every tree and EVERY initial log `t`:
    * `interp_is_source`     : `interp_expression env e t = ((evalT env e).1, t ++ (evalT env e).2)`
    * `get_values_is_source` : `get_values_each env es t = ((evalList env es).1, t ++ (evalList env es).2)`
    * `interp_both`          : the two statements above at once (the functions are mutually recursive)
    * `execute_is_source`    : `(interp_expression env e []).1 = evalR env e`          (`slac::execute`)
    * `trace_is_source`      : `(interp_expression env e []).2 = (evalT env e).2`      (the recorded environment calls)
  All statements are the ones asked for; none had to be weakened.
  Proof method: `Expr` is a nested inductive, so the explicit recursor `Expr.rec` with one motive for trees and one
  for lists.  In every constructor case both functions are unfolded one step, the model's results for the children
  (`evalT env child`) are generalised to arbitrary pairs IN THE INDUCTION HYPOTHESES AS WELL (so the hypotheses say
  "running the source on the child from log `t` gives `(res, t ++ tr)`"), and then the proof is a case analysis on
  data only: operator, `Except`, error kind, `Bool`; every leaf is closed by `finish` (= `rfl`, `simp`, or
  `simp <;> split <;> simp_all` with the model's tables and the four `run_*` lemmas).  Nothing refers to a bound
  variable, temporary (`r3`, `a6`, `v2`, …) or generated hypothesis name, and nothing depends on the order of
  independent match arms of the generated file; only the two function names `interp_expression` and
  `get_values_each` are used.  A changed arm in interpreter.rs changes the generated file and breaks one of these proofs.
-/
import SlacModel.Generated.SrcInterp
import SlacModel.Interp
set_option autoImplicit false
set_option linter.unusedSectionVars false
set_option linter.unusedSimpArgs false
set_option linter.unusedVariables false
namespace Slac.C04Source
open Slac.Generated Slac.SrcPrelude
variable {N : Type} [NumOps N]

/-! ### running a `W N` computation from a log `t` -/

theorem run_pure {α : Type} (a : α) (t : List (Event N)) : (pure a : W N α) t = (a, t) := rfl

theorem run_bind {α β : Type} (x : W N α) (f : α → W N β) (t : List (Event N)) :
    (x >>= f) t = f (x t).1 (x t).2 := rfl

/-- `simp` normalises `x >>= fun a => pure (f a)` to `f <$> x` -/
theorem run_map {α β : Type} (f : α → β) (x : W N α) (t : List (Event N)) :
    (f <$> x) t = (f (x t).1, (x t).2) := rfl

/-- `self.environment.variable(name)`: the answer of the environment, one `lookup` event -/
theorem run_variable (env : Env N) (n : Str) (t : List (Event N)) :
    envVariable env n t = (env.var n, t ++ [.lookup n]) := rfl

/-- `self.environment.call(name, params)`: the answer of the environment, one `call` event -/
theorem run_call (env : Env N) (n : Str) (vs : List (Value N)) (t : List (Event N)) :
    envCall env n vs t = (env.call n vs, t ++ [.call n vs]) := rfl

theorem asBool_bool (b : Bool) : Value.asBool (.bool b : Value N) = b := rfl

/-- closes a goal in which every child result has been replaced by constructors: compute both sides -/
local macro "finish" : tactic =>
  `(tactic| first
    | rfl
    | (simp [*, run_pure, run_bind, run_map, run_variable, run_call, unModel, binModel, rightBool, binVal,
        ternModel, Value.lt, Value.le, Value.gt, Value.ge, asBool_bool, Except.mapError]; done)
    | (simp [*, run_pure, run_bind, run_map, run_variable, run_call, unModel, binModel, rightBool, binVal,
        ternModel, Value.lt, Value.le, Value.gt, Value.ge, asBool_bool, Except.mapError] <;> split <;>
       simp_all [run_pure, run_bind, run_map, run_variable, run_call, unModel, binModel, rightBool, binVal,
        ternModel, Value.lt, Value.le, Value.gt, Value.ge, asBool_bool, Except.mapError]; done))

/-- `finish`, after a case split on the kind of error if that is what is missing -/
local macro "finish_err" er:ident : tactic =>
  `(tactic| first | finish | (cases $er:ident <;> finish))

/-! ### one node, given the children -/

/-- `TreeWalkingInterpreter::unary` -/
theorem unary_step (env : Env N) (r : Expr N) (op : Op)
    (ih : ∀ t : List (Event N), SrcInterp.interp_expression env r t = ((evalT env r).1, t ++ (evalT env r).2))
    (t : List (Event N)) :
    SrcInterp.interp_expression env (.unary r op) t
      = ((evalT env (.unary r op)).1, t ++ (evalT env (.unary r op)).2) := by
  simp only [SrcInterp.interp_expression, evalT, run_bind, run_pure, ih]
  generalize evalT env r = p at *
  obtain ⟨res, tr⟩ := p
  cases res <;> cases op <;> finish

/-- `TreeWalkingInterpreter::binary` and both instances of `boolean`: the left operand is run first; then the arm
    selected by (operator, left result) decides whether the right operand is run at all -/
theorem binary_step (env : Env N) (l r : Expr N) (op : Op)
    (ihl : ∀ t : List (Event N), SrcInterp.interp_expression env l t = ((evalT env l).1, t ++ (evalT env l).2))
    (ihr : ∀ t : List (Event N), SrcInterp.interp_expression env r t = ((evalT env r).1, t ++ (evalT env r).2))
    (t : List (Event N)) :
    SrcInterp.interp_expression env (.binary l r op) t
      = ((evalT env (.binary l r op)).1, t ++ (evalT env (.binary l r op)).2) := by
  simp only [SrcInterp.interp_expression, evalT, run_bind, run_pure, ihl]
  generalize evalT env l = pl at *
  generalize evalT env r = pr at *
  obtain ⟨resl, tl⟩ := pl
  obtain ⟨resr, tr⟩ := pr
  -- first the data that selects the arm (left result, its truth value / error kind, operator), which collapses
  -- the outer matches of both sides; only then the right result
  cases resl with
  | ok lv =>
    by_cases hb : Value.asBool lv = true <;> cases op <;>
      simp only [binModel, run_bind, run_pure, ihr] <;>
      (cases resr with
       | ok rv => finish
       | error er => finish_err er)
  | error el =>
    cases el <;> cases op <;>
      simp only [binModel, run_bind, run_pure, ihr] <;>
      (cases resr with
       | ok rv => finish
       | error er => finish_err er)

/-- `TreeWalkingInterpreter::ternary` -/
theorem ternary_step (env : Env N) (l m r : Expr N) (op : Op)
    (ihl : ∀ t : List (Event N), SrcInterp.interp_expression env l t = ((evalT env l).1, t ++ (evalT env l).2))
    (ihm : ∀ t : List (Event N), SrcInterp.interp_expression env m t = ((evalT env m).1, t ++ (evalT env m).2))
    (ihr : ∀ t : List (Event N), SrcInterp.interp_expression env r t = ((evalT env r).1, t ++ (evalT env r).2))
    (t : List (Event N)) :
    SrcInterp.interp_expression env (.ternary l m r op) t
      = ((evalT env (.ternary l m r op)).1, t ++ (evalT env (.ternary l m r op)).2) := by
  simp only [SrcInterp.interp_expression, evalT]
  generalize evalT env l = pl at *
  generalize evalT env m = pm at *
  generalize evalT env r = pr at *
  obtain ⟨resl, tl⟩ := pl
  obtain ⟨resm, tm⟩ := pm
  obtain ⟨resr, tr⟩ := pr
  cases op <;> cases resl with
  | error el => finish
  | ok lv => by_cases hb : Value.asBool lv = true <;> finish

/-- `TreeWalkingInterpreter::array` -/
theorem array_step (env : Env N) (es : List (Expr N))
    (ih : ∀ t : List (Event N),
      SrcInterp.get_values_each env es t = ((evalList env es).1, t ++ (evalList env es).2))
    (t : List (Event N)) :
    SrcInterp.interp_expression env (.array es) t
      = ((evalT env (.array es)).1, t ++ (evalT env (.array es)).2) := by
  simp only [SrcInterp.interp_expression, evalT]
  generalize evalList env es = p at *
  obtain ⟨res, tr⟩ := p
  cases res <;> finish

/-- a literal -/
theorem lit_step (env : Env N) (v : Value N) (t : List (Event N)) :
    SrcInterp.interp_expression env (.lit v) t
      = ((evalT env (.lit v)).1, t ++ (evalT env (.lit v)).2) := by
  simp only [SrcInterp.interp_expression, evalT]
  finish

/-- `TreeWalkingInterpreter::variable` -/
theorem var_step (env : Env N) (n : Str) (t : List (Event N)) :
    SrcInterp.interp_expression env (.var n) t
      = ((evalT env (.var n)).1, t ++ (evalT env (.var n)).2) := by
  simp only [SrcInterp.interp_expression, evalT]
  generalize ho : env.var n = o
  cases o <;> finish

/-- `TreeWalkingInterpreter::call` -/
theorem call_step (env : Env N) (n : Str) (ps : List (Expr N))
    (ih : ∀ t : List (Event N),
      SrcInterp.get_values_each env ps t = ((evalList env ps).1, t ++ (evalList env ps).2))
    (t : List (Event N)) :
    SrcInterp.interp_expression env (.call n ps) t
      = ((evalT env (.call n ps)).1, t ++ (evalT env (.call n ps)).2) := by
  simp only [SrcInterp.interp_expression, evalT]
  generalize evalList env ps = p at *
  obtain ⟨res, tr⟩ := p
  cases res with
  | error er => finish
  | ok vs =>
    generalize hc : env.call n vs = c
    cases c <;> finish

/-- `get_values` on the empty slice -/
theorem nil_step (env : Env N) (t : List (Event N)) :
    SrcInterp.get_values_each env [] t
      = ((evalList env ([] : List (Expr N))).1, t ++ (evalList env ([] : List (Expr N))).2) := by
  simp only [SrcInterp.get_values_each, evalList]
  finish

/-- `get_values`: one more element (`?` stops at the first error) -/
theorem cons_step (env : Env N) (e : Expr N) (es : List (Expr N))
    (ihe : ∀ t : List (Event N), SrcInterp.interp_expression env e t = ((evalT env e).1, t ++ (evalT env e).2))
    (ihes : ∀ t : List (Event N),
      SrcInterp.get_values_each env es t = ((evalList env es).1, t ++ (evalList env es).2))
    (t : List (Event N)) :
    SrcInterp.get_values_each env (e :: es) t
      = ((evalList env (e :: es)).1, t ++ (evalList env (e :: es)).2) := by
  simp only [SrcInterp.get_values_each, evalList]
  generalize evalT env e = p at *
  generalize evalList env es = q at *
  obtain ⟨res, tr⟩ := p
  obtain ⟨resq, tq⟩ := q
  cases res <;> cases resq <;> finish

/-! ### the whole tree -/

/-- both functions of the mutual block at once (`Expr` is a nested inductive: explicit recursor) -/
theorem interp_both (env : Env N) :
    (∀ (e : Expr N) (t : List (Event N)),
      SrcInterp.interp_expression env e t = ((evalT env e).1, t ++ (evalT env e).2)) ∧
    (∀ (es : List (Expr N)) (t : List (Event N)),
      SrcInterp.get_values_each env es t = ((evalList env es).1, t ++ (evalList env es).2)) := by
  have key : ∀ (e : Expr N) (t : List (Event N)),
      SrcInterp.interp_expression env e t = ((evalT env e).1, t ++ (evalT env e).2) := by
    intro e
    refine Expr.rec
      (motive_1 := fun e => ∀ t : List (Event N),
        SrcInterp.interp_expression env e t = ((evalT env e).1, t ++ (evalT env e).2))
      (motive_2 := fun es => ∀ t : List (Event N),
        SrcInterp.get_values_each env es t = ((evalList env es).1, t ++ (evalList env es).2))
      ?_ ?_ ?_ ?_ ?_ ?_ ?_ ?_ ?_ e
    · intro r op ih; exact unary_step env r op ih
    · intro l r op ihl ihr; exact binary_step env l r op ihl ihr
    · intro l m r op ihl ihm ihr; exact ternary_step env l m r op ihl ihm ihr
    · intro es ih; exact array_step env es ih
    · intro v; exact lit_step env v
    · intro n; exact var_step env n
    · intro n ps ih; exact call_step env n ps ih
    · exact nil_step env
    · intro e es ihe ihes; exact cons_step env e es ihe ihes
  refine ⟨key, fun es => ?_⟩
  induction es with
  | nil => exact nil_step env
  | cons e es ih => exact cons_step env e es (key e) ih

/-- src/interpreter.rs `TreeWalkingInterpreter::expression`, started with the log `t` -/
theorem interp_is_source (env : Env N) (e : Expr N) (t : List (Event N)) :
    SrcInterp.interp_expression env e t = ((evalT env e).1, t ++ (evalT env e).2) := (interp_both env).1 e t

/-- src/interpreter.rs `TreeWalkingInterpreter::get_values`, started with the log `t` -/
theorem get_values_is_source (env : Env N) (es : List (Expr N)) (t : List (Event N)) :
    SrcInterp.get_values_each env es t = ((evalList env es).1, t ++ (evalList env es).2) :=
  (interp_both env).2 es t

/-- `slac::execute`: the result of the source is the result of the model -/
theorem execute_is_source (env : Env N) (e : Expr N) :
    (SrcInterp.interp_expression env e []).1 = evalR env e := by
  rw [interp_is_source]; rfl

/-- the calls the source makes on its environment, in order, are the trace of the model -/
theorem trace_is_source (env : Env N) (e : Expr N) :
    (SrcInterp.interp_expression env e []).2 = (evalT env e).2 := by
  rw [interp_is_source]; exact List.nil_append _

end Slac.C04Source
