/-
  C08 — execute, optimize, validators and (de)serialization are total on any tree.
  PARTIAL by nature.  `Expr N` has no well-formedness side condition: every theorem of this development that
  quantifies over trees already covers trees with any operator in any position, empty/odd names, non-finite and array
  literals and wrong argument counts.  The tree functions of the model (evalT, checkVF, checkBool, Json.ofExpr,
  Json.toExpr) are structurally recursive total functions WITHOUT a panic or fuel outcome, so "returns normally" is a
  statement about the code that rests on the tie: all tree streams on the ill-formed generator, in worker processes,
  nesting to depth 64.  What Lean adds: the one fuelled function (optimize) never runs out of fuel, and the work of
  every function is bounded by the size of the tree (no hidden re-evaluation).  Real stack depth and wall-clock are
  observed, not proved.
-/
import SlacProps.C04
import SlacProps.C06
import SlacModel.Validate
import SlacModel.Json
set_option autoImplicit false
set_option linter.unusedSectionVars false
namespace Slac.C08
open Slac.Opt
variable {N : Type} [NumOps N]

/-- `optimize` never runs out of fuel on ANY tree: the loop makes at most `mu e + 1` rounds. -/
theorem optimize_total (env : Env N) (e : Expr N) : optimize env (mu e + 1) e ≠ .outOfFuel :=
  C06.optimize_terminates env (mu e + 1) e (Nat.lt_succ_self _)

/-- … and the number of rounds is at most twice the number of nodes, plus one. -/
theorem mu_le_nodes (e : Expr N) : mu e ≤ 2 * nodes e := by
  refine Expr.rec (motive_1 := fun e => mu e ≤ 2 * nodes e) (motive_2 := fun es => muL es ≤ 2 * nodesL es)
    ?_ ?_ ?_ ?_ ?_ ?_ ?_ ?_ ?_ e
  · intro r _ ih; simp only [mu, nodes]; omega
  · intro l r _ ihl ihr; simp only [mu, nodes]; omega
  · intro l m r _ ihl ihm ihr; simp only [mu, nodes]; omega
  · intro es ih; simp only [mu, nodes]; omega
  · intro _; simp only [mu, nodes]; omega
  · intro _; simp only [mu, nodes]; omega
  · intro n ps ih
    simp only [mu, nodes]
    split
    · split <;> omega
    · omega
  · simp only [muL, nodesL]; omega
  · intro e es ih1 ih2; simp only [muL, nodesL]; omega

/-- Execution touches each node at most once: the number of environment events is bounded by the number of nodes
    (no operand is ever evaluated twice, whatever the operators and their positions). -/
theorem trace_le_nodes (env : Env N) (e : Expr N) : (evalT env e).2.length ≤ nodes e := by
  refine Expr.rec (motive_1 := fun e => (evalT env e).2.length ≤ nodes e)
    (motive_2 := fun es => (evalList env es).2.length ≤ nodesL es) ?_ ?_ ?_ ?_ ?_ ?_ ?_ ?_ ?_ e
  · intro r op ih
    simp only [evalT, nodes]
    generalize evalT env r = m at ih ⊢
    obtain ⟨m1, m2⟩ := m
    cases m1 <;> simp only [unModel] <;> (try simp only at ih) <;> omega
  · intro l r op ihl ihr
    have := C04.binary_trace_shape env l r op
    simp only [nodes]
    rcases this with h | h <;> rw [h] <;> (try simp only [List.length_append]) <;> omega
  · intro l m r op ihl ihm ihr
    simp only [evalT, nodes]
    generalize evalT env l = ml at ihl ⊢
    generalize evalT env m = mm at ihm ⊢
    generalize evalT env r = mr at ihr ⊢
    obtain ⟨l1, l2⟩ := ml
    cases op <;> simp only [ternModel, List.length_nil, Nat.zero_le] <;>
      (cases l1 <;> (try simp only []) <;> (try split) <;> (try simp only [List.length_append]) <;> (try simp only at ihl ihm ihr) <;> omega)
  · intro es ih
    simp only [evalT, nodes]
    generalize evalList env es = m at ih ⊢
    obtain ⟨m1, m2⟩ := m
    cases m1 <;> (simp only at ih ⊢; omega)
  · intro v; simp [evalT]
  · intro n; simp [evalT, nodes]
  · intro f ps ih
    simp only [evalT, nodes]
    generalize evalList env ps = m at ih ⊢
    obtain ⟨m1, m2⟩ := m
    cases m1 <;> simp only [List.length_append, List.length_cons, List.length_nil] <;> (simp only at ih; omega)
  · simp [evalList]
  · intro e es ih1 ih2
    simp only [evalList, nodesL]
    generalize evalT env e = m at ih1 ⊢
    generalize evalList env es = ms at ih2 ⊢
    obtain ⟨m1, m2⟩ := m; obtain ⟨s1, s2⟩ := ms
    cases m1 <;> simp only []
    · simp only at ih1; omega
    · cases s1 <;> simp only [List.length_append] <;> (simp only at ih1 ih2; omega)

/-- The validators are decided by one structural pass: they return `ok` or a first error for every tree. -/
theorem validators_total (env : Env N) (e : Expr N) :
    (checkVF env e = .ok () ∨ ∃ x, checkVF env e = .error x) ∧ (checkBool e = .ok () ∨ ∃ x, checkBool e = .error x) := by
  constructor
  · cases h : checkVF env e with
    | ok u => exact .inl rfl
    | error x => exact .inr ⟨x, rfl⟩
  · cases h : checkBool e with
    | ok u => exact .inl rfl
    | error x => exact .inr ⟨x, rfl⟩

/-- Misplaced operators are ordinary error VALUES of `execute`, for every operator in every position. -/
theorem misplaced_operators_are_errors (env : Env N) (l m r : Expr N) (v w : Value N) :
    (∀ op, op ≠ .minus → op ≠ .not → evalR env (.unary (.lit v) op) = .error (.invalidUnary op)) ∧
    (∀ op, op ≠ .ternaryCondition → evalR env (.ternary l m r op) = .error (.invalidTernary op)) ∧
    evalR env (.binary (.lit v) (.lit w) .not) = .error (.invalidBinary .not) ∧
    evalR env (.binary (.lit v) (.lit w) .ternaryCondition) = .error (.invalidBinary .ternaryCondition) := by
  refine ⟨?_, ?_, rfl, rfl⟩
  · intro op h1 h2; cases op <;> first | exact absurd rfl h1 | exact absurd rfl h2 | rfl
  · intro op h; cases op <;> first | exact absurd rfl h | rfl

end Slac.C08
