/-
  SourceSpec — the property theorems restated DIRECTLY about the Lean functions that tools/rs2lean.py generates from the current
  Rust source (SlacModel/Generated/Src*.lean), with the hand-written model eliminated from the statement:

      Rust text  --(translator, every run)-->  Src*.lean  ==(C04Source, C05Source, C10Source, C13Source)==  model  --(C03 … C13)-->  property

  Each theorem below is the composition of a `…Source` equality with a property theorem; nothing new is proved here, but these are the
  statements a reader should look at: "the function the translator read off interpreter.rs computes the value the language definition
  prescribes", "the optimizer read off optimizer.rs preserves it, terminates and leaves no foldable node", "a tree accepted by the validator
  read off validate.rs never hits an unresolved name when run by the interpreter read off interpreter.rs", …
-/
import SlacProps.C03
import SlacProps.C04
import SlacProps.C05
import SlacProps.C06
import SlacProps.C10
import SlacProps.C11
import SlacProps.C13
import SlacProps.C04Source
import SlacProps.C05Source
import SlacProps.C10Source
import SlacProps.C13Source
set_option autoImplicit false
namespace Slac.SourceSpec
open Slac.Generated Slac.Opt
variable {N : Type} [NumOps N]

/-- `execute` as read off interpreter.rs: run from the empty log, keep the result -/
def srcExecute (env : Env N) (e : Expr N) : Except Err (Value N) := (SrcInterp.interp_expression env e []).1
/-- the environment events `execute` performs, as read off interpreter.rs -/
def srcEvents (env : Env N) (e : Expr N) : List (Event N) := (SrcInterp.interp_expression env e []).2

theorem srcExecute_eq (env : Env N) (e : Expr N) : srcExecute env e = evalR env e := C04Source.execute_is_source env e

/-- C03: the interpreter read off the source returns exactly the value, or the error of the first failing sub-expression in evaluation
    order, that the language definition prescribes — every tree, every environment, every number type. -/
theorem source_execute_eq_spec (env : Env N) (e : Expr N) : srcExecute env e = (spec env e).1.toExcept := by
  rw [srcExecute_eq]; exact C03.execute_eq_spec env e

/-- C04: the sequence of lookups and native calls (with argument values) it performs is exactly the prescribed one. -/
theorem source_events_eq_spec (env : Env N) (e : Expr N) : srcEvents env e = (spec env e).2 := by
  unfold srcEvents; rw [C04Source.trace_is_source]; exact C04.trace_eq_spec env e

/-- C05: the optimizer read off optimizer.rs, on a resolved tree with the standard `if_then`: a value before is the identical value after,
    for the optimized tree and for the partially rewritten tree a failed run leaves behind — both executed by the interpreter read off
    interpreter.rs. -/
theorem source_optimize_preserves_value (env : Env N) (fuel : Nat) (e e' : Expr N) (hr : Resolved env e) (hi : IfThenStd env)
    (v : Value N) (hv : srcExecute env e = .ok v) (h : (SrcOptimizer.optimize env fuel e).tree? = some e') : srcExecute env e' = .ok v := by
  rw [srcExecute_eq] at hv ⊢; rw [C05Source.optimize_is_source] at h
  exact C05.optimize_preserves_value env fuel e e' hr hi v hv h

/-- C06: it terminates within `mu e + 1` rounds … -/
theorem source_optimize_terminates (env : Env N) (fuel : Nat) (e : Expr N) (h : mu e < fuel) : SrcOptimizer.optimize env fuel e ≠ .outOfFuel := by
  rw [C05Source.optimize_is_source]; exact C06.optimize_terminates env fuel e h

/-- … its result is a fixpoint … -/
theorem source_optimize_idempotent (env : Env N) (fuel fuel' : Nat) (e e' : Expr N) (h : SrcOptimizer.optimize env fuel e = .ok e')
    (hf : fuel' > mu e') : SrcOptimizer.optimize env fuel' e' = .ok e' := by
  rw [C05Source.optimize_is_source] at h ⊢; exact C06.optimize_idempotent env fuel fuel' e e' h hf

/-- … and contains no constant-foldable node. -/
theorem source_no_foldable_node (env : Env N) (fuel : Nat) (e e' : Expr N) (h : SrcOptimizer.optimize env fuel e = .ok e') :
    ∀ n ∈ subterms e', ¬ Foldable env n := by
  rw [C05Source.optimize_is_source] at h; exact C06.no_foldable_node env fuel e e' h

/-- C10: a tree accepted by the validator read off validate.rs, run by the interpreter read off interpreter.rs, never fails with an
    undefined-variable or function-not-found error (for an environment whose four observations are consistent). -/
theorem source_validated_no_unresolved (env : Env N) (henv : C10.Lawful env) (e : Expr N)
    (hc : SrcValidate.check_variables_and_functions env e = .ok ()) :
    (∀ n, srcExecute env e ≠ .error (.undefinedVariable n)) ∧ (∀ f g, srcExecute env e ≠ .error (.native f (.functionNotFound g))) := by
  rw [← C10Source.checkVF_is_source] at hc; rw [srcExecute_eq]
  exact C10.check_ok_no_unresolved env henv e hc

/-- C11: a tree accepted by `check_boolean_result` (read off validate.rs) only ever evaluates to a Boolean, given that the variables and calls
    in result position do. -/
theorem source_bool_result (env : Env N) (e : Expr N) (hc : SrcValidate.check_boolean_result e = .ok ())
    (hres : ∀ x ∈ C11.resultPos e, ∀ v, srcExecute env x = .ok v → v.isBoolean = true)
    (v : Value N) (hv : srcExecute env e = .ok v) : v.isBoolean = true := by
  rw [← C10Source.checkBool_is_source] at hc; rw [srcExecute_eq] at hv
  exact C11.bool_result env e hc (fun x hx w hw => hres x hx w (by rw [srcExecute_eq]; exact hw)) v hv

/-- C13: the ordering read off value.rs is antisymmetric in the sense `cmp b a = (cmp a b).swap` for ALL values … -/
theorem source_cmp_swap [LawfulNum N] (a b : Value N) : SrcOrder.cmp b a = (SrcOrder.cmp a b).swap := by
  rw [← C13Source.cmp_is_source, ← C13Source.cmp_is_source]; exact C13.cmp_swap a b

/-- … and `=` as read off value.rs is the model's equality (so every equality law of C13 transfers). -/
theorem source_eq_is_model (a b : Value N) : SrcOrder.eq a b = Value.eq a b := (C13Source.eq_is_source a b).symm

end Slac.SourceSpec
