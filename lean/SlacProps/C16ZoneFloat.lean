/-
  C16Zone for the driver's number type — the through-numbers theorems of SlacProps.C16Zone at `N = Float` (IEEE binary64)
  with NO hypothesis about numbers (`instance : LawfulTimeNum Float` is proved in SlacProofs.F64Time), for every lawful
  zone and in particular for the two POSIX zones of the correspondence runs.
  Every theorem here is the generic theorem of the same name (without `_float`).
-/
import SlacProps.C16Zone
import SlacProofs.F64Time
set_option autoImplicit false
namespace Slac.C16
open Slac.Time Slac.TimeRfc Slac.Stdlib

/-- ROUND TRIP on binary64 in a lawful zone: `date_from_rfc3339 (date_to_rfc3339 x) = x`, bit for bit, for every date-time
    number `x = total_ms / 86400000` of years 0–9999 for which `date_to_rfc3339` answers a text and whose next second is
    not a skipped reading -/
theorem rfc3339_roundtrip_zone_float {z : Zone} (hz : z.Lawful) (t : DT) (h : Rfc t)
    (hn : z.localResult (t.timestamp + 1) ≠ .none) (txt : Str)
    (hp : dateToRfc3339Z z [(encode t : Value Float)] = .ok (.str txt)) :
    dateFromRfc3339Z z [(.str txt : Value Float)] = some (.ok (encode t)) := rfc3339_roundtrip_zone hz t h hn txt hp

theorem rfc2822_roundtrip_zone_float {z : Zone} (hz : z.Lawful) (t : DT) (h : Rfc t) (hs : t.ms % 1000 = 0)
    (hn : z.localResult (t.timestamp + 1) ≠ .none) (txt : Str)
    (hp : dateToRfc2822Z z [(encode t : Value Float)] = .ok (.str txt)) :
    dateFromRfc2822Z z [(.str txt : Value Float)] = some (.ok (encode t)) := rfc2822_roundtrip_zone hz t h hs hn txt hp

/-- errors exactly on gaps and overlaps -/
theorem dateToRfc3339Z_error_iff_float {z : Zone} (hz : z.Lawful) (t : DT) (h : Rfc t) :
    (∃ e, dateToRfc3339Z z [(encode t : Value Float)] = .error e) ↔
      (z.localResult t.timestamp = .none ∨ ∃ a b, z.localResult t.timestamp = .ambiguous a b) :=
  dateToRfc3339Z_error_iff hz t h

theorem dateToRfc2822Z_error_iff_float {z : Zone} (hz : z.Lawful) (t : DT) (h : Rfc t) :
    (∃ e, dateToRfc2822Z z [(encode t : Value Float)] = .error e) ↔
      (z.localResult t.timestamp = .none ∨ ∃ a b, z.localResult t.timestamp = .ambiguous a b) :=
  dateToRfc2822Z_error_iff hz t h

/-- the printed offset is the zone's offset at that instant -/
theorem dateToRfc3339Z_offset_float {z : Zone} (hz : z.Lawful) (t : DT) (h : Rfc t)
    (hn : z.localResult (t.timestamp + 1) ≠ .none) (txt : Str)
    (hp : dateToRfc3339Z z [(encode t : Value Float)] = .ok (.str txt)) :
    ∃ off, txt = rfc3339At off t ∧ z.localResult t.timestamp = .single off ∧ z.offsetFromUtc (t.timestamp - off) = off :=
  dateToRfc3339Z_offset hz t h hn txt hp

/-- the two zones of the correspondence runs -/
theorem rfc3339_roundtrip_cet_float (t : DT) (h : Rfc t) (hn : Zone.cet.localResult (t.timestamp + 1) ≠ .none) (txt : Str)
    (hp : dateToRfc3339Z Zone.cet [(encode t : Value Float)] = .ok (.str txt)) :
    dateFromRfc3339Z Zone.cet [(.str txt : Value Float)] = some (.ok (encode t)) :=
  rfc3339_roundtrip_zone Zone.cet_lawful t h hn txt hp

theorem rfc3339_roundtrip_est_float (t : DT) (h : Rfc t) (hn : Zone.est.localResult (t.timestamp + 1) ≠ .none) (txt : Str)
    (hp : dateToRfc3339Z Zone.est [(encode t : Value Float)] = .ok (.str txt)) :
    dateFromRfc3339Z Zone.est [(.str txt : Value Float)] = some (.ok (encode t)) :=
  rfc3339_roundtrip_zone Zone.est_lawful t h hn txt hp

/-! ### non-vacuity on binary64 -/
example : okStr? (dateToRfc3339Z Zone.cet [encode (dtOf 2021 7 1 12 0 0 1)]) = some "2021-07-01T12:00:00.001+02:00".toList := by
  decide +kernel
example : dateFromRfc3339Z Zone.cet [(.str (rfc3339At 7200 (dtOf 2021 7 1 12 0 0 1)) : Value Float)] =
    some (.ok (encode (dtOf 2021 7 1 12 0 0 1))) :=
  dateFromRfc3339Z_rfc3339At Zone.cet_lawful _ ⟨by decide +kernel, by decide +kernel, by decide +kernel⟩ 7200
    (by decide +kernel) (by decide +kernel)
example : ∃ e, dateToRfc3339Z Zone.cet [(encode (dtOf 2021 3 28 2 15 0 0) : Value Float)] = .error e :=
  (dateToRfc3339Z_error_iff_float Zone.cet_lawful _ ⟨by decide +kernel, by decide +kernel, by decide +kernel⟩).2
    (Or.inl (by decide +kernel))
example : ∃ e, dateToRfc3339Z Zone.est [(encode (dtOf 2021 11 7 1 30 0 0) : Value Float)] = .error e :=
  (dateToRfc3339Z_error_iff_float Zone.est_lawful _ ⟨by decide +kernel, by decide +kernel, by decide +kernel⟩).2
    (Or.inr ⟨-18000, -14400, by decide +kernel⟩)

end Slac.C16
