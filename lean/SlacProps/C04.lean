/-
  C04 — each needed operand is evaluated once, left to right; unneeded ones never.
  The observable is the trace of environment events (`lookup name`, `call name args`) that `evalT` returns
  next to the result; the `eval` stream compares it with what a recording `Environment` sees in the real crate.
-/
import SlacProofs.Refine
set_option autoImplicit false
namespace Slac.C04
variable {N : Type} [NumOps N]

/-- Main theorem: the sequence of variable lookups and native calls (with argument values) performed by
    `execute` is exactly the one the language definition prescribes — every tree, every environment. -/
theorem trace_eq_spec (env : Env N) (e : Expr N) : (evalT env e).2 = (spec env e).2 :=
  ((Slac.execute_eq_spec env e).2).symm

/-- The events of a binary node are the left operand's events, followed — if at all — by the right operand's:
    nothing is evaluated twice, nothing out of order. -/
theorem binary_trace_shape (env : Env N) (l r : Expr N) (op : Op) :
    (evalT env (.binary l r op)).2 = (evalT env l).2 ∨
    (evalT env (.binary l r op)).2 = (evalT env l).2 ++ (evalT env r).2 := by
  simp only [evalT]
  generalize evalT env l = ml; generalize evalT env r = mr
  obtain ⟨l1, l2⟩ := ml; obtain ⟨r1, r2⟩ := mr
  cases l1 with
  | ok lv =>
    cases hb : Value.asBool lv <;> cases r1 with
    | ok rv => cases op <;> simp [binModel, rightBool, hb]
    | error e => cases e <;> cases op <;> simp [binModel, rightBool, hb]
  | error e =>
    cases r1 with
    | ok rv => cases e <;> cases op <;> simp [binModel, rightBool]
    | error e' => cases e <;> cases e' <;> cases op <;> simp [binModel, rightBool]

/-- `and` with a falsy (or undefined) left operand never evaluates its right operand. -/
theorem and_short_circuit (env : Env N) (l r : Expr N)
    (h : (∃ v, evalR env l = .ok v ∧ v.asBool = false) ∨ (∃ n, evalR env l = .error (.undefinedVariable n))) :
    evalT env (.binary l r .and) = (.ok (.bool false), (evalT env l).2) := by
  simp only [evalR, evalT] at h ⊢
  generalize evalT env l = ml at h ⊢
  obtain ⟨l1, l2⟩ := ml
  rcases h with ⟨v, h1, h2⟩ | ⟨n, h1⟩ <;> simp only at h1 <;> subst h1
  · simp [binModel, h2]
  · simp [binModel]

/-- `or` with a truthy left operand never evaluates its right operand. -/
theorem or_short_circuit (env : Env N) (l r : Expr N) (v : Value N)
    (h : evalR env l = .ok v) (hv : v.asBool = true) :
    evalT env (.binary l r .or) = (.ok (.bool true), (evalT env l).2) := by
  simp only [evalR, evalT] at h ⊢
  generalize evalT env l = ml at h ⊢
  obtain ⟨l1, l2⟩ := ml
  simp only at h; subst h
  simp [binModel, hv]

/-- A conditional evaluates its condition, then exactly the selected branch; the other branch contributes
    no event. -/
theorem conditional_lazy (env : Env N) (c m r : Expr N) (v : Value N) (h : evalR env c = .ok v) :
    evalT env (.ternary c m r .ternaryCondition) =
      if v.asBool then ((evalT env m).1, (evalT env c).2 ++ (evalT env m).2)
      else ((evalT env r).1, (evalT env c).2 ++ (evalT env r).2) := by
  simp only [evalR, evalT] at h ⊢
  generalize evalT env c = mc at h ⊢
  obtain ⟨c1, c2⟩ := mc
  simp only at h; subst h
  simp [ternModel]

/-- A failing (or undefined) condition: neither branch is evaluated. -/
theorem conditional_failed_condition (env : Env N) (c m r : Expr N) (e : Err) (h : evalR env c = .error e) :
    evalT env (.ternary c m r .ternaryCondition) = (.error e, (evalT env c).2) := by
  simp only [evalR, evalT] at h ⊢
  generalize evalT env c = mc at h ⊢
  obtain ⟨c1, c2⟩ := mc
  simp only at h; subst h
  simp [ternModel]

/-- Equality evaluates its right operand even when the left one is undefined (it must: `u = ''`). -/
theorem eq_evaluates_right (env : Env N) (l r : Expr N) (n : Str) (h : evalR env l = .error (.undefinedVariable n)) :
    (evalT env (.binary l r .equal)).2 = (evalT env l).2 ++ (evalT env r).2 := by
  simp only [evalR, evalT] at h ⊢
  generalize evalT env l = ml at h ⊢
  generalize evalT env r = mr
  obtain ⟨l1, l2⟩ := ml; obtain ⟨r1, r2⟩ := mr
  simp only at h; subst h
  cases r1 with
  | ok rv => simp [binModel]
  | error e => cases e <;> simp [binModel]

/-- Argument lists: evaluation stops at the first argument that is not a value; the arguments after it
    contribute no event. -/
theorem args_stop (env : Env N) (e : Expr N) (es : List (Expr N)) (err : Err) (h : evalR env e = .error err) :
    evalList env (e :: es) = (.error err, (evalT env e).2) := by
  simp only [evalR] at h
  simp only [evalList]
  generalize evalT env e = m at h ⊢
  obtain ⟨m1, m2⟩ := m
  simp only at h; subst h
  rfl

/-- A call whose arguments do not all evaluate performs no `call` event: the function is never invoked. -/
theorem call_not_invoked (env : Env N) (f : Str) (es : List (Expr N)) (err : Err)
    (h : (evalList env es).1 = .error err) :
    evalT env (.call f es) = (.error err, (evalList env es).2) := by
  simp only [evalT]
  generalize evalList env es = m at h ⊢
  obtain ⟨m1, m2⟩ := m
  simp only at h; subst h
  rfl

/-- A call whose arguments all evaluate performs exactly one `call` event, after all argument events,
    carrying the argument values in order. -/
theorem call_invoked_once (env : Env N) (f : Str) (es : List (Expr N)) (vs : List (Value N))
    (h : (evalList env es).1 = .ok vs) :
    (evalT env (.call f es)).2 = (evalList env es).2 ++ [.call f vs] := by
  simp only [evalT]
  generalize evalList env es = m at h ⊢
  obtain ⟨m1, m2⟩ := m
  simp only at h; subst h
  rfl

end Slac.C04
