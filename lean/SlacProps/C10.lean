/-
  C10 — validated trees never hit unresolved names (the parts about check_variables_and_functions, the arity
  answers of `function_exists`, and the naming of the offender; the standard-library parameter-count part and
  the stability under `optimize` live elsewhere).
  Model: SlacModel.Validate (`checkVF`, src/validate.rs), SlacModel.Interp (`evalR`), SlacModel.Env (`StaticEnv`).
  All theorems hold for every number implementation and every key-folding function.
-/
import SlacProofs.ValidateLemmas
import SlacProofs.EnvLemmas
set_option autoImplicit false
set_option linter.unusedSectionVars false
namespace Slac.C10
variable {N : Type} [NumOps N]

/-! ### Lawful environments -/

/-- An `Environment` whose existence checks tell the truth: `variable_exists` ⇔ `variable` is `Some`, and a
    function reported as callable with `k` arguments never answers `FunctionNotFound` to `k` arguments. -/
def Lawful (env : Env N) : Prop :=
  (∀ n, env.varExists n = true ↔ (env.var n).isSome = true) ∧
  (∀ n k p args, env.fnExists n k = .exist p → List.length args = k →
    ∀ g, env.call n args ≠ .error (.functionNotFound g))

/-- The same with an escape: a `FunctionNotFound g` answer of a callable function is allowed for `g ∈ S`
    (`S` = the names that registered native functions *themselves* report; `Lawful = LawfulMod ∅`). -/
def LawfulMod (S : Str → Prop) (env : Env N) : Prop :=
  (∀ n, env.varExists n = true ↔ (env.var n).isSome = true) ∧
  (∀ n k p args, env.fnExists n k = .exist p → List.length args = k →
    ∀ g, env.call n args = .error (.functionNotFound g) → S g)

theorem lawful_iff_mod (env : Env N) : Lawful env ↔ LawfulMod (fun _ => False) env :=
  ⟨fun h => ⟨h.1, fun n k p args h1 h2 g hg => h.2 n k p args h1 h2 g hg⟩,
   fun h => ⟨h.1, fun n k p args h1 h2 g hg => h.2 n k p args h1 h2 g hg⟩⟩

/-- the errors C10 excludes: `UndefinedVariable`, and `FunctionNotFound g` (for `g ∉ S`) wrapped by a call -/
def Unres (S : Str → Prop) : Err → Prop
  | .undefinedVariable _ => True
  | .native _ (.functionNotFound g) => ¬ S g
  | _ => False

def Clean {α : Type} (S : Str → Prop) (r : Except Err α) : Prop := ∀ x, r = .error x → ¬ Unres S x

theorem un_clean {S : Str → Prop} {op : Op} {m : R N} (h : Clean S m.1) : Clean S (unModel op m).1 := by
  intro x hx
  rcases un_err hx with h1 | rfl
  · exact h x h1
  · exact fun h => h

theorem bin_clean {S : Str → Prop} {op : Op} {l r : R N} (hl : Clean S l.1) (hr : Clean S r.1) :
    Clean S (binModel op l r).1 := by
  intro x hx
  rcases bin_err hx with h1 | h1 | rfl
  · exact hl x h1
  · exact hr x h1
  · exact fun h => h

theorem tern_clean {S : Str → Prop} {op : Op} {c m r : R N} (hc : Clean S c.1) (hm : Clean S m.1) (hr : Clean S r.1) :
    Clean S (ternModel op c m r).1 := by
  intro x hx
  rcases tern_err hx with h1 | h1 | h1 | rfl
  · exact hc x h1
  · exact hm x h1
  · exact hr x h1
  · exact fun h => h

def GoodE (S : Str → Prop) (env : Env N) (e : Expr N) : Prop := checkVF env e = .ok () → Clean S (evalT env e).1
def GoodL (S : Str → Prop) (env : Env N) (es : List (Expr N)) : Prop :=
  checkVFList env es = .ok () → Clean S (evalList env es).1

theorem good_array {S : Str → Prop} {env : Env N} (es : List (Expr N)) (ih : GoodL S env es) :
    GoodE S env (.array es) := by
  intro hc x hx
  simp only [checkVF] at hc
  simp only [evalT] at hx
  generalize hy : evalList env es = y at hx
  obtain ⟨y1, y2⟩ := y
  cases y1 with
  | ok vs => cases hx
  | error e => simp only at hx; cases hx; exact ih hc _ (by rw [hy])

theorem good_var {S : Str → Prop} {env : Env N} (henv : LawfulMod S env) (n : Str) : GoodE S env (.var n) := by
  intro hc x hx
  simp only [checkVF] at hc
  split at hc
  · rename_i hv
    have := (henv.1 n).1 hv
    simp only [evalT] at hx
    cases hvar : env.var n with
    | none => rw [hvar] at this; cases this
    | some v => rw [hvar] at hx; cases hx
  · cases hc

theorem good_call {S : Str → Prop} {env : Env N} (henv : LawfulMod S env) (n : Str) (ps : List (Expr N))
    (ih : GoodL S env ps) : GoodE S env (.call n ps) := by
  intro hc x hx
  simp only [checkVF] at hc
  cases hfe : env.fnExists n ps.length with
  | notFound => rw [hfe] at hc; cases hc
  | wrongArity mn mx => rw [hfe] at hc; cases hc
  | exist p =>
    rw [hfe] at hc; simp only at hc
    simp only [evalT] at hx
    generalize hy : evalList env ps = y at hx
    obtain ⟨y1, y2⟩ := y
    cases y1 with
    | error e => simp only at hx; cases hx; exact ih hc _ (by rw [hy])
    | ok vs =>
      have hlen : vs.length = ps.length := evalList_length env ps vs (by rw [hy])
      simp only at hx
      cases hcall : env.call n vs with
      | ok v => rw [hcall] at hx; cases hx
      | error ne =>
        rw [hcall] at hx; cases hx
        cases ne <;> first | exact fun h => h | skip
        exact fun hns => hns (henv.2 n ps.length p vs hfe hlen _ hcall)

theorem good_cons {S : Str → Prop} {env : Env N} (e : Expr N) (es : List (Expr N)) (ih1 : GoodE S env e)
    (ih2 : GoodL S env es) : GoodL S env (e :: es) := by
  intro hc x hx
  simp only [checkVFList] at hc
  obtain ⟨hc1, hc2⟩ := VErr.andThen_ok hc
  simp only [evalList] at hx
  generalize hy : evalT env e = y at hx
  obtain ⟨y1, y2⟩ := y
  cases y1 with
  | error e' => simp only at hx; cases hx; exact ih1 hc1 _ (by rw [hy])
  | ok v =>
    simp only at hx
    generalize hz : evalList env es = z at hx
    obtain ⟨z1, z2⟩ := z
    cases z1 with
    | error e' => simp only at hx; cases hx; exact ih2 hc2 _ (by rw [hz])
    | ok vs => cases hx

/-- core induction: an accepted tree never fails with an excluded error -/
theorem check_ok_clean (S : Str → Prop) (env : Env N) (henv : LawfulMod S env) (e : Expr N) : GoodE S env e := by
  refine Expr.rec (motive_1 := fun e => GoodE S env e) (motive_2 := fun es => GoodL S env es)
    ?_ ?_ ?_ ?_ ?_ ?_ ?_ ?_ ?_ e
  · intro r op ih hc
    simp only [checkVF] at hc; simp only [evalT]
    exact un_clean (ih hc)
  · intro l r op ihl ihr hc
    simp only [checkVF] at hc; simp only [evalT]
    obtain ⟨h1, h2⟩ := VErr.andThen_ok hc
    exact bin_clean (ihl h1) (ihr h2)
  · intro l m r op ihl ihm ihr hc
    simp only [checkVF] at hc; simp only [evalT]
    obtain ⟨h12, h3⟩ := VErr.andThen_ok hc
    obtain ⟨h1, h2⟩ := VErr.andThen_ok h12
    exact tern_clean (ihl h1) (ihm h2) (ihr h3)
  · intro es ih; exact good_array es ih
  · intro v _ x hx; simp only [evalT] at hx; cases hx
  · intro n; exact good_var henv n
  · intro n ps ih; exact good_call henv n ps ih
  · intro _ x hx; simp only [evalList] at hx; cases hx
  · intro e es ih1 ih2; exact good_cons e es ih1 ih2

/-- Main theorem: if `check_variables_and_functions` accepts a tree against a lawful environment, executing the
    tree against that environment never fails with an undefined-variable or function-not-found error. -/
theorem check_ok_no_unresolved (env : Env N) (henv : Lawful env) (e : Expr N) (hc : checkVF env e = .ok ()) :
    (∀ n, evalR env e ≠ .error (.undefinedVariable n)) ∧
    (∀ f g, evalR env e ≠ .error (.native f (.functionNotFound g))) := by
  have h := check_ok_clean (fun _ => False) env ((lawful_iff_mod env).1 henv) e hc
  exact ⟨fun n hn => h _ hn trivial, fun f g hg => h _ hg (fun hf => hf)⟩

/-! ### The static environment -/

/-- the names `g` that some registered native function itself reports as `FunctionNotFound g` -/
def SelfReported (σ : StaticEnv N) (g : Str) : Prop :=
  ∃ f ∈ σ.listFunctions, ∃ args, f.run args = .error (.functionNotFound g)

/-- no registered native function answers `FunctionNotFound` itself (true of every function in src/stdlib:
    `NativeError::FunctionNotFound` is constructed only in `StaticEnvironment::call`) -/
def NoSelfNotFound (σ : StaticEnv N) : Prop :=
  ∀ f ∈ σ.listFunctions, ∀ args g, f.run args ≠ .error (.functionNotFound g)

theorem mem_listFunctions_of_get {σ : StaticEnv N} {k : Str} {f : Fn N} (h : alGet k σ.fns = some f) :
    f ∈ σ.listFunctions := by
  simp only [StaticEnv.listFunctions, List.mem_map]
  exact ⟨(k, f), mem_of_alGet h, rfl⟩

/-- A static environment is lawful up to what its own native functions report — unconditionally. -/
theorem staticEnv_lawfulMod (fold : Str → Str) (σ : StaticEnv N) : LawfulMod (SelfReported σ) (σ.toEnv fold) := by
  refine ⟨fun n => Iff.rfl, ?_⟩
  intro n k p args hex _ g hcall
  simp only [StaticEnv.toEnv, StaticEnv.functionExists, StaticEnv.call] at hex hcall
  cases hget : alGet (fold n) σ.fns with
  | none => rw [hget] at hex; cases hex
  | some f =>
    rw [hget] at hcall
    exact ⟨f, mem_listFunctions_of_get hget, args, hcall⟩

/-- A static environment whose registered functions never answer `FunctionNotFound` themselves is lawful.
    (The hypothesis cannot be dropped: see `lawful_needs_hypothesis`.) -/
theorem staticEnv_lawful (fold : Str → Str) (σ : StaticEnv N) (hσ : NoSelfNotFound σ) : Lawful (σ.toEnv fold) := by
  refine ⟨(staticEnv_lawfulMod fold σ).1, ?_⟩
  intro n k p args hex hlen g hcall
  obtain ⟨f, hf, args', h⟩ := (staticEnv_lawfulMod fold σ).2 n k p args hex hlen g hcall
  exact hσ f hf args' g h

/-- C10 for the static environment, hypothesis-free form: an accepted tree never fails with `UndefinedVariable`,
    and a `FunctionNotFound g` failure can only be one that a registered native function reported itself. -/
theorem check_ok_no_unresolved_static (fold : Str → Str) (σ : StaticEnv N) (e : Expr N)
    (hc : checkVF (σ.toEnv fold) e = .ok ()) :
    (∀ n, evalR (σ.toEnv fold) e ≠ .error (.undefinedVariable n)) ∧
    (∀ f g, evalR (σ.toEnv fold) e = .error (.native f (.functionNotFound g)) → SelfReported σ g) := by
  have h := check_ok_clean (SelfReported σ) _ (staticEnv_lawfulMod fold σ) e hc
  refine ⟨fun n hn => h _ hn trivial, fun f g hg => ?_⟩
  exact Classical.byContradiction (fun hns => h _ hg hns)

/-! ### `function_exists` answers exactly the registered arity -/

/-- sets of argument counts -/
def NatSet := Nat → Prop
instance : Membership Nat NatSet := ⟨fun s n => s n⟩

/-- exactly `k` (`m = 0`); `k` plus up to `m` optional; at least one; none -/
def arityRange : Arity → NatSet
  | .polyadic k m => fun n => k ≤ n ∧ n ≤ k + m
  | .variadic => fun n => 1 ≤ n
  | .none => fun n => n = 0

/-- the bounds a `WrongArity` answer reports -/
def arityBounds : Arity → Nat × Nat
  | .polyadic k m => (k, k + m)
  | .variadic => (1, 99)
  | .none => (0, 0)

theorem accepts_exist_iff (f : Fn N) (n : Nat) (p : Bool) :
    f.accepts n = .exist p ↔ f.pure = p ∧ n ∈ arityRange f.arity := by
  simp only [Fn.accepts, Membership.mem]
  cases f.arity with
  | polyadic k m =>
    simp only [arityRange]
    by_cases h : n < k ∨ n > k + m
    · have : (decide (n < k) || decide (n > k + m)) = true := by simpa using h
      rw [if_pos this]
      constructor
      · intro h'; cases h'
      · rintro ⟨_, h1, h2⟩; omega
    · have : ¬ (decide (n < k) || decide (n > k + m)) = true := by simpa using h
      rw [if_neg this]
      constructor
      · intro h'; cases h'; exact ⟨rfl, by omega, by omega⟩
      · rintro ⟨rfl, _⟩; rfl
  | variadic =>
    simp only [arityRange]
    by_cases h : n > 0
    · rw [if_pos h]
      constructor
      · intro h'; cases h'; exact ⟨rfl, h⟩
      · rintro ⟨rfl, _⟩; rfl
    · rw [if_neg h]
      constructor
      · intro h'; cases h'
      · rintro ⟨_, h1⟩; omega
  | none =>
    simp only [arityRange]
    by_cases h : n = 0
    · rw [if_pos h]
      constructor
      · intro h'; cases h'; exact ⟨rfl, h⟩
      · rintro ⟨rfl, _⟩; rfl
    · rw [if_neg h]
      constructor
      · intro h'; cases h'
      · rintro ⟨_, h1⟩; exact absurd h1 h

theorem accepts_wrong_iff (f : Fn N) (n mn mx : Nat) :
    f.accepts n = .wrongArity mn mx ↔ ¬ n ∈ arityRange f.arity ∧ arityBounds f.arity = (mn, mx) := by
  simp only [Fn.accepts, Membership.mem]
  cases f.arity with
  | polyadic k m =>
    simp only [arityRange, arityBounds]
    by_cases h : n < k ∨ n > k + m
    · have : (decide (n < k) || decide (n > k + m)) = true := by simpa using h
      rw [if_pos this]
      constructor
      · intro h'; cases h'; exact ⟨by omega, rfl⟩
      · rintro ⟨_, h2⟩; cases h2; rfl
    · have : ¬ (decide (n < k) || decide (n > k + m)) = true := by simpa using h
      rw [if_neg this]
      constructor
      · intro h'; cases h'
      · rintro ⟨h1, _⟩; omega
  | variadic =>
    simp only [arityRange, arityBounds]
    by_cases h : n > 0
    · rw [if_pos h]
      constructor
      · intro h'; cases h'
      · rintro ⟨h1, _⟩; omega
    · rw [if_neg h]
      constructor
      · intro h'; cases h'; exact ⟨by omega, rfl⟩
      · rintro ⟨_, h2⟩; cases h2; rfl
  | none =>
    simp only [arityRange, arityBounds]
    by_cases h : n = 0
    · rw [if_pos h]
      constructor
      · intro h'; cases h'
      · rintro ⟨h1, _⟩; exact absurd h h1
    · rw [if_neg h]
      constructor
      · intro h'; cases h'; exact ⟨h, rfl⟩
      · rintro ⟨_, h2⟩; cases h2; rfl

/-- The environment reports a function as callable with `n` arguments exactly when a function is registered under
    the folded name and `n` lies within the arity it was registered with. -/
theorem function_exists_iff (fold : Str → Str) (σ : StaticEnv N) (name : Str) (n : Nat) (p : Bool) :
    σ.functionExists fold name n = .exist p ↔
      ∃ fn, alGet (fold name) σ.fns = some fn ∧ fn.pure = p ∧ n ∈ arityRange fn.arity := by
  simp only [StaticEnv.functionExists]
  cases alGet (fold name) σ.fns with
  | none => constructor
            · intro h; cases h
            · rintro ⟨fn, h, _⟩; cases h
  | some f =>
    simp only [accepts_exist_iff]
    constructor
    · intro h; exact ⟨f, rfl, h⟩
    · rintro ⟨fn, h, h'⟩; cases h; exact h'

/-- … answers `NotFound` exactly when nothing is registered under the folded name … -/
theorem function_notFound_iff (fold : Str → Str) (σ : StaticEnv N) (name : Str) (n : Nat) :
    σ.functionExists fold name n = .notFound ↔ alGet (fold name) σ.fns = none := by
  simp only [StaticEnv.functionExists]
  cases alGet (fold name) σ.fns with
  | none => exact ⟨fun _ => rfl, fun _ => rfl⟩
  | some f =>
    constructor
    · intro h
      simp only [Fn.accepts] at h
      cases ha : f.arity <;> simp only [ha] at h <;> split at h <;> cases h
    · intro h; cases h

/-- … and `WrongArity{min,max}` exactly when `n` is outside the registered range, with that range's bounds. -/
theorem function_wrongArity_iff (fold : Str → Str) (σ : StaticEnv N) (name : Str) (n mn mx : Nat) :
    σ.functionExists fold name n = .wrongArity mn mx ↔
      ∃ fn, alGet (fold name) σ.fns = some fn ∧ ¬ n ∈ arityRange fn.arity ∧ arityBounds fn.arity = (mn, mx) := by
  simp only [StaticEnv.functionExists]
  cases alGet (fold name) σ.fns with
  | none => constructor
            · intro h; cases h
            · rintro ⟨fn, h, _⟩; cases h
  | some f =>
    simp only [accepts_wrong_iff]
    constructor
    · intro h; exact ⟨f, rfl, h⟩
    · rintro ⟨fn, h, h'⟩; cases h; exact h'

/-! ### A rejection names the offender -/

/-- `x` is a complaint about a variable or call that occurs in `e`, and the environment's own answer about that
    very name (and argument count) justifies it -/
inductive Offender (env : Env N) (e : Expr N) : VErr → Prop
  | var (n : Str) : Sub (.var n) e → env.varExists n = false → Offender env e (.missingVariable n)
  | fn (f : Str) (ps : List (Expr N)) : Sub (.call f ps) e → env.fnExists f ps.length = .notFound →
      Offender env e (.missingFunction f)
  | arity (f : Str) (ps : List (Expr N)) (mn mx : Nat) : Sub (.call f ps) e →
      env.fnExists f ps.length = .wrongArity mn mx → Offender env e (.paramCountMismatch f ps.length mn mx)

theorem Offender.lift {env : Env N} {c e : Expr N} {x : VErr} (h : Offender env c x)
    (up : ∀ y, Sub y c → Sub y e) : Offender env e x := by
  cases h with
  | var n hs hv => exact .var n (up _ hs) hv
  | fn f ps hs hf => exact .fn f ps (up _ hs) hf
  | arity f ps mn mx hs hf => exact .arity f ps mn mx (up _ hs) hf

def RejE (env : Env N) (e : Expr N) : Prop := ∀ x, checkVF env e = .error x → Offender env e x
def RejL (env : Env N) (es : List (Expr N)) : Prop :=
  ∀ x, checkVFList env es = .error x → ∃ c ∈ es, Offender env c x

/-- A rejection names the offending variable or function: the reported name is that of a variable / call occurring
    in the tree, for which the environment answered "does not exist" / `NotFound` / `WrongArity{min,max}` with the
    reported count and bounds. -/
theorem rejection_names_offender (env : Env N) (e : Expr N) (x : VErr) (h : checkVF env e = .error x) :
    Offender env e x := by
  suffices hr : RejE env e from hr x h
  refine Expr.rec (motive_1 := fun e => RejE env e) (motive_2 := fun es => RejL env es)
    ?_ ?_ ?_ ?_ ?_ ?_ ?_ ?_ ?_ e
  · intro r op ih x h
    simp only [checkVF] at h
    exact (ih x h).lift (fun y hy => .unary op hy)
  · intro l r op ihl ihr x h
    simp only [checkVF] at h
    rcases VErr.andThen_error h with h1 | ⟨_, h2⟩
    · exact (ihl x h1).lift (fun y hy => .binL r op hy)
    · exact (ihr x h2).lift (fun y hy => .binR l op hy)
  · intro l m r op ihl ihm ihr x h
    simp only [checkVF] at h
    rcases VErr.andThen_error h with h12 | ⟨_, h3⟩
    · rcases VErr.andThen_error h12 with h1 | ⟨_, h2⟩
      · exact (ihl x h1).lift (fun y hy => .ternL m r op hy)
      · exact (ihm x h2).lift (fun y hy => .ternM l r op hy)
    · exact (ihr x h3).lift (fun y hy => .ternR l m op hy)
  · intro es ih x h
    simp only [checkVF] at h
    obtain ⟨c, hc, ho⟩ := ih x h
    exact ho.lift (fun y hy => .array hc hy)
  · intro v x h; simp only [checkVF] at h; cases h
  · intro n x h
    simp only [checkVF] at h
    split at h
    · cases h
    · rename_i hv
      cases h
      exact .var n (.refl _) (by simpa using hv)
  · intro n ps ih x h
    simp only [checkVF] at h
    cases hfe : env.fnExists n ps.length with
    | exist p =>
      rw [hfe] at h; simp only at h
      obtain ⟨c, hc, ho⟩ := ih x h
      exact ho.lift (fun y hy => .call n hc hy)
    | notFound => rw [hfe] at h; cases h; exact .fn n ps (.refl _) hfe
    | wrongArity mn mx => rw [hfe] at h; cases h; exact .arity n ps mn mx (.refl _) hfe
  · intro x h; simp only [checkVFList] at h; cases h
  · intro e es ih1 ih2 x h
    simp only [checkVFList] at h
    rcases VErr.andThen_error h with h1 | ⟨_, h2⟩
    · exact ⟨e, List.mem_cons_self, ih1 x h1⟩
    · obtain ⟨c, hc, ho⟩ := ih2 x h2
      exact ⟨c, List.mem_cons_of_mem _ hc, ho⟩

/-! ### Non-vacuity: concrete instances -/
section Examples

def lowerA (s : Str) : Str := s.map (fun c => if c = 'F' then 'f' else if c = 'X' then 'x' else c)

/-- `x` bound, `f` registered with one required and one optional parameter -/
def exEnv : StaticEnv N :=
  ((StaticEnv.empty (N := N)).addVariable lowerA ['x'] (.bool true)).addFunction lowerA
    ⟨['f'], .polyadic 1 1, true, fun args => .ok (.arr args), 0⟩

/-- `F(X) ? x : f(x, [X])` -/
def exTree : Expr N :=
  .ternary (.call ['F'] [.var ['X']]) (.var ['x']) (.call ['f'] [.var ['x'], .array [.var ['X']]]) .ternaryCondition

theorem exEnv_noSelf : NoSelfNotFound (exEnv (N := N)) := by
  intro f hf args g h
  simp only [exEnv, StaticEnv.listFunctions, StaticEnv.addFunction, StaticEnv.addVariable, StaticEnv.empty, ins, del,
    List.map_cons, List.map_nil, List.mem_cons, List.mem_nil_iff, or_false] at hf
  subst hf
  cases h

example : checkVF ((exEnv (N := N)).toEnv lowerA) exTree = .ok () := by rfl

example : (∀ n, evalR ((exEnv (N := N)).toEnv lowerA) exTree ≠ .error (.undefinedVariable n)) ∧
    (∀ f g, evalR ((exEnv (N := N)).toEnv lowerA) exTree ≠ .error (.native f (.functionNotFound g))) :=
  check_ok_no_unresolved _ (staticEnv_lawful lowerA exEnv exEnv_noSelf) exTree (by rfl)

example : evalR ((exEnv (N := N)).toEnv lowerA) exTree = .ok (.bool true) := by rfl

/-- the arity answers for `f` (1 required + 1 optional): 0 ↦ WrongArity{1,2}, 1 ↦ Exists, 2 ↦ Exists, 3 ↦ WrongArity -/
example : (exEnv (N := N)).functionExists lowerA ['F'] 0 = .wrongArity 1 2 ∧
    (exEnv (N := N)).functionExists lowerA ['F'] 1 = .exist true ∧
    (exEnv (N := N)).functionExists lowerA ['f'] 2 = .exist true ∧
    (exEnv (N := N)).functionExists lowerA ['f'] 3 = .wrongArity 1 2 ∧
    (exEnv (N := N)).functionExists lowerA ['g'] 1 = .notFound := ⟨by rfl, by rfl, by rfl, by rfl, by rfl⟩

example : (2 : Nat) ∈ arityRange (.polyadic 1 1) ∧ ¬ (3 : Nat) ∈ arityRange (.polyadic 1 1) ∧
    (7 : Nat) ∈ arityRange .variadic ∧ ¬ (0 : Nat) ∈ arityRange .variadic ∧ (0 : Nat) ∈ arityRange .none ∧
    ¬ (1 : Nat) ∈ arityRange .none := by
  show (1 ≤ 2 ∧ 2 ≤ 1 + 1) ∧ ¬ (1 ≤ 3 ∧ 3 ≤ 1 + 1) ∧ 1 ≤ 7 ∧ ¬ 1 ≤ 0 ∧ 0 = 0 ∧ ¬ 1 = 0
  omega

/-- rejections: first error in left-to-right order, naming the offender -/
example : checkVF ((exEnv (N := N)).toEnv lowerA) (.binary (.var ['x']) (.binary (.var ['y']) (.var ['z']) .plus) .plus)
    = .error (.missingVariable ['y']) := by rfl
example : checkVF ((exEnv (N := N)).toEnv lowerA) (.array [.call ['F'] [], .call ['g'] []])
    = .error (.paramCountMismatch ['F'] 0 1 2) := by rfl
example : checkVF ((exEnv (N := N)).toEnv lowerA) (.unary (.call ['g'] [.var ['y']]) .not)
    = .error (.missingFunction ['g']) := by rfl
example : Offender ((exEnv (N := N)).toEnv lowerA) (.array [.call ['F'] [], .call ['g'] []])
    (.paramCountMismatch ['F'] 0 1 2) :=
  rejection_names_offender _ _ _ (by rfl)

/-- Why `staticEnv_lawful` has a hypothesis: a registered native function may itself answer `FunctionNotFound`.
    Then the check accepts, `function_exists` says `Exists`, and the execution fails with a function-not-found
    error all the same. -/
theorem lawful_needs_hypothesis :
    let σ : StaticEnv N := (StaticEnv.empty (N := N)).addFunction id
      ⟨['f'], .none, true, fun _ => .error (.functionNotFound ['g']), 0⟩
    checkVF (σ.toEnv id) (.call ['f'] []) = .ok () ∧
    evalR (σ.toEnv id) (.call ['f'] []) = .error (.native ['f'] (.functionNotFound ['g'])) ∧
    ¬ Lawful (σ.toEnv id) := by
  refine ⟨by rfl, by rfl, ?_⟩
  intro h
  exact h.2 ['f'] 0 true [] (by rfl) rfl ['g'] (by rfl)

end Examples
end Slac.C10
