/-
  SlacProps.C12Source — the serialisation half of the JSON model (SlacModel/Json.lean: operator names, `ofValue`, `ofExpr`), about which `json_roundtrip`
  is stated, IS what tools/rs2lean_serde.py derives from the current text of src/ast.rs, src/operator.rs (the serde attributes and the enum
  definitions) and src/value.rs (`impl Serialize for Value`): SlacModel/Generated/SrcSerde.lean.
-/
import SlacModel.Json
import SlacModel.Generated.SrcSerde
import SlacProps.C12
set_option autoImplicit false
namespace Slac.C12Source
open Slac Slac.Generated
variable {N : Type}

theorem opName_is_source (op : Op) : Json.opName op = SrcSerde.opName op := by cases op <;> rfl
theorem allOps_is_source : Json.allOps = SrcSerde.allOps := rfl

theorem ofValue_is_source (jn : JsonNum N) (v : Value N) : Json.ofValue jn v = SrcSerde.ofValue jn v := by
  refine Value.rec (motive_1 := fun v => Json.ofValue jn v = SrcSerde.ofValue jn v)
    (motive_2 := fun vs => Json.ofValues jn vs = SrcSerde.ofValues jn vs) ?_ ?_ ?_ ?_ ?_ ?_ v
  · intro b; simp [Json.ofValue, SrcSerde.ofValue]
  · intro s; simp [Json.ofValue, SrcSerde.ofValue]
  · intro x; simp [Json.ofValue, SrcSerde.ofValue]
  · intro vs ih; simp [Json.ofValue, SrcSerde.ofValue, ih]
  · simp [Json.ofValues, SrcSerde.ofValues]
  · intro v vs ih1 ih2; simp [Json.ofValues, SrcSerde.ofValues, ih1, ih2]

theorem ofExpr_is_source (jn : JsonNum N) (e : Expr N) : Json.ofExpr jn e = SrcSerde.ofExpr jn e := by
  refine Expr.rec (motive_1 := fun e => Json.ofExpr jn e = SrcSerde.ofExpr jn e)
    (motive_2 := fun es => Json.ofExprs jn es = SrcSerde.ofExprs jn es) ?_ ?_ ?_ ?_ ?_ ?_ ?_ ?_ ?_ e
  all_goals intros
  all_goals simp_all [Json.ofExpr, SrcSerde.ofExpr, Json.ofExprs, SrcSerde.ofExprs, opName_is_source, ofValue_is_source]

theorem toValue_is_source (jn : JsonNum N) (j : Json N) : Json.toValue jn j = SrcSerde.toValue jn j := by
  refine Json.rec (motive_1 := fun j => Json.toValue jn j = SrcSerde.toValue jn j)
    (motive_2 := fun js => Json.toValues jn js = SrcSerde.toValues jn js) (motive_3 := fun _ => True) (motive_4 := fun _ => True)
    ?_ ?_ ?_ ?_ ?_ ?_ ?_ ?_ ?_ ?_ ?_ ?_ j
  all_goals intros
  all_goals first
    | trivial
    | (simp_all [Json.toValue, SrcSerde.toValue, Json.toValues, SrcSerde.toValues]; done)
    | (rename_i h t ih1 ih2; simp only [Json.toValues, SrcSerde.toValues, ih1, ih2]; cases SrcSerde.toValue jn h <;> rfl)

/-- the round-trip theorem restated about the serialiser derived from the source: reading back what the SOURCE writes yields the tree -/
theorem json_roundtrip_source (jn : JsonNum N) (e : Expr N) (h : C12.FiniteLits jn e) : Json.toExpr jn (SrcSerde.ofExpr jn e) = some e := by
  rw [← ofExpr_is_source]; exact C12.json_roundtrip jn e h

end Slac.C12Source
