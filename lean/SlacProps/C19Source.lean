/-
  C19 — the translator leg of the tie for the static environment.  `SlacModel/Generated/SrcEnv.lean` is REGENERATED
  on every check run by /verif/tools/rs2lean.py from the current text of /repo/src/environment.rs
  (`impl Environment for StaticEnvironment`: `variable`, `call`, `variable_exists`, `function_exists`; the key
  function `get_env_key` is the parameter `fold`).  The theorems say, for every `fold` and every `s : StaticEnv N`,
  that the four observations of the hand-written model of SlacModel/Env.lean are exactly the translated source:
    `StaticEnv.getVariable = variable_`, `StaticEnv.call = call_` (`ok_or(FunctionNotFound(name))?` then the call),
    `StaticEnv.variableExists = variable_exists`, `StaticEnv.functionExists = function_exists` (with the arity
    arithmetic `Fn.accepts` inlined in the source), and hence that `StaticEnv.toEnv fold s` — the `Environment`
    every other theorem talks about — has exactly the four translated functions as its fields.
  A changed arm in environment.rs changes the generated file and breaks one of these proofs.
-/
import SlacModel.Generated.SrcEnv
import SlacModel.Env
set_option autoImplicit false
set_option linter.unusedSectionVars false
set_option linter.unusedSimpArgs false
namespace Slac.C19Source
open Slac.Generated
variable {N : Type} [NumOps N]

/-- src/environment.rs `variable` -/
theorem getVariable_is_source (fold : Str → Str) (s : StaticEnv N) (n : Str) :
    StaticEnv.getVariable fold s n = SrcEnv.variable_ fold s n := by
  simp [StaticEnv.getVariable, SrcEnv.variable_]

/-- src/environment.rs `call` -/
theorem call_is_source (fold : Str → Str) (s : StaticEnv N) (n : Str) (args : List (Value N)) :
    StaticEnv.call fold s n args = SrcEnv.call_ fold s n args := by
  simp only [StaticEnv.call, SrcEnv.call_]
  cases alGet (fold n) s.fns <;> rfl

/-- src/environment.rs `variable_exists` -/
theorem variableExists_is_source (fold : Str → Str) (s : StaticEnv N) (n : Str) :
    StaticEnv.variableExists fold s n = SrcEnv.variable_exists fold s n := by
  simp [StaticEnv.variableExists, SrcEnv.variable_exists]

/-- src/environment.rs `function_exists` -/
theorem functionExists_is_source (fold : Str → Str) (s : StaticEnv N) (n : Str) (k : Nat) :
    StaticEnv.functionExists fold s n k = SrcEnv.function_exists fold s n k := by
  simp only [StaticEnv.functionExists, SrcEnv.function_exists]
  cases alGet (fold n) s.fns with
  | none => rfl
  | some f =>
    simp only [Fn.accepts]
    cases f.arity <;> simp

/-- `impl Environment for StaticEnvironment`: the trait object the interpreter, the validator and the optimizer see
    consists of exactly the four translated functions -/
theorem toEnv_is_source (fold : Str → Str) (s : StaticEnv N) :
    StaticEnv.toEnv fold s =
      { var := SrcEnv.variable_ fold s, call := SrcEnv.call_ fold s,
        varExists := SrcEnv.variable_exists fold s, fnExists := SrcEnv.function_exists fold s } := by
  simp only [StaticEnv.toEnv, Env.mk.injEq]
  exact ⟨funext (getVariable_is_source fold s), funext fun n => funext (call_is_source fold s n),
    funext (variableExists_is_source fold s), funext fun n => funext (functionExists_is_source fold s n)⟩

/-- field by field -/
theorem toEnv_fields (fold : Str → Str) (s : StaticEnv N) :
    (StaticEnv.toEnv fold s).var = SrcEnv.variable_ fold s ∧
    (StaticEnv.toEnv fold s).call = SrcEnv.call_ fold s ∧
    (StaticEnv.toEnv fold s).varExists = SrcEnv.variable_exists fold s ∧
    (StaticEnv.toEnv fold s).fnExists = SrcEnv.function_exists fold s := by
  rw [toEnv_is_source]; exact ⟨rfl, rfl, rfl, rfl⟩

/-- the mutating operations of `StaticEnvironment` as read off the source are the model's -/
theorem addVariable_is_source (fold : Str → Str) (s : StaticEnv N) (n : Str) (v : Value N) :
    StaticEnv.addVariable fold s n v = SrcEnv.add_variable fold s n v := rfl
theorem removeVariable_is_source (fold : Str → Str) (s : StaticEnv N) (n : Str) :
    StaticEnv.removeVariable fold s n = SrcEnv.remove_variable fold s n := rfl
theorem clearVariables_is_source (s : StaticEnv N) : StaticEnv.clearVariables s = SrcEnv.clear_variables s := rfl
theorem addFunction_is_source (fold : Str → Str) (s : StaticEnv N) (f : Fn N) :
    StaticEnv.addFunction fold s f = SrcEnv.add_function fold s f := rfl
theorem addFunctions_is_source (fold : Str → Str) (s : StaticEnv N) (fs : List (Fn N)) :
    StaticEnv.addFunctions fold s fs = SrcEnv.add_functions fold s fs := rfl
theorem removeFunction_is_source (fold : Str → Str) (s : StaticEnv N) (n : Str) :
    StaticEnv.removeFunction fold s n = SrcEnv.remove_function fold s n := rfl
theorem listFunctions_is_source (s : StaticEnv N) : StaticEnv.listFunctions s = SrcEnv.list_functions s := rfl

end Slac.C19Source
