/-
  C03 / C04 — the translator leg of the tie for the interpreter.  `SlacModel/Generated/Semantics.lean` is REGENERATED
  on every check run by /verif/tools/translate.py from the current text of src/value.rs (the `impl Neg/Not/Add/Sub/
  Mul/Div/Rem/BitXor for Value` arms, `div_int`, `ordinal`, `empty`) and src/interpreter.rs (the operator dispatch of
  `unary`, the outer and the inner match of `binary`, the body of `boolean::<FULL_EVAL>`, the operator of `ternary`).
  The theorems say that the hand-written compositional model (`unModel`, `binModel`, `binVal`, `ternModel`,
  `Value.add` …) is exactly those source arms, in source order.  A changed arm changes the generated file and breaks
  one of these proofs.
-/
import SlacModel.Generated.Semantics
import SlacModel.Interp
set_option autoImplicit false
namespace Slac.C03Source
open Slac.Generated
variable {N : Type} [NumOps N]

/-- the operator impls of value.rs -/
theorem value_ops_are_source (a b : Value N) :
    Value.neg a = Semantics.valueNeg a ∧ Value.not a = Semantics.valueNot a ∧
    Value.add a b = Semantics.valueAdd a b ∧
    Value.arith NumOps.sub .minus a b = Semantics.valueSub a b ∧
    Value.arith NumOps.mul .multiply a b = Semantics.valueMul a b ∧
    Value.arith NumOps.div .divide a b = Semantics.valueDiv a b ∧
    Value.arith NumOps.rem .mod a b = Semantics.valueRem a b ∧
    Value.arith (fun x y => NumOps.trunc (NumOps.div x y)) .div a b = Semantics.valueDivInt a b ∧
    Value.xor a b = Semantics.valueXor a b ∧
    Value.ordinal a = Semantics.valueOrdinal a ∧ Value.empty a = Semantics.valueEmpty a := by
  cases a <;> cases b <;> exact ⟨rfl, rfl, rfl, rfl, rfl, rfl, rfl, rfl, rfl, rfl, rfl⟩

/-- both operands are values: the inner `match (operator, right)` -/
theorem strict_is_source (op : Op) (l r : Value N) : binVal op l r = Semantics.strictDispatch op l r := by
  have h := fun a b : Value N => value_ops_are_source a b
  cases op <;> simp only [binVal, Semantics.strictDispatch, Value.gt, Value.ge, Value.lt, Value.le] <;>
    first | rfl | exact (h l r).2.2.1 | exact (h l r).2.2.2.1 | exact (h l r).2.2.2.2.1 | exact (h l r).2.2.2.2.2.1
          | exact (h l r).2.2.2.2.2.2.1 | exact (h l r).2.2.2.2.2.2.2.1 | exact (h l r).2.2.2.2.2.2.2.2.1

/-- `unary`: the operand is evaluated first, its error wins; then the operator dispatch of the source -/
theorem unary_is_source (op : Op) (x : R N) :
    unModel op x = match x with
      | (.ok v, t) => (Semantics.unaryDispatch op v, t)
      | (.error e, t) => (.error e, t) := by
  obtain ⟨r, t⟩ := x
  cases r with
  | error e => rfl
  | ok v =>
    have h := value_ops_are_source v v
    cases op <;> simp only [unModel, Semantics.unaryDispatch] <;> first | rfl | rw [h.1] | rw [h.2.1]

/-- 0 = a value, 1 = undefined variable, 2 = another error -/
def leftKind : Except Err (Value N) → Nat
  | .ok _ => 0
  | .error (.undefinedVariable _) => 1
  | .error _ => 2

/-- `boolean::<FULL_EVAL>(left, right)` as recognised by the translator (`booleanBodyRecognised`) -/
def booleanFn (full : Bool) (lv : Value N) (tl : List (Event N)) (right : R N) : R N :=
  if Value.asBool lv == full then rightBool tl right else (.ok (.bool (Value.asBool lv)), tl)

/-- what each kind of outer arm does with the evaluated left operand `(left, tl)` and the (lazily used) right operand -/
def runOuter (op : Op) (left : Except Err (Value N)) (tl : List (Event N)) (right : R N) : Semantics.Outer N → R N
  | .boolean full => (match left with | .ok lv => booleanFn full lv tl right | .error e => (.error e, tl))
  | .booleanOn full v => booleanFn full v tl right
  | .const b => (.ok (.bool b), tl)
  | .strict =>
    (match left with
     | .ok lv =>
       (match right with
        | (.ok rv, tr) => (Semantics.strictDispatch op lv rv, tl ++ tr)
        | (.error (.undefinedVariable n), tr) =>
          (match Semantics.undefinedRight op lv with
           | some res => (res, tl ++ tr)
           | none => (.error (.undefinedVariable n), tl ++ tr))
        | (.error e, tr) => (.error e, tl ++ tr))
     | .error e => (.error e, tl))
  | .undefLeft negate both =>
    (match right with
     | (.ok rv, tr) => (.ok (.bool (if negate then !Value.isEmpty rv else Value.isEmpty rv)), tl ++ tr)
     | (.error (.undefinedVariable _), tr) => (.ok (.bool both), tl ++ tr)
     | (.error e, tr) => (.error e, tl ++ tr))
  | .propagate => (match left with | .error e => (.error e, tl) | .ok v => (.ok v, tl))

/-- `binary`: the model is the source's outer match (in source order) run on the evaluated operands -/
theorem binary_is_source (op : Op) (left right : R N) :
    binModel op left right = runOuter op left.1 left.2 right (Semantics.outerDispatch op (leftKind left.1)) := by
  obtain ⟨l, tl⟩ := left
  obtain ⟨r, tr⟩ := right
  cases l with
  | ok lv =>
    cases op <;> simp only [binModel, Semantics.outerDispatch, leftKind, runOuter, booleanFn, strict_is_source] <;>
      (first
        | (cases h : Value.asBool lv <;> simp [rightBool])
        | (cases r with
           | ok rv => rfl
           | error e => cases e <;> simp [Semantics.undefinedRight]))
  | error e =>
    cases e <;> cases op <;> simp only [binModel, Semantics.outerDispatch, leftKind, runOuter, booleanFn] <;>
      (first
        | rfl
        | (simp [Value.asBool, Value.isEmpty, Value.eq, Value.empty])
        | (cases r with
           | ok rv => simp
           | error e' => cases e' <;> simp))

/-- `ternary` accepts exactly the source's operator -/
theorem ternary_is_source (op : Op) (c m r : R N) (h : op ≠ Semantics.ternaryOperator) :
    ternModel op c m r = (.error (.invalidTernary op), []) := by
  cases op <;> first | rfl | exact absurd rfl h

theorem boolean_recognised : Semantics.booleanBodyRecognised = true := rfl

end Slac.C03Source
