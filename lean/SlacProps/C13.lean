/-
  C13 — the comparison operators, compare(), min/max, between and sort are views of ONE ordering of values
  (`Value.cmp`, src/value.rs `Ord::cmp`).

  What the code really satisfies (and what it does not):
  (A) for ALL values (NaN, signed zeros, infinities, numeric / non-numeric strings, booleans, nested arrays):
      the ordering is oriented and total (`a<b ⇔ b>a`, `a<=b ⇔ ¬ a>b`, `a>=b ⇔ b<=a`, `a<>b ⇔ ¬ a=b`, `=` symmetric),
      `compare` returns -1/0/1 consistently with the operators, `between(v,lo,hi) ⇔ lo<=v ∧ v<=hi`,
      `min`/`max` return members of their input, `sort` returns a permutation of its input.
  (B) the ordering is NOT transitive on all values (part C); it is a total preorder on every `Safe` collection:
      no NaN leaf, and not both a numeric-string leaf and a Number leaf.  There: `sort` output is sorted
      (pairwise), sorting is idempotent and it is THE stable sorted permutation (so the model is tied to Rust's
      stable `slice::sort`), `max`/`min` bound all members.
  (C) kernel-checked counterexamples to transitivity outside Safe:  '9' <= 9.5 <= '10' but not '9' <= '10';
      1 <= NaN <= 0 but not 1 <= 0.
  Number facts are the hypotheses `LawfulNum N`, proved for the driver's bit-level `Float` instance
  (SlacProofs.OrderNum).
-/
import SlacModel.Interp
import SlacProofs.OrderStable
set_option autoImplicit false
namespace Slac.C13
variable {N : Type} [NumOps N]
open Value StdOrder Order

/-! ## the operators and built-ins are views of `Value.cmp` / `Value.eq` (by definition of the model) -/

/-- `<`, `<=`, `>`, `>=`, `=`, `<>` of the interpreter are `lt`, `le`, `gt`, `ge`, `eq`, `!eq`. -/
theorem operators_are_views (a b : Value N) :
    binVal .less a b = .ok (.bool (Value.lt a b)) ∧ binVal .lessEqual a b = .ok (.bool (Value.le a b)) ∧
    binVal .greater a b = .ok (.bool (Value.gt a b)) ∧ binVal .greaterEqual a b = .ok (.bool (Value.ge a b)) ∧
    binVal .equal a b = .ok (.bool (Value.eq a b)) ∧ binVal .notEqual a b = .ok (.bool (!Value.eq a b)) :=
  ⟨rfl, rfl, rfl, rfl, rfl, rfl⟩

example : binVal (N := Float) .less (.str ['a']) (.num 1) = .ok (.bool true) := by rfl

/-- `a <> b` iff not `a = b` -/
theorem ne_iff_not_eq (a b : Value N) :
    binVal .notEqual a b = .ok (.bool (!Value.eq a b)) ∧ binVal .equal a b = .ok (.bool (Value.eq a b)) :=
  ⟨rfl, rfl⟩

example : binVal (N := Float) .notEqual (.bool true) (.num 1) = .ok (.bool false) := by rfl

/-! ## (A) laws for ALL values -/
section A

/-- the ordering is oriented: swapping the operands swaps the result -/
theorem cmp_swap [LawfulNum N] (a b : Value N) : cmp b a = (cmp a b).swap := Order.cmp_swap a b

example : cmp (N := Float) (.num F64.nan) (.arr [.str ['1']]) = .lt ∧
    cmp (N := Float) (.arr [.str ['1']]) (.num F64.nan) = .gt := by decide

/-- core's `OrientedCmp` for the value ordering -/
instance cmp_oriented [LawfulNum N] : Std.OrientedCmp (Value.cmp (N := N)) := inferInstance

/-- `a < b` iff `b > a` -/
theorem lt_iff_gt [LawfulNum N] (a b : Value N) : Value.lt a b = Value.gt b a := by
  simp only [Value.lt, Value.gt]; rw [cmp_swap a b]; cases cmp a b <;> rfl

/-- `a <= b` iff not `a > b` -/
theorem le_iff_not_gt (a b : Value N) : Value.le a b = !Value.gt a b := by
  simp only [Value.le, Value.gt]; cases cmp a b <;> rfl

/-- `a >= b` iff `b <= a` -/
theorem ge_iff_le [LawfulNum N] (a b : Value N) : Value.ge a b = Value.le b a := by
  simp only [Value.le, Value.ge]; rw [cmp_swap a b]; cases cmp a b <;> rfl

/-- `a >= b` iff not `a < b` -/
theorem ge_iff_not_lt (a b : Value N) : Value.ge a b = !Value.lt a b := by
  simp only [Value.ge, Value.lt]; cases cmp a b <;> rfl

example : Value.lt (N := Float) (.num (-0.0)) (.num 0) = false ∧ Value.gt (N := Float) (.num 0) (.num (-0.0)) = false ∧
    Value.le (N := Float) (.str ['1', '0']) (.num 9) = false ∧ Value.gt (N := Float) (.str ['1', '0']) (.num 9) = true := by
  decide

/-- `=` is symmetric (also across kinds: `true = 1`, `'1.0' = 1`, NaN ≠ NaN) -/
theorem eq_symm [LawfulNum N] (a b : Value N) : Value.eq a b = Value.eq b a := Order.eq_symm a b

example : Value.eq (N := Float) (.bool true) (.num 1) = true ∧ Value.eq (N := Float) (.num 1) (.bool true) = true ∧
    Value.eq (N := Float) (.num F64.nan) (.num F64.nan) = false := by decide

/-- the ordering is reflexive and total on all values -/
theorem le_refl [LawfulNum N] (a : Value N) : Value.le a a = true := Order.le_refl a
theorem le_total [LawfulNum N] (a b : Value N) : Value.le a b = true ∨ Value.le b a = true := Order.le_total a b

/-- `compare` returns the code of `cmp`, one of -1 / 0 / 1, consistently with the operators
    (`ordCode .lt = -(1)`, `ordCode .eq = 0`, `ordCode .gt = 1`). -/
theorem compare_consistent (a b : Value N) :
    ∃ o : Ordering, StdOrder.compare [a, b] = .ok (.num (ordCode o)) ∧
      (o = .lt ↔ Value.lt a b = true) ∧ (o = .gt ↔ Value.gt a b = true) ∧
      (o = .eq ↔ (Value.le a b = true ∧ Value.ge a b = true)) := by
  refine ⟨cmp a b, rfl, ?_, ?_, ?_⟩ <;> simp only [Value.lt, Value.gt, Value.le, Value.ge] <;>
    cases cmp a b <;> simp

/-- `compare(a, b) = -compare(b, a)` at the level of orderings -/
theorem compare_swap [LawfulNum N] (a b : Value N) :
    StdOrder.compare [b, a] = .ok (.num (ordCode (cmp a b).swap)) := by
  simp only [StdOrder.compare]; rw [cmp_swap a b]

/-- any other number of parameters is an arity error -/
theorem compare_arity (ps : List (Value N)) (h : ps.length ≠ 2) :
    StdOrder.compare ps = .error (.wrongParameterCount 2) := by
  match ps with
  | [] | [_] | _ :: _ :: _ :: _ => rfl
  | [_, _] => simp at h

/-- `between(v, lo, hi)` holds iff `lo <= v` and `v <= hi` -/
theorem between_iff [LawfulNum N] (v lo hi : Value N) :
    StdOrder.between [v, lo, hi] = .ok (.bool (Value.le lo v && Value.le v hi)) := by
  simp only [StdOrder.between]; rw [ge_iff_le]

theorem between_arity (ps : List (Value N)) (h : ps.length ≠ 3) :
    StdOrder.between ps = .error (.wrongParameterCount 3) := by
  match ps with
  | [] | [_] | [_, _] | _ :: _ :: _ :: _ :: _ => rfl
  | [_, _, _] => simp at h

example : StdOrder.between (N := Float) [.num 5, .str ['1'], .num F64.inf] = .ok (.bool true) := by rfl

/-- `max` returns a member of its (non-empty) input, and fails exactly on empty input -/
theorem max_mem (ps : List (Value N)) (m : Value N) (h : StdOrder.max ps = .ok m) : m ∈ smartVec ps := by
  unfold StdOrder.max at h
  split at h
  · rename_i v hv; cases h; exact maxV_mem hv
  · cases h
theorem max_ok_iff (ps : List (Value N)) : (∃ m, StdOrder.max ps = .ok m) ↔ smartVec ps ≠ [] := by
  unfold StdOrder.max
  cases h : smartVec ps with
  | nil => simp [maxV]
  | cons x xs => simp [maxV]
theorem max_empty (ps : List (Value N)) (h : smartVec ps = []) :
    ∃ e, StdOrder.max ps = .error e := by
  unfold StdOrder.max; rw [h]; exact ⟨_, rfl⟩
/-- without parameters the error is the parameter-count error; `max([])` is *not* a parameter-count error -/
theorem max_no_params : StdOrder.max ([] : List (Value N)) = .error (.wrongParameterCount 1) := rfl
theorem max_empty_array_not_count (k : Nat) : StdOrder.max [(.arr [] : Value N)] ≠ .error (.wrongParameterCount k) := by
  intro h; simp [StdOrder.max, smartVec, maxV, emptyError] at h

/-- `min` returns a member of its (non-empty) input, and fails exactly on empty input -/
theorem min_mem (ps : List (Value N)) (m : Value N) (h : StdOrder.min ps = .ok m) : m ∈ smartVec ps := by
  unfold StdOrder.min at h
  split at h
  · rename_i v hv; cases h; exact minV_mem hv
  · cases h
theorem min_ok_iff (ps : List (Value N)) : (∃ m, StdOrder.min ps = .ok m) ↔ smartVec ps ≠ [] := by
  unfold StdOrder.min
  cases h : smartVec ps with
  | nil => simp [minV]
  | cons x xs => simp [minV]
theorem min_empty (ps : List (Value N)) (h : smartVec ps = []) :
    ∃ e, StdOrder.min ps = .error e := by
  unfold StdOrder.min; rw [h]; exact ⟨_, rfl⟩
theorem min_no_params : StdOrder.min ([] : List (Value N)) = .error (.wrongParameterCount 1) := rfl
theorem min_empty_array_not_count (k : Nat) : StdOrder.min [(.arr [] : Value N)] ≠ .error (.wrongParameterCount k) := by
  intro h; simp [StdOrder.min, smartVec, minV, emptyError] at h

/-- `sort` returns a permutation of its input — for ALL inputs -/
theorem sort_perm (xs : List (Value N)) : (sortBy xs).Perm xs := Order.sortBy_perm xs

/-- the built-in: one Array ⇒ the sorted Array; one non-Array ⇒ type error; otherwise arity error -/
theorem sort_builtin (xs : List (Value N)) :
    ∃ ys, StdOrder.sort [.arr xs] = .ok (.arr ys) ∧ ys.Perm xs ∧ ys.length = xs.length :=
  ⟨sortBy xs, rfl, sort_perm xs, (sort_perm xs).length_eq⟩
theorem sort_wrong_type (v : Value N) (h : ∀ xs, v ≠ .arr xs) : StdOrder.sort [v] = .error .wrongParameterType := by
  cases v with
  | arr xs => exact absurd rfl (h xs)
  | _ => rfl
theorem sort_arity (ps : List (Value N)) (h : ps.length ≠ 1) :
    StdOrder.sort ps = .error (.wrongParameterCount 1) := by
  match ps with
  | [] => rfl
  | a :: _ :: _ => cases a <;> rfl
  | [_] => simp at h

/-- In the insertion-sort model adjacent sortedness and idempotence hold for all inputs (orientation suffices).
    Only on Safe inputs is the model tied to Rust's `slice::sort` (see `sort_unique`). -/
theorem sort_adjacent_model [LawfulNum N] (xs : List (Value N)) : AdjSorted (sortBy xs) := Order.sortBy_adj xs
theorem sort_idempotent_model [LawfulNum N] (xs : List (Value N)) : sortBy (sortBy xs) = sortBy xs := Order.sortBy_idem xs

end A

/-- with the driver's numbers the three codes are the distinct numbers -1, 0, 1 -/
theorem compare_float (a b : Value Float) :
    (StdOrder.compare [a, b] = .ok (.num (-1)) ∨ StdOrder.compare [a, b] = .ok (.num 0) ∨
      StdOrder.compare [a, b] = .ok (.num 1)) ∧
    (StdOrder.compare [a, b] = .ok (.num (-1)) ↔ Value.lt a b = true) ∧
    (StdOrder.compare [a, b] = .ok (.num 1) ↔ Value.gt a b = true) ∧
    (StdOrder.compare [a, b] = .ok (.num 0) ↔ (Value.le a b = true ∧ Value.ge a b = true)) := by
  have hne : ∀ x y : Float, x.toBits ≠ y.toBits →
      (Except.ok (Value.num x) : Except NativeError (Value Float)) ≠ .ok (.num y) := by
    intro x y h e; injection e with e; injection e with e; exact h (by rw [e])
  have h10 : (Except.ok (Value.num (-1 : Float)) : Except NativeError (Value Float)) ≠ .ok (.num 0) :=
    hne _ _ (by decide)
  have h11 : (Except.ok (Value.num (-1 : Float)) : Except NativeError (Value Float)) ≠ .ok (.num 1) :=
    hne _ _ (by decide)
  have h01 : (Except.ok (Value.num (0 : Float)) : Except NativeError (Value Float)) ≠ .ok (.num 1) :=
    hne _ _ (by decide)
  have hc : StdOrder.compare [a, b] = .ok (.num (ordCode (cmp a b))) := rfl
  have e1 : (ordCode .lt : Float) = -1 := rfl
  have e2 : (ordCode .eq : Float) = 0 := rfl
  have e3 : (ordCode .gt : Float) = 1 := rfl
  rw [hc]
  simp only [Value.lt, Value.gt, Value.le, Value.ge]
  cases cmp a b <;> simp only [e1, e2, e3] <;> simp [h10, h11, h01, h10.symm, h11.symm, h01.symm]

example : StdOrder.compare (N := Float) [.str ['2'], .num 10] = .ok (.num (-1)) :=
  (compare_float _ _).2.1.2 (by decide)
example : StdOrder.compare (N := Float) [.num 1, .num F64.nan] = .ok (.num 0) :=
  (compare_float _ _).2.2.2.2 (by decide)

/-! ## (B) total preorder on the Safe domain -/
section B
variable [LawfulNum N]

/-- The domain: over all leaves of all members, no NaN, and not both a numeric String and a Number.
    (`Order.Safe`, decidable: `Order.safeB`.) -/
abbrev Safe (xs : List (Value N)) : Prop := Order.Safe xs

example : Safe (N := Float)
    [.bool true, .str ['a'], .num 1.5, .arr [.num (-0.0), .str [], .arr [.bool false]], .num F64.inf, .str ['n','a','n']] := by
  decide
/-- numeric strings are fine as long as no Number is around -/
example : Safe (N := Float) [.str ['9'], .str ['1','0'], .arr [.str ['1','e','3']], .bool false] := by decide
example : ¬ Safe (N := Float) [.str ['9'], .arr [.arr [.num 1]]] := by decide
example : ¬ Safe (N := Float) [.arr [.num F64.nan]] := by decide

/-- transitivity of `<=` for any three members of a Safe collection -/
theorem cmp_trans {xs : List (Value N)} (h : Safe xs) {a b c : Value N} (ha : a ∈ xs) (hb : b ∈ xs) (hc : c ∈ xs)
    (h1 : Value.le a b = true) (h2 : Value.le b c = true) : Value.le a c = true :=
  (Order.Safe.transOn h) a b c ha hb hc h1 h2

/-- the same for a Safe triple -/
theorem cmp_trans3 {a b c : Value N} (h : Safe [a, b, c])
    (h1 : Value.le a b = true) (h2 : Value.le b c = true) : Value.le a c = true :=
  cmp_trans h (by simp) (by simp) (by simp) h1 h2

example : Value.le (N := Float) (.bool true) (.num 3) = true :=
  cmp_trans3 (b := .str ['x']) (by decide) (by decide) (by decide)

/-- `<` is transitive, and equivalent values compare alike against any third (TransCmp-strength facts) -/
theorem lt_trans {xs : List (Value N)} (h : Safe xs) {a b c : Value N} (ha : a ∈ xs) (hb : b ∈ xs) (hc : c ∈ xs)
    (h1 : Value.lt a b = true) (h2 : Value.lt b c = true) : Value.lt a c = true := by
  simp only [Value.lt, beq_iff_eq] at *
  exact (cmp_tri_of_safe h ha hb hc).2.2.1 h1 h2
theorem cmp_congr_left {xs : List (Value N)} (h : Safe xs) {a b c : Value N} (ha : a ∈ xs) (hb : b ∈ xs)
    (hc : c ∈ xs) (h1 : cmp a b = .eq) : cmp a c = cmp b c :=
  (cmp_tri_of_safe h ha hb hc).1 h1

/-- on a Safe collection `<=` is a total preorder -/
theorem total_preorder {xs : List (Value N)} (h : Safe xs) :
    (∀ a ∈ xs, Value.le a a = true) ∧
    (∀ a ∈ xs, ∀ b ∈ xs, Value.le a b = true ∨ Value.le b a = true) ∧
    (∀ a ∈ xs, ∀ b ∈ xs, ∀ c ∈ xs, Value.le a b = true → Value.le b c = true → Value.le a c = true) :=
  ⟨fun a _ => le_refl a, fun a _ b _ => le_total a b, fun _ ha _ hb _ hc => cmp_trans h ha hb hc⟩

/-- sorting a Safe array: no element is greater than its successor … -/
theorem sort_sorted {xs : List (Value N)} (_h : Safe xs) : AdjSorted (sortBy xs) := Order.sortBy_adj xs
/-- … in fact no element is greater than any later one -/
theorem sort_pairwise {xs : List (Value N)} (h : Safe xs) :
    (sortBy xs).Pairwise (fun a b => Value.le a b = true) := Order.sortBy_pairwise h
/-- sorting again changes nothing -/
theorem sort_idempotent {xs : List (Value N)} (_h : Safe xs) : sortBy (sortBy xs) = sortBy xs :=
  Order.sortBy_idem xs
/-- `sortBy` keeps equivalent elements in input order, and it is the ONLY sorted permutation that does:
    whatever stable sort the library uses returns this list. -/
theorem sort_stable {xs : List (Value N)} (h : Safe xs) : StableOf xs (sortBy xs) := Order.sortBy_stable h
theorem sort_unique {xs ys : List (Value N)} (h : Safe xs) (hp : ys.Perm xs)
    (hs : ys.Pairwise (fun a b => Value.le a b = true)) (hst : StableOf xs ys) : ys = sortBy xs :=
  Order.stable_sort_unique h hp hs hst

example : sortBy (N := Float) [.num 2, .str ['b'], .num (-0.0), .arr [.num 1], .bool true, .arr [], .num 0, .str ['a']]
    = [.bool true, .str ['a'], .str ['b'], .num (-0.0), .num 0, .num 2, .arr [], .arr [.num 1]] := by rfl
example : Safe (N := Float) [.num 2, .str ['b'], .num (-0.0), .arr [.num 1], .bool true, .arr [], .num 0, .str ['a']] := by
  decide

/-- `max` of a Safe collection bounds every member from above (it is the LAST such member) -/
theorem max_bounds {xs : List (Value N)} (h : Safe xs) {m : Value N} (hm : maxV xs = some m) :
    ∀ x ∈ xs, Value.le x m = true := by
  cases xs with
  | nil => simp [maxV] at hm
  | cons y ys =>
    simp only [maxV, Option.some.injEq] at hm
    rw [← hm]
    exact foldl_maxStep_bound (Order.Safe.transOn h) ys y (List.mem_cons_self ..)
      (fun z hz => List.mem_cons_of_mem _ hz)

/-- `min` of a Safe collection bounds every member from below (it is the FIRST such member) -/
theorem min_bounds {xs : List (Value N)} (h : Safe xs) {m : Value N} (hm : minV xs = some m) :
    ∀ x ∈ xs, Value.le m x = true := by
  cases xs with
  | nil => simp [minV] at hm
  | cons y ys =>
    simp only [minV, Option.some.injEq] at hm
    rw [← hm]
    exact foldl_minStep_bound (Order.Safe.transOn h) ys y (List.mem_cons_self ..)
      (fun z hz => List.mem_cons_of_mem _ hz)

/-- the built-ins -/
theorem max_builtin_bounds (ps : List (Value N)) (h : Safe (smartVec ps)) (m : Value N)
    (hm : StdOrder.max ps = .ok m) : m ∈ smartVec ps ∧ ∀ x ∈ smartVec ps, Value.le x m = true := by
  refine ⟨max_mem ps m hm, ?_⟩
  unfold StdOrder.max at hm
  split at hm
  · rename_i v hv; cases hm; exact max_bounds h hv
  · cases hm
theorem min_builtin_bounds (ps : List (Value N)) (h : Safe (smartVec ps)) (m : Value N)
    (hm : StdOrder.min ps = .ok m) : m ∈ smartVec ps ∧ ∀ x ∈ smartVec ps, Value.le m x = true := by
  refine ⟨min_mem ps m hm, ?_⟩
  unfold StdOrder.min at hm
  split at hm
  · rename_i v hv; cases hm; exact min_bounds h hv
  · cases hm

example : StdOrder.max (N := Float) [.arr [.num 1, .str ['z'], .num 7, .bool true]] = .ok (.num 7) := by rfl
example : StdOrder.min (N := Float) [.num 1, .str ['z'], .num 7, .bool true] = .ok (.bool true) := by rfl
example : Safe (N := Float) (smartVec [.arr [.num 1, .str ['z'], .num 7, .bool true]]) := by decide

end B

/-! ## (C) outside Safe the ordering is not transitive (kernel-checked on the driver's `Float` instance) -/

/-- `'9' <= 9.5` (numeric), `9.5 <= '10'` (numeric), but `'9' <= '10'` is false (lexicographic) -/
theorem le_not_transitive_strings :
    Value.le (N := Float) (.str ['9']) (.num 9.5) = true ∧
    Value.le (N := Float) (.num 9.5) (.str ['1', '0']) = true ∧
    ¬ Value.le (N := Float) (.str ['9']) (.str ['1', '0']) = true := by decide

/-- NaN is "equal" to every number: `1 <= NaN`, `NaN <= 0`, but `1 <= 0` is false -/
theorem le_not_transitive_nan :
    Value.le (N := Float) (.num 1) (.num F64.nan) = true ∧
    Value.le (N := Float) (.num F64.nan) (.num 0) = true ∧
    ¬ Value.le (N := Float) (.num 1) (.num 0) = true := by decide

/-- both witnesses are (of course) outside the Safe domain -/
example : ¬ Safe (N := Float) [.str ['9'], .num 9.5, .str ['1', '0']] := by decide
example : ¬ Safe (N := Float) [.num 1, .num F64.nan, .num 0] := by decide

/-- consequently `max` need not bound its input outside Safe: `max(1, NaN, 0) = 0` -/
theorem max_not_bound_nan :
    ∃ m, maxV (N := Float) [.num 1, .num F64.nan, .num 0] = some m ∧ Value.le (N := Float) (.num 1) m = false :=
  ⟨.num 0, rfl, by decide⟩

/-- `compare(a, b) = 0` does NOT characterise `a = b`: `true = 1` holds but `compare(true, 1) = -1` -/
theorem compare_zero_is_not_eq :
    Value.eq (N := Float) (.bool true) (.num 1) = true ∧ cmp (N := Float) (.bool true) (.num 1) = .lt := by decide

end Slac.C13
