/-
  SlacProps.C18Source — the four regex wrappers of SlacModel/Regex.lean (the functions the C18 theorems are stated about) ARE what
  tools/rs2lean_stdlib.py translates from the current text of src/stdlib/regex.rs (SlacModel/Generated/SrcRegex.lean), for EVERY engine
  (regex-lite itself stays behind the `Engine` interface: its agreement with the engine model is the differential tie of C18).
-/
import SlacModel.Regex
import SlacModel.Generated.SrcRegex
import SlacProps.C09Source
set_option autoImplicit false
set_option linter.unusedSectionVars false
namespace Slac.C18Source
open Slac Slac.Generated
variable {N : Type} [NumX N] {Re : Type} (E : Regex.Engine Re)

theorem isMatch_is_source (ps : List (Value N)) : Regex.isMatch E ps = SrcRegex.is_match E ps := by
  rcases ps with _ | ⟨a, _ | ⟨b, _ | ⟨c, r⟩⟩⟩
  · rfl
  · cases a <;> rfl
  · cases a <;> cases b <;> simp only [Regex.isMatch, SrcRegex.is_match, Regex.withRe, bind, Except.bind] <;>
      (first | rfl | (rename_i h p; cases E.compile p <;> rfl))
  · cases a <;> cases b <;> rfl

theorem find_is_source (ps : List (Value N)) : Regex.find E ps = SrcRegex.find E ps := by
  rcases ps with _ | ⟨a, _ | ⟨b, _ | ⟨c, r⟩⟩⟩
  · rfl
  · cases a <;> rfl
  · cases a <;> cases b <;> simp only [Regex.find, SrcRegex.find, Regex.withRe, bind, Except.bind] <;>
      (first | rfl | (rename_i h p; cases E.compile p <;> rfl))
  · cases a <;> cases b <;> rfl

theorem capture_is_source (ps : List (Value N)) : Regex.capture E ps = SrcRegex.capture E ps := by
  rcases ps with _ | ⟨a, _ | ⟨b, _ | ⟨c, r⟩⟩⟩
  · rfl
  · cases a <;> rfl
  · cases a <;> cases b <;> simp only [Regex.capture, SrcRegex.capture, SrcRegex.get_capture_groups, Regex.withRe, bind, Except.bind] <;>
      (first | rfl | (rename_i h p; cases hc : E.compile p with
                                    | error m => rfl
                                    | ok re => simp only []; cases E.captures re h <;> rfl))
  · cases a <;> cases b <;> rfl

theorem replace_is_source (ps : List (Value N)) : Regex.replace E ps = SrcRegex.replace E ps := by
  unfold Regex.replace SrcRegex.replace
  rw [C09Source.defaultString_is_source, C09Source.defaultNumber_is_source]
  cases SrcStdlib.default_string ps 2 [] with
  | error e => rfl
  | ok repl =>
    simp only [bind, Except.bind]
    cases SrcStdlib.default_number ps 3 (NumOps.zero : N) with
    | error e => rfl
    | ok lim =>
      simp only []
      rcases ps with _ | ⟨a, _ | ⟨b, r⟩⟩
      · rfl
      · cases a <;> rfl
      · cases a <;> cases b <;> simp only [Regex.withRe] <;>
          (first | rfl | (rename_i h p; cases E.compile p <;> rfl) | (cases r <;> rfl))

end Slac.C18Source
