/-
  C10 (table part) — on the tables REGENERATED from the running crate on every check run:
  the environment reports each builtin callable with n arguments exactly when n lies within its registered arity,
  and no call of a builtin within that arity with arguments of the documented kinds answers WrongParameterCount.
-/
import SlacProofs.Tables
set_option autoImplicit false
namespace Slac.C10
open Slac.Tables Slac.Generated

theorem registry_consistent :
    builtins.all (fun r => r.existsAnswers == (List.range 7).map (expectedAnswer r)) = true :=
  Tables.registry_consistent

theorem no_param_count_error :
    rowsOk (fun r d => (List.range nTuples).all fun t => !(inArity r (tupleLen t) && matchesDoc r t && countFlag d t)) = true :=
  Tables.no_param_count_error

theorem no_param_count_error_at (i t : Nat) (hi : i < builtins.length) (ht : t < nTuples)
    (ha : inArity (builtins[i]) (tupleLen t) = true) (hd : matchesDoc (builtins[i]) t = true) :
    countFlag (dispatch[i]'(by rw [← tables_aligned]; exact hi)) t = false :=
  Tables.no_param_count_error_at i t hi ht ha hd

end Slac.C10
