/-
  C02 — the token sequence depends only on the lexical content of the source.

  Model: `Slac.Scanner.scan` (SlacModel/Scanner.lean, mirrors src/scanner.rs).  Everything holds for every
  `CharClass` (the Unicode tables Lean lacks) satisfying `AsciiOk` — alphabetic / numeric / to_lowercase behave on
  ASCII text as in Rust — and for every number type `N`.

  Vocabulary (SlacProofs/Scanner*.lean):
  * `IsSep s`     — `s` is a sequence of whitespace characters (space, tab, CR, LF), `// … LF` line comments and
                    balanced, possibly nested `{ … }` block comments;
    `IsTrail s`   — separators, then possibly a `// …` without line end or a never closed `{ …` (end of input only).
  * `Lexeme cc t x` — the text `x` is a spelling of token `t`: fixed punctuation; an identifier-shaped text whose
                    lower-casing is a keyword (any letter case!) for and/or/xor/not/div/mod/true/false; an
                    identifier-shaped text that is no keyword for `identifier x` (exact spelling); a number-shaped
                    text `x` with `NumOps.parse x = some v` for `literal (num v)`; `quote s` for `literal (str s)`.
  * `fuse cc t x c` — the character `c` right after the lexeme `x` of `t` would be read as part of it;
    `NoCont cc t x rest` — the first character of `rest` (if any) does not fuse.
  * `needsSep t t'` — token-level, conservative: the two lexemes may not touch.
-/
import SlacProofs.ScannerLits
import SlacProofs.ScannerSepDec
set_option autoImplicit false
namespace Slac.C02
open Slac.Scanner
variable {N : Type} [NumOps N]

/-! ## 1. separators are invisible -/

/-- `skip_whitespace` skips exactly the separators: whitespace, line comments, nested block comments -/
theorem skipWs_sep {s : Str} (hs : IsSep s) (rest : Str) :
    skipWs .code (s ++ rest) = skipWs .code rest :=
  Scanner.skipWs_sep hs rest

/-- after the last token, an unterminated comment swallows the rest of the input -/
theorem skipWs_trail {s : Str} (hs : IsTrail s) : skipWs .code s = [] :=
  Scanner.skipWs_trail hs

/-- (a) separator invariance at a token boundary: a separator in front of any text — in particular in front of
    the whole source — never changes the result (tokens or error value) -/
theorem scan_sep_invariant (cc : CharClass) {s : Str} (hs : IsSep s) (rest : Str) :
    scan (N := N) cc (s ++ rest) = scan cc rest :=
  Scanner.scan_sep cc hs rest

/-- a source made of separators only (even with an open comment at its end) has no tokens: `Error::Eof` -/
theorem scan_only_separators (cc : CharClass) {s : Str} (hs : IsTrail s) : scan (N := N) cc s = .err .eof := by
  unfold scan; rw [scanAll_trail cc hs]

/-- a non-trivial separator: ` { a{n}//} ⏎// x⏎⇥` (nested block comment containing `//`, line comment) -/
example : IsSep [' ', '{', ' ', 'a', '{', 'n', '}', '/', '/', '}', ' ', '\n', '/', '/', ' ', 'x', '\n', '\t'] := by
  refine .ws (by decide) (.block (body := [' ', 'a', '{', 'n', '}', '/', '/', '}']) ?_
    (.ws (by decide) (.ws (by decide) (.line (body := [' ', 'x']) (by decide) (.ws (by decide) .nil)))))
  repeat (first | exact .close0 | apply Body.close | apply Body.open_ | (apply Body.other (by decide) (by decide)))

example : skipWs .code ([' ', '{', '{', '}', '/', '/', '}', '\n', '/', '/', 'x', '\n'] ++ ['y', ' ']) = ['y', ' '] :=
  skipWs_sep (.ws (by decide) (.block (body := ['{', '}', '/', '/', '}'])
    (.open_ (.close (.other (by decide) (by decide) (.other (by decide) (by decide) .close0))))
    (.ws (by decide) (.line (body := ['x']) (by decide) .nil)))) _

example : scan (N := N) CharClass.ascii [' ', '/', '/', 'x', '\n', '{', 'a', '{', 'b', '}'] = .err .eof :=
  scan_only_separators _ (.sep (.ws (by decide) (.line (body := ['x']) (by decide) .nil))
    (.blockEof (.other (by decide) (by decide) (.open_ (.other (by decide) (by decide) (.close .nil))))))

/-- separator invariance also preserves error values -/
example : scan (N := N) CharClass.ascii ([' ', '{', 'x', '{', '}', '}', '/', '/', '\n'] ++ ['a', '$']) =
    scan CharClass.ascii ['a', '$'] :=
  scan_sep_invariant _ (sepB_sound (by decide)) _

/-! ## 2. string literals -/

/-- A string literal denotes exactly its contents, `''` standing for one quote — for every content: quotes,
    comment markers, line breaks, any Unicode. -/
theorem scan_string_literal {cc : CharClass} (hcc : cc.AsciiOk) (s : Str) :
    scan (N := N) cc (quote s) = .ok [.literal (.str s)] :=
  scan_single hcc .str

omit [NumOps N] in
/-- The scanner's procedure (take the raw text between the outer quotes, then `replace("''", "'")` if a doubled
    quote was seen) computes the "unescape" reading `strDirect` on every input, terminated or not. -/
theorem string_replace_eq_unescape (cs : Str) :
    Scanner.string (N := N) cs = match strDirect cs with
      | none => .error .unterminatedStringLiteral
      | some (s, rest) => .ok (.literal (.str s), rest) :=
  string_eq_direct cs

example : quote ['i', 't', '\'', 's', ' ', '{', '/', '/', '\n', '\'', '\''] =
    ['\'', 'i', 't', '\'', '\'', 's', ' ', '{', '/', '/', '\n', '\'', '\'', '\'', '\'', '\''] := by decide

example : scan (N := N) CharClass.ascii
      ['\'', 'i', 't', '\'', '\'', 's', ' ', '{', '/', '/', '\n', '\'', '\'', '\'', '\'', '\''] =
    .ok [.literal (.str ['i', 't', '\'', 's', ' ', '{', '/', '/', '\n', '\'', '\''])] :=
  scan_string_literal CharClass.ascii_ok ['i', 't', '\'', 's', ' ', '{', '/', '/', '\n', '\'', '\'']

/-! ## 3. keywords in any letter case; identifiers keep their spelling -/

/-- every ASCII case variant `x` of a keyword `kw` (`asciiLower x = kw`) scans to the keyword's token
    (`true` / `false`: the boolean literal) -/
theorem keyword_case {cc : CharClass} (hcc : cc.AsciiOk) {x kw : Str} {t : Token N}
    (hkw : (kw, t) ∈ keywords N) (hx : Unicode.asciiLower x = kw) : scan cc x = .ok [t] :=
  scan_single hcc (keyword_variant_lexeme hcc hkw hx)

/-- the same as a lexeme, for use inside `scan_layout` -/
theorem keyword_lexeme {cc : CharClass} (hcc : cc.AsciiOk) {x kw : Str} {t : Token N}
    (hkw : (kw, t) ∈ keywords N) (hx : Unicode.asciiLower x = kw) : Lexeme cc t x :=
  keyword_variant_lexeme hcc hkw hx

/-- an identifier-shaped text that is not a keyword scans to `identifier` with its exact spelling -/
theorem identifier_exact {cc : CharClass} (hcc : cc.AsciiOk) {x : Str} (hshape : identShape cc x = true)
    (hk : cc.lowerStr x ∉ keywordTexts) : scan (N := N) cc x = .ok [.identifier x] :=
  scan_single hcc (.ident hshape (kwToken_none hk))

example : scan (N := N) CharClass.ascii ['x', 'O', 'r'] = .ok [.xor] :=
  keyword_case CharClass.ascii_ok (kw := ['x', 'o', 'r']) (by simp [keywords]) (by decide)

example : scan (N := N) CharClass.ascii ['F', 'a', 'L', 'S', 'e'] = .ok [.literal (.bool false)] :=
  keyword_case CharClass.ascii_ok (kw := ['f', 'a', 'l', 's', 'e']) (by simp [keywords]) (by decide)

example : scan (N := N) CharClass.ascii ['_', 'A', 'n', 'd', 'Y', '1'] = .ok [.identifier ['_', 'A', 'n', 'd', 'Y', '1']] :=
  identifier_exact CharClass.ascii_ok (by decide) (by decide)

/-! ## 4. layout -/

/-- (b) the one-token lemma: at a token boundary, a lexeme of `t` followed by text that does not continue it is
    read as `t` and leaves exactly that text (`ReadsAs`: `skipWs` stops at it and `nextToken` returns `(t, rest)`) -/
theorem one_token {cc : CharClass} (hcc : cc.AsciiOk) {t : Token N} {x : Str} (rest : Str)
    (hx : Lexeme cc t x) (hr : NoCont cc t x rest) : ReadsAs cc (x ++ rest) t rest :=
  lexeme_reads hcc rest hx hr

/-- The layout theorem.  For tokens t₁…tₙ (n ≥ 1) with spellings x₁…xₙ and separators s₀…sₙ, where the text after
    each lexeme does not continue it, and a trailing text (possibly an open comment):
    `scan (s₀ ++ x₁ ++ s₁ ++ … ++ xₙ ++ sₙ ++ trail) = ok [t₁, …, tₙ]`. -/
theorem scan_layout {cc : CharClass} (hcc : cc.AsciiOk) (items : List (Item N)) (s0 trail : Str)
    (hne : items ≠ []) (hs0 : IsSep s0) (hitems : ∀ i ∈ items, Lexeme cc i.tok i.text ∧ IsSep i.sep)
    (hjoin : Joinable cc items trail) (htrail : IsTrail trail) :
    scan cc (s0 ++ render items trail) = .ok (items.map (·.tok)) :=
  Scanner.scan_layout hcc items s0 trail hne hs0 hitems hjoin htrail

/-- a non-empty separator never continues the lexeme before it — unless it begins with `/` right after the
    token `/` (`SepFits`) -/
theorem sep_noCont {cc : CharClass} (hcc : cc.AsciiOk) (t : Token N) (x s rest : Str) (hs : IsSep s)
    (hne : s ≠ []) (hfit : SepFits t s) : NoCont cc t x (s ++ rest) :=
  noCont_sep hcc t x s rest hs hne hfit

/-- two lexemes may touch when `needsSep` is false -/
theorem adjacent_noCont {cc : CharClass} (hcc : cc.AsciiOk) {t t' : Token N} {x x' : Str} (rest : Str)
    (hx' : Lexeme cc t' x') (hn : needsSep t t' = false) : NoCont cc t x (x' ++ rest) := by
  obtain ⟨c, tl, he, hc⟩ := hx'.start
  rw [he]
  exact HeadNot.cons (fuse_start hcc _ _ _ _ hc hn)

/-- The layout theorem with the token-level side condition: separators sᵢ may be empty wherever
    `needsSep tᵢ tᵢ₊₁ = false`; a separator after the token `/` must not begin with `/`. -/
theorem scan_layout_tok {cc : CharClass} (hcc : cc.AsciiOk) (items : List (Item N)) (s0 trail : Str)
    (hne : items ≠ []) (hs0 : IsSep s0) (hitems : ∀ i ∈ items, Lexeme cc i.tok i.text ∧ IsSep i.sep)
    (hjoin : JoinableTok items trail) (htrail : IsTrail trail) :
    scan cc (s0 ++ render items trail) = .ok (items.map (·.tok)) :=
  Scanner.scan_layout hcc items s0 trail hne hs0 hitems (joinable_of_tok hcc items trail hitems htrail hjoin) htrail

/-- Consequently: two sources with the same tokens — whatever their whitespace, comments, keyword case or
    spelling of equal numbers — scan to the same result. -/
theorem layout_irrelevant {cc : CharClass} (hcc : cc.AsciiOk) (items items' : List (Item N))
    (s0 s0' trail trail' : Str) (hsame : items.map (·.tok) = items'.map (·.tok)) (hne : items ≠ [])
    (hs0 : IsSep s0) (hs0' : IsSep s0')
    (hitems : ∀ i ∈ items, Lexeme cc i.tok i.text ∧ IsSep i.sep)
    (hitems' : ∀ i ∈ items', Lexeme cc i.tok i.text ∧ IsSep i.sep)
    (hjoin : JoinableTok items trail) (hjoin' : JoinableTok items' trail')
    (htrail : IsTrail trail) (htrail' : IsTrail trail') :
    scan (N := N) cc (s0 ++ render items trail) = scan cc (s0' ++ render items' trail') := by
  have hne' : items' ≠ [] := by
    intro h; subst h; cases items with
    | nil => exact hne rfl
    | cons i r => simp at hsame
  rw [scan_layout_tok hcc items s0 trail hne hs0 hitems hjoin htrail,
    scan_layout_tok hcc items' s0' trail' hne' hs0' hitems' hjoin' htrail', hsame]

/-- the grammars are exactly what the skipping machine accepts (and decidable, for examples) -/
theorem isSep_iff (s : Str) : IsSep s ↔ sepB s = true := Scanner.isSep_iff s
theorem isTrail_iff (s : Str) : IsTrail s ↔ skipWs .code s = [] := Scanner.isTrail_iff s

section example_layout
variable (v : N) (hp : NumOps.parse (N := N) ['1', '.', '5'] = some v)

/-- the five lexemes of both example sources -/
def exItems (v : N) (s1 s2 s3 s4 s5 : Str) (kw : Str) : List (Item N) :=
  [ ⟨.identifier ['a'], ['a'], s1⟩, ⟨.lessEqual, ['<', '='], s2⟩, ⟨.literal (.num v), ['1', '.', '5'], s3⟩,
    ⟨.and, kw, s4⟩, ⟨.literal (.str ['i', 't', '\'', 's']), quote ['i', 't', '\'', 's'], s5⟩ ]

include hp in
theorem exLexemes (s1 s2 s3 s4 s5 kw : Str) (hkw : Unicode.asciiLower kw = ['a', 'n', 'd'])
    (hs : sepB s1 = true ∧ sepB s2 = true ∧ sepB s3 = true ∧ sepB s4 = true ∧ sepB s5 = true) :
    ∀ i ∈ exItems v s1 s2 s3 s4 s5 kw, Lexeme CharClass.ascii i.tok i.text ∧ IsSep i.sep := by
  intro i hi
  simp only [exItems, List.mem_cons, List.not_mem_nil, or_false] at hi
  rcases hi with rfl | rfl | rfl | rfl | rfl
  · exact ⟨.ident (show identShape CharClass.ascii ['a'] = true by decide) rfl, sepB_sound hs.1⟩
  · exact ⟨.punct (by simp [punct]), sepB_sound hs.2.1⟩
  · exact ⟨.num (show numShape CharClass.ascii ['1', '.', '5'] = true by decide) hp, sepB_sound hs.2.2.1⟩
  · exact ⟨keyword_lexeme CharClass.ascii_ok (kw := ['a', 'n', 'd']) (by simp [keywords]) hkw, sepB_sound hs.2.2.2.1⟩
  · exact ⟨.str, sepB_sound hs.2.2.2.2⟩

include hp in
/-- source 1, tightly packed: `a<=1.5 aNd'it''s'` (only `1.5`·`aNd` needs the space) -/
example : scan CharClass.ascii
      ['a', '<', '=', '1', '.', '5', ' ', 'a', 'N', 'd', '\'', 'i', 't', '\'', '\'', 's', '\''] =
    .ok [.identifier ['a'], .lessEqual, .literal (.num v), .and, .literal (.str ['i', 't', '\'', 's'])] :=
  scan_layout_tok CharClass.ascii_ok (exItems v [] [] [' '] [] [] ['a', 'N', 'd']) [] [] (by simp [exItems]) .nil
    (exLexemes v hp _ _ _ _ _ _ (by decide) (by decide))
    (by simp [exItems, JoinableTok, needsSep, lexClass, startClass, SepFits]) .nil

include hp in
/-- source 2, same lexemes with comments everywhere, other keyword case, and an open comment at the end:
    `{c}a <= // x⏎ 1.5 AND{n{e}s}'it''s' {open` -/
example : scan CharClass.ascii
      ['{', 'c', '}', 'a', ' ', '<', '=', ' ', '/', '/', ' ', 'x', '\n', ' ', '1', '.', '5', ' ', 'A', 'N', 'D',
       '{', 'n', '{', 'e', '}', 's', '}', '\'', 'i', 't', '\'', '\'', 's', '\'', ' ', '{', 'o', 'p', 'e', 'n'] =
    .ok [.identifier ['a'], .lessEqual, .literal (.num v), .and, .literal (.str ['i', 't', '\'', 's'])] :=
  scan_layout_tok CharClass.ascii_ok
    (exItems v [' '] [' ', '/', '/', ' ', 'x', '\n', ' '] [' '] ['{', 'n', '{', 'e', '}', 's', '}'] [' '] ['A', 'N', 'D'])
    ['{', 'c', '}'] ['{', 'o', 'p', 'e', 'n'] (by simp [exItems]) (sepB_sound (by decide))
    (exLexemes v hp _ _ _ _ _ _ (by decide) (by decide))
    (by simp [exItems, JoinableTok, needsSep, lexClass, startClass, SepFits])
    ((isTrail_iff _).mpr (by decide))

/-- a place where the separator matters: `a /// b` is `a` followed by a comment, not `a / …` -/
example : scan (N := N) CharClass.ascii ['a', ' ', '/', '/', '/', ' ', 'b'] = .ok [.identifier ['a']] :=
  scan_layout_tok CharClass.ascii_ok [⟨.identifier ['a'], ['a'], [' ']⟩] [] ['/', '/', '/', ' ', 'b'] (by simp) .nil
    (by simp; exact ⟨.ident (by decide) rfl, sepB_sound (by decide)⟩)
    (by simp [JoinableTok, SepFits, lexClass]) ((isTrail_iff _).mpr (by decide))

include hp in
/-- the two sources above, compared directly -/
example : scan (N := N) CharClass.ascii
      (['{', 'c', '}'] ++ render (exItems v [' '] [' ', '/', '/', ' ', 'x', '\n', ' '] [' ']
        ['{', 'n', '{', 'e', '}', 's', '}'] [' '] ['A', 'N', 'D']) ['{', 'o', 'p', 'e', 'n']) =
    scan CharClass.ascii ([] ++ render (exItems v [] [] [' '] [] [] ['a', 'N', 'd']) []) :=
  layout_irrelevant (N := N) CharClass.ascii_ok
    (exItems v [' '] [' ', '/', '/', ' ', 'x', '\n', ' '] [' '] ['{', 'n', '{', 'e', '}', 's', '}'] [' '] ['A', 'N', 'D'])
    (exItems v [] [] [' '] [] [] ['a', 'N', 'd']) ['{', 'c', '}'] [] ['{', 'o', 'p', 'e', 'n'] []
    rfl (by simp [exItems]) (sepB_sound (by decide)) .nil
    (exLexemes v hp _ _ _ _ _ _ (by decide) (by decide)) (exLexemes v hp _ _ _ _ _ _ (by decide) (by decide))
    (by simp [exItems, JoinableTok, needsSep, lexClass, startClass, SepFits])
    (by simp [exItems, JoinableTok, needsSep, lexClass, startClass, SepFits])
    ((isTrail_iff _).mpr (by decide)) .nil

/-- `<` directly before `<=` is fine (`needsSep` false), and is read as `<` leaving `<= b` -/
example : ReadsAs (N := N) CharClass.ascii (['<'] ++ (['<', '='] ++ [' ', 'b'])) .less (['<', '='] ++ [' ', 'b']) :=
  one_token CharClass.ascii_ok _ (.punct (by simp [punct]))
    (adjacent_noCont CharClass.ascii_ok _ (.punct (t := .lessEqual) (by simp [punct])) rfl)

/-- a comment directly after a number does not continue it -/
example (x : N) : NoCont CharClass.ascii (.literal (.num x)) ['1'] (['{', '}'] ++ ['.', '5']) :=
  sep_noCont CharClass.ascii_ok _ _ _ _ (sepB_sound (by decide)) (by simp) (by simp [SepFits, lexClass])

end example_layout

/-! ## 5. number literals -/

/-- A decimal number literal — digits, digits., .digits, digits.digits over ASCII digits — scans to the number
    `x` exactly when Rust's `str::parse::<f64>` (the `NumOps.parse` of the model, tied to the real parser by the
    `num` stream) yields `x`: the literal denotes what the parser says, i.e. the nearest double. -/
theorem scan_number {cc : CharClass} (hcc : cc.AsciiOk) {text : Str} (ht : DecimalText text) (x : N) :
    scan cc text = .ok [.literal (.num x)] ↔ NumOps.parse text = some x := by
  rw [scan_numShape hcc (decimal_numShape hcc ht)]
  cases NumOps.parse (N := N) text with
  | none => simp
  | some w => simp

/-- and if the parse fails (it cannot, for the real parser, on these four shapes) the result is `InvalidNumber` -/
theorem scan_number_invalid {cc : CharClass} (hcc : cc.AsciiOk) {text : Str} (hs : numShape cc text = true)
    (hp : NumOps.parse (N := N) text = none) : scan (N := N) cc text = .err .invalidNumber := by
  rw [scan_numShape hcc hs, hp]

example (x : N) : scan CharClass.ascii ['3', '0', '.'] = .ok [.literal (.num x)] ↔
    NumOps.parse ['3', '0', '.'] = some x :=
  scan_number CharClass.ascii_ok (.intDot (a := ['3', '0']) (by simp) (by decide)) x

example (x : N) : scan CharClass.ascii ['.', '4', '2'] = .ok [.literal (.num x)] ↔
    NumOps.parse ['.', '4', '2'] = some x :=
  scan_number CharClass.ascii_ok (.dotFrac (by simp) (by decide)) x

example (x : N) : scan CharClass.ascii ['2', '0', '.', '4'] = .ok [.literal (.num x)] ↔
    NumOps.parse ['2', '0', '.', '4'] = some x :=
  scan_number CharClass.ascii_ok (.intFrac (a := ['2', '0']) (b := ['4']) (by simp) (by simp) (by decide) (by decide)) x

end Slac.C02
