/-
  C16 (continued) — the string side of src/stdlib/time.rs: RFC 3339 / RFC 2822 parsing, the full strftime language.
  Model: SlacModel.TimeFmt (chrono 0.4.45 `format::strftime` + formatter), SlacModel.TimeParse (chrono's scanners, item
  parser, `Parsed` resolution, `parse_rfc3339`, `parse_rfc2822`), SlacModel.Time / SlacModel.TimeRfc (the builtins, for a
  process whose local time zone is UTC).  Tie: `call` stream of the correspondence harness on
  date_from_rfc3339, date_from_rfc2822, date_to_rfc3339, date_to_rfc2822, date_to_string, time_to_string,
  string_to_date, string_to_time, string_to_datetime (harness pools + generator with odd-but-valid syntax).

  R. Round trips.  For every date-time exact to the millisecond in years 0–9999 (`Rfc t`), parsing the RFC 3339
     text gives the date-time back; parsing the RFC 2822 text gives it back truncated to the whole second (RFC 2822
     has no fraction).  Stated on `DT` (no number hypothesis), and through numbers for `[LawfulTimeNum N]`
     (proved for `Float` in SlacProps.C16Float).
  T. Totality.  Every string builtin answers `some (value or error value)` for every argument list — there is no
     panic outcome in the model — except `string_to_date` / `string_to_datetime` on the one input class where
     chrono's `i32` arithmetic overflows (ISO year `i32::MIN`/`i32::MAX` through `%G`), which is characterised.
  S. Specifiers.  What each strftime specifier prints, as the decimal rendering of the component the builtins
     `year` … `millisecond`, `day_of_week` return.
-/
import SlacProps.C16
import SlacProofs.TimeRfcFmt
set_option autoImplicit false
set_option linter.unusedSimpArgs false
set_option linter.unusedVariables false
namespace Slac.C16
open Slac.Time Slac.TimeRfc Slac.Stdlib

/-! ## R. Round trips -/

/-- a date-time exact to the millisecond in years 0–9999: what RFC 3339 / RFC 2822 texts can denote -/
structure Rfc (t : DT) : Prop where
  ms : t.ms < 86400000
  y0 : 0 ≤ t.year
  y1 : t.year ≤ 9999

/-- such a date-time is in the range covered by the number theorems of C16 (|total milliseconds| ≤ 2^48) -/
theorem Rfc.enc {t : DT} (h : Rfc t) : t.Enc := by
  obtain ⟨hms, h0, h1⟩ := h
  have hv := civilFromDays_validMD t.days
  have hr := Time.days_roundtrip t.days
  have hb := days_bounds _ _ _ hv
  rw [hr] at hb
  have l := (days_year_mono 0 (civilFromDays t.days).1 h0).1
  have u := (days_year_mono (civilFromDays t.days).1 9999 h1).2
  have e1 : daysFromCivil 0 1 1 = -719528 := by decide
  have e2 : daysFromCivil 9999 12 31 = 2932896 := by decide
  refine ⟨hms, ?_, ?_⟩ <;> simp only [DT.totalMs, msPerDay] <;> omega

/-- the stamps of C16 (years 1–9999) are such date-times -/
theorem Rfc.of_stamp {y : Int} {m d h mi s ml : Nat} (st : Stamp y m d h mi s ml) : Rfc (stampDT y m d h mi s ml) := by
  obtain ⟨e1, _⟩ := stamp_components st
  have hms := (time_components h mi s ml st.hh st.hmi st.hs st.hml (daysFromCivil y m d)).2.2.2.2
  refine ⟨hms, ?_, ?_⟩
  · rw [e1]; have := st.y1; omega
  · rw [e1]; exact st.y2

section
variable {N : Type} [NumX N]

/-- `date_from_rfc3339 (to_rfc3339 t) = t`, no hypothesis about numbers: both sides are the same division
    `total_ms / 86400000` -/
theorem dateFromRfc3339_rfc3339 (t : DT) (h : Rfc t) :
    dateFromRfc3339 [(.str (rfc3339 t) : Value N)] = some (.ok (encode t)) := by
  have e : ((t.days * 86400 + ((t.ms / 1000 : Nat) : Int)) * 1000 + ((t.milli * 1000000 / 1000000 : Nat) : Int)) =
      t.days * 86400000 + (t.ms : Int) := by
    simp only [DT.milli]; omega
  simp only [dateFromRfc3339, rfc3339Utc_rfc3339 t h.ms h.y0 h.y1, Except.map, fixedToNaive, finish, NDT.millis,
    NDT.timestamp, e, encode, encodeMs, DT.totalMs, msPerDay]

/-- `date_from_rfc2822 (to_rfc2822 t)` is `t` truncated to the whole second: RFC 2822 texts carry no fraction, the
    millisecond of the second is lost -/
theorem dateFromRfc2822_rfc2822 (t : DT) (h : Rfc t) :
    dateFromRfc2822 [(.str (rfc2822 t) : Value N)] = some (.ok (encode ⟨t.days, t.ms / 1000 * 1000⟩)) := by
  have e : ((t.days * 86400 + ((t.ms / 1000 : Nat) : Int)) * 1000 + ((0 / 1000000 : Nat) : Int)) =
      t.days * 86400000 + ((t.ms / 1000 * 1000 : Nat) : Int) := by omega
  simp only [dateFromRfc2822, rfc2822Utc_rfc2822 t h.ms h.y0 h.y1, Except.map, fixedToNaive, finish, NDT.millis,
    NDT.timestamp, e, encode, encodeMs, DT.totalMs, msPerDay]

/-- … hence exactly `t` at whole seconds -/
theorem dateFromRfc2822_rfc2822_seconds (t : DT) (h : Rfc t) (hs : t.ms % 1000 = 0) :
    dateFromRfc2822 [(.str (rfc2822 t) : Value N)] = some (.ok (encode t)) := by
  rw [dateFromRfc2822_rfc2822 t h]
  have : t.ms / 1000 * 1000 = t.ms := by omega
  rw [this]

end

section
variable {N : Type} [NumX N] [LawfulTimeNum N]

/-- through numbers: `date_to_rfc3339` of the date-time number of `t` prints `rfc3339 t` -/
theorem dateToRfc3339_encode (t : DT) (h : t.Enc) :
    dateToRfc3339 [(encode t : Value N)] = .ok (.str (rfc3339 t)) := by
  simp only [dateToRfc3339, Time.decode_encode t h]

theorem dateToRfc2822_encode (t : DT) (h : t.Enc) (hy : 0 ≤ t.year ∧ t.year ≤ 9999) :
    dateToRfc2822 [(encode t : Value N)] = .ok (.str (rfc2822 t)) := by
  simp only [dateToRfc2822, Time.decode_encode t h, hy, and_self, if_true]

/-- ROUND TRIP, RFC 3339: for every date-time number `x = encode t` exact to the millisecond in years 0–9999,
    `date_from_rfc3339 (date_to_rfc3339 x) = x` -/
theorem rfc3339_roundtrip (t : DT) (h : Rfc t) (txt : Str)
    (hp : dateToRfc3339 [(encode t : Value N)] = .ok (.str txt)) :
    dateFromRfc3339 [(.str txt : Value N)] = some (.ok (encode t)) := by
  rw [dateToRfc3339_encode t h.enc] at hp
  cases hp
  exact dateFromRfc3339_rfc3339 t h

/-- ROUND TRIP, RFC 2822, at whole seconds: `date_from_rfc2822 (date_to_rfc2822 x) = x` -/
theorem rfc2822_roundtrip (t : DT) (h : Rfc t) (hs : t.ms % 1000 = 0) (txt : Str)
    (hp : dateToRfc2822 [(encode t : Value N)] = .ok (.str txt)) :
    dateFromRfc2822 [(.str txt : Value N)] = some (.ok (encode t)) := by
  rw [dateToRfc2822_encode t h.enc ⟨h.y0, h.y1⟩] at hp
  cases hp
  exact dateFromRfc2822_rfc2822_seconds t h hs

/-- … and in general the result is `x` with the millisecond of the second dropped (truncation, not rounding) -/
theorem rfc2822_roundtrip_truncates (t : DT) (h : Rfc t) (txt : Str)
    (hp : dateToRfc2822 [(encode t : Value N)] = .ok (.str txt)) :
    dateFromRfc2822 [(.str txt : Value N)] = some (.ok (encode ⟨t.days, t.ms / 1000 * 1000⟩)) := by
  rw [dateToRfc2822_encode t h.enc ⟨h.y0, h.y1⟩] at hp
  cases hp
  exact dateFromRfc2822_rfc2822 t h

/-- the same for the stamps of C16: a date of years 1–9999 with hour, minute, second, millisecond -/
theorem rfc3339_roundtrip_stamp {y : Int} {m d h mi s ml : Nat} (st : Stamp y m d h mi s ml) (txt : Str)
    (hp : dateToRfc3339 [(encode (stampDT y m d h mi s ml) : Value N)] = .ok (.str txt)) :
    dateFromRfc3339 [(.str txt : Value N)] = some (.ok (encode (stampDT y m d h mi s ml))) :=
  rfc3339_roundtrip _ (Rfc.of_stamp st) txt hp

theorem rfc2822_roundtrip_stamp {y : Int} {m d h mi s : Nat} (st : Stamp y m d h mi s 0) (txt : Str)
    (hp : dateToRfc2822 [(encode (stampDT y m d h mi s 0) : Value N)] = .ok (.str txt)) :
    dateFromRfc2822 [(.str txt : Value N)] = some (.ok (encode (stampDT y m d h mi s 0))) :=
  rfc2822_roundtrip _ (Rfc.of_stamp st) (by simp only [stampDT]; omega) txt hp

end

/-! ### non-vacuity -/

example : Rfc ⟨daysFromCivil 2024 2 29, 86399999⟩ := ⟨by decide, by decide, by decide⟩
example : Rfc ⟨daysFromCivil 0 1 1, 0⟩ := ⟨by decide, by decide, by decide⟩           -- year 0 is included
example : Rfc ⟨daysFromCivil 9999 12 31, 86399999⟩ := ⟨by decide, by decide, by decide⟩
example : rfc3339 ⟨daysFromCivil 2024 2 29, 86399999⟩ = "2024-02-29T23:59:59.999+00:00".toList := by decide +kernel
example : rfc2822 ⟨daysFromCivil 2024 2 29, 86399999⟩ = "Thu, 29 Feb 2024 23:59:59 +0000".toList := by decide +kernel
example : (rfc3339Utc "2024-02-29T23:59:59.999+00:00".toList).toOption =
    some ⟨daysFromCivil 2024 2 29, ⟨86399, 999000000⟩⟩ := by decide +kernel
/-- the leap-day instance of the round trip in the rational model of the number class -/
example : @dateFromRfc3339 ℚ Toy.numX [.str "2024-02-29T23:59:59.999+00:00".toList] =
    some (.ok (@encode ℚ Toy.numX ⟨daysFromCivil 2024 2 29, 86399999⟩)) :=
  @dateFromRfc3339_rfc3339 ℚ Toy.numX ⟨daysFromCivil 2024 2 29, 86399999⟩ ⟨by decide, by decide, by decide⟩

/-! ### R2. offsets and leap seconds in RFC 3339 -/
section
variable {N : Type} [NumX N]

/-- An RFC 3339 text `YYYY-MM-DDTHH:MM:SS±hh:mm` of an existing date of years 0–9999 with offset below 24 h denotes
    the local clock reading MINUS the offset (the UTC instant; with `TZ=UTC` that is also the local date-time the
    builtin returns).  A second of `60` (leap second) is accepted and counts as the following second. -/
theorem dateFromRfc3339_offset (y m d h mi s : Nat) (hy : y ≤ 9999) (hv : validDate y m d = true)
    (hh : h < 24) (hmi : mi < 60) (hs : s ≤ 60) (neg : Bool) (oh om : Nat) (hoh : oh < 24) (hom : om < 60) :
    dateFromRfc3339 [(.str (rfc3339Head y m d h mi s (offsetText neg oh om)) : Value N)] =
      some (.ok (encodeMs ((daysFromCivil y m d * 86400 + ((h * 3600 + mi * 60 + s : Nat) : Int)) * 1000 -
        (if neg then -1 else 1) * ((oh * 3600 + om * 60 : Nat) : Int) * 1000))) := by
  obtain ⟨_, hmd⟩ := (validDate_iff y m d).1 hv
  have hb := validDate_bounds hv
  obtain ⟨hd1, hd2⟩ := days_range0 y m d hmd (by omega) (by omega)
  rw [dateFromRfc3339, rfc3339Utc_head y m d h mi s (by omega) (by omega) (by omega) (by omega) (by omega) (by omega),
    if_pos hv, rfc3339Tail_offset _ h mi s hd1 hd2 hh hmi hs neg oh om hoh hom]
  simp only [Except.map, fixedToNaive, finish]
  rw [shiftNDT_millis]
  simp only [NDT.millis, NDT.timestamp]
  congr 3
  by_cases h60 : s = 60
  · subst h60; cases neg <;> simp <;> omega
  · have : min s 59 = s := by omega
    cases neg <;> simp [h60, this]

end

/-- 1996-12-19T16:39:57-08:00 (the example of RFC 3339) is 1996-12-20T00:39:57Z -/
example : rfc3339Head 1996 12 19 16 39 57 (offsetText true 8 0) = "1996-12-19T16:39:57-08:00".toList := by decide +kernel
example : ((daysFromCivil 1996 12 19 * 86400 + ((16 * 3600 + 39 * 60 + 57 : Nat) : Int)) * 1000 - (-1) * ((8 * 3600 + 0 * 60 : Nat) : Int) * 1000) =
    (daysFromCivil 1996 12 20 * 86400 + 39 * 60 + 57) * 1000 := by decide
/-- the leap second 2016-12-31T23:59:60Z is the instant 2017-01-01T00:00:00Z -/
example : (rfc3339Utc "2016-12-31T23:59:60Z".toList).toOption.map NDT.millis = some (daysFromCivil 2017 1 1 * 86400000) := by
  decide +kernel
/-- fractions of any length are truncated (not rounded) to the millisecond by `Value::from` -/
example : (rfc3339Utc "2024-02-29T00:00:00.9999999999999Z".toList).toOption.map NDT.millis =
    some (daysFromCivil 2024 2 29 * 86400000 + 999) := by decide +kernel
/-- rejected: no offset, month 13, 30 February, offset 24:00, hour 24, trailing text, lower-case separator is fine -/
example : (rfc3339Utc "2024-02-29T00:00:00".toList) = .error .tooShort := by decide +kernel
example : (rfc3339Utc "2024-13-01T00:00:00Z".toList) = .error .outOfRange := by decide +kernel
example : (rfc3339Utc "2024-02-30T00:00:00Z".toList) = .error .outOfRange := by decide +kernel
example : (rfc3339Utc "2024-02-29T00:00:00+24:00".toList) = .error .outOfRange := by decide +kernel
example : (rfc3339Utc "2024-02-29T24:00:00Z".toList) = .error .outOfRange := by decide +kernel
example : (rfc3339Utc "2024-02-29T00:00:00Z ".toList) = .error .tooLong := by decide +kernel
example : (rfc3339Utc "2024-02-29t00:00:00z".toList).toOption.map NDT.millis = some (daysFromCivil 2024 2 29 * 86400000) := by
  decide +kernel
/-- RFC 2822: obsolete zone names, two-digit years, comments, optional and checked day-of-week -/
example : (rfc2822Utc "Wed, 18 Feb 2015 23:16:09 GMT".toList).toOption.map NDT.millis =
    some ((daysFromCivil 2015 2 18 * 86400 + 23 * 3600 + 16 * 60 + 9) * 1000) := by decide +kernel
example : (rfc2822Utc "18 Feb 15 23:16 EST (a (nested) comment)".toList).toOption.map NDT.millis =
    some ((daysFromCivil 2015 2 19 * 86400 + 4 * 3600 + 16 * 60) * 1000) := by decide +kernel
example : (rfc2822Utc "Thu, 18 Feb 2015 23:16:09 GMT".toList) = .error .impossible := by decide +kernel   -- it was a Wednesday
example : (rfc2822Utc "18 Feb 2015 23:16:09".toList) = .error .tooShort := by decide +kernel              -- zone is mandatory

/-! ### R3. fractional seconds of any length -/

/-- `.d₁…dₖ` with 1 ≤ k ≤ 9 digits denotes `d₁…dₖ · 10^(9−k)` nanoseconds (`digitsVal`: the decimal value) -/
theorem fraction_up_to_nine_digits (ds : List Nat) (hds : ∀ d ∈ ds, d < 10) (h1 : 1 ≤ ds.length) (h9 : ds.length ≤ 9)
    (rest : Str) (hrest : NoDigitHead rest) :
    nanosecond (digitsText ds ++ rest) = .ok (rest, digitsVal ds 0 * 10 ^ (9 - ds.length)) :=
  nanosecond_short ds hds h1 h9 rest hrest

/-- with more than nine digits the tenth and later ones are skipped: the value is TRUNCATED to the nanosecond; the
    builtin then truncates to the millisecond (`NDT.millis`: `nano / 1000000`).  Nothing is ever rounded. -/
theorem fraction_beyond_nine_digits (ds more : List Nat) (hds : ∀ d ∈ ds, d < 10) (hm : ∀ d ∈ more, d < 10)
    (h9 : ds.length = 9) (rest : Str) (hrest : NoDigitHead rest) :
    nanosecond (digitsText (ds ++ more) ++ rest) = .ok (rest, digitsVal ds 0) :=
  nanosecond_long ds more hds hm h9 rest hrest

example : NoDigitHead ['Z'] := by intro c r h; cases h; decide
example : digitsText [9, 9, 9, 9] = ['9', '9', '9', '9'] ∧ digitsVal [9, 9, 9, 9] 0 * 10 ^ (9 - 4) = 999900000 := by decide

/-! ## T. Totality: no panic outcome, and exactly where the model is silent -/

section
variable {N : Type} [NumX N]

/-- `date_from_rfc3339` answers a value or an error value for EVERY argument list (any count, any kinds, any string) -/
theorem dateFromRfc3339_total (ps : List (Value N)) : ∃ r : Res N, dateFromRfc3339 ps = some r := by
  unfold dateFromRfc3339; split <;> exact ⟨_, rfl⟩
theorem dateFromRfc2822_total (ps : List (Value N)) : ∃ r : Res N, dateFromRfc2822 ps = some r := by
  unfold dateFromRfc2822; split <;> exact ⟨_, rfl⟩
/-- `date_to_string` / `time_to_string`: every format string, valid or not -/
theorem dateToString_total (ps : List (Value N)) : ∃ r : Res N, dateToString ps = some r := by
  unfold dateToString; split
  · split <;> exact ⟨_, rfl⟩
  · exact ⟨_, rfl⟩
  · exact ⟨_, rfl⟩
theorem stringToTime_total (ps : List (Value N)) : ∃ r : Res N, stringToTime ps = some r := by
  unfold stringToTime; split
  · exact ⟨_, rfl⟩
  · split <;> exact ⟨_, rfl⟩

/-- `string_to_date` is silent exactly when the parsed fields send `to_naive_date` into the overflowing branch of
    `NaiveDate::from_isoywd_opt` -/
theorem stringToDate_none_iff (ps : List (Value N)) :
    stringToDate ps = none ↔
      ∃ s rest fmt p, ps = .str s :: rest ∧ defaultString ps 1 fmtDate = .ok fmt ∧
        parseAll (items fmt) s = .ok p ∧ p.dateOverflow = true := by
  unfold stringToDate
  constructor
  · intro h
    split at h
    · cases h
    · rename_i fmt hfmt
      split at h
      · rename_i s rest
        split at h
        · cases h
        · rename_i p hp
          split at h
          · rename_i hov
            exact ⟨s, rest, fmt, p, rfl, hfmt, hp, hov⟩
          · cases h
      · cases h
      · cases h
  · rintro ⟨s, rest, fmt, p, rfl, hfmt, hp, hov⟩
    simp [hfmt, hp, hov]

theorem stringToDatetime_none_iff (ps : List (Value N)) :
    stringToDatetime ps = none ↔
      ∃ s rest fmt p, ps = .str s :: rest ∧ defaultString ps 1 fmtDatetime = .ok fmt ∧
        parseAll (items fmt) s = .ok p ∧ p.datetimeOverflow 0 = true := by
  unfold stringToDatetime
  constructor
  · intro h
    split at h
    · cases h
    · rename_i fmt hfmt
      split at h
      · rename_i s rest
        split at h
        · cases h
        · rename_i p hp
          split at h
          · rename_i hov
            exact ⟨s, rest, fmt, p, rfl, hfmt, hp, hov⟩
          · cases h
      · cases h
      · cases h
  · rintro ⟨s, rest, fmt, p, rfl, hfmt, hp, hov⟩
    simp [hfmt, hp, hov]

end

theorem route_iso {p : Parsed} {gy giy : Option Int} {iy : Int} {iw wd : Nat} (h : p.route gy giy = .iso iy iw wd) :
    giy = some iy ∧ p.isoWeek = some iw ∧ p.weekday = some wd := by
  unfold Parsed.route at h
  split at h <;> simp_all

/-- the silent class: the resolved ISO year (from `%G`, or `%g` which cannot reach these values) is `i32::MIN` or
    `i32::MAX`, an ISO week and a weekday are given, and no other way to the date (year with month and day, ordinal,
    `%U`/`%W` week) applies -/
theorem dateOverflow_class (p : Parsed) (h : p.dateOverflow = true) :
    ∃ iy iw wd, resolveYear p.isoYear none p.isoYearMod100 = .ok (some iy) ∧ (iy = i32Min ∨ iy = i32Max) ∧
      p.isoWeek = some iw ∧ p.weekday = some wd := by
  unfold Parsed.dateOverflow at h
  split at h
  · rename_i gy giy hgy hgiy
    split at h
    · rename_i iy iw wd hr
      obtain ⟨e1, e2, e3⟩ := route_iso hr
      refine ⟨iy, iw, wd, by rw [hgiy, e1], ?_, e2, e3⟩
      unfold isoOverflow at h
      split at h
      · cases h
      · simp only [decide_eq_true_eq] at h
        rcases h with ⟨h1, _⟩ | ⟨h1, _⟩
        · exact Or.inl h1
        · exact Or.inr h1
    · cases h
  · cases h

/-- without an ISO week number (no `%V`) nothing overflows -/
theorem dateOverflow_needs_isoWeek (p : Parsed) (h : p.isoWeek = none) : p.dateOverflow = false :=
  dateOverflow_isoWeek_none p h

/-! ### non-vacuity: one input of the silent class, and its neighbours, which are answered -/
section
def sOf (s : String) : Value Float := .str s.toList
example : (stringToDate [sOf "-2147483648-W01-1", sOf "%G-W%V-%u"]).isNone = true := by decide +kernel
example : (stringToDate [sOf "-2147483648-W01-2", sOf "%G-W%V-%u"]).isSome = true := by decide +kernel
example : (stringToDate [sOf "-2147483647-W01-1", sOf "%G-W%V-%u"]).isSome = true := by decide +kernel
example : (stringToDate [sOf "2024-W09-4", sOf "%G-W%V-%u"]).isSome = true := by decide +kernel
example : (stringToDatetime [sOf "-2147483648-W01-1", sOf "%G-W%V-%u"]).isNone = true := by decide +kernel
end

/-! ## S. Specifiers -/

/-- the outcome of formatting depends on the value only through the text: whether it FAILS is a property of the
    format string alone — an unknown specifier, a dangling `%`, a padding modifier on a non-numeric specifier, or one
    of `%z %:z %::z %:::z %#z %Z %+` (a naive date-time has no offset) -/
theorem strftime_fails_iff (t : DT) (fmt : Str) :
    strftime t fmt = none ↔ (items fmt).any Item.failsNaive = true :=
  formatItems_none_iff t (items fmt)

theorem strftime_failure_independent_of_value (t1 t2 : DT) (fmt : Str) :
    strftime t1 fmt = none ↔ strftime t2 fmt = none := by
  rw [strftime_fails_iff, strftime_fails_iff]

/-- the timezone specifiers and some invalid ones -/
theorem strftime_tz_fails (t : DT) :
    strftime t ['%', 'z'] = none ∧ strftime t ['%', ':', 'z'] = none ∧ strftime t ['%', ':', ':', 'z'] = none ∧
    strftime t ['%', ':', ':', ':', 'z'] = none ∧ strftime t ['%', '#', 'z'] = none ∧ strftime t ['%', 'Z'] = none ∧
    strftime t ['%', '+'] = none ∧ strftime t ['%', 'Q'] = none ∧ strftime t ['%'] = none ∧
    strftime t ['%', '-', 'F'] = none ∧ strftime t ['%', '.', '4', 'f'] = none := by
  refine ⟨?_, ?_, ?_, ?_, ?_, ?_, ?_, ?_, ?_, ?_, ?_⟩ <;> rw [strftime_fails_iff] <;> decide

section
variable (t : DT)

/-! single specifiers: the printed text in terms of the components -/
theorem spec_Y : strftime t ['%', 'Y'] = some (fmtYear t.year) := by
  rw [strftime_one t _ (num0 .year) (by decide)]; simp [fmtItem, num0, fmtNumeric, writeYear_zero]
theorem spec_m : strftime t ['%', 'm'] = some (pad 2 t.month) := by
  rw [strftime_one t _ (num0 .month) (by decide)]; simp [fmtItem, num0, fmtNumeric, writeTwo_zero]
theorem spec_d : strftime t ['%', 'd'] = some (pad 2 t.day) := by
  rw [strftime_one t _ (num0 .day) (by decide)]; simp [fmtItem, num0, fmtNumeric, writeTwo_zero]
theorem spec_H : strftime t ['%', 'H'] = some (pad 2 t.hour) := by
  rw [strftime_one t _ (num0 .hour) (by decide)]; simp [fmtItem, num0, fmtNumeric, writeTwo_zero]
theorem spec_M : strftime t ['%', 'M'] = some (pad 2 t.minute) := by
  rw [strftime_one t _ (num0 .minute) (by decide)]; simp [fmtItem, num0, fmtNumeric, writeTwo_zero]
theorem spec_S : strftime t ['%', 'S'] = some (pad 2 t.second) := by
  rw [strftime_one t _ (num0 .second) (by decide)]; simp [fmtItem, num0, fmtNumeric, writeTwo_zero]
/-- `%3f`: the millisecond, three digits; `%.3f` the same after a dot; `%.f` nothing at a whole second -/
theorem spec_3f : strftime t ['%', '3', 'f'] = some (pad 3 t.milli) := by
  rw [strftime_one t _ (.fixed .nano3NoDot) (by decide)]; simp [fmtItem, fmtFixed]
theorem spec_dot3f : strftime t ['%', '.', '3', 'f'] = some ('.' :: pad 3 t.milli) := by
  rw [strftime_one t _ (.fixed .nanosecond3) (by decide)]; simp [fmtItem, fmtFixed]
theorem spec_dotf : strftime t ['%', '.', 'f'] = some (if t.milli = 0 then [] else '.' :: pad 3 t.milli) := by
  rw [strftime_one t _ (.fixed .nanosecond) (by decide)]; simp [fmtItem, fmtFixed]
/-- `%f`: nanoseconds, nine digits: the millisecond followed by six zeros' worth -/
theorem spec_f : strftime t ['%', 'f'] = some (pad 9 (t.milli * 1000000)) := by
  rw [strftime_one t _ (num0 .nanosecond) (by decide)]
  simp only [fmtItem, num0, fmtNumeric, DT.nano, fmtInt_zero_nat]
/-- unpadded and space-padded day, hour -/
theorem spec_minus_d : strftime t ['%', '-', 'd'] = some (Nat.toDigits 10 t.day) := by
  rw [strftime_one t _ (.numeric .day .none) (by decide)]; simp [fmtItem, fmtNumeric, writeTwo_none]
theorem spec_e : strftime t ['%', 'e'] =
    some (if t.day < 10 then ' ' :: Nat.toDigits 10 t.day else Nat.toDigits 10 t.day) := by
  rw [strftime_one t _ (nums .day) (by decide)]; simp [fmtItem, nums, fmtNumeric, writeTwo_space]
theorem spec_k : strftime t ['%', 'k'] =
    some (if t.hour < 10 then ' ' :: Nat.toDigits 10 t.hour else Nat.toDigits 10 t.hour) := by
  rw [strftime_one t _ (nums .hour) (by decide)]; simp [fmtItem, nums, fmtNumeric, writeTwo_space]
/-- two-digit year and century (years 0–9999) -/
theorem spec_y : strftime t ['%', 'y'] = some (pad 2 (t.year % 100).toNat) := by
  rw [strftime_one t _ (num0 .yearMod100) (by decide)]; simp [fmtItem, num0, fmtNumeric, writeTwo_zero]
theorem spec_C (h0 : 0 ≤ t.year) (h1 : t.year ≤ 9999) : strftime t ['%', 'C'] = some (pad 2 (t.year / 100).toNat) := by
  rw [strftime_one t _ (num0 .yearDiv100) (by decide)]
  have e : (t.year / 100 % 256).toNat = (t.year / 100).toNat := by omega
  simp only [fmtItem, num0, fmtNumeric, e, writeTwoU8_zero _ (by omega : (t.year / 100).toNat < 100)]
/-- day of the year, three digits -/
theorem spec_j : strftime t ['%', 'j'] = some (pad 3 t.ordinal) := by
  rw [strftime_one t _ (num0 .ordinal) (by decide)]
  simp only [fmtItem, num0, fmtNumeric, fmtInt_zero_nat]
/-- weekday numbers: `%u` Monday = 1 … Sunday = 7, `%w` Sunday = 0 … Saturday = 6 (`day_of_week` is Monday = 0) -/
theorem spec_u : strftime t ['%', 'u'] = some (Nat.toDigits 10 (weekday t.days + 1)) := by
  rw [strftime_one t _ (numN .weekdayFromMon) (by decide)]
  have := weekday_lt t.days
  simp [fmtItem, numN, fmtNumeric, DT.weekday, ofNat48_dc _ (by omega : weekday t.days + 1 < 10),
    Nat.toDigits_of_lt_base (by omega : weekday t.days + 1 < 10)]
theorem spec_w : strftime t ['%', 'w'] = some (Nat.toDigits 10 ((weekday t.days + 1) % 7)) := by
  rw [strftime_one t _ (numN .numDaysFromSun) (by decide)]
  simp [fmtItem, numN, fmtNumeric, DT.weekday, ofNat48_dc _ (by omega : (weekday t.days + 1) % 7 < 10),
    Nat.toDigits_of_lt_base (by omega : (weekday t.days + 1) % 7 < 10)]
/-- names -/
theorem spec_a : strftime t ['%', 'a'] = some (shortWeekdayName (weekday t.days)) := by
  rw [strftime_one t _ (.fixed .shortWeekdayName) (by decide)]; rfl
theorem spec_A : strftime t ['%', 'A'] = some (longWeekdayName (weekday t.days)) := by
  rw [strftime_one t _ (.fixed .longWeekdayName) (by decide)]; rfl
theorem spec_b : strftime t ['%', 'b'] = some (shortMonthName t.month) := by
  rw [strftime_one t _ (.fixed .shortMonthName) (by decide)]; rfl
theorem spec_B : strftime t ['%', 'B'] = some (longMonthName t.month) := by
  rw [strftime_one t _ (.fixed .longMonthName) (by decide)]; rfl
/-- 12-hour clock -/
theorem spec_I : strftime t ['%', 'I'] = some (pad 2 (if t.hour % 12 = 0 then 12 else t.hour % 12)) := by
  rw [strftime_one t _ (num0 .hour12) (by decide)]; simp [fmtItem, num0, fmtNumeric, writeTwo_zero, DT.hour12]
theorem spec_p : strftime t ['%', 'p'] = some (if 12 ≤ t.hour then ['P', 'M'] else ['A', 'M']) := by
  rw [strftime_one t _ (.fixed .upperAmPm) (by decide)]; simp [fmtItem, fmtFixed, DT.isPm]
/-- seconds since 1970-01-01T00:00:00 (the value is taken as UTC) -/
theorem spec_s : strftime t ['%', 's'] =
    some ((if t.timestamp < 0 then ['-'] else []) ++ Nat.toDigits 10 t.timestamp.natAbs) := by
  rw [strftime_one t _ (numN .timestamp) (by decide)]; simp [fmtItem, numN, fmtNumeric, fmtInt]
/-- ISO 8601 week date and the week-of-year numbers -/
theorem spec_G : strftime t ['%', 'G'] = some (fmtYear (isoWeekOf t.days).1) := by
  rw [strftime_one t _ (num0 .isoYear) (by decide)]; simp [fmtItem, num0, fmtNumeric, writeYear_zero]
theorem spec_V : strftime t ['%', 'V'] = some (pad 2 (isoWeekOf t.days).2) := by
  rw [strftime_one t _ (num0 .isoWeek) (by decide)]; simp [fmtItem, num0, fmtNumeric, writeTwo_zero]
theorem spec_U : strftime t ['%', 'U'] = some (pad 2 (weeksFrom t.days 6)) := by
  rw [strftime_one t _ (num0 .weekFromSun) (by decide)]; simp [fmtItem, num0, fmtNumeric, writeTwo_zero]
theorem spec_W : strftime t ['%', 'W'] = some (pad 2 (weeksFrom t.days 0)) := by
  rw [strftime_one t _ (num0 .weekFromMon) (by decide)]; simp [fmtItem, num0, fmtNumeric, writeTwo_zero]
/-- composite specifiers -/
theorem spec_F : strftime t ['%', 'F'] = some (dateText t.year t.month t.day) := by
  simp [strftime, (by decide : items ['%', 'F'] = [num0 .year, .literal ['-'], num0 .month, .literal ['-'], num0 .day]),
    formatItems, fmtItem, fmtNumeric, num0, writeTwo_zero, writeYear_zero, dateText]
theorem spec_T : strftime t ['%', 'T'] = some (timeText t.hour t.minute t.second) := by
  simp [strftime, (by decide : items ['%', 'T'] = [num0 .hour, .literal [':'], num0 .minute, .literal [':'], num0 .second]),
    formatItems, fmtItem, fmtNumeric, num0, writeTwo_zero, timeText]
theorem spec_R : strftime t ['%', 'R'] = some (pad 2 t.hour ++ ':' :: pad 2 t.minute) := by
  simp [strftime, (by decide : items ['%', 'R'] = [num0 .hour, .literal [':'], num0 .minute]),
    formatItems, fmtItem, fmtNumeric, num0, writeTwo_zero]
theorem spec_D : strftime t ['%', 'D'] =
    some (pad 2 t.month ++ '/' :: (pad 2 t.day ++ '/' :: pad 2 (t.year % 100).toNat)) := by
  simp [strftime, (by decide : items ['%', 'D'] = [num0 .month, .literal ['/'], num0 .day, .literal ['/'], num0 .yearMod100]),
    formatItems, fmtItem, fmtNumeric, num0, writeTwo_zero]
theorem spec_percent : strftime t ['%', '%'] = some ['%'] := by
  rw [strftime_one t _ (.literal ['%']) (by decide)]; rfl
/-- text outside specifiers is copied -/
theorem spec_literal : strftime t ['a', 't', ' ', '%', 'H', 'h'] = some ('a' :: 't' :: ' ' :: (pad 2 t.hour ++ ['h'])) := by
  simp [strftime, (by decide : items ['a', 't', ' ', '%', 'H', 'h'] = [.literal ['a', 't'], .space [' '], num0 .hour, .literal ['h']]),
    formatItems, fmtItem, fmtNumeric, num0, writeTwo_zero]
end

/-! through numbers: the text of a specifier is the rendering of what the component builtin returns -/
section
variable {N : Type} [NumX N] [LawfulTimeNum N]
variable {y : Int} {m d h mi s ml : Nat}

theorem dateToString_stamp (st : Stamp y m d h mi s ml) (fmt : Str) :
    dateToString [.str fmt, (encode (stampDT y m d h mi s ml) : Value N)] =
      some (fmtResult (strftime (stampDT y m d h mi s ml) fmt)) :=
  dateToString_encode fmt _ (stamp_enc st)

/-- `%Y %m %d %H %M %S %3f` print the zero-padded decimal renderings of the numbers that `year`, `month`, `day`,
    `hour`, `minute`, `second`, `millisecond` return for the same date-time number -/
theorem spec_components (st : Stamp y m d h mi s ml) :
    let x : Value N := encode (stampDT y m d h mi s ml)
    (dateToString [.str ['%', 'Y'], x] = some (.ok (.str (pad 4 y.toNat))) ∧ year [x] = .ok (.num (NumX.ofInt y))) ∧
    (dateToString [.str ['%', 'm'], x] = some (.ok (.str (pad 2 m))) ∧ month [x] = .ok (.num (NumX.ofNat m))) ∧
    (dateToString [.str ['%', 'd'], x] = some (.ok (.str (pad 2 d))) ∧ day [x] = .ok (.num (NumX.ofNat d))) ∧
    (dateToString [.str ['%', 'H'], x] = some (.ok (.str (pad 2 h))) ∧ hour [x] = .ok (.num (NumX.ofNat h))) ∧
    (dateToString [.str ['%', 'M'], x] = some (.ok (.str (pad 2 mi))) ∧ minute [x] = .ok (.num (NumX.ofNat mi))) ∧
    (dateToString [.str ['%', 'S'], x] = some (.ok (.str (pad 2 s))) ∧ second [x] = .ok (.num (NumX.ofNat s))) ∧
    (dateToString [.str ['%', '3', 'f'], x] = some (.ok (.str (pad 3 ml))) ∧
      millisecond [x] = .ok (.num (NumX.ofNat ml))) := by
  obtain ⟨e1, e2, e3, e4, e5, e6, e7⟩ := stamp_components st
  have hy : fmtYear y = pad 4 y.toNat := fmtYear_small y (by have := st.y1; omega) st.y2
  intro x
  refine ⟨⟨?_, year_spec st⟩, ⟨?_, month_spec st⟩, ⟨?_, day_spec st⟩, ⟨?_, hour_spec st⟩, ⟨?_, minute_spec st⟩,
    ⟨?_, second_spec st⟩, ⟨?_, millisecond_spec st⟩⟩
  · show dateToString [.str ['%', 'Y'], encode _] = _
    rw [dateToString_stamp st, spec_Y, e1, hy]; rfl
  · show dateToString [.str ['%', 'm'], encode _] = _
    rw [dateToString_stamp st, spec_m, e2]; rfl
  · show dateToString [.str ['%', 'd'], encode _] = _
    rw [dateToString_stamp st, spec_d, e3]; rfl
  · show dateToString [.str ['%', 'H'], encode _] = _
    rw [dateToString_stamp st, spec_H, e4]; rfl
  · show dateToString [.str ['%', 'M'], encode _] = _
    rw [dateToString_stamp st, spec_M, e5]; rfl
  · show dateToString [.str ['%', 'S'], encode _] = _
    rw [dateToString_stamp st, spec_S, e6]; rfl
  · show dateToString [.str ['%', '3', 'f'], encode _] = _
    rw [dateToString_stamp st, spec_3f, e7]; rfl

/-- `%u` is `day_of_week + 1` -/
theorem spec_weekday (st : Stamp y m d h mi s ml) :
    dateToString [.str ['%', 'u'], (encode (stampDT y m d h mi s ml) : Value N)] =
      some (.ok (.str (Nat.toDigits 10 (weekday (daysFromCivil y m d) + 1)))) ∧
    dayOfWeek [(encode (stampDT y m d h mi s ml) : Value N)] = .ok (.num (NumX.ofNat (weekday (daysFromCivil y m d)))) := by
  refine ⟨?_, dayOfWeek_spec st⟩
  rw [dateToString_stamp st, spec_u]; rfl

/-- a failing format is an error value `CustomError("invalid format string")`, never a panic (time.rs after the fix
    776c6ff) -/
theorem dateToString_invalid_format (st : Stamp y m d h mi s ml) (fmt : Str)
    (hf : (items fmt).any Item.failsNaive = true) :
    dateToString [.str fmt, (encode (stampDT y m d h mi s ml) : Value N)] =
      some (.error (custom "invalid format string")) := by
  rw [dateToString_stamp st, (strftime_fails_iff _ fmt).2 hf]; rfl

end

/-! ### S2. the parsing direction with a custom format -/
section
variable {N : Type} [NumX N] [LawfulTimeNum N]
variable {y : Int} {m d h mi s ml : Nat}

/-- `string_to_datetime(date_to_string(f, x), f) = x` for `f = "%Y-%m-%d %H:%M:%S%.3f"`, milliseconds included -/
theorem string_roundtrip_ms (st : Stamp y m d h mi s ml) (txt : Str)
    (hp : dateToString [.str fmtMs, (encode (stampDT y m d h mi s ml) : Value N)] = some (.ok (.str txt))) :
    stringToDatetime [(.str txt : Value N), .str fmtMs] = some (.ok (encode (stampDT y m d h mi s ml))) := by
  obtain ⟨e1, e2, e3, e4, e5, e6, e7⟩ := stamp_components st
  rw [dateToString_stamp st, strftime_ms, e1, e2, e3, e4, e5, e6, e7] at hp
  have : txt = datetimeText y m d h mi s ++ '.' :: pad 3 ml := by
    simp only [fmtResult, Option.some.injEq, Except.ok.injEq, Value.str.injEq] at hp; exact hp.symm
  subst this
  rw [stringToDatetime_ms y m d h mi s ml (by have := st.y1; omega) st.y2 st.valid st.hh st.hmi st.hs st.hml]
  have : (h * 3600 + mi * 60 + s) * 1000 + ml = ((h * 60 + mi) * 60 + s) * 1000 + ml := by omega
  simp only [stampDT, this]

end

example : fmtMs = "%Y-%m-%d %H:%M:%S%.3f".toList := by decide
example : okStr? ((dateToString [.str fmtMs, .num 13734.424444594908]).getD (.error .indexNegative)) =
    some "2007-08-09 10:11:12.013".toList := by decide +kernel

/-! ### non-vacuity of part S on the driver's doubles -/
example : okStr? ((dateToString [sOf "%Y-%m-%dT%H:%M:%S%.3f", .num 13734.424444594908]).getD (.error .indexNegative)) =
    some "2007-08-09T10:11:12.013".toList := by decide +kernel
example : okStr? ((dateToString [sOf "%a %A %b %B %e %j %U %W %G-W%V-%u %I%p %s", .num 13734.424444594908]).getD (.error .indexNegative)) =
    some "Thu Thursday Aug August  9 221 31 32 2007-W32-4 10AM 1186654272".toList := by decide +kernel
example : err? ((dateToString [sOf "%Y %z", .num 0]).getD (.error .indexNegative)) =
    some (custom "invalid format string") := by decide +kernel
example : (items "%Y %z".toList).any Item.failsNaive = true := by decide

end Slac.C16
