/-
  C12 — JSON serialization round-trips every expression tree exactly.
  Model: SlacModel.Json (`ofExpr` = Serialize, `toExpr` = Deserialize on serde_json's data model).
  Tie: `json` stream (canonical JSON value compared; value- and text-route round trips on the real crate).
  `=` on trees is structural, numbers by identity of the number value (bit pattern for the Float instance).
-/
import SlacModel.Json
set_option autoImplicit false
set_option linter.unusedSimpArgs false
namespace Slac.C12
open Slac.Json
variable {N : Type}

mutual
/-- every number inside the value is finite -/
def FinV (jn : JsonNum N) : Value N → Prop
  | .num x => jn.isFinite x = true
  | .arr vs => FinVs jn vs
  | _ => True
def FinVs (jn : JsonNum N) : List (Value N) → Prop
  | [] => True
  | v :: vs => FinV jn v ∧ FinVs jn vs
end

mutual
/-- every number literal of the tree (at any depth, inside array literals too) is finite -/
def FiniteLits (jn : JsonNum N) : Expr N → Prop
  | .unary r _ => FiniteLits jn r
  | .binary l r _ => FiniteLits jn l ∧ FiniteLits jn r
  | .ternary l m r _ => FiniteLits jn l ∧ FiniteLits jn m ∧ FiniteLits jn r
  | .array es => FiniteLitsL jn es
  | .lit v => FinV jn v
  | .var _ => True
  | .call _ ps => FiniteLitsL jn ps
def FiniteLitsL (jn : JsonNum N) : List (Expr N) → Prop
  | [] => True
  | e :: es => FiniteLits jn e ∧ FiniteLitsL jn es
end

theorem op_roundtrip (op : Op) : opOfName (opName op) = some op := by
  cases op <;> decide

theorem value_roundtrip (jn : JsonNum N) (v : Value N) : FinV jn v → toValue jn (ofValue jn v) = some v := by
  refine Value.rec (motive_1 := fun v => FinV jn v → toValue jn (ofValue jn v) = some v)
    (motive_2 := fun vs => FinVs jn vs → toValues jn (ofValues jn vs) = some vs) ?_ ?_ ?_ ?_ ?_ ?_ v
  · intro b _; simp [ofValue, toValue]
  · intro s _; simp [ofValue, toValue]
  · intro x h; simp only [FinV] at h; simp [ofValue, toValue, h]
  · intro vs ih h; simp only [FinV] at h; simp [ofValue, toValue, ih h]
  · intro _; simp [ofValues, toValues]
  · intro v vs ih1 ih2 h
    simp only [FinVs] at h
    simp [ofValues, toValues, ih1 h.1, ih2 h.2]

/-- the reading of a serialised tree is the tree -/
theorem read_ofExpr (jn : JsonNum N) (e : Expr N) : FiniteLits jn e → (read jn (ofExpr jn e)).expr = some e := by
  refine Expr.rec (motive_1 := fun e => FiniteLits jn e → (read jn (ofExpr jn e)).expr = some e)
    (motive_2 := fun es => FiniteLitsL jn es → readList jn (ofExprs jn es) = some es) ?_ ?_ ?_ ?_ ?_ ?_ ?_ ?_ ?_ e
  · intro r op ih h
    simp only [FiniteLits] at h
    simp [ofExpr, Json.read, readFields, decodeObj, field, fieldRd, subExpr, opField, asStr, ih h, op_roundtrip]
  · intro l r op ihl ihr h
    simp only [FiniteLits] at h
    simp [ofExpr, Json.read, readFields, decodeObj, field, fieldRd, subExpr, opField, asStr, ihl h.1, ihr h.2, op_roundtrip]
  · intro l m r op ihl ihm ihr h
    simp only [FiniteLits] at h
    simp [ofExpr, Json.read, readFields, decodeObj, field, fieldRd, subExpr, opField, asStr, ihl h.1, ihm h.2.1, ihr h.2.2, op_roundtrip]
  · intro es ih h
    simp only [FiniteLits] at h
    simp [ofExpr, Json.read, readFields, decodeObj, field, fieldRd, subExprs, asStr, ih h]
  · intro v h
    simp only [FiniteLits] at h
    simp [ofExpr, Json.read, readFields, decodeObj, field, asStr, value_roundtrip jn v h]
  · intro n _
    simp [ofExpr, Json.read, readFields, decodeObj, field, asStr]
  · intro n ps ih h
    simp only [FiniteLits] at h
    simp [ofExpr, Json.read, readFields, decodeObj, field, fieldRd, subExprs, asStr, ih h]
  · intro _; simp [ofExprs, readList]
  · intro e es ih1 ih2 h
    simp only [FiniteLitsL] at h
    simp [ofExprs, readList, ih1 h.1, ih2 h.2]

/-- Main theorem: deserialising the serialisation of a tree yields the identical tree — same shape, operators,
    names and literal values — for every tree whose number literals are finite. -/
theorem json_roundtrip (jn : JsonNum N) (e : Expr N) (h : FiniteLits jn e) : toExpr jn (ofExpr jn e) = some e :=
  read_ofExpr jn e h

/-- Through JSON text: relative to the text layer being a faithful printer/parser of the data model. -/
theorem json_roundtrip_text {Text : Type} (jn : JsonNum N) (print : Json N → Text) (parse : Text → Option (Json N))
    (hp : ∀ j, parse (print j) = some j) (e : Expr N) (h : FiniteLits jn e) :
    (parse (print (ofExpr jn e))).bind (toExpr jn) = some e := by
  rw [hp]; exact json_roundtrip jn e h

/-- Consequently every function of the tree (validation, optimisation, execution) behaves identically on the
    reloaded tree. -/
theorem reloaded_behaves_alike {α : Type} (jn : JsonNum N) (F : Expr N → α) (e e' : Expr N) (h : FiniteLits jn e)
    (hl : toExpr jn (ofExpr jn e) = some e') : F e' = F e := by
  rw [json_roundtrip jn e h] at hl; cases hl; rfl

/-- The unchanged code does NOT round-trip a non-finite literal: it serialises to `null`, which the value visitor
    rejects.  (Known finding D9; `1/0` folded by optimize, or a 310-digit literal, produce such literals.) -/
theorem json_nonfinite_counterexample (jn : JsonNum N) (x : N) (hx : jn.isFinite x = false) :
    toExpr jn (ofExpr jn (.lit (.num x))) = none := by
  simp [toExpr, ofExpr, Json.read, readFields, decodeObj, field, asStr, ofValue, hx, toValue]

/-- the round-trip theorem is exact: a tree is reproduced iff its literals are finite — single-literal case -/
theorem json_roundtrip_lit_iff (jn : JsonNum N) (x : N) :
    toExpr jn (ofExpr jn (.lit (.num x))) = some (.lit (.num x)) ↔ jn.isFinite x = true := by
  constructor
  · intro h
    cases hx : jn.isFinite x with
    | true => rfl
    | false => rw [json_nonfinite_counterexample jn x hx] at h; cases h
  · intro h; exact json_roundtrip jn _ (by simp [FiniteLits, FinV, h])

/-- Non-vacuity: a concrete tree with a conditional, a call, a nested array literal and several operators
    satisfies the hypothesis and round-trips. -/
example : toExpr (N := Nat) ⟨fun _ => true, Int.toNat⟩
    (ofExpr ⟨fun _ => true, Int.toNat⟩
      (.ternary (.binary (.var ['a']) (.lit (.num 3)) .lessEqual) (.call ['f'] [.lit (.arr [.str ['x'], .arr []]), .unary (.var ['b']) .not])
        (.array []) .ternaryCondition))
    = some (.ternary (.binary (.var ['a']) (.lit (.num 3)) .lessEqual) (.call ['f'] [.lit (.arr [.str ['x'], .arr []]), .unary (.var ['b']) .not])
        (.array []) .ternaryCondition) :=
  json_roundtrip _ _ (by simp [FiniteLits, FiniteLitsL, FinV, FinVs])

end Slac.C12
