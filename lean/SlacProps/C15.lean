/-
  C15 — the sequence builtins (length, at, copy, insert, find, count, contains, replace/remove, reverse, unique,
  all/any, split, split_csv, trim*, lowercase/uppercase/same_text) return what their documentation describes,
  as judged by an independent sequence model, and they agree on what a *position* is.
  Model: SlacModel.Seq (Rust `str` pattern API) + SlacModel.Stdlib (common.rs / string.rs, arm by arm).
  Independent meaning: SlacProofs.SeqSpec (core `List` notions: `<+:`, `<:+:`, take/drop/filter/reverse).
  Numbers: positions travel as numbers of the abstract type `N`; the facts "small integers are exact"
  are the hypotheses `[LawfulIdx N]` (SlacProofs.SeqIdx; satisfiable: SlacProofs.SeqToy, N = Int).
  `off` is STRING_OFFSET (1, or 0 with feature zero_based_strings): `first = off`.  Strings are lists of
  `Char` (Unicode scalar values), so 'ä' and '𝄞' are one position each — that is the content of the property.
  Observations recorded here (all confirmed on the crate): `unique` does not merge NaN with NaN
  (`unique_irreflexive`: `==` is not reflexive); `split_csv` silently ignores a separator that is not one ASCII
  character, e.g. "ä" (`splitCsv_sep_fallback`); the payload of IndexOutOfBounds is the raw position below
  `first` but the zero-based index beyond the end (`at_below_first` / `at_beyond_last`); `split` with a wrong
  argument count reports WrongParameterCount(1) although it takes two parameters.
-/
import SlacProofs.SeqSearch
import SlacProofs.SeqSplit
import SlacProofs.SeqMisc
import SlacProofs.SeqToy
set_option autoImplicit false
set_option linter.unusedSectionVars false
set_option linter.unusedSimpArgs false
namespace Slac.C15
open Slac.Seq Slac.SeqSpec Slac.Stdlib Slac.NumX Slac.SeqMisc

/-! ## 1. The search family of SlacModel.Seq against the independent sequence model -/
section search
variable {α : Type} [DecidableEq α]

/-- `contains` = "is an infix" -/
theorem containsSeq_iff_infix (n h : List α) : containsSeq n h = true ↔ n <:+: h := containsSeq_iff n h

/-- `find` = the least position where the needle starts -/
theorem findSeq_some_iff (n h : List α) (i : Nat) :
    findSeq n h = some i ↔ (n <+: h.drop i ∧ i ≤ h.length ∧ ∀ j, j < i → ¬ n <+: h.drop j) :=
  findSeq_eq_some_iff n h i

theorem findSeq_none_iff (n h : List α) : findSeq n h = none ↔ ¬ n <:+: h := findSeq_eq_none_iff n h

/-- `count` = number of leftmost non-overlapping occurrences -/
theorem countOcc_spec (n h : List α) : countOcc n h = occCount n h := countOcc_eq_occCount n h

/-- `replace` = splice `to` in for every leftmost non-overlapping occurrence -/
theorem replaceSeq_spec (frm to hay : List α) : replaceSeq frm to hay = replaceAll frm to hay :=
  replaceSeq_eq_replaceAll frm to hay

/-- split, then join with the separator: the original -/
theorem split_join (sep hay : List α) : Seq.intercalate sep (splitOn sep hay) = hay := intercalate_splitOn sep hay

theorem length_splitOn (sep hay : List α) : (splitOn sep hay).length = countOcc sep hay + 1 :=
  Seq.length_splitOn sep hay

/-- for a non-empty separator `splitOn` is the unique list of pieces that joins back to the input, whose
    delimiters are leftmost, and whose last piece has no separator -/
theorem splitOn_spec (sep hay : List α) (h : sep ≠ []) :
    IsSplit sep hay (splitOn sep hay) ∧ ∀ ps, IsSplit sep hay ps → ps = splitOn sep hay :=
  ⟨splitOn_isSplit sep hay h, fun ps hps => isSplit_unique sep h hay ps hps⟩

theorem splitOn_empty_spec (hay : List α) : splitOn [] hay = [] :: hay.map (fun c => [c]) ++ [[]] :=
  splitOn_empty hay

-- non-vacuity (multi-byte characters are single positions); the empty needle as in Rust
example : findSeq ['𝄞', 'c'] ['ä', '𝄞', 'c', 'ä', '𝄞', 'c'] = some 1 := by decide
example : FirstOcc ['𝄞', 'c'] ['ä', '𝄞', 'c', 'ä', '𝄞', 'c'] 1 := (findSeq_some_iff _ _ _).1 (by decide)
example : ['𝄞', 'c'] <:+: ['ä', '𝄞', 'c'] := (containsSeq_iff_infix _ _).1 (by decide)
example : ¬ ['c', '𝄞'] <:+: ['ä', '𝄞', 'c'] := (findSeq_none_iff _ _).1 (by decide)
example : occCount ['a', 'a'] ['a', 'a', 'a', 'ä', 'a', 'a'] = 2 := by rw [← countOcc_spec]; decide
example : occCount ([] : Str) ['a', 'b', 'c'] = 4 := by rw [← countOcc_spec]; decide
example : occCount ([] : Str) ['a', 'b', 'c'] = 4 := by simp [occCount]
example : splitOn ([] : Str) ['a', 'b', 'c'] = [[], ['a'], ['b'], ['c'], []] := by decide
example : replaceAll ([] : Str) ['-'] ['a', 'b', 'c'] = ['-', 'a', '-', 'b', '-', 'c', '-'] := by
  rw [← replaceSeq_spec]; decide
example : replaceAll ['a', 'a'] ['𝄞'] ['a', 'a', 'a', 'ä'] = ['𝄞', 'a', 'ä'] := by simp [replaceAll]
example : IsSplit [';'] ['ä', ';', ';', 'b'] [['ä'], [], ['b']] := by
  have : splitOn [';'] ['ä', ';', ';', 'b'] = [['ä'], [], ['b']] := by decide
  rw [← this]; exact (splitOn_spec _ _ (by decide)).1

end search

/-! ## 2. Positions -/
section positions
variable {N : Type} [NumX N] [LawfulIdx N] (off : Nat)

/-- Rust `a >= b` on numbers -/
def geN (a b : N) : Bool := match NumOps.pcmp a b with | some .gt | some .eq => true | _ => false

theorem length_str (s : Str) : length [.str s] = .ok (.num (ofNat s.length : N)) := rfl
theorem length_arr (vs : List (Value N)) : length [.arr vs] = .ok (.num (ofNat vs.length : N)) := rfl

/-! ### strings: `at` -/
/-- `at(s, first + i)` for `i = 0 .. length(s)-1` is the `i`-th character of `s` -/
theorem at_enumerates (s : Str) (hs : off + s.length < 2^53) (i : Nat) (hi : i < s.length) :
    at_ off [.str s, .num (ofNat (off + i) : N)] = .ok (.str [s[i]]) := by
  simp only [at_]
  rw [LawfulIdx.getStringIndex_add off i (by omega)]
  simp [List.getElem?_eq_getElem hi]

/-- the same, as one list: `at` over `first .. first+length(s)-1` enumerates `s` -/
theorem at_enumerates_list (s : Str) (hs : off + s.length < 2^53) :
    (List.range s.length).map (fun i => at_ off [.str s, .num (ofNat (off + i) : N)])
      = s.map (fun c => .ok (.str [c])) := by
  apply List.ext_getElem
  · simp
  · intro i h1 h2
    simp only [List.length_map, List.length_range] at h1
    simp [at_enumerates off s hs i h1]

theorem at_below_first (s : Str) (p : Nat) (hp : p < off) (h : p < 2^53) :
    at_ off [.str s, .num (ofNat p : N)] = .error (.indexOutOfBounds p) := by
  simp only [at_]
  rw [LawfulIdx.getStringIndex_ofNat off p h, if_neg (by omega)]

theorem at_beyond_last (s : Str) (p : Nat) (hp : off + s.length ≤ p) (h : p < 2^53) :
    at_ off [.str s, .num (ofNat p : N)] = .error (.indexOutOfBounds (p - off)) := by
  simp only [at_]
  rw [LawfulIdx.getStringIndex_ofNat off p h, if_pos (by omega)]
  have : s[p - off]? = none := List.getElem?_eq_none (by omega)
  simp [this]

/-- `at_out_of_range`: a natural-number position outside `first .. first+length(s)-1` is an error -/
theorem at_out_of_range (s : Str) (p : Nat) (h : p < 2^53) (hp : p < off ∨ off + s.length ≤ p) :
    ∃ k, at_ off [.str s, .num (ofNat p : N)] = .error (.indexOutOfBounds k) := by
  rcases hp with hp | hp
  · exact ⟨_, at_below_first off s p hp h⟩
  · exact ⟨_, at_beyond_last off s p hp h⟩

theorem at_negative (s : Str) : at_ off [.str s, .num (ofInt (-1) : N)] = .error .indexNegative := by
  simp only [at_]
  rw [LawfulIdx.getStringIndex_neg_one]

/-! ### strings: `copy` -/
/-- `copy(s, first + i, n)`: the `n` characters from the `i`-th on -/
theorem copy_str (s : Str) (i n : Nat) (hi : off + i < 2^53) (hn : n < 2^53) :
    copy off [.str s, .num (ofNat (off + i) : N), .num (ofNat n)] = .ok (.str ((s.drop i).take n)) := by
  simp only [copy]
  rw [LawfulIdx.getStringIndex_add off i hi, LawfulIdx.floorUsize_ofNat n hn]

theorem copy_below_first (s : Str) (p n : Nat) (hp : p < off) (h : p < 2^53) :
    copy off [.str s, .num (ofNat p : N), .num (ofNat n)] = .error (.indexOutOfBounds p) := by
  simp only [copy]
  rw [LawfulIdx.getStringIndex_ofNat off p h, if_neg (by omega)]

/-! ### strings: `find` -/
/-- a successful `find` returns `first + i` for the first occurrence `i` -/
theorem find_present (s x : Str) (hs : off + s.length < 2^53) (i : Nat) (h : FirstOcc x s i) :
    find off [.str s, .str x] = .ok (.num (ofNat (off + i) : N)) := by
  simp only [find]
  rw [(findSeq_some_iff x s i).2 h]
  have hi : i ≤ s.length := h.2.1
  simp only
  rw [LawfulIdx.add_ofNat i off (by omega), Nat.add_comm]

/-- a failed `find` returns `first - 1`, computed as `-1.0 + STRING_OFFSET` -/
theorem find_absent (s x : Str) (h : ¬ x <:+: s) :
    find off [.str s, .str x] = .ok (.num (NumOps.add (ofInt (-1) : N) (ofNat off))) := by
  simp only [find]
  rw [(findSeq_none_iff x s).2 h]

/-- … which is `0` for one-based strings and `-1` for zero-based strings -/
theorem find_absent_value (hoff : off ≤ 1) (s x : Str) (h : ¬ x <:+: s) :
    find off [.str s, .str x] = .ok (.num (if off = 0 then ofInt (-1) else ofNat 0 : N)) := by
  rw [find_absent off s x h, LawfulIdx.neg_one_add off hoff]

/-- `first - 1` is not a position: `at(s, find(s, x))` fails when `x` does not occur -/
theorem at_find_absent (hoff : off ≤ 1) (s x : Str) (h : ¬ x <:+: s) :
    ∃ p : N, find off [.str s, .str x] = .ok (.num p) ∧ ∃ e, at_ off [.str s, .num p] = .error e := by
  refine ⟨_, find_absent_value off hoff s x h, ?_⟩
  have : off = 0 ∨ off = 1 := by omega
  rcases this with rfl | rfl
  · exact ⟨_, at_negative 0 s⟩
  · exact ⟨_, at_below_first 1 s 0 (by decide) (by decide)⟩

/-- `copy(s, find(s, x), length(x)) = x` for every substring `x` of `s` -/
theorem copy_find (s x : Str) (hs : off + s.length < 2^53) (h : x <:+: s) :
    ∃ p l : N, find off [.str s, .str x] = .ok (.num p) ∧ length [.str x] = .ok (.num l) ∧
      copy off [.str s, .num p, .num l] = .ok (.str x) := by
  obtain ⟨i, hi⟩ : ∃ i, findSeq x s = some i := by
    cases hf : findSeq x s with
    | none => exact absurd h ((findSeq_none_iff x s).1 hf)
    | some i => exact ⟨i, rfl⟩
  have hfo : FirstOcc x s i := (findSeq_some_iff x s i).1 hi
  have hil : i ≤ s.length := hfo.2.1
  have hxl : x.length ≤ s.length := h.length_le
  refine ⟨ofNat (off + i), ofNat x.length, find_present off s x hs i hfo, rfl, ?_⟩
  rw [copy_str off s i x.length (by omega) (by omega)]
  have := List.prefix_iff_eq_take.1 hfo.1
  rw [← this]

/-! ### strings: `insert` -/
/-- `insert(s, x, first + i)` puts `x` in front of the `i`-th character; `copy` at the same position reads it
    back; lengths add up -/
theorem insert_copy (s x : Str) (i : Nat) (hi : i ≤ s.length) (hs : off + s.length + x.length < 2^53) :
    ∃ t, Stdlib.insert off [.str s, .str x, .num (ofNat (off + i) : N)] = .ok (.str t) ∧
      t = s.take i ++ x ++ s.drop i ∧
      copy off [.str t, .num (ofNat (off + i) : N), .num (ofNat x.length)] = .ok (.str x) ∧
      length [.str t] = .ok (.num (ofNat (s.length + x.length) : N)) ∧
      (ofNat (s.length + x.length) : N) = NumOps.add (ofNat s.length) (ofNat x.length) := by
  refine ⟨s.take i ++ x ++ s.drop i, ?_, rfl, ?_, ?_, ?_⟩
  · simp only [Stdlib.insert]
    rw [LawfulIdx.getStringIndex_add off i (by omega)]
    simp only
    rw [if_neg (by omega)]
  · rw [copy_str off _ i x.length (by omega) (by omega)]
    have : (s.take i).length = i := by simp [List.length_take]; omega
    simp [List.drop_append, this]
  · simp only [length, valueLen]
    congr 3
    simp [List.length_take]; omega
  · rw [LawfulIdx.add_ofNat _ _ (by omega)]

theorem insert_beyond_last (s x : Str) (i : Nat) (hi : s.length < i) (h : off + i < 2^53) :
    Stdlib.insert off [.str s, .str x, .num (ofNat (off + i) : N)] = .error (.indexOutOfBounds i) := by
  simp only [Stdlib.insert]
  rw [LawfulIdx.getStringIndex_add off i h]
  simp only
  rw [if_pos hi]

/-! ### strings: `count`, `contains`, `find` agree -/
theorem count_str (s x : Str) : count [.str s, .str x] = .ok (.num (ofNat (occCount x s) : N)) := by
  simp only [count, countOcc_spec]

theorem contains_str (s x : Str) : contains [.str s, .str x] = .ok (.bool (decide (x <:+: s)) : Value N) := by
  simp only [contains]
  congr 2
  rw [Bool.eq_iff_iff, containsSeq_iff_infix]; simp

/-- `count(s,x) > 0  ⇔  contains(s,x)  ⇔  find(s,x) >= first`, on the builtins' results -/
theorem count_contains_find (hoff : off ≤ 1) (s x : Str) (hs : s.length + 1 < 2^53) :
    ∃ (c p : N) (b : Bool),
      count [.str s, .str x] = .ok (.num c) ∧ contains [.str s, .str x] = .ok (.bool b : Value N) ∧
      find off [.str s, .str x] = .ok (.num p) ∧
      gt0 c = b ∧ geN p (ofNat off) = b := by
  have hc : countOcc x s < 2^53 := Nat.lt_of_le_of_lt (countOcc_le x s) hs
  by_cases h : x <:+: s
  · obtain ⟨i, hi⟩ : ∃ i, findSeq x s = some i := by
      cases hf : findSeq x s with
      | none => exact absurd h ((findSeq_none_iff x s).1 hf)
      | some i => exact ⟨i, rfl⟩
    have hfo : FirstOcc x s i := (findSeq_some_iff x s i).1 hi
    have hil : i ≤ s.length := hfo.2.1
    refine ⟨ofNat (countOcc x s), ofNat (off + i), true, rfl, ?_, find_present off s x (by omega) i hfo, ?_, ?_⟩
    · simp only [contains]; rw [(containsSeq_iff_infix x s).2 h]
    · rw [LawfulIdx.gt0_ofNat _ hc]
      have : containsSeq x s = true := (containsSeq_iff_infix x s).2 h
      unfold containsSeq at this
      simpa using this
    · unfold geN
      rw [LawfulIdx.pcmp_ofNat (off + i) off (by omega) (by omega)]
      rcases Nat.eq_zero_or_pos i with h0 | h0
      · subst h0; simp
      · rw [Nat.compare_eq_gt.2 (by omega)]
  · have hcf : containsSeq x s = false := by
      cases hb : containsSeq x s with
      | false => rfl
      | true => exact absurd ((containsSeq_iff_infix x s).1 hb) h
    refine ⟨ofNat (countOcc x s), _, false, rfl, ?_, find_absent off s x h, ?_, ?_⟩
    · simp only [contains]; rw [hcf]
    · rw [LawfulIdx.gt0_ofNat _ hc]
      unfold containsSeq at hcf
      simpa using hcf
    · unfold geN
      rw [LawfulIdx.pcmp_neg_one_add off hoff]

/-! ### arrays: the same laws with base 0 (`off` plays no role) -/
theorem at_arr (vs : List (Value N)) (hs : vs.length < 2^53) (i : Nat) (hi : i < vs.length) :
    at_ off [.arr vs, .num (ofNat i : N)] = .ok vs[i] := by
  simp only [at_]
  rw [LawfulIdx.getIndex_ofNat i (by omega)]
  simp [List.getElem?_eq_getElem hi]

theorem at_arr_beyond_last (vs : List (Value N)) (p : Nat) (hp : vs.length ≤ p) (h : p < 2^53) :
    at_ off [.arr vs, .num (ofNat p : N)] = .error (.indexOutOfBounds p) := by
  simp only [at_]
  rw [LawfulIdx.getIndex_ofNat p h]
  have : vs[p]? = none := List.getElem?_eq_none hp
  simp [this]

theorem at_arr_negative (vs : List (Value N)) :
    at_ off [.arr vs, .num (ofInt (-1) : N)] = .error .indexNegative := by
  simp only [at_]
  rw [LawfulIdx.getIndex_neg_one]

theorem copy_arr (vs : List (Value N)) (i n : Nat) (hi : i < 2^53) (hn : n < 2^53) :
    copy off [.arr vs, .num (ofNat i : N), .num (ofNat n)] = .ok (.arr ((vs.drop i).take n)) := by
  simp only [copy]
  rw [LawfulIdx.getIndex_ofNat i hi, LawfulIdx.floorUsize_ofNat n hn]

/-- array `find`: `-1` when no element equals (`==`) the needle -/
theorem find_arr_absent (vs : List (Value N)) (v : Value N) (h : ∀ w, w ∈ vs → Value.eq w v = false) :
    find off [.arr vs, v] = .ok (.num (ofInt (-1) : N)) := by
  have : Stdlib.findIdx? (fun w => Value.eq w v) vs = none := (findIdx?_eq_none_iff _ _).2 h
  cases v <;> simp only [find, this]

/-- array `find`: the index of the first element that equals (`==`) the needle -/
theorem find_arr_present (vs : List (Value N)) (v : Value N) (i : Nat) (hi : i < vs.length)
    (h1 : Value.eq vs[i] v = true) (h2 : ∀ j (hj : j < i), Value.eq (vs[j]'(Nat.lt_trans hj hi)) v = false) :
    find off [.arr vs, v] = .ok (.num (ofNat i : N)) := by
  have : Stdlib.findIdx? (fun w => Value.eq w v) vs = some i := (findIdx?_eq_some_iff _ _ _).2 ⟨hi, h1, h2⟩
  cases v <;> simp only [find, this]

/-- `at(vs, find(vs, v)) == v` when some element equals `v` -/
theorem at_find_arr (vs : List (Value N)) (hs : vs.length < 2^53) (v : Value N)
    (h : ∃ w, w ∈ vs ∧ Value.eq w v = true) :
    ∃ (p : N) (w : Value N), find off [.arr vs, v] = .ok (.num p) ∧ at_ off [.arr vs, .num p] = .ok w ∧
      Value.eq w v = true := by
  cases hf : Stdlib.findIdx? (fun w => Value.eq w v) vs with
  | none =>
    obtain ⟨w, hw, hwv⟩ := h
    have := (findIdx?_eq_none_iff _ _).1 hf w hw
    rw [hwv] at this; cases this
  | some i =>
    obtain ⟨hi, h1, h2⟩ := (findIdx?_eq_some_iff _ _ _).1 hf
    exact ⟨ofNat i, vs[i], find_arr_present off vs v i hi h1 h2, at_arr off vs hs i hi, h1⟩

/-- `copy(vs, find(vs, v), 1) = [w]` with `w == v` -/
theorem copy_find_arr (vs : List (Value N)) (hs : vs.length < 2^53) (v : Value N)
    (h : ∃ w, w ∈ vs ∧ Value.eq w v = true) :
    ∃ (p : N) (w : Value N), find off [.arr vs, v] = .ok (.num p) ∧
      copy off [.arr vs, .num p, .num (ofNat 1)] = .ok (.arr [w]) ∧ Value.eq w v = true := by
  cases hf : Stdlib.findIdx? (fun w => Value.eq w v) vs with
  | none =>
    obtain ⟨w, hw, hwv⟩ := h
    have := (findIdx?_eq_none_iff _ _).1 hf w hw
    rw [hwv] at this; cases this
  | some i =>
    obtain ⟨hi, h1, h2⟩ := (findIdx?_eq_some_iff _ _ _).1 hf
    refine ⟨ofNat i, vs[i], find_arr_present off vs v i hi h1 h2, ?_, h1⟩
    rw [copy_arr off vs i 1 (by omega) (by decide)]
    rw [List.drop_eq_getElem_cons hi]; rfl

theorem at_arr_enumerates_list (vs : List (Value N)) (hs : vs.length < 2^53) :
    (List.range vs.length).map (fun i => at_ off [.arr vs, .num (ofNat i : N)]) = vs.map .ok := by
  apply List.ext_getElem
  · simp
  · intro i h1 h2
    simp only [List.length_map, List.length_range] at h1
    simp [at_arr off vs hs i h1]

theorem insert_arr (vs : List (Value N)) (v : Value N) (i : Nat) (hi : i ≤ vs.length) (hs : vs.length + 1 < 2^53) :
    ∃ t, Stdlib.insert off [.arr vs, v, .num (ofNat i : N)] = .ok (.arr t) ∧
      t = vs.take i ++ v :: vs.drop i ∧
      at_ off [.arr t, .num (ofNat i : N)] = .ok v ∧
      length [.arr t] = .ok (.num (ofNat (vs.length + 1) : N)) := by
  have hlen : (vs.take i ++ v :: vs.drop i).length = vs.length + 1 := by
    simp [List.length_take]; omega
  refine ⟨vs.take i ++ v :: vs.drop i, ?_, rfl, ?_, ?_⟩
  · have : Stdlib.insert off [.arr vs, v, .num (ofNat i : N)] =
        match getIndex (ofNat i : N) with
        | .ok idx => if idx > vs.length then .error (.indexOutOfBounds idx) else .ok (.arr (insertAt vs idx v))
        | .error e => .error e := by
      cases v <;> rfl
    rw [this, LawfulIdx.getIndex_ofNat i (by omega)]
    simp only
    rw [if_neg (by omega)]; rfl
  · have hi' : i < (vs.take i ++ v :: vs.drop i).length := by omega
    rw [at_arr off _ (by omega) i hi']
    have : (vs.take i).length = i := by simp [List.length_take]; omega
    simp [List.getElem_append_right, this]
  · simp only [length, valueLen, hlen]

theorem insert_arr_beyond_last (vs : List (Value N)) (v : Value N) (i : Nat) (hi : vs.length < i) (h : i < 2^53) :
    Stdlib.insert off [.arr vs, v, .num (ofNat i : N)] = .error (.indexOutOfBounds i) := by
  have : Stdlib.insert off [.arr vs, v, .num (ofNat i : N)] =
      match getIndex (ofNat i : N) with
      | .ok idx => if idx > vs.length then .error (.indexOutOfBounds idx) else .ok (.arr (insertAt vs idx v))
      | .error e => .error e := by
    cases v <;> rfl
  rw [this, LawfulIdx.getIndex_ofNat i h]
  simp only
  rw [if_pos hi]

theorem count_arr (vs : List (Value N)) (v : Value N) :
    count [.arr vs, v] = .ok (.num (ofNat (vs.countP fun w => Value.eq w v) : N)) := by
  have : count [.arr vs, v] = .ok (.num (ofNat (vs.filter fun w => Value.eq w v).length : N)) := by
    cases v <;> rfl
  rw [this, List.countP_eq_length_filter]

theorem contains_arr (vs : List (Value N)) (v : Value N) :
    contains [.arr vs, v] = .ok (.bool (vs.any fun w => Value.eq w v)) := by
  cases v <;> rfl

/-- arrays: `count > 0 ⇔ contains ⇔ find >= 0` -/
theorem count_contains_find_arr (vs : List (Value N)) (v : Value N) (hs : vs.length < 2^53) :
    ∃ (c p : N) (b : Bool),
      count [.arr vs, v] = .ok (.num c) ∧ contains [.arr vs, v] = .ok (.bool b : Value N) ∧
      find off [.arr vs, v] = .ok (.num p) ∧
      gt0 c = b ∧ geN p (ofNat 0) = b := by
  have hcl : (vs.countP fun w => Value.eq w v) < 2^53 := Nat.lt_of_le_of_lt List.countP_le_length hs
  cases hf : Stdlib.findIdx? (fun w => Value.eq w v) vs with
  | none =>
    have hall := (findIdx?_eq_none_iff _ _).1 hf
    refine ⟨_, _, false, count_arr vs v, ?_, find_arr_absent off vs v hall, ?_, ?_⟩
    · rw [contains_arr]; congr 2
      rw [List.any_eq_false]; intro w hw; simpa using hall w hw
    · rw [LawfulIdx.gt0_ofNat _ hcl]
      have : (vs.countP fun w => Value.eq w v) = 0 := by
        rw [List.countP_eq_zero]; intro w hw; simpa using hall w hw
      simp [this]
    · unfold geN; rw [LawfulIdx.pcmp_neg_one]
  | some i =>
    obtain ⟨hi, h1, h2⟩ := (findIdx?_eq_some_iff _ _ _).1 hf
    refine ⟨_, _, true, count_arr vs v, ?_, find_arr_present off vs v i hi h1 h2, ?_, ?_⟩
    · rw [contains_arr]; congr 2
      rw [List.any_eq_true]; exact ⟨vs[i], List.getElem_mem hi, h1⟩
    · rw [LawfulIdx.gt0_ofNat _ hcl]
      have : 0 < (vs.countP fun w => Value.eq w v) := List.countP_pos_iff.2 ⟨vs[i], List.getElem_mem hi, h1⟩
      simp [this]
    · unfold geN
      rw [LawfulIdx.pcmp_ofNat i 0 (by omega) (by decide)]
      rcases Nat.eq_zero_or_pos i with h0 | h0
      · subst h0; simp
      · rw [Nat.compare_eq_gt.2 h0]

end positions

/-! ## 3. reverse, length, `+`, unique, all/any, replace/remove -/
section misc
variable {N : Type} [NumX N]

theorem reverse_str (s : Str) : reverse [.str s] = .ok (.str s.reverse : Value N) := rfl
theorem reverse_arr (vs : List (Value N)) : reverse [.arr vs] = .ok (.arr vs.reverse) := rfl

theorem reverse_involutive (v w : Value N) (h : reverse [v] = .ok w) : reverse [w] = .ok v := by
  cases v <;> simp only [reverse] at h <;> cases h <;> simp [reverse]

theorem length_reverse (v w : Value N) (h : reverse [v] = .ok w) : length [w] = length [v] := by
  cases v <;> simp only [reverse] at h <;> cases h <;> simp [length, valueLen]

/-- position-wise: the `i`-th character of the reverse is the `i`-th from the end -/
theorem at_reverse [LawfulIdx N] (off : Nat) (s : Str) (hs : off + s.length < 2^53) (i : Nat) (hi : i < s.length) :
    at_ off [.str s.reverse, .num (ofNat (off + i) : N)]
      = at_ off [.str s, .num (ofNat (off + (s.length - 1 - i)) : N)] := by
  rw [at_enumerates off s.reverse (by simpa using hs) i (by simpa using hi),
    at_enumerates off s hs (s.length - 1 - i) (by omega)]
  simp [List.getElem_reverse]

/-- `length(a + b) = length(a) + length(b)` for strings and arrays (`+` is `Value.add`) -/
theorem length_append (a b c : Value N) (h : Value.add a b = .ok c) :
    length [c] = .ok (.num (ofNat (valueLen a + valueLen b) : N)) := by
  cases a <;> cases b <;> simp only [Value.add] at h <;> cases h <;> simp [length, valueLen]

theorem length_append_add [LawfulIdx N] (a b c : Value N) (h : Value.add a b = .ok c)
    (hl : valueLen a + valueLen b < 2^53) :
    ∃ la lb lc : N, length [a] = .ok (.num la) ∧ length [b] = .ok (.num lb) ∧ length [c] = .ok (.num lc) ∧
      lc = NumOps.add la lb :=
  ⟨_, _, _, rfl, rfl, length_append a b c h, (LawfulIdx.add_ofNat _ _ hl).symm⟩

/-- `unique` keeps the first occurrence of every value w.r.t. `==` (`Value.eq`) -/
theorem unique_spec (vs : List (Value N)) : unique [.arr vs] = .ok (.arr (dedupBy Value.eq vs)) := by
  simp only [unique, dedup]
  rw [foldl_dedup Value.eq [] vs]
  have : (vs.filter fun w => !([] : List (Value N)).any fun x => Value.eq x w) = vs :=
    List.filter_eq_self.2 (fun _ _ => rfl)
  rw [this]; rfl

/-- What is true of `unique` without assuming `==` reflexive (it is not: NaN), symmetric or transitive:
    the result is a subsequence of the input; no kept element `==` a later kept element; every input
    element is kept or `==`-equalled by a kept element. -/
theorem unique_props (vs : List (Value N)) :
    ∃ us, unique [.arr vs] = .ok (.arr us) ∧ List.Sublist us vs ∧
      List.Pairwise (fun a b => Value.eq a b = false) us ∧
      ∀ w, w ∈ vs → w ∈ us ∨ ∃ u, u ∈ us ∧ Value.eq u w = true :=
  ⟨_, unique_spec vs, dedupBy_sublist _ vs, dedupBy_pairwise _ vs, dedupBy_covers _ vs⟩

/-- if `==` is reflexive on the input (no NaN inside), every input element `==` some kept element -/
theorem unique_covers_of_refl (vs : List (Value N)) (hr : ∀ w, w ∈ vs → Value.eq w w = true) :
    ∃ us, unique [.arr vs] = .ok (.arr us) ∧ ∀ w, w ∈ vs → ∃ u, u ∈ us ∧ Value.eq u w = true := by
  obtain ⟨us, h1, _, _, h4⟩ := unique_props vs
  refine ⟨us, h1, fun w hw => ?_⟩
  rcases h4 w hw with h | h
  · exact ⟨w, h, hr w hw⟩
  · exact h

/-- … and a value that does not `==` itself (NaN) is *not* de-duplicated -/
theorem unique_irreflexive (v : Value N) (h : Value.eq v v = false) : unique [.arr [v, v]] = .ok (.arr [v, v]) := by
  simp [unique, dedup, h]

theorem all_spec (ps : List (Value N)) :
    all ps = .ok (.bool ((smartVec ps).all fun v => Value.eq v (.bool true))) := rfl
theorem any_spec (ps : List (Value N)) :
    any ps = .ok (.bool ((smartVec ps).any fun v => Value.eq v (.bool true))) := rfl

theorem eq_bool_true (b : Bool) : Value.eq (.bool b : Value N) (.bool true) = b := by
  cases b <;> simp [Value.eq]

/-- on an array of Booleans: conjunction / disjunction -/
theorem all_bools (bs : List Bool) : all [.arr (bs.map .bool)] = .ok (.bool (bs.all id) : Value N) := by
  simp only [all, smartVec, List.all_map]
  congr 2
  apply List.all_congr rfl
  intro b; simp [eq_bool_true]
theorem any_bools (bs : List Bool) : any [.arr (bs.map .bool)] = .ok (.bool (bs.any id) : Value N) := by
  simp only [any, smartVec, List.any_map]
  congr 2
  apply List.any_congr rfl
  intro b; simp [eq_bool_true]

/-- string `replace(s, x, y)` and `remove(s, x)` (= `replace` with two arguments) -/
theorem replace_str (s x y : Str) : replace [.str s, .str x, .str y] = .ok (.str (replaceAll x y s) : Value N) := by
  simp [replace, defaultString, replaceSeq_spec]
theorem remove_str (s x : Str) : replace [.str s, .str x] = .ok (.str (replaceAll x [] s) : Value N) := by
  simp [replace, defaultString, replaceSeq_spec]

/-- array `replace`: every element `==` to `frm` becomes `to`; `remove`: they are dropped -/
theorem replace_arr (vs : List (Value N)) (frm to : Value N) :
    replace [.arr vs, frm, to] = .ok (.arr (vs.map fun v => if Value.eq v frm then to else v)) := by
  have : replace [.arr vs, frm, to] = .ok (.arr (replaceArr vs frm (some to))) := by
    cases frm <;> rfl
  rw [this, replaceArr_some]
theorem remove_arr (vs : List (Value N)) (frm : Value N) :
    replace [.arr vs, frm] = .ok (.arr (vs.filter fun v => !Value.eq v frm)) := by
  have : replace [.arr vs, frm] = .ok (.arr (replaceArr vs frm none)) := by
    cases frm <;> rfl
  rw [this, replaceArr_none]

end misc

/-! ## 4. split, split_csv, trim, case functions -/
section text
variable {N : Type} [NumX N]

/-- `split(line, sep)`: the pieces, which joined with `sep` give `line` back; one more piece than there are
    occurrences; for a non-empty separator *the* split of SeqSpec, for the empty one Rust's `split("")` -/
theorem split_spec (line sep : Str) :
    ∃ ps : List Str, split [.str line, .str sep] = .ok (.arr (ps.map .str) : Value N) ∧
      SeqSpec.join sep ps = line ∧ ps.length = occCount sep line + 1 ∧
      (sep ≠ [] → IsSplit sep line ps ∧ ∀ qs, IsSplit sep line qs → qs = ps) ∧
      (sep = [] → ps = [] :: line.map (fun c => [c]) ++ [[]]) := by
  refine ⟨splitOn sep line, rfl, join_splitOn sep line, ?_, fun h => splitOn_spec sep line h, ?_⟩
  · rw [length_splitOn, countOcc_spec]
  · intro h; subst h; exact splitOn_empty line

/-- `parse_csv`: nothing but quotes and unquoted separators is lost, and there is one field per unquoted
    separator plus one -/
theorem parseCsv_spec (line : Str) (sep : Char) :
    (parseCsv line sep).flatten = csvKeep sep false line ∧
    (parseCsv line sep).length = csvSeps sep false line + 1 := by
  unfold parseCsv
  exact ⟨by simpa using parseCsvAux_flatten sep [] false line, parseCsvAux_length sep [] false line⟩

/-- index-wise: the concatenated fields are the characters of `line` that are not `"` and not a separator
    preceded by an even number of `"` -/
theorem parseCsv_content (line : Str) (sep : Char) : (parseCsv line sep).flatten = csvContent sep line := by
  rw [(parseCsv_spec line sep).1, csvKeep_eq_content]

theorem splitCsv_spec (line : Str) (rest : List (Value N)) :
    splitCsv (.str line :: rest)
      = .ok (.arr ((parseCsv line (((rest[0]?).bind charFromValue).getD ';')).map .str)) := by
  cases rest <;> rfl

/-- `trim`: the result has no leading or trailing White_Space, and only White_Space was cut off -/
theorem trim_spec (s : Str) :
    (∀ c, (trimBoth s).head? = some c → isWhiteSpace c = false) ∧
    (∀ c, (trimBoth s).getLast? = some c → isWhiteSpace c = false) ∧
    ∃ l r : Str, s = l ++ trimBoth s ++ r ∧ l.all isWhiteSpace = true ∧ r.all isWhiteSpace = true := by
  refine ⟨?_, trimRight_last _, ?_⟩
  · intro c hc
    exact trimLeft_head s c (head?_of_prefix (trimRight_prefix (trimLeft s)) c hc)
  · refine ⟨s.takeWhile isWhiteSpace, ((trimLeft s).reverse.takeWhile isWhiteSpace).reverse, ?_,
      all_takeWhile _ _, ?_⟩
    · unfold trimBoth
      rw [List.append_assoc, ← trimRight_decomp, ← trimLeft_decomp]
    · rw [List.all_reverse]; exact all_takeWhile _ _

theorem trimLeft_spec (s : Str) :
    (∀ c, (trimLeft s).head? = some c → isWhiteSpace c = false) ∧
    ∃ l : Str, s = l ++ trimLeft s ∧ l.all isWhiteSpace = true :=
  ⟨trimLeft_head s, _, trimLeft_decomp s, all_takeWhile _ _⟩

theorem trimRight_spec (s : Str) :
    (∀ c, (trimRight s).getLast? = some c → isWhiteSpace c = false) ∧
    ∃ r : Str, s = trimRight s ++ r ∧ r.all isWhiteSpace = true :=
  ⟨trimRight_last s, _, trimRight_decomp s, by rw [List.all_reverse]; exact all_takeWhile _ _⟩

theorem trim_builtins (s : Str) :
    trim [.str s] = .ok (.str (trimBoth s) : Value N) ∧ trimLeftF [.str s] = .ok (.str (trimLeft s) : Value N) ∧
    trimRightF [.str s] = .ok (.str (trimRight s) : Value N) := ⟨rfl, rfl, rfl⟩

/-- the case functions are Rust's `to_lowercase` / `to_uppercase` (parameters `cm` of the model) -/
theorem lowercase_spec (cm : CaseMap) (a : Str) : lowercase cm [.str a] = .ok (.str (cm.lower a) : Value N) := rfl
theorem uppercase_spec (cm : CaseMap) (a : Str) : uppercase cm [.str a] = .ok (.str (cm.upper a) : Value N) := rfl
/-- `same_text`: equality of the lowercase forms -/
theorem sameText_spec (cm : CaseMap) (a b : Str) :
    sameText cm [.str a, .str b] = .ok (.bool (cm.lower a == cm.lower b) : Value N) := rfl

/-- Deviation from the declaration `split_csv(line, separator: String = ';')`: a separator that is not one
    single ASCII character (`char_from_value` tests the *byte* length) is silently ignored — also a
    one-character non-ASCII string such as "ä" — and `;` is used instead. -/
theorem splitCsv_sep_fallback (line : Str) (c : Char) (h : 128 ≤ c.toNat) :
    splitCsv [.str line, .str [c]] = (splitCsv [.str line] : Res N) := by
  have : charFromValue (.str [c] : Value N) = none := by
    simp only [charFromValue]; rw [if_neg (by omega)]
  simp [splitCsv, this]

end text

/-! ## Non-vacuity and error discipline on the toy instance N = Int (closed terms, by evaluation) -/
section examples
open Slac.SeqToy

/-- "äß𝄞c": three non-ASCII characters (2, 2 and 4 bytes in UTF-8) and an ASCII one -/
def sample : Str := ['ä', 'ß', '𝄞', 'c']

-- one-based (default) and zero-based positions count characters
example : at_ 1 [.str sample, .num (3 : Int)] = .ok (.str ['𝄞']) := rfl
example : at_ 0 [.str sample, .num (2 : Int)] = .ok (.str ['𝄞']) := rfl
example : at_ 1 [.str sample, .num (3 : Int)] = .ok (.str ['𝄞']) :=
  at_enumerates 1 sample (by decide) 2 (by decide)
example : at_ 1 [.str sample, .num (0 : Int)] = .error (.indexOutOfBounds 0) := rfl
example : at_ 1 [.str sample, .num (5 : Int)] = .error (.indexOutOfBounds 4) := rfl
example : at_ 0 [.str sample, .num (4 : Int)] = .error (.indexOutOfBounds 4) := rfl
example : at_ 1 [.str sample, .num (-1 : Int)] = .error .indexNegative := rfl
example : find 1 [.str sample, .str ['𝄞', 'c']] = .ok (.num (3 : Int)) := rfl
example : find 0 [.str sample, .str ['𝄞', 'c']] = .ok (.num (2 : Int)) := rfl
example : copy 1 [.str sample, .num (3 : Int), .num (2 : Int)] = .ok (.str ['𝄞', 'c']) := rfl
example : find 1 [.str sample, .str ['x']] = .ok (.num (0 : Int)) := rfl
example : find 0 [.str sample, .str ['x']] = .ok (.num (-1 : Int)) := rfl
example : ['𝄞', 'c'] <:+: sample := (containsSeq_iff_infix _ _).1 (by decide)
example : ¬ ['x'] <:+: sample := (findSeq_none_iff _ _).1 (by decide)
example : Stdlib.insert 1 [.str sample, .str ['é'], .num (2 : Int)] = .ok (.str ['ä', 'é', 'ß', '𝄞', 'c']) := rfl
example : Stdlib.insert 1 [.str sample, .str ['é'], .num (5 : Int)] = .ok (.str ['ä', 'ß', '𝄞', 'c', 'é']) := rfl
example : Stdlib.insert 1 [.str sample, .str ['é'], .num (6 : Int)] = .error (.indexOutOfBounds 5) := rfl
example : length [.str sample] = .ok (.num (4 : Int)) := rfl
example : count [.str ['ä', 'ä', 'ä'], .str ['ä', 'ä']] = .ok (.num (1 : Int)) := rfl
example : count [.str ['a', 'b', 'c'], .str []] = .ok (.num (4 : Int)) := rfl
example : contains [.str sample, .str ['ß', '𝄞']] = .ok (.bool true : Value Int) := rfl
example : reverse [.str sample] = .ok (.str ['c', '𝄞', 'ß', 'ä'] : Value Int) := rfl
example : replace [.str sample, .str ['ß'], .str ['s', 's']] = .ok (.str ['ä', 's', 's', '𝄞', 'c'] : Value Int) := rfl
example : replace [.str sample, .str ['ß']] = .ok (.str ['ä', '𝄞', 'c'] : Value Int) := rfl
example : split [.str ['ä', ';', ';', '𝄞'], .str [';']] = .ok (.arr [.str ['ä'], .str [], .str ['𝄞']] : Value Int) := rfl
example : splitCsv [.str ['ä', ';', '"', 'b', ';', 'c', '"', ';', '𝄞']]
    = .ok (.arr [.str ['ä'], .str ['b', ';', 'c'], .str ['𝄞']] : Value Int) := rfl
example : csvContent ';' ['ä', ';', '"', 'b', ';', 'c', '"', ';', '𝄞'] = ['ä', 'b', ';', 'c', '𝄞'] := by decide
example : trim [.str [' ', ' ', 'ä', ' ', 'b', '　', '\n']] = .ok (.str ['ä', ' ', 'b'] : Value Int) := rfl
-- arrays: base 0, `==` across kinds
example : at_ 1 [.arr [.num 7, .str sample], .num (1 : Int)] = .ok (.str sample) := rfl
example : find 1 [.arr [.num 7, .bool true, .num 1], .num (1 : Int)] = .ok (.num 1) := rfl
example : find 1 [.arr [.num 7, .bool true], .str ['x']] = .ok (.num (-1 : Int)) := rfl
example : copy 1 [.arr [.num 7, .num 8, .num 9], .num (1 : Int), .num 5] = .ok (.arr [.num 8, .num 9]) := rfl
example : Stdlib.insert 1 [.arr [.num 7, .num 9], .num 8, .num (1 : Int)] = .ok (.arr [.num 7, .num 8, .num 9]) := rfl
example : unique [.arr [.num (1 : Int), .bool true, .str ['a'], .num 1, .str ['a']]]
    = .ok (.arr [.num 1, .str ['a']]) := rfl
example : dedupBy Value.eq [Value.num (1 : Int), .bool true, .str ['a'], .num 1] = [.num 1, .str ['a']] := by
  simp [dedupBy, Value.eq, Value.cmp, cmpNat, Value.ordinal, NumOps.beq, NumOps.ofBool, NumOps.parse]
example : all [.arr [.bool true, .num (1 : Int)]] = .ok (.bool true) := rfl
example : any [.bool false, .str ['x'], .num (0 : Int)] = .ok (.bool false) := rfl
-- error discipline: the `NativeError` of the Rust arms
example : at_ 1 [.str sample] = (.error (.wrongParameterCount 2) : Res Int) := rfl
example : at_ 1 [.num 1, .num (1 : Int)] = .error .wrongParameterType := rfl
example : at_ 1 [.str sample, .str sample] = (.error .wrongParameterType : Res Int) := rfl
example : copy 1 [.str sample, .num (1 : Int)] = .error (.wrongParameterCount 3) := rfl
example : copy 1 [.str sample, .num (1 : Int), .bool true] = .error .wrongParameterType := rfl
example : Stdlib.insert 1 [.str sample, .num (1 : Int), .num 1] = .error .wrongParameterType := rfl
example : Stdlib.insert 1 ([] : List (Value Int)) = .error (.wrongParameterCount 3) := rfl
example : find 1 [.str sample, .num (1 : Int)] = .error .wrongParameterType := rfl
example : find 1 [.str sample] = (.error (.wrongParameterCount 2) : Res Int) := rfl
example : count [.str sample, .num (1 : Int)] = .error .wrongParameterType := rfl
example : contains [.bool true, .bool false] = (.error .wrongParameterType : Res Int) := rfl
example : length ([] : List (Value Int)) = .error (.wrongParameterCount 1) := rfl
example : length [.bool true] = .ok (.num (0 : Int)) := rfl
example : replace [.str sample, .str ['a'], .num (1 : Int)] = .error .wrongParameterType := rfl
example : replace [.num (1 : Int), .num 1] = .error .wrongParameterType := rfl
example : replace [.str sample] = (.error (.wrongParameterCount 3) : Res Int) := rfl
example : reverse [.num (1 : Int)] = .error .wrongParameterType := rfl
example : reverse [.str sample, .str sample] = (.error (.wrongParameterCount 1) : Res Int) := rfl
example : unique [.str sample] = (.error .wrongParameterType : Res Int) := rfl
example : split [.str sample] = (.error (.wrongParameterCount 1) : Res Int) := rfl
example : split [.str sample, .num (1 : Int)] = .error .wrongParameterType := rfl
example : splitCsv [.num (1 : Int)] = .error .wrongParameterType := rfl
example : splitCsv ([] : List (Value Int)) = .error (.wrongParameterCount 1) := rfl
example : trim [.num (1 : Int)] = .error .wrongParameterType := rfl
example : sameText ⟨id, id⟩ [.str sample] = (.error (.wrongParameterCount 2) : Res Int) := rfl
example : sameText ⟨id, id⟩ [.str sample, .num (1 : Int)] = .error .wrongParameterType := rfl

-- the general theorems instantiate (hypotheses are satisfiable)
example : ∃ p l : Int, find 1 [.str sample, .str ['ß', '𝄞']] = .ok (.num p) ∧ length [.str ['ß', '𝄞']] = .ok (.num l) ∧
    copy 1 [.str sample, .num p, .num l] = .ok (.str ['ß', '𝄞']) :=
  copy_find 1 sample ['ß', '𝄞'] (by decide) ((containsSeq_iff_infix _ _).1 (by decide))
example : find 1 [.str sample, .str ['x']] = .ok (.num (0 : Int)) :=
  find_absent_value 1 (by decide) sample ['x'] ((findSeq_none_iff _ _).1 (by decide))

example : ∃ k, at_ 1 [.str sample, .num (7 : Int)] = .error (.indexOutOfBounds k) :=
  at_out_of_range 1 sample 7 (by decide) (Or.inr (by decide))
example : find 0 [.str sample, .str ['c']] = .ok (.num (3 : Int)) :=
  find_present 0 sample ['c'] (by decide) 3 ((findSeq_some_iff _ _ _).1 (by decide))
example : ∃ t, Stdlib.insert 0 [.str sample, .str ['é', 'è'], .num (2 : Int)] = .ok (.str t) ∧
    t = sample.take 2 ++ ['é', 'è'] ++ sample.drop 2 ∧
    copy 0 [.str t, .num (2 : Int), .num (2 : Int)] = .ok (.str ['é', 'è']) ∧
    length [.str t] = .ok (.num (6 : Int)) ∧ (6 : Int) = NumOps.add (4 : Int) (2 : Int) :=
  insert_copy 0 sample ['é', 'è'] 2 (by decide) (by decide)
example : ∃ (c p : Int) (b : Bool), count [.str sample, .str ['𝄞']] = .ok (.num c) ∧
    contains [.str sample, .str ['𝄞']] = .ok (.bool b : Value Int) ∧ find 1 [.str sample, .str ['𝄞']] = .ok (.num p) ∧
    gt0 c = b ∧ geN p (ofNat 1) = b :=
  count_contains_find 1 (by decide) sample ['𝄞'] (by decide)
example : ∃ (p : Int) (w : Value Int), find 1 [.arr [.num 7, .bool true, .num 1], .num 1] = .ok (.num p) ∧
    at_ 1 [.arr [.num 7, .bool true, .num 1], .num p] = .ok w ∧ Value.eq w (.num 1) = true :=
  at_find_arr 1 _ (by decide) _ ⟨.bool true, by simp, rfl⟩
example : reverse [.str ['c', '𝄞', 'ß', 'ä']] = .ok (.str sample : Value Int) := reverse_involutive _ _ rfl
example : length [.str ['ä', 'ß', '𝄞']] = .ok (.num (3 : Int)) :=
  length_append (.str ['ä']) (.str ['ß', '𝄞']) _ rfl
-- split_csv with a non-ASCII separator: the separator is ignored, `;` is used
example : splitCsv [.str ['a', 'ä', 'b', ';', 'c'], .str ['ä']]
    = .ok (.arr [.str ['a', 'ä', 'b'], .str ['c']] : Value Int) := rfl

end examples

end Slac.C15
