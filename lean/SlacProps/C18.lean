/-
  C18 — regex builtins are mutually consistent and fail cleanly on bad patterns.
  PARTIAL by nature: regex-lite is not modelled.  The wrappers of src/stdlib/regex.rs are modelled over an abstract
  `Engine`; every sentence of the property is proved RELATIVE to explicitly stated engine laws (`LawfulEngine`),
  except `invalid_pattern`, which needs none.  The laws are sampled as tests of the library by the `relaw` stream.
-/
import SlacModel.Regex
set_option autoImplicit false
namespace Slac.C18
open Slac.Regex
open Slac.Stdlib (Res defaultString defaultNumber)
set_option linter.unusedSectionVars false
set_option linter.unusedSimpArgs false
variable {N : Type} [NumX N] {Re : Type}

/-- what the property needs from the engine (regex-lite's documented behaviour) -/
structure LawfulEngine (E : Engine Re) : Prop where
  isMatch_iff : ∀ re h, E.isMatch re h = !(E.findIter re h).isEmpty
  captures_none : ∀ re h, E.captures re h = none ↔ E.findIter re h = []
  captures_some : ∀ re h cs, E.captures re h = some cs →
      cs.length = E.capturesLen re ∧ ∃ m ms, E.findIter re h = m :: ms ∧ cs.head? = some (some m)
  capturesLen_pos : ∀ re, 0 < E.capturesLen re

/-- `re_is_match` is true iff `re_find` returns at least one match. -/
theorem is_match_iff_find (E : Engine Re) (hE : LawfulEngine E) (h p : Str) (b : Bool) (ms : List (Value N))
    (h1 : isMatch E [.str h, .str p] = (.ok (.bool b) : Res N)) (h2 : Regex.find E [.str h, .str p] = .ok (.arr ms)) :
    (b = true ↔ ms ≠ []) := by
  simp only [isMatch, Regex.find, withRe] at h1 h2
  cases hc : E.compile p with
  | error msg => rw [hc] at h1; cases h1
  | ok re =>
    rw [hc] at h1 h2
    simp only [Except.ok.injEq, Value.bool.injEq, Value.arr.injEq] at h1 h2
    subst h1; subst h2
    rw [hE.isMatch_iff]
    cases E.findIter re h <;> simp

/-- `re_capture`: when nothing matches, a list of `captures_len` empty strings; when something matches, one entry per
    group, the first being the first match `re_find` reports. -/
theorem capture_shape (E : Engine Re) (hE : LawfulEngine E) (h p : Str) (re : Re) (hc : E.compile p = .ok re) :
    ∃ out : List (Value N), capture E [.str h, .str p] = .ok (.arr out) ∧ out.length = E.capturesLen re ∧
      ((E.findIter re h = [] ∧ out = List.replicate (E.capturesLen re) (.str [])) ∨
       (∃ m ms, E.findIter re h = m :: ms ∧ out.head? = some (.str m))) := by
  simp only [capture, withRe, hc]
  cases hcap : E.captures re h with
  | none =>
    refine ⟨_, rfl, by simp, .inl ⟨(hE.captures_none re h).mp hcap, rfl⟩⟩
  | some cs =>
    obtain ⟨hl, m, ms, hf, hh⟩ := hE.captures_some re h cs hcap
    refine ⟨_, rfl, by simp [hl], .inr ⟨m, ms, hf, ?_⟩⟩
    cases cs with
    | nil => simp at hh
    | cons c cs' => simp only [List.head?_cons, Option.some.injEq] at hh; subst hh; rfl

/-- the unmatched case and the matched case return lists of the same length -/
theorem capture_same_length (E : Engine Re) (hE : LawfulEngine E) (h h' p : Str) (re : Re) (hc : E.compile p = .ok re)
    (o o' : List (Value N)) (h1 : capture E [.str h, .str p] = .ok (.arr o)) (h2 : capture E [.str h', .str p] = .ok (.arr o')) :
    o.length = o'.length := by
  obtain ⟨x, hx, hl, _⟩ := capture_shape (N := N) E hE h p re hc
  obtain ⟨y, hy, hl', _⟩ := capture_shape (N := N) E hE h' p re hc
  rw [hx] at h1; rw [hy] at h2
  cases h1; cases h2; omega

/-- An invalid pattern yields an error value from every wrapper — no engine law needed. -/
theorem invalid_pattern (E : Engine Re) (h p : Str) (msg : Str) (hc : E.compile p = .error msg) (rest : List (Value N)) :
    isMatch E [.str h, .str p] = (.error (.custom msg) : Res N) ∧
    Regex.find E [.str h, .str p] = (.error (.custom msg) : Res N) ∧
    capture E [.str h, .str p] = (.error (.custom msg) : Res N) ∧
    (∀ r, Regex.replace E (.str h :: .str p :: rest) = (.ok r : Res N) → False) := by
  refine ⟨by simp [isMatch, withRe, hc], by simp [Regex.find, withRe, hc], by simp [capture, withRe, hc], ?_⟩
  intro r hr
  simp only [Regex.replace] at hr
  split at hr
  · cases hr
  · split at hr
    · cases hr
    · simp [withRe, hc] at hr

/-- `re_replace`: the limit argument is `usize_from_f64` of the 4th parameter (default 0 = all matches), the
    replacement defaults to the empty string; the wrapper adds nothing else to the engine's `replacen`. -/
theorem replace_is_replacen (E : Engine Re) (h p : Str) (re : Re) (hc : E.compile p = .ok re) :
    Regex.replace E [.str h, .str p] = (.ok (.str (E.replacen re h (NumX.floorUsize (NumOps.zero : N)) [])) : Res N) ∧
    (∀ rep, Regex.replace E [.str h, .str p, .str rep] = (.ok (.str (E.replacen re h (NumX.floorUsize (NumOps.zero : N)) rep)) : Res N)) ∧
    (∀ rep (n : N), Regex.replace E [.str h, .str p, .str rep, .num n] = (.ok (.str (E.replacen re h (NumX.floorUsize n) rep)) : Res N)) := by
  refine ⟨?_, ?_, ?_⟩ <;> intros <;> simp [Regex.replace, defaultString, defaultNumber, withRe, hc]

/-- engine law for replacement with plain text: splice the replacement for the first n matches (all when n = 0) -/
def ReplacenSplices (E : Engine Re) (splice : Str → List Str → Nat → Str → Str) : Prop :=
  ∀ re h n rep, E.replacen re h n rep = splice h (E.findIter re h) n rep

/-- relative to that law: with limit n only the first n of the matches `re_find` reports are rewritten, with
    limit 0 (or absent) all of them — `re_replace` is a function of `re_find`'s answer. -/
theorem replace_rewrites_found_matches (E : Engine Re) (splice : Str → List Str → Nat → Str → Str)
    (hS : ReplacenSplices E splice) (h p rep : Str) (re : Re) (hc : E.compile p = .ok re) (n : N)
    (ms : List (Value N)) (hf : Regex.find E [.str h, .str p] = .ok (.arr ms)) :
    ms = (E.findIter re h).map .str ∧
    Regex.replace E [.str h, .str p, .str rep, .num n] = (.ok (.str (splice h (E.findIter re h) (NumX.floorUsize n) rep)) : Res N) := by
  simp only [Regex.find, withRe, hc, Except.ok.injEq, Value.arr.injEq] at hf
  refine ⟨hf.symm, ?_⟩
  rw [(replace_is_replacen (N := N) E h p re hc).2.2 rep n, hS]

/-- engine law for escaped literals: the matches are the leftmost non-overlapping occurrences of the literal -/
def LiteralLaw (E : Engine Re) (escape : Str → Str) : Prop :=
  ∀ lit re h, E.compile (escape lit) = .ok re →
    (E.findIter re h).length = Seq.countOcc lit h ∧ (∀ rep, E.replacen re h 0 rep = Seq.replaceSeq lit rep h)

/-- relative to the literal law: an escaped literal behaves like `contains`, `count` and `replace` on that literal. -/
theorem literal_pattern (E : Engine Re) (hE : LawfulEngine E) (escape : Str → Str) (hL : LiteralLaw E escape)
    (hz : NumX.floorUsize (NumOps.zero : N) = 0)
    (lit h rep : Str) (re : Re) (hc : E.compile (escape lit) = .ok re) :
    isMatch E [.str h, .str (escape lit)] = (Stdlib.contains [.str h, .str lit] : Res N) ∧
    (∃ ms, Regex.find E [.str h, .str (escape lit)] = (.ok (.arr ms) : Res N) ∧ Stdlib.count [.str h, .str lit] = (.ok (.num (NumX.ofNat ms.length)) : Res N)) ∧
    Regex.replace E [.str h, .str (escape lit), .str rep] = (Stdlib.replace [.str h, .str lit, .str rep] : Res N) := by
  obtain ⟨hlen, hrep⟩ := hL lit re h hc
  refine ⟨?_, ?_, ?_⟩
  · simp only [isMatch, withRe, hc, Stdlib.contains, hE.isMatch_iff, Seq.containsSeq, ← hlen]
    cases E.findIter re h <;> simp
  · exact ⟨(E.findIter re h).map .str, by simp [Regex.find, withRe, hc], by simp [Stdlib.count, hlen]⟩
  · rw [(replace_is_replacen (N := N) E h (escape lit) re hc).2.1 rep, hz, hrep]
    simp [Stdlib.replace, defaultString]

/-- Non-vacuity: a toy engine (the pattern is a single character, anchored at the start of the haystack)
    satisfies the laws. -/
def toyEngine : Engine Char where
  compile := fun p => match p with | [c] => .ok c | _ => .error ['b','a','d']
  isMatch := fun c h => h.head? == some c
  findIter := fun c h => if h.head? == some c then [[c]] else []
  captures := fun c h => if h.head? == some c then some [some [c]] else none
  capturesLen := fun _ => 1
  replacen := fun c h _ rep => if h.head? == some c then rep ++ h.tail else h

example : LawfulEngine toyEngine where
  isMatch_iff := by intro c h; simp only [toyEngine]; split <;> simp_all
  captures_none := by intro c h; simp only [toyEngine]; split <;> simp_all
  captures_some := by
    intro c h cs hcs; simp only [toyEngine] at hcs ⊢
    split at hcs
    · cases hcs; rename_i hm; exact ⟨rfl, [c], [], by simp [hm], rfl⟩
    · cases hcs
  capturesLen_pos := by intro _; simp [toyEngine]

example : Regex.isMatch (N := Float) toyEngine [.str ['a','b'], .str ['a']] = .ok (.bool true) := rfl
example : Regex.isMatch (N := Float) toyEngine [.str ['a','b'], .str ['a','b']] = .error (.custom ['b','a','d']) := rfl

end Slac.C18
