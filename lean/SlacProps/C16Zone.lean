/-
  C16 (continued) — the four builtins of src/stdlib/time.rs that consult the HOST'S LOCAL TIME ZONE
  (`date_to_rfc3339`, `date_to_rfc2822` through `naive_to_fixed`; `date_from_rfc3339`, `date_from_rfc2822` through
  `fixed_to_naive`), with the zone as a parameter `z : Zone` of the model (SlacModel.TimeZone: what chrono 0.4.45's
  `Local` derives from the `TZ` environment variable; SlacModel.TimeRfc: `dateToRfc3339Z z`, …).
  Tie: `call` stream of the correspondence harness under `TZ='CET-1CEST,M3.5.0,M10.5.0/3'`, `TZ='EST5EDT,M3.2.0,M11.1.0'`
  and `TZ=UTC` against the driver with `SLAC_MODEL_TZ` set to the same string.

  L. `Zone.Lawful z`: the sanity conditions on a zone under which the theorems hold — offsets below 24 h and in whole
     minutes (what an RFC text can carry), and `localResult` CONFIRMED by `offsetFromUtc`: a reading with the single
     offset `off` is the instant `l − off`, and the zone's offset at that instant is `off` — EXCEPT possibly for the
     reading one second before a skipped reading; conversely the wall clock of every instant is mapped back to the
     instant's offset (alone, or as one of two inside a repeated hour).  The exception is forced by chrono: it attributes the first skipped
     second of a forward transition (02:00:00 on the last Sunday of March in Central Europe) to the old offset
     (`AlternateTime::find_local_time_type_from_local`: `local_time <= dst_start_transition_start`).
     `Zone.utc`, every fixed whole-minute zone, and the two POSIX zones of the correspondence runs are lawful (section P).
  U. The UTC builtins of SlacProps.C16Rfc are the `Zone.utc` instances.
  R. Round trips: for every lawful zone and every date-time of years 0–9999 whose local reading exists, is unambiguous
     and is not followed by a skipped second, `date_from_rfc3339 (date_to_rfc3339 x) = x` exactly (to the millisecond),
     and the RFC 2822 analogue at whole seconds.  At the excepted second the round trip FAILS in chrono and in the model
     (example `seam_roundtrip_fails`).
  E. `date_to_rfc3339/2822` answer the error value `CustomError("invalid datetime value")` exactly on readings that do
     not exist (gap) or exist twice (overlap); otherwise the text is the local fields followed by the offset of the
     reading, which is the zone's offset at that instant.  In the other direction (`dateToRfc3339Z_of_instant`): the
     wall clock of an instant is printed with that instant's offset or refused as ambiguous, nothing else.
  T. Totality: in a lawful zone each of the four builtins answers a value or an error value for every argument list;
     the model is silent (`none`: chrono panics in `Local::offset_from_utc_datetime(..).unwrap()`) exactly when the
     zone's offset at the parsed instant is 24 h or more — reachable with `TZ='AAA-23:30BBB,M3.5.0,M10.5.0'`.
-/
import SlacProps.C16Rfc
import SlacProofs.TimeZoneRound
import SlacProofs.TimeZoneNorth
set_option autoImplicit false
set_option linter.unusedSimpArgs false
set_option linter.unusedVariables false
namespace Slac.C16
open Slac.Time Slac.TimeRfc Slac.Stdlib

/-! ## L. Lawful zones -/

/-- the sanity conditions on a local zone -/
structure _root_.Slac.Time.Zone.Lawful (z : Zone) : Prop where
  /-- offsets from the UTC side are below 24 h (`FixedOffset::east_opt` succeeds) … -/
  utcBound : ∀ u, -86400 < z.offsetFromUtc u ∧ z.offsetFromUtc u < 86400
  /-- … and so are the offsets of unambiguous local readings -/
  localBound : ∀ l off, z.localResult l = .single off → -86400 < off ∧ off < 86400
  /-- offsets are whole minutes: the RFC texts print `±hh:mm`, chrono ROUNDS seconds away -/
  localMinutes : ∀ l off, z.localResult l = .single off → off % 60 = 0
  /-- an unambiguous local reading `l` with offset `off` is the instant `l − off`, and the zone's offset at that instant is
      `off` — unless the next second is a skipped reading -/
  confirmed : ∀ l off, z.localResult l = .single off → z.localResult (l + 1) ≠ .none → z.offsetFromUtc (l - off) = off
  /-- conversely the wall-clock reading `u + offset` of an instant `u` is mapped back to that offset: as the single
      candidate, or as one of the two candidates of a repeated reading — never to `none`, never to another offset -/
  complete : ∀ u, (z.localResult (u + z.offsetFromUtc u)).mentions (z.offsetFromUtc u)

/-- a zone without transitions -/
theorem Zone.fixed_lawful (off : Int) (h1 : -86400 < off) (h2 : off < 86400) (hm : off % 60 = 0) : (Zone.fixed off).Lawful := by
  refine ⟨fun _ => ⟨h1, h2⟩, ?_, ?_, ?_, fun _ => rfl⟩
  · intro l o h; simp only [Zone.fixed, LocalResult.single.injEq] at h; subst h; exact ⟨h1, h2⟩
  · intro l o h; simp only [Zone.fixed, LocalResult.single.injEq] at h; subst h; exact hm
  · intro l o h _; simp only [Zone.fixed, LocalResult.single.injEq] at h; subst h; rfl

theorem Zone.utc_lawful : Zone.utc.Lawful := Zone.fixed_lawful 0 (by decide) (by decide) (by decide)

example : (Zone.fixed 19800).Lawful := Zone.fixed_lawful _ (by decide) (by decide) (by decide)      -- +05:30

/-! ## U. the UTC builtins are the `Zone.utc` instances -/

theorem fmtOffset_zero : fmtOffset true 0 = ['+', '0', '0', ':', '0', '0'] ∧ fmtOffset false 0 = ['+', '0', '0', '0', '0'] := by
  decide

theorem rfc3339At_zero (t : DT) : rfc3339At 0 t = rfc3339 t := by simp only [rfc3339At, rfc3339, fmtOffset_zero.1]
theorem rfc2822At_zero (t : DT) : rfc2822At 0 t = rfc2822 t := by
  simp only [rfc2822At, rfc2822, fmtOffset_zero.2, List.cons_append, List.nil_append]

/-- what `subOffset` returns is a `NaiveDateTime`: date in chrono's range, second of the day below 86400 -/
theorem subOffset_range {t u : NDT} {off : Int} (h : subOffset t off = some u) :
    yearInRange u.days = true ∧ u.time.secs < 86400 := by
  unfold subOffset at h
  simp only at h
  split at h
  · rename_i hy
    cases h
    refine ⟨hy, ?_⟩
    show (((t.time.secs : Int) - off) % 86400).toNat < 86400
    omega
  · cases h

theorem subOffset_zero' {u : NDT} (h1 : yearInRange u.days = true) (h2 : u.time.secs < 86400) : subOffset u 0 = some u := by
  obtain ⟨d, ⟨s, n⟩⟩ := u
  exact subOffset_zero d s n h2 h1

theorem rfc3339Tail_range {date : Int} {h mi sec : Nat} {tail : Str} {u : NDT} (hu : rfc3339Tail date h mi sec tail = .ok u) :
    yearInRange u.days = true ∧ u.time.secs < 86400 := by
  unfold rfc3339Tail at hu
  simp only [bind, Except.bind] at hu
  split at hu
  · cases hu
  · split at hu
    · cases hu
    · split at hu
      · cases hu
      · split at hu
        · cases hu
        · split at hu
          · cases hu
          · split at hu
            · rename_i hs; cases hu; exact subOffset_range hs
            · cases hu

theorem rfc3339Utc_range {s : Str} {u : NDT} (hu : rfc3339Utc s = .ok u) : yearInRange u.days = true ∧ u.time.secs < 86400 := by
  unfold rfc3339Utc at hu
  split at hu
  · cases hu
  · simp only [bind, Except.bind] at hu
    repeat (split at hu; · cases hu)
    exact rfc3339Tail_range hu

theorem toDatetimeUtc_range {p : Parsed} {u : NDT} (hu : p.toDatetimeUtc = .ok u) : yearInRange u.days = true ∧ u.time.secs < 86400 := by
  unfold Parsed.toDatetimeUtc at hu
  split at hu
  · cases hu
  · split at hu
    · cases hu
    · split at hu
      · cases hu
      · split at hu
        · cases hu
        · rename_i hs; cases hu; exact subOffset_range hs

theorem rfc2822Utc_range {s : Str} {u : NDT} (hu : rfc2822Utc s = .ok u) : yearInRange u.days = true ∧ u.time.secs < 86400 := by
  unfold rfc2822Utc at hu
  split at hu
  · cases hu
  · exact toDatetimeUtc_range hu
  · cases hu

section
variable {N : Type} [NumX N]

theorem finishZ_utc (r : PRes NDT) (hr : ∀ u, r = .ok u → yearInRange u.days = true ∧ u.time.secs < 86400) :
    (finishZ Zone.utc r : Option (Res N)) = some (Time.finish (r.map fun u => (fixedToNaive u).millis)) := by
  cases r with
  | error e => rfl
  | ok u =>
    obtain ⟨h1, h2⟩ := hr u rfl
    have hv : validOffset 0 = true := by decide
    simp [finishZ, fixedToNaiveZ, Zone.utc, Zone.fixed, hv, subOffset_zero' h1 h2, Time.finish, Except.map, fixedToNaive]

/-- `date_from_rfc3339` of C16Rfc is the `Zone.utc` instance, on every argument list -/
theorem dateFromRfc3339Z_utc (ps : List (Value N)) : dateFromRfc3339Z Zone.utc ps = dateFromRfc3339 ps := by
  unfold dateFromRfc3339Z dateFromRfc3339
  split
  · rename_i s; exact finishZ_utc _ (fun u h => rfc3339Utc_range h)
  · rfl
  · rfl

theorem dateFromRfc2822Z_utc (ps : List (Value N)) : dateFromRfc2822Z Zone.utc ps = dateFromRfc2822 ps := by
  unfold dateFromRfc2822Z dateFromRfc2822
  split
  · rename_i s; exact finishZ_utc _ (fun u h => rfc2822Utc_range h)
  · rfl
  · rfl

/-- a decoded date-time number is a `NaiveDateTime` -/
theorem decode_range {v : Value N} {t : DT} (h : decode v = .ok t) : yearInRange t.days = true ∧ t.ms < 86400000 := by
  unfold decode at h
  split at h
  · split at h
    · rename_i hm; cases h
      obtain ⟨_, h2, h3, h4⟩ := ofMillis_some hm
      exact ⟨by simp [yearInRange, h3, h4], h2⟩
    · cases h
  · cases h

theorem naiveToFixed_utc {t : DT} (h1 : yearInRange t.days = true) (h2 : t.ms < 86400000) : naiveToFixed Zone.utc t = some 0 := by
  have hv : validOffset 0 = true := by decide
  have hs : subOffset (toNDT t) 0 = some (toNDT t) := subOffset_zero' h1 (by simp only [toNDT]; omega)
  simp [naiveToFixed, Zone.utc, Zone.fixed, hv, hs]

/-- `date_to_rfc3339` of C16Rfc is the `Zone.utc` instance, on every argument list -/
theorem dateToRfc3339Z_utc (ps : List (Value N)) : dateToRfc3339Z Zone.utc ps = dateToRfc3339 ps := by
  unfold dateToRfc3339Z dateToRfc3339
  split
  · rename_i v
    cases hd : decode v with
    | error e => rfl
    | ok t =>
      obtain ⟨h1, h2⟩ := decode_range hd
      simp only [naiveToFixed_utc h1 h2, rfc3339At_zero]
  · rfl

theorem dateToRfc2822Z_utc (ps : List (Value N)) : dateToRfc2822Z Zone.utc ps = dateToRfc2822 ps := by
  unfold dateToRfc2822Z dateToRfc2822
  split
  · rename_i v
    cases hd : decode v with
    | error e => rfl
    | ok t =>
      obtain ⟨h1, h2⟩ := decode_range hd
      simp only [naiveToFixed_utc h1 h2, rfc2822At_zero]
  · rfl

end

/-! ## R. Round trips in a lawful zone -/

theorem Rfc.days_range {t : DT} (h : Rfc t) : -719528 ≤ t.days ∧ t.days ≤ 2932896 := by
  obtain ⟨hval, hdays, _⟩ := dt_date t h.y0 h.y1
  have hr := days_range0 t.year t.month t.day ((validDate_iff _ _ _).1 hval).2 h.y0 h.y1
  rwa [hdays] at hr

theorem shiftNDT_timestamp (x : NDT) (off : Int) : (shiftNDT x off).timestamp = x.timestamp - off := by
  simp only [shiftNDT, NDT.timestamp]
  have : ((((x.time.secs : Int) - off) % 86400).toNat : Int) = ((x.time.secs : Int) - off) % 86400 := by omega
  rw [this]; omega

theorem toNDT_timestamp (t : DT) : (toNDT t).timestamp = t.timestamp := rfl

theorem toNDT_millis (t : DT) : (toNDT t).millis = t.totalMs := by
  simp only [toNDT, NDT.millis, NDT.timestamp, DT.totalMs, DT.milli, msPerDay]; omega

/-- the local reading of `t` in `z` is the single offset `off` (what `naive_to_fixed` returns) -/
theorem naiveToFixed_some {z : Zone} {t : DT} {off : Int} (h : naiveToFixed z t = some off) :
    z.localResult t.timestamp = .single off := by
  unfold naiveToFixed at h
  split at h
  · rename_i o ho
    split at h
    · cases h; exact ho
    · cases h
  · cases h

theorem naiveToFixed_single {z : Zone} (hz : z.Lawful) {t : DT} (h : Rfc t) {off : Int}
    (hl : z.localResult t.timestamp = .single off) : naiveToFixed z t = some off := by
  obtain ⟨b1, b2⟩ := hz.localBound _ _ hl
  obtain ⟨d1, d2⟩ := h.days_range
  have hms := h.ms
  have hv : validOffset off = true := by simp [validOffset]; omega
  have hs := subOffset_shift (toNDT t) off (yearInRange_near _ (by simp only [shiftNDT, toNDT]; omega) (by simp only [shiftNDT, toNDT]; omega))
  simp [naiveToFixed, hl, hv, hs]

theorem naiveToFixed_none {z : Zone} {t : DT} (hl : ∀ off, z.localResult t.timestamp ≠ .single off) : naiveToFixed z t = none := by
  unfold naiveToFixed
  split
  · rename_i o ho; exact absurd ho (hl o)
  · rfl

section
variable {N : Type} [NumX N]

/-- the heart of both round trips: a UTC date-time obtained by shifting a local one (`x`, with the date and second of
    `t`) by `−off` comes back as `x` when the zone confirms `off` at that instant -/
theorem finishZ_shift {z : Zone} (hz : z.Lawful) {t : DT} (h : Rfc t) {off : Int}
    (hl : z.localResult t.timestamp = .single off) (hn : z.localResult (t.timestamp + 1) ≠ .none)
    (x : NDT) (hx1 : x.days = t.days) (hx2 : x.time.secs = t.ms / 1000) :
    (finishZ z (.ok (shiftNDT x off)) : Option (Res N)) = some (.ok (encodeMs x.millis)) := by
  obtain ⟨b1, b2⟩ := hz.localBound _ _ hl
  obtain ⟨d1, d2⟩ := h.days_range
  have hms := h.ms
  have hts : (shiftNDT x off).timestamp = t.timestamp - off := by
    rw [shiftNDT_timestamp]; simp only [NDT.timestamp, DT.timestamp, hx1, hx2]
  have hoff : z.offsetFromUtc (shiftNDT x off).timestamp = off := by rw [hts]; exact hz.confirmed _ _ hl hn
  have hv : validOffset off = true := by simp [validOffset]; omega
  have hs := subOffset_shift (shiftNDT x off) (-off)
    (yearInRange_near _ (by simp only [shiftNDT, hx1, hx2]; omega) (by simp only [shiftNDT, hx1, hx2]; omega))
  have hm : (shiftNDT (shiftNDT x off) (-off)).millis = x.millis := by rw [shiftNDT_millis, shiftNDT_millis]; omega
  simp only [finishZ, fixedToNaiveZ, hoff, hv, if_true, hs, hm]

/-- `date_from_rfc3339 (to_rfc3339 t) = t` in the zone `z`, no hypothesis about numbers -/
theorem dateFromRfc3339Z_rfc3339At {z : Zone} (hz : z.Lawful) (t : DT) (h : Rfc t) (off : Int)
    (hl : z.localResult t.timestamp = .single off) (hn : z.localResult (t.timestamp + 1) ≠ .none) :
    dateFromRfc3339Z z [(.str (rfc3339At off t) : Value N)] = some (.ok (encode t)) := by
  obtain ⟨b1, b2⟩ := hz.localBound _ _ hl
  rw [dateFromRfc3339Z, rfc3339Utc_rfc3339At off t h.ms h.y0 h.y1 b1 b2 (hz.localMinutes _ _ hl),
    finishZ_shift hz h hl hn (toNDT t) rfl rfl, toNDT_millis]
  rfl

/-- `date_from_rfc2822 (to_rfc2822 t)` in the zone `z` is `t` truncated to the whole second -/
theorem dateFromRfc2822Z_rfc2822At {z : Zone} (hz : z.Lawful) (t : DT) (h : Rfc t) (off : Int)
    (hl : z.localResult t.timestamp = .single off) (hn : z.localResult (t.timestamp + 1) ≠ .none) :
    dateFromRfc2822Z z [(.str (rfc2822At off t) : Value N)] = some (.ok (encode ⟨t.days, t.ms / 1000 * 1000⟩)) := by
  obtain ⟨b1, b2⟩ := hz.localBound _ _ hl
  have e : (⟨t.days, ⟨t.ms / 1000, 0⟩⟩ : NDT).millis = (⟨t.days, t.ms / 1000 * 1000⟩ : DT).totalMs := by
    simp only [NDT.millis, NDT.timestamp, DT.totalMs, msPerDay]; omega
  rw [dateFromRfc2822Z, rfc2822Utc_rfc2822At off t h.ms h.y0 h.y1 b1 b2 (hz.localMinutes _ _ hl),
    finishZ_shift hz h hl hn ⟨t.days, ⟨t.ms / 1000, 0⟩⟩ rfl rfl, e]
  rfl

end

section
variable {N : Type} [NumX N] [LawfulTimeNum N]

/-- through numbers: what `date_to_rfc3339` answers for the date-time number of `t` -/
theorem dateToRfc3339Z_encode (z : Zone) (t : DT) (h : t.Enc) :
    dateToRfc3339Z z [(encode t : Value N)] =
      match naiveToFixed z t with
      | none => .error (custom "invalid datetime value")
      | some off => .ok (.str (rfc3339At off t)) := by
  simp only [dateToRfc3339Z, Time.decode_encode t h]
  cases naiveToFixed z t <;> rfl

theorem dateToRfc2822Z_encode (z : Zone) (t : DT) (h : t.Enc) (hy : 0 ≤ t.year ∧ t.year ≤ 9999) :
    dateToRfc2822Z z [(encode t : Value N)] =
      match naiveToFixed z t with
      | none => .error (custom "invalid datetime value")
      | some off => .ok (.str (rfc2822At off t)) := by
  simp only [dateToRfc2822Z, Time.decode_encode t h, hy, and_self, if_true]
  cases naiveToFixed z t <;> rfl

/-- ROUND TRIP, RFC 3339, in every lawful zone: for every date-time number `x = encode t` exact to the millisecond in
    years 0–9999 for which `date_to_rfc3339` answers a text (the local reading exists and is unambiguous) and whose
    next second is not a skipped reading, `date_from_rfc3339 (date_to_rfc3339 x) = x` -/
theorem rfc3339_roundtrip_zone {z : Zone} (hz : z.Lawful) (t : DT) (h : Rfc t)
    (hn : z.localResult (t.timestamp + 1) ≠ .none) (txt : Str)
    (hp : dateToRfc3339Z z [(encode t : Value N)] = .ok (.str txt)) :
    dateFromRfc3339Z z [(.str txt : Value N)] = some (.ok (encode t)) := by
  rw [dateToRfc3339Z_encode z t h.enc] at hp
  split at hp
  · cases hp
  · rename_i off ho
    cases hp
    exact dateFromRfc3339Z_rfc3339At hz t h off (naiveToFixed_some ho) hn

/-- ROUND TRIP, RFC 2822, at whole seconds -/
theorem rfc2822_roundtrip_zone {z : Zone} (hz : z.Lawful) (t : DT) (h : Rfc t) (hs : t.ms % 1000 = 0)
    (hn : z.localResult (t.timestamp + 1) ≠ .none) (txt : Str)
    (hp : dateToRfc2822Z z [(encode t : Value N)] = .ok (.str txt)) :
    dateFromRfc2822Z z [(.str txt : Value N)] = some (.ok (encode t)) := by
  rw [dateToRfc2822Z_encode z t h.enc ⟨h.y0, h.y1⟩] at hp
  split at hp
  · cases hp
  · rename_i off ho
    cases hp
    rw [dateFromRfc2822Z_rfc2822At hz t h off (naiveToFixed_some ho) hn]
    have : t.ms / 1000 * 1000 = t.ms := by omega
    rw [this]

/-- … and in general the millisecond of the second is dropped (truncation) -/
theorem rfc2822_roundtrip_zone_truncates {z : Zone} (hz : z.Lawful) (t : DT) (h : Rfc t)
    (hn : z.localResult (t.timestamp + 1) ≠ .none) (txt : Str)
    (hp : dateToRfc2822Z z [(encode t : Value N)] = .ok (.str txt)) :
    dateFromRfc2822Z z [(.str txt : Value N)] = some (.ok (encode ⟨t.days, t.ms / 1000 * 1000⟩)) := by
  rw [dateToRfc2822Z_encode z t h.enc ⟨h.y0, h.y1⟩] at hp
  split at hp
  · cases hp
  · rename_i off ho
    cases hp
    exact dateFromRfc2822Z_rfc2822At hz t h off (naiveToFixed_some ho) hn

/-! ## E. errors exactly on gaps and overlaps; the printed offset -/

/-- what `date_to_rfc3339` answers in a lawful zone, by the kind of the local reading: the text with the reading's
    offset when there is exactly one, the error value otherwise -/
theorem dateToRfc3339Z_cases {z : Zone} (hz : z.Lawful) (t : DT) (h : Rfc t) :
    dateToRfc3339Z z [(encode t : Value N)] =
      match z.localResult t.timestamp with
      | .single off => .ok (.str (rfc3339At off t))
      | _ => .error (custom "invalid datetime value") := by
  rw [dateToRfc3339Z_encode z t h.enc]
  cases hl : z.localResult t.timestamp with
  | single off => simp only [naiveToFixed_single hz h hl]
  | none => simp only [naiveToFixed_none (fun o => by rw [hl]; exact fun e => by cases e)]
  | ambiguous a b => simp only [naiveToFixed_none (fun o => by rw [hl]; exact fun e => by cases e)]

theorem dateToRfc2822Z_cases {z : Zone} (hz : z.Lawful) (t : DT) (h : Rfc t) :
    dateToRfc2822Z z [(encode t : Value N)] =
      match z.localResult t.timestamp with
      | .single off => .ok (.str (rfc2822At off t))
      | _ => .error (custom "invalid datetime value") := by
  rw [dateToRfc2822Z_encode z t h.enc ⟨h.y0, h.y1⟩]
  cases hl : z.localResult t.timestamp with
  | single off => simp only [naiveToFixed_single hz h hl]
  | none => simp only [naiveToFixed_none (fun o => by rw [hl]; exact fun e => by cases e)]
  | ambiguous a b => simp only [naiveToFixed_none (fun o => by rw [hl]; exact fun e => by cases e)]

/-- `date_to_rfc3339` is an error EXACTLY when the local reading does not exist (gap) or exists twice (overlap) -/
theorem dateToRfc3339Z_error_iff {z : Zone} (hz : z.Lawful) (t : DT) (h : Rfc t) :
    (∃ e, dateToRfc3339Z z [(encode t : Value N)] = .error e) ↔
      (z.localResult t.timestamp = .none ∨ ∃ a b, z.localResult t.timestamp = .ambiguous a b) := by
  rw [dateToRfc3339Z_cases hz t h]
  cases hl : z.localResult t.timestamp with
  | single off => simp
  | none => simp
  | ambiguous a b => simp

theorem dateToRfc2822Z_error_iff {z : Zone} (hz : z.Lawful) (t : DT) (h : Rfc t) :
    (∃ e, dateToRfc2822Z z [(encode t : Value N)] = .error e) ↔
      (z.localResult t.timestamp = .none ∨ ∃ a b, z.localResult t.timestamp = .ambiguous a b) := by
  rw [dateToRfc2822Z_cases hz t h]
  cases hl : z.localResult t.timestamp with
  | single off => simp
  | none => simp
  | ambiguous a b => simp

/-- the error is `CustomError("invalid datetime value")`, nothing else -/
theorem dateToRfc3339Z_error_value {z : Zone} (hz : z.Lawful) (t : DT) (h : Rfc t) (e : NativeError)
    (he : dateToRfc3339Z z [(encode t : Value N)] = .error e) : e = custom "invalid datetime value" := by
  rw [dateToRfc3339Z_cases hz t h] at he
  split at he
  · cases he
  · cases he; rfl

/-- THE PRINTED OFFSET IS THE ZONE'S OFFSET AT THAT INSTANT: when `date_to_rfc3339` answers a text, the text is the local
    fields of `t` followed by `±hh:mm` of an offset `off`; `t` read at `off` is the instant `t.timestamp − off`, and the
    zone's offset at that instant (the UTC-side lookup that `date_from_*` uses) is `off` -/
theorem dateToRfc3339Z_offset {z : Zone} (hz : z.Lawful) (t : DT) (h : Rfc t) (hn : z.localResult (t.timestamp + 1) ≠ .none)
    (txt : Str) (hp : dateToRfc3339Z z [(encode t : Value N)] = .ok (.str txt)) :
    ∃ off, txt = rfc3339At off t ∧ z.localResult t.timestamp = .single off ∧ z.offsetFromUtc (t.timestamp - off) = off := by
  rw [dateToRfc3339Z_cases hz t h] at hp
  split at hp
  · rename_i off hl
    cases hp
    exact ⟨off, rfl, hl, hz.confirmed _ _ hl hn⟩
  · cases hp

theorem dateToRfc2822Z_offset {z : Zone} (hz : z.Lawful) (t : DT) (h : Rfc t) (hn : z.localResult (t.timestamp + 1) ≠ .none)
    (txt : Str) (hp : dateToRfc2822Z z [(encode t : Value N)] = .ok (.str txt)) :
    ∃ off, txt = rfc2822At off t ∧ z.localResult t.timestamp = .single off ∧ z.offsetFromUtc (t.timestamp - off) = off := by
  rw [dateToRfc2822Z_cases hz t h] at hp
  split at hp
  · rename_i off hl
    cases hp
    exact ⟨off, rfl, hl, hz.confirmed _ _ hl hn⟩
  · cases hp

/-- THE OTHER DIRECTION: let `t` be the wall-clock reading of an instant `u` in the zone (what `date_from_rfc3339/2822`
    return for a text denoting `u`).  Then `date_to_rfc3339 t` prints `t` with the zone's offset at `u` — the SAME
    instant — or refuses `t` as a repeated reading one of whose two offsets is that offset.  It never prints another
    offset and never claims that the reading does not exist. -/
theorem dateToRfc3339Z_of_instant {z : Zone} (hz : z.Lawful) (t : DT) (h : Rfc t) (u : Int)
    (hu : t.timestamp = u + z.offsetFromUtc u) :
    dateToRfc3339Z z [(encode t : Value N)] = .ok (.str (rfc3339At (z.offsetFromUtc u) t)) ∨
    (dateToRfc3339Z z [(encode t : Value N)] = .error (custom "invalid datetime value") ∧
      ∃ a b, z.localResult t.timestamp = .ambiguous a b ∧ (a = z.offsetFromUtc u ∨ b = z.offsetFromUtc u)) := by
  have hc := hz.complete u
  rw [← hu] at hc
  rw [dateToRfc3339Z_cases hz t h]
  cases hl : z.localResult t.timestamp with
  | none => rw [hl] at hc; exact hc.elim
  | single o => rw [hl] at hc; left; simp only [LocalResult.mentions] at hc; rw [hc]
  | ambiguous a b => rw [hl] at hc; right; exact ⟨rfl, a, b, rfl, hc⟩

end

/-- the offset is the LAST part of the texts, after the local fields which do not depend on it -/
theorem rfc3339At_suffix (t : DT) : ∃ body : Str, ∀ off, rfc3339At off t = body ++ fmtOffset true off :=
  ⟨year3339 t.year ++ '-' :: two t.month ++ '-' :: two t.day ++ 'T' :: TimeRfc.hms t ++ autoSi t.milli, fun off => by
    simp only [rfc3339At, List.append_assoc, List.cons_append]⟩
theorem rfc2822At_suffix (t : DT) : ∃ body : Str, ∀ off, rfc2822At off t = body ++ fmtOffset false off :=
  ⟨weekdayName (weekday t.days) ++ ',' :: ' ' :: Nat.toDigits 10 t.day ++ ' ' :: monthName t.month ++ ' ' ::
    Time.pad 4 t.year.toNat ++ ' ' :: TimeRfc.hms t ++ [' '], fun off => by
    simp only [rfc2822At, List.append_assoc, List.cons_append, List.nil_append]⟩

/-! ## T. Totality -/
section
variable {N : Type} [NumX N]

theorem finishZ_total {z : Zone} (hz : z.Lawful) (r : PRes NDT) : ∃ res : Res N, finishZ z r = some res := by
  cases r with
  | error e => exact ⟨_, rfl⟩
  | ok u =>
    obtain ⟨b1, b2⟩ := hz.utcBound u.timestamp
    have hv : validOffset (z.offsetFromUtc u.timestamp) = true := by simp [validOffset]; omega
    cases hs : subOffset u (-(z.offsetFromUtc u.timestamp)) with
    | none => exact ⟨.error (custom "datetime out of range"), by simp only [finishZ, fixedToNaiveZ, hv, if_true, hs]⟩
    | some l => exact ⟨.ok (encodeMs l.millis), by simp only [finishZ, fixedToNaiveZ, hv, if_true, hs]⟩

/-- in a lawful zone `date_from_rfc3339` / `date_from_rfc2822` answer a value or an error value for EVERY argument list -/
theorem dateFromRfc3339Z_total {z : Zone} (hz : z.Lawful) (ps : List (Value N)) : ∃ r : Res N, dateFromRfc3339Z z ps = some r := by
  unfold dateFromRfc3339Z; split
  · exact finishZ_total hz _
  · exact ⟨_, rfl⟩
  · exact ⟨_, rfl⟩
theorem dateFromRfc2822Z_total {z : Zone} (hz : z.Lawful) (ps : List (Value N)) : ∃ r : Res N, dateFromRfc2822Z z ps = some r := by
  unfold dateFromRfc2822Z; split
  · exact finishZ_total hz _
  · exact ⟨_, rfl⟩
  · exact ⟨_, rfl⟩

/-- all four local-zone builtins: no panic outcome in a lawful zone (`date_to_*` are total in ANY zone: a failing
    `FixedOffset::east_opt` on that side is `MappedLocalTime::None`, the error value) -/
theorem zoned_total {z : Zone} (hz : z.Lawful) (name : String) (f : List (Value N) → Option (Res N))
    (hf : zoned z name = some f) (ps : List (Value N)) : ∃ r : Res N, f ps = some r := by
  unfold zoned at hf
  split at hf
  · cases hf; exact ⟨_, rfl⟩
  · cases hf; exact ⟨_, rfl⟩
  · cases hf; exact dateFromRfc3339Z_total hz ps
  · cases hf; exact dateFromRfc2822Z_total hz ps
  · cases hf

/-- where the model is silent, for ANY zone: exactly when the text parses to a UTC date-time at which the zone's offset
    is 24 h or more (chrono: `FixedOffset::east_opt` fails, `Local::offset_from_utc_datetime` unwraps `None` and panics) -/
theorem dateFromRfc3339Z_none_iff (z : Zone) (ps : List (Value N)) :
    dateFromRfc3339Z z ps = none ↔
      ∃ s u, ps = [.str s] ∧ rfc3339Utc s = .ok u ∧ validOffset (z.offsetFromUtc u.timestamp) = false := by
  unfold dateFromRfc3339Z
  constructor
  · intro h
    split at h
    · rename_i s
      cases hu : rfc3339Utc s with
      | error e => rw [hu] at h; cases h
      | ok u =>
        rw [hu] at h
        refine ⟨s, u, rfl, hu, ?_⟩
        simp only [finishZ, fixedToNaiveZ] at h
        by_cases hv : validOffset (z.offsetFromUtc u.timestamp) = true
        · rw [if_pos hv] at h
          cases hs : subOffset u (-(z.offsetFromUtc u.timestamp)) with
          | none => rw [hs] at h; cases h
          | some l => rw [hs] at h; cases h
        · simpa using hv
    · cases h
    · cases h
  · rintro ⟨s, u, rfl, hu, hv⟩
    simp [hu, finishZ, fixedToNaiveZ, hv]

end

/-! ## P. the POSIX-rule zones

  chrono's own calendar helpers are correct for every year and instant (SlacProofs.TimeZonePosix:
  `daysSinceUnixEpoch_eq`, `utcYear_eq`), and EVERY northern-hemisphere `Mm.w.d` rule — standard time in winter, daylight
  time from a day of a month ≥ February to a day of a later month ≤ November, transition times within 0–24 h,
  `std < dst`, whole-minute offsets below 24 h (`Posix.Alt.northern`, a decidable check of the rule's numbers) — is a
  lawful zone, for all years, without any enumeration (SlacProofs.TimeZoneNorth: `Posix.Alt.northern_confirmed`,
  `Posix.Alt.northern_complete`).
  NOT proved: lawfulness of southern-hemisphere rules (`start` month after `end` month), reverse-DST rules
  (`dst < std`) and `Jn`/`n` rules; they are modelled and compared with the crate, not covered by `Lawful`. -/

theorem Zone.northern_lawful (a : Posix.Alt) (h : a.northern = true) : (Posix.Rule.alt a).zone.Lawful := by
  obtain ⟨o1, o2, o3, m1, m2⟩ := a.northern_offsets h
  refine ⟨?_, ?_, ?_, ?_, fun u => a.northern_complete h u⟩
  · intro u
    show -86400 < a.offsetFromUtc u ∧ a.offsetFromUtc u < 86400
    rcases a.offsetFromUtc_mem u with e | e <;> rw [e] <;> omega
  · intro l off hl
    rcases a.localResult_single_mem l off hl with e | e <;> rw [e] <;> omega
  · intro l off hl
    rcases a.localResult_single_mem l off hl with e | e <;> rw [e] <;> assumption
  · intro l off hl hn
    exact a.northern_confirmed h l off hl hn

/-- `TZ='CET-1CEST,M3.5.0,M10.5.0/3'` and `TZ='EST5EDT,M3.2.0,M11.1.0'` are lawful zones: all years, all readings -/
theorem Zone.cet_lawful : Zone.cet.Lawful := Zone.northern_lawful _ cet_northern
theorem Zone.est_lawful : Zone.est.Lawful := Zone.northern_lawful _ est_northern

/-- what the rule strings denote (the parser of SlacModel.TimeZone) -/
example : Zone.ofPosix Zone.cetText = some Zone.cet := by
  have : Zone.ruleOfTz Zone.cetText = some (.alt Zone.cetAlt) := by decide
  simp only [Zone.ofPosix, this]; rfl
example : Zone.ofPosix Zone.estText = some Zone.est := by
  have : Zone.ruleOfTz Zone.estText = some (.alt Zone.estAlt) := by decide
  simp only [Zone.ofPosix, this]; rfl
/-- other members of the class: Western Europe, US Pacific -/
example : (⟨0, 3600, .monthWeekday 3 5 0, 3600, .monthWeekday 10 5 0, 7200⟩ : Posix.Alt).northern = true := by decide
example : Zone.ruleOfTz "PST8PDT,M3.2.0,M11.1.0".toList = some (.alt ⟨-28800, -25200, .monthWeekday 3 2 0, 7200, .monthWeekday 11 1 0, 7200⟩) ∧
    (⟨-28800, -25200, .monthWeekday 3 2 0, 7200, .monthWeekday 11 1 0, 7200⟩ : Posix.Alt).northern = true := by decide +kernel
/-- not members: New Zealand (southern), Ireland (winter time is the "daylight" type) -/
example : (⟨43200, 46800, .monthWeekday 9 5 0, 7200, .monthWeekday 4 1 0, 10800⟩ : Posix.Alt).northern = false := by decide
example : (⟨3600, 0, .monthWeekday 10 5 0, 7200, .monthWeekday 3 5 0, 3600⟩ : Posix.Alt).northern = false := by decide

/-! ### non-vacuity: gaps, overlaps, ordinary readings, the seam -/

/-- the date-time `y-m-d h:mi:s.ml` -/
def dtOf (y : Int) (m d h mi s ml : Nat) : DT := ⟨daysFromCivil y m d, ((h * 60 + mi) * 60 + s) * 1000 + ml⟩

/-- 2021-03-28 02:15 does not exist in Central Europe, 2021-10-31 02:15 exists twice, 2021-07-01 12:00 is +02:00 -/
example : Zone.cet.localResult (dtOf 2021 3 28 2 15 0 0).timestamp = .none := by decide +kernel
example : Zone.cet.localResult (dtOf 2021 10 31 2 15 0 0).timestamp = .ambiguous 3600 7200 := by decide +kernel
example : Zone.cet.localResult (dtOf 2021 7 1 12 0 0 0).timestamp = .single 7200 ∧
    Zone.cet.localResult ((dtOf 2021 7 1 12 0 0 0).timestamp + 1) ≠ .none := by decide +kernel
example : Zone.est.localResult (dtOf 2021 3 14 2 30 0 0).timestamp = .none ∧
    Zone.est.localResult (dtOf 2021 11 7 1 30 0 0).timestamp = .ambiguous (-18000) (-14400) := by decide +kernel
example : Rfc (dtOf 2021 3 28 2 15 0 0) ∧ Rfc (dtOf 2021 10 31 2 15 0 0) ∧ Rfc (dtOf 2021 7 1 12 0 0 1) := by
  refine ⟨⟨?_, ?_, ?_⟩, ⟨?_, ?_, ?_⟩, ⟨?_, ?_, ?_⟩⟩ <;> decide +kernel

/-- instances of the theorems in the rational model of the number class: the gap is an error, the overlap is an error,
    the summer reading round-trips to the millisecond -/
example : ∃ e, @dateToRfc3339Z ℚ Toy.numX Zone.cet [@encode ℚ Toy.numX (dtOf 2021 3 28 2 15 0 0)] = .error e :=
  (@dateToRfc3339Z_error_iff ℚ Toy.numX Toy.lawful _ Zone.cet_lawful _ ⟨by decide +kernel, by decide +kernel, by decide +kernel⟩).2
    (Or.inl (by decide +kernel))
example : ∃ e, @dateToRfc2822Z ℚ Toy.numX Zone.cet [@encode ℚ Toy.numX (dtOf 2021 10 31 2 15 0 0)] = .error e :=
  (@dateToRfc2822Z_error_iff ℚ Toy.numX Toy.lawful _ Zone.cet_lawful _ ⟨by decide +kernel, by decide +kernel, by decide +kernel⟩).2
    (Or.inr ⟨3600, 7200, by decide +kernel⟩)
example : @dateFromRfc3339Z ℚ Toy.numX Zone.cet [.str (rfc3339At 7200 (dtOf 2021 7 1 12 0 0 1))] =
    some (.ok (@encode ℚ Toy.numX (dtOf 2021 7 1 12 0 0 1))) :=
  @dateFromRfc3339Z_rfc3339At ℚ Toy.numX _ Zone.cet_lawful _ ⟨by decide +kernel, by decide +kernel, by decide +kernel⟩ 7200
    (by decide +kernel) (by decide +kernel)
/-- the other direction: 2021-10-31 00:30:00Z is 02:30 CEST, a repeated reading: refused, with +02:00 among its two offsets;
    2021-07-01 10:00:00Z is 12:00 CEST: printed with +02:00 -/
example : (dtOf 2021 10 31 2 30 0 0).timestamp = Time.at_ 2021 10 31 0 30 0 + Zone.cet.offsetFromUtc (Time.at_ 2021 10 31 0 30 0) ∧
    Zone.cet.localResult (dtOf 2021 10 31 2 30 0 0).timestamp = .ambiguous 3600 7200 := by decide +kernel
example : @dateToRfc3339Z ℚ Toy.numX Zone.cet [@encode ℚ Toy.numX (dtOf 2021 7 1 12 0 0 0)] =
    .ok (.str (rfc3339At (Zone.cet.offsetFromUtc (Time.at_ 2021 7 1 10 0 0)) (dtOf 2021 7 1 12 0 0 0))) := by
  rcases @dateToRfc3339Z_of_instant ℚ Toy.numX Toy.lawful _ Zone.cet_lawful (dtOf 2021 7 1 12 0 0 0)
    ⟨by decide +kernel, by decide +kernel, by decide +kernel⟩ (Time.at_ 2021 7 1 10 0 0) (by decide +kernel) with h | ⟨_, a, b, hab, _⟩
  · exact h
  · have hs : Zone.cet.localResult (dtOf 2021 7 1 12 0 0 0).timestamp = .single 7200 := by decide +kernel
    rw [hs] at hab; cases hab
example : rfc3339At 7200 (dtOf 2021 7 1 12 0 0 1) = "2021-07-01T12:00:00.001+02:00".toList := by decide +kernel
example : rfc2822At (-14400) (dtOf 2021 7 1 12 0 0 1) = "Thu, 1 Jul 2021 12:00:00 -0400".toList := by decide +kernel

/-- THE SEAM (why `Lawful.confirmed` and the round trips except the second before a skipped reading): chrono reads
    2021-03-28 02:00:00 Central European time — the first second that the clocks skip — as `single +01:00`;
    `date_to_rfc3339` prints `2021-03-28T02:00:00+01:00`, which is the instant 01:00:00Z = 03:00:00+02:00, and
    `date_from_rfc3339` returns 03:00:00: the round trip is off by one hour, in the crate and in the model alike
    (on binary64, the driver's numbers) -/
theorem seam_roundtrip_fails :
    Zone.cet.localResult (dtOf 2021 3 28 2 0 0 0).timestamp = .single 3600 ∧
    Zone.cet.localResult ((dtOf 2021 3 28 2 0 0 0).timestamp + 1) = .none ∧
    Zone.cet.offsetFromUtc ((dtOf 2021 3 28 2 0 0 0).timestamp - 3600) = 7200 ∧
    okStr? (dateToRfc3339Z Zone.cet [encode (dtOf 2021 3 28 2 0 0 0)]) = some "2021-03-28T02:00:00+01:00".toList ∧
    okNum? (dateFromRfc3339Z Zone.cet [.str "2021-03-28T02:00:00+01:00".toList]) =
      (match (encode (dtOf 2021 3 28 3 0 0 0) : Value Float) with | .num x => some x | _ => none) := by
  refine ⟨?_, ?_, ?_, ?_, ?_⟩ <;> decide +kernel

end Slac.C16
