/-
  SlacProps.C16Source — the core of the date-time model (SlacModel/TimeCore.lean: `decode`, `encode` and the component builtins, about which the C16
  theorems — decode ∘ encode = id for every date × millisecond, the component extractors — are stated) IS what tools/rs2lean_stdlib.py translates
  from the current text of src/stdlib/time.rs (SlacModel/Generated/SrcTime.lean): the rounding `(value * MS_PER_DAY).round() as i64`, the division
  `timestamp_millis as f64 / MS_PER_DAY`, the range test of `from_timestamp_millis`, and each accessor.
-/
import SlacModel.TimeCore
import SlacModel.Generated.SrcTime
import SlacModel.Generated.SrcStdlib
import SlacProps.C16
set_option autoImplicit false
namespace Slac.C16Source
open Slac Slac.Time Slac.Generated
variable {N : Type} [NumX N]

theorem decode_is_source (v : Value N) : Time.decode v = SrcTime.try_from v := by
  cases v with
  | num x =>
    have e1 : Time.decode (.num x : Value N) = (match ofMillis (NumX.toI64 (NumX.round (NumOps.mul x (dayLen : N)))) with
          | some t => Except.ok t | none => Except.error (Stdlib.custom "datetime out of range")) := rfl
    have e2 : SrcTime.try_from (.num x : Value N) = (match ofMillis (NumX.toI64 (NumX.round (NumOps.mul x (dayLen : N)))) with
          | some t => Except.ok t | none => Except.error (.custom ['d', 'a', 't', 'e', 't', 'i', 'm', 'e', ' ', 'o', 'u', 't', ' ', 'o', 'f', ' ', 'r', 'a', 'n', 'g', 'e'])) := rfl
    rw [e1, e2]
    cases ofMillis (NumX.toI64 (NumX.round (NumOps.mul x (dayLen : N)))) <;> rfl
  | bool b => rfl
  | str s => rfl
  | arr a => rfl

theorem encode_is_source (t : DT) : Time.encode (N := N) t = SrcTime.from_datetime t := rfl

/-- the pattern shared by the component builtins -/
theorem component_eq (f : DT → N) (ps : List (Value N)) :
    Time.component f ps = (match ps with
      | [v] => Except.bind (SrcTime.try_from v) fun t => (Except.ok (Value.num (f t)) : Except NativeError (Value N))
      | _ => Except.error (.wrongParameterCount 1)) := by
  rcases ps with _ | ⟨a, _ | ⟨b, r⟩⟩
  · rfl
  · simp only [Time.component, decode_is_source, Except.bind]; cases SrcTime.try_from a <;> rfl
  · rfl

theorem year_is_source (ps : List (Value N)) : Time.year ps = SrcTime.year ps := by
  unfold Time.year SrcTime.year; rw [component_eq]; rcases ps with _ | ⟨a, _ | ⟨b, r⟩⟩ <;> rfl
theorem month_is_source (ps : List (Value N)) : Time.month ps = SrcTime.month ps := by
  unfold Time.month SrcTime.month; rw [component_eq]; rcases ps with _ | ⟨a, _ | ⟨b, r⟩⟩ <;> rfl
theorem day_is_source (ps : List (Value N)) : Time.day ps = SrcTime.day ps := by
  unfold Time.day SrcTime.day; rw [component_eq]; rcases ps with _ | ⟨a, _ | ⟨b, r⟩⟩ <;> rfl
theorem hour_is_source (ps : List (Value N)) : Time.hour ps = SrcTime.hour ps := by
  unfold Time.hour SrcTime.hour; rw [component_eq]; rcases ps with _ | ⟨a, _ | ⟨b, r⟩⟩ <;> rfl
theorem minute_is_source (ps : List (Value N)) : Time.minute ps = SrcTime.minute ps := by
  unfold Time.minute SrcTime.minute; rw [component_eq]; rcases ps with _ | ⟨a, _ | ⟨b, r⟩⟩ <;> rfl
theorem second_is_source (ps : List (Value N)) : Time.second ps = SrcTime.second ps := by
  unfold Time.second SrcTime.second; rw [component_eq]; rcases ps with _ | ⟨a, _ | ⟨b, r⟩⟩ <;> rfl
theorem millisecond_is_source (ps : List (Value N)) : Time.millisecond ps = SrcTime.millisecond ps := by
  unfold Time.millisecond SrcTime.millisecond; rw [component_eq]
  rcases ps with _ | ⟨a, _ | ⟨b, r⟩⟩
  · rfl
  · simp only [bind, Except.bind]; cases SrcTime.try_from a <;> simp
  · rfl
theorem dayOfWeek_is_source (ps : List (Value N)) : Time.dayOfWeek ps = SrcTime.day_of_week ps := by
  unfold Time.dayOfWeek SrcTime.day_of_week; rw [component_eq]; rcases ps with _ | ⟨a, _ | ⟨b, r⟩⟩ <;> rfl
theorem isLeapYear_is_source (ps : List (Value N)) : Time.isLeapYear ps = SrcTime.is_leap_year ps := by
  rcases ps with _ | ⟨a, _ | ⟨b, r⟩⟩
  · rfl
  · simp only [Time.isLeapYear, SrcTime.is_leap_year, decode_is_source, bind, Except.bind, Except.map]
    cases SrcTime.try_from a <;> rfl
  · rfl

theorem encodeDate_is_source (ps : List (Value N)) : Time.encodeDate ps = SrcTime.encode_date ps := by
  rcases ps with _ | ⟨a, _ | ⟨b, _ | ⟨c, _ | ⟨d, r⟩⟩⟩⟩
  · rfl
  · cases a <;> rfl
  · cases a <;> cases b <;> rfl
  · cases a <;> cases b <;> cases c <;> try rfl
    rename_i y m d
    simp only [Time.encodeDate, SrcTime.encode_date]
    by_cases hv : validDate (NumX.toI32 y) (NumX.toU32 m) (NumX.toU32 d) = true
    · simp only [hv, if_true, Option.map_some]; rfl
    · have hv' : validDate (NumX.toI32 y) (NumX.toU32 m) (NumX.toU32 d) = false := by simpa using hv
      simp only [hv', Bool.false_eq_true, if_false, Option.map_none]; rfl
  · cases a <;> cases b <;> cases c <;> rfl

theorem encodeTime_is_source (ps : List (Value N)) : Time.encodeTime ps = SrcTime.encode_time ps := by
  unfold Time.encodeTime SrcTime.encode_time
  have hdn : Stdlib.defaultNumber ps 3 (NumOps.zero : N) = SrcStdlib.default_number ps 3 (NumOps.zero : N) := by
    unfold Stdlib.defaultNumber SrcStdlib.default_number
    cases ps[3]? with
    | none => rfl
    | some v => cases v <;> rfl
  rw [hdn]
  cases SrcStdlib.default_number ps 3 (NumOps.zero : N) with
  | error e => rfl
  | ok milli =>
    simp only [bind, Except.bind]
    rcases ps with _ | ⟨a, _ | ⟨b, _ | ⟨c, r⟩⟩⟩
    · rfl
    · cases a <;> rfl
    · cases a <;> cases b <;> rfl
    · cases a <;> cases b <;> cases c <;> try rfl
      rename_i h m sx
      simp only [List.all_cons, List.all_nil, Bool.and_true]
      by_cases hg : (NumX.ge0 h && NumX.ge0 m && NumX.ge0 sx && NumX.ge0 milli) = true
      · have hg' : (NumX.ge0 h && (NumX.ge0 m && (NumX.ge0 sx && NumX.ge0 milli))) = true := by simpa [Bool.and_assoc] using hg
        simp only [hg, hg', if_true]
        by_cases hv : validTime (NumX.toU32 h) (NumX.toU32 m) (NumX.toU32 sx) (NumX.toU32 milli) = true
        · simp only [hv, if_true, Option.map_some, SrcTime.from_datetime, DT.totalMs, Int.zero_mul, Int.zero_add]
        · have hv' : validTime (NumX.toU32 h) (NumX.toU32 m) (NumX.toU32 sx) (NumX.toU32 milli) = false := by simpa using hv
          simp only [hv', Bool.false_eq_true, if_false, Option.map_none]; rfl
      · have hg1 : (NumX.ge0 h && NumX.ge0 m && NumX.ge0 sx && NumX.ge0 milli) = false := by simpa using hg
        have hg' : (NumX.ge0 h && (NumX.ge0 m && (NumX.ge0 sx && NumX.ge0 milli))) = false := by simpa [Bool.and_assoc] using hg1
        simp only [hg1, hg', Bool.false_eq_true, if_false]; rfl

theorem incMonth_is_source (ps : List (Value N)) : Time.incMonth ps = SrcTime.inc_month ps := by
  unfold Time.incMonth SrcTime.inc_month
  have hdn : Stdlib.defaultNumber ps 1 (NumOps.ofBool true : N) = SrcStdlib.default_number ps 1 (NumOps.ofBool true : N) := by
    unfold Stdlib.defaultNumber SrcStdlib.default_number
    cases ps[1]? with
    | none => rfl
    | some v => cases v <;> rfl
  rw [hdn]
  cases SrcStdlib.default_number ps 1 (NumOps.ofBool true : N) with
  | error e => rfl
  | ok inc =>
    simp only [bind, Except.bind]
    rcases ps with _ | ⟨v, r⟩
    · rfl
    · simp only [decode_is_source]
      cases SrcTime.try_from v with
      | error e => rfl
      | ok t =>
        simp only []
        by_cases hg : NumX.gt0 inc = true
        · simp only [hg, if_true]
          cases addMonths t ((Int.natAbs (NumX.toI32 inc) : Nat) : Int) <;> rfl
        · have hg' : NumX.gt0 inc = false := by simpa using hg
          simp only [hg', Bool.false_eq_true, if_false]
          by_cases hl : NumX.lt0 inc = true
          · simp only [hl, if_true]
            cases addMonths t (-((Int.natAbs (NumX.toI32 inc) : Nat) : Int)) <;> rfl
          · have hl' : NumX.lt0 inc = false := by simpa using hl
            simp only [hl', Bool.false_eq_true, if_false]; rfl

/-- C16's central theorem restated about the functions translated from the source: for every valid date of years 1–9999 and every millisecond of the
    day, converting the date-time to a number (`impl From<NaiveDateTime> for Value`) and back (`impl TryFrom<&Value> for NaiveDateTime`) is the identity -/
theorem decode_encode_source [LawfulTimeNum N] (y : Int) (m d ms : Nat) (hv : validDate y m d = true) (hy1 : 1 ≤ y) (hy2 : y ≤ 9999)
    (hms : ms < 86400000) :
    SrcTime.try_from (SrcTime.from_datetime ⟨daysFromCivil y m d, ms⟩ : Value N) = .ok ⟨daysFromCivil y m d, ms⟩ := by
  rw [← encode_is_source, ← decode_is_source]; exact C16.decode_encode y m d ms hv hy1 hy2 hms

end Slac.C16Source
