/-
  C15 for the driver's number type — the position laws of SlacProps.C15 specialised to `N = Float`
  (IEEE binary64: `F64.ofNat n = n as f64`, `F64.pcmp = partial_cmp`, `+` = IEEE addition, …) with NO
  hypothesis about numbers: `instance : LawfulIdx Float` is proved in SlacProofs.F64Idx from core's
  logical float model (exactness of integers below 2^53, exact addition, monotone encoding).
  Every theorem here is the generic theorem of the same name (without `_float`) at `N := Float`.
-/
import SlacProps.C15
import SlacProofs.F64Idx
set_option autoImplicit false
namespace Slac.C15
open Slac.Seq Slac.SeqSpec Slac.Stdlib Slac.NumX Slac.SeqMisc

/-- the hypothesis class of the position laws holds for binary64 -/
theorem lawfulIdx_float : LawfulIdx Float := inferInstance

section positions
variable (off : Nat)

/-! ### strings -/
theorem at_enumerates_float (s : Str) (hs : off + s.length < 2^53) (i : Nat) (hi : i < s.length) :
    at_ off [.str s, .num (ofNat (off + i) : Float)] = .ok (.str [s[i]]) :=
  at_enumerates off s hs i hi

theorem at_enumerates_list_float (s : Str) (hs : off + s.length < 2^53) :
    (List.range s.length).map (fun i => at_ off [.str s, .num (ofNat (off + i) : Float)])
      = s.map (fun c => .ok (.str [c])) :=
  at_enumerates_list off s hs

theorem at_below_first_float (s : Str) (p : Nat) (hp : p < off) (h : p < 2^53) :
    at_ off [.str s, .num (ofNat p : Float)] = .error (.indexOutOfBounds p) :=
  at_below_first off s p hp h

theorem at_beyond_last_float (s : Str) (p : Nat) (hp : off + s.length ≤ p) (h : p < 2^53) :
    at_ off [.str s, .num (ofNat p : Float)] = .error (.indexOutOfBounds (p - off)) :=
  at_beyond_last off s p hp h

theorem at_out_of_range_float (s : Str) (p : Nat) (h : p < 2^53) (hp : p < off ∨ off + s.length ≤ p) :
    ∃ k, at_ off [.str s, .num (ofNat p : Float)] = .error (.indexOutOfBounds k) :=
  at_out_of_range off s p h hp

theorem at_negative_float (s : Str) : at_ off [.str s, .num (ofInt (-1) : Float)] = .error .indexNegative :=
  at_negative off s

theorem copy_str_float (s : Str) (i n : Nat) (hi : off + i < 2^53) (hn : n < 2^53) :
    copy off [.str s, .num (ofNat (off + i) : Float), .num (ofNat n)] = .ok (.str ((s.drop i).take n)) :=
  copy_str off s i n hi hn

theorem copy_below_first_float (s : Str) (p n : Nat) (hp : p < off) (h : p < 2^53) :
    copy off [.str s, .num (ofNat p : Float), .num (ofNat n)] = .error (.indexOutOfBounds p) :=
  copy_below_first off s p n hp h

/-- a successful `find` returns `first + i` for the first occurrence `i` -/
theorem find_present_float (s x : Str) (hs : off + s.length < 2^53) (i : Nat) (h : FirstOcc x s i) :
    find off [.str s, .str x] = .ok (.num (ofNat (off + i) : Float)) :=
  find_present off s x hs i h

/-- a failed `find` returns `first - 1`, computed as `-1.0 + STRING_OFFSET` -/
theorem find_absent_float (s x : Str) (h : ¬ x <:+: s) :
    find off [.str s, .str x] = .ok (.num (NumOps.add (ofInt (-1) : Float) (ofNat off))) :=
  find_absent off s x h

/-- … which is `0.0` for one-based strings and `-1.0` for zero-based strings -/
theorem find_absent_value_float (hoff : off ≤ 1) (s x : Str) (h : ¬ x <:+: s) :
    find off [.str s, .str x] = .ok (.num (if off = 0 then ofInt (-1) else ofNat 0 : Float)) :=
  find_absent_value off hoff s x h

theorem at_find_absent_float (hoff : off ≤ 1) (s x : Str) (h : ¬ x <:+: s) :
    ∃ p : Float, find off [.str s, .str x] = .ok (.num p) ∧ ∃ e, at_ off [.str s, .num p] = .error e :=
  at_find_absent off hoff s x h

/-- `copy(s, find(s, x), length(x)) = x` for every substring `x` of `s`, on binary64 position numbers -/
theorem copy_find_float (s x : Str) (hs : off + s.length < 2^53) (h : x <:+: s) :
    ∃ p l : Float, find off [.str s, .str x] = .ok (.num p) ∧ length [.str x] = .ok (.num l) ∧
      copy off [.str s, .num p, .num l] = .ok (.str x) :=
  copy_find off s x hs h

theorem insert_copy_float (s x : Str) (i : Nat) (hi : i ≤ s.length) (hs : off + s.length + x.length < 2^53) :
    ∃ t, Stdlib.insert off [.str s, .str x, .num (ofNat (off + i) : Float)] = .ok (.str t) ∧
      t = s.take i ++ x ++ s.drop i ∧
      copy off [.str t, .num (ofNat (off + i) : Float), .num (ofNat x.length)] = .ok (.str x) ∧
      length [.str t] = .ok (.num (ofNat (s.length + x.length) : Float)) ∧
      (ofNat (s.length + x.length) : Float) = NumOps.add (ofNat s.length) (ofNat x.length) :=
  insert_copy off s x i hi hs

theorem insert_beyond_last_float (s x : Str) (i : Nat) (hi : s.length < i) (h : off + i < 2^53) :
    Stdlib.insert off [.str s, .str x, .num (ofNat (off + i) : Float)] = .error (.indexOutOfBounds i) :=
  insert_beyond_last off s x i hi h

/-- `count(s,x) > 0  ⇔  contains(s,x)  ⇔  find(s,x) >= first`, on the builtins' binary64 results -/
theorem count_contains_find_float (hoff : off ≤ 1) (s x : Str) (hs : s.length + 1 < 2^53) :
    ∃ (c p : Float) (b : Bool),
      count [.str s, .str x] = .ok (.num c) ∧ contains [.str s, .str x] = .ok (.bool b : Value Float) ∧
      find off [.str s, .str x] = .ok (.num p) ∧
      gt0 c = b ∧ geN p (ofNat off) = b :=
  count_contains_find off hoff s x hs

/-! ### arrays -/
theorem at_arr_float (vs : List (Value Float)) (hs : vs.length < 2^53) (i : Nat) (hi : i < vs.length) :
    at_ off [.arr vs, .num (ofNat i : Float)] = .ok vs[i] :=
  at_arr off vs hs i hi

theorem at_arr_beyond_last_float (vs : List (Value Float)) (p : Nat) (hp : vs.length ≤ p) (h : p < 2^53) :
    at_ off [.arr vs, .num (ofNat p : Float)] = .error (.indexOutOfBounds p) :=
  at_arr_beyond_last off vs p hp h

theorem at_arr_negative_float (vs : List (Value Float)) :
    at_ off [.arr vs, .num (ofInt (-1) : Float)] = .error .indexNegative :=
  at_arr_negative off vs

theorem copy_arr_float (vs : List (Value Float)) (i n : Nat) (hi : i < 2^53) (hn : n < 2^53) :
    copy off [.arr vs, .num (ofNat i : Float), .num (ofNat n)] = .ok (.arr ((vs.drop i).take n)) :=
  copy_arr off vs i n hi hn

theorem at_find_arr_float (vs : List (Value Float)) (hs : vs.length < 2^53) (v : Value Float)
    (h : ∃ w, w ∈ vs ∧ Value.eq w v = true) :
    ∃ (p : Float) (w : Value Float), find off [.arr vs, v] = .ok (.num p) ∧ at_ off [.arr vs, .num p] = .ok w ∧
      Value.eq w v = true :=
  at_find_arr off vs hs v h

theorem copy_find_arr_float (vs : List (Value Float)) (hs : vs.length < 2^53) (v : Value Float)
    (h : ∃ w, w ∈ vs ∧ Value.eq w v = true) :
    ∃ (p : Float) (w : Value Float), find off [.arr vs, v] = .ok (.num p) ∧
      copy off [.arr vs, .num p, .num (ofNat 1)] = .ok (.arr [w]) ∧ Value.eq w v = true :=
  copy_find_arr off vs hs v h

theorem at_arr_enumerates_list_float (vs : List (Value Float)) (hs : vs.length < 2^53) :
    (List.range vs.length).map (fun i => at_ off [.arr vs, .num (ofNat i : Float)]) = vs.map .ok :=
  at_arr_enumerates_list off vs hs

theorem insert_arr_float (vs : List (Value Float)) (v : Value Float) (i : Nat) (hi : i ≤ vs.length)
    (hs : vs.length + 1 < 2^53) :
    ∃ t, Stdlib.insert off [.arr vs, v, .num (ofNat i : Float)] = .ok (.arr t) ∧
      t = vs.take i ++ v :: vs.drop i ∧
      at_ off [.arr t, .num (ofNat i : Float)] = .ok v ∧
      length [.arr t] = .ok (.num (ofNat (vs.length + 1) : Float)) :=
  insert_arr off vs v i hi hs

theorem insert_arr_beyond_last_float (vs : List (Value Float)) (v : Value Float) (i : Nat) (hi : vs.length < i)
    (h : i < 2^53) :
    Stdlib.insert off [.arr vs, v, .num (ofNat i : Float)] = .error (.indexOutOfBounds i) :=
  insert_arr_beyond_last off vs v i hi h

/-- arrays: `count > 0 ⇔ contains ⇔ find >= 0` -/
theorem count_contains_find_arr_float (vs : List (Value Float)) (v : Value Float) (hs : vs.length < 2^53) :
    ∃ (c p : Float) (b : Bool),
      count [.arr vs, v] = .ok (.num c) ∧ contains [.arr vs, v] = .ok (.bool b : Value Float) ∧
      find off [.arr vs, v] = .ok (.num p) ∧
      gt0 c = b ∧ geN p (ofNat 0) = b :=
  count_contains_find_arr off vs v hs

/-! ### reverse, `+` -/
theorem at_reverse_float (s : Str) (hs : off + s.length < 2^53) (i : Nat) (hi : i < s.length) :
    at_ off [.str s.reverse, .num (ofNat (off + i) : Float)]
      = at_ off [.str s, .num (ofNat (off + (s.length - 1 - i)) : Float)] :=
  at_reverse off s hs i hi

end positions

theorem length_append_add_float (a b c : Value Float) (h : Value.add a b = .ok c)
    (hl : valueLen a + valueLen b < 2^53) :
    ∃ la lb lc : Float, length [a] = .ok (.num la) ∧ length [b] = .ok (.num lb) ∧ length [c] = .ok (.num lc) ∧
      lc = NumOps.add la lb :=
  length_append_add a b c h hl

/-! ### non-vacuity: the theorems applied to concrete strings on binary64 numbers -/
section examples
private def sampleF : Str := ['ä', 'ß', '𝄞', 'c']

example : at_ 1 [.str sampleF, .num (F64.ofNat 3)] = .ok (.str ['𝄞']) :=
  at_enumerates_float 1 sampleF (by decide) 2 (by decide)
example : at_ 0 [.str sampleF, .num (F64.ofNat 2)] = .ok (.str ['𝄞']) :=
  at_enumerates_float 0 sampleF (by decide) 2 (by decide)
example : at_ 1 [.str sampleF, .num (F64.ofNat 0)] = .error (.indexOutOfBounds 0) :=
  at_below_first_float 1 sampleF 0 (by decide) (by decide)
example : find 1 [.str sampleF, .str ['𝄞', 'c']] = .ok (.num (F64.ofNat 3)) :=
  find_present_float 1 sampleF ['𝄞', 'c'] (by decide) 2 ((findSeq_some_iff _ _ _).1 (by decide))
example : find 1 [.str sampleF, .str ['x']] = .ok (.num (F64.ofNat 0)) :=
  find_absent_value_float 1 (by decide) sampleF ['x'] ((findSeq_none_iff _ _).1 (by decide))
example : find 0 [.str sampleF, .str ['x']] = .ok (.num (F64.ofInt (-1))) :=
  find_absent_value_float 0 (by decide) sampleF ['x'] ((findSeq_none_iff _ _).1 (by decide))
example : ∃ p l : Float, find 1 [.str sampleF, .str ['ß', '𝄞']] = .ok (.num p) ∧
    length [.str ['ß', '𝄞']] = .ok (.num l) ∧ copy 1 [.str sampleF, .num p, .num l] = .ok (.str ['ß', '𝄞']) :=
  copy_find_float 1 sampleF ['ß', '𝄞'] (by decide) ((containsSeq_iff_infix _ _).1 (by decide))
example : copy 1 [.str sampleF, .num (F64.ofNat 3), .num (F64.ofNat 2)] = .ok (.str ['𝄞', 'c']) :=
  copy_str_float 1 sampleF 2 2 (by decide) (by decide)
end examples

end Slac.C15
