/-
  C19 — StaticEnvironment is a case-insensitive map.
  Model: SlacModel.Env (`StaticEnv`: two association lists keyed by `fold name`; src/environment.rs).
  Spec:  `MapSpec` below — two total maps from folded names to the most recently written entry.
  Every theorem except `ascii_fold` holds for EVERY key-folding function `fold : Str → Str`
  (Rust: `str::to_lowercase`), which is how the Unicode tables stay out of the proofs.
-/
import SlacModel.Unicode
import SlacProofs.EnvLemmas
import SlacProofs.EnvCaseLemmas
set_option autoImplicit false
set_option linter.unusedSectionVars false
namespace Slac.C19
variable {N : Type}

/-! ### Operations, observations, one step of the model -/

inductive EnvOp (N : Type) where
  | addVar (n : Str) (v : Value N) | removeVar (n : Str) | clearVars
  | addFn (f : Fn N) | addFns (fs : List (Fn N)) | removeFn (n : Str)
  | getVar (n : Str) | varExists (n : Str) | call (n : Str) (args : List (Value N))
  | fnExists (n : Str) (k : Nat) | listFns

/-- what an operation returns -/
inductive Obs (N : Type) where
  | done | var (o : Option (Value N)) | fn (o : Option (Fn N)) | bool (b : Bool)
  | result (r : Except NativeError (Value N)) | fnRes (r : FnRes) | fns (l : List (Fn N))

def step (fold : Str → Str) (s : StaticEnv N) : EnvOp N → StaticEnv N × Obs N
  | .addVar n v => (s.addVariable fold n v, .done)
  | .removeVar n => ((s.removeVariable fold n).1, .var (s.removeVariable fold n).2)
  | .clearVars => (s.clearVariables, .done)
  | .addFn f => (s.addFunction fold f, .done)
  | .addFns fs => (s.addFunctions fold fs, .done)
  | .removeFn n => ((s.removeFunction fold n).1, .fn (s.removeFunction fold n).2)
  | .getVar n => (s, .var (s.getVariable fold n))
  | .varExists n => (s, .bool (s.variableExists fold n))
  | .call n args => (s, .result (s.call fold n args))
  | .fnExists n k => (s, .fnRes (s.functionExists fold n k))
  | .listFns => (s, .fns s.listFunctions)

/-- run a history: final state and the observation of every operation -/
def run (fold : Str → Str) : StaticEnv N → List (EnvOp N) → StaticEnv N × List (Obs N)
  | s, [] => (s, [])
  | s, op :: ops => ((run fold (step fold s op).1 ops).1, (step fold s op).2 :: (run fold (step fold s op).1 ops).2)

/-! ### The specification: a map from folded names to the most recent entry -/

structure MapSpec (N : Type) where
  vars : Str → Option (Value N)
  fns : Str → Option (Fn N)

/-- overwrite one key -/
def upd {β : Type} (m : Str → Option β) (k : Str) (b : Option β) : Str → Option β :=
  fun k' => if k' = k then b else m k'

namespace MapSpec
def empty : MapSpec N := ⟨fun _ => none, fun _ => none⟩
def addFn (fold : Str → Str) (a : MapSpec N) (f : Fn N) : MapSpec N := { a with fns := upd a.fns (fold f.name) (some f) }
end MapSpec

/-- observations of the specification: as `Obs`, except that the function listing is the map itself
    (a `HashMap` listing has no order; see `Lists`) -/
inductive SObs (N : Type) where
  | done | var (o : Option (Value N)) | fn (o : Option (Fn N)) | bool (b : Bool)
  | result (r : Except NativeError (Value N)) | fnRes (r : FnRes) | fns (m : Str → Option (Fn N))

def sstep (fold : Str → Str) (a : MapSpec N) : EnvOp N → MapSpec N × SObs N
  | .addVar n v => ({ a with vars := upd a.vars (fold n) (some v) }, .done)
  | .removeVar n => ({ a with vars := upd a.vars (fold n) none }, .var (a.vars (fold n)))
  | .clearVars => ({ a with vars := fun _ => none }, .done)
  | .addFn f => (a.addFn fold f, .done)
  | .addFns fs => (fs.foldl (MapSpec.addFn fold) a, .done)
  | .removeFn n => ({ a with fns := upd a.fns (fold n) none }, .fn (a.fns (fold n)))
  | .getVar n => (a, .var (a.vars (fold n)))
  | .varExists n => (a, .bool (a.vars (fold n)).isSome)
  | .call n args => (a, .result (match a.fns (fold n) with
      | some f => f.run args
      | none => .error (.functionNotFound n)))
  | .fnExists n k => (a, .fnRes (match a.fns (fold n) with
      | some f => f.accepts k
      | none => .notFound))
  | .listFns => (a, .fns a.fns)

def srun (fold : Str → Str) : MapSpec N → List (EnvOp N) → MapSpec N × List (SObs N)
  | a, [] => (a, [])
  | a, op :: ops => ((srun fold (sstep fold a op).1 ops).1, (sstep fold a op).2 :: (srun fold (sstep fold a op).1 ops).2)

/-- a list `l` is a listing of the map `m`: it contains exactly the entries of the map, and no two of its
    elements have the same folded name.  (Together with "every entry sits under its own folded name" this
    fixes `l` as a multiset: see `lists_perm`.) -/
structure Lists (fold : Str → Str) (l : List (Fn N)) (m : Str → Option (Fn N)) : Prop where
  mem : ∀ f, f ∈ l ↔ ∃ k, m k = some f
  nodup : (l.map (fun f => fold f.name)).Nodup

/-- a model observation agrees with a spec observation: equal, the listing up to order -/
inductive Agree (fold : Str → Str) : Obs N → SObs N → Prop
  | done : Agree fold .done .done
  | var (o : Option (Value N)) : Agree fold (.var o) (.var o)
  | fn (o : Option (Fn N)) : Agree fold (.fn o) (.fn o)
  | bool (b : Bool) : Agree fold (.bool b) (.bool b)
  | result (r : Except NativeError (Value N)) : Agree fold (.result r) (.result r)
  | fnRes (r : FnRes) : Agree fold (.fnRes r) (.fnRes r)
  | fns {l : List (Fn N)} {m : Str → Option (Fn N)} : Lists fold l m → Agree fold (.fns l) (.fns m)

/-- abstraction relation: both tables answer every key alike; the function table is well formed -/
structure Abs (fold : Str → Str) (s : StaticEnv N) (a : MapSpec N) : Prop where
  vars : ∀ k, alGet k s.vars = a.vars k
  fns : ∀ k, alGet k s.fns = a.fns k
  wf : FnsWF fold s

theorem abs_empty (fold : Str → Str) : Abs fold (StaticEnv.empty : StaticEnv N) MapSpec.empty :=
  ⟨fun _ => rfl, fun _ => rfl, StaticEnv.wf_empty fold⟩

theorem abs_addFunction {fold : Str → Str} {s : StaticEnv N} {a : MapSpec N} (h : Abs fold s a) (f : Fn N) :
    Abs fold (s.addFunction fold f) (a.addFn fold f) :=
  ⟨h.vars, fun k => by simp only [StaticEnv.addFunction, MapSpec.addFn, upd, alGet_ins, h.fns],
   StaticEnv.wf_addFunction h.wf f⟩

theorem abs_addFunctions {fold : Str → Str} (fs : List (Fn N)) : ∀ {s : StaticEnv N} {a : MapSpec N},
    Abs fold s a → Abs fold (s.addFunctions fold fs) (fs.foldl (MapSpec.addFn fold) a) := by
  induction fs with
  | nil => intro s a h; exact h
  | cons f fs ih => intro s a h; exact ih (abs_addFunction h f)

theorem abs_lists {fold : Str → Str} {s : StaticEnv N} {a : MapSpec N} (h : Abs fold s a) :
    Lists fold s.listFunctions a.fns :=
  ⟨fun f => by rw [StaticEnv.mem_listFunctions h.wf]; simp only [h.fns], StaticEnv.listFunctions_nodup h.wf⟩

/-- One step: the model's answer agrees with the map's, and the abstraction is preserved. -/
theorem step_refines (fold : Str → Str) (s : StaticEnv N) (a : MapSpec N) (h : Abs fold s a) (op : EnvOp N) :
    Agree fold (step fold s op).2 (sstep fold a op).2 ∧ Abs fold (step fold s op).1 (sstep fold a op).1 := by
  cases op with
  | addVar n v =>
    exact ⟨.done, fun k => by simp only [step, sstep, StaticEnv.addVariable, upd, alGet_ins, h.vars], h.fns,
      ⟨h.wf.nodup, h.wf.key⟩⟩
  | removeVar n =>
    refine ⟨?_, fun k => by simp only [step, sstep, StaticEnv.removeVariable, upd, alGet_del, h.vars], h.fns,
      ⟨h.wf.nodup, h.wf.key⟩⟩
    simp only [step, sstep, StaticEnv.removeVariable, h.vars]; exact .var _
  | clearVars => exact ⟨.done, fun k => rfl, h.fns, ⟨h.wf.nodup, h.wf.key⟩⟩
  | addFn f => exact ⟨.done, abs_addFunction h f⟩
  | addFns fs => exact ⟨.done, abs_addFunctions fs h⟩
  | removeFn n =>
    refine ⟨?_, h.vars, fun k => by simp only [step, sstep, StaticEnv.removeFunction, upd, alGet_del, h.fns],
      StaticEnv.wf_removeFunction h.wf n⟩
    simp only [step, sstep, StaticEnv.removeFunction, h.fns]; exact .fn _
  | getVar n => simp only [step, sstep, StaticEnv.getVariable, h.vars]; exact ⟨.var _, h⟩
  | varExists n => simp only [step, sstep, StaticEnv.variableExists, h.vars]; exact ⟨.bool _, h⟩
  | call n args => simp only [step, sstep, StaticEnv.call, h.fns]; exact ⟨.result _, h⟩
  | fnExists n k => simp only [step, sstep, StaticEnv.functionExists, h.fns]; exact ⟨.fnRes _, h⟩
  | listFns => exact ⟨.fns (abs_lists h), h⟩

theorem run_refines (fold : Str → Str) (ops : List (EnvOp N)) : ∀ (s : StaticEnv N) (a : MapSpec N), Abs fold s a →
    AllRel (Agree fold) (run fold s ops).2 (srun fold a ops).2 ∧ Abs fold (run fold s ops).1 (srun fold a ops).1 := by
  induction ops with
  | nil => intro s a h; exact ⟨.nil, h⟩
  | cons op ops ih =>
    intro s a h
    obtain ⟨h1, h2⟩ := step_refines fold s a h op
    obtain ⟨g1, g2⟩ := ih _ _ h2
    exact ⟨.cons h1 g1, g2⟩

/-- Main theorem: after ANY history of operations, starting from the empty environment, every answer of the
    model is the answer of the map on folded names (listings up to order), for every folding function —
    and the final states are still related, so this continues to hold for whatever comes next. -/
theorem env_refines (fold : Str → Str) (ops : List (EnvOp N)) :
    AllRel (Agree fold) (run fold StaticEnv.empty ops).2 (srun fold MapSpec.empty ops).2 ∧
    Abs fold (run fold StaticEnv.empty ops).1 (srun fold MapSpec.empty ops).1 :=
  run_refines fold ops _ _ (abs_empty fold)

/-- In a reachable map every entry sits under its own folded name … -/
theorem spec_key_is_folded_name {fold : Str → Str} {s : StaticEnv N} {a : MapSpec N} (h : Abs fold s a)
    {k : Str} {f : Fn N} (hk : a.fns k = some f) : k = fold f.name := by
  rw [← h.fns] at hk
  exact h.wf.key (k, f) ((alGet_eq_some_iff h.wf.nodup).1 hk)

/-- … hence `Lists` determines the listing as a multiset: any two listings of the same map are permutations of
    each other. -/
theorem lists_perm {fold : Str → Str} {l l' : List (Fn N)} {m : Str → Option (Fn N)}
    (h : Lists fold l m) (h' : Lists fold l' m) : l.Perm l' := by
  have nd : ∀ {l : List (Fn N)}, (l.map (fun f => fold f.name)).Nodup → l.Nodup := fun hn =>
    List.Pairwise.of_map (fun f => fold f.name) (fun a b hab e => hab (congrArg (fun f => fold f.name) e)) hn
  exact (List.perm_ext_iff_of_nodup (nd h.nodup) (nd h'.nodup)).2 (fun f => (h.mem f).trans (h'.mem f).symm)

/-- the number of listed functions is the number of distinct folded names registered -/
theorem listFunctions_length (s : StaticEnv N) :
    s.listFunctions.length = (keys s.fns).length := by
  simp [StaticEnv.listFunctions, keys]

/-! ### Spelling is irrelevant -/

/-- two function objects that differ at most in the spelling of their name -/
structure NameVariant (fold : Str → Str) (f f' : Fn N) : Prop where
  name : fold f.name = fold f'.name
  arity : f.arity = f'.arity
  pure : f.pure = f'.pure
  run : f.run = f'.run
  tag : f.tag = f'.tag

theorem NameVariant.refl (fold : Str → Str) (f : Fn N) : NameVariant fold f f := ⟨rfl, rfl, rfl, rfl, rfl⟩

theorem NameVariant.accepts {fold : Str → Str} {f f' : Fn N} (h : NameVariant fold f f') (k : Nat) :
    f.accepts k = f'.accepts k := by
  simp only [Fn.accepts, h.arity, h.pure]

/-- the same operation with every name spelled differently (fold-equal) -/
inductive OpVariant (fold : Str → Str) : EnvOp N → EnvOp N → Prop
  | addVar {n n' : Str} (v : Value N) : fold n = fold n' → OpVariant fold (.addVar n v) (.addVar n' v)
  | removeVar {n n' : Str} : fold n = fold n' → OpVariant fold (.removeVar n) (.removeVar n')
  | clearVars : OpVariant fold .clearVars .clearVars
  | addFn {f f' : Fn N} : NameVariant fold f f' → OpVariant fold (.addFn f) (.addFn f')
  | addFns {fs fs' : List (Fn N)} : AllRel (NameVariant fold) fs fs' → OpVariant fold (.addFns fs) (.addFns fs')
  | removeFn {n n' : Str} : fold n = fold n' → OpVariant fold (.removeFn n) (.removeFn n')
  | getVar {n n' : Str} : fold n = fold n' → OpVariant fold (.getVar n) (.getVar n')
  | varExists {n n' : Str} : fold n = fold n' → OpVariant fold (.varExists n) (.varExists n')
  | call {n n' : Str} (args : List (Value N)) : fold n = fold n' → OpVariant fold (.call n args) (.call n' args)
  | fnExists {n n' : Str} (k : Nat) : fold n = fold n' → OpVariant fold (.fnExists n k) (.fnExists n' k)
  | listFns : OpVariant fold .listFns .listFns

/-- observations equal up to spelling: identical, except that returned function objects may differ in the
    spelling of their `name` field and a `FunctionNotFound` error echoes the caller's spelling -/
inductive ObsSim (fold : Str → Str) : Obs N → Obs N → Prop
  | done : ObsSim fold .done .done
  | var (o : Option (Value N)) : ObsSim fold (.var o) (.var o)
  | fnNone : ObsSim fold (.fn none) (.fn none)
  | fnSome {f f' : Fn N} : NameVariant fold f f' → ObsSim fold (.fn (some f)) (.fn (some f'))
  | bool (b : Bool) : ObsSim fold (.bool b) (.bool b)
  | result (r : Except NativeError (Value N)) : ObsSim fold (.result r) (.result r)
  | notFound {n n' : Str} : fold n = fold n' →
      ObsSim fold (.result (.error (.functionNotFound n))) (.result (.error (.functionNotFound n')))
  | fnRes (r : FnRes) : ObsSim fold (.fnRes r) (.fnRes r)
  | fns {l l' : List (Fn N)} : AllRel (NameVariant fold) l l' → ObsSim fold (.fns l) (.fns l')

/-- states equal up to the spelling of the `name` field of stored function objects -/
def SimEnv (fold : Str → Str) (s s' : StaticEnv N) : Prop :=
  s.vars = s'.vars ∧ AllRel (EntryRel (NameVariant fold)) s.fns s'.fns

theorem SimEnv.refl (fold : Str → Str) (s : StaticEnv N) : SimEnv fold s s :=
  ⟨rfl, AllRel.refl (fun p => ⟨rfl, NameVariant.refl fold p.2⟩) _⟩

theorem sim_addFunction {fold : Str → Str} {s s' : StaticEnv N} (h : SimEnv fold s s') {f f' : Fn N}
    (hf : NameVariant fold f f') : SimEnv fold (s.addFunction fold f) (s'.addFunction fold f') := by
  refine ⟨h.1, ?_⟩
  simp only [StaticEnv.addFunction, ← hf.name]
  exact forall₂_ins _ hf h.2

theorem sim_addFunctions {fold : Str → Str} {fs fs' : List (Fn N)} (hfs : AllRel (NameVariant fold) fs fs') :
    ∀ {s s' : StaticEnv N}, SimEnv fold s s' → SimEnv fold (s.addFunctions fold fs) (s'.addFunctions fold fs') := by
  induction hfs with
  | nil => intro s s' h; exact h
  | cons hf _ ih => intro s s' h; exact ih (sim_addFunction h hf)

/-- One step with every name respelled: same state and same answer, up to spelling. -/
theorem step_sim (fold : Str → Str) {s s' : StaticEnv N} (h : SimEnv fold s s') {op op' : EnvOp N}
    (hop : OpVariant fold op op') :
    SimEnv fold (step fold s op).1 (step fold s' op').1 ∧ ObsSim fold (step fold s op).2 (step fold s' op').2 := by
  obtain ⟨hv, hf⟩ := h
  cases hop with
  | addVar v hn => exact ⟨⟨by simp only [step, StaticEnv.addVariable, hn, hv], hf⟩, .done⟩
  | removeVar hn =>
    simp only [step, StaticEnv.removeVariable, hn, hv]
    exact ⟨⟨rfl, hf⟩, .var _⟩
  | clearVars => exact ⟨⟨rfl, hf⟩, .done⟩
  | addFn hg => exact ⟨sim_addFunction ⟨hv, hf⟩ hg, .done⟩
  | addFns hfs => exact ⟨sim_addFunctions hfs ⟨hv, hf⟩, .done⟩
  | @removeFn n n' hn =>
    simp only [step, StaticEnv.removeFunction, hn]
    refine ⟨⟨hv, forall₂_del _ hf⟩, ?_⟩
    rcases forall₂_alGet (fold n') hf with ⟨h1, h2⟩ | ⟨b, c, h1, h2, h3⟩
    · rw [h1, h2]; exact .fnNone
    · rw [h1, h2]; exact .fnSome h3
  | getVar hn => simp only [step, StaticEnv.getVariable, hn, hv]; exact ⟨⟨hv, hf⟩, .var _⟩
  | varExists hn => simp only [step, StaticEnv.variableExists, hn, hv]; exact ⟨⟨hv, hf⟩, .bool _⟩
  | @call n n' args hn =>
    simp only [step, StaticEnv.call, hn]
    refine ⟨⟨hv, hf⟩, ?_⟩
    rcases forall₂_alGet (fold n') hf with ⟨h1, h2⟩ | ⟨b, c, h1, h2, h3⟩
    · rw [h1, h2]; exact .notFound hn
    · rw [h1, h2]; simp only [h3.run]; exact .result _
  | @fnExists n n' k hn =>
    simp only [step, StaticEnv.functionExists, hn]
    refine ⟨⟨hv, hf⟩, ?_⟩
    rcases forall₂_alGet (fold n') hf with ⟨h1, h2⟩ | ⟨b, c, h1, h2, h3⟩
    · rw [h1, h2]; exact .fnRes _
    · rw [h1, h2]; simp only [h3.accepts]; exact .fnRes _
  | listFns =>
    exact ⟨⟨hv, hf⟩, .fns (AllRel.map (fun _ _ hp => hp.2) hf)⟩

/-- Whole histories: respelling any name anywhere in a history (variables and function names at registration,
    removal, lookup, call) changes no state and no answer, up to spelling. -/
theorem spelling_irrelevant (fold : Str → Str) {ops ops' : List (EnvOp N)} (hops : AllRel (OpVariant fold) ops ops') :
    ∀ {s s' : StaticEnv N}, SimEnv fold s s' →
      SimEnv fold (run fold s ops).1 (run fold s' ops').1 ∧ AllRel (ObsSim fold) (run fold s ops).2 (run fold s' ops').2 := by
  induction hops with
  | nil => intro s s' h; exact ⟨h, .nil⟩
  | cons hop _ ih =>
    intro s s' h
    obtain ⟨h1, h2⟩ := step_sim fold h hop
    obtain ⟨g1, g2⟩ := ih h1
    exact ⟨g1, .cons h2 g2⟩

/-- The name-taking operations on one and the same environment, literally: fold-equal spellings give the
    same new state and the same answer; only a call to an unregistered name echoes the caller's spelling. -/
theorem spelling_irrelevant_ops (fold : Str → Str) (s : StaticEnv N) {n n' : Str} (h : fold n = fold n') :
    (∀ v, step fold s (.addVar n v) = step fold s (.addVar n' v)) ∧
    step fold s (.removeVar n) = step fold s (.removeVar n') ∧
    step fold s (.removeFn n) = step fold s (.removeFn n') ∧
    step fold s (.getVar n) = step fold s (.getVar n') ∧
    step fold s (.varExists n) = step fold s (.varExists n') ∧
    (∀ k, step fold s (.fnExists n k) = step fold s (.fnExists n' k)) ∧
    (∀ args, (alGet (fold n) s.fns).isSome = true → step fold s (.call n args) = step fold s (.call n' args)) ∧
    (∀ args, alGet (fold n) s.fns = none →
      step fold s (.call n args) = (s, .result (.error (.functionNotFound n))) ∧
      step fold s (.call n' args) = (s, .result (.error (.functionNotFound n')))) := by
  refine ⟨?_, ?_, ?_, ?_, ?_, ?_, ?_, ?_⟩
  · intro v; simp only [step, StaticEnv.addVariable, h]
  · simp only [step, StaticEnv.removeVariable, h]
  · simp only [step, StaticEnv.removeFunction, h]
  · simp only [step, StaticEnv.getVariable, h]
  · simp only [step, StaticEnv.variableExists, h]
  · intro k; simp only [step, StaticEnv.functionExists, h]
  · intro args hs
    simp only [step, StaticEnv.call, ← h]
    cases hg : alGet (fold n) s.fns with
    | none => rw [hg] at hs; cases hs
    | some f => rfl
  · intro args hs
    simp only [step, StaticEnv.call, ← h, hs, and_self]

/-- Environments that differ only in the spelling used at registration are the same `Environment`. -/
theorem toEnv_sim (fold : Str → Str) {s s' : StaticEnv N} (h : SimEnv fold s s') : s.toEnv fold = s'.toEnv fold := by
  obtain ⟨hv, hf⟩ := h
  have hcall : StaticEnv.call fold s = StaticEnv.call fold s' := by
    funext n args
    simp only [StaticEnv.call]
    rcases forall₂_alGet (fold n) hf with ⟨h1, h2⟩ | ⟨b, c, h1, h2, h3⟩
    · rw [h1, h2]
    · rw [h1, h2]; simp only [h3.run]
  have hex : StaticEnv.functionExists fold s = StaticEnv.functionExists fold s' := by
    funext n k
    simp only [StaticEnv.functionExists]
    rcases forall₂_alGet (fold n) hf with ⟨h1, h2⟩ | ⟨b, c, h1, h2, h3⟩
    · rw [h1, h2]
    · rw [h1, h2]; simp only [h3.accepts]
  have hget : StaticEnv.getVariable fold s = StaticEnv.getVariable fold s' := by
    funext n; simp only [StaticEnv.getVariable, hv]
  have hvex : StaticEnv.variableExists fold s = StaticEnv.variableExists fold s' := by
    funext n; simp only [StaticEnv.variableExists, hv]
  simp only [StaticEnv.toEnv, hcall, hex, hget, hvex]

/-- Registration under another spelling of the name: the resulting `Environment`s are equal. -/
theorem registration_spelling_irrelevant (fold : Str → Str) (s : StaticEnv N) :
    (∀ n n' v, fold n = fold n' → s.addVariable fold n v = s.addVariable fold n' v) ∧
    (∀ f n', fold f.name = fold n' →
      (s.addFunction fold { f with name := n' }).toEnv fold = (s.addFunction fold f).toEnv fold) := by
  refine ⟨fun n n' v h => by simp only [StaticEnv.addVariable, h], fun f n' h => ?_⟩
  exact toEnv_sim fold (sim_addFunction (SimEnv.refl fold s) ⟨h.symm, rfl, rfl, rfl, rfl⟩)

/-! ### remove returns what was stored; clear; separate namespaces -/

/-- `remove_variable` / `remove_function` return exactly what a lookup under any spelling would have returned,
    in particular the most recently added entry; afterwards the name is gone under every spelling and every
    other name is untouched. -/
theorem remove_returns_stored (fold : Str → Str) (s : StaticEnv N) (n : Str) :
    (s.removeVariable fold n).2 = s.getVariable fold n ∧
    (∀ n' v, fold n' = fold n → ((s.addVariable fold n' v).removeVariable fold n).2 = some v) ∧
    (∀ n', (s.removeVariable fold n).1.getVariable fold n' =
      if fold n' = fold n then none else s.getVariable fold n') ∧
    (s.removeFunction fold n).2 = alGet (fold n) s.fns ∧
    (∀ f, fold f.name = fold n → ((s.addFunction fold f).removeFunction fold n).2 = some f) ∧
    (∀ n', alGet (fold n') (s.removeFunction fold n).1.fns =
      if fold n' = fold n then none else alGet (fold n') s.fns) := by
  refine ⟨rfl, ?_, ?_, rfl, ?_, ?_⟩
  · intro n' v h; simp only [StaticEnv.removeVariable, StaticEnv.addVariable, alGet_ins, h, if_true]
  · intro n'; simp only [StaticEnv.removeVariable, StaticEnv.getVariable, alGet_del]
  · intro f h; simp only [StaticEnv.removeFunction, StaticEnv.addFunction, alGet_ins, h, if_true]
  · intro n'; simp only [StaticEnv.removeFunction, alGet_del]

/-- `clear_variables` removes every variable and leaves every function observation as it was. -/
theorem clear_vars_keeps_fns (fold : Str → Str) (s : StaticEnv N) :
    (∀ n, s.clearVariables.getVariable fold n = none) ∧ (∀ n, s.clearVariables.variableExists fold n = false) ∧
    s.clearVariables.fns = s.fns ∧ s.clearVariables.listFunctions = s.listFunctions ∧
    (∀ n args, s.clearVariables.call fold n args = s.call fold n args) ∧
    (∀ n k, s.clearVariables.functionExists fold n k = s.functionExists fold n k) :=
  ⟨fun _ => rfl, fun _ => rfl, rfl, rfl, fun _ _ => rfl, fun _ _ => rfl⟩

/-- operations of the variable namespace / of the function namespace -/
def EnvOp.onVars : EnvOp N → Bool
  | .addVar _ _ | .removeVar _ | .clearVars | .getVar _ | .varExists _ => true
  | _ => false
def EnvOp.onFns (op : EnvOp N) : Bool := !op.onVars

theorem step_fns_of_onVars (fold : Str → Str) (s : StaticEnv N) {op : EnvOp N} (h : op.onVars = true) :
    (step fold s op).1.fns = s.fns := by
  cases op <;> first | (cases h; done) | rfl

theorem step_vars_of_onFns (fold : Str → Str) (s : StaticEnv N) {op : EnvOp N} (h : op.onFns = true) :
    (step fold s op).1.vars = s.vars := by
  cases op <;> first | (cases h; done) | rfl | exact StaticEnv.addFunctions_vars fold _ s

theorem obs_of_onFns (fold : Str → Str) {s s' : StaticEnv N} (hs : s.fns = s'.fns) {op : EnvOp N}
    (h : op.onFns = true) : (step fold s op).2 = (step fold s' op).2 := by
  cases op <;> first | (cases h; done) | rfl |
    simp only [step, StaticEnv.removeFunction, StaticEnv.call, StaticEnv.functionExists, StaticEnv.listFunctions, hs]

theorem obs_of_onVars (fold : Str → Str) {s s' : StaticEnv N} (hs : s.vars = s'.vars) {op : EnvOp N}
    (h : op.onVars = true) : (step fold s op).2 = (step fold s' op).2 := by
  cases op <;> first | (cases h; done) | rfl |
    simp only [step, StaticEnv.removeVariable, StaticEnv.getVariable, StaticEnv.variableExists, hs]

/-- Variables and functions live in separate namespaces: a variable operation never changes the function
    table, hence never changes the answer of any function operation — and vice versa — whatever the names. -/
theorem namespaces_disjoint (fold : Str → Str) (s : StaticEnv N) (vop fop : EnvOp N)
    (hv : vop.onVars = true) (hf : fop.onFns = true) :
    (step fold s vop).1.fns = s.fns ∧ (step fold s fop).1.vars = s.vars ∧
    (step fold (step fold s vop).1 fop).2 = (step fold s fop).2 ∧
    (step fold (step fold s fop).1 vop).2 = (step fold s vop).2 :=
  ⟨step_fns_of_onVars fold s hv, step_vars_of_onFns fold s hf,
   obs_of_onFns fold (step_fns_of_onVars fold s hv) hf, obs_of_onVars fold (step_vars_of_onFns fold s hf) hv⟩

/-! ### Evaluation does not depend on the letter case of identifiers -/

/- `e` and `e'` have the same shape, the same operators and literals, and pairwise fold-equal names -/
mutual
inductive SameShapeFoldEq (fold : Str → Str) : Expr N → Expr N → Prop
  | unary {r r' : Expr N} (op : Op) : SameShapeFoldEq fold r r' → SameShapeFoldEq fold (.unary r op) (.unary r' op)
  | binary {l l' r r' : Expr N} (op : Op) : SameShapeFoldEq fold l l' → SameShapeFoldEq fold r r' →
      SameShapeFoldEq fold (.binary l r op) (.binary l' r' op)
  | ternary {l l' m m' r r' : Expr N} (op : Op) : SameShapeFoldEq fold l l' → SameShapeFoldEq fold m m' →
      SameShapeFoldEq fold r r' → SameShapeFoldEq fold (.ternary l m r op) (.ternary l' m' r' op)
  | array {es es' : List (Expr N)} : SameShapeFoldEqL fold es es' → SameShapeFoldEq fold (.array es) (.array es')
  | lit (v : Value N) : SameShapeFoldEq fold (.lit v) (.lit v)
  | var {n n' : Str} : fold n = fold n' → SameShapeFoldEq fold (.var n) (.var n')
  | call {n n' : Str} {ps ps' : List (Expr N)} : fold n = fold n' → SameShapeFoldEqL fold ps ps' →
      SameShapeFoldEq fold (.call n ps) (.call n' ps')
inductive SameShapeFoldEqL (fold : Str → Str) : List (Expr N) → List (Expr N) → Prop
  | nil : SameShapeFoldEqL fold [] []
  | cons {e e' : Expr N} {es es' : List (Expr N)} : SameShapeFoldEq fold e e' → SameShapeFoldEqL fold es es' →
      SameShapeFoldEqL fold (e :: es) (e' :: es')
end

/-- an `Environment` that does not distinguish fold-equal names (up to the echo of the name in
    `FunctionNotFound`) -/
structure FoldRespecting (fold : Str → Str) (env : Env N) : Prop where
  var : ∀ n n', fold n = fold n' → env.var n = env.var n'
  call : ∀ n n' args, fold n = fold n' → normNE fold (env.call n args) = normNE fold (env.call n' args)

theorem staticEnv_foldRespecting (fold : Str → Str) (σ : StaticEnv N) : FoldRespecting fold (σ.toEnv fold) := by
  refine ⟨fun n n' h => by simp only [StaticEnv.toEnv, StaticEnv.getVariable, h], fun n n' args h => ?_⟩
  simp only [StaticEnv.toEnv, StaticEnv.call, ← h]
  cases alGet (fold n) σ.fns with
  | none => simp only [normNE, NativeError.foldN, h]
  | some f => rfl

section Eval
variable [NumOps N]

theorem call_norm {fold : Str → Str} {env : Env N} (henv : FoldRespecting fold env) {n n' : Str} (h : fold n = fold n')
    (vs : List (Value N)) (t t' : List (Event N)) (ht : t.map (Event.foldN fold) = t'.map (Event.foldN fold)) :
    normP fold ((match env.call n vs with | .ok v => Except.ok v | .error ne => .error (Err.native n ne)), t ++ [Event.call n vs])
    = normP fold ((match env.call n' vs with | .ok v => Except.ok v | .error ne => .error (Err.native n' ne)),
        t' ++ [Event.call n' vs]) := by
  have hc := henv.call n n' vs h
  simp only [normP, List.map_append, List.map_cons, List.map_nil, Event.foldN, ht, h]
  cases h1 : env.call n vs with
  | ok v =>
    cases h2 : env.call n' vs with
    | ok w => rw [h1, h2] at hc; simp only [normNE] at hc; cases hc; rfl
    | error e => rw [h1, h2] at hc; cases hc
  | error e =>
    cases h2 : env.call n' vs with
    | ok w => rw [h1, h2] at hc; cases hc
    | error e' =>
      rw [h1, h2] at hc; simp only [normNE] at hc
      injection hc with hc
      simp only [normX, Err.foldN, hc, h]

def Inv (fold : Str → Str) (env : Env N) (e : Expr N) : Prop :=
  ∀ e', SameShapeFoldEq fold e e' → normP fold (evalT env e) = normP fold (evalT env e')
def InvL (fold : Str → Str) (env : Env N) (es : List (Expr N)) : Prop :=
  ∀ es', SameShapeFoldEqL fold es es' → normP fold (evalList env es) = normP fold (evalList env es')

/-- equality of normal forms of list results, taken apart -/
theorem normP_list_cases {fold : Str → Str} {x x' : Except Err (List (Value N)) × List (Event N)}
    (h : normP fold x = normP fold x') :
    (∃ vs t t', x = (.ok vs, t) ∧ x' = (.ok vs, t') ∧ t.map (Event.foldN fold) = t'.map (Event.foldN fold)) ∨
    (∃ e e' t t', x = (.error e, t) ∧ x' = (.error e', t') ∧ e.foldN fold = e'.foldN fold ∧
      t.map (Event.foldN fold) = t'.map (Event.foldN fold)) := by
  obtain ⟨x1, x2⟩ := x; obtain ⟨y1, y2⟩ := x'
  simp only [normP, Prod.mk.injEq] at h
  obtain ⟨h1, h2⟩ := h
  cases x1 with
  | ok vs =>
    cases y1 with
    | ok ws => simp only [normX] at h1; cases h1; exact .inl ⟨vs, x2, y2, rfl, rfl, h2⟩
    | error e => cases h1
  | error e =>
    cases y1 with
    | ok ws => cases h1
    | error e' => simp only [normX] at h1; injection h1 with h1; exact .inr ⟨e, e', x2, y2, rfl, rfl, h1, h2⟩

theorem inv_array {fold : Str → Str} {env : Env N} (es : List (Expr N)) (ih : InvL fold env es) :
    Inv fold env (.array es) := by
  intro e' h
  cases h with
  | array hes =>
    simp only [evalT]
    rcases normP_list_cases (ih _ hes) with ⟨vs, t, t', h1, h2, h3⟩ | ⟨e, e', t, t', h1, h2, h3, h4⟩
    · rw [h1, h2]; simp only [normP, normX, h3]
    · rw [h1, h2]; simp only [normP, normX, h3, h4]

theorem inv_call {fold : Str → Str} {env : Env N} (henv : FoldRespecting fold env) (n : Str) (ps : List (Expr N))
    (ih : InvL fold env ps) : Inv fold env (.call n ps) := by
  intro e' h
  cases h with
  | call hn hps =>
    simp only [evalT]
    rcases normP_list_cases (ih _ hps) with ⟨vs, t, t', h1, h2, h3⟩ | ⟨e, e', t, t', h1, h2, h3, h4⟩
    · rw [h1, h2]; exact call_norm henv hn vs t t' h3
    · rw [h1, h2]; simp only [normP, normX, h3, h4]

theorem inv_cons {fold : Str → Str} {env : Env N} (e : Expr N) (es : List (Expr N)) (ih1 : Inv fold env e)
    (ih2 : InvL fold env es) : InvL fold env (e :: es) := by
  intro es' h
  cases h with
  | @cons _ e' _ es' he hes =>
    have h1 := ih1 _ he
    simp only [evalList]
    generalize evalT env e = x at h1
    generalize evalT env e' = x' at h1
    obtain ⟨x1, x2⟩ := x; obtain ⟨y1, y2⟩ := x'
    simp only [normP, Prod.mk.injEq] at h1
    obtain ⟨h1, h2⟩ := h1
    cases x1 with
    | ok v =>
      cases y1 with
      | ok w =>
        simp only [normX] at h1; cases h1
        rcases normP_list_cases (ih2 _ hes) with ⟨vs, t, t', g1, g2, g3⟩ | ⟨e, e', t, t', g1, g2, g3, g4⟩
        · rw [g1, g2]; simp only [normP, normX, List.map_append, h2, g3]
        · rw [g1, g2]; simp only [normP, normX, List.map_append, h2, g3, g4]
      | error e => cases h1
    | error e =>
      cases y1 with
      | ok w => cases h1
      | error e' => simp only [normX] at h1; injection h1 with h1; simp only [normP, normX, h1, h2]

/-- Evaluation is invariant under respelling (fold-equal) of every identifier in the tree: same value, same
    kind of failure, same sequence of environment events — identical after folding the names that error
    payloads and events carry.  Holds for every environment that respects `fold`. -/
theorem eval_case_invariant_env (fold : Str → Str) (env : Env N) (henv : FoldRespecting fold env) (e e' : Expr N)
    (h : SameShapeFoldEq fold e e') : normP fold (evalT env e) = normP fold (evalT env e') := by
  suffices hi : Inv fold env e from hi e' h
  refine Expr.rec (motive_1 := fun e => Inv fold env e) (motive_2 := fun es => InvL fold env es)
    ?_ ?_ ?_ ?_ ?_ ?_ ?_ ?_ ?_ e
  · intro r op ih e' h
    cases h with
    | unary _ hr => simp only [evalT]; rw [un_norm, un_norm, ih _ hr]
  · intro l r op ihl ihr e' h
    cases h with
    | binary _ hl hr => simp only [evalT]; rw [bin_norm, bin_norm, ihl _ hl, ihr _ hr]
  · intro l m r op ihl ihm ihr e' h
    cases h with
    | ternary _ hl hm hr => simp only [evalT]; rw [tern_norm, tern_norm, ihl _ hl, ihm _ hm, ihr _ hr]
  · intro es ih; exact inv_array es ih
  · intro v e' h; cases h; rfl
  · intro n e' h
    cases h with
    | var hn => simp only [evalT, henv.var _ _ hn]; cases env.var _ <;> simp only [normP, normX, Err.foldN, hn, List.map, Event.foldN]
  · intro n ps ih; exact inv_call henv n ps ih
  · intro es' h; cases h; rfl
  · intro e es ih1 ih2; exact inv_cons e es ih1 ih2

/-- C19, consequence: evaluating a tree against a static environment is unaffected by changing the letter case
    (any fold-equal spelling) of the identifiers in it **or** of the names used at registration
    (`SimEnv`: same history, other spellings — see `spelling_irrelevant`). -/
theorem eval_case_invariant (fold : Str → Str) (σ σ' : StaticEnv N) (hσ : SimEnv fold σ σ') (e e' : Expr N)
    (h : SameShapeFoldEq fold e e') :
    normP fold (evalT (σ.toEnv fold) e) = normP fold (evalT (σ'.toEnv fold) e') := by
  rw [← toEnv_sim fold hσ]
  exact eval_case_invariant_env fold _ (staticEnv_foldRespecting fold σ) e e' h

/-- in particular a successful evaluation returns the identical value under every spelling -/
theorem eval_case_invariant_ok (fold : Str → Str) (σ σ' : StaticEnv N) (hσ : SimEnv fold σ σ') (e e' : Expr N)
    (h : SameShapeFoldEq fold e e') (v : Value N) :
    evalR (σ.toEnv fold) e = .ok v ↔ evalR (σ'.toEnv fold) e' = .ok v := by
  have := congrArg Prod.fst (eval_case_invariant fold σ σ' hσ e e' h)
  simp only [normP] at this
  simp only [evalR]
  rw [← normX_ok_iff fold, this, normX_ok_iff]

end Eval

/-! ### ASCII letter case -/

/-- `c` and `d` are the same character up to ASCII letter case -/
def charCaseVariant (c d : Char) : Prop :=
  c = d ∨ (Unicode.inRange c 0x41 0x5A = true ∧ d = Char.ofNat (c.toNat + 32)) ∨
          (Unicode.inRange d 0x41 0x5A = true ∧ c = Char.ofNat (d.toNat + 32))

/-- same length and characterwise equal up to ASCII letter case -/
def asciiCaseVariant : Str → Str → Prop
  | [], [] => True
  | c :: cs, d :: ds => charCaseVariant c d ∧ asciiCaseVariant cs ds
  | _, _ => False

theorem upper_cases : ∀ i : Fin 26,
    Unicode.asciiLowerChar (Char.ofNat (65 + i.val)) = Unicode.asciiLowerChar (Char.ofNat (65 + i.val + 32)) := by
  decide

theorem asciiLowerChar_upper {c : Char} (h : Unicode.inRange c 0x41 0x5A = true) :
    Unicode.asciiLowerChar c = Unicode.asciiLowerChar (Char.ofNat (c.toNat + 32)) := by
  simp only [Unicode.inRange, Bool.and_eq_true, decide_eq_true_eq] at h
  have hc : c = Char.ofNat (65 + (c.toNat - 65)) := by
    rw [show 65 + (c.toNat - 65) = c.toNat by omega, Char.ofNat_toNat]
  have := upper_cases ⟨c.toNat - 65, by omega⟩
  simp only at this
  rw [show 65 + (c.toNat - 65) = c.toNat by omega, Char.ofNat_toNat] at this
  exact this

theorem charCaseVariant_fold {c d : Char} (h : charCaseVariant c d) :
    Unicode.asciiLowerChar c = Unicode.asciiLowerChar d := by
  rcases h with rfl | ⟨h, rfl⟩ | ⟨h, rfl⟩
  · rfl
  · exact asciiLowerChar_upper h
  · exact (asciiLowerChar_upper h).symm

/-- ASCII case variants have the same ASCII fold — so with `fold := Unicode.asciiLower` every theorem above applies
    to names that differ in ASCII letter case. -/
theorem ascii_fold : ∀ {n n' : Str}, asciiCaseVariant n n' → Unicode.asciiLower n = Unicode.asciiLower n'
  | [], [], _ => rfl
  | c :: cs, d :: ds, h => by
    simp only [asciiCaseVariant] at h
    simp only [Unicode.asciiLower, List.map_cons, charCaseVariant_fold h.1]
    exact congrArg _ (ascii_fold h.2)
  | [], _ :: _, h => h.elim
  | _ :: _, [], h => h.elim

/-! ### Non-vacuity: concrete instances (fold := ASCII lower-casing) -/
section Examples
open Unicode

def fMax : Fn N := ⟨['M','a','x'], .polyadic 2 0, true, fun _ => .ok (.bool true), 1⟩
def fMax' : Fn N := ⟨['m','A','X'], .variadic, false, fun args => .ok (.arr args), 2⟩

/-- a history that adds, overwrites under another spelling, looks up, calls, removes, clears and lists -/
def exOps : List (EnvOp N) :=
  [.addVar ['A','b'] (.bool true), .addFn fMax, .addVar ['a','B'] (.str ['x']), .getVar ['A','B'],
   .fnExists ['M','A','X'] 2, .addFn fMax', .fnExists ['m','a','x'] 2, .fnExists ['M','a','X'] 0,
   .call ['m','a','x'] [.bool false], .addVar ['m','a','x'] (.bool false), .removeVar ['a','b'], .varExists ['A','b'],
   .clearVars, .listFns, .getVar ['M','A','X'], .removeFn ['M','A','x'], .call ['M','a','x'] [], .listFns]

example : (run (N := N) asciiLower .empty exOps).2 =
    [.done, .done, .done, .var (some (.str ['x'])),
     .fnRes (.exist true), .done, .fnRes (.exist false), .fnRes (.wrongArity 1 99),
     .result (.ok (.arr [.bool false])), .done, .var (some (.str ['x'])), .bool false,
     .done, .fns [fMax'], .var none, .fn (some fMax'), .result (.error (.functionNotFound ['M','a','x'])), .fns []] := by
  rfl

/-- `env_refines` on this history: the model's 18 answers are the map's answers -/
example (fold : Str → Str) : AllRel (Agree fold) (run (N := N) fold .empty exOps).2 (srun fold .empty exOps).2 :=
  (env_refines fold exOps).1

/-- the same history under other spellings: hypotheses of `spelling_irrelevant` are satisfiable -/
example : AllRel (OpVariant (N := N) asciiLower)
    [.addVar ['A','b'] (.bool true), .addFn fMax, .call ['m','a','x'] [], .removeFn ['M','A','X'], .call ['M','a','x'] []]
    [.addVar ['a','B'] (.bool true), .addFn { fMax with name := ['m','a','x'] }, .call ['M','A','X'] [],
     .removeFn ['m','a','x'], .call ['m','A','x'] []] :=
  .cons (.addVar _ (by decide)) (.cons (.addFn ⟨by rfl, rfl, rfl, rfl, rfl⟩) (.cons (.call _ (by decide))
    (.cons (.removeFn (by decide)) (.cons (.call _ (by decide)) .nil))))

/-- a variable and a function of the same name coexist and do not interact -/
def exBoth : StaticEnv N :=
  ((StaticEnv.empty (N := N)).addVariable asciiLower ['x'] (.bool true)).addFunction asciiLower
    ⟨['X'], .none, true, fun _ => .ok (.str []), 7⟩
example : (exBoth (N := N)).getVariable asciiLower ['X'] = some (.bool true) ∧
    (exBoth (N := N)).functionExists asciiLower ['x'] 0 = .exist true ∧
    ((exBoth (N := N)).removeVariable asciiLower ['X']).1.functionExists asciiLower ['x'] 0 = .exist true ∧
    ((exBoth (N := N)).removeFunction asciiLower ['x']).1.getVariable asciiLower ['x'] = some (.bool true) ∧
    (step asciiLower (step asciiLower (exBoth (N := N)) (.removeVar ['X'])).1 (.fnExists ['x'] 0)).2 =
      (step asciiLower exBoth (.fnExists ['x'] 0)).2 :=
  ⟨rfl, rfl, rfl, rfl, (namespaces_disjoint asciiLower exBoth (.removeVar ['X']) (.fnExists ['x'] 0) rfl rfl).2.2.1⟩

example : asciiCaseVariant ['A','b','_','1'] ['a','B','_','1'] :=
  ⟨.inr (.inl ⟨rfl, rfl⟩), .inr (.inr ⟨rfl, rfl⟩), .inl rfl, .inl rfl, trivial⟩
example : asciiLower ['A','b','_','1'] = asciiLower ['a','B','_','1'] :=
  ascii_fold ⟨.inr (.inl ⟨rfl, rfl⟩), .inr (.inr ⟨rfl, rfl⟩), .inl rfl, .inl rfl, trivial⟩
/-- non-ASCII letters are NOT identified by the ASCII fold (`Ä` vs `ä`), and `asciiCaseVariant` does not claim so -/
example : asciiLower [Char.ofNat 0xC4] ≠ asciiLower [Char.ofNat 0xE4] := by decide

section
variable [NumOps N]
/-- `Ab = max(aB, [X])`  versus  `aB = MAX(AB, [x])` -/
def exTree : Expr N := .binary (.var ['A','b']) (.call ['m','a','x'] [.var ['a','B'], .array [.var ['X']]]) .equal
def exTree' : Expr N := .binary (.var ['a','B']) (.call ['M','A','X'] [.var ['A','B'], .array [.var ['x']]]) .equal

theorem exTree_same : SameShapeFoldEq (N := N) asciiLower exTree exTree' :=
  .binary _ (.var (by decide)) (.call (by decide) (.cons (.var (by decide))
    (.cons (.array (.cons (.var (by decide)) .nil)) .nil)))

def exReg : List (EnvOp N) := [.addVar ['A','B'] (.bool true), .addFn fMax', .addVar ['x'] (.str ['s'])]
def exReg' : List (EnvOp N) :=
  [.addVar ['a','b'] (.bool true), .addFn { fMax' with name := ['M','a','x'] }, .addVar ['X'] (.str ['s'])]
def exEnv : StaticEnv N := (run asciiLower .empty exReg).1
def exEnv' : StaticEnv N := (run asciiLower .empty exReg').1

theorem exEnv_sim : SimEnv (N := N) asciiLower exEnv exEnv' :=
  (spelling_irrelevant asciiLower (ops := exReg) (ops' := exReg')
    (.cons (.addVar _ (by decide)) (.cons (.addFn ⟨by rfl, rfl, rfl, rfl, rfl⟩) (.cons (.addVar _ (by decide)) .nil)))
    (SimEnv.refl _ .empty)).1

example : normP asciiLower (evalT ((exEnv (N := N)).toEnv asciiLower) exTree) =
    normP asciiLower (evalT (exEnv'.toEnv asciiLower) exTree') :=
  eval_case_invariant asciiLower exEnv exEnv' exEnv_sim exTree exTree' exTree_same

/-- an unregistered name: the error echoes the spelling, the normal forms agree -/
example : evalR ((StaticEnv.empty (N := N)).toEnv asciiLower) (.call ['F'] []) = .error (.native ['F'] (.functionNotFound ['F'])) ∧
    evalR ((StaticEnv.empty (N := N)).toEnv asciiLower) (.call ['f'] []) = .error (.native ['f'] (.functionNotFound ['f'])) ∧
    normP asciiLower (evalT ((StaticEnv.empty (N := N)).toEnv asciiLower) (.call ['F'] [])) =
      normP asciiLower (evalT ((StaticEnv.empty (N := N)).toEnv asciiLower) (.call ['f'] [])) :=
  ⟨rfl, rfl, eval_case_invariant asciiLower _ _ (SimEnv.refl _ _) _ _ (.call (by decide) .nil)⟩
end

end Examples

end Slac.C19
