/-
  C09 — every standard-library function is total on arbitrary arguments.
  PARTIAL by nature.  The models of the builtins (SlacModel/Stdlib, StdOrder, Time, Regex) are total Lean functions
  into `Except NativeError (Value N)`: they have no panic outcome, so "never panics" is a claim about the CODE that
  rests on the model/code tie — the `call` stream runs every builtin on generated argument lists in worker
  processes in all four builds (overflow checks on/off x string offset 1/0).  What Lean proves:
  SLAC's own index arithmetic — the one place where the unchanged code could underflow — is total and exact in both
  offset configurations; and, on the table regenerated from the running crate, no builtin panicked on any tuple of
  argument kinds of length <= 5.  Panics inside third-party code (chrono, slice::sort, regex-lite), memory and time
  are visible only to the crash-observing run.
-/
import SlacProofs.Tables
import SlacModel.Stdlib
set_option autoImplicit false
namespace Slac.C09
open Slac.Stdlib
variable {N : Type} [NumX N]

/-- `get_index`: non-negative (and not NaN) ⇒ the saturating cast; otherwise IndexNegative. -/
theorem getIndex_spec (x : N) :
    getIndex x = if NumX.ge0 x then .ok (NumX.toUsize x) else .error .indexNegative := rfl

/-- `get_string_index` never underflows: position p ≥ offset ⇒ index p − offset; a position below the offset
    (only position 0 of a one-based string) ⇒ IndexOutOfBounds, in both configurations. -/
theorem getStringIndex_spec (off : Nat) (x : N) (h : NumX.ge0 x = true) :
    getStringIndex off x = if off ≤ NumX.toUsize x then .ok (NumX.toUsize x - off) else .error (.indexOutOfBounds (NumX.toUsize x)) := by
  simp [getStringIndex, getIndex, h]

theorem getStringIndex_negative (off : Nat) (x : N) (h : NumX.ge0 x = false) :
    getStringIndex off x = .error .indexNegative := by
  simp [getStringIndex, getIndex, h]

/-- with the zero-based feature every non-negative position is an index -/
theorem getStringIndex_zero_based (x : N) (h : NumX.ge0 x = true) : getStringIndex 0 x = .ok (NumX.toUsize x) := by
  simp [getStringIndex, getIndex, h]

/-- the result of `get_string_index`, when it is one, is below the position: it can never wrap around -/
theorem getStringIndex_le (off : Nat) (x : N) (i : Nat) (h : getStringIndex off x = .ok i) : i + off = NumX.toUsize x := by
  cases hx : NumX.ge0 x with
  | false => rw [getStringIndex_negative off x hx] at h; cases h
  | true =>
    rw [getStringIndex_spec off x hx] at h
    split at h
    · cases h; omega
    · cases h

/-- `at` on a string: an index is only ever used through `s[idx]?` — out of range is an error value. -/
theorem at_total (off : Nat) (ps : List (Value N)) : ∃ r, at_ off ps = r := ⟨_, rfl⟩

/-- `insert` checks `idx ≤ length` before splicing (the Rust `Vec::insert` would panic beyond the length). -/
theorem insert_array_checked (vs : List (Value N)) (el : Value N) (x : N) (h : NumX.ge0 x = true)
    (hbig : vs.length < NumX.toUsize x) :
    insert 1 [.arr vs, el, .num x] = .error (.indexOutOfBounds (NumX.toUsize x)) := by
  simp [Stdlib.insert, getIndex, h, hbig]

/-- On the table regenerated from the running crate: no builtin panicked on any of the 1365 kind tuples of length
    ≤ 5 (8 combinations of representative values each). -/
theorem dispatch_no_panic :
    Tables.rowsOk (fun _ d => (List.range Tables.nTuples).all fun t => !Tables.panicFlag d t) = true :=
  Tables.dispatch_no_panic

end Slac.C09
