/-
  C18 for the CONCRETE engine model (SlacModel.RegexEngine): the engine laws of SlacProps.C18 are theorems here,
  and every theorem of SlacProps.C18 is restated without the `LawfulEngine` hypothesis.
-/
import SlacProps.C18
import SlacModel.RegexEngine
import SlacProofs.RegexEngine
import SlacProofs.RegexEngineLit
set_option autoImplicit false
namespace Slac.C18
open Slac.Regex Slac.RegexEngine
open Slac.Stdlib (Res defaultString defaultNumber)
variable {N : Type} [NumX N]

/-- the concrete engine satisfies the engine laws: all four operations are defined from one `search` -/
theorem engine_lawful : LawfulEngine RegexEngine.engine where
  isMatch_iff := by
    intro re h
    simp only [engine, allMatches_eq]
    cases search re (cur0 h) <;> simp
  captures_none := by
    intro re h
    simp only [engine, allMatches_eq]
    cases search re (cur0 h) <;> simp
  captures_some := by
    intro re h cs hcs
    simp only [engine, allMatches_eq] at hcs ⊢
    cases hs : search re (cur0 h) with
    | none => simp [hs] at hcs
    | some x =>
      simp only [hs, Option.map_some, Option.some.injEq] at hcs
      subst hcs
      exact ⟨by simp [Mt.groups], Mt.text h x, _, rfl, by simp [Mt.groups, Mt.text]⟩
  capturesLen_pos := by intro re; simp [engine]


/-! ### the sentences of C18 for the concrete engine, without engine hypotheses -/

/-- `re_is_match` is true iff `re_find` returns at least one match. -/
theorem is_match_iff_find_engine (h p : Str) (b : Bool) (ms : List (Value N))
    (h1 : isMatch engine [.str h, .str p] = (.ok (.bool b) : Res N))
    (h2 : Regex.find engine [.str h, .str p] = .ok (.arr ms)) : (b = true ↔ ms ≠ []) :=
  is_match_iff_find engine engine_lawful h p b ms h1 h2

/-- `re_capture`: `captures_len` empty strings when nothing matches, else one entry per group, the first being the
    first match `re_find` reports. -/
theorem capture_shape_engine (h p : Str) (re : Compiled) (hc : engine.compile p = .ok re) :
    ∃ out : List (Value N), capture engine [.str h, .str p] = .ok (.arr out) ∧ out.length = engine.capturesLen re ∧
      ((engine.findIter re h = [] ∧ out = List.replicate (engine.capturesLen re) (.str [])) ∨
       (∃ m ms, engine.findIter re h = m :: ms ∧ out.head? = some (.str m))) :=
  capture_shape engine engine_lawful h p re hc

theorem capture_same_length_engine (h h' p : Str) (re : Compiled) (hc : engine.compile p = .ok re)
    (o o' : List (Value N)) (h1 : capture engine [.str h, .str p] = .ok (.arr o))
    (h2 : capture engine [.str h', .str p] = .ok (.arr o')) : o.length = o'.length :=
  capture_same_length engine engine_lawful h h' p re hc o o' h1 h2

/-- An invalid pattern yields an error value from every wrapper. -/
theorem invalid_pattern_engine (h p : Str) (msg : Str) (hc : engine.compile p = .error msg) (rest : List (Value N)) :
    isMatch engine [.str h, .str p] = (.error (.custom msg) : Res N) ∧
    Regex.find engine [.str h, .str p] = (.error (.custom msg) : Res N) ∧
    capture engine [.str h, .str p] = (.error (.custom msg) : Res N) ∧
    (∀ r, Regex.replace engine (.str h :: .str p :: rest) = (.ok r : Res N) → False) :=
  invalid_pattern engine h p msg hc rest

/-- the spans `re_find` reports -/
def spans (re : Compiled) (h : Str) : List (Nat × Nat) := (allMatches re h).map Mt.span

theorem findIter_eq_spans (re : Compiled) (h : Str) :
    engine.findIter re h = (spans re h).map fun se => extract h se.1 se.2 := by
  simp [engine, spans, Mt.text, Mt.span, Function.comp_def]

/-- `re_replace` with plain replacement text (no `$`): `re_find` returns the texts of `spans`, and `re_replace`
    with limit `n` puts the replacement for exactly the first `n` of these spans (all of them for limit 0 or no
    limit) and copies everything else. -/
theorem replace_rewrites_found_matches_engine (h p rep : Str) (hp : '$' ∉ rep) (re : Compiled)
    (hc : engine.compile p = .ok re) (n : N) :
    Regex.find engine [.str h, .str p] = (.ok (.arr ((spans re h).map fun se => .str (extract h se.1 se.2))) : Res N) ∧
    Regex.replace engine [.str h, .str p, .str rep, .num n] =
      (.ok (.str (splicePlain h rep 0
        (if NumX.floorUsize n = 0 then spans re h else (spans re h).take (NumX.floorUsize n)))) : Res N) := by
  refine ⟨?_, ?_⟩
  · simp [Regex.find, withRe, hc, findIter_eq_spans, Function.comp_def]
  · rw [(replace_is_replacen (N := N) engine h p re hc).2.2 rep n]
    show (.ok (.str (replacen re h (NumX.floorUsize n) rep)) : Res N) = _
    rw [replacen_plain re h rep _ hp]
    simp only [spans]
    split <;> simp [List.map_take]

/-- the engine law for escaped literals, for plain replacement text: the matches are the leftmost
    non-overlapping occurrences of the literal -/
theorem literal_law_engine (lit h : Str) (re : Compiled) (hc : engine.compile (escape lit) = .ok re) :
    (engine.findIter re h).length = Seq.countOcc lit h ∧
    (∀ rep, '$' ∉ rep → engine.replacen re h 0 rep = Seq.replaceSeq lit rep h) := by
  have hre : re = litRe lit := compile_escape lit re hc
  subst hre
  refine ⟨?_, ?_⟩
  · have := congrArg List.length (allMatches_lit lit h)
    simp only [List.length_map] at this
    simp [engine, this, litSpans_length, Seq.countOcc_eq_occCount]
  · intro rep hp
    show replacen (litRe lit) h 0 rep = _
    rw [replacen_plain _ h rep 0 hp]
    simp only [if_true, allMatches_lit]
    rw [splice_litSpans lit rep h 0 0 h rfl (Nat.le_refl _) (Nat.zero_le _)]
    simp [extract_self, Seq.replaceSeq_eq_replaceAll]

/-- A pattern that is an escaped literal behaves exactly like `contains`, `count` and (with plain replacement
    text) `replace` on that literal. -/
theorem literal_pattern_engine (hz : NumX.floorUsize (NumOps.zero : N) = 0)
    (lit h rep : Str) (hp : '$' ∉ rep) (re : Compiled) (hc : engine.compile (escape lit) = .ok re) :
    isMatch engine [.str h, .str (escape lit)] = (Stdlib.contains [.str h, .str lit] : Res N) ∧
    (∃ ms, Regex.find engine [.str h, .str (escape lit)] = (.ok (.arr ms) : Res N) ∧
      Stdlib.count [.str h, .str lit] = (.ok (.num (NumX.ofNat ms.length)) : Res N)) ∧
    Regex.replace engine [.str h, .str (escape lit), .str rep] = (Stdlib.replace [.str h, .str lit, .str rep] : Res N) := by
  obtain ⟨hlen, hrep⟩ := literal_law_engine lit h re hc
  refine ⟨?_, ?_, ?_⟩
  · simp only [isMatch, withRe, hc, Stdlib.contains, engine_lawful.isMatch_iff, Seq.containsSeq, ← hlen]
    cases engine.findIter re h <;> simp
  · exact ⟨(engine.findIter re h).map .str, by simp [Regex.find, withRe, hc], by simp [Stdlib.count, hlen]⟩
  · rw [(replace_is_replacen (N := N) engine h (escape lit) re hc).2.1 rep, hz, hrep rep hp]
    simp [Stdlib.replace, defaultString]

/-! ### non-vacuity: the model evaluated on concrete inputs -/

/-- `(\d+)-(x)?` -/
def exPat : Str := ['(', '\\', 'd', '+', ')', '-', '(', 'x', ')', '?']
def exHay : Str := ['a', '1', '2', '-', 'b', '7', '-', 'x']

example : (compile exPat).toOption.map (fun re => engine.findIter re exHay) =
    some [['1', '2', '-'], ['7', '-', 'x']] := by decide
example : (compile exPat).toOption.map (fun re => engine.captures re exHay) =
    some (some [some ['1', '2', '-'], some ['1', '2'], none]) := by decide
example : (compile exPat).toOption.map (fun re => engine.replacen re exHay 1 ['<', '$', '1', '>']) =
    some ['a', '<', '1', '2', '>', 'b', '7', '-', 'x'] := by decide
example : (compile exPat).toOption.map (fun re => engine.capturesLen re) = some 3 := by decide
example : (compile ['(', 'a']).toOption = none := by decide
example : supported ['(', 'a', '*', ')', '*'] = false := by decide
example : (compile (escape ['a', '.', 'b'])).toOption.map (·.ast) = some (litAst ['a', '.', 'b']) := by decide

end Slac.C18
