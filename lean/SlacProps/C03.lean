/-
  C03 — execute computes the value the language definition prescribes.
  Model: SlacModel.Interp (`evalT`, tied to src/interpreter.rs + src/value.rs by the `eval`, `cmp`, `num` streams).
  Spec:  SlacModel.Spec  (`spec`, DESIGN Appendix A).
  All theorems hold for every number implementation `N`, every environment and every tree — including
  trees with any operator in any position.
-/
import SlacProofs.Refine
import SlacProofs.InterpLemmas
set_option autoImplicit false
namespace Slac.C03
variable {N : Type} [NumOps N]

/-- Main theorem: the value — or the winning error — that `execute` returns is the one the language
    definition prescribes. -/
theorem execute_eq_spec (env : Env N) (e : Expr N) : evalR env e = (spec env e).1.toExcept :=
  ((Slac.execute_eq_spec env e).1).symm

/-- `and`, `or`, `xor`, `=`, `<>` and the four comparisons yield a Boolean whenever they succeed —
    with defined, undefined or failing operands on either side. -/
theorem boolean_results (env : Env N) (l r : Expr N) (op : Op) (hop : op ∈ boolOps) (v : Value N)
    (h : evalR env (.binary l r op) = .ok v) : v.isBoolean = true := by
  simp only [evalR, evalT] at h
  exact binModel_bool hop h

/-- `not` yields a Boolean whenever it succeeds. -/
theorem not_boolean (env : Env N) (r : Expr N) (v : Value N)
    (h : evalR env (.unary r .not) = .ok v) : v.isBoolean = true := by
  simp only [evalR, evalT] at h
  generalize evalT env r = m at h
  obtain ⟨m1, m2⟩ := m
  cases m1 with
  | ok w => simp only [unModel, Value.not] at h; cases h; rfl
  | error e => simp only [unModel] at h; cases h

/-- Arithmetic never coerces: `- * / div mod` succeed only when both operands evaluated to Numbers, and the
    result is a Number. -/
theorem arithmetic_never_coerces (env : Env N) (l r : Expr N) (op : Op) (hop : op ∈ arithOps) (v : Value N)
    (h : evalR env (.binary l r op) = .ok v) :
    ∃ a b c : N, evalR env l = .ok (.num a) ∧ evalR env r = .ok (.num b) ∧ v = .num c := by
  simp only [evalR, evalT] at h ⊢
  have hop' := hop
  simp only [arithOps, List.mem_cons, List.mem_nil_iff, or_false] at hop'
  obtain ⟨a, b, ha, hb, hv⟩ := binModel_strict_ok (by rcases hop' with rfl | rfl | rfl | rfl | rfl <;> decide)
    (by rcases hop' with rfl | rfl | rfl | rfl | rfl <;> decide) (by rcases hop' with rfl | rfl | rfl | rfl | rfl <;> decide)
    (by rcases hop' with rfl | rfl | rfl | rfl | rfl <;> decide) h
  obtain ⟨x, y, z, rfl, rfl, rfl⟩ := binVal_arith hop hv
  exact ⟨x, y, z, ha, hb, rfl⟩

/-- `+` succeeds only on two Strings, two Numbers or two Arrays (concatenation / IEEE addition). -/
theorem plus_same_kind (env : Env N) (l r : Expr N) (v : Value N)
    (h : evalR env (.binary l r .plus) = .ok v) :
    (∃ a b, evalR env l = .ok (.str a) ∧ evalR env r = .ok (.str b) ∧ v = .str (a ++ b)) ∨
    (∃ a b, evalR env l = .ok (.num a) ∧ evalR env r = .ok (.num b) ∧ v = .num (NumOps.add a b)) ∨
    (∃ a b, evalR env l = .ok (.arr a) ∧ evalR env r = .ok (.arr b) ∧ v = .arr (a ++ b)) := by
  simp only [evalR, evalT] at h ⊢
  obtain ⟨a, b, ha, hb, hv⟩ := binModel_strict_ok (by decide) (by decide) (by decide) (by decide) h
  rw [ha, hb]
  simp only [binVal] at hv
  cases a <;> cases b <;> simp only [Value.add] at hv <;> cases hv
  · exact .inl ⟨_, _, rfl, rfl, rfl⟩
  · exact .inr (.inl ⟨_, _, rfl, rfl, rfl⟩)
  · exact .inr (.inr ⟨_, _, rfl, rfl, rfl⟩)

/-- An operator in ternary position other than the conditional fails without evaluating anything. -/
theorem misplaced_ternary (env : Env N) (l m r : Expr N) (op : Op) (hop : op ≠ .ternaryCondition) :
    evalT env (.ternary l m r op) = (.error (.invalidTernary op), []) := by
  simp only [evalT]
  cases op <;> first | exact absurd rfl hop | rfl

/-- An undefined variable behaves as the empty value under `=`: `u = e` is `isEmpty (value of e)`. -/
theorem undefined_eq_empty (env : Env N) (u : Str) (r : Expr N) (v : Value N) (hu : env.var u = none)
    (hr : evalR env r = .ok v) : evalR env (.binary (.var u) r .equal) = .ok (.bool v.isEmpty) := by
  simp only [evalR, evalT, hu] at hr ⊢
  generalize evalT env r = mr at hr ⊢
  obtain ⟨r1, r2⟩ := mr
  simp only at hr; subst hr
  rfl

/-- An undefined variable behaves as the empty value under `or`: `u or e` is `asBool (value of e)` — a Boolean. -/
theorem undefined_or (env : Env N) (u : Str) (r : Expr N) (v : Value N) (hu : env.var u = none)
    (hr : evalR env r = .ok v) : evalR env (.binary (.var u) r .or) = .ok (.bool v.asBool) := by
  simp only [evalR, evalT, hu] at hr ⊢
  generalize evalT env r = mr at hr ⊢
  obtain ⟨r1, r2⟩ := mr
  simp only at hr; subst hr
  rfl

/-- The first failing operand wins: a failing (not merely undefined) left operand is the result of every
    binary node, whatever the operator and the right operand. -/
theorem left_failure_wins (env : Env N) (l r : Expr N) (op : Op) (e : Err) (hne : ∀ n, e ≠ .undefinedVariable n)
    (hl : evalR env l = .error e) : evalR env (.binary l r op) = .error e := by
  simp only [evalR, evalT] at hl ⊢
  generalize evalT env l = ml at hl ⊢
  obtain ⟨l1, l2⟩ := ml
  simp only at hl; subst hl
  cases e <;> first | exact absurd rfl (hne _) | (cases op <;> rfl)

end Slac.C03
