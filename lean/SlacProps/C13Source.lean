/-
  C13 — the translator leg of the tie for the ordering of values.  `SlacModel/Generated/SrcOrder.lean` is REGENERATED
  on every check run by /verif/tools/rs2lean.py from the current text of /repo/src/value.rs (`Ord::cmp` with its
  `partial_ord` match and the `unwrap_or(ordinal.cmp(ordinal))` fallback, `PartialEq::eq`, `ordinal`, `empty`,
  `is_empty`, `as_bool`).  The theorems say that the hand-written model of SlacModel/Value.lean is exactly the
  translated source:
    `Value.ordinal = ordinal`, `Value.cmp = cmp`, `Value.cmpList = cmpList`, `Value.eq = eq`, `Value.eqList = eqList`,
    `Value.empty = empty`, `Value.isEmpty = is_empty`, `Value.asBool = as_bool`.
  The model writes the fallback of the mixed text/number arms as the literal `.lt` / `.gt`; the source computes it as
  `cmpNat (ordinal self) (ordinal other)` (`cmpNat 1 2 = .lt`, `cmpNat 2 1 = .gt`): the proofs split on the parse and
  on the partial comparison.  A changed arm in value.rs changes the generated file and breaks one of these proofs.
-/
import SlacModel.Generated.SrcOrder
import SlacModel.Value
set_option autoImplicit false
set_option linter.unusedSectionVars false
set_option linter.unusedSimpArgs false
namespace Slac.C13Source
open Slac.Generated
variable {N : Type} [NumOps N]

theorem ordinal_is_source (v : Value N) : Value.ordinal v = SrcOrder.ordinal v := by
  cases v <;> rfl

theorem empty_is_source (v : Value N) : Value.empty v = SrcOrder.empty v := by
  cases v <;> rfl

/-- `Ord::cmp` and the slice comparison it uses, at once (`Value` is a nested inductive: explicit recursor) -/
theorem cmp_both :
    (∀ a b : Value N, Value.cmp a b = SrcOrder.cmp a b) ∧
    (∀ as bs : List (Value N), Value.cmpList as bs = SrcOrder.cmpList as bs) := by
  have key : ∀ a : Value N, ∀ b, Value.cmp a b = SrcOrder.cmp a b := by
    intro a
    refine Value.rec
      (motive_1 := fun a => ∀ b, Value.cmp a b = SrcOrder.cmp a b)
      (motive_2 := fun as => ∀ bs, Value.cmpList as bs = SrcOrder.cmpList as bs)
      ?_ ?_ ?_ ?_ ?_ ?_ a
    · intro x b
      cases b <;> simp [Value.cmp, SrcOrder.cmp, Value.ordinal, SrcOrder.ordinal, cmpNat]
    · intro x b
      cases b <;> simp [Value.cmp, SrcOrder.cmp, Value.ordinal, SrcOrder.ordinal, cmpNat] <;>
        (try split) <;> simp_all
    · intro x b
      cases b <;> simp [Value.cmp, SrcOrder.cmp, Value.ordinal, SrcOrder.ordinal, cmpNat] <;>
        (try split) <;> simp_all
    · intro xs ih b
      cases b <;> simp [Value.cmp, SrcOrder.cmp, Value.ordinal, SrcOrder.ordinal, cmpNat, ih]
    · intro bs
      cases bs <;> simp [Value.cmpList, SrcOrder.cmpList]
    · intro x xs ihx ihxs bs
      cases bs <;> simp [Value.cmpList, SrcOrder.cmpList, ihx, ihxs] <;> (try split) <;> simp_all
  refine ⟨key, fun as => ?_⟩
  induction as with
  | nil => intro bs; cases bs <;> simp [Value.cmpList, SrcOrder.cmpList]
  | cons x xs ih => intro bs; cases bs <;> simp [Value.cmpList, SrcOrder.cmpList, key, ih] <;> (try split) <;> simp_all

/-- src/value.rs `impl Ord for Value`: `cmp` -/
theorem cmp_is_source (a b : Value N) : Value.cmp a b = SrcOrder.cmp a b := cmp_both.1 a b

/-- `<[Value] as PartialOrd>::partial_cmp` -/
theorem cmpList_is_source (as bs : List (Value N)) : Value.cmpList as bs = SrcOrder.cmpList as bs :=
  cmp_both.2 as bs

/-- `PartialEq::eq` and the slice equality it uses, at once -/
theorem eq_both :
    (∀ a b : Value N, Value.eq a b = SrcOrder.eq a b) ∧
    (∀ as bs : List (Value N), Value.eqList as bs = SrcOrder.eqList as bs) := by
  have key : ∀ a : Value N, ∀ b, Value.eq a b = SrcOrder.eq a b := by
    intro a
    refine Value.rec
      (motive_1 := fun a => ∀ b, Value.eq a b = SrcOrder.eq a b)
      (motive_2 := fun as => ∀ bs, Value.eqList as bs = SrcOrder.eqList as bs)
      ?_ ?_ ?_ ?_ ?_ ?_ a
    · intro x b; cases b <;> simp [Value.eq, SrcOrder.eq, cmp_is_source]
    · intro x b; cases b <;> simp [Value.eq, SrcOrder.eq, cmp_is_source]
    · intro x b; cases b <;> simp [Value.eq, SrcOrder.eq, cmp_is_source]
    · intro xs ih b; cases b <;> simp [Value.eq, SrcOrder.eq, cmp_is_source, ih]
    · intro bs; cases bs <;> simp [Value.eqList, SrcOrder.eqList]
    · intro x xs ihx ihxs bs; cases bs <;> simp [Value.eqList, SrcOrder.eqList, ihx, ihxs]
  refine ⟨key, fun as => ?_⟩
  induction as with
  | nil => intro bs; cases bs <;> simp [Value.eqList, SrcOrder.eqList]
  | cons x xs ih => intro bs; cases bs <;> simp [Value.eqList, SrcOrder.eqList, key, ih]

/-- src/value.rs `impl PartialEq for Value`: `eq` -/
theorem eq_is_source (a b : Value N) : Value.eq a b = SrcOrder.eq a b := eq_both.1 a b

/-- `<[Value] as PartialEq>::eq` -/
theorem eqList_is_source (as bs : List (Value N)) : Value.eqList as bs = SrcOrder.eqList as bs :=
  eq_both.2 as bs

/-- src/value.rs `is_empty` -/
theorem isEmpty_is_source (v : Value N) : Value.isEmpty v = SrcOrder.is_empty v := by
  simp only [Value.isEmpty, SrcOrder.is_empty, eq_is_source, empty_is_source]

/-- src/value.rs `as_bool` -/
theorem asBool_is_source (v : Value N) : Value.asBool v = SrcOrder.as_bool v := by
  cases v <;> simp [Value.asBool, SrcOrder.as_bool, isEmpty_is_source]

end Slac.C13Source
