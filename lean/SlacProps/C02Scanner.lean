/-
  SlacProps.C02Scanner — the hand-written scanner model (SlacModel/Scanner.lean), about which the scanner theorems of C02 / C07 are stated, IS the
  function that tools/rs2lean_scanner.py translates from the current text of src/scanner.rs (SlacModel/Generated/SrcScanner.lean).
  The model works on the remaining text, the source on two cursors into a fixed character vector: the simulation relates a source state `s` to the
  model's remaining text `src.drop s.current`.
-/
import SlacModel.Scanner
import SlacModel.Generated.SrcScanner
import SlacProofs.ScannerLoop
import SlacProofs.SeqToy
set_option autoImplicit false
set_option linter.unusedSimpArgs false
set_option linter.unusedSectionVars false
set_option linter.unusedVariables false
namespace Slac.C02Scanner
open Slac Slac.Scanner Slac.SrcScanner Slac.Generated Slac.Generated.SrcScanner
variable {N : Type} [NumOps N] {α β : Type}

/-- the outcome of `x >>= k`, given the outcome of `x` -/
def bindOut (r : COut N (α × SState)) (k : α → SM N β) : COut N (β × SState) :=
  match r with
  | .ok (a, s') => k a s'
  | .err e => .err e
  | .outOfFuel => .outOfFuel
  | .panic => .panic
@[simp] theorem bindOut_ok (a : α) (s : SState) (k : α → SM N β) : bindOut (.ok (a, s)) k = k a s := rfl
@[simp] theorem bindOut_err (e : CErr N) (k : α → SM N β) : bindOut (.err e : COut N (α × SState)) k = .err e := rfl
@[simp] theorem bindOut_oof (k : α → SM N β) : bindOut (.outOfFuel : COut N (α × SState)) k = .outOfFuel := rfl
@[simp] theorem bindOut_panic (k : α → SM N β) : bindOut (.panic : COut N (α × SState)) k = .panic := rfl
@[simp] theorem bind_apply (x : SM N α) (k : α → SM N β) (s : SState) : (SM.bind x k) s = bindOut (x s) k := rfl
@[simp] theorem pure_apply (a : α) (s : SState) : (SM.pure a : SM N α) s = .ok (a, s) := rfl
@[simp] theorem get_start_apply (s : SState) : (get_start : SM N Nat) s = .ok (s.start, s) := rfl
@[simp] theorem get_current_apply (s : SState) : (get_current : SM N Nat) s = .ok (s.current, s) := rfl
@[simp] theorem set_start_apply (n : Nat) (s : SState) : (set_start n : SM N Unit) s = .ok ((), { s with start := n }) := rfl
@[simp] theorem set_current_apply (n : Nat) (s : SState) : (set_current n : SM N Unit) s = .ok ((), { s with current := n }) := rfl
@[simp] theorem throwE_apply (e : CErr N) (s : SState) : (throwE e : SM N α) s = .err e := rfl
@[simp] theorem outOfFuel_apply (s : SState) : (SrcScanner.outOfFuel : SM N α) s = .outOfFuel := rfl
@[simp] theorem okOr_some (a : α) (e : CErr N) (s : SState) : (okOr (some a) e : SM N α) s = .ok (a, s) := rfl
@[simp] theorem okOr_none (e : CErr N) (s : SState) : (okOr none e : SM N α) s = .err e := rfl
@[simp] theorem usub_apply (a b : Nat) (s : SState) : (usub a b : SM N Nat) s = if b ≤ a then .ok (a - b, s) else .panic := rfl
@[simp] theorem ite_app {p : Prop} [Decidable p] (x y : SM N α) (s : SState) : (if p then x else y) s = if p then x s else y s := by
  split <;> rfl

/-! ### the small methods -/
variable (fuel : Nat) (cc : CharClass) (src : Str)

@[simp] theorem peek_ahead_apply (k : Nat) (s : SState) : (peek_ahead (N := N) fuel cc src k) s = .ok (src[s.current + k]?, s) := rfl
@[simp] theorem peek_apply (s : SState) : (peek (N := N) fuel cc src) s = .ok (src[s.current]?, s) := rfl
@[simp] theorem advance_apply (s : SState) : (advance (N := N) fuel cc src) s = .ok ((), { s with current := s.current + 1 }) := rfl
@[simp] theorem next_char_apply (s : SState) :
    (next_char (N := N) fuel cc src) s = .ok (src[s.current]?, { s with current := s.current + 1 }) := by
  simp [next_char, bind, pure]
@[simp] theorem is_at_end_apply (s : SState) : (is_at_end (N := N) fuel cc src) s = .ok (decide (s.current ≥ src.length), s) := rfl
theorem get_content_apply (k : Nat) (s : SState) (h : k ≤ s.current) :
    (get_content (N := N) fuel cc src k) s = .ok ((src.take (s.current - k)).drop (s.start + k), s) := by
  simp [get_content, bind, pure, h]

/-! ### list facts -/
theorem lt_of_get_some {l : Str} {c : Nat} {ch : Char} (h : l[c]? = some ch) : c < l.length := by
  rcases Nat.lt_or_ge c l.length with h' | h'
  · exact h'
  · rw [List.getElem?_eq_none h'] at h; cases h
theorem drop_some {l : Str} {c : Nat} {ch : Char} (h : l[c]? = some ch) : l.drop c = ch :: l.drop (c + 1) := by
  have hl := lt_of_get_some h
  rw [List.getElem?_eq_getElem hl] at h
  injection h with h; subst h
  exact List.drop_eq_getElem_cons hl
theorem drop_none {l : Str} {c : Nat} (h : l[c]? = none) : l.drop c = [] := by
  rw [List.getElem?_eq_none_iff] at h
  exact List.drop_eq_nil_of_le h

/-- where a `while peek() satisfies p { advance() }` loop started at cursor `c` stops -/
def adv (p : Char → Bool) (l : Str) (c : Nat) : Nat := c + ((l.drop c).takeWhile p).length

theorem adv_end {p : Char → Bool} {l : Str} {c : Nat} (h : l[c]? = none) : adv p l c = c := by
  simp [adv, drop_none h]
theorem adv_stop {p : Char → Bool} {l : Str} {c : Nat} {ch : Char} (h : l[c]? = some ch) (hp : p ch = false) : adv p l c = c := by
  simp [adv, drop_some h, List.takeWhile, hp]
theorem adv_step {p : Char → Bool} {l : Str} {c : Nat} {ch : Char} (h : l[c]? = some ch) (hp : p ch = true) : adv p l c = adv p l (c + 1) := by
  simp [adv, drop_some h, List.takeWhile, hp]; omega

theorem ws_loop (f : Nat) (s : SState) (hf : src.length - s.current < f) :
    skip_whitespace_loop1_loop1 (N := N) fuel cc src f s = .ok ((), { s with current := adv isWs src s.current }) := by
  induction f generalizing s with
  | zero => omega
  | succ f ih =>
    simp only [skip_whitespace_loop1_loop1, bind, pure, bind_apply, peek_apply, bindOut_ok, ite_app, advance_apply, pure_apply]
    cases h : src[s.current]? with
    | none => simp [adv_end h]
    | some ch =>
      have hl := lt_of_get_some h
      by_cases hp : isWs ch = true
      · have hs := adv_step (p := isWs) h hp
        have hc : ((some ch == some ' ') || (some ch == some '\r') || (some ch == some '\t') || (some ch == some '\n')) = true := by
          simpa [isWs] using hp
        simp only [hc, if_true]
        rw [ih { s with current := s.current + 1 } (by simp; omega), hs]
      · have hp' : isWs ch = false := by simpa using hp
        have hs := adv_stop (p := isWs) h hp'
        have hc : ((some ch == some ' ') || (some ch == some '\r') || (some ch == some '\t') || (some ch == some '\n')) = false := by
          simpa [isWs] using hp'
        simp only [hc, hs]; simp

theorem isIdent_eq (c : Char) : is_identifier cc c = isIdentCont cc c := rfl
theorem isIdentStart_eq (c : Char) : is_identifier_start cc c = isIdentStart cc c := rfl

theorem ident_loop (f : Nat) (s : SState) (hf : src.length - s.current < f) :
    identifier_loop1 (N := N) fuel cc src f s = .ok ((), { s with current := adv (isIdentCont cc) src s.current }) := by
  induction f generalizing s with
  | zero => omega
  | succ f ih =>
    simp only [identifier_loop1, bind, pure, bind_apply, peek_apply, bindOut_ok, ite_app, advance_apply, pure_apply]
    cases h : src[s.current]? with
    | none => simp [adv_end h]
    | some ch =>
      have hl := lt_of_get_some h
      cases hp : isIdentCont cc ch with
      | true =>
        simp only [isIdent_eq, hp, if_true]
        rw [ih { s with current := s.current + 1 } (by simp; omega), adv_step h hp]
      | false => simp [isIdent_eq, hp, adv_stop h hp]

theorem num_loop (f : Nat) (s : SState) (hf : src.length - s.current < f) :
    advance_numeric_loop1 (N := N) fuel cc src f s = .ok ((), { s with current := adv cc.isNumeric src s.current }) := by
  induction f generalizing s with
  | zero => omega
  | succ f ih =>
    simp only [advance_numeric_loop1, bind, pure, bind_apply, peek_apply, bindOut_ok, ite_app, advance_apply, pure_apply]
    cases h : src[s.current]? with
    | none => simp [adv_end h]
    | some ch =>
      have hl := lt_of_get_some h
      cases hp : cc.isNumeric ch with
      | true =>
        simp only [hp, if_true, ite_app, bind_apply, advance_apply, bindOut_ok]
        rw [ih { s with current := s.current + 1 } (by simp; omega), adv_step h hp]
      | false => simp [hp, adv_stop h hp]

/-- the predicate of the inner loop of `string()`: not the quote -/
def nq : Char → Bool := fun c => c != '\''

theorem strq_loop (f : Nat) (s : SState) (hf : src.length - s.current < f) :
    string_loop1_loop1 (N := N) fuel cc src f s = .ok ((), { s with current := adv nq src s.current }) := by
  induction f generalizing s with
  | zero => omega
  | succ f ih =>
    simp only [string_loop1_loop1, bind, pure, bind_apply, peek_apply, bindOut_ok, ite_app, advance_apply, pure_apply]
    cases h : src[s.current]? with
    | none => simp [adv_end h]
    | some ch =>
      have hl := lt_of_get_some h
      cases hp : (ch != '\'') with
      | true =>
        simp only [hp, if_true]
        rw [ih { s with current := s.current + 1 } (by simp; omega), adv_step (p := nq) h hp]
      | false => simp [hp, adv_stop (p := nq) h hp]

@[simp] theorem advance_numeric_apply (s : SState) :
    advance_numeric (N := N) (src.length + 1) cc src s = .ok ((), { s with current := adv cc.isNumeric src s.current }) := by
  simp only [advance_numeric, bind, pure, bind_apply, pure_apply]
  rw [num_loop _ cc src (src.length + 1) s (by omega)]; rfl

/-! ### `adv` and takeWhile / dropWhile -/
theorem take_length_takeWhile (p : Char → Bool) (m : Str) : m.take (m.takeWhile p).length = m.takeWhile p := by
  induction m with
  | nil => rfl
  | cons a m ih => by_cases h : p a <;> simp [List.takeWhile, h, ih]
theorem drop_length_takeWhile (p : Char → Bool) (m : Str) : m.drop (m.takeWhile p).length = m.dropWhile p := by
  induction m with
  | nil => rfl
  | cons a m ih => by_cases h : p a <;> simp [List.takeWhile, List.dropWhile, h, ih]
theorem drop_adv (p : Char → Bool) (l : Str) (c : Nat) : l.drop (adv p l c) = (l.drop c).dropWhile p := by
  unfold adv; rw [← List.drop_drop, drop_length_takeWhile]
theorem take_adv (p : Char → Bool) (l : Str) (c : Nat) : (l.take (adv p l c)).drop c = (l.drop c).takeWhile p := by
  unfold adv; rw [List.drop_take]; simp [take_length_takeWhile]
theorem adv_ge (p : Char → Bool) (l : Str) (c : Nat) : c ≤ adv p l c := by unfold adv; omega
theorem adv_le (p : Char → Bool) (l : Str) (c : Nat) (h : c ≤ l.length) : adv p l c ≤ l.length := by
  unfold adv
  have h1 : ((l.drop c).takeWhile p).length ≤ (l.drop c).length := by
    exact (List.takeWhile_sublist (l := l.drop c) p).length_le
  simp at h1; omega

/-- content of a token that started at `st` with character `ch` and ends where the cursor stands: `ch` and the text between -/
theorem take_drop_cons {l : Str} {st e : Nat} {ch : Char} (h : l[st]? = some ch) (he : st + 1 ≤ e) :
    (l.take e).drop st = ch :: (l.take e).drop (st + 1) := by
  have hl := lt_of_get_some h
  have : (l.take e)[st]? = some ch := by rw [List.getElem?_take]; simp [show st < e by omega, h]
  exact drop_some this

/-! ### identifier -/
/-- the keyword table as the token-level function both sides compute -/
def kwOf (low ident : Str) : Token N := match kwToken (N := N) low with | some t => t | none => .identifier ident

theorem kwOf_eq (low ident : Str) : kwOf (N := N) low ident =
    if low == ['t', 'r', 'u', 'e'] then .literal (.bool true) else
    if low == ['f', 'a', 'l', 's', 'e'] then .literal (.bool false) else
    if low == ['a', 'n', 'd'] then .and else if low == ['o', 'r'] then .or else if low == ['x', 'o', 'r'] then .xor else
    if low == ['n', 'o', 't'] then .not else if low == ['d', 'i', 'v'] then .div else if low == ['m', 'o', 'd'] then .mod else .identifier ident := by
  unfold kwOf kwToken keywords
  simp only [List.lookup]
  repeat' split
  all_goals simp_all

theorem identifier_apply (s : SState) (ch : Char) (h0 : src[s.start]? = some ch) (hc : s.current = s.start + 1) :
    SrcScanner.identifier (N := N) (src.length + 1) cc src s =
      .ok ((Scanner.identifier (N := N) cc ch (src.drop (s.start + 1))).1, { s with current := adv (isIdentCont cc) src (s.start + 1) }) := by
  have hl := lt_of_get_some h0
  simp only [SrcScanner.identifier, bind, pure, bind_apply, bindOut_ok]
  rw [ident_loop _ cc src (src.length + 1) s (by omega)]
  simp only [bindOut_ok, bind_apply]
  rw [get_content_apply _ cc src 0 _ (by simp)]
  simp only [bindOut_ok, Nat.sub_zero, Nat.add_zero, hc]
  have hcont : (List.take (adv (isIdentCont cc) src (s.start + 1)) src).drop s.start = ch :: (src.drop (s.start + 1)).takeWhile (isIdentCont cc) := by
    rw [take_drop_cons h0 (adv_ge _ _ _), take_adv]
  rw [hcont]
  have hm : (Scanner.identifier (N := N) cc ch (src.drop (s.start + 1))).1 =
      kwOf (cc.lowerStr (ch :: (src.drop (s.start + 1)).takeWhile (isIdentCont cc))) (ch :: (src.drop (s.start + 1)).takeWhile (isIdentCont cc)) := by
    simp only [Scanner.identifier, kwOf]; split <;> simp_all
  rw [hm, kwOf_eq]
  simp only [ite_app, pure_apply]
  repeat' split
  all_goals rfl

/-! ### number -/
/-- where `number()` stops: after the integral digits, and after `.` and the fraction digits when a `.` follows -/
def numEnd (st : Nat) : Nat :=
  let c1 := adv cc.isNumeric src (st + 1)
  if src[c1]? = some '.' then adv cc.isNumeric src (c1 + 1) else c1

theorem take_split (l : Str) (a b : Nat) (h : a ≤ b) : (l.take b).drop a = (l.drop a).take (b - a) := by
  rw [List.drop_take]

theorem numberLex_spec (st : Nat) (ch : Char) :
    numberLex cc ch (src.drop (st + 1)) = (ch :: (src.take (numEnd cc src st)).drop (st + 1), src.drop (numEnd cc src st)) := by
  have hdw : (src.drop (st + 1)).dropWhile cc.isNumeric = src.drop (adv cc.isNumeric src (st + 1)) := (drop_adv _ _ _).symm
  have htw : (src.drop (st + 1)).takeWhile cc.isNumeric = (src.take (adv cc.isNumeric src (st + 1))).drop (st + 1) := (take_adv _ _ _).symm
  unfold numberLex numEnd
  simp only [hdw]
  cases h : src[adv cc.isNumeric src (st + 1)]? with
  | none => simp [drop_none h, htw]
  | some d =>
    rw [drop_some h]
    by_cases hd : d = '.'
    · subst hd
      simp only [if_true]
      have h1 := adv_ge cc.isNumeric src (st + 1)
      have h2 := adv_ge cc.isNumeric src (adv cc.isNumeric src (st + 1) + 1)
      rw [drop_adv, take_adv (cc.isNumeric) src (adv cc.isNumeric src (st + 1) + 1) |>.symm]
      congr 1
      congr 1
      -- the text between st+1 and the end: integral digits, the dot, the fraction digits
      rw [htw]
      have e1 : (src.take (adv cc.isNumeric src (adv cc.isNumeric src (st + 1) + 1))).drop (st + 1) =
          (src.drop (st + 1)).take (adv cc.isNumeric src (adv cc.isNumeric src (st + 1) + 1) - (st + 1)) := List.drop_take ..
      have e2 : (src.take (adv cc.isNumeric src (st + 1))).drop (st + 1) = (src.drop (st + 1)).take (adv cc.isNumeric src (st + 1) - (st + 1)) := List.drop_take ..
      have e3 : (src.take (adv cc.isNumeric src (adv cc.isNumeric src (st + 1) + 1))).drop (adv cc.isNumeric src (st + 1) + 1) =
          (src.drop (adv cc.isNumeric src (st + 1) + 1)).take (adv cc.isNumeric src (adv cc.isNumeric src (st + 1) + 1) - (adv cc.isNumeric src (st + 1) + 1)) :=
        List.drop_take ..
      rw [e1, e2, e3]
      generalize adv cc.isNumeric src (st + 1) = c1 at *
      generalize adv cc.isNumeric src (c1 + 1) = c3 at *
      -- src.drop (st+1) = A ++ '.' :: B with |A| = c1 - (st+1)
      have hA : src.drop (st + 1) = (src.drop (st + 1)).take (c1 - (st + 1)) ++ ('.' :: src.drop (c1 + 1)) := by
        conv => lhs; rw [← List.take_append_drop (c1 - (st + 1)) (src.drop (st + 1))]
        congr 1
        rw [List.drop_drop, show st + 1 + (c1 - (st + 1)) = c1 by omega, drop_some h]
      have hlen : ((src.drop (st + 1)).take (c1 - (st + 1))).length = c1 - (st + 1) := by
        have := lt_of_get_some h
        simp; omega
      have key : ∀ (A B : Str) (n k : Nat), A.length = k → k + 1 ≤ n → (A ++ '.' :: B).take n = A ++ '.' :: B.take (n - (k + 1)) := by
        intro A B n k hk hn
        rw [List.take_append, List.take_of_length_le (by omega), hk, show n - k = (n - (k + 1)) + 1 by omega, List.take_succ_cons]
      conv => rhs; rw [hA]
      rw [key _ _ _ _ hlen (by omega)]
      congr 2
      congr 1
      omega
    · have hne : ¬ (some d = some '.') := by simpa using hd
      simp only [hne, if_false]
      split
      · rename_i heq; simp at heq; exact absurd heq.1 hd
      · rw [htw, drop_some h]

theorem number_apply (s : SState) (ch : Char) (h0 : src[s.start]? = some ch) (hc : s.current = s.start + 1) :
    SrcScanner.number (N := N) (src.length + 1) cc src s =
      match NumOps.parse (N := N) (ch :: (src.take (numEnd cc src s.start)).drop (s.start + 1)) with
      | some x => .ok (.literal (.num x), { s with current := numEnd cc src s.start })
      | none => .err .invalidNumber := by
  have hl := lt_of_get_some h0
  have hE : s.start + 1 ≤ numEnd cc src s.start := by
    unfold numEnd; simp only
    have h1 := adv_ge cc.isNumeric src (s.start + 1)
    split
    · have := adv_ge cc.isNumeric src (adv cc.isNumeric src (s.start + 1) + 1); omega
    · exact h1
  have hfin : ∀ s' : SState, s'.start = s.start → s'.current = numEnd cc src s.start →
      (bindOut (get_content (N := N) (src.length + 1) cc src 0 s') fun content =>
        (extract_number (src.length + 1) cc src content).bind fun number => SM.pure (Token.literal (Value.num number))) =
      match NumOps.parse (N := N) (ch :: (src.take (numEnd cc src s.start)).drop (s.start + 1)) with
      | some x => .ok (.literal (.num x), s')
      | none => .err .invalidNumber := by
    intro s' hs1 hs2
    rw [get_content_apply _ cc src 0 _ (by simp)]
    simp only [bindOut_ok, Nat.sub_zero, Nat.add_zero, hs1, hs2, take_drop_cons h0 hE, extract_number, bind, pure]
    cases NumOps.parse (N := N) (ch :: (src.take (numEnd cc src s.start)).drop (s.start + 1)) <;> simp
  simp only [SrcScanner.number, bind, pure, bind_apply, advance_numeric_apply, bindOut_ok, peek_apply, ite_app, advance_apply, pure_apply, hc]
  cases h : src[adv cc.isNumeric src (s.start + 1)]? with
  | none =>
    have hne : numEnd cc src s.start = adv cc.isNumeric src (s.start + 1) := by simp [numEnd, h]
    simp only [show ((none : Option Char) == some '.') = false from rfl, Bool.false_eq_true, if_false, bindOut_ok, bind_apply, pure_apply]
    rw [hfin { start := s.start, current := adv cc.isNumeric src (s.start + 1) } rfl (by simp [hne])]
    cases NumOps.parse (N := N) (ch :: (src.take (numEnd cc src s.start)).drop (s.start + 1)) <;> simp [hne]
  | some d =>
    by_cases hd : d = '.'
    · subst hd
      have hne : numEnd cc src s.start = adv cc.isNumeric src (adv cc.isNumeric src (s.start + 1) + 1) := by simp [numEnd, h]
      simp only [show ((some '.' : Option Char) == some '.') = true from rfl, if_true, bindOut_ok, bind_apply, pure_apply, advance_apply, peek_apply]
      cases h2 : src[adv cc.isNumeric src (s.start + 1) + 1]? with
      | none =>
        simp only [bindOut_ok, pure_apply, bind_apply]
        rw [hfin { start := s.start, current := adv cc.isNumeric src (s.start + 1) + 1 } rfl (by simp [hne, adv_end h2])]
        cases NumOps.parse (N := N) (ch :: (src.take (numEnd cc src s.start)).drop (s.start + 1)) <;> simp [hne, adv_end h2]
      | some d2 =>
        cases hn : cc.isNumeric d2 with
        | true =>
          simp only [hn, if_true, ite_app, bind_apply, advance_numeric_apply, bindOut_ok, pure_apply, bind_apply]
          rw [hfin { start := s.start, current := adv cc.isNumeric src (adv cc.isNumeric src (s.start + 1) + 1) } rfl (by simp [hne])]
          cases NumOps.parse (N := N) (ch :: (src.take (numEnd cc src s.start)).drop (s.start + 1)) <;> simp [hne]
        | false =>
          simp only [hn, Bool.false_eq_true, if_false, ite_app, bind_apply, bindOut_ok, pure_apply]
          rw [hfin { start := s.start, current := adv cc.isNumeric src (s.start + 1) + 1 } rfl (by simp [hne, adv_stop h2 hn])]
          cases NumOps.parse (N := N) (ch :: (src.take (numEnd cc src s.start)).drop (s.start + 1)) <;> simp [hne, adv_stop h2 hn]
    · have hne : numEnd cc src s.start = adv cc.isNumeric src (s.start + 1) := by simp [numEnd, h, hd]
      have hb : ((some d : Option Char) == some '.') = false := by simpa using hd
      simp only [hb, Bool.false_eq_true, if_false, bindOut_ok, pure_apply, bind_apply]
      rw [hfin { start := s.start, current := adv cc.isNumeric src (s.start + 1) } rfl (by simp [hne])]
      cases NumOps.parse (N := N) (ch :: (src.take (numEnd cc src s.start)).drop (s.start + 1)) <;> simp [hne]

/-! ### string -/
/-- what `strRaw` returns, in terms of how many characters it consumed (`k`, closing quote included) -/
theorem strRaw_facts (l : Str) : ∀ (raw rest : Str) (hasQ : Bool), strRaw l = some (raw, hasQ, rest) →
    ∃ k, 1 ≤ k ∧ k ≤ l.length ∧ raw = l.take (k - 1) ∧ rest = l.drop k := by
  fun_induction strRaw l with
  | case1 => intro raw rest hasQ h; cases h
  | case2 cs' ih =>
    intro raw rest hasQ h
    cases hr : strRaw cs' with
    | none => simp [hr] at h
    | some p =>
      obtain ⟨raw', hasQ', rest'⟩ := p
      simp [hr] at h
      obtain ⟨k, hk1, hk2, hraw, hrest⟩ := ih raw' rest' hasQ' hr
      refine ⟨k + 2, by omega, by simp; omega, ?_, ?_⟩
      · rw [← h.1, hraw]; simp [show k + 2 - 1 = (k - 1) + 2 by omega]
      · rw [← h.2.2, hrest]; simp
  | case3 c2 cs' hc2 =>
    intro raw rest hasQ h; simp at h
    exact ⟨1, by omega, by simp, by simp [h.1], by simp [h.2.2]⟩
  | case4 =>
    intro raw rest hasQ h; simp at h
    exact ⟨1, by omega, by simp, by simp [h.1], by simp [h.2.2]⟩
  | case5 c cs hc ih =>
    intro raw rest hasQ h
    cases hr : strRaw cs with
    | none => simp [hr] at h
    | some p =>
      obtain ⟨raw', hasQ', rest'⟩ := p
      simp [hr] at h
      obtain ⟨k, hk1, hk2, hraw, hrest⟩ := ih raw' rest' hasQ' hr
      refine ⟨k + 1, by omega, by simp; omega, ?_, ?_⟩
      · rw [← h.1, hraw]; simp [show k + 1 - 1 = (k - 1) + 1 by omega]
      · rw [← h.2.2, hrest]; simp

theorem strRaw_skip (l : Str) :
    strRaw l = (strRaw (l.dropWhile nq)).map (fun p => (l.takeWhile nq ++ p.1, p.2.1, p.2.2)) := by
  induction l with
  | nil => simp [strRaw]
  | cons c cs ih =>
    by_cases hc : c = '\''
    · subst hc; simp [List.dropWhile, List.takeWhile, nq]
    · have hq : nq c = true := by simp [nq, hc]
      conv => lhs; unfold strRaw
      simp only [hc, if_false]
      rw [ih]; simp only [List.dropWhile, List.takeWhile, hq]
      cases strRaw (cs.dropWhile nq) <;> simp

theorem adv_stops (p : Char → Bool) (l : Str) (c : Nat) (d : Char) (h : l[adv p l c]? = some d) : p d = false := by
  have hd := drop_some h
  rw [drop_adv] at hd
  cases hp : p d with
  | false => rfl
  | true =>
    have : ∀ m : Str, ∀ r, m.dropWhile p = d :: r → p d = false := by
      intro m; induction m with
      | nil => intro r h; cases h
      | cons a m ih =>
        intro r h
        by_cases ha : p a = true
        · simp [List.dropWhile, ha] at h; exact ih r h
        · simp [List.dropWhile, ha] at h; rw [← h.1]; simpa using ha
    rw [this _ _ hd] at hp; cases hp

theorem str_loop (f : Nat) : ∀ (c : Nat) (flag : Bool) (st : Nat), src.length - c < f →
    string_loop1 (N := N) (src.length + 1) cc src f flag ⟨st, c⟩ =
      match strRaw (src.drop c) with
      | none => .err .unterminatedStringLiteral
      | some (_, hasQ, rest) => .ok (flag || hasQ, ⟨st, src.length - rest.length⟩) := by
  induction f with
  | zero => intro c flag st h; omega
  | succ f ih =>
    intro c flag st hf
    simp only [string_loop1, bind, pure, bind_apply]
    rw [strq_loop _ cc src (src.length + 1) ⟨st, c⟩ (by simp; omega)]
    have hge := adv_ge nq src c
    simp only [bindOut_ok, is_at_end_apply, ite_app, throwE_apply, bind_apply, advance_apply, peek_apply, pure_apply]
    have hsk := strRaw_skip (src.drop c)
    rw [← drop_adv] at hsk
    cases h : src[adv nq src c]? with
    | none =>
      have hge : src.length ≤ adv nq src c := by simpa using h
      rw [hsk, drop_none h]
      simp [strRaw, hge]
    | some d =>
      have hl := lt_of_get_some h
      have hd : d = '\'' := by have := adv_stops nq src c d h; simpa [nq] using this
      subst hd
      have hnl : ¬ src.length ≤ adv nq src c := by omega
      simp only [ge_iff_le, hnl, decide_false, Bool.false_eq_true, if_false]
      rw [hsk, drop_some h]
      cases h2 : src[adv nq src c + 1]? with
      | none =>
        simp only [show ((none : Option Char) == some '\'') = false from rfl, Bool.false_eq_true, if_false]
        have hle2 : src.length ≤ adv nq src c + 1 := by simpa using h2
        rw [drop_none h2]; simp [strRaw]; omega
      | some d2 =>
        have hl2 := lt_of_get_some h2
        rw [drop_some h2]
        by_cases hq : d2 = '\''
        · subst hq
          simp only [show ((some '\'' : Option Char) == some '\'') = true from rfl, if_true, bindOut_ok]
          rw [ih (adv nq src c + 1 + 1) true st (by omega)]
          simp only [strRaw, if_true]
          cases strRaw (src.drop (adv nq src c + 1 + 1)) with
          | none => simp
          | some p => obtain ⟨r, hq, rest⟩ := p; simp
        · have hb : ((some d2 : Option Char) == some '\'') = false := by simpa using hq
          simp only [hb, Bool.false_eq_true, if_false]
          simp [strRaw, hq]; omega

theorem string_apply (s : SState) (hc : s.current = s.start + 1) (hl : s.start < src.length) :
    SrcScanner.string (N := N) (src.length + 1) cc src s =
      match Scanner.string (N := N) (src.drop (s.start + 1)) with
      | .error e => .err e
      | .ok (tok, rest) => .ok (tok, ⟨s.start, src.length - rest.length⟩) := by
  obtain ⟨st, cur⟩ := s
  simp only at hc hl; subst hc
  simp only [SrcScanner.string, Scanner.string, bind, pure, bind_apply]
  rw [str_loop cc src (src.length + 1) (st + 1) false st (by omega)]
  cases hr : strRaw (src.drop (st + 1)) with
  | none => simp
  | some p =>
    obtain ⟨raw, hasQ, rest⟩ := p
    obtain ⟨k, hk1, hk2, hraw, hrest⟩ := strRaw_facts _ raw rest hasQ hr
    have hlen : rest.length = src.length - (st + 1) - k := by rw [hrest]; simp; omega
    simp only [List.length_drop] at hk2
    have he : src.length - rest.length = st + 1 + k := by omega
    simp only [bindOut_ok, Bool.false_or, bind_apply]
    rw [get_content_apply _ cc src 1 _ (by simp; omega)]
    have hcont : (List.take (src.length - rest.length - 1) src).drop (st + 1) = raw := by
      rw [hraw, List.drop_take, he]; congr 1; omega
    simp only [bindOut_ok, hcont]
    cases hasQ <;> simp

/-! ### next_token -/
theorem greater_apply (s : SState) :
    SrcScanner.greater (N := N) fuel cc src s =
      .ok ((Scanner.greater (N := N) (src.drop s.current)).1, ⟨s.start, if src[s.current]? = some '=' then s.current + 1 else s.current⟩) := by
  simp only [SrcScanner.greater, Scanner.greater, bind, pure, bind_apply, peek_apply, bindOut_ok, ite_app, encounter_double, advance_apply, pure_apply]
  cases h : src[s.current]? with
  | none => simp [drop_none h]
  | some d => rw [drop_some h]; by_cases hd : d = '=' <;> simp [hd]

theorem greater_rest (c : Nat) :
    src.drop (if src[c]? = some '=' then c + 1 else c) = (Scanner.greater (N := N) (src.drop c)).2 := by
  cases h : src[c]? with
  | none => simp [drop_none h, Scanner.greater]
  | some d => rw [drop_some h]; by_cases hd : d = '=' <;> simp [hd, Scanner.greater, drop_some h]

theorem lesser_apply (s : SState) :
    SrcScanner.lesser (N := N) fuel cc src s =
      .ok ((Scanner.lesser (N := N) (src.drop s.current)).1,
        ⟨s.start, if src[s.current]? = some '=' ∨ src[s.current]? = some '>' then s.current + 1 else s.current⟩) := by
  simp only [SrcScanner.lesser, Scanner.lesser, bind, pure, bind_apply, peek_apply, bindOut_ok, ite_app, encounter_double, advance_apply, pure_apply]
  cases h : src[s.current]? with
  | none => simp [drop_none h]
  | some d =>
    rw [drop_some h]
    by_cases hd : d = '='
    · simp [hd]
    · by_cases hd2 : d = '>' <;> simp [hd, hd2]

theorem lesser_rest (c : Nat) :
    src.drop (if src[c]? = some '=' ∨ src[c]? = some '>' then c + 1 else c) = (Scanner.lesser (N := N) (src.drop c)).2 := by
  cases h : src[c]? with
  | none => simp [drop_none h, Scanner.lesser]
  | some d =>
    rw [drop_some h]
    by_cases hd : d = '='
    · simp [hd, Scanner.lesser]
    · by_cases hd2 : d = '>' <;> simp [hd, hd2, Scanner.lesser, drop_some h]

theorem numEnd_ge (st : Nat) : st + 1 ≤ numEnd cc src st := by
  unfold numEnd; simp only
  have h1 := adv_ge cc.isNumeric src (st + 1)
  split
  · have := adv_ge cc.isNumeric src (adv cc.isNumeric src (st + 1) + 1); omega
  · exact h1

theorem number_model (st : Nat) (ch : Char) :
    Scanner.number (N := N) cc ch (src.drop (st + 1)) =
      match NumOps.parse (N := N) (ch :: (src.take (numEnd cc src st)).drop (st + 1)) with
      | some x => .ok (.literal (.num x), src.drop (numEnd cc src st))
      | none => .error .invalidNumber := by
  simp only [Scanner.number, numberLex_spec]
  cases NumOps.parse (N := N) (ch :: (src.take (numEnd cc src st)).drop (st + 1)) <;> rfl

theorem next_token_apply (s : SState) (ch : Char) (h : src[s.current]? = some ch) :
    ∃ e, SrcScanner.next_token (N := N) (src.length + 1) cc src s =
        (match nextToken (N := N) cc ch (src.drop (s.current + 1)) with
         | .error err => .err err
         | .ok (tok, _) => .ok (tok, ⟨s.current, e⟩)) ∧
      (∀ tok rest, nextToken (N := N) cc ch (src.drop (s.current + 1)) = .ok (tok, rest) → src.drop e = rest) := by
  have hl := lt_of_get_some h
  by_cases h1 : isIdentStart cc ch = true
  · refine ⟨adv (isIdentCont cc) src (s.current + 1), ?_, ?_⟩
    · simp only [SrcScanner.next_token, bind, pure, bind_apply, get_current_apply, set_start_apply, bindOut_ok, next_char_apply, h, okOr_some, ite_app, isIdentStart_eq, h1, if_true, nextToken]
      rw [identifier_apply cc src ⟨s.current, s.current + 1⟩ ch h rfl]
    · intro tok rest hr
      simp only [nextToken, h1, if_true] at hr
      injection hr with hr
      have : rest = (Scanner.identifier (N := N) cc ch (src.drop (s.current + 1))).2 := by rw [hr]
      rw [this]; simp only [Scanner.identifier]; exact drop_adv _ _ _
  have h1' : isIdentStart cc ch = false := by simpa using h1
  by_cases h2 : cc.isNumeric ch = true
  · refine ⟨numEnd cc src s.current, ?_, ?_⟩
    · simp only [SrcScanner.next_token, bind, pure, bind_apply, get_current_apply, set_start_apply, bindOut_ok, next_char_apply, h, okOr_some, ite_app, isIdentStart_eq, h1', Bool.false_eq_true, if_false, h2, if_true, nextToken, number_model]
      rw [number_apply cc src ⟨s.current, s.current + 1⟩ ch h rfl]
      cases NumOps.parse (N := N) (ch :: (src.take (numEnd cc src s.current)).drop (s.current + 1)) <;> rfl
    · intro tok rest hr
      simp only [nextToken, h1', Bool.false_eq_true, if_false, h2, if_true, number_model] at hr
      cases hp : NumOps.parse (N := N) (ch :: (src.take (numEnd cc src s.current)).drop (s.current + 1)) with
      | none => rw [hp] at hr; cases hr
      | some x => rw [hp] at hr; injection hr with hr; injection hr with _ hr2
  have h2' : cc.isNumeric ch = false := by simpa using h2
  by_cases q1 : ch = '\''
  · subst q1
    refine ⟨src.length - (match Scanner.string (N := N) (src.drop (s.current + 1)) with | .ok (_, rest) => rest.length | .error _ => 0), ?_, ?_⟩
    · simp only [SrcScanner.next_token, bind, pure, bind_apply, get_current_apply, set_start_apply, bindOut_ok, next_char_apply, h, okOr_some, ite_app, isIdentStart_eq, h1', h2', Bool.false_eq_true, if_false, beq_self_eq_true, if_true, nextToken]
      rw [string_apply cc src ⟨s.current, s.current + 1⟩ rfl hl]
      cases Scanner.string (N := N) (src.drop (s.current + 1)) with
      | error e => rfl
      | ok p => rfl
    · intro tok rest hr
      simp only [nextToken, h1', h2', Bool.false_eq_true, if_false, if_true] at hr
      rw [hr]
      simp only [Scanner.string] at hr
      cases hsr : strRaw (src.drop (s.current + 1)) with
      | none => rw [hsr] at hr; cases hr
      | some p =>
        obtain ⟨raw, hasQ, rest'⟩ := p
        rw [hsr] at hr; injection hr with hr; injection hr with _ hr2
        obtain ⟨k, hk1, hk2, _, hrest⟩ := strRaw_facts _ raw rest' hasQ hsr
        simp only [List.length_drop] at hk2
        rw [← hr2, hrest]; simp only [List.drop_drop, List.length_drop]
        congr 1; omega
  have q1' : (ch == '\'') = false := by simpa using q1
  by_cases q2 : ch = '.'
  · subst q2
    refine ⟨numEnd cc src s.current, ?_, ?_⟩
    · simp only [SrcScanner.next_token, bind, pure, bind_apply, get_current_apply, set_start_apply, bindOut_ok, next_char_apply, h, okOr_some, ite_app, isIdentStart_eq, h1', h2', Bool.false_eq_true, if_false, if_true, nextToken, number_model, show (('.' : Char) == '\'') = false from rfl, show (('.' : Char) == '.') = true from rfl,
        show ¬ (('.' : Char) = '\'') by decide]
      rw [number_apply cc src ⟨s.current, s.current + 1⟩ '.' h rfl]
      cases NumOps.parse (N := N) ('.' :: (src.take (numEnd cc src s.current)).drop (s.current + 1)) <;> rfl
    · intro tok rest hr
      simp only [nextToken, h1', Bool.false_eq_true, if_false, h2', if_true, number_model, show ¬ (('.' : Char) = '\'') by decide] at hr
      cases hp : NumOps.parse (N := N) ('.' :: (src.take (numEnd cc src s.current)).drop (s.current + 1)) with
      | none => rw [hp] at hr; cases hr
      | some x => rw [hp] at hr; injection hr with hr; injection hr with _ hr2
  have q2' : (ch == '.') = false := by simpa using q2
  by_cases g1 : ch = '>'
  · subst g1
    refine ⟨if src[s.current + 1]? = some '=' then s.current + 1 + 1 else s.current + 1, ?_, ?_⟩
    · simp only [SrcScanner.next_token, bind, pure, bind_apply, get_current_apply, set_start_apply, bindOut_ok, next_char_apply, h, okOr_some, ite_app, isIdentStart_eq, h1', h2', Bool.false_eq_true, if_false, if_true, nextToken, greater_apply]
      simp
    · intro tok rest hr
      simp [nextToken, h1', h2'] at hr
      have : rest = (Scanner.greater (N := N) (src.drop (s.current + 1))).2 := by rw [hr]
      rw [this]; exact greater_rest (N := N) src (s.current + 1)
  by_cases g2 : ch = '<'
  · subst g2
    refine ⟨if src[s.current + 1]? = some '=' ∨ src[s.current + 1]? = some '>' then s.current + 1 + 1 else s.current + 1, ?_, ?_⟩
    · simp only [SrcScanner.next_token, bind, pure, bind_apply, get_current_apply, set_start_apply, bindOut_ok, next_char_apply, h, okOr_some, ite_app, isIdentStart_eq, h1', h2', Bool.false_eq_true, if_false, if_true, nextToken, lesser_apply]
      simp
    · intro tok rest hr
      simp [nextToken, h1', h2'] at hr
      have : rest = (Scanner.lesser (N := N) (src.drop (s.current + 1))).2 := by rw [hr]
      rw [this]; exact lesser_rest (N := N) src (s.current + 1)
  -- one-character tokens: the cursor moves one character
  by_cases c0 : ch = '('
  · subst c0
    refine ⟨s.current + 1, ?_, ?_⟩
    · simp only [SrcScanner.next_token, bind, pure, bind_apply, get_current_apply, set_start_apply, bindOut_ok, next_char_apply, h, okOr_some, ite_app, isIdentStart_eq, h1', h2', Bool.false_eq_true, if_false, nextToken, pure_apply]
      simp
    · intro tok rest hr
      simp [nextToken, h1', h2'] at hr
      exact hr.2
  by_cases c1 : ch = ')'
  · subst c1
    refine ⟨s.current + 1, ?_, ?_⟩
    · simp only [SrcScanner.next_token, bind, pure, bind_apply, get_current_apply, set_start_apply, bindOut_ok, next_char_apply, h, okOr_some, ite_app, isIdentStart_eq, h1', h2', Bool.false_eq_true, if_false, nextToken, pure_apply]
      simp
    · intro tok rest hr
      simp [nextToken, h1', h2'] at hr
      exact hr.2
  by_cases c2 : ch = '['
  · subst c2
    refine ⟨s.current + 1, ?_, ?_⟩
    · simp only [SrcScanner.next_token, bind, pure, bind_apply, get_current_apply, set_start_apply, bindOut_ok, next_char_apply, h, okOr_some, ite_app, isIdentStart_eq, h1', h2', Bool.false_eq_true, if_false, nextToken, pure_apply]
      simp
    · intro tok rest hr
      simp [nextToken, h1', h2'] at hr
      exact hr.2
  by_cases c3 : ch = ']'
  · subst c3
    refine ⟨s.current + 1, ?_, ?_⟩
    · simp only [SrcScanner.next_token, bind, pure, bind_apply, get_current_apply, set_start_apply, bindOut_ok, next_char_apply, h, okOr_some, ite_app, isIdentStart_eq, h1', h2', Bool.false_eq_true, if_false, nextToken, pure_apply]
      simp
    · intro tok rest hr
      simp [nextToken, h1', h2'] at hr
      exact hr.2
  by_cases c4 : ch = ','
  · subst c4
    refine ⟨s.current + 1, ?_, ?_⟩
    · simp only [SrcScanner.next_token, bind, pure, bind_apply, get_current_apply, set_start_apply, bindOut_ok, next_char_apply, h, okOr_some, ite_app, isIdentStart_eq, h1', h2', Bool.false_eq_true, if_false, nextToken, pure_apply]
      simp
    · intro tok rest hr
      simp [nextToken, h1', h2'] at hr
      exact hr.2
  by_cases c5 : ch = '+'
  · subst c5
    refine ⟨s.current + 1, ?_, ?_⟩
    · simp only [SrcScanner.next_token, bind, pure, bind_apply, get_current_apply, set_start_apply, bindOut_ok, next_char_apply, h, okOr_some, ite_app, isIdentStart_eq, h1', h2', Bool.false_eq_true, if_false, nextToken, pure_apply]
      simp
    · intro tok rest hr
      simp [nextToken, h1', h2'] at hr
      exact hr.2
  by_cases c6 : ch = '-'
  · subst c6
    refine ⟨s.current + 1, ?_, ?_⟩
    · simp only [SrcScanner.next_token, bind, pure, bind_apply, get_current_apply, set_start_apply, bindOut_ok, next_char_apply, h, okOr_some, ite_app, isIdentStart_eq, h1', h2', Bool.false_eq_true, if_false, nextToken, pure_apply]
      simp
    · intro tok rest hr
      simp [nextToken, h1', h2'] at hr
      exact hr.2
  by_cases c7 : ch = '*'
  · subst c7
    refine ⟨s.current + 1, ?_, ?_⟩
    · simp only [SrcScanner.next_token, bind, pure, bind_apply, get_current_apply, set_start_apply, bindOut_ok, next_char_apply, h, okOr_some, ite_app, isIdentStart_eq, h1', h2', Bool.false_eq_true, if_false, nextToken, pure_apply]
      simp
    · intro tok rest hr
      simp [nextToken, h1', h2'] at hr
      exact hr.2
  by_cases c8 : ch = '/'
  · subst c8
    refine ⟨s.current + 1, ?_, ?_⟩
    · simp only [SrcScanner.next_token, bind, pure, bind_apply, get_current_apply, set_start_apply, bindOut_ok, next_char_apply, h, okOr_some, ite_app, isIdentStart_eq, h1', h2', Bool.false_eq_true, if_false, nextToken, pure_apply]
      simp
    · intro tok rest hr
      simp [nextToken, h1', h2'] at hr
      exact hr.2
  by_cases c9 : ch = '='
  · subst c9
    refine ⟨s.current + 1, ?_, ?_⟩
    · simp only [SrcScanner.next_token, bind, pure, bind_apply, get_current_apply, set_start_apply, bindOut_ok, next_char_apply, h, okOr_some, ite_app, isIdentStart_eq, h1', h2', Bool.false_eq_true, if_false, nextToken, pure_apply]
      simp
    · intro tok rest hr
      simp [nextToken, h1', h2'] at hr
      exact hr.2
  -- every other character is invalid
  refine ⟨s.current + 1, ?_, ?_⟩
  · simp only [SrcScanner.next_token, bind, pure, bind_apply, get_current_apply, set_start_apply, bindOut_ok, next_char_apply, h, okOr_some, ite_app, isIdentStart_eq, h1', h2', Bool.false_eq_true, if_false, nextToken, pure_apply, throwE_apply]
    simp [q1, q2, g1, g2, c0, c1, c2, c3, c4, c5, c6, c7, c8, c9]
  · intro tok rest hr
    simp [nextToken, h1', h2', q1, q2, g1, g2, c0, c1, c2, c3, c4, c5, c6, c7, c8, c9] at hr

/-! ### skip_whitespace -/
theorem line_loop (f : Nat) : ∀ (s : SState), src.length - s.current < f →
    ∃ e, skip_comments_loop1 (N := N) fuel cc src f s = .ok ((), ⟨s.start, e⟩) ∧ s.current + 1 ≤ e ∧
      skipWs .code (src.drop e) = skipWs .line (src.drop s.current) := by
  induction f with
  | zero => intro s h; omega
  | succ f ih =>
    intro s hf
    simp only [skip_comments_loop1, bind, pure, bind_apply, next_char_apply, bindOut_ok, ite_app, pure_apply]
    cases h : src[s.current]? with
    | none =>
      have hge : src.length ≤ s.current := by simpa using h
      refine ⟨s.current + 1, by simp, Nat.le_refl _, ?_⟩
      rw [drop_none h, List.drop_eq_nil_of_le (by omega)]; simp [skipWs]
    | some ch =>
      have hl := lt_of_get_some h
      by_cases hn : ch = '\n'
      · subst hn
        refine ⟨s.current + 1, by simp, Nat.le_refl _, ?_⟩
        rw [drop_some h]; simp [skipWs]
      · obtain ⟨e, he1, hge, he2⟩ := ih ⟨s.start, s.current + 1⟩ (by simp; omega)
        dsimp only at he1 hge he2
        refine ⟨e, ?_, by omega, ?_⟩
        · simp [hn, he1]
        · rw [he2, drop_some h]; simp [skipWs, hn]

theorem block_loop (f : Nat) : ∀ (s : SState) (d : Nat), src.length - s.current < f →
    ∃ e r, skip_comments_loop2 (N := N) fuel cc src f ((d : Int) + 1) s = .ok (r, ⟨s.start, e⟩) ∧ s.current + 1 ≤ e ∧
      skipWs .code (src.drop e) = skipWs (.block d) (src.drop s.current) := by
  induction f with
  | zero => intro s d h; omega
  | succ f ih =>
    intro s d hf
    have hpos : decide ((d : Int) + 1 > 0) = true := by simp
    simp only [skip_comments_loop2, bind, pure, bind_apply, next_char_apply, bindOut_ok, ite_app, pure_apply, hpos, if_true]
    cases h : src[s.current]? with
    | none =>
      have hge : src.length ≤ s.current := by simpa using h
      refine ⟨s.current + 1, (d : Int) + 1, by simp, Nat.le_refl _, ?_⟩
      rw [drop_none h, List.drop_eq_nil_of_le (by omega)]; simp [skipWs]
    | some ch =>
      have hl := lt_of_get_some h
      by_cases ho : ch = '{'
      · subst ho
        obtain ⟨e, r, he1, hge, he2⟩ := ih ⟨s.start, s.current + 1⟩ (d + 1) (by simp; omega)
        dsimp only at he1 hge he2
        refine ⟨e, r, ?_, by omega, ?_⟩
        · simp only [show ((some '{' : Option Char) == some '{') = true from rfl, if_true]
          rw [← he1]; congr 1
        · rw [he2, drop_some h]; simp [skipWs]
      · by_cases hcl : ch = '}'
        · subst hcl
          cases d with
          | zero =>
            refine ⟨s.current + 1, 0, ?_, Nat.le_refl _, ?_⟩
            · have hf1 : ∃ f', f = f' + 1 := ⟨f - 1, by omega⟩
              obtain ⟨f', rfl⟩ := hf1
              simp [skip_comments_loop2, pure]
            · rw [drop_some h]; simp [skipWs]
          | succ d' =>
            obtain ⟨e, r, he1, hge, he2⟩ := ih ⟨s.start, s.current + 1⟩ d' (by simp; omega)
            dsimp only at he1 hge he2
            refine ⟨e, r, ?_, by omega, ?_⟩
            · simp only [show ((some '}' : Option Char) == some '{') = false from rfl, show ((some '}' : Option Char) == some '}') = true from rfl,
                Bool.false_eq_true, if_false, if_true]
              rw [← he1]; congr 1; omega
            · rw [he2, drop_some h]; simp [skipWs]
        · obtain ⟨e, r, he1, hge, he2⟩ := ih ⟨s.start, s.current + 1⟩ d (by simp; omega)
          dsimp only at he1 hge he2
          refine ⟨e, r, ?_, by omega, ?_⟩
          · have b1 : ((some ch : Option Char) == some '{') = false := by simpa using ho
            have b2 : ((some ch : Option Char) == some '}') = false := by simpa using hcl
            simp only [b1, b2, Bool.false_eq_true, if_false, show ((some ch : Option Char) == none) = false from rfl]
            exact he1
          · rw [he2, drop_some h]; simp [skipWs, ho, hcl]

/-- one `skip_comments()`: a whole `//` or `{ }` comment is skipped (`true`, at least two characters of cursor movement) or nothing (`false`) -/
theorem skip_comments_line (s : SState) (h0 : src[s.current]? = some '/') (h1 : src[s.current + 1]? = some '/') :
    ∃ e, skip_comments (N := N) (src.length + 1) cc src s = .ok (true, ⟨s.start, e⟩) ∧ s.current + 2 ≤ e ∧
      skipWs .code (src.drop e) = skipWs .line (src.drop (s.current + 2)) := by
  have hl := lt_of_get_some h0
  obtain ⟨e, he1, hge, he2⟩ := line_loop (N := N) (src.length + 1) cc src src.length ⟨s.start, s.current + 1⟩ (by simp; omega)
  dsimp only at he1 hge he2
  refine ⟨e, ?_, by omega, ?_⟩
  · simp [skip_comments, skip_comments_loop1, bind, pure, h0, h1, he1]
  · rw [he2, drop_some h1]; simp [skipWs]

theorem skip_comments_block (s : SState) (h0 : src[s.current]? = some '{') :
    ∃ e, skip_comments (N := N) (src.length + 1) cc src s = .ok (true, ⟨s.start, e⟩) ∧ s.current + 2 ≤ e ∧
      skipWs .code (src.drop e) = skipWs (.block 0) (src.drop (s.current + 1)) := by
  have hl := lt_of_get_some h0
  obtain ⟨e, r, he1, hge, he2⟩ := block_loop (N := N) (src.length + 1) cc src (src.length + 1) ⟨s.start, s.current + 1⟩ 0 (by simp; omega)
  dsimp only at he1 hge he2
  refine ⟨e, ?_, by omega, he2⟩
  have he1' : skip_comments_loop2 (N := N) (src.length + 1) cc src (src.length + 1) 1 ⟨s.start, s.current + 1⟩ = .ok (r, ⟨s.start, e⟩) := by
    simpa using he1
  simp [skip_comments, bind, pure, h0, he1']

theorem skip_comments_none (s : SState) (hn1 : ¬ (src[s.current]? = some '/' ∧ src[s.current + 1]? = some '/')) (hn2 : ¬ src[s.current]? = some '{') :
    skip_comments (N := N) (src.length + 1) cc src s = .ok (false, s) := by
  simp only [skip_comments, bind, pure, bind_apply, peek_ahead_apply, bindOut_ok, ite_app, Nat.add_zero]
  have b2 : (src[s.current]? == some '{') = false := by simpa using hn2
  by_cases ha : src[s.current]? = some '/'
  · have hb : ¬ src[s.current + 1]? = some '/' := fun hb => hn1 ⟨ha, hb⟩
    have b1 : (src[s.current + 1]? == some '/') = false := by simpa using hb
    simp [b1, b2]
  · have b0 : (src[s.current]? == some '/') = false := by simpa using ha
    simp [b0, b2]

theorem skipWs_code_cons_ws (c : Char) (cs : Str) (h : isWs c = true) : skipWs .code (c :: cs) = skipWs .code cs := by
  rw [skipWs.eq_def]; simp [h]
theorem skipWs_code_line (r : Str) : skipWs .code ('/' :: '/' :: r) = skipWs .line r := by
  rw [skipWs.eq_def]; simp [isWs]
theorem skipWs_code_block (r : Str) : skipWs .code ('{' :: r) = skipWs (.block 0) r := by
  rw [skipWs.eq_def]; simp [isWs]
theorem skipWs_code_stop (c : Char) (cs : Str) (hw : isWs c = false) (h1 : c ≠ '/') (h2 : c ≠ '{') : skipWs .code (c :: cs) = c :: cs := by
  rw [skipWs.eq_def]; simp [hw, h1, h2]
theorem skipWs_code_slash_end : skipWs .code ['/'] = ['/'] := by
  rw [skipWs.eq_def]; simp [isWs]
theorem skipWs_code_slash_other (c2 : Char) (r : Str) (h : c2 ≠ '/') : skipWs .code ('/' :: c2 :: r) = '/' :: c2 :: r := by
  rw [skipWs.eq_def]; simp [isWs, h]

theorem skipWs_code_ws (l : Str) : skipWs .code l = skipWs .code (l.dropWhile isWs) := by
  induction l with
  | nil => rfl
  | cons c cs ih =>
    by_cases hw : isWs c = true
    · simp only [List.dropWhile, hw]; rw [← ih, skipWs_code_cons_ws c cs hw]
    · simp [List.dropWhile, hw]

theorem skipws_outer (f : Nat) : ∀ (s : SState), 0 < f → src.length + 2 - s.current ≤ 2 * f →
    ∃ e, skip_whitespace_loop1 (N := N) (src.length + 1) cc src f s = .ok ((), ⟨s.start, e⟩) ∧
      src.drop e = skipWs .code (src.drop s.current) := by
  induction f with
  | zero => intro s h; omega
  | succ f ih =>
    intro s _ hm
    simp only [skip_whitespace_loop1, bind, pure, bind_apply]
    rw [ws_loop _ cc src (src.length + 1) s (by omega)]
    simp only [bindOut_ok]
    have hge := adv_ge isWs src s.current
    have hmodel : skipWs .code (src.drop s.current) = skipWs .code (src.drop (adv isWs src s.current)) := by
      rw [skipWs_code_ws, drop_adv]
    by_cases hline : src[adv isWs src s.current]? = some '/' ∧ src[adv isWs src s.current + 1]? = some '/'
    · obtain ⟨e1, he1, hge1, hm1⟩ := skip_comments_line (N := N) cc src ⟨s.start, adv isWs src s.current⟩ hline.1 hline.2
      dsimp only at he1 hge1 hm1
      have hl := lt_of_get_some hline.1
      obtain ⟨e, he, hme⟩ := ih ⟨s.start, e1⟩ (by omega) (by simp; omega)
      dsimp only at he hme
      refine ⟨e, ?_, ?_⟩
      · simp [he1, he]
      · rw [hme, hm1, hmodel, drop_some hline.1, drop_some hline.2, skipWs_code_line]
    · by_cases hblock : src[adv isWs src s.current]? = some '{'
      · obtain ⟨e1, he1, hge1, hm1⟩ := skip_comments_block (N := N) cc src ⟨s.start, adv isWs src s.current⟩ hblock
        dsimp only at he1 hge1 hm1
        have hl := lt_of_get_some hblock
        obtain ⟨e, he, hme⟩ := ih ⟨s.start, e1⟩ (by omega) (by simp; omega)
        dsimp only at he hme
        refine ⟨e, ?_, ?_⟩
        · simp [he1, he]
        · rw [hme, hm1, hmodel, drop_some hblock, skipWs_code_block]
      · refine ⟨adv isWs src s.current, ?_, ?_⟩
        · simp [skip_comments_none (N := N) cc src ⟨s.start, adv isWs src s.current⟩ hline hblock]
        · rw [hmodel]
          cases h : src[adv isWs src s.current]? with
          | none => simp [drop_none h, skipWs]
          | some d =>
            have hw : isWs d = false := adv_stops isWs src s.current d h
            have hb : ¬ d = '{' := fun hd => hblock (by rw [h, hd])
            rw [drop_some h]
            by_cases hs : d = '/'
            · subst hs
              cases h2 : src[adv isWs src s.current + 1]? with
              | none => rw [drop_none h2, skipWs_code_slash_end]
              | some d2 =>
                have hd2 : ¬ d2 = '/' := fun hd => hline ⟨h, by rw [h2, hd]⟩
                rw [drop_some h2, skipWs_code_slash_other d2 _ hd2]
            · rw [skipWs_code_stop d _ hw hs hb]

theorem skip_whitespace_apply (s : SState) :
    ∃ e, skip_whitespace (N := N) (src.length + 1) cc src s = .ok ((), ⟨s.start, e⟩) ∧
      src.drop e = skipWs .code (src.drop s.current) := by
  obtain ⟨e, he, hme⟩ := skipws_outer (N := N) cc src (src.length + 1) s (by omega) (by omega)
  exact ⟨e, by simp [skip_whitespace, bind, pure, he], hme⟩

/-! ### tokenize -/
theorem skipWs_idem (m : Mode) (l : Str) : skipWs .code (skipWs m l) = skipWs m l := by
  fun_induction skipWs m l
  case case4 c2 cs' h2 h1 => exact skipWs_code_slash_other c2 cs' h2
  case case5 => exact skipWs_code_slash_end
  case case7 c cs hw h1 h2 => exact skipWs_code_stop c cs (by simpa using hw) h1 h2
  all_goals first | assumption | (simp [skipWs]; done)

theorem scanLoop_skip (f : Nat) (l : Str) : scanLoop (N := N) cc f (skipWs .code l) = scanLoop cc f l := by
  cases f with
  | zero => simp [scanLoop]
  | succ f => simp only [scanLoop, skipWs_idem]

/-- drop the final cursors -/
def resOf : COut N (α × SState) → COut N α
  | .ok (a, _) => .ok a
  | .err e => .err e
  | .outOfFuel => .outOfFuel
  | .panic => .panic
/-- the loop of `tokenize` pushes onto the vector it was started with -/
def prependOut (acc : List (Token N)) : COut N (List (Token N)) → COut N (List (Token N))
  | .ok ts => .ok (acc ++ ts)
  | .err e => .err e
  | .outOfFuel => .outOfFuel
  | .panic => .panic

theorem tok_loop (f : Nat) : ∀ (tokens : List (Token N)) (s : SState), skipWs .code (src.drop s.current) = src.drop s.current →
    resOf (tokenize_body_loop1 (N := N) (src.length + 1) cc src f tokens s) = prependOut tokens (scanLoop (N := N) cc f (src.drop s.current)) := by
  induction f with
  | zero => intro tokens s _; simp [tokenize_body_loop1, scanLoop, resOf, prependOut]
  | succ f ih =>
    intro tokens s hsk
    simp only [tokenize_body_loop1, bind, pure, bind_apply, is_at_end_apply, bindOut_ok, ite_app, pure_apply]
    rw [scanLoop, hsk]
    cases h : src[s.current]? with
    | none =>
      have hge : src.length ≤ s.current := by simpa using h
      simp [drop_none h, hge, resOf, prependOut]
    | some ch =>
      have hl := lt_of_get_some h
      have hnl : ¬ src.length ≤ s.current := by omega
      obtain ⟨e, hnt, hrest⟩ := next_token_apply (N := N) cc src s ch h
      rw [drop_some h]
      simp only [ge_iff_le, hnl, decide_false, Bool.not_false, if_true, hnt]
      cases hm : nextToken (N := N) cc ch (src.drop (s.current + 1)) with
      | error err => simp [resOf, prependOut]
      | ok p =>
        obtain ⟨tok, rest⟩ := p
        have hre := hrest tok rest hm
        obtain ⟨e2, hsw, hdrop⟩ := skip_whitespace_apply (N := N) cc src ⟨s.current, e⟩
        dsimp only at hsw hdrop
        simp only [bindOut_ok, bind_apply, hsw]
        rw [ih (tokens ++ [tok]) ⟨s.current, e2⟩ (by simp only; rw [hdrop, skipWs_idem])]
        simp only [hdrop, hre, scanLoop_skip]
        cases scanLoop (N := N) cc f rest <;> simp [prependOut]

/-- `Scanner::tokenize` as translated from the current source IS the model's `scan`, for every text and every character classification -/
theorem scan_is_source : tokenize (N := N) (src.length + 1) cc src = scan (N := N) cc src := by
  simp only [tokenize, tokenize_body, run, bind, pure, bind_apply]
  obtain ⟨e, hsw, hdrop⟩ := skip_whitespace_apply (N := N) cc src ⟨0, 0⟩
  dsimp only at hsw hdrop
  simp only [hsw, bindOut_ok, bind_apply]
  have hl := tok_loop (N := N) cc src (src.length + 1) [] ⟨0, e⟩ (by simp only; rw [hdrop, skipWs_idem])
  simp only [hdrop, List.drop_zero, scanLoop_skip] at hl
  simp only [scan, scanAll]
  cases hL : tokenize_body_loop1 (N := N) (src.length + 1) cc src (src.length + 1) [] ⟨0, e⟩ with
  | ok p =>
    obtain ⟨ts, s'⟩ := p
    rw [hL] at hl; simp only [resOf] at hl
    cases hS : scanLoop (N := N) cc (src.length + 1) src with
    | ok ts' =>
      rw [hS] at hl; simp only [prependOut, List.nil_append] at hl
      injection hl with hl; subst hl
      cases ts <;> simp
    | _ => rw [hS] at hl; simp [prependOut] at hl
  | err er =>
    rw [hL] at hl; simp only [resOf] at hl
    cases hS : scanLoop (N := N) cc (src.length + 1) src <;> rw [hS] at hl <;> simp [prependOut] at hl
    subst hl; simp
  | outOfFuel =>
    rw [hL] at hl; simp only [resOf] at hl
    cases hS : scanLoop (N := N) cc (src.length + 1) src <;> rw [hS] at hl <;> simp [prependOut] at hl
    simp
  | panic =>
    rw [hL] at hl; simp only [resOf] at hl
    cases hS : scanLoop (N := N) cc (src.length + 1) src <;> rw [hS] at hl <;> simp [prependOut] at hl
    simp

/-- hence the translated `Scanner::tokenize` never reaches the `usize` underflow of `get_content` / `next_char`, and none of its loops needs more than
    `length + 1` iterations, on any text -/
theorem tokenize_total : tokenize (N := N) (src.length + 1) cc src ≠ .panic ∧ tokenize (N := N) (src.length + 1) cc src ≠ .outOfFuel := by
  rw [scan_is_source]
  rcases Slac.Scanner.scan_total (N := N) cc src with ⟨ts, h⟩ | ⟨e, h⟩ <;> rw [h] <;> exact ⟨(by simp), (by simp)⟩

/-- the theorem has no hypotheses; an instance (ASCII character classes, toy numbers): the text `a >= 'it''s' // c` -/
example : tokenize (N := Int) 18 CharClass.ascii ['a', ' ', '>', '=', ' ', '\'', 'i', 't', '\'', '\'', 's', '\'', ' ', '/', '/', ' ', 'c'] =
    scan CharClass.ascii ['a', ' ', '>', '=', ' ', '\'', 'i', 't', '\'', '\'', 's', '\'', ' ', '/', '/', ' ', 'c'] := scan_is_source CharClass.ascii _

end Slac.C02Scanner
