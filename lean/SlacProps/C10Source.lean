/-
  C10 / C11 — the translator leg of the tie for the validator.  `SlacModel/Generated/SrcValidate.lean` is REGENERATED
  on every check run by /verif/tools/rs2lean.py from the current text of /repo/src/validate.rs.
  The theorems say that the hand-written model of SlacModel/Validate.lean is exactly the translated source:
    * `checkVF env e      = check_variables_and_functions env e`   (every arm, `and_then` chains in source order)
    * `checkVFList env es = check_expressions env es`              (`iter().try_for_each`)
    * `checkBool e        = check_boolean_result e`
  `VErr.andThen a b` of the model is `a >>= fun () => b` of the translation (`andThen_is_bind`).
  A changed arm in validate.rs changes the generated file and breaks one of these proofs.
-/
import SlacModel.Generated.SrcValidate
import SlacModel.Validate
set_option autoImplicit false
set_option linter.unusedSectionVars false
set_option linter.unusedSimpArgs false
namespace Slac.C10Source
open Slac.Generated
variable {N : Type} [NumOps N]

/-- the model's `and_then(|()| …)` is the monadic bind of `Except VErr` the translator emits -/
theorem andThen_is_bind (a b : Except VErr Unit) : VErr.andThen a b = (a >>= fun () => b) := by
  cases a <;> rfl

/-- both functions of the mutual block at once (`Expr` is a nested inductive: explicit recursor) -/
theorem checkVF_both (env : Env N) :
    (∀ e : Expr N, checkVF env e = SrcValidate.check_variables_and_functions env e) ∧
    (∀ es : List (Expr N), checkVFList env es = SrcValidate.check_expressions_each env es) := by
  have key : ∀ e : Expr N, checkVF env e = SrcValidate.check_variables_and_functions env e := by
    intro e
    refine Expr.rec
      (motive_1 := fun e => checkVF env e = SrcValidate.check_variables_and_functions env e)
      (motive_2 := fun es => checkVFList env es = SrcValidate.check_expressions_each env es)
      ?_ ?_ ?_ ?_ ?_ ?_ ?_ ?_ ?_ e
    all_goals
      intros
      simp only [checkVF, checkVFList, SrcValidate.check_variables_and_functions, SrcValidate.check_expressions,
        SrcValidate.check_expressions_each, andThen_is_bind, *]
      try (split <;> simp_all)
  refine ⟨key, fun es => ?_⟩
  induction es <;>
    simp only [checkVFList, SrcValidate.check_expressions_each, andThen_is_bind, key, *]

/-- src/validate.rs `check_variables_and_functions` -/
theorem checkVF_is_source (env : Env N) (e : Expr N) :
    checkVF env e = SrcValidate.check_variables_and_functions env e := (checkVF_both env).1 e

/-- the `try_for_each` loop the translator unrolls into a list recursion -/
theorem checkVFList_is_source_each (env : Env N) (es : List (Expr N)) :
    checkVFList env es = SrcValidate.check_expressions_each env es := (checkVF_both env).2 es

/-- src/validate.rs `check_expressions` -/
theorem checkVFList_is_source (env : Env N) (es : List (Expr N)) :
    checkVFList env es = SrcValidate.check_expressions env es := by
  rw [SrcValidate.check_expressions.eq_def]; exact (checkVF_both env).2 es

/-- src/validate.rs `check_boolean_result` -/
theorem checkBool_is_source (e : Expr N) : checkBool e = SrcValidate.check_boolean_result e := by
  refine Expr.rec
    (motive_1 := fun e => checkBool e = SrcValidate.check_boolean_result e)
    (motive_2 := fun _ => True)
    ?_ ?_ ?_ ?_ ?_ ?_ ?_ ?_ ?_ e
  · intro r op _
    cases op <;> simp [checkBool, SrcValidate.check_boolean_result]
  · intro l r op _ _
    cases op <;> simp [checkBool, SrcValidate.check_boolean_result]
  · intro l m r op ihl ihm ihr
    cases op <;> simp [checkBool, SrcValidate.check_boolean_result, andThen_is_bind, ihl, ihm, ihr]
  · intro es _; simp [checkBool, SrcValidate.check_boolean_result]
  · intro v; cases v <;> simp [checkBool, SrcValidate.check_boolean_result]
  · intro n; simp [checkBool, SrcValidate.check_boolean_result]
  · intro n ps _; simp [checkBool, SrcValidate.check_boolean_result]
  · trivial
  · intros; trivial

end Slac.C10Source
