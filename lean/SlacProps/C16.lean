/-
  C16 — date-time numbers are days since 1970-01-01 with the time of day as the fraction.
  Model: SlacModel.Time (src/stdlib/time.rs over chrono's proleptic Gregorian NaiveDate).
  Tie: `time` stream of the correspondence harness (builtins compared with the crate on dates/times/strings).

  Part A (calendar) is exact Int/Nat arithmetic and holds for ALL integers (no year restriction) unless a
  statement mentions `validDate`, which adds chrono's year range −262143…262142.
  Part B goes through numbers.  Number facts are the hypotheses `[LawfulTimeNum N]` (SlacProofs.TimeNum: field
  list and why binary64 satisfies each); the theorems hold for every such `N`.  The central field
  `decode_encode_ms` is proved over ℚ from the standard model of floating-point arithmetic
  (`decode_encode_real` below, for |T| ≤ 2^50); that binary64 `/`, `*`, `round`, `as i64` follow the standard
  model on these operands is the trusted assumption linking it to the `Float` instance.  The class has a model
  (`SlacProofs.TimeToy`: exact rationals), used below for the non-vacuity examples of part B.
  Range of part B: `DT.Enc t` = millisecond of day < 86 400 000 and |total milliseconds| ≤ 2^48, which contains
  every date of years 1–9999 at every millisecond (`enc_of_date`).
-/
import SlacModel.Registry
import SlacProofs.TimeCal
import SlacProofs.TimeNum
import SlacProofs.TimeEnc
import SlacProofs.TimeStr
import SlacProofs.TimeReal
import SlacProofs.TimeToy
set_option autoImplicit false
namespace Slac.C16
open Slac.Time Slac.Stdlib

/-! ## A. Calendar -/

/-! ### A1. civil date ↔ day number -/

/-- every existing date of chrono's range is recovered from its day number -/
theorem civil_roundtrip (y : Int) (m d : Nat) (h : validDate y m d = true) :
    civilFromDays (daysFromCivil y m d) = (y, m, d) :=
  civil_roundtrip_md y m d ((validDate_iff y m d).1 h).2

/-- the same for every integer year (`ValidMD`: month 1–12, day 1–length of the month) -/
theorem civil_roundtrip_all (y : Int) (m d : Nat) (h : ValidMD y m d) :
    civilFromDays (daysFromCivil y m d) = (y, m, d) :=
  civil_roundtrip_md y m d h

/-- every day number (any integer) is the day number of its civil date -/
theorem days_roundtrip (z : Int) :
    daysFromCivil (civilFromDays z).1 (civilFromDays z).2.1 (civilFromDays z).2.2 = z :=
  Time.days_roundtrip z

/-- the civil date of a day number exists -/
theorem civilFromDays_exists (z : Int) :
    ValidMD (civilFromDays z).1 (civilFromDays z).2.1 (civilFromDays z).2.2 :=
  civilFromDays_validMD z

/-- … and is a chrono date whenever its year is in chrono's range -/
theorem civilFromDays_valid (z : Int) (h1 : minYear ≤ (civilFromDays z).1) (h2 : (civilFromDays z).1 ≤ maxYear) :
    validDate (civilFromDays z).1 (civilFromDays z).2.1 (civilFromDays z).2.2 = true :=
  (validDate_iff _ _ _).2 ⟨⟨h1, h2⟩, civilFromDays_validMD z⟩

example : civilFromDays (daysFromCivil 2024 2 29) = (2024, 2, 29) := by decide
example : civilFromDays (daysFromCivil 2000 2 29) = (2000, 2, 29) := by decide
example : daysFromCivil 2019 7 24 = 18101 := by decide
example : civilFromDays (-1) = (1969, 12, 31) := by decide
example : daysFromCivil 1 1 1 = -719162 ∧ civilFromDays (-719162) = (1, 1, 1) := by decide
example : daysFromCivil 9999 12 31 = 2932896 ∧ civilFromDays 2932896 = (9999, 12, 31) := by decide
example : validDate 2024 2 29 = true ∧ validDate 1900 2 29 = false ∧ validDate 2023 13 1 = false := by decide

/-! ### A2. day numbers count days since 1970-01-01 -/

theorem days_epoch : daysFromCivil 1970 1 1 = 0 := Time.days_epoch

/-- the calendar day after (y, m, d) -/
def nextDate (y : Int) (m d : Nat) : Int × Nat × Nat :=
  if d < daysInMonth y m then (y, m, d + 1) else if m < 12 then (y, m + 1, 1) else (y + 1, 1, 1)

/-- the next calendar day — next day of the month, else first of the next month, else 1 January of the next
    year — exists and has the next day number -/
theorem days_successor (y : Int) (m d : Nat) (h : ValidMD y m d) :
    daysFromCivil (nextDate y m d).1 (nextDate y m d).2.1 (nextDate y m d).2.2 = daysFromCivil y m d + 1 ∧
    ValidMD (nextDate y m d).1 (nextDate y m d).2.1 (nextDate y m d).2.2 := by
  obtain ⟨hm1, hm12, hd1, hd⟩ := h
  unfold nextDate
  by_cases h1 : d < daysInMonth y m
  · rw [if_pos h1]
    show daysFromCivil y m (d + 1) = _ ∧ ValidMD y m (d + 1)
    exact ⟨Time.days_next_day y m d, hm1, hm12, by omega, by omega⟩
  · rw [if_neg h1]
    have hde : d = daysInMonth y m := by omega
    by_cases h2 : m < 12
    · rw [if_pos h2]
      show daysFromCivil y (m + 1) 1 = _ ∧ ValidMD y (m + 1) 1
      refine ⟨by rw [hde]; exact Time.days_next_month y m hm1 h2, by omega, by omega, by omega, ?_⟩
      rcases daysInMonth_cases y (m + 1) (by omega) (by omega) with ⟨_, e⟩ | ⟨_, e⟩ | ⟨_, _, e⟩ | ⟨_, _, e⟩ <;>
        rw [e] <;> omega
    · rw [if_neg h2]
      have hm : m = 12 := by omega
      subst hm
      have e31 : daysInMonth y 12 = 31 := rfl
      show daysFromCivil (y + 1) 1 1 = _ ∧ ValidMD (y + 1) 1 1
      refine ⟨by rw [hde, e31]; exact Time.days_next_year y, by omega, by omega, by omega, ?_⟩
      have : daysInMonth (y + 1) 1 = 31 := rfl
      omega

/-- the three clauses separately -/
theorem days_next_day (y : Int) (m d : Nat) : daysFromCivil y m (d + 1) = daysFromCivil y m d + 1 :=
  Time.days_next_day y m d
theorem days_next_month (y : Int) (m : Nat) (hm1 : 1 ≤ m) (hm : m < 12) :
    daysFromCivil y (m + 1) 1 = daysFromCivil y m (daysInMonth y m) + 1 :=
  Time.days_next_month y m hm1 hm
theorem days_next_year (y : Int) : daysFromCivil (y + 1) 1 1 = daysFromCivil y 12 31 + 1 :=
  Time.days_next_year y

/-- the n-th calendar day after 1970-01-01 -/
def nthDate : Nat → Int × Nat × Nat
  | 0 => (1970, 1, 1)
  | n + 1 => match nthDate n with
    | (y, m, d) => nextDate y m d

theorem nthDate_succ (n : Nat) : nthDate (n + 1) = nextDate (nthDate n).1 (nthDate n).2.1 (nthDate n).2.2 := rfl

/-- "days since 1970-01-01": stepping n calendar days from the epoch reaches the date with day number n -/
theorem days_since_epoch (n : Nat) :
    daysFromCivil (nthDate n).1 (nthDate n).2.1 (nthDate n).2.2 = (n : Int) ∧
    ValidMD (nthDate n).1 (nthDate n).2.1 (nthDate n).2.2 := by
  induction n with
  | zero => exact ⟨by decide, by decide, by decide, by decide, by decide⟩
  | succ n ih =>
    have := days_successor _ _ _ ih.2
    rw [nthDate_succ]
    refine ⟨?_, this.2⟩
    rw [this.1, ih.1]; omega

/-- 400-year periodicity of the calendar -/
theorem days_period (y : Int) (m d : Nat) : daysFromCivil (y + 400) m d = daysFromCivil y m d + 146097 :=
  Time.days_period y m d

example : nextDate 1900 2 28 = (1900, 3, 1) ∧ nextDate 2024 2 28 = (2024, 2, 29) ∧
    nextDate 2023 12 31 = (2024, 1, 1) := by decide
example : daysFromCivil 1900 3 1 = daysFromCivil 1900 2 28 + 1 := by decide
example : nthDate 59 = (1970, 3, 1) := by decide

/-! ### A3. day of the week (Monday = 0) -/

theorem weekday_spec (z : Int) : weekday z = ((z + 3) % 7).toNat := rfl
/-- 1970-01-01 was a Thursday -/
theorem weekday_epoch : weekday (daysFromCivil 1970 1 1) = 3 := Time.weekday_epoch
theorem weekday_lt (z : Int) : weekday z < 7 := Time.weekday_lt z
theorem weekday_week (z : Int) : weekday (z + 7) = weekday z := Time.weekday_week z
theorem weekday_succ (z : Int) : weekday (z + 1) = (weekday z + 1) % 7 := Time.weekday_succ z

example : weekday (daysFromCivil 2019 7 24) = 2 := by decide        -- a Wednesday (the crate's own test)
example : weekday (daysFromCivil 2024 2 29) = 3 := by decide        -- a Thursday
example : weekday (-1) = 2 := by decide                             -- 1969-12-31, a Wednesday

/-! ### A4. leap years, month lengths, validity -/

theorem leap_rule (y : Int) : isLeap y = true ↔ (y % 4 = 0 ∧ (y % 100 ≠ 0 ∨ y % 400 = 0)) := isLeap_iff y

theorem month_lengths (y : Int) :
    daysInMonth y 1 = 31 ∧ daysInMonth y 2 = (if isLeap y then 29 else 28) ∧ daysInMonth y 3 = 31 ∧
    daysInMonth y 4 = 30 ∧ daysInMonth y 5 = 31 ∧ daysInMonth y 6 = 30 ∧ daysInMonth y 7 = 31 ∧
    daysInMonth y 8 = 31 ∧ daysInMonth y 9 = 30 ∧ daysInMonth y 10 = 31 ∧ daysInMonth y 11 = 30 ∧
    daysInMonth y 12 = 31 ∧ ∀ m, (m = 0 ∨ 12 < m) → daysInMonth y m = 0 := by
  refine ⟨rfl, rfl, rfl, rfl, rfl, rfl, rfl, rfl, rfl, rfl, rfl, rfl, ?_⟩
  intro m hm
  unfold daysInMonth
  split <;> first | rfl | omega

theorem validDate_spec (y : Int) (m d : Nat) :
    validDate y m d = true ↔
      (minYear ≤ y ∧ y ≤ maxYear) ∧ 1 ≤ m ∧ m ≤ 12 ∧ 1 ≤ d ∧ d ≤ daysInMonth y m :=
  validDate_iff y m d

/-- dates that do not exist: month 13, day 0, 30 February -/
theorem validDate_rejects (y : Int) (d : Nat) :
    validDate y 13 d = false ∧ validDate y 0 d = false ∧ validDate y 2 30 = false ∧
    ∀ m, validDate y m 0 = false := by
  refine ⟨?_, ?_, ?_, ?_⟩
  · simp [validDate, daysInMonth]
  · simp [validDate]
  · have : daysInMonth y 2 ≤ 29 := by
      show (if isLeap y then 29 else 28) ≤ 29
      split <;> omega
    simp only [validDate, Bool.and_eq_false_iff, decide_eq_false_iff_not]; right; omega
  · intro m; simp [validDate]

example : isLeap 2024 = true ∧ isLeap 1900 = false ∧ isLeap 2000 = true ∧ isLeap 2023 = false := by decide

/-! ### A5. whole calendar months -/

/-- `addMonths t k = some t2`: month index (year·12 + month − 1) moves by exactly `k`, the day is clamped to the
    target month's length, the time of day is kept, and the target year is in chrono's range -/
theorem addMonths_spec {t t2 : DT} {k : Int} (h : addMonths t k = some t2) :
    t2.ms = t.ms ∧
    t2.year * 12 + ((t2.month : Int) - 1) = t.year * 12 + ((t.month : Int) - 1) + k ∧
    t2.day = min t.day (daysInMonth t2.year t2.month) ∧
    minYear ≤ t2.year ∧ t2.year ≤ maxYear :=
  addMonths_some h

/-- `none` exactly when the target year leaves chrono's range -/
theorem addMonths_none (t : DT) (k : Int) :
    addMonths t k = none ↔
      ¬ (minYear ≤ (t.year * 12 + ((t.month : Int) - 1) + k) / 12 ∧
         (t.year * 12 + ((t.month : Int) - 1) + k) / 12 ≤ maxYear) :=
  addMonths_none_iff t k

example : addMonths ⟨daysFromCivil 2024 1 31, 5⟩ 1 = some ⟨daysFromCivil 2024 2 29, 5⟩ := by decide
example : addMonths ⟨daysFromCivil 2023 12 1, 0⟩ (-1) = some ⟨daysFromCivil 2023 11 1, 0⟩ := by decide
example : addMonths ⟨daysFromCivil 2023 3 31, 0⟩ (-13) = some ⟨daysFromCivil 2022 2 28, 0⟩ := by decide

/-! ## B. Through numbers -/

/-- The rounding fact in the standard model of floating-point arithmetic (`fl` = rounding of an exact result
    with relative error ≤ 2⁻⁵³): for an integer millisecond count |T| ≤ 2^50, `y = fl (fl (T / D) · D)` is within
    1/2 of `T`, and `T` is the only integer within 1/2 of `y` — so rounding `y` to an integer gives `T`. -/
theorem decode_encode_real (fl : ℚ → ℚ) (hfl : ∀ q : ℚ, |fl q - q| ≤ (1/2^53) * |q|)
    (T : ℤ) (hT : |T| ≤ 2^50) :
    |fl (fl ((T : ℚ) / 86400000) * 86400000) - (T : ℚ)| < 1/2 ∧
    ∀ r : ℤ, |fl (fl ((T : ℚ) / 86400000) * 86400000) - (r : ℚ)| ≤ 1/2 → r = T :=
  Time.decode_encode_real fl hfl T hT

/-- the class of number facts has a model -/
theorem lawfulTimeNum_satisfiable : ∃ (inst : NumX ℚ), @LawfulTimeNum ℚ inst := ⟨Toy.numX, Toy.lawful⟩

section
variable {N : Type} [NumX N] [LawfulTimeNum N]

/-- the date-time of a date of years 1–9999 at a millisecond of the day is in the covered range -/
theorem enc_of_valid (y : Int) (m d ms : Nat) (hv : validDate y m d = true) (hy1 : 1 ≤ y) (hy2 : y ≤ 9999)
    (hms : ms < 86400000) : DT.Enc ⟨daysFromCivil y m d, ms⟩ :=
  enc_of_date y m d ms ((validDate_iff y m d).1 hv).2 hy1 hy2 hms

/-! ### B6. decode ∘ encode and the components -/

theorem decode_encode (y : Int) (m d ms : Nat) (hv : validDate y m d = true) (hy1 : 1 ≤ y) (hy2 : y ≤ 9999)
    (hms : ms < 86400000) :
    decode (encode ⟨daysFromCivil y m d, ms⟩ : Value N) = .ok ⟨daysFromCivil y m d, ms⟩ :=
  Time.decode_encode _ (enc_of_valid y m d ms hv hy1 hy2 hms)

/-- general form: every date-time with |total milliseconds| ≤ 2^48 -/
theorem decode_encode_enc (t : DT) (h : t.Enc) : decode (encode t : Value N) = .ok t := Time.decode_encode t h

omit [LawfulTimeNum N] in
/-- conversely, whatever `decode` accepts is a date-time with the decoded millisecond count -/
theorem decode_sound (x : N) (t : DT) (h : decode (.num x : Value N) = .ok t) :
    t.totalMs = NumX.toI64 (NumX.round (NumOps.mul x dayLen)) ∧ t.ms < 86400000 ∧
    minYear ≤ t.year ∧ t.year ≤ maxYear := by
  rw [decode_num] at h
  cases hm : ofMillis (NumX.toI64 (NumX.round (NumOps.mul x dayLen))) with
  | none => rw [hm] at h; cases h
  | some t0 =>
    rw [hm] at h
    cases h
    exact ofMillis_some hm

/-- hypotheses of the component theorems: a date of years 1–9999 and a time of day -/
structure Stamp (y : Int) (m d h mi s ml : Nat) : Prop where
  valid : validDate y m d = true
  y1 : 1 ≤ y
  y2 : y ≤ 9999
  hh : h < 24
  hmi : mi < 60
  hs : s < 60
  hml : ml < 1000

/-- the date-time number of a stamp -/
def stampDT (y : Int) (m d h mi s ml : Nat) : DT := ⟨daysFromCivil y m d, ((h * 60 + mi) * 60 + s) * 1000 + ml⟩

theorem stamp_enc {y : Int} {m d h mi s ml : Nat} (st : Stamp y m d h mi s ml) : (stampDT y m d h mi s ml).Enc :=
  enc_of_valid y m d _ st.valid st.y1 st.y2 (time_components h mi s ml st.hh st.hmi st.hs st.hml (daysFromCivil y m d)).2.2.2.2

theorem stamp_components {y : Int} {m d h mi s ml : Nat} (st : Stamp y m d h mi s ml) :
    (stampDT y m d h mi s ml).year = y ∧ (stampDT y m d h mi s ml).month = m ∧ (stampDT y m d h mi s ml).day = d ∧
    (stampDT y m d h mi s ml).hour = h ∧ (stampDT y m d h mi s ml).minute = mi ∧
    (stampDT y m d h mi s ml).second = s ∧ (stampDT y m d h mi s ml).milli = ml := by
  obtain ⟨e1, e2, e3⟩ := civil_components (stampDT y m d h mi s ml) (civil_roundtrip y m d st.valid)
  obtain ⟨e4, e5, e6, e7, _⟩ := time_components h mi s ml st.hh st.hmi st.hs st.hml (daysFromCivil y m d)
  exact ⟨e1, e2, e3, e4, e5, e6, e7⟩

variable {y : Int} {m d h mi s ml : Nat}

theorem year_spec (st : Stamp y m d h mi s ml) :
    year [(encode (stampDT y m d h mi s ml) : Value N)] = .ok (.num (NumX.ofInt y)) := by
  rw [year_encode _ (stamp_enc st), (stamp_components st).1]
theorem month_spec (st : Stamp y m d h mi s ml) :
    month [(encode (stampDT y m d h mi s ml) : Value N)] = .ok (.num (NumX.ofNat m)) := by
  rw [month_encode _ (stamp_enc st), (stamp_components st).2.1]
theorem day_spec (st : Stamp y m d h mi s ml) :
    day [(encode (stampDT y m d h mi s ml) : Value N)] = .ok (.num (NumX.ofNat d)) := by
  rw [day_encode _ (stamp_enc st), (stamp_components st).2.2.1]
theorem hour_spec (st : Stamp y m d h mi s ml) :
    hour [(encode (stampDT y m d h mi s ml) : Value N)] = .ok (.num (NumX.ofNat h)) := by
  rw [hour_encode _ (stamp_enc st), (stamp_components st).2.2.2.1]
theorem minute_spec (st : Stamp y m d h mi s ml) :
    minute [(encode (stampDT y m d h mi s ml) : Value N)] = .ok (.num (NumX.ofNat mi)) := by
  rw [minute_encode _ (stamp_enc st), (stamp_components st).2.2.2.2.1]
theorem second_spec (st : Stamp y m d h mi s ml) :
    second [(encode (stampDT y m d h mi s ml) : Value N)] = .ok (.num (NumX.ofNat s)) := by
  rw [second_encode _ (stamp_enc st), (stamp_components st).2.2.2.2.2.1]
theorem millisecond_spec (st : Stamp y m d h mi s ml) :
    millisecond [(encode (stampDT y m d h mi s ml) : Value N)] = .ok (.num (NumX.ofNat ml)) := by
  rw [millisecond_encode _ (stamp_enc st), (stamp_components st).2.2.2.2.2.2]
/-- Monday = 0; the weekday of the day number (see A3 for its characterisation) -/
theorem dayOfWeek_spec (st : Stamp y m d h mi s ml) :
    dayOfWeek [(encode (stampDT y m d h mi s ml) : Value N)] =
      .ok (.num (NumX.ofNat (weekday (daysFromCivil y m d)))) :=
  dayOfWeek_encode _ (stamp_enc st)
theorem isLeapYear_spec (st : Stamp y m d h mi s ml) :
    isLeapYear [(encode (stampDT y m d h mi s ml) : Value N)] = .ok (.bool (isLeap y)) := by
  rw [isLeapYear_encode _ (stamp_enc st), (stamp_components st).1]

/-! ### B7. encode_date, encode_time -/

/-- `encode_date(y, m, d)` of an existing date is its day number with time of day 0 -/
theorem encodeDate_spec (y : Int) (m d : Nat) (hv : validDate y m d = true) :
    encodeDate [(.num (NumX.ofInt y) : Value N), .num (NumX.ofNat m), .num (NumX.ofNat d)] =
      .ok (encode ⟨daysFromCivil y m d, 0⟩) := by
  obtain ⟨⟨hy1, hy2⟩, hm1, hm12, hd1, hd⟩ := (validDate_iff y m d).1 hv
  have hd31 : d ≤ 31 := by
    rcases daysInMonth_cases y m hm1 hm12 with ⟨_, e⟩ | ⟨_, e⟩ | ⟨_, _, e⟩ | ⟨_, _, e⟩ <;> omega
  simp only [minYear, maxYear] at hy1 hy2
  rw [encodeDate_ofInt y m d (by omega) (by omega) (by omega) (by omega), if_pos hv]

/-- a date that does not exist (month 13, 30 February, day 0, … — see `validDate_rejects`) is an error -/
theorem encodeDate_rejects (y : Int) (m d : Nat) (hy1 : -2147483648 ≤ y) (hy2 : y < 2147483648)
    (hm : m < 4294967296) (hd : d < 4294967296) (hv : validDate y m d = false) :
    encodeDate [(.num (NumX.ofInt y) : Value N), .num (NumX.ofNat m), .num (NumX.ofNat d)] =
      .error (custom "invalid date parameters") := by
  rw [encodeDate_ofInt y m d hy1 hy2 hm hd, hv]; rfl

/-- `encode_time(h, mi, s, ml)` is the millisecond of the day as a fraction of the day (day number 0) -/
theorem encodeTime_spec (h mi s ml : Nat) (hh : h < 24) (hmi : mi < 60) (hs : s < 60) (hml : ml < 1000) :
    encodeTime [(.num (NumX.ofNat h) : Value N), .num (NumX.ofNat mi), .num (NumX.ofNat s), .num (NumX.ofNat ml)] =
      .ok (encode ⟨0, ((h * 60 + mi) * 60 + s) * 1000 + ml⟩) := by
  have hv : validTime h mi s ml = true := by simp [validTime, hh, hmi, hs, hml]
  rw [encodeTime_ofNat4 h mi s ml (by omega) (by omega) (by omega) (by omega), if_pos hv]
  have : (h * 3600 + mi * 60 + s) * 1000 + ml = ((h * 60 + mi) * 60 + s) * 1000 + ml := by omega
  rw [this]

/-- the millisecond defaults to 0 -/
theorem encodeTime_spec3 (h mi s : Nat) (hh : h < 24) (hmi : mi < 60) (hs : s < 60) :
    encodeTime [(.num (NumX.ofNat h) : Value N), .num (NumX.ofNat mi), .num (NumX.ofNat s)] =
      .ok (encode ⟨0, ((h * 60 + mi) * 60 + s) * 1000⟩) := by
  have hv : validTime h mi s 0 = true := by simp [validTime, hh, hmi, hs]
  rw [encodeTime_ofNat3 h mi s (by omega) (by omega) (by omega), if_pos hv]
  have : (h * 3600 + mi * 60 + s) * 1000 = ((h * 60 + mi) * 60 + s) * 1000 := by omega
  rw [this]

/-- hour ≥ 24, minute ≥ 60 or second ≥ 60 is an error (whatever the millisecond) -/
theorem encodeTime_rejects (h mi s ml : Nat) (hh : h < 4294967296) (hmi : mi < 4294967296) (hs : s < 4294967296)
    (hml : ml < 4294967296) (hbad : 24 ≤ h ∨ 60 ≤ mi ∨ 60 ≤ s) :
    encodeTime [(.num (NumX.ofNat h) : Value N), .num (NumX.ofNat mi), .num (NumX.ofNat s), .num (NumX.ofNat ml)] =
      .error (custom "invalid time parameters") := by
  have hv : validTime h mi s ml = false := by
    simp only [validTime, Bool.and_eq_false_iff, decide_eq_false_iff_not]
    omega
  rw [encodeTime_ofNat4 h mi s ml hh hmi hs hml, hv]; rfl

/-- a negative component is an error -/
theorem encodeTime_rejects_negative (h mi s ml : Int)
    (bh : -4294967296 ≤ h ∧ h ≤ 4294967296) (bmi : -4294967296 ≤ mi ∧ mi ≤ 4294967296)
    (bs : -4294967296 ≤ s ∧ s ≤ 4294967296) (bml : -4294967296 ≤ ml ∧ ml ≤ 4294967296)
    (hneg : h < 0 ∨ mi < 0 ∨ s < 0 ∨ ml < 0) :
    encodeTime [(.num (NumX.ofInt h) : Value N), .num (NumX.ofInt mi), .num (NumX.ofInt s), .num (NumX.ofInt ml)] =
      .error (custom "invalid time parameters") :=
  encodeTime_negative h mi s ml bh bmi bs bml hneg

/-! ### B8. default-format strings -/

omit [LawfulTimeNum N] in
/-- `string_to_date("YYYY-MM-DD")` of an existing date of years 0–9999 is its day number -/
theorem stringToDate_spec (y : Int) (m d : Nat) (h0 : 0 ≤ y) (h1 : y ≤ 9999) (hv : validDate y m d = true) :
    stringToDate [(.str (dateText y m d) : Value N)] = some (.ok (encode ⟨daysFromCivil y m d, 0⟩)) := by
  obtain ⟨_, hm1, hm12, hd1, hd⟩ := (validDate_iff y m d).1 hv
  have hd31 : d ≤ 31 := by
    rcases daysInMonth_cases y m hm1 hm12 with ⟨_, e⟩ | ⟨_, e⟩ | ⟨_, _, e⟩ | ⟨_, _, e⟩ <;> omega
  rw [stringToDate_dateText y m d h0 h1 (by omega) (by omega), if_pos hv]

omit [LawfulTimeNum N] in
/-- the canonical text of a date that does not exist is rejected -/
theorem stringToDate_rejects (y : Int) (m d : Nat) (h0 : 0 ≤ y) (h1 : y ≤ 9999) (hm : m < 100) (hd : d < 100)
    (hv : validDate y m d = false) :
    stringToDate [(.str (dateText y m d) : Value N)] = some (.error (custom "input is out of range")) := by
  rw [stringToDate_dateText y m d h0 h1 hm hd, hv]; rfl

omit [LawfulTimeNum N] in
theorem stringToTime_spec (h mi s : Nat) (hh : h < 24) (hmi : mi < 60) (hs : s < 60) :
    stringToTime [(.str (timeText h mi s) : Value N)] = some (.ok (encode ⟨0, ((h * 60 + mi) * 60 + s) * 1000⟩)) := by
  rw [stringToTime_timeText h mi s (by omega) (by omega) (by omega), if_pos ⟨hh, hmi, hs⟩]
  have : (h * 3600 + mi * 60 + s) * 1000 = ((h * 60 + mi) * 60 + s) * 1000 := by omega
  rw [this]

omit [LawfulTimeNum N] in
/-- hour ≥ 24, minute ≥ 60 or second ≥ 60 (this includes chrono's leap second `:60`) is rejected -/
theorem stringToTime_rejects (h mi s : Nat) (hh : h < 100) (hmi : mi < 100) (hs : s < 100)
    (hbad : 24 ≤ h ∨ 60 ≤ mi ∨ 60 ≤ s) :
    stringToTime [(.str (timeText h mi s) : Value N)] = some (.error (custom "input is out of range")) := by
  rw [stringToTime_timeText h mi s hh hmi hs, if_neg (by omega)]

omit [LawfulTimeNum N] in
theorem stringToDatetime_spec (y : Int) (m d h mi s : Nat) (h0 : 0 ≤ y) (h1 : y ≤ 9999)
    (hv : validDate y m d = true) (hh : h < 24) (hmi : mi < 60) (hs : s < 60) :
    stringToDatetime [(.str (datetimeText y m d h mi s) : Value N)] =
      some (.ok (encode ⟨daysFromCivil y m d, ((h * 60 + mi) * 60 + s) * 1000⟩)) := by
  rw [stringToDatetime_datetimeText y m d h mi s h0 h1 hv hh hmi hs]
  have : (h * 3600 + mi * 60 + s) * 1000 = ((h * 60 + mi) * 60 + s) * 1000 := by omega
  rw [this]

/-- `date_to_string` with the default formats prints exactly the canonical texts of the encoded components -/
theorem dateToString_spec (st : Stamp y m d h mi s ml) :
    dateToString [.str fmtDate, (encode (stampDT y m d h mi s ml) : Value N)] = some (.ok (.str (dateText y m d))) ∧
    dateToString [.str fmtTime, (encode (stampDT y m d h mi s ml) : Value N)] = some (.ok (.str (timeText h mi s))) ∧
    dateToString [.str fmtDatetime, (encode (stampDT y m d h mi s ml) : Value N)] =
      some (.ok (.str (datetimeText y m d h mi s))) := by
  obtain ⟨e1, e2, e3, e4, e5, e6, _⟩ := stamp_components st
  refine ⟨?_, ?_, ?_⟩
  · rw [dateToString_encode _ _ (stamp_enc st), strftime_date, e1, e2, e3]; rfl
  · rw [dateToString_encode _ _ (stamp_enc st), strftime_time, e4, e5, e6]; rfl
  · rw [dateToString_encode _ _ (stamp_enc st), strftime_datetime, e1, e2, e3, e4, e5, e6]; rfl

/-- string_to_datetime ∘ date_to_string = id on whole-second date-times (default formats), and likewise for
    the date and the time part -/
theorem string_roundtrip (st : Stamp y m d h mi s 0) (txt : Str)
    (hp : dateToString [.str fmtDatetime, (encode (stampDT y m d h mi s 0) : Value N)] = some (.ok (.str txt))) :
    stringToDatetime [(.str txt : Value N)] = some (.ok (encode (stampDT y m d h mi s 0))) := by
  rw [(dateToString_spec st).2.2] at hp
  cases hp
  rw [stringToDatetime_spec y m d h mi s (by have := st.y1; omega) st.y2 st.valid st.hh st.hmi st.hs]
  simp only [stampDT, Nat.add_zero]

/-! ### B9. inc_month -/

/-- `inc_month(x, k)` moves by `k` whole calendar months (`addMonths`, characterised by `addMonths_spec`:
    day clamped to the target month, same time of day); the error names the direction -/
theorem incMonth_spec (t : DT) (ht : t.Enc) (k : Int) (hk1 : -2147483648 ≤ k) (hk2 : k < 2147483648) :
    incMonth [(encode t : Value N), .num (NumX.ofInt k)] =
      match addMonths t k with
      | some t2 => .ok (encode t2)
      | none => .error (custom (if 0 < k then "inc_month increment overflow" else "inc_month decrement underflow")) :=
  incMonth_encode t ht k hk1 hk2

/-- on dates of years 1–9999 and increments of at most 3 000 000 months (250 000 years: the target stays inside
    chrono's range) the result exists and has the shifted month, clamped day, same time -/
theorem incMonth_stamp (st : Stamp y m d h mi s ml) (k : Int) (hk1 : -3000000 ≤ k) (hk2 : k ≤ 3000000) :
    ∃ t2 : DT, incMonth [(encode (stampDT y m d h mi s ml) : Value N), .num (NumX.ofInt k)] = .ok (encode t2) ∧
      t2.ms = ((h * 60 + mi) * 60 + s) * 1000 + ml ∧
      t2.year * 12 + ((t2.month : Int) - 1) = y * 12 + ((m : Int) - 1) + k ∧
      t2.day = min d (daysInMonth t2.year t2.month) := by
  obtain ⟨e1, e2, e3, _⟩ := stamp_components st
  have hm := ((validDate_iff y m d).1 st.valid).2
  cases ha : addMonths (stampDT y m d h mi s ml) k with
  | none =>
    exfalso
    rw [addMonths_none_iff, e1, e2] at ha
    apply ha
    have := st.y1; have := st.y2; have := hm.1; have := hm.2.1
    simp only [minYear, maxYear]
    omega
  | some t2 =>
    refine ⟨t2, ?_, ?_⟩
    · rw [incMonth_spec _ (stamp_enc st) k (by omega) (by omega), ha]
    · obtain ⟨a1, a2, a3, _⟩ := addMonths_some ha
      rw [e1, e2] at a2; rw [e3] at a3
      exact ⟨a1, a2, a3⟩

/-- the increment defaults to one month -/
theorem incMonth_default (v : Value N) : incMonth [v] = incMonth [v, .num (NumX.ofInt 1)] :=
  Time.incMonth_default v

/-! ### B10. date(x) + time(x) = x -/

omit [LawfulTimeNum N] in
/-- the registry maps `date` to `trunc` and `time` to `frac` -/
theorem registry_date_time (cm : CaseMap) (off : Nat) :
    Registry.builtin (N := N) cm off "date" = some (Registry.tot (num1 NumOps.trunc)) ∧
    Registry.builtin (N := N) cm off "time" = some (Registry.tot (num1 NumX.fract)) := ⟨rfl, rfl⟩

/-- for every date-time number `x` of the covered range, `date(x) + time(x)` is `x` itself.
    (`trunc x + fract x = x` is the class field `trunc_add_fract`, a hypothesis about the numbers.) -/
theorem date_plus_time (t : DT) (ht : t.Enc) (a b : Value N)
    (ha : num1 NumOps.trunc [(encode t : Value N)] = .ok a) (hb : num1 NumX.fract [(encode t : Value N)] = .ok b) :
    Value.add a b = .ok (encode t) :=
  Time.date_plus_time t ht a b ha hb

end

/-! ### non-vacuity of part B: the hypotheses are satisfiable and the theorems apply to concrete stamps -/

example : Stamp 2024 2 29 23 59 59 999 := ⟨by decide, by decide, by decide, by decide, by decide, by decide, by decide⟩
example : Stamp 1 1 1 0 0 0 0 := ⟨by decide, by decide, by decide, by decide, by decide, by decide, by decide⟩
example : Stamp 9999 12 31 23 59 59 999 :=
  ⟨by decide, by decide, by decide, by decide, by decide, by decide, by decide⟩
example : (stampDT 9999 12 31 23 59 59 999).totalMs = 253402300799999 := by decide
example : (stampDT 2019 7 24 18 0 0 0).totalMs = 18101 * 86400000 + 64800000 := by decide   -- 18101.75 days

/-- the leap-day instance of `year_spec` in the rational model -/
example : @year ℚ Toy.numX [@encode ℚ Toy.numX (stampDT 2024 2 29 23 59 59 999)] =
    .ok (.num (@NumX.ofInt ℚ Toy.numX 2024)) :=
  @year_spec ℚ Toy.numX Toy.lawful _ _ _ _ _ _ _
    ⟨by decide, by decide, by decide, by decide, by decide, by decide, by decide⟩

example : dateText 2024 2 29 = ['2', '0', '2', '4', '-', '0', '2', '-', '2', '9'] := by decide
example : timeText 7 5 9 = ['0', '7', ':', '0', '5', ':', '0', '9'] := by decide
example : parseDate ['2', '0', '2', '3', '-', '0', '2', '-', '3', '0'] = some none := by decide   -- 30 February
example : parseDate ['2', '0', '2', '3', '-', '1', '3', '-', '0', '1'] = some none := by decide   -- month 13
example : parseTime ['2', '4', ':', '0', '0', ':', '0', '0'] = some none := by decide             -- hour 24

end Slac.C16
