/-
  SlacProps.FrontSource — capstone for the front end: the headline theorems of C01 / C02 restated about the functions translated from the SOURCE
  (Generated/SrcScanner.lean from src/scanner.rs, Generated/SrcParser.lean from src/compiler.rs), composed as `slac::compile` composes them
  (src/lib.rs: `let tokens = Scanner::tokenize(source)?; let ast = Compiler::compile_ast(tokens)?; Ok(ast)`).
  Nothing here mentions the hand-written scanner or parser model in its statement.
-/
import SlacProps.C01Text
import SlacProps.C01Parser
import SlacProps.C02Scanner
set_option autoImplicit false
namespace Slac.FrontSource
open Slac Slac.Scanner Slac.Parser Slac.Render Slac.Unlex Slac.Generated
variable {N : Type} [NumOps N]

/-- `slac::compile` over the translated scanner and parser; the fuels are the ones the simulation theorems show to suffice -/
def compileSrc (cc : CharClass) (src : Str) : COut N (Expr N) :=
  match SrcScanner.tokenize (N := N) (src.length + 1) cc src with
  | .ok toks => SrcParser.compile_ast (parseFuel toks.length) toks
  | .err e => .err e
  | .outOfFuel => .outOfFuel
  | .panic => .panic

/-- the translated front end is the model's `compile` -/
theorem compile_is_source (cc : CharClass) (src : Str) : compileSrc (N := N) cc src = compile cc src := by
  unfold compileSrc compile
  rw [C02Scanner.scan_is_source]
  cases scan (N := N) cc src with
  | ok toks => exact C01Parser.parse_is_source toks
  | _ => rfl

/-- C01, first half, about the source: the text of EVERY rendering of a tree (any parenthesisation style) compiles to exactly that tree -/
theorem compile_rendering_source {cc : CharClass} (hcc : cc.AsciiOk) (pr : N → Str) {e : Expr N} {ts : List (Token N)}
    (hr : Rn 1 e ts) (ht : C01.SrcText cc pr e) : compileSrc cc (unlex pr ts) = .ok e := by
  rw [compile_is_source]; exact C01.compile_rendering_src hcc pr hr ht

theorem compile_renderMin_source {cc : CharClass} (hcc : cc.AsciiOk) (pr : N → Str) {e : Expr N} (hs : SrcExpr e)
    (ht : C01.SrcText cc pr e) : compileSrc cc (unlex pr (renderMin e)) = .ok e := by
  rw [compile_is_source]; exact C01.compile_renderMin hcc pr hs ht

theorem compile_renderFull_source {cc : CharClass} (hcc : cc.AsciiOk) (pr : N → Str) {e : Expr N} (hs : SrcExpr e)
    (ht : C01.SrcText cc pr e) : compileSrc cc (unlex pr (renderFull e)) = .ok e := by
  rw [compile_is_source]; exact C01.compile_renderFull hcc pr hs ht

/-- C02 about the source: `compile` — result or error value — does not depend on layout: two texts with the same tokens compile alike -/
theorem compile_layout_irrelevant_source {cc : CharClass} (hcc : cc.AsciiOk) (items items' : List (Item N))
    (s0 s0' trail trail' : Str) (hsame : items.map (·.tok) = items'.map (·.tok)) (hne : items ≠ [])
    (hs0 : IsSep s0) (hs0' : IsSep s0')
    (hitems : ∀ i ∈ items, Lexeme cc i.tok i.text ∧ IsSep i.sep)
    (hitems' : ∀ i ∈ items', Lexeme cc i.tok i.text ∧ IsSep i.sep)
    (hjoin : JoinableTok items trail) (hjoin' : JoinableTok items' trail')
    (htrail : IsTrail trail) (htrail' : IsTrail trail') :
    compileSrc (N := N) cc (s0 ++ Scanner.render items trail) = compileSrc cc (s0' ++ Scanner.render items' trail') := by
  rw [compile_is_source, compile_is_source]
  exact C01.compile_layout_irrelevant hcc items items' s0 s0' trail trail' hsame hne hs0 hs0' hitems hitems' hjoin hjoin' htrail htrail'

/-- C07 about the source: the translated front end returns a tree or an error value for EVERY text — it never reaches a `usize` underflow (panic
    outcome) and the stated fuels always suffice -/
theorem compile_total_source (cc : CharClass) (src : Str) :
    (∃ e, compileSrc (N := N) cc src = .ok e) ∨ (∃ err, compileSrc (N := N) cc src = .err err) := by
  unfold compileSrc
  obtain ⟨hp, hf⟩ := C02Scanner.tokenize_total (N := N) cc src
  cases ht : SrcScanner.tokenize (N := N) (src.length + 1) cc src with
  | ok toks =>
    obtain ⟨hp2, hf2⟩ := C01Parser.compile_ast_total toks (parseFuel toks.length) (by unfold parseFuel; omega)
    cases hc : SrcParser.compile_ast (parseFuel toks.length) toks with
    | ok e => exact .inl ⟨e, hc⟩
    | err er => exact .inr ⟨er, hc⟩
    | outOfFuel => exact absurd hc hf2
    | panic => exact absurd hc hp2
  | err er => exact .inr ⟨er, rfl⟩
  | outOfFuel => exact absurd ht hf
  | panic => exact absurd ht hp

end Slac.FrontSource
