/-
  C14 (second sentence) — what the two impure builtins may answer.  With the OS random word explicit
  (SlacModel/Nondet.lean): `choice` answers a member of its (unpacked) argument list, every member is a possible
  answer, it fails exactly on the empty list, and the finitely many words `w < length` already produce every possible
  answer (so the driver's membership test by enumeration is complete); `random` is defined on exactly the argument
  lists `default_number` accepts, and is 0 for the range 0.
-/
import SlacModel.Nondet
set_option autoImplicit false
set_option linter.unusedSectionVars false
namespace Slac.C14
open Slac.Nondet Slac.Stdlib
variable {N : Type} [NumX N]

theorem randomInt_lt (w max : Nat) (h : 0 < max) : randomInt w max < max := by
  unfold randomInt; rw [if_neg (by omega)]; exact Nat.mod_lt _ h

/-- `choice` answers a member of the unpacked argument list -/
theorem choice_member (w : Nat) (ps : List (Value N)) (v : Value N) (h : choiceWith w ps = .ok v) : v ∈ smartVec ps := by
  unfold choiceWith at h
  simp only at h
  split at h
  · rename_i x hx; cases h; exact List.mem_of_getElem? hx
  · cases h

/-- every member is a possible answer -/
theorem choice_every_member (ps : List (Value N)) (i : Nat) (h : i < (smartVec ps).length) :
    choiceWith i ps = .ok ((smartVec ps)[i]) := by
  unfold choiceWith randomInt
  simp only
  have : ¬ (smartVec ps).length = 0 := by omega
  rw [if_neg this, Nat.mod_eq_of_lt h, List.getElem?_eq_getElem h]

/-- `choice` fails exactly when there is nothing to choose from, and then with WrongParameterType -/
theorem choice_error_iff (w : Nat) (ps : List (Value N)) :
    (∃ e, choiceWith w ps = .error e) ↔ smartVec ps = [] := by
  constructor
  · rintro ⟨e, h⟩
    cases hl : smartVec ps with
    | nil => rfl
    | cons a as =>
      have hlt : randomInt w (smartVec ps).length < (smartVec ps).length := randomInt_lt _ _ (by rw [hl]; simp)
      unfold choiceWith at h
      simp only at h
      rw [List.getElem?_eq_getElem hlt] at h
      cases h
  · intro h
    refine ⟨.wrongParameterType, ?_⟩
    unfold choiceWith; simp [h]

/-- the words below the list length already produce every possible answer (completeness of the enumeration) -/
theorem choice_small_words (w : Nat) (ps : List (Value N)) :
    ∃ w', w' < max 1 (smartVec ps).length ∧ choiceWith w' ps = choiceWith w ps := by
  by_cases h : (smartVec ps).length = 0
  · refine ⟨0, by omega, ?_⟩
    unfold choiceWith randomInt; simp [h]
  · refine ⟨randomInt w (smartVec ps).length, ?_, ?_⟩
    · have := randomInt_lt w _ (Nat.pos_of_ne_zero h); omega
    · unfold choiceWith
      simp only
      have : randomInt (randomInt w (smartVec ps).length) (smartVec ps).length = randomInt w (smartVec ps).length := by
        unfold randomInt; rw [if_neg h, if_neg h, Nat.mod_mod]
      rw [this]

/-- `random` accepts exactly no argument or a Number first argument -/
theorem random_domain (u : Nat) (ps : List (Value N)) :
    (∃ x, randomWith u ps = .ok (.num x)) ↔ (ps = [] ∨ ∃ m rest, ps = .num m :: rest) := by
  unfold randomWith defaultNumber
  cases ps with
  | nil => simp
  | cons a rest => cases a <;> simp

/-- an empty range gives 0, whatever the random word -/
theorem random_zero_range (u : Nat) (m : N) (h : NumOps.beq m (NumOps.zero : N) = true) (rest : List (Value N)) :
    randomWith u (.num m :: rest) = .ok (.num NumOps.zero) := by
  simp [randomWith, defaultNumber, randomFloat, h]

/-- non-vacuity: a concrete choice -/
example : choiceWith (N := Float) 7 [.arr [.bool true, .str ['a'], .bool false]] = .ok (.str ['a']) := rfl

end Slac.C14
