/-
  SlacProps.C01Parser — the hand-written parser model (SlacModel/Parser.lean), about which every parser theorem of C01 / C07 is
  stated, IS the function that tools/rs2lean_parser.py translates from the current text of src/compiler.rs
  (SlacModel/Generated/SrcParser.lean), for every fuel, token vector and cursor:

    parsePrec_is_source    parse_precedence   (cursor c  ↔  remaining tokens `toks.drop c`)
    doPrefix_is_source     do_prefix          (`previous()` is the token before the cursor)
    infixLoop_is_source    the `while` loop of parse_precedence
    doInfix_is_source      do_infix
    exprList_is_source     the `while` loop of expression_list followed by `chomp(end_token)`, for both end tokens
    parse_is_source        Compiler::compile_ast = Parser.parse        (same fuel on both sides)
    compile_ast_total      hence the translated source function needs no more than `parseFuel` levels of recursion and never
                           reaches the `usize` underflow in `previous()` / `PreviousTokenNotFound`

  The model passes the remaining tokens around, the source a cursor into a fixed vector: `view` maps one outcome to the other.
-/
import SlacModel.Parser
import SlacModel.Generated.SrcParser
import SlacProofs.ParserTotal
import SlacProps.C01Source
set_option autoImplicit false
set_option linter.unusedSimpArgs false
namespace Slac.C01Parser
open Slac Slac.Parser Slac.SrcParser Slac.Generated Slac.Generated.SrcParser
variable {N : Type} {α β : Type}

/-- a source outcome (value, cursor) seen as a model outcome (value, remaining tokens) -/
def view (toks : List (Token N)) : COut N (α × Nat) → St N α
  | .ok (a, c) => .ok (a, toks.drop c)
  | .err e => .err e
  | .outOfFuel => .outOfFuel
  | .panic => .panic

/-- what `chomp(end_token)` does after the loop of `expression_list` stopped at cursor `c` -/
def finishList (toks : List (Token N)) (b : Bool) : COut N (List (Expr N) × Nat) → St N (List (Expr N))
  | .ok (es, c) =>
    match toks.drop c with
    | [] => .err .eof
    | t :: rest => if isClose b t then .ok (es, rest) else .err (.invalidToken t)
  | .err e => .err e
  | .outOfFuel => .outOfFuel
  | .panic => .panic

/-- the loop of `expression_list` pushes onto the vector it was started with -/
def prepend (acc : List (Expr N)) : St N (List (Expr N)) → St N (List (Expr N))
  | .ok (es, r) => .ok (acc ++ es, r)
  | .err e => .err e
  | .outOfFuel => .outOfFuel
  | .panic => .panic

theorem lt_of_get_some {toks : List (Token N)} {c : Nat} {t : Token N} (h : toks[c]? = some t) : c < toks.length := by
  rcases Nat.lt_or_ge c toks.length with h' | h'
  · exact h'
  · rw [List.getElem?_eq_none h'] at h; cases h

theorem drop_some {toks : List (Token N)} {c : Nat} {t : Token N} (h : toks[c]? = some t) : toks.drop c = t :: toks.drop (c + 1) := by
  have hl := lt_of_get_some h
  rw [List.getElem?_eq_getElem hl] at h
  injection h with h; subst h
  exact List.drop_eq_getElem_cons hl

theorem drop_none {toks : List (Token N)} {c : Nat} (h : toks[c]? = none) : toks.drop c = [] := by
  rw [List.getElem?_eq_none_iff] at h
  exact List.drop_eq_nil_of_le h

/-- the outcome of `x >>= k`, given the outcome of `x` -/
def bindOut (r : COut N (α × Nat)) (k : α → PM N β) : COut N (β × Nat) :=
  match r with
  | .ok (a, c') => k a c'
  | .err e => .err e
  | .outOfFuel => .outOfFuel
  | .panic => .panic
@[simp] theorem bindOut_ok (a : α) (c : Nat) (k : α → PM N β) : bindOut (.ok (a, c)) k = k a c := rfl
@[simp] theorem bindOut_err (e : CErr N) (k : α → PM N β) : bindOut (.err e : COut N (α × Nat)) k = .err e := rfl
@[simp] theorem bindOut_oof (k : α → PM N β) : bindOut (.outOfFuel : COut N (α × Nat)) k = .outOfFuel := rfl
@[simp] theorem bindOut_panic (k : α → PM N β) : bindOut (.panic : COut N (α × Nat)) k = .panic := rfl
@[simp] theorem bind_apply (x : PM N α) (k : α → PM N β) (c : Nat) : (PM.bind x k) c = bindOut (x c) k := rfl
@[simp] theorem pure_apply (a : α) (c : Nat) : (PM.pure a : PM N α) c = .ok (a, c) := rfl
@[simp] theorem getCur_apply (c : Nat) : (getCur : PM N Nat) c = .ok (c, c) := rfl
@[simp] theorem setCur_apply (n c : Nat) : (setCur n : PM N Unit) c = .ok ((), n) := rfl
@[simp] theorem throwE_apply (e : CErr N) (c : Nat) : (throwE e : PM N α) c = .err e := rfl
@[simp] theorem outOfFuel_apply (c : Nat) : (SrcParser.outOfFuel : PM N α) c = .outOfFuel := rfl
@[simp] theorem okOr_some (a : α) (e : CErr N) (c : Nat) : (okOr (some a) e : PM N α) c = .ok (a, c) := rfl
@[simp] theorem okOr_none (e : CErr N) (c : Nat) : (okOr none e : PM N α) c = .err e := rfl
@[simp] theorem usub_apply (a b c : Nat) : (usub a b : PM N Nat) c = if b ≤ a then .ok (a - b, c) else .panic := rfl
@[simp] theorem ite_app {p : Prop} [Decidable p] (x y : PM N α) (c : Nat) : (if p then x else y) c = if p then x c else y c := by
  split <;> rfl

theorem prepend_nil (x : St N (List (Expr N))) : prepend [] x = x := by
  cases x with
  | ok a => cases a; simp [prepend]
  | _ => rfl

theorem prepend_step (acc : List (Expr N)) (e : Expr N) (x : St N (List (Expr N))) :
    prepend acc (andThen x fun y => .ok (e :: y.1, y.2)) = prepend (acc ++ [e]) x := by
  cases x with
  | ok a => cases a; simp [prepend, andThen]
  | _ => rfl

theorem exprList_step {f : Nat} {b : Bool} {l r : List (Token N)} {t : Token N} (hl : l = t :: r) (hc : isClose b t = false) :
    exprList (f + 1) b l = andThen (parsePrec f 1 l) fun x => andThen (exprList f b (dropComma x.2)) fun y => .ok (x.1 :: y.1, y.2) := by
  subst hl; simp [exprList, hc]

theorem dropComma_drop (toks : List (Token N)) (c : Nat) :
    dropComma (toks.drop c) = toks.drop (match toks[c]? with | some .comma => c + 1 | _ => c) := by
  cases h : toks[c]? with
  | none => simp [drop_none h, dropComma]
  | some t => rw [drop_some h]; cases t <;> simp [dropComma, drop_some h]

/-- the model answers what the source answers, unless the model has run out of its fuel: the model spends a level of fuel on the
    end-of-input test of `expression()` in `grouping`, which the source performs before it recurses, so with fuel 1 the model says
    `outOfFuel` on `(` at the end of the input where the source already says `Eof`.  With the fuel `parse` uses the model never runs
    out (`parse_total`), so the top-level statement `parse_is_source` is an equation. -/
def R (x y : COut N α) : Prop := x = .outOfFuel ∨ x = y
theorem R.of_eq {x y : COut N α} (h : x = y) : R x y := .inr h
theorem R.oof {y : COut N α} : R (.outOfFuel : COut N α) y := .inl rfl

/-- the statements proved together by induction on the fuel -/
structure Sim (toks : List (Token N)) (f : Nat) : Prop where
  pp : ∀ p c, R (parsePrec f p (toks.drop c)) (view toks (parse_precedence f toks p c))
  dp : ∀ c t, 1 ≤ c → toks[c - 1]? = some t → R (doPrefix f t (toks.drop c)) (view toks (do_prefix f toks c))
  il : ∀ p l c, R (infixLoop f p l (toks.drop c)) (view toks (parse_precedence_loop1 f toks p l c))
  di : ∀ c t l, 1 ≤ c → toks[c - 1]? = some t → R (doInfix f t l (toks.drop c)) (view toks (do_infix f toks l c))
  la : ∀ acc c, R (prepend acc (exprList f false (toks.drop c))) (finishList toks false (do_prefix_loop1 f toks acc c))
  lc : ∀ acc c, R (prepend acc (exprList f true (toks.drop c))) (finishList toks true (do_infix_loop1 f toks acc c))

theorem sim_zero (toks : List (Token N)) : Sim toks 0 := by
  constructor <;> intros <;> apply R.of_eq <;>
    simp [parsePrec, doPrefix, infixLoop, doInfix, exprList, parse_precedence, do_prefix, parse_precedence_loop1, do_infix,
      do_prefix_loop1, do_infix_loop1, view, finishList, prepend]

theorem pp_succ {toks : List (Token N)} {f : Nat} (ih : Sim toks f) (p c : Nat) :
    R (parsePrec (f + 1) p (toks.drop c)) (view toks (parse_precedence (f + 1) toks p c)) := by
  simp only [bind_apply, bindOut_ok, bindOut_err, bindOut_oof, bindOut_panic, pure_apply, getCur_apply, setCur_apply, throwE_apply, ite_app, parse_precedence, bind, pure, bind_apply, pure_apply, getCur_apply, setCur_apply, throwE_apply, ite_app]
  cases h : toks[c]? with
  | none =>
    have hl : toks.length ≤ c := by simpa using h
    rw [drop_none h]
    apply R.of_eq; simp [parsePrec, view, hl]
  | some t =>
    have hl := lt_of_get_some h
    have hn : ¬ toks.length ≤ c := by omega
    rw [drop_some h]
    rcases ih.dp (c + 1) t (by omega) (by simpa using h) with h1 | h1
    · left; simp [parsePrec, andThen, h1]
    · simp only [bind_apply, bindOut_ok, bindOut_err, bindOut_oof, bindOut_panic, pure_apply, getCur_apply, setCur_apply, throwE_apply, ite_app, parsePrec, andThen, h1]
      simp only [bind_apply, bindOut_ok, bindOut_err, bindOut_oof, bindOut_panic, pure_apply, getCur_apply, setCur_apply, throwE_apply, ite_app, ge_iff_le, hn, decide_false, Bool.false_eq_true, if_false, hl, decide_true, if_true]
      cases do_prefix f toks (c + 1) with
      | ok a => exact ih.il _ _ _
      | _ => exact R.of_eq rfl

theorem il_succ {toks : List (Token N)} {f : Nat} (ih : Sim toks f) (p : Nat) (l : Expr N) (c : Nat) :
    R (infixLoop (f + 1) p l (toks.drop c)) (view toks (parse_precedence_loop1 (f + 1) toks p l c)) := by
  simp only [bind_apply, bindOut_ok, bindOut_err, bindOut_oof, bindOut_panic, pure_apply, getCur_apply, setCur_apply, throwE_apply, ite_app, parse_precedence_loop1, bind, pure, bind_apply, pure_apply, getCur_apply, setCur_apply, ite_app]
  cases h : toks[c]? with
  | none => rw [drop_none h]; apply R.of_eq; simp [infixLoop, view, drop_none h]
  | some t =>
    have hl := lt_of_get_some h
    rw [drop_some h]
    by_cases hp : p ≤ Grammar.tokenPrec t
    · rcases ih.di (c + 1) t l (by omega) (by simpa using h) with h1 | h1
      · left; simp [infixLoop, C01Source.prec_is_source, hp, andThen, h1]
      · simp only [bind_apply, bindOut_ok, bindOut_err, bindOut_oof, bindOut_panic, pure_apply, getCur_apply, setCur_apply, throwE_apply, ite_app, infixLoop, C01Source.prec_is_source, hp, if_true, andThen, h1, decide_true, hl]
        cases do_infix f toks l (c + 1) with
        | ok a => exact ih.il _ _ _
        | _ => exact R.of_eq rfl
    · apply R.of_eq; simp [infixLoop, C01Source.prec_is_source, hp, view, drop_some h]

theorem list_succ {toks : List (Token N)} {f : Nat} (b : Bool) (loop : Nat → List (Token N) → List (Expr N) → PM N (List (Expr N)))
    (ihpp : ∀ p c, R (parsePrec f p (toks.drop c)) (view toks (parse_precedence f toks p c)))
    (ihl : ∀ acc c, R (prepend acc (exprList f b (toks.drop c))) (finishList toks b (loop f toks acc c)))
    (acc : List (Expr N)) (c : Nat)
    (hloop : loop (f + 1) toks acc c =
      match toks[c]? with
      | none => .ok (acc, c)
      | some t =>
        if isClose b t then .ok (acc, c) else
        match parse_precedence f toks 1 c with
        | .ok (e, c1) => loop f toks (acc ++ [e]) (match toks[c1]? with | some .comma => c1 + 1 | _ => c1)
        | .err e => .err e
        | .outOfFuel => .outOfFuel
        | .panic => .panic) :
    R (prepend acc (exprList (f + 1) b (toks.drop c))) (finishList toks b (loop (f + 1) toks acc c)) := by
  rw [hloop]
  cases h : toks[c]? with
  | none => apply R.of_eq; simp [drop_none h, exprList, prepend, finishList]
  | some t =>
    by_cases hc : isClose b t
    · apply R.of_eq; simp [drop_some h, exprList, prepend, finishList, hc]
    · have hc' : isClose b t = false := by simpa using hc
      rw [exprList_step (drop_some h) hc']
      simp only [bind_apply, bindOut_ok, bindOut_err, bindOut_oof, bindOut_panic, pure_apply, getCur_apply, setCur_apply, throwE_apply, ite_app, hc']
      rcases ihpp 1 c with h1 | h1
      · left; simp [andThen, h1, prepend]
      · rw [h1]
        cases parse_precedence f toks 1 c with
        | ok a =>
          obtain ⟨e, c1⟩ := a
          simp only [bind_apply, bindOut_ok, bindOut_err, bindOut_oof, bindOut_panic, pure_apply, getCur_apply, setCur_apply, throwE_apply, ite_app, view, andThen_ok, dropComma_drop, Bool.false_eq_true, if_false]
          rw [prepend_step]; exact ihl _ _
        | _ => apply R.of_eq; simp [view, andThen, prepend, finishList]

theorem loopA_eq (toks : List (Token N)) (f : Nat) (acc : List (Expr N)) (c : Nat) :
    do_prefix_loop1 (f + 1) toks acc c =
      match toks[c]? with
      | none => .ok (acc, c)
      | some t =>
        if isClose false t then .ok (acc, c) else
        match parse_precedence f toks 1 c with
        | .ok (e, c1) => do_prefix_loop1 f toks (acc ++ [e]) (match toks[c1]? with | some .comma => c1 + 1 | _ => c1)
        | .err e => .err e
        | .outOfFuel => .outOfFuel
        | .panic => .panic := by
  simp only [bind_apply, bindOut_ok, bindOut_err, bindOut_oof, bindOut_panic, pure_apply, getCur_apply, setCur_apply, throwE_apply, ite_app, do_prefix_loop1, bind, pure, bind_apply, pure_apply, getCur_apply, setCur_apply, throwE_apply, ite_app]
  cases h : toks[c]? with
  | none => simp
  | some t =>
    have hl := lt_of_get_some h
    cases t <;> simp [isClose, hl]
    all_goals
      cases parse_precedence f toks 1 c with
      | ok a =>
        obtain ⟨e, c1⟩ := a
        cases h1 : toks[c1]? with
        | none => simp [h1]
        | some t1 => have hl1 := lt_of_get_some h1; cases t1 <;> simp only [bind_apply, bindOut_ok, bindOut_err, bindOut_oof, bindOut_panic, pure_apply, getCur_apply, setCur_apply, throwE_apply, ite_app, h1] <;> simp [hl1]
      | _ => rfl

theorem loopC_eq (toks : List (Token N)) (f : Nat) (acc : List (Expr N)) (c : Nat) :
    do_infix_loop1 (f + 1) toks acc c =
      match toks[c]? with
      | none => .ok (acc, c)
      | some t =>
        if isClose true t then .ok (acc, c) else
        match parse_precedence f toks 1 c with
        | .ok (e, c1) => do_infix_loop1 f toks (acc ++ [e]) (match toks[c1]? with | some .comma => c1 + 1 | _ => c1)
        | .err e => .err e
        | .outOfFuel => .outOfFuel
        | .panic => .panic := by
  simp only [bind_apply, bindOut_ok, bindOut_err, bindOut_oof, bindOut_panic, pure_apply, getCur_apply, setCur_apply, throwE_apply, ite_app, do_infix_loop1, bind, pure, bind_apply, pure_apply, getCur_apply, setCur_apply, throwE_apply, ite_app]
  cases h : toks[c]? with
  | none => simp
  | some t =>
    have hl := lt_of_get_some h
    cases t <;> simp [isClose, hl]
    all_goals
      cases parse_precedence f toks 1 c with
      | ok a =>
        obtain ⟨e, c1⟩ := a
        cases h1 : toks[c1]? with
        | none => simp [h1]
        | some t1 => have hl1 := lt_of_get_some h1; cases t1 <;> simp only [bind_apply, bindOut_ok, bindOut_err, bindOut_oof, bindOut_panic, pure_apply, getCur_apply, setCur_apply, throwE_apply, ite_app, h1] <;> simp [hl1]
      | _ => rfl

theorem dp_succ {toks : List (Token N)} {f : Nat} (ih : Sim toks f) (c : Nat) (t : Token N) (hc : 1 ≤ c) (ht : toks[c - 1]? = some t) :
    R (doPrefix (f + 1) t (toks.drop c)) (view toks (do_prefix (f + 1) toks c)) := by
  simp only [bind_apply, bindOut_ok, bindOut_err, bindOut_oof, bindOut_panic, pure_apply, getCur_apply, setCur_apply, throwE_apply, ite_app, do_prefix, bind, pure, bind_apply, pure_apply, getCur_apply, setCur_apply, throwE_apply, ite_app, usub_apply, hc, if_true, ht, okOr_some]
  cases t
  case leftParen =>
    simp only [bind_apply, bindOut_ok, bindOut_err, bindOut_oof, bindOut_panic, pure_apply, getCur_apply, setCur_apply, throwE_apply, ite_app, bind_apply, pure_apply, getCur_apply, setCur_apply, throwE_apply, ite_app]
    cases h : toks[c]? with
    | none =>
      have hl : ¬ c < toks.length := by have : toks.length ≤ c := by simpa using h
                                        omega
      rw [drop_none h]
      cases f with
      | zero => left; simp [doPrefix, parsePrec, andThen]
      | succ f' => apply R.of_eq; simp [doPrefix, parsePrec, andThen, view, hl]
    | some t0 =>
      have hl := lt_of_get_some h
      rcases ih.pp 1 c with h1 | h1
      · left; simp [doPrefix, andThen, h1]
      · simp only [bind_apply, bindOut_ok, bindOut_err, bindOut_oof, bindOut_panic, pure_apply, getCur_apply, setCur_apply, throwE_apply, ite_app, doPrefix, andThen, h1, hl, decide_true, if_true]
        cases parse_precedence f toks 1 c with
        | ok a =>
          obtain ⟨e, c1⟩ := a
          apply R.of_eq
          cases h2 : toks[c1]? with
          | none => simp [view, chompParen, drop_none h2, h2]
          | some t2 => have hl2 := lt_of_get_some h2; cases t2 <;> simp only [bind_apply, bindOut_ok, bindOut_err, bindOut_oof, bindOut_panic, pure_apply, getCur_apply, setCur_apply, throwE_apply, ite_app, h2] <;> simp [view, chompParen, drop_some h2, hl2]
        | _ => exact R.of_eq rfl
  case leftBracket =>
    simp only [bind_apply, bindOut_ok, bindOut_err, bindOut_oof, bindOut_panic, pure_apply, getCur_apply, setCur_apply, throwE_apply, ite_app, bind_apply, pure_apply, getCur_apply, setCur_apply, throwE_apply, ite_app]
    have h0 := ih.la [] c
    rw [prepend_nil] at h0
    rcases h0 with h1 | h1
    · left; simp [doPrefix, andThen, h1]
    · simp only [bind_apply, bindOut_ok, bindOut_err, bindOut_oof, bindOut_panic, pure_apply, getCur_apply, setCur_apply, throwE_apply, ite_app, doPrefix, andThen, h1]
      cases do_prefix_loop1 f toks [] c with
      | ok a =>
        obtain ⟨es, c1⟩ := a
        apply R.of_eq
        cases h2 : toks[c1]? with
        | none => simp [view, finishList, drop_none h2, h2]
        | some t2 => have hl2 := lt_of_get_some h2; cases t2 <;> simp only [bind_apply, bindOut_ok, bindOut_err, bindOut_oof, bindOut_panic, pure_apply, getCur_apply, setCur_apply, throwE_apply, ite_app, h2] <;> simp [view, finishList, isClose, drop_some h2, hl2]
      | _ => exact R.of_eq rfl
  case minus =>
    simp only [bind_apply, bindOut_ok, bindOut_err, bindOut_oof, bindOut_panic, pure_apply, getCur_apply, setCur_apply, throwE_apply, ite_app, bind_apply, pure_apply, getCur_apply, usub_apply, hc, if_true, ht, okOr_some, Grammar.tokenOperator]
    rcases ih.pp 8 c with h1 | h1
    · left; simp [doPrefix, andThen, h1]
    · simp only [bind_apply, bindOut_ok, bindOut_err, bindOut_oof, bindOut_panic, pure_apply, getCur_apply, setCur_apply, throwE_apply, ite_app, doPrefix, andThen, h1]
      cases parse_precedence f toks 8 c <;> exact R.of_eq rfl
  case not =>
    simp only [bind_apply, bindOut_ok, bindOut_err, bindOut_oof, bindOut_panic, pure_apply, getCur_apply, setCur_apply, throwE_apply, ite_app, bind_apply, pure_apply, getCur_apply, usub_apply, hc, if_true, ht, okOr_some, Grammar.tokenOperator]
    rcases ih.pp 8 c with h1 | h1
    · left; simp [doPrefix, andThen, h1]
    · simp only [bind_apply, bindOut_ok, bindOut_err, bindOut_oof, bindOut_panic, pure_apply, getCur_apply, setCur_apply, throwE_apply, ite_app, doPrefix, andThen, h1]
      cases parse_precedence f toks 8 c <;> exact R.of_eq rfl
  all_goals (apply R.of_eq; simp [doPrefix, view])

theorem binary_case {toks : List (Token N)} {f : Nat} (ih : Sim toks f) (c p q : Nat) (hpq : p = q) (l : Expr N) (op : Op) :
    R (andThen (parsePrec f p (toks.drop c)) fun x => .ok (Expr.binary l x.1 op, x.2))
      (view toks (bindOut (parse_precedence f toks q c) fun a => PM.pure (Expr.binary l a op))) := by
  subst hpq
  rcases ih.pp p c with h1 | h1
  · left; simp [andThen, h1]
  · rw [h1]; cases parse_precedence f toks p c <;> exact R.of_eq rfl

theorem di_succ {toks : List (Token N)} {f : Nat} (ih : Sim toks f) (c : Nat) (t : Token N) (l : Expr N) (hc : 1 ≤ c)
    (ht : toks[c - 1]? = some t) :
    R (doInfix (f + 1) t l (toks.drop c)) (view toks (do_infix (f + 1) toks l c)) := by
  simp only [bind_apply, bindOut_ok, bindOut_err, bindOut_oof, bindOut_panic, pure_apply, getCur_apply, setCur_apply, throwE_apply, ite_app, do_infix, bind, pure, bind_apply, pure_apply, getCur_apply, setCur_apply, throwE_apply, ite_app, usub_apply, hc, if_true, ht, okOr_some]
  cases t
  case leftParen =>
    simp only [bind_apply, bindOut_ok, bindOut_err, bindOut_oof, bindOut_panic, pure_apply, getCur_apply, setCur_apply, throwE_apply, ite_app, doInfix, Token.binOp?]
    cases l
    case var name =>
      simp only [bind_apply, bindOut_ok, bindOut_err, bindOut_oof, bindOut_panic, pure_apply, getCur_apply, setCur_apply, throwE_apply, ite_app, bind_apply, pure_apply, getCur_apply, setCur_apply, throwE_apply, ite_app]
      have h0 := ih.lc [] c
      rw [prepend_nil] at h0
      rcases h0 with h1 | h1
      · left; simp [andThen, h1]
      · simp only [bind_apply, bindOut_ok, bindOut_err, bindOut_oof, bindOut_panic, pure_apply, getCur_apply, setCur_apply, throwE_apply, ite_app, andThen, h1]
        cases do_infix_loop1 f toks [] c with
        | ok a =>
          obtain ⟨es, c1⟩ := a
          apply R.of_eq
          cases h2 : toks[c1]? with
          | none => simp [view, finishList, drop_none h2, h2]
          | some t2 => have hl2 := lt_of_get_some h2; cases t2 <;> simp only [bind_apply, bindOut_ok, bindOut_err, bindOut_oof, bindOut_panic, pure_apply, getCur_apply, setCur_apply, throwE_apply, ite_app, h2] <;> simp [view, finishList, isClose, drop_some h2, hl2]
        | _ => exact R.of_eq rfl
    all_goals (apply R.of_eq; simp [view, hc, ht])
  all_goals first
    | (apply R.of_eq; simp [doInfix, Token.binOp?, view]; done)
    | (simp only [bind_apply, bindOut_ok, bindOut_err, bindOut_oof, bindOut_panic, pure_apply, getCur_apply, setCur_apply, throwE_apply, ite_app, bind_apply, pure_apply, getCur_apply, usub_apply, hc, if_true, ht, okOr_some, Grammar.tokenOperator, Grammar.tokenPrec,
         Grammar.precNext, doInfix, Token.binOp?, Token.prec, nextPrec]
       refine binary_case ih c _ _ ?_ l _
       rfl)

/-- the simulation, for every fuel -/
theorem sim (toks : List (Token N)) : ∀ f, Sim toks f
  | 0 => sim_zero toks
  | f + 1 =>
    have ih := sim toks f
    { pp := pp_succ ih, dp := dp_succ ih, il := il_succ ih, di := di_succ ih
      la := fun acc c => list_succ false do_prefix_loop1 ih.pp ih.la acc c (loopA_eq toks f acc c)
      lc := fun acc c => list_succ true do_infix_loop1 ih.pp ih.lc acc c (loopC_eq toks f acc c) }

/-- `parse_precedence`, translated from the source, computes what `parsePrec` computes (cursor `c` ↔ tokens from `c` on), unless the
    model's fuel is exhausted -/
theorem parsePrec_is_source (toks : List (Token N)) (f p c : Nat) :
    parsePrec f p (toks.drop c) = .outOfFuel ∨ parsePrec f p (toks.drop c) = view toks (parse_precedence f toks p c) := (sim toks f).pp p c
theorem doPrefix_is_source (toks : List (Token N)) (f c : Nat) (t : Token N) (hc : 1 ≤ c) (ht : toks[c - 1]? = some t) :
    doPrefix f t (toks.drop c) = .outOfFuel ∨ doPrefix f t (toks.drop c) = view toks (do_prefix f toks c) := (sim toks f).dp c t hc ht
theorem infixLoop_is_source (toks : List (Token N)) (f p : Nat) (l : Expr N) (c : Nat) :
    infixLoop f p l (toks.drop c) = .outOfFuel ∨ infixLoop f p l (toks.drop c) = view toks (parse_precedence_loop1 f toks p l c) :=
  (sim toks f).il p l c
theorem doInfix_is_source (toks : List (Token N)) (f c : Nat) (t : Token N) (l : Expr N) (hc : 1 ≤ c) (ht : toks[c - 1]? = some t) :
    doInfix f t l (toks.drop c) = .outOfFuel ∨ doInfix f t l (toks.drop c) = view toks (do_infix f toks l c) := (sim toks f).di c t l hc ht
/-- `expression_list(end)`: the loop followed by `chomp(end)`, for `]` (b = false) and `)` (b = true) -/
theorem exprList_is_source (toks : List (Token N)) (f c : Nat) :
    (exprList f false (toks.drop c) = .outOfFuel ∨ exprList f false (toks.drop c) = finishList toks false (do_prefix_loop1 f toks [] c)) ∧
    (exprList f true (toks.drop c) = .outOfFuel ∨ exprList f true (toks.drop c) = finishList toks true (do_infix_loop1 f toks [] c)) := by
  have a := (sim toks f).la [] c; have b := (sim toks f).lc [] c
  rw [prepend_nil] at a b; exact ⟨a, b⟩

/-- with at least the fuel the model's `parse` uses, the translated `Compiler::compile_ast` returns exactly what `parse` returns -/
theorem compile_ast_eq_parse (toks : List (Token N)) (f : Nat) (hf : 3 * toks.length + 1 ≤ f) : compile_ast f toks = parse toks := by
  have hfine : Fine (parsePrec f 1 toks) := parsePrec_fine hf
  have hagree : parsePrec (parseFuel toks.length) 1 toks = parsePrec f 1 toks :=
    parsePrec_agree hfine (parsePrec_fine (by unfold parseFuel; omega))
  have h := (sim toks f).pp 1 0
  simp only [List.drop_zero] at h
  rcases h with h | h
  · rw [h] at hfine; exact hfine.elim
  · unfold parse; rw [hagree, h]
    simp only [compile_ast, compile, run, bind, pure, bind_apply, pure_apply, getCur_apply, throwE_apply, ite_app, bindOut_ok]
    cases toks with
    | nil =>
      cases f with
      | zero => simp at hf
      | succ f' =>
        simp only [parse_precedence, bind, pure, bind_apply, bindOut_ok, getCur_apply, throwE_apply, ite_app]
        simp [view, finish]
    | cons t0 r =>
      simp only [List.length_cons, Nat.zero_lt_succ, decide_true, if_true]
      cases hpp : parse_precedence f (t0 :: r) 1 0 with
      | ok a =>
        obtain ⟨e, c1⟩ := a
        simp only [view, bindOut_ok, bind_apply, getCur_apply, pure_apply]
        cases h2 : (t0 :: r)[c1]? with
        | none => simp [finish, drop_none h2]
        | some t2 => simp [finish, drop_some h2]
      | _ => simp [view, finish]

/-- `Compiler::compile_ast` as translated from the current source IS the model's `parse` -/
theorem parse_is_source (toks : List (Token N)) : compile_ast (parseFuel toks.length) toks = parse toks :=
  compile_ast_eq_parse toks _ (by unfold parseFuel; omega)

/-- the translated source function never reaches the `usize` underflow of `previous()` (outcome `panic`) and does not need more than
    `3 * n + 1` levels of recursion on `n` tokens -/
theorem compile_ast_total (toks : List (Token N)) (f : Nat) (hf : 3 * toks.length + 1 ≤ f) :
    compile_ast f toks ≠ .panic ∧ compile_ast f toks ≠ .outOfFuel := by
  rw [compile_ast_eq_parse toks f hf]
  have hfine : Fine (parsePrec (parseFuel toks.length) 1 toks) := parsePrec_fine (by unfold parseFuel; omega)
  unfold parse
  cases h : parsePrec (parseFuel toks.length) 1 toks with
  | ok a => obtain ⟨e, r⟩ := a; cases r <;> simp [finish]
  | err e => simp [finish]
  | outOfFuel => rw [h] at hfine; exact hfine.elim
  | panic => rw [h] at hfine; exact hfine.elim

/-- non-vacuity: the translated source function on `1 + 2 * 3` style input (identifier tokens), evaluated by the kernel -/
example : compile_ast (N := Nat) 16 [.identifier ['a'], .plus, .identifier ['b'], .star, .identifier ['c']]
    = .ok (.binary (.var ['a']) (.binary (.var ['b']) (.var ['c']) .multiply) .plus) := by rfl

end Slac.C01Parser
