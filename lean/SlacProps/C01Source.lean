/-
  C01 / C02 — the translator leg of the tie.  `SlacModel/Generated/Grammar.lean` is REGENERATED on every check run
  by /verif/tools/translate.py from the current text of src/token.rs, operator.rs, scanner.rs, compiler.rs.
  The theorems below say that the hand-written model of the scanner and the Pratt parser is exactly those source
  tables plugged into the skeleton: token → precedence, `Precedence::next`, token → operator, the prefix / infix
  dispatch, the levels `expression()`, `unary()` and `binary()` parse at, the loop condition, the keyword table and
  its case folding, and the punctuation tables.  A change of any of these in the source changes the generated file
  and breaks one of these proofs (proof obligation), independently of the behavioural comparison.
-/
import SlacModel.Generated.Grammar
import SlacModel.Parser
import SlacModel.Scanner
set_option autoImplicit false
namespace Slac.C01Source
open Slac.Generated Slac.Parser
variable {N : Type}

/-- token → precedence is the table of `impl From<&Token> for Precedence` -/
theorem prec_is_source (t : Token N) : Token.prec t = Grammar.tokenPrec t := by cases t <;> rfl

/-- every level the table mentions exists in `enum Precedence` -/
theorem prec_in_range (t : Token N) : Grammar.tokenPrec t < Grammar.precCount := by
  cases t <;> simp [Grammar.tokenPrec, Grammar.precCount]

/-- `nextPrec` is `Precedence::next` on all levels of the enum -/
theorem next_is_source : ∀ p, p < Grammar.precCount → nextPrec p = Grammar.precNext p := by decide

/-- the operator of a binary node: `do_infix` sends exactly the tokens of kind 0 to `binary`, which converts the token
    with `Operator::try_from` -/
theorem binop_is_source (t : Token N) :
    Token.binOp? t = if Grammar.infixKind t = 0 then Grammar.tokenOperator t else none := by cases t <;> rfl

/-- `do_prefix`, arm by arm, with the levels taken from the source -/
theorem prefix_is_source (f : Nat) (t : Token N) (rest : List (Token N)) :
    (Grammar.prefixKind t = 0 → ∃ v, t = .literal v ∧ doPrefix (f + 1) t rest = .ok (.lit v, rest)) ∧
    (Grammar.prefixKind t = 1 → ∃ s, t = .identifier s ∧ doPrefix (f + 1) t rest = .ok (.var s, rest)) ∧
    (Grammar.prefixKind t = 2 → doPrefix (f + 1) t rest =
        andThen (parsePrec f Grammar.entryLevel rest) fun x => chompParen x.1 x.2) ∧
    (Grammar.prefixKind t = 3 → doPrefix (f + 1) t rest =
        andThen (exprList f false rest) fun x => .ok (.array x.1, x.2)) ∧
    (Grammar.prefixKind t = 4 → ∃ op, Grammar.tokenOperator t = some op ∧ doPrefix (f + 1) t rest =
        andThen (parsePrec f Grammar.unaryOperandLevel rest) fun x => .ok (.unary x.1 op, x.2)) ∧
    (Grammar.prefixKind t = 5 → doPrefix (f + 1) t rest = .err (.noValidPrefixToken t)) := by
  cases t <;> simp [Grammar.prefixKind, Grammar.tokenOperator, Grammar.entryLevel, Grammar.unaryOperandLevel, doPrefix]

/-- `do_infix`, arm by arm: binary operators parse their right operand one level above their own (left
    associativity) iff the source says `.next()` -/
theorem infix_is_source (f : Nat) (t : Token N) (left : Expr N) (rest : List (Token N)) :
    (Grammar.infixKind t = 0 → ∃ op, Grammar.tokenOperator t = some op ∧ doInfix (f + 1) t left rest =
        andThen (parsePrec f (if Grammar.binaryOperandNext then Grammar.precNext (Grammar.tokenPrec t) else Grammar.tokenPrec t) rest)
          fun x => .ok (.binary left x.1 op, x.2)) ∧
    (Grammar.infixKind t = 1 → doInfix (f + 1) t left rest =
        match left with
        | .var name => andThen (exprList f true rest) fun x => .ok (.call name x.1, x.2)
        | _ => .err (.callNotOnVariable t)) ∧
    (Grammar.infixKind t = 2 → doInfix (f + 1) t left rest = .err (.noValidInfixToken t)) := by
  cases t <;> simp [Grammar.infixKind, Grammar.tokenOperator, Grammar.binaryOperandNext, Grammar.precNext, Grammar.tokenPrec,
    doInfix, Token.binOp?, Token.prec, nextPrec]
  cases left <;> rfl

/-- the `while` loop of `parse_precedence` continues exactly under the source's condition -/
theorem loop_is_source (f p : Nat) (left : Expr N) (t : Token N) (rest : List (Token N)) :
    infixLoop (f + 1) p left (t :: rest) =
      if (if Grammar.loopAbsorbsEqual then decide (p ≤ Grammar.tokenPrec t) else decide (p < Grammar.tokenPrec t)) then
        andThen (doInfix f t left rest) fun x => infixLoop f p x.1 x.2
      else .ok (left, t :: rest) := by
  rw [infixLoop.eq_def]; simp only [prec_is_source, Grammar.loopAbsorbsEqual, if_true, decide_eq_true_eq]

/-- list items, the grouping and the whole input are parsed at the level `expression()` uses -/
theorem entry_is_source (toks : List (Token N)) (f : Nat) (b : Bool) (t : Token N) (rest : List (Token N)) :
    parse toks = finish (parsePrec (parseFuel toks.length) Grammar.entryLevel toks) ∧
    (isClose b t = false → exprList (f + 1) b (t :: rest) =
      andThen (parsePrec f Grammar.entryLevel (t :: rest)) fun x =>
        andThen (exprList f b (dropComma x.2)) fun y => .ok (x.1 :: y.1, y.2)) := by
  refine ⟨rfl, fun h => ?_⟩
  rw [exprList.eq_def]; simp only [h, Grammar.entryLevel]; rfl

/-- the keyword table and its folding (the model lower-cases with the `CharClass`'s `to_lowercase`) -/
theorem keywords_are_source : Scanner.keywords N = Grammar.keywords N ∧ Grammar.keywordFolding = .lower := ⟨rfl, rfl⟩

/-- punctuation: a character with a direct arm in `match next` gives that token (when it is not an identifier start
    or numeric character, which `next_token` tests first) -/
theorem punctuation_is_source [NumOps N] (cc : Scanner.CharClass) (c : Char) (cs : Str) (t : Token N)
    (h : Grammar.charToken c = some t) (h1 : Scanner.isIdentStart cc c = false) (h2 : cc.isNumeric c = false) :
    Scanner.nextToken (N := N) cc c cs = .ok (t, cs) := by
  unfold Grammar.charToken at h
  split at h <;> first | (cases h; simp [Scanner.nextToken, h1, h2]) | cases h

/-- the arms of `match next` that call a scanner method, and the two-character operator tables -/
theorem methods_are_source :
    Grammar.charMethod = [('\'', 0), ('.', 1), ('>', 2), ('<', 3)] ∧
    (∀ cs : Str, Scanner.greater (N := N) cs = match cs with
      | c :: r => (match (Grammar.greaterTable (N := N)).1.lookup c with | some t => (t, r) | none => ((Grammar.greaterTable (N := N)).2, cs))
      | [] => ((Grammar.greaterTable (N := N)).2, cs)) ∧
    (∀ cs : Str, Scanner.lesser (N := N) cs = match cs with
      | c :: r => (match (Grammar.lesserTable (N := N)).1.lookup c with | some t => (t, r) | none => ((Grammar.lesserTable (N := N)).2, cs))
      | [] => ((Grammar.lesserTable (N := N)).2, cs)) := by
  refine ⟨rfl, ?_, ?_⟩
  · intro cs; cases cs with
    | nil => rfl
    | cons c r =>
      by_cases h : c = '='
      · subst h; rfl
      · have e : (c == '=') = false := by simp [h]
        simp [Scanner.greater, Grammar.greaterTable, List.lookup, h, e]
  · intro cs; cases cs with
    | nil => rfl
    | cons c r =>
      by_cases h : c = '='
      · subst h; rfl
      · have e : (c == '=') = false := by simp [h]
        by_cases h' : c = '>'
        · subst h'; rfl
        · have e' : (c == '>') = false := by simp [h']
          simp [Scanner.lesser, Grammar.lesserTable, List.lookup, h, h', e, e']

end Slac.C01Source
