/-
  C12 through JSON TEXT — the concrete text layer (`serde_json::to_string` / `serde_json::from_str`, model:
  SlacModel.JsonText) discharges the hypothesis of `C12.json_roundtrip_text`.
  * `parse_print_string`: every list of Unicode scalar values survives escaping and reading back;
  * `parse_print_number`: every finite double survives printing (shortest digits, zmij/ryu layout) and reading back
    (nearest double) — bit for bit;
  * `parse_print`: `parseJson (printJson j) = some j` for every JSON value with finite numbers, in-range integer nodes
    and nesting depth ≤ 127;  `parse_print_too_deep`: from depth 128 on `from_str` FAILS (serde_json's recursion limit);
  * `json_roundtrip_text_concrete`: C12 through text for every tree with finite literals and `exprDepth e ≤ 127`, with no
    hypothesis about the text layer;  `json_text_too_deep`: for deeper trees the stored text does not load — the
    text half of C12 is false for them (the in-memory half, `C12.json_roundtrip`, is unaffected).
  Tie: the driver prints `printJson (Json.ofExpr jnFloat e)` and the harness compares it byte for byte with
  `serde_json::to_string`.
-/
import SlacProps.C12
import SlacProofs.JsonText
set_option autoImplicit false
set_option linter.unusedSimpArgs false
namespace Slac.C12
open Slac.Json Slac.JsonText Slac.F64

/-- 3. strings: the string reader returns the contents of the printed literal — for EVERY list of Unicode scalar
    values (quotes, backslashes, control characters, U+007F, U+2028, non-BMP, …) — and stops right after it -/
theorem parse_print_string (s rest : Str) : parseString (printString s ++ rest) = some (s, rest) :=
  parseString_printString s rest

/-- … and as a whole document -/
theorem parse_print_string_doc (s : Str) : parseJson (printString s) = some (.str s) := by
  have := parseJson_printJson (.str s) (by simp only [PrintOk]) (by simp only [depth]; omega)
  simpa only [printJson] using this

/-- 4. numbers: the number reader on the printed text of a finite double gives that double back (zmij layout, what
    the locked serde_json 1.0.151 prints: `1e+21`) -/
theorem parse_print_number (x : Float) (h : F64.isFinite x = true) : numOfTok (printNum x) = some (.num x) :=
  numOfTok_printNum true x h

/-- … the same for ryu's layout (`1e21`; serde_json < 1.0.150) -/
theorem parse_print_number_ryu (x : Float) (h : F64.isFinite x = true) :
    numOfTok (printNumWith false x) = some (.num x) :=
  numOfTok_printNum false x h

/-- … in context: followed by anything that cannot continue a number (`,` `]` `}` whitespace, end of text) -/
theorem parse_print_number_ctx (x : Float) (h : F64.isFinite x = true) (rest : Str) (hr : NumEnd rest) :
    parseNumber (printNum x ++ rest) = some (.num x, rest) :=
  parseNumber_printNum true x h rest hr

/-- the text layer of `F64.parse`: what is read back is the double nearest to the printed decimal; in particular
    the printed text parses (as a Rust float literal as well) to x -/
theorem parse_print_number_f64 (x : Float) (h : F64.isFinite x = true) : F64.parse (printNum x) = some x := by
  obtain ⟨T, hT, _, hP⟩ := printNum_split true x h
  unfold printNum; rw [hT, hP]

/-- 5. the whole data model: `from_str (to_string j) = Ok j` — every number finite, every integer node within
    [-2^63, 2^64) (`PrintOk`; `ofExpr` produces no integer nodes), keys and strings arbitrary, nesting depth ≤ 127 -/
theorem parse_print (j : Json Float) (h : PrintOk j) (hd : depth j ≤ 127) : parseJson (printJson j) = some j :=
  parseJson_printJson j h hd

/-- beyond the depth limit `from_str` fails -/
theorem parse_print_too_deep (j : Json Float) (h : PrintOk j) (hd : 128 ≤ depth j) : parseJson (printJson j) = none :=
  parseJson_too_deep j h hd

/-- exactly: a printable value is read back iff it is nested at most 127 deep -/
theorem parse_print_iff (j : Json Float) (h : PrintOk j) : parseJson (printJson j) = some j ↔ depth j ≤ 127 := by
  constructor
  · intro hp
    by_cases hd : depth j ≤ 127
    · exact hd
    · rw [parse_print_too_deep j h (by omega)] at hp; cases hp
  · exact parse_print j h

/-! ### serialised trees are printable -/

theorem printOk_ofValue (v : Value Float) : PrintOk (ofValue jnFloat v) := by
  refine Value.rec (motive_1 := fun v => PrintOk (ofValue jnFloat v))
    (motive_2 := fun vs => PrintOkL (ofValues jnFloat vs)) ?_ ?_ ?_ ?_ ?_ ?_ v
  · intro b; simp only [ofValue, PrintOk]
  · intro s; simp only [ofValue, PrintOk]
  · intro x
    simp only [ofValue]
    split
    · rename_i h; simp only [PrintOk]; exact h
    · simp only [PrintOk]
  · intro vs ih; simp only [ofValue, PrintOk]; exact ih
  · simp only [ofValues, PrintOkL]
  · intro v vs ih1 ih2; simp only [ofValues, PrintOkL]; exact ⟨ih1, ih2⟩

/-- every serialised tree is printable (a non-finite literal has already become `null`) -/
theorem printOk_ofExpr (e : Expr Float) : PrintOk (ofExpr jnFloat e) := by
  refine Expr.rec (motive_1 := fun e => PrintOk (ofExpr jnFloat e))
    (motive_2 := fun es => PrintOkL (ofExprs jnFloat es)) ?_ ?_ ?_ ?_ ?_ ?_ ?_ ?_ ?_ e
  · intro r op ih; simp only [ofExpr, PrintOk, PrintOkF, and_true, true_and]; exact ih
  · intro l r op ihl ihr; simp only [ofExpr, PrintOk, PrintOkF, and_true, true_and]; exact ⟨ihl, ihr⟩
  · intro l m r op ihl ihm ihr; simp only [ofExpr, PrintOk, PrintOkF, and_true, true_and]; exact ⟨ihl, ihm, ihr⟩
  · intro es ih; simp only [ofExpr, PrintOk, PrintOkF, and_true, true_and]; exact ih
  · intro v; simp only [ofExpr, PrintOk, PrintOkF, and_true, true_and]; exact printOk_ofValue v
  · intro n; simp only [ofExpr, PrintOk, PrintOkF, and_true, true_and]
  · intro n ps ih; simp only [ofExpr, PrintOk, PrintOkF, and_true, true_and]; exact ih
  · simp only [ofExprs, PrintOkL]
  · intro e es ih1 ih2; simp only [ofExprs, PrintOkL]; exact ⟨ih1, ih2⟩

/-! ### the nesting depth of a tree's JSON, on the tree -/
mutual
def valueDepth : Value Float → Nat
  | .arr vs => 1 + valuesDepth vs
  | _ => 0
def valuesDepth : List (Value Float) → Nat
  | [] => 0
  | v :: vs => max (valueDepth v) (valuesDepth vs)
end

mutual
/-- number of nested JSON containers of the serialised tree: one object per node, one more array level for
    `array` / `call` nodes and for every level of an array literal -/
def exprDepth : Expr Float → Nat
  | .unary r _ => 1 + exprDepth r
  | .binary l r _ => 1 + max (exprDepth l) (exprDepth r)
  | .ternary l m r _ => 1 + max (exprDepth l) (max (exprDepth m) (exprDepth r))
  | .array es => 2 + exprsDepth es
  | .lit v => 1 + valueDepth v
  | .var _ => 1
  | .call _ ps => 2 + exprsDepth ps
def exprsDepth : List (Expr Float) → Nat
  | [] => 0
  | e :: es => max (exprDepth e) (exprsDepth es)
end

theorem depth_ofValue (v : Value Float) : depth (ofValue jnFloat v) = valueDepth v := by
  refine Value.rec (motive_1 := fun v => depth (ofValue jnFloat v) = valueDepth v)
    (motive_2 := fun vs => depthL (ofValues jnFloat vs) = valuesDepth vs) ?_ ?_ ?_ ?_ ?_ ?_ v
  · intro b; simp only [ofValue, depth, valueDepth]
  · intro s; simp only [ofValue, depth, valueDepth]
  · intro x; simp only [ofValue, valueDepth]; split <;> simp only [depth]
  · intro vs ih; simp only [ofValue, depth, valueDepth, ih]
  · simp only [ofValues, depthL, valuesDepth]
  · intro v vs ih1 ih2; simp only [ofValues, depthL, valuesDepth, ih1, ih2]

theorem depth_ofExpr (e : Expr Float) : depth (ofExpr jnFloat e) = exprDepth e := by
  refine Expr.rec (motive_1 := fun e => depth (ofExpr jnFloat e) = exprDepth e)
    (motive_2 := fun es => depthL (ofExprs jnFloat es) = exprsDepth es) ?_ ?_ ?_ ?_ ?_ ?_ ?_ ?_ ?_ e
  · intro r op ih; simp only [ofExpr, depth, depthF, exprDepth, ih]; omega
  · intro l r op ihl ihr; simp only [ofExpr, depth, depthF, exprDepth, ihl, ihr]; omega
  · intro l m r op ihl ihm ihr; simp only [ofExpr, depth, depthF, exprDepth, ihl, ihm, ihr]; omega
  · intro es ih; simp only [ofExpr, depth, depthF, exprDepth, ih]; omega
  · intro v; simp only [ofExpr, depth, depthF, exprDepth, depth_ofValue]; omega
  · intro n; simp only [ofExpr, depth, depthF, exprDepth]; omega
  · intro n ps ih; simp only [ofExpr, depth, depthF, exprDepth, ih]; omega
  · simp only [ofExprs, depthL, exprsDepth]
  · intro e es ih1 ih2; simp only [ofExprs, depthL, exprsDepth, ih1, ih2]

/-- the serialised tree's text is read back as the same JSON value -/
theorem parse_print_ofExpr (e : Expr Float) (hd : exprDepth e ≤ 127) :
    parseJson (printJson (ofExpr jnFloat e)) = some (ofExpr jnFloat e) :=
  parse_print _ (printOk_ofExpr e) (by rw [depth_ofExpr]; exact hd)

/-- 6. **C12 through JSON text, no hypothesis about the text layer**: serialise (`Serialize` + `to_string`), store,
    load (`from_str` + `Deserialize`) — the identical tree comes back, for every tree whose number literals are finite
    and whose JSON nests at most 127 deep -/
theorem json_roundtrip_text_concrete (e : Expr Float) (h : FiniteLits jnFloat e) (hd : exprDepth e ≤ 127) :
    (parseJson (printJson (ofExpr jnFloat e))).bind (toExpr jnFloat) = some e := by
  rw [parse_print_ofExpr e hd]
  exact json_roundtrip jnFloat e h

/-- the same, as an instance of the abstract `json_roundtrip_text`: its hypothesis holds on the trees' JSON -/
theorem json_roundtrip_text_hyp (j : Json Float) (h : PrintOk j) (hd : depth j ≤ 127) :
    parseJson (printJson j) = some j := parse_print j h hd

/-- **FINDING: deep trees do not survive the text route.** serde_json's `from_str` has a recursion limit of 128
    (`remaining_depth`, no `unbounded_depth` feature): a tree whose JSON nests 128 or more levels deep is serialised
    to text without complaint, and the text cannot be loaded — whatever the literals are.  (`slac::compile` has no
    depth limit: `-(-(…(1)))` with 127 minus signs, or an array literal nested 64 deep, are such trees.) -/
theorem json_text_too_deep (e : Expr Float) (hd : 128 ≤ exprDepth e) :
    (parseJson (printJson (ofExpr jnFloat e))).bind (toExpr jnFloat) = none := by
  rw [parse_print_too_deep _ (printOk_ofExpr e) (by rw [depth_ofExpr]; exact hd)]
  rfl

/-- exactly: a tree with finite literals survives the text route iff its JSON nests at most 127 deep -/
theorem json_roundtrip_text_iff (e : Expr Float) (h : FiniteLits jnFloat e) :
    (parseJson (printJson (ofExpr jnFloat e))).bind (toExpr jnFloat) = some e ↔ exprDepth e ≤ 127 := by
  constructor
  · intro hp
    by_cases hd : exprDepth e ≤ 127
    · exact hd
    · rw [json_text_too_deep e (by omega)] at hp; cases hp
  · exact json_roundtrip_text_concrete e h

/-- consequently the reloaded tree behaves like the original under every function of the tree -/
theorem reloaded_text_behaves_alike {α : Type} (F : Expr Float → α) (e e' : Expr Float) (h : FiniteLits jnFloat e)
    (hd : exprDepth e ≤ 127) (hl : (parseJson (printJson (ofExpr jnFloat e))).bind (toExpr jnFloat) = some e') :
    F e' = F e := by
  rw [json_roundtrip_text_concrete e h hd] at hl; cases hl; rfl

/-! ### tests (kernel-evaluated) -/

/-- test: strings — quote, backslash, newline, U+0001, U+001F are escaped (`\u00XX`, lower-case hex); U+007F, U+2028, an
    emoji and `/` are written raw; the reader returns the original -/
example : printString ['a', '"', 'b', '\\', 'c', '\n', '\x01', '\x1f', '\x7f', '\u2028', (Char.ofNat 0x1F600), '/'] =
      ['"', 'a', '\\', '"', 'b', '\\', '\\', 'c', '\\', 'n', '\\', 'u', '0', '0', '0', '1', '\\', 'u', '0', '0', '1', 'f', '\x7f', '\u2028', (Char.ofNat 0x1F600), '/', '"'] ∧
    parseString ['"', 'a', '\\', '"', 'b', '\\', '\\', 'c', '\\', 'n', '\\', 'u', '0', '0', '0', '1', '\\', 'u', '0', '0', '1', 'f', '\x7f', '\u2028', (Char.ofNat 0x1F600), '/', '"'] =
      some (['a', '"', 'b', '\\', 'c', '\n', '\x01', '\x1f', '\x7f', '\u2028', (Char.ofNat 0x1F600), '/'], []) := by decide +kernel

/-- test: the exact text of `1 + x` -/
example : printJson (ofExpr jnFloat (.binary (.lit (.num (Float.ofBits 0x3FF0000000000000))) (.var ['x']) .plus)) =
    ['{', '"', 't', 'y', 'p', 'e', '"', ':', '"', 'b', 'i', 'n', 'a', 'r', 'y', '"', ',', '"', 'l', 'e', 'f', 't', '"', ':', '{', '"', 't', 'y', 'p', 'e', '"', ':', '"', 'l', 'i', 't', 'e', 'r', 'a', 'l', '"', ',', '"', 'v', 'a', 'l', 'u', 'e', '"', ':', '1', '.', '0', '}', ',', '"', 'r', 'i', 'g', 'h', 't', '"', ':', '{', '"', 't', 'y', 'p', 'e', '"', ':', '"', 'v', 'a', 'r', 'i', 'a', 'b', 'l', 'e', '"', ',', '"', 'n', 'a', 'm', 'e', '"', ':', '"', 'x', '"', '}', ',', '"', 'o', 'p', 'e', 'r', 'a', 't', 'o', 'r', '"', ':', '"', 'p', 'l', 'u', 's', '"', '}'] := by decide +kernel

/-- test: a call with an array literal and a unary node -/
example : printJson (ofExpr jnFloat (.call ['f'] [.lit (.arr [.num (Float.ofBits 0x4004000000000000), .str ['a'], .bool true]),
      .unary (.var ['b']) .not])) =
    ['{', '"', 't', 'y', 'p', 'e', '"', ':', '"', 'c', 'a', 'l', 'l', '"', ',', '"', 'n', 'a', 'm', 'e', '"', ':', '"', 'f', '"', ',', '"', 'p', 'a', 'r', 'a', 'm', 's', '"', ':', '[', '{', '"', 't', 'y', 'p', 'e', '"', ':', '"', 'l', 'i', 't', 'e', 'r', 'a', 'l', '"', ',', '"', 'v', 'a', 'l', 'u', 'e', '"', ':', '[', '2', '.', '5', ',', '"', 'a', '"', ',', 't', 'r', 'u', 'e', ']', '}', ',', '{', '"', 't', 'y', 'p', 'e', '"', ':', '"', 'u', 'n', 'a', 'r', 'y', '"', ',', '"', 'r', 'i', 'g', 'h', 't', '"', ':', '{', '"', 't', 'y', 'p', 'e', '"', ':', '"', 'v', 'a', 'r', 'i', 'a', 'b', 'l', 'e', '"', ',', '"', 'n', 'a', 'm', 'e', '"', ':', '"', 'b', '"', '}', ',', '"', 'o', 'p', 'e', 'r', 'a', 't', 'o', 'r', '"', ':', '"', 'n', 'o', 't', '"', '}', ']', '}'] := by decide +kernel

/-- test: reading text that the printer would not write — whitespace, `\u` escapes with a surrogate pair, `\/`, an
    integer, an exponent with `+`, a duplicate key (kept, in order) -/
example : (parseJson [' ', '{', ' ', '"', 'a', '"', ' ', ':', ' ', '[', ' ', '1', ' ', ',', ' ', '-', '2', '.', '5', 'e', '+', '0', ' ', ',', '\t', '"', '\\', 'u', '0', '0', '4', '1', '\\', 'u', 'd', '8', '3', 'd', '\\', 'u', 'd', 'e', '0', '0', '\\', '/', '"', ' ', ']', ' ', ',', '\r', '\n', ' ', '"', 'a', '"', ' ', ':', ' ', 'n', 'u', 'l', 'l', ' ', '}', ' ']).map printJson =
    some ['{', '"', 'a', '"', ':', '[', '1', ',', '-', '2', '.', '5', ',', '"', 'A', (Char.ofNat 0x1F600), '/', '"', ']', ',', '"', 'a', '"', ':', 'n', 'u', 'l', 'l', '}'] := by decide +kernel

/-- test: integer literals — u64::MAX and i64::MIN stay integers, one beyond becomes a float, `-0` is the float -0.0;
    leading zero, bare fraction, overflow, trailing comma, lone surrogate are errors -/
example : (parseJson ['[', '1', '8', '4', '4', '6', '7', '4', '4', '0', '7', '3', '7', '0', '9', '5', '5', '1', '6', '1', '5', ',', '-', '9', '2', '2', '3', '3', '7', '2', '0', '3', '6', '8', '5', '4', '7', '7', '5', '8', '0', '8', ',', '1', '8', '4', '4', '6', '7', '4', '4', '0', '7', '3', '7', '0', '9', '5', '5', '1', '6', '1', '6', ',', '-', '9', '2', '2', '3', '3', '7', '2', '0', '3', '6', '8', '5', '4', '7', '7', '5', '8', '0', '9', ',', '-', '0', ']']).map printJson =
      some ['[', '1', '8', '4', '4', '6', '7', '4', '4', '0', '7', '3', '7', '0', '9', '5', '5', '1', '6', '1', '5', ',', '-', '9', '2', '2', '3', '3', '7', '2', '0', '3', '6', '8', '5', '4', '7', '7', '5', '8', '0', '8', ',', '1', '.', '8', '4', '4', '6', '7', '4', '4', '0', '7', '3', '7', '0', '9', '5', '5', '2', 'e', '+', '1', '9', ',', '-', '9', '.', '2', '2', '3', '3', '7', '2', '0', '3', '6', '8', '5', '4', '7', '7', '6', 'e', '+', '1', '8', ',', '-', '0', '.', '0', ']'] ∧
    (parseJson ['0', '1']).isNone = true ∧ (parseJson ['1', '.']).isNone = true ∧ (parseJson ['.', '5']).isNone = true ∧
    (parseJson ['1', 'e', '9', '9', '9']).isNone = true ∧ (parseJson ['[', '1', ',', ']']).isNone = true ∧
    (parseJson ['"', '\\', 'u', 'd', '8', '3', 'd', '"']).isNone = true := by decide +kernel

/-- the bit pattern of a parsed float (tests compare bit patterns: `Float` has no decidable `=`) -/
def bitsOf : Option (Json Float) → Option Nat
  | some (.num x) => some (bits x)
  | _ => none

/-! ### tests: numbers — the printed text of the double with the given bit pattern, and the bit pattern read back -/

/-- test: 1.0 -/
example : printNum (Float.ofBits 4607182418800017408) = ['1', '.', '0'] ∧
    bitsOf (numOfTok ['1', '.', '0']) = some 4607182418800017408 := by decide +kernel

/-- test: 0.1 -/
example : printNum (Float.ofBits 4591870180066957722) = ['0', '.', '1'] ∧
    bitsOf (numOfTok ['0', '.', '1']) = some 4591870180066957722 := by decide +kernel

/-- test: 1e21 -/
example : printNum (Float.ofBits 4921056587992461136) = ['1', 'e', '+', '2', '1'] ∧
    bitsOf (numOfTok ['1', 'e', '+', '2', '1']) = some 4921056587992461136 := by decide +kernel

/-- test: 1e-7 -/
example : printNum (Float.ofBits 4502148214488346440) = ['1', 'e', '-', '7'] ∧
    bitsOf (numOfTok ['1', 'e', '-', '7']) = some 4502148214488346440 := by decide +kernel

/-- test: 123456789012345680000 -/
example : printNum (Float.ofBits 4907451598986591450) = ['1', '.', '2', '3', '4', '5', '6', '7', '8', '9', '0', '1', '2', '3', '4', '5', '6', '8', 'e', '+', '2', '0'] ∧
    bitsOf (numOfTok ['1', '.', '2', '3', '4', '5', '6', '7', '8', '9', '0', '1', '2', '3', '4', '5', '6', '8', 'e', '+', '2', '0']) = some 4907451598986591450 := by decide +kernel

/-- test: -0.0 -/
example : printNum (Float.ofBits 9223372036854775808) = ['-', '0', '.', '0'] ∧
    bitsOf (numOfTok ['-', '0', '.', '0']) = some 9223372036854775808 := by decide +kernel

/-- test: 5e-324 (smallest subnormal) -/
example : printNum (Float.ofBits 1) = ['5', 'e', '-', '3', '2', '4'] ∧
    bitsOf (numOfTok ['5', 'e', '-', '3', '2', '4']) = some 1 := by decide +kernel

/-- test: f64::MAX -/
example : printNum (Float.ofBits 9218868437227405311) = ['1', '.', '7', '9', '7', '6', '9', '3', '1', '3', '4', '8', '6', '2', '3', '1', '5', '7', 'e', '+', '3', '0', '8'] ∧
    bitsOf (numOfTok ['1', '.', '7', '9', '7', '6', '9', '3', '1', '3', '4', '8', '6', '2', '3', '1', '5', '7', 'e', '+', '3', '0', '8']) = some 9218868437227405311 := by decide +kernel

/-- test: 2^50+0.25, an exact tie: ryu/zmij pick the even digit -/
example : printNum (Float.ofBits 4832362400168542209) = ['1', '1', '2', '5', '8', '9', '9', '9', '0', '6', '8', '4', '2', '6', '2', '4', '.', '2'] ∧
    bitsOf (numOfTok ['1', '1', '2', '5', '8', '9', '9', '9', '0', '6', '8', '4', '2', '6', '2', '4', '.', '2']) = some 4832362400168542209 := by decide +kernel

/-- test: 1e16: first exponent form -/
example : printNum (Float.ofBits 4846369599423283200) = ['1', 'e', '+', '1', '6'] ∧
    bitsOf (numOfTok ['1', 'e', '+', '1', '6']) = some 4846369599423283200 := by decide +kernel

/-- test: 1e15: last plain form -/
example : printNum (Float.ofBits 4831355200913801216) = ['1', '0', '0', '0', '0', '0', '0', '0', '0', '0', '0', '0', '0', '0', '0', '0', '.', '0'] ∧
    bitsOf (numOfTok ['1', '0', '0', '0', '0', '0', '0', '0', '0', '0', '0', '0', '0', '0', '0', '0', '.', '0']) = some 4831355200913801216 := by decide +kernel

/-- test: 1e-5: last 0.000ddd form -/
example : printNum (Float.ofBits 4532020583610935537) = ['0', '.', '0', '0', '0', '0', '1'] ∧
    bitsOf (numOfTok ['0', '.', '0', '0', '0', '0', '1']) = some 4532020583610935537 := by decide +kernel

/-- test: 1.5e-7 -/
example : printNum (Float.ofBits 4504762867522569078) = ['1', '.', '5', 'e', '-', '7'] ∧
    bitsOf (numOfTok ['1', '.', '5', 'e', '-', '7']) = some 4504762867522569078 := by decide +kernel

/-- test: -12.5 -/
example : printNum (Float.ofBits 13846598529327300608) = ['-', '1', '2', '.', '5'] ∧
    bitsOf (numOfTok ['-', '1', '2', '.', '5']) = some 13846598529327300608 := by decide +kernel

/-- `n` nested unary minus signs around a tree -/
def nestNeg : Nat → Expr Float → Expr Float
  | 0, e => e
  | n + 1, e => .unary (nestNeg n e) .minus

theorem exprDepth_nestNeg (n : Nat) (e : Expr Float) : exprDepth (nestNeg n e) = n + exprDepth e := by
  induction n with
  | zero => simp [nestNeg]
  | succ n ih => simp only [nestNeg, exprDepth, ih]; omega

theorem finiteLits_nestNeg (n : Nat) (e : Expr Float) (h : FiniteLits jnFloat e) : FiniteLits jnFloat (nestNeg n e) := by
  induction n with
  | zero => exact h
  | succ n ih => simp only [nestNeg, FiniteLits]; exact ih

theorem finite_one : FiniteLits jnFloat (.lit (.num (Float.ofBits 0x3FF0000000000000))) := by
  simp only [FiniteLits, FinV, jnFloat]; decide +kernel

/-- test (witness of the finding): `-(-(…(1)))` with 126 minus signs survives the text route, with 127 it does not
    (as observed on the crate: `recursion limit exceeded`), although both survive the in-memory route -/
example :
    (parseJson (printJson (ofExpr jnFloat (nestNeg 126 (.lit (.num (Float.ofBits 0x3FF0000000000000))))))).bind
        (toExpr jnFloat) = some (nestNeg 126 (.lit (.num (Float.ofBits 0x3FF0000000000000)))) ∧
    (parseJson (printJson (ofExpr jnFloat (nestNeg 127 (.lit (.num (Float.ofBits 0x3FF0000000000000))))))).bind
        (toExpr jnFloat) = none ∧
    toExpr jnFloat (ofExpr jnFloat (nestNeg 127 (.lit (.num (Float.ofBits 0x3FF0000000000000))))) =
      some (nestNeg 127 (.lit (.num (Float.ofBits 0x3FF0000000000000)))) :=
  ⟨json_roundtrip_text_concrete _ (finiteLits_nestNeg _ _ finite_one) (by rw [exprDepth_nestNeg]; simp [exprDepth, valueDepth]),
   json_text_too_deep _ (by rw [exprDepth_nestNeg]; simp [exprDepth, valueDepth]),
   json_roundtrip _ _ (finiteLits_nestNeg _ _ finite_one)⟩

/-- non-vacuity: a concrete tree with a conditional, a call, a nested array literal, a negative zero, the largest and
    the smallest double satisfies the hypotheses of the text round trip -/
example :
    (parseJson (printJson (ofExpr jnFloat
      (.ternary (.binary (.var ['a']) (.lit (.num (Float.ofBits 0x8000000000000000))) .lessEqual)
        (.call ['f'] [.lit (.arr [.str ['x', '"'], .arr [.num (Float.ofBits 9218868437227405311)]]), .unary (.var ['b']) .not])
        (.array [.lit (.num (Float.ofBits 1))]) .ternaryCondition)))).bind (toExpr jnFloat) =
    some (.ternary (.binary (.var ['a']) (.lit (.num (Float.ofBits 0x8000000000000000))) .lessEqual)
        (.call ['f'] [.lit (.arr [.str ['x', '"'], .arr [.num (Float.ofBits 9218868437227405311)]]), .unary (.var ['b']) .not])
        (.array [.lit (.num (Float.ofBits 1))]) .ternaryCondition) :=
  json_roundtrip_text_concrete _
    (by simp only [FiniteLits, FiniteLitsL, FinV, FinVs, jnFloat, and_true, true_and]; decide +kernel)
    (by decide)

/-- non-vacuity of `parse_print`: integer nodes at both ends of the range, a float, nested containers, an escaped key -/
example : parseJson (printJson (.obj [(['k', '"', '\n'], .arr [.int 18446744073709551615, .int (-9223372036854775808), .null,
      .num (Float.ofBits 0x4004000000000000), .obj [], .arr [.bool false]]), ([], .str ['\\'])])) =
    some (.obj [(['k', '"', '\n'], .arr [.int 18446744073709551615, .int (-9223372036854775808), .null,
      .num (Float.ofBits 0x4004000000000000), .obj [], .arr [.bool false]]), ([], .str ['\\'])]) :=
  parse_print _ (by simp only [PrintOk, PrintOkL, PrintOkF, and_true, true_and]; decide +kernel) (by decide)

end Slac.C12
