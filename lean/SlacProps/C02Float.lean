/-
  C02 (number level) — "a decimal number literal (digits, digits., .digits, digits.digits) denotes the nearest
  double", for the project's actual number type: core `Float` with `NumOps.parse = F64.parse` (SlacModel/Num.lean).

  SlacProps/C02.lean (`scan_number`) shows, for every number type, that such a literal scans to whatever
  `NumOps.parse` returns.  This file shows WHAT the driver's parser returns:
  * `parse_decimal_value`     the parser reads all digits m and the number k of fraction digits and returns
                              `Float.ofScientific m (k ≠ 0) k`; its exponent clamps are never reached, whatever the length;
  * `parse_decimal_nearest`   that double is `F64.NearestDouble m 10^k`: the double nearest to m / 10^k, ties to the
                              even mantissa, +inf from the rounding threshold 2^1024 - 2^970 on
                              (`NearestDouble`, SlacProofs/F64SemNearest.lean — distances compared exactly, in integers);
  * `parse_decimal_nearest_rat`  the same in ℚ: |x - m/10^k| ≤ |y - m/10^k| for every finite double y;
  * `parse_decimal_overflow`  a literal ≥ 2^1024 - 2^970 is +inf (never an error);
  * `scan_number_nearest`     combined with `C02.scan_number`: scanning the literal yields exactly the token
                              `literal (num x)` with that nearest double x.
  Proof chain (all from core's logical float model): `F64.sci_false` / `F64.sci_true` (every code path of
  `Float.ofScientific` is core's `roundWithAccuracy` of the exact value) → `F64.rwa_shape` (closed form of that rounding)
  → `F64.grid_nearest` (nothing on the double grid is closer) → `F64.nearest_of_rwa`.
-/
import SlacProofs.F64SemParse
import SlacProofs.F64SemRat
import SlacProps.C02
set_option autoImplicit false
namespace Slac.C02
open Slac.Scanner F64

/-- What the parser computes on a decimal literal.  With ip = the digits before the dot (`F64.intDigits`), fp = the
    digits after it (`F64.fracDigits`; empty if there is no dot), m = the number written by ip ++ fp:
    the text is ip or ip.fp, all of ip ++ fp are ASCII digits, not both are empty, and
    `parse text = Float.ofScientific m false 0` (no fraction digits) or `Float.ofScientific m true |fp|`.
    No length restriction: the clamps of `F64.parse` concern explicit exponents only. -/
theorem parse_decimal_value {text : Str} (ht : DecimalText text) :
    (∀ c ∈ intDigits text ++ fracDigits text, isAsciiDigit c = true) ∧
    (text = intDigits text ∨ text = intDigits text ++ '.' :: fracDigits text) ∧
    (intDigits text ≠ [] ∨ fracDigits text ≠ []) ∧
    NumOps.parse (N := Float) text = some (if (fracDigits text).length = 0
      then Float.ofScientific (digitsVal (intDigits text ++ fracDigits text)) false 0
      else Float.ofScientific (digitsVal (intDigits text ++ fracDigits text)) true (fracDigits text).length) :=
  parse_decimal ht

/-- the four spellings, decomposed -/
theorem decimal_parts (a b : Str) (ha : ∀ c ∈ a, isAsciiDigit c = true) :
    (intDigits a = a ∧ fracDigits a = []) ∧
    (intDigits (a ++ ['.']) = a ∧ fracDigits (a ++ ['.']) = []) ∧
    (intDigits ('.' :: b) = [] ∧ fracDigits ('.' :: b) = b) ∧
    (intDigits (a ++ '.' :: b) = a ∧ fracDigits (a ++ '.' :: b) = b) :=
  have hD : ∀ c ∈ a, isDig c = true := fun c hc => isDig_of_asciiDigit (ha c hc)
  ⟨parts_nodot a hD, parts_dot a [] hD, parts_dot [] b (by simp), parts_dot a b hD⟩

/-- **A decimal number literal denotes the nearest double.**  For ip, fp, m as above (value m / 10^|fp|):
    `parse text = some x` where x is `NearestDouble m 10^|fp|`, that is
    * if m / 10^|fp| ≥ 2^1024 - 2^970 (the midpoint between the largest double and 2^1024) then x = +inf;
    * otherwise x is finite with sign bit 0, no finite double y (of either sign) is closer to m / 10^|fp| than x —
      `|units x · 10^|fp| - m·2^1074| ≤ |units y · 10^|fp| - m·2^1074|`, distances scaled by 10^|fp|·2^1074 — and if some
      other value is equally close then the mantissa of x is even (IEEE round-to-nearest, ties-to-even). -/
theorem parse_decimal_nearest {text : Str} (ht : DecimalText text) :
    ∃ x : Float, NumOps.parse (N := Float) text = some x ∧
      NearestDouble (digitsVal (intDigits text ++ fracDigits text)) (10^(fracDigits text).length) x :=
  F64.parse_decimal_nearest ht

/-- the same with rational numbers: x is at least as close to the literal's value as every finite double -/
theorem parse_decimal_nearest_rat {text : Str} (ht : DecimalText text) :
    ∃ x : Float, NumOps.parse (N := Float) text = some x ∧
      (isFinite x = true → ∀ y : Float, isFinite y = true →
        |toRat x - (digitsVal (intDigits text ++ fracDigits text) : ℚ) / ((10^(fracDigits text).length : Nat) : ℚ)| ≤
        |toRat y - (digitsVal (intDigits text ++ fracDigits text) : ℚ) / ((10^(fracDigits text).length : Nat) : ℚ)|) := by
  obtain ⟨x, hp, hn⟩ := F64.parse_decimal_nearest ht
  exact ⟨x, hp, fun hx y hy => nearest_rat _ _ (Nat.pow_pos (by decide)) x hn hx y hy⟩

/-- overflow: a literal whose value reaches the rounding threshold 2^1024 - 2^970 parses to +inf (not an error),
    and every smaller literal parses to a finite, non-negative double -/
theorem parse_decimal_overflow {text : Str} (ht : DecimalText text) :
    ((2^1024 - 2^970) * 10^(fracDigits text).length ≤ digitsVal (intDigits text ++ fracDigits text) →
      NumOps.parse (N := Float) text = some F64.inf) ∧
    (digitsVal (intDigits text ++ fracDigits text) < (2^1024 - 2^970) * 10^(fracDigits text).length →
      ∃ x : Float, NumOps.parse (N := Float) text = some x ∧ isFinite x = true ∧ signBit x = false) := by
  obtain ⟨x, hp, hn⟩ := F64.parse_decimal_nearest ht
  exact ⟨fun h => by rw [← hn.overflow h]; exact hp, fun h => ⟨x, hp, hn.finite h⟩⟩

/-- **Scanning a decimal literal yields the literal token carrying the nearest double** — and no other token list. -/
theorem scan_number_nearest {cc : CharClass} (hcc : cc.AsciiOk) {text : Str} (ht : DecimalText text) :
    ∃ x : Float, scan (N := Float) cc text = .ok [.literal (.num x)] ∧
      NearestDouble (digitsVal (intDigits text ++ fracDigits text)) (10^(fracDigits text).length) x ∧
      ∀ x' : Float, scan (N := Float) cc text = .ok [.literal (.num x')] → x' = x := by
  obtain ⟨x, hp, hn⟩ := parse_decimal_nearest ht
  refine ⟨x, (scan_number hcc ht x).2 hp, hn, fun x' h' => ?_⟩
  have := (scan_number hcc ht x').1 h'
  rw [hp] at this
  exact (Option.some.inj this).symm

/-! ### examples (kernel-evaluated) -/

/-- 0.1, .5, 5., 0.30000000000000004 (17 digits), 123456789012345678 (rounds to …680), 2^53 + 1 (a tie: to the even
    neighbour 2^53), a 310-digit literal (+inf), 1.7976931348623158e308 written out would be +inf too -/
example : F64.parse ['0','.','1'] = some 0.1 := by decide +kernel
example : F64.parse ['.','5'] = some 0.5 := by decide +kernel
example : F64.parse ['5','.'] = some 5 := by decide +kernel
example : F64.parse ['0','.','3','0','0','0','0','0','0','0','0','0','0','0','0','0','0','0','4'] =
    some ((0.1 : Float) + 0.2) := by decide +kernel
example : F64.parse ['1','2','3','4','5','6','7','8','9','0','1','2','3','4','5','6','7','8'] =
    some 123456789012345680 := by decide +kernel
example : F64.parse ['9','0','0','7','1','9','9','2','5','4','7','4','0','9','9','3'] =
    some 9007199254740992 := by decide +kernel
example : F64.parse ('1' :: List.replicate 309 '0') = some F64.inf := by decide +kernel

example : scan (N := Float) CharClass.ascii ['0','.','1'] = .ok [.literal (.num 0.1)] :=
  (scan_number CharClass.ascii_ok (.intFrac (a := ['0']) (b := ['1']) (by simp) (by simp) (by decide) (by decide)) _).2
    (by show F64.parse _ = _; decide +kernel)
example : scan (N := Float) CharClass.ascii ['.','5'] = .ok [.literal (.num 0.5)] :=
  (scan_number CharClass.ascii_ok (.dotFrac (by simp) (by decide)) _).2 (by show F64.parse _ = _; decide +kernel)
example : scan (N := Float) CharClass.ascii ['5','.'] = .ok [.literal (.num 5)] :=
  (scan_number CharClass.ascii_ok (.intDot (a := ['5']) (by simp) (by decide)) _).2 (by show F64.parse _ = _; decide +kernel)
example : scan (N := Float) CharClass.ascii ('1' :: List.replicate 309 '0') = .ok [.literal (.num F64.inf)] :=
  (scan_number CharClass.ascii_ok (.int (List.cons_ne_nil _ _) (by decide +kernel)) _).2 (by show F64.parse _ = _; decide +kernel)

/-- the theorem instantiated: 0.1 (the double 0x3FB999999999999A) is the double nearest to 1/10 -/
example : NearestDouble 1 10 (0.1 : Float) := by
  obtain ⟨x, hp, hn⟩ := parse_decimal_nearest (text := ['0','.','1'])
    (.intFrac (a := ['0']) (b := ['1']) (by simp) (by simp) (by decide) (by decide))
  have hx : NumOps.parse (N := Float) ['0','.','1'] = some 0.1 := by show F64.parse _ = _; decide +kernel
  rw [hx] at hp
  have hx' : x = 0.1 := (Option.some.inj hp).symm
  subst hx'
  have e1 : digitsVal (intDigits ['0','.','1'] ++ fracDigits ['0','.','1']) = 1 := by decide
  have e2 : 10^(fracDigits ['0','.','1']).length = 10 := by decide
  rw [e1, e2] at hn
  exact hn

/-- and the overflow clause instantiated: 10^309 ≥ 2^1024 - 2^970 -/
example : NumOps.parse (N := Float) ('1' :: List.replicate 309 '0') = some F64.inf :=
  (parse_decimal_overflow (text := '1' :: List.replicate 309 '0') (.int (List.cons_ne_nil _ _) (by decide +kernel))).1
    (by decide +kernel)

end Slac.C02
