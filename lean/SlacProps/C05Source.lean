/-
  C05 / C06 — the translator leg of the tie for the optimizer.  `SlacModel/Generated/SrcOptimizer.lean` is REGENERATED
  on every check run by /verif/tools/rs2lean.py from the current text of /repo/src/optimizer.rs (and the constant
  `TERNARY_IF_THEN` of src/stdlib/common.rs).  The translation threads the `&mut bool found_const` flag through
  every call (`fc` below) and returns the tree the `&mut Expression` is left with, the flag, and the error of `?`.
  The theorems say that the hand-written model of SlacModel/Optimizer.lean is exactly the translated source:
    * `ifThenName = TERNARY_IF_THEN`, `allLit es = expressions_are_const es`;
    * `transform_ternary e fc = (transform e, fc || transformFound e)` and, for `transform_ternary_each`,
      `(transformL es, fc || decide (if3L es > 0))`: the flag is only ever set, and it is set iff the tree contains
      a three-argument `if_then` call (`transformFound e = decide (if3 e > 0)`);
    * `fold_constants env e fc = ((fold env e).tree, fc || (fold env e).found, (fold env e).err)` and the same for
      `fold_constants_each` / `foldL`: the tree left behind, the flag and the error of the model are the source's,
      for every incoming value of the flag;
    * `optimize env fuel e = Opt.optimize env fuel e` (the `loop { … }` of the source with the model's fuel).
  All statements are the ones asked for; none had to be weakened.
  Proof method: `Expr` is a nested inductive, so the explicit recursor `Expr.rec` with one motive for trees and one
  for lists; in every case both functions are unfolded one step (`….eq_def`), the induction hypotheses are rewritten,
  the model's recursive results are generalised to variables and destructured, and the remaining matches compute.
  A changed arm in optimizer.rs changes the generated file and breaks one of these proofs.
-/
import SlacModel.Generated.SrcOptimizer
import SlacModel.Optimizer
set_option autoImplicit false
set_option linter.unusedSectionVars false
set_option linter.unusedSimpArgs false
set_option linter.unusedVariables false
namespace Slac.C05Source
open Slac.Generated
variable {N : Type} [NumOps N]

/-- `TERNARY_IF_THEN` of src/stdlib/common.rs -/
theorem ifThenName_is_source : Opt.ifThenName = SrcOptimizer.TERNARY_IF_THEN := rfl

/-- `expressions_are_const` -/
theorem allLit_is_source (es : List (Expr N)) : Opt.allLit es = SrcOptimizer.expressions_are_const es := by
  induction es with
  | nil => rfl
  | cons e es ih =>
    cases e <;> simp_all [Opt.allLit, Opt.isLit, SrcOptimizer.expressions_are_const]

/-- `found_const` bookkeeping: a sum is positive iff one of the summands is -/
theorem pos_add (a b : Nat) : decide (a + b > 0) = (decide (a > 0) || decide (b > 0)) := by
  by_cases ha : a > 0 <;> by_cases hb : b > 0 <;> simp [ha, hb] <;> omega

/-- `transform_ternary` and its loop over a slice, at once -/
theorem transform_both :
    (∀ (e : Expr N) (fc : Bool), SrcOptimizer.transform_ternary e fc = (Opt.transform e, fc || Opt.transformFound e)) ∧
    (∀ (es : List (Expr N)) (fc : Bool),
      SrcOptimizer.transform_ternary_each es fc = (Opt.transformL es, fc || decide (Opt.if3L es > 0))) := by
  have key : ∀ (e : Expr N) (fc : Bool),
      SrcOptimizer.transform_ternary e fc = (Opt.transform e, fc || Opt.transformFound e) := by
    intro e
    refine Expr.rec
      (motive_1 := fun e => ∀ fc, SrcOptimizer.transform_ternary e fc = (Opt.transform e, fc || Opt.transformFound e))
      (motive_2 := fun es => ∀ fc,
        SrcOptimizer.transform_ternary_each es fc = (Opt.transformL es, fc || decide (Opt.if3L es > 0)))
      ?_ ?_ ?_ ?_ ?_ ?_ ?_ ?_ ?_ e
    · intro r op ih fc
      simp [SrcOptimizer.transform_ternary, Opt.transform, Opt.transformFound, Opt.if3, ih]
    · intro l r op ihl ihr fc
      simp [SrcOptimizer.transform_ternary, Opt.transform, Opt.transformFound, Opt.if3, ihl, ihr, pos_add, Bool.or_assoc]
    · intro l m r op ihl ihm ihr fc
      simp [SrcOptimizer.transform_ternary, Opt.transform, Opt.transformFound, Opt.if3, ihl, ihm, ihr, pos_add, Bool.or_assoc]
    · intro es ih fc
      simp [SrcOptimizer.transform_ternary, Opt.transform, Opt.transformFound, Opt.if3, ih]
    · intro v fc
      simp [SrcOptimizer.transform_ternary, Opt.transform, Opt.transformFound, Opt.if3]
    · intro n fc
      simp [SrcOptimizer.transform_ternary, Opt.transform, Opt.transformFound, Opt.if3]
    · intro n ps ih fc
      by_cases hn : n = Opt.ifThenName
      · rcases ps with _ | ⟨a, _ | ⟨b, _ | ⟨c, _ | ⟨d, ps⟩⟩⟩⟩ <;>
          simp [SrcOptimizer.transform_ternary, Opt.transform, Opt.transformFound, Opt.if3, ih, hn,
            ← ifThenName_is_source, pos_add, Bool.or_assoc]
      · simp [SrcOptimizer.transform_ternary, Opt.transform, Opt.transformFound, Opt.if3, ih, hn,
            ← ifThenName_is_source]
    · intro fc
      simp [SrcOptimizer.transform_ternary_each, Opt.transformL, Opt.if3L]
    · intro e es ihe ihes fc
      simp [SrcOptimizer.transform_ternary_each, Opt.transformL, Opt.if3L, ihe, ihes, Opt.transformFound, pos_add, Bool.or_assoc]
  refine ⟨key, fun es => ?_⟩
  induction es with
  | nil => intro fc; simp [SrcOptimizer.transform_ternary_each, Opt.transformL, Opt.if3L]
  | cons e es ih =>
    intro fc
    simp [SrcOptimizer.transform_ternary_each, Opt.transformL, Opt.if3L, key, ih, Opt.transformFound, pos_add, Bool.or_assoc]

/-- src/optimizer.rs `transform_ternary` -/
theorem transform_is_source (e : Expr N) (fc : Bool) :
    SrcOptimizer.transform_ternary e fc = (Opt.transform e, fc || Opt.transformFound e) := transform_both.1 e fc

/-- the loop of `transform_ternary` over `values` / `params` -/
theorem transformL_is_source (es : List (Expr N)) (fc : Bool) :
    SrcOptimizer.transform_ternary_each es fc = (Opt.transformL es, fc || decide (Opt.if3L es > 0)) :=
  transform_both.2 es fc

/-- `fold_constants` and its loop over a slice, at once -/
theorem fold_both (env : Env N) :
    (∀ (e : Expr N) (fc : Bool), SrcOptimizer.fold_constants env e fc =
      ((Opt.fold env e).tree, fc || (Opt.fold env e).found, (Opt.fold env e).err)) ∧
    (∀ (es : List (Expr N)) (fc : Bool), SrcOptimizer.fold_constants_each env es fc =
      ((Opt.foldL env es).1, fc || (Opt.foldL env es).2.1, (Opt.foldL env es).2.2)) := by
  have key : ∀ (e : Expr N) (fc : Bool), SrcOptimizer.fold_constants env e fc =
      ((Opt.fold env e).tree, fc || (Opt.fold env e).found, (Opt.fold env e).err) := by
    intro e
    refine Expr.rec
      (motive_1 := fun e => ∀ fc, SrcOptimizer.fold_constants env e fc =
        ((Opt.fold env e).tree, fc || (Opt.fold env e).found, (Opt.fold env e).err))
      (motive_2 := fun es => ∀ fc, SrcOptimizer.fold_constants_each env es fc =
        ((Opt.foldL env es).1, fc || (Opt.foldL env es).2.1, (Opt.foldL env es).2.2))
      ?_ ?_ ?_ ?_ ?_ ?_ ?_ ?_ ?_ e
    · intro r op ih fc
      rw [SrcOptimizer.fold_constants.eq_def, Opt.fold.eq_def]
      simp only [ih]
      generalize Opt.fold env r = fr
      obtain ⟨t, f, er⟩ := fr
      cases er <;> cases r <;> simp [Opt.isLit, Opt.exec] <;> split <;> simp_all
    · intro l r op ihl ihr fc
      rw [SrcOptimizer.fold_constants.eq_def, Opt.fold.eq_def]
      simp only [ihl, ihr]
      generalize Opt.fold env l = fl
      generalize Opt.fold env r = fr
      obtain ⟨tl, fl, el⟩ := fl
      obtain ⟨tr, fr, er⟩ := fr
      cases l with
      | lit v => cases el <;> cases er <;> cases r <;> simp [Opt.isLit, Opt.exec, Bool.or_assoc] <;> split <;> simp_all
      | _ => cases el <;> cases er <;> simp [Opt.isLit, Opt.exec, Bool.or_assoc]
    · intro l m r op ihl ihm ihr fc
      rw [SrcOptimizer.fold_constants.eq_def, Opt.fold.eq_def]
      simp only [ihl, ihm, ihr]
      generalize Opt.fold env l = fl
      generalize Opt.fold env m = fm
      generalize Opt.fold env r = fr
      obtain ⟨tl, fl, el⟩ := fl
      obtain ⟨tm, fm, em⟩ := fm
      obtain ⟨tr, fr, er⟩ := fr
      cases l with
      | lit v => cases el <;> cases em <;> cases er <;> cases op <;> simp [Bool.or_assoc] <;> split <;> simp_all
      | _ => cases el <;> cases em <;> cases er <;> simp [Bool.or_assoc]
    · intro es ih fc
      rw [SrcOptimizer.fold_constants.eq_def, Opt.fold.eq_def]
      simp only [ih, ← allLit_is_source]
      generalize Opt.foldL env es = p
      obtain ⟨es', f, er⟩ := p
      cases er <;> by_cases h : Opt.allLit es <;> simp [h, Opt.exec] <;> split <;> simp_all
    · intro v fc
      rw [SrcOptimizer.fold_constants.eq_def, Opt.fold.eq_def]; simp
    · intro n fc
      rw [SrcOptimizer.fold_constants.eq_def, Opt.fold.eq_def]; simp
    · intro n ps ih fc
      rw [SrcOptimizer.fold_constants.eq_def, Opt.fold.eq_def]
      simp only [ih, ← allLit_is_source]
      generalize Opt.foldL env ps = p
      generalize env.fnExists n ps.length = fe
      obtain ⟨ps', f, er⟩ := p
      by_cases h : Opt.allLit ps
      · cases fe with
        | exist pure => cases pure <;> simp [h, Opt.exec] <;> split <;> simp_all
        | _ => simp [h]
      · cases er <;> simp [h]
    · intro fc
      rw [SrcOptimizer.fold_constants_each.eq_def, Opt.foldL.eq_def]; simp
    · intro e es ihe ihes fc
      rw [SrcOptimizer.fold_constants_each.eq_def, Opt.foldL.eq_def]
      simp only [ihe, ihes]
      generalize Opt.fold env e = fe
      generalize Opt.foldL env es = p
      obtain ⟨te, fe, ee⟩ := fe
      obtain ⟨es', f, er⟩ := p
      cases ee <;> simp [Bool.or_assoc]
  refine ⟨key, fun es => ?_⟩
  induction es with
  | nil => intro fc; rw [SrcOptimizer.fold_constants_each.eq_def, Opt.foldL.eq_def]; simp
  | cons e es ih =>
    intro fc
    rw [SrcOptimizer.fold_constants_each.eq_def, Opt.foldL.eq_def]
    simp only [key, ih]
    generalize Opt.fold env e = fe
    generalize Opt.foldL env es = p
    obtain ⟨te, fe, ee⟩ := fe
    obtain ⟨es', f, er⟩ := p
    cases ee <;> simp [Bool.or_assoc]

/-- src/optimizer.rs `fold_constants` -/
theorem fold_is_source (env : Env N) (e : Expr N) (fc : Bool) :
    SrcOptimizer.fold_constants env e fc =
      ((Opt.fold env e).tree, fc || (Opt.fold env e).found, (Opt.fold env e).err) := (fold_both env).1 e fc

/-- the loop of `fold_constants` over `values` / `params` (stops at the first error) -/
theorem foldL_is_source (env : Env N) (es : List (Expr N)) (fc : Bool) :
    SrcOptimizer.fold_constants_each env es fc =
      ((Opt.foldL env es).1, fc || (Opt.foldL env es).2.1, (Opt.foldL env es).2.2) := (fold_both env).2 es fc

/-- the `loop` of `optimize`, entered with `found_const = false` -/
theorem optimize_loop_is_source (env : Env N) (fuel : Nat) (e : Expr N) :
    SrcOptimizer.optimize_loop env fuel e false = Opt.optimize env fuel e := by
  induction fuel generalizing e with
  | zero => simp [SrcOptimizer.optimize_loop, Opt.optimize]
  | succ n ih =>
    rw [SrcOptimizer.optimize_loop.eq_def, Opt.optimize.eq_def]
    simp only [transform_is_source, fold_is_source, Bool.false_or]
    generalize Opt.fold env (Opt.transform e) = fr
    obtain ⟨t, f, er⟩ := fr
    cases er <;> simp [ih]

/-- src/optimizer.rs `optimize` -/
theorem optimize_is_source (env : Env N) (fuel : Nat) (e : Expr N) :
    SrcOptimizer.optimize env fuel e = Opt.optimize env fuel e := by
  simp only [SrcOptimizer.optimize, optimize_loop_is_source]

end Slac.C05Source
