/-
  C07 (scanner half) — `Scanner::tokenize` is total: for every input it returns tokens or an error value.

  Model: `Slac.Scanner.scan`.  Its loops are structural on the text (`skipWs`, `strRaw`, `takeWhile`/`dropWhile`)
  or on a fuel counter initialised with `length + 1` (`scanLoop`); the model has explicit outcomes `outOfFuel` and
  `panic`, and the theorem says they never occur: every token consumes at least one character
  (`nextToken_length`), `skipWs` never lengthens the text (`skipWs_length`), so the fuel suffices.
  The Rust side (no index arithmetic underflow, `chars().nth` returning `None` past the end instead of
  panicking) is covered by the behavioural tie of the `scan` stream.
-/
import SlacProofs.ScannerLoop
set_option autoImplicit false
namespace Slac.C07
open Slac.Scanner
variable {N : Type} [NumOps N]

/-- for every character classification and every source text the scanner returns tokens or an error value -/
theorem scan_total (cc : CharClass) (src : Str) :
    (∃ ts, scan (N := N) cc src = .ok ts) ∨ (∃ e, scan (N := N) cc src = .err e) :=
  Scanner.scan_total cc src

/-- the error values are those of the scanner only -/
theorem scan_never_crashes (cc : CharClass) (src : Str) :
    scan (N := N) cc src ≠ .outOfFuel ∧ scan (N := N) cc src ≠ .panic := by
  rcases scan_total (N := N) cc src with ⟨ts, h⟩ | ⟨e, h⟩ <;> rw [h] <;> exact ⟨nofun, nofun⟩

/-- the fuel is irrelevant: any amount above the length of the text gives the same result -/
theorem fuel_irrelevant (cc : CharClass) (n m : Nat) (src : Str) (hn : src.length < n) (hm : src.length < m) :
    scanLoop (N := N) cc n src = scanLoop cc m src :=
  scanLoop_fuel cc n m src hn hm

/-- a successful scan is never empty (`Error::Eof` instead) -/
theorem scan_ok_nonempty (cc : CharClass) (src : Str) (ts : List (Token N)) (h : scan cc src = .ok ts) :
    ts ≠ [] := by
  unfold scan at h
  split at h
  · cases h
  · rename_i hne
    intro he; subst he
    exact hne h

/-- inputs on which every error arm is taken -/
example : scan (N := N) CharClass.ascii [] = .err .eof := rfl
example : scan (N := N) CharClass.ascii [' ', '{', '{', '}'] = .err .eof := rfl
example : scan (N := N) CharClass.ascii ['a', ' ', '$', 'b'] = .err (.invalidCharacter '$') := rfl
example : scan (N := N) CharClass.ascii ['\'', 'a', '\'', '\''] = .err .unterminatedStringLiteral := rfl
example : scan (N := N) CharClass.ascii ['(', '<', '>', ')', '/', '/'] = .ok [.leftParen, .notEqual, .rightParen] := rfl
example (h : NumOps.parse (N := N) ['.'] = none) : scan (N := N) CharClass.ascii ['.'] = .err .invalidNumber := by
  simp [scan, scanAll, scanLoop, skipWs, isWs, nextToken, isIdentStart, number, numberLex, CharClass.ascii,
    isAsciiLetter, isAsciiDigit, Unicode.inRange, h]

end Slac.C07
