/-
  C01 (text level) — compiling inverts rendering, for source TEXT.

  "For every expression tree that can be written in source syntax, rendering it to text — fully parenthesised, or with
  only the parentheses required by the documented precedence order and left-associativity of binary operators — and
  compiling that text yields exactly that tree.  Conversely, whenever compile accepts a text, re-rendering the tree it
  produced and compiling again reproduces the same tree."

  SlacProps/C01.lean proves this for token lists (`Parser.parse`).  This file composes it with the scanner theorems
  of C02 to reach `compile : text → tree` (`Slac.Unlex.compile`, the model of `slac::compile` = `Scanner::tokenize`
  then `Compiler::compile_ast`).

  * text of a token list: `unlex pr ts` (SlacModel/Unlex.lean) — canonical token texts joined by single spaces;
    `pr : N → Str` prints numbers.  `unlexTight` puts a space only where two tokens may not touch, `unlexWith` takes
    any admissible separator policy.  Any other layout (more whitespace, comments, keywords in other letter case,
    other spellings of numbers) is covered by `compile_layout` / `compile_spaced`.
  * "can be written in source syntax": `SrcExpr e` (operators only where the syntax can put them) and
    `SrcText cc pr e`: every literal/name in the tree is `LexValid` — names are identifier-shaped and not keywords,
    there are no literal array *values* (arrays are written with brackets), and every number literal `x` is printed
    by `pr` as a plain decimal text that parses back to `x`.  The last clause is an explicit hypothesis about the
    number printer; for `f64` and `F64.display` it holds on finite non-negative values by the `num` test stream, not
    by proof.  Strings and booleans need no hypothesis.
  * converse: `recompile_text` — from `compile cc src = .ok e` alone, plus the printer hypothesis on the number
    literals occurring in `e` (`numLits e`); everything else about `e` (source-expressible, names are identifiers,
    no literal array values) is derived from the scanner and parser models (`scan_tokens_valid`, `parse_leaves`).
  * everything holds for every `CharClass` with `AsciiOk` and every number type.
-/
import SlacProps.C01
import SlacProps.C02
import SlacProofs.Unlex
import SlacProofs.UnlexTree
import SlacProofs.UnlexScan
set_option autoImplicit false
namespace Slac.C01
open Slac.Scanner Slac.Parser Slac.Render Slac.Unlex
variable {N : Type} [NumOps N]

/-! ### 0. `compile` is `scan` then `parse` -/

theorem compile_of_scan {cc : CharClass} {src : Str} {toks : List (Token N)} (h : scan cc src = .ok toks) :
    compile cc src = parse toks := by
  unfold compile; rw [h]

theorem compile_ok_iff {cc : CharClass} {src : Str} {e : Expr N} :
    compile cc src = .ok e ↔ ∃ toks, scan cc src = .ok toks ∧ parse toks = .ok e := by
  unfold compile
  cases h : scan (N := N) cc src with
  | ok toks => simp
  | err e => simp
  | outOfFuel => simp
  | panic => simp

/-! ### 1. un-lexing is inverted by the scanner -/

/-- the canonical text of a list of valid tokens scans back to exactly that list -/
theorem scan_unlex {cc : CharClass} (hcc : cc.AsciiOk) (pr : N → Str) {toks : List (Token N)}
    (hv : ∀ t ∈ toks, LexValid cc pr t) (hne : toks ≠ []) : scan cc (unlex pr toks) = .ok toks :=
  Unlex.scan_unlex hcc pr hv hne

/-- the canonical text of a valid token is one of its lexemes (so it can be used inside any layout) -/
theorem tokenText_lexeme {cc : CharClass} (hcc : cc.AsciiOk) (pr : N → Str) {t : Token N}
    (h : LexValid cc pr t) : Lexeme cc t (tokenText pr t) :=
  Unlex.tokenText_lexeme hcc pr h

/-- the same for any admissible policy `sp` for the separator between adjacent tokens (`SepOk sp`: separators are
    whitespace/comments, non-empty where `needsSep` holds, not beginning with `/` after the token `/`) -/
theorem scan_unlexWith {cc : CharClass} (hcc : cc.AsciiOk) (pr : N → Str) {sp : Token N → Token N → Str}
    (hsp : SepOk sp) {toks : List (Token N)} (hv : ∀ t ∈ toks, LexValid cc pr t) (hne : toks ≠ []) :
    scan cc (unlexWith pr sp toks) = .ok toks :=
  Unlex.scan_unlexWith hcc pr hsp hv hne

/-- in particular for the tight text: a space only where two tokens may not touch -/
theorem scan_unlexTight {cc : CharClass} (hcc : cc.AsciiOk) (pr : N → Str) {toks : List (Token N)}
    (hv : ∀ t ∈ toks, LexValid cc pr t) (hne : toks ≠ []) : scan cc (unlexTight pr toks) = .ok toks :=
  Unlex.scan_unlexTight hcc pr hv hne

/-! ### 2. trees whose leaves have a source text -/

/-- every literal and every name of the tree has a source text that scans back to it (`leaves e`: the literal,
    variable-name and function-name tokens of `e`) -/
def SrcText (cc : CharClass) (pr : N → Str) (e : Expr N) : Prop := ∀ t ∈ leaves e, LexValid cc pr t

theorem lexValid_structural (cc : CharClass) (pr : N → Str) (t : Token N) (h : Structural t = true) :
    LexValid cc pr t := by
  cases t <;> first | trivial | cases h

/-- `SrcText` says the same as "every token of a (any) rendering is valid" -/
theorem srcText_iff_rendering (cc : CharClass) (pr : N → Str) {q : Nat} {e : Expr N} {ts : List (Token N)}
    (h : Rn q e ts) : SrcText cc pr e ↔ ∀ t ∈ ts, LexValid cc pr t :=
  ⟨fun hl => rn_all (lexValid_structural cc pr) h hl, fun ht t hl => ht t (rn_leaves h t hl)⟩

theorem srcText_iff_renderMin (cc : CharClass) (pr : N → Str) {e : Expr N} (h : SrcExpr e) :
    SrcText cc pr e ↔ ∀ t ∈ renderMin e, LexValid cc pr t :=
  srcText_iff_rendering cc pr (renderMin_renders h)

theorem srcText_iff_renderFull (cc : CharClass) (pr : N → Str) {e : Expr N} (h : SrcExpr e) :
    SrcText cc pr e ↔ ∀ t ∈ renderFull e, LexValid cc pr t :=
  srcText_iff_rendering cc pr (renderFull_renders h)

/-! ### 3. rendering to text, then compiling -/

/-- EVERY parenthesisation style: the text of any rendering of `e` compiles to `e` -/
theorem compile_rendering {cc : CharClass} (hcc : cc.AsciiOk) (pr : N → Str) {e : Expr N} {ts : List (Token N)}
    (hr : Rn 1 e ts) (hv : ∀ t ∈ ts, LexValid cc pr t) : compile cc (unlex pr ts) = .ok e := by
  rw [compile_of_scan (scan_unlex hcc pr hv (rn_ne_nil hr))]
  exact parse_rendering hr

/-- the same with the validity hypothesis on the tree instead of on the token list -/
theorem compile_rendering_src {cc : CharClass} (hcc : cc.AsciiOk) (pr : N → Str) {e : Expr N}
    {ts : List (Token N)} (hr : Rn 1 e ts) (ht : SrcText cc pr e) : compile cc (unlex pr ts) = .ok e :=
  compile_rendering hcc pr hr ((srcText_iff_rendering cc pr hr).mp ht)

/-- only the required parentheses -/
theorem compile_renderMin {cc : CharClass} (hcc : cc.AsciiOk) (pr : N → Str) {e : Expr N} (hs : SrcExpr e)
    (ht : SrcText cc pr e) : compile cc (unlex pr (renderMin e)) = .ok e :=
  compile_rendering_src hcc pr (renderMin_renders hs) ht

/-- fully parenthesised -/
theorem compile_renderFull {cc : CharClass} (hcc : cc.AsciiOk) (pr : N → Str) {e : Expr N} (hs : SrcExpr e)
    (ht : SrcText cc pr e) : compile cc (unlex pr (renderFull e)) = .ok e :=
  compile_rendering_src hcc pr (renderFull_renders hs) ht

/-- any parenthesisation style, any admissible separator policy -/
theorem compile_rendering_with {cc : CharClass} (hcc : cc.AsciiOk) (pr : N → Str) {sp : Token N → Token N → Str}
    (hsp : SepOk sp) {e : Expr N} {ts : List (Token N)} (hr : Rn 1 e ts) (ht : SrcText cc pr e) :
    compile cc (unlexWith pr sp ts) = .ok e := by
  rw [compile_of_scan (scan_unlexWith hcc pr hsp ((srcText_iff_rendering cc pr hr).mp ht) (rn_ne_nil hr))]
  exact parse_rendering hr

/-- minimal parentheses and minimal white space, e.g. `a+f(1,'it''s')*-b` -/
theorem compile_renderMin_tight {cc : CharClass} (hcc : cc.AsciiOk) (pr : N → Str) {e : Expr N} (hs : SrcExpr e)
    (ht : SrcText cc pr e) : compile cc (unlexTight pr (renderMin e)) = .ok e :=
  compile_rendering_with hcc pr sepOk_tight (renderMin_renders hs) ht

/-- the hypotheses are also necessary: a text that compiles to `e` exists only for source-expressible `e` -/
theorem compile_src {cc : CharClass} {src : Str} {e : Expr N} (h : compile cc src = .ok e) : SrcExpr e := by
  obtain ⟨toks, _, hp⟩ := compile_ok_iff.mp h
  exact parse_wf hp

/-! ### 4. any layout -/

/-- Layout generalisation.  Write the tokens of any rendering of `e` with any of their spellings (`Lexeme`:
    keywords in any letter case, any number text that parses to the number, …), separated by any separators
    (whitespace, line comments, nested block comments; empty where `needsSep` is false), with a leading separator
    and a trailing text (possibly an unterminated comment): the text compiles to `e`. -/
theorem compile_layout {cc : CharClass} (hcc : cc.AsciiOk) (items : List (Item N)) (s0 trail : Str) {e : Expr N}
    (hs0 : IsSep s0) (hitems : ∀ i ∈ items, Lexeme cc i.tok i.text ∧ IsSep i.sep)
    (hjoin : JoinableTok items trail) (htrail : IsTrail trail) (hr : Rn 1 e (items.map (·.tok))) :
    compile cc (s0 ++ Scanner.render items trail) = .ok e := by
  have hne : items ≠ [] := by
    intro h; subst h; exact rn_ne_nil hr rfl
  rw [compile_of_scan (C02.scan_layout_tok hcc items s0 trail hne hs0 hitems hjoin htrail)]
  exact parse_rendering hr

/-- `compile` — result or error value — does not depend on layout: two texts with the same tokens compile alike -/
theorem compile_layout_irrelevant {cc : CharClass} (hcc : cc.AsciiOk) (items items' : List (Item N))
    (s0 s0' trail trail' : Str) (hsame : items.map (·.tok) = items'.map (·.tok)) (hne : items ≠ [])
    (hs0 : IsSep s0) (hs0' : IsSep s0')
    (hitems : ∀ i ∈ items, Lexeme cc i.tok i.text ∧ IsSep i.sep)
    (hitems' : ∀ i ∈ items', Lexeme cc i.tok i.text ∧ IsSep i.sep)
    (hjoin : JoinableTok items trail) (hjoin' : JoinableTok items' trail')
    (htrail : IsTrail trail) (htrail' : IsTrail trail') :
    compile (N := N) cc (s0 ++ Scanner.render items trail) = compile cc (s0' ++ Scanner.render items' trail') := by
  unfold compile
  rw [C02.layout_irrelevant hcc items items' s0 s0' trail trail' hsame hne hs0 hs0' hitems hitems' hjoin hjoin'
    htrail htrail']

/-- canonical token texts with chosen separators: token `p.1` followed by separator `p.2` -/
def spaced (pr : N → Str) (ps : List (Token N × Str)) : List (Item N) :=
  ps.map fun p => ⟨p.1, tokenText pr p.1, p.2⟩

/-- the canonical token texts of a rendering with arbitrary separators / comments between them -/
theorem compile_spaced {cc : CharClass} (hcc : cc.AsciiOk) (pr : N → Str) (ps : List (Token N × Str))
    (s0 trail : Str) {e : Expr N} (hs0 : IsSep s0) (hv : ∀ p ∈ ps, LexValid cc pr p.1 ∧ IsSep p.2)
    (hjoin : JoinableTok (spaced pr ps) trail) (htrail : IsTrail trail) (hr : Rn 1 e (ps.map (·.1))) :
    compile cc (s0 ++ Scanner.render (spaced pr ps) trail) = .ok e := by
  refine compile_layout hcc (spaced pr ps) s0 trail hs0 ?_ hjoin htrail ?_
  · intro i hi
    obtain ⟨p, hp, rfl⟩ := List.mem_map.mp hi
    exact ⟨tokenText_lexeme hcc pr (hv p hp).1, (hv p hp).2⟩
  · have : (spaced pr ps).map (·.tok) = ps.map (·.1) := by simp [spaced]
    rw [this]; exact hr

/-! ### 5. the converse direction -/

/-- every token the scanner outputs is `ScanValid`: `LexValid` except for the clause about the number printer
    (identifiers are identifier-shaped non-keywords; numbers are `NumOps.parse` of some number-shaped text; no
    literal array values) -/
theorem scan_tokens_valid {cc : CharClass} (hcc : cc.AsciiOk) {src : Str} {toks : List (Token N)}
    (h : scan cc src = .ok toks) : ∀ t ∈ toks, ScanValid cc t :=
  scan_valid hcc h

/-- the leaves of a compiled tree are tokens of the source, hence `ScanValid` -/
theorem compile_leaves_valid {cc : CharClass} (hcc : cc.AsciiOk) {src : Str} {e : Expr N}
    (h : compile cc src = .ok e) : ∀ t ∈ leaves e, ScanValid cc t := by
  obtain ⟨toks, hs, hp⟩ := compile_ok_iff.mp h
  exact fun t ht => scan_tokens_valid hcc hs t (parse_leaves hp t ht)

/-- a compiled tree is `SrcText` as soon as the printer is right on the number literals that occur in it -/
theorem compile_srcText {cc : CharClass} (hcc : cc.AsciiOk) (pr : N → Str) {src : Str} {e : Expr N}
    (h : compile cc src = .ok e)
    (hnum : ∀ x ∈ numLits e, DecimalText (pr x) ∧ NumOps.parse (pr x) = some x) : SrcText cc pr e :=
  fun t ht => lexValid_of_scanValid (compile_leaves_valid hcc h t ht) (numPrintOk_leaves hnum t ht)

/-- Converse, with the validity hypothesis stated on the re-rendered tokens. -/
theorem recompile {cc : CharClass} (hcc : cc.AsciiOk) (pr : N → Str) {src : Str} {e : Expr N}
    (h : compile cc src = .ok e) (hv : ∀ t ∈ renderMin e, LexValid cc pr t) :
    compile cc (unlex pr (renderMin e)) = .ok e :=
  compile_rendering hcc pr (renderMin_renders (compile_src h)) hv

/-- Converse, with every hypothesis discharged from `compile cc src = .ok e` except the one on number printing:
    whenever compile accepts a text, re-rendering the tree (minimal parentheses) and compiling again gives the
    same tree — provided each number literal `x` *occurring in the tree* is printed as a decimal text that parses
    back to `x`. -/
theorem recompile_text {cc : CharClass} (hcc : cc.AsciiOk) (pr : N → Str) {src : Str} {e : Expr N}
    (h : compile cc src = .ok e)
    (hnum : ∀ x ∈ numLits e, DecimalText (pr x) ∧ NumOps.parse (pr x) = some x) :
    compile cc (unlex pr (renderMin e)) = .ok e :=
  compile_renderMin hcc pr (compile_src h) (compile_srcText hcc pr h hnum)

/-- … fully parenthesised -/
theorem recompile_text_full {cc : CharClass} (hcc : cc.AsciiOk) (pr : N → Str) {src : Str} {e : Expr N}
    (h : compile cc src = .ok e)
    (hnum : ∀ x ∈ numLits e, DecimalText (pr x) ∧ NumOps.parse (pr x) = some x) :
    compile cc (unlex pr (renderFull e)) = .ok e :=
  compile_renderFull hcc pr (compile_src h) (compile_srcText hcc pr h hnum)

/-- … and in any other parenthesisation style -/
theorem recompile_text_any {cc : CharClass} (hcc : cc.AsciiOk) (pr : N → Str) {src : Str} {e : Expr N}
    {ts : List (Token N)} (h : compile cc src = .ok e)
    (hnum : ∀ x ∈ numLits e, DecimalText (pr x) ∧ NumOps.parse (pr x) = some x) (hr : Rn 1 e ts) :
    compile cc (unlex pr ts) = .ok e :=
  compile_rendering_src hcc pr hr (compile_srcText hcc pr h hnum)

/-- a tree without number literals needs no hypothesis at all -/
theorem recompile_text_nonum {cc : CharClass} (hcc : cc.AsciiOk) (pr : N → Str) {src : Str} {e : Expr N}
    (h : compile cc src = .ok e) (hno : numLits e = []) : compile cc (unlex pr (renderMin e)) = .ok e :=
  recompile_text hcc pr h (by rw [hno]; intro x hx; cases hx)

/-! ### 6. tests (concrete inputs; non-vacuity) -/

section tests

/-- toy numbers for the tests: naturals, written in decimal -/
private def toyParse (s : Str) : Option Nat :=
  if s.isEmpty || !s.all isAsciiDigit then none else some (s.foldl (fun a c => 10 * a + (c.toNat - 48)) 0)

private def digit : Nat → Char
  | 0 => '0' | 1 => '1' | 2 => '2' | 3 => '3' | 4 => '4' | 5 => '5' | 6 => '6' | 7 => '7' | 8 => '8' | _ => '9'

/-- toy printer (right below 100, which is all the tests use) -/
private def toyPr (n : Nat) : Str := if n < 10 then [digit n] else [digit (n / 10 % 10), digit (n % 10)]

@[reducible, local instance] private def toyNum : NumOps Nat :=
  ⟨fun a _ => a, fun a _ => a, fun a _ => a, fun a _ => a, fun a _ => a, id, id, fun _ _ => none, fun a b => a == b,
    0, fun _ => 0, toyParse⟩

private abbrev ta : Token Nat := .identifier ['a']
private abbrev tb : Token Nat := .identifier ['b']
private abbrev tf : Token Nat := .identifier ['f']
private abbrev t1 : Token Nat := .literal (.num 1)
private abbrev ts : Token Nat := .literal (.str ['i', 't', '\'', 's'])

/-- `a + f(1, 'it''s') * -b` -/
private def ex : Expr Nat :=
  .binary (.var ['a'])
    (.binary (.call ['f'] [.lit (.num 1), .lit (.str ['i', 't', '\'', 's'])]) (.unary (.var ['b']) .minus) .multiply)
    .plus

example : SrcExpr ex := by decide

example : renderMin ex = [ta, .plus, tf, .leftParen, t1, .comma, ts, .rightParen, .star, .minus, tb] := rfl

example : renderFull ex = [.leftParen, ta, .plus, .leftParen, tf, .leftParen, t1, .comma, ts, .rightParen, .star,
    .leftParen, .minus, tb, .rightParen, .rightParen, .rightParen] := rfl

/-- `a + f ( 1 , 'it''s' ) * - b` -/
private def exMinText : Str :=
  ['a', ' ', '+', ' ', 'f', ' ', '(', ' ', '1', ' ', ',', ' ', '\'', 'i', 't', '\'', '\'', 's', '\'', ' ', ')', ' ',
   '*', ' ', '-', ' ', 'b']

/-- `( a + ( f ( 1 , 'it''s' ) * ( - b ) ) )` -/
private def exFullText : Str :=
  ['(', ' ', 'a', ' ', '+', ' ', '(', ' ', 'f', ' ', '(', ' ', '1', ' ', ',', ' ', '\'', 'i', 't', '\'', '\'', 's',
   '\'', ' ', ')', ' ', '*', ' ', '(', ' ', '-', ' ', 'b', ' ', ')', ' ', ')', ' ', ')']

example : unlex toyPr (renderMin ex) = exMinText := by decide
example : unlex toyPr (renderFull ex) = exFullText := by decide

private theorem ex_leaves : leaves ex = [ta, tf, t1, ts, tb] := by
  simp [ex, leaves_binary, leaves_unary, leaves_call, leaves_var, leaves_lit, leavesList_cons, leavesList_nil]

/-- the hypotheses of the round-trip theorems hold of `ex` -/
private theorem ex_srcText : SrcText CharClass.ascii toyPr ex := by
  intro t ht
  rw [ex_leaves] at ht
  simp only [List.mem_cons, List.not_mem_nil, or_false] at ht
  rcases ht with rfl | rfl | rfl | rfl | rfl
  · exact ⟨by decide, by decide⟩
  · exact ⟨by decide, by decide⟩
  · exact ⟨.int (by decide) (by decide), by decide⟩
  · trivial
  · exact ⟨by decide, by decide⟩

/- test: the text with minimal parentheses compiles to the tree (by the theorem) -/
example : compile CharClass.ascii exMinText = .ok ex :=
  compile_renderMin CharClass.ascii_ok toyPr (e := ex) (by decide) ex_srcText

/- test: the fully parenthesised text compiles to the tree -/
example : compile CharClass.ascii exFullText = .ok ex :=
  compile_renderFull CharClass.ascii_ok toyPr (e := ex) (by decide) ex_srcText

/- test: the same two facts by running the model (independent of the theorems) -/
example : compile CharClass.ascii exMinText = .ok ex := rfl
example : compile CharClass.ascii exFullText = .ok ex := rfl

private theorem ex_valid (ps : List (Token Nat × Str)) (hm : ps.map (·.1) = renderMin ex)
    (hs : ps.all (fun p => sepB p.2) = true) : ∀ p ∈ ps, LexValid CharClass.ascii toyPr p.1 ∧ IsSep p.2 := by
  intro p hp
  refine ⟨(srcText_iff_renderMin CharClass.ascii toyPr (e := ex) (by decide)).mp ex_srcText p.1 ?_, ?_⟩
  · rw [← hm]; exact List.mem_map_of_mem hp
  · exact sepB_sound (List.all_eq_true.mp hs p hp)

/- test: the converse, from the fact that the compact text `a+f(1,'it''s')*-b` compiles to `ex` -/
private def exCompact : Str :=
  ['a', '+', 'f', '(', '1', ',', '\'', 'i', 't', '\'', '\'', 's', '\'', ')', '*', '-', 'b']

private theorem ex_compact : compile CharClass.ascii exCompact = .ok ex :=
  compile_spaced CharClass.ascii_ok toyPr
    [(ta, []), (.plus, []), (tf, []), (.leftParen, []), (t1, []), (.comma, []), (ts, []), (.rightParen, []),
     (.star, []), (.minus, []), (tb, [])] [] [] .nil
    (ex_valid _ rfl (by decide))
    (by simp [spaced, JoinableTok, needsSep, lexClass, startClass, SepFits]) .nil
    (renderMin_renders (e := ex) (by decide))

/- test: the compact text is the tight rendering, and the theorem about it applies -/
example : unlexTight toyPr (renderMin ex) = exCompact := by decide
example : compile CharClass.ascii exCompact = .ok ex :=
  compile_renderMin_tight CharClass.ascii_ok toyPr (e := ex) (by decide) ex_srcText
example : compile CharClass.ascii exCompact = .ok ex := rfl

example : compile CharClass.ascii (unlex toyPr (renderMin ex)) = .ok ex :=
  recompile_text CharClass.ascii_ok toyPr ex_compact (by
    intro x hx
    have : numLits ex = [1] := by simp [numLits, ex_leaves]
    rw [this] at hx
    simp only [List.mem_cons, List.not_mem_nil, or_false] at hx
    subst hx
    exact ⟨.int (by decide) (by decide), by decide⟩)

/- test: comments and line breaks do not matter:
   `{c} a +// x⏎f(1 ,'it''s' )*{-}- b // end` compiles to the same tree -/
example : compile CharClass.ascii
    ['{', 'c', '}', ' ', 'a', ' ', '+', '/', '/', ' ', 'x', '\n', 'f', '(', '1', ' ', ',', '\'', 'i', 't', '\'', '\'',
     's', '\'', ' ', ')', '*', '{', '-', '}', '-', ' ', 'b', ' ', '/', '/', ' ', 'e', 'n', 'd'] = .ok ex :=
  compile_spaced CharClass.ascii_ok toyPr
    [(ta, [' ']), (.plus, ['/', '/', ' ', 'x', '\n']), (tf, []), (.leftParen, []), (t1, [' ']), (.comma, []),
     (ts, [' ']), (.rightParen, []), (.star, ['{', '-', '}']), (.minus, [' ']), (tb, [' '])]
    ['{', 'c', '}', ' '] ['/', '/', ' ', 'e', 'n', 'd'] (sepB_sound (by decide))
    (ex_valid _ rfl (by decide))
    (by simp [spaced, JoinableTok, needsSep, lexClass, startClass, SepFits])
    ((C02.isTrail_iff _).mpr (by decide))
    (renderMin_renders (e := ex) (by decide))

/- test: other spellings (`compile_layout`): keywords in any letter case, another text for the same number —
   `a AnD{x}nOt 01` compiles to the tree of `a and not 1` -/
example : compile CharClass.ascii
    ['a', ' ', 'A', 'n', 'D', '{', 'x', '}', 'n', 'O', 't', ' ', '0', '1'] =
    .ok (.binary (.var ['a']) (.unary (.lit (.num 1)) .not) .and) :=
  compile_layout CharClass.ascii_ok
    [⟨ta, ['a'], [' ']⟩, ⟨.and, ['A', 'n', 'D'], ['{', 'x', '}']⟩, ⟨.not, ['n', 'O', 't'], [' ']⟩,
     ⟨t1, ['0', '1'], []⟩] [] [] .nil
    (by
      intro i hi
      simp only [List.mem_cons, List.not_mem_nil, or_false] at hi
      rcases hi with rfl | rfl | rfl | rfl
      · exact ⟨.ident (by decide) rfl, sepB_sound (by decide)⟩
      · exact ⟨C02.keyword_lexeme CharClass.ascii_ok (kw := ['a', 'n', 'd']) (by simp [keywords]) (by decide),
          sepB_sound (by decide)⟩
      · exact ⟨C02.keyword_lexeme CharClass.ascii_ok (kw := ['n', 'o', 't']) (by simp [keywords]) (by decide),
          sepB_sound (by decide)⟩
      · exact ⟨.num (by decide) (by decide), .nil⟩)
    (by simp [JoinableTok, needsSep, lexClass, startClass, SepFits]) .nil
    (renderMin_renders (e := .binary (.var ['a']) (.unary (.lit (.num 1)) .not) .and) (by decide))

/- test: the validity hypothesis is needed.  A variable named `and` is a source-expressible tree (`SrcExpr`), but
   its text is the keyword: it does not round-trip, and `SrcText` excludes it. -/
example : SrcExpr (.var ['a', 'n', 'd'] : Expr Nat) := by decide
example : compile (N := Nat) CharClass.ascii (unlex toyPr (renderMin (.var ['a', 'n', 'd']))) =
    .err (.noValidPrefixToken .and) := rfl
example : ¬ SrcText CharClass.ascii toyPr (.var ['a', 'n', 'd'] : Expr Nat) := by
  intro h
  have := h (.identifier ['a', 'n', 'd']) (by rw [leaves_var]; simp)
  exact this.2 (by decide)

/- test: a literal array *value* has no source text (the array `[1]` is written with brackets and compiles to an
   `array` node, not to a literal) -/
example : compile (N := Nat) CharClass.ascii (unlex toyPr (renderMin (.lit (.arr [.num 1])))) = .err .eof := rfl
example : compile (N := Nat) CharClass.ascii ['[', '1', ']'] = .ok (.array [.lit (.num 1)]) := rfl

/- test: a printer that is wrong on a number breaks the round trip (here `toyPr 123 = "23"`), so the hypothesis on
   number literals is needed -/
example : compile CharClass.ascii (unlex toyPr (renderMin (.lit (.num 123) : Expr Nat))) = .ok (.lit (.num 23)) :=
  rfl

end tests

end Slac.C01
