/-
  C14 — functions registered as pure are deterministic functions of their arguments.
  PARTIAL by nature: "in a fresh process, with a differently seeded hasher" is an observation, not a theorem.
  What Lean contributes: (1) every pure builtin's model (SlacModel/Stdlib, StdOrder, Time, Regex) is a Lean
  function of its argument list — there is no state, clock or seed parameter to depend on — so determinism holds of
  the model by construction and the content is the model/code tie (`call` stream, each argument list evaluated
  repeatedly in-process and in separate processes); (2) exactly `random` and `choice` are registered impure
  (regenerated table); (3) folding a call at optimize time IS calling it; (4) `unique`, the one builtin that used a
  hasher, is first-occurrence deduplication by `==` and nothing else.
-/
import SlacProofs.Tables
import SlacModel.Optimizer
import SlacModel.Stdlib
set_option autoImplicit false
set_option linter.unusedSectionVars false
namespace Slac.C14
variable {N : Type} [NumOps N]

/-- Exactly the functions whose results legitimately vary (random, choice) are registered impure —
    checked on the table regenerated from the running crate. -/
theorem impure_exactly :
    (Generated.builtins.filter (fun r => !r.pure)).map (·.name) = [['r','a','n','d','o','m'], ['c','h','o','i','c','e']] :=
  Tables.impure_exactly

/-- literal argument lists -/
def lits (vs : List (Value N)) : List (Expr N) := vs.map .lit

theorem evalList_lits (env : Env N) (vs : List (Value N)) : evalList env (lits vs) = (.ok vs, []) := by
  induction vs with
  | nil => rfl
  | cons v vs ih =>
    have : evalList env (List.map Expr.lit vs) = (.ok vs, []) := ih
    simp only [lits, List.map_cons, evalList, evalT, this]; rfl

theorem allLit_lits (vs : List (Value N)) : Opt.allLit (lits vs) = true := by
  induction vs with
  | nil => rfl
  | cons v vs ih => simp_all [lits, Opt.allLit, Opt.isLit]

/-- Folding is calling: when `optimize` folds a call of a pure function with literal arguments, the literal it
    writes into the tree is exactly the answer of `env.call` on those argument values. -/
theorem folding_is_calling (env : Env N) (f : Str) (vs : List (Value N)) (v : Value N)
    (hp : env.fnExists f vs.length = .exist true) (hc : env.call f vs = .ok v) :
    (Opt.fold env (.call f (lits vs))).tree = .lit v := by
  have hl : (lits vs).length = vs.length := by simp [lits]
  simp only [Opt.fold, allLit_lits, hl, hp, if_true, Opt.exec, evalR, evalT, evalList_lits, hc]

/-- … and a call that fails is left in the tree (the optimizer reports the error, nothing is cached). -/
theorem folding_failure_keeps_call (env : Env N) (f : Str) (vs : List (Value N)) (e : NativeError)
    (hp : env.fnExists f vs.length = .exist true) (hc : env.call f vs = .error e) :
    (Opt.fold env (.call f (lits vs))).tree = .call f (lits vs) ∧ (Opt.fold env (.call f (lits vs))).err = some (.native f e) := by
  have hl : (lits vs).length = vs.length := by simp [lits]
  simp only [Opt.fold, allLit_lits, hl, hp, if_true, Opt.exec, evalR, evalT, evalList_lits, hc, and_self]

/-- a call of an impure function is never folded -/
theorem impure_not_folded (env : Env N) (f : Str) (vs : List (Value N)) (hp : env.fnExists f vs.length ≠ .exist true) :
    (Opt.fold env (.call f (lits vs))).tree = .call f (lits vs) ∧ (Opt.fold env (.call f (lits vs))).found = false := by
  have hl : (lits vs).length = vs.length := by simp [lits]
  simp only [Opt.fold, allLit_lits, hl]
  split <;> simp_all

section Unique
variable {M : Type} [NumX M]
/-- `unique` depends on its argument only through `==`: it keeps an element iff no earlier kept element equals it. -/
theorem unique_is_dedup (vs : List (Value M)) : Stdlib.unique [.arr vs] = .ok (.arr (Stdlib.dedup vs)) := rfl

theorem dedup_snoc (acc : List (Value M)) (v : Value M) :
    (acc ++ [v]).foldl (fun a x => if a.any (fun r => Value.eq r x) then a else a ++ [x]) [] =
      (let d := acc.foldl (fun a x => if a.any (fun r => Value.eq r x) then a else a ++ [x]) []
       if d.any (fun r => Value.eq r v) then d else d ++ [v]) := by
  simp [List.foldl_append]
end Unique

/-- Non-vacuity for `folding_is_calling`: a toy number type, an environment with one pure function. -/
instance toyNum : NumOps Nat := ⟨fun a _ => a, fun a _ => a, fun a _ => a, fun a _ => a, fun a _ => a, id, id,
  fun _ _ => some .eq, fun _ _ => true, 0, fun _ => 0, fun _ => none⟩
def toyEnv : Env Nat := ⟨fun _ => none, fun _ vs => .ok (.arr vs), fun _ => false, fun _ _ => .exist true⟩
example : (Opt.fold toyEnv (.call ['f'] (lits [.bool true]))).tree = .lit (.arr [.bool true]) :=
  folding_is_calling toyEnv ['f'] [.bool true] _ rfl rfl

end Slac.C14
