/-
  SlacProps.C09Source — the hand-written models of the parameter-dispatch builtins and of the index helpers ARE the functions that
  tools/rs2lean_stdlib.py translates from the current text of src/stdlib/mod.rs, src/stdlib/common.rs and src/value.rs
  (SlacModel/Generated/SrcStdlib.lean).  Every theorem is an equation for all arguments (and both string offsets).
  Used by C09 (totality of the index arithmetic), C10 (parameter-count arms), C13 (between / compare), C15 (at / length / all / any).
-/
import SlacModel.Stdlib
import SlacModel.StdOrder
import SlacModel.Generated.SrcStdlib
import SlacProps.C15
set_option autoImplicit false
set_option linter.unusedSectionVars false
namespace Slac.C09Source
open Slac Slac.Generated
variable {N : Type} [NumX N]

theorem valueLen_is_source (v : Value N) : Stdlib.valueLen v = SrcStdlib.value_len v := by
  cases v <;> rfl

theorem getIndex_is_source (x : N) : Stdlib.getIndex x = SrcStdlib.get_index x := rfl

theorem getStringIndex_is_source (off : Nat) (x : N) : Stdlib.getStringIndex off x = SrcStdlib.get_string_index off x := by
  unfold Stdlib.getStringIndex SrcStdlib.get_string_index
  rw [getIndex_is_source]
  cases SrcStdlib.get_index x with
  | error e => rfl
  | ok i => simp only [bind, Except.bind]; split <;> rfl

theorem defaultString_is_source (ps : List (Value N)) (i : Nat) (d : Str) : Stdlib.defaultString ps i d = SrcStdlib.default_string ps i d := by
  unfold Stdlib.defaultString SrcStdlib.default_string
  cases ps[i]? with
  | none => rfl
  | some v => cases v <;> rfl

theorem defaultNumber_is_source (ps : List (Value N)) (i : Nat) (d : N) : Stdlib.defaultNumber ps i d = SrcStdlib.default_number ps i d := by
  unfold Stdlib.defaultNumber SrcStdlib.default_number
  cases ps[i]? with
  | none => rfl
  | some v => cases v <;> rfl

theorem smartVec_is_source (ps : List (Value N)) : Stdlib.smartVec ps = SrcStdlib.smart_vec ps := by
  unfold Stdlib.smartVec SrcStdlib.smart_vec
  split <;> simp

theorem smartVec_order_is_source (ps : List (Value N)) : StdOrder.smartVec ps = SrcStdlib.smart_vec ps := by
  unfold StdOrder.smartVec SrcStdlib.smart_vec
  split <;> simp

theorem at_is_source (off : Nat) (ps : List (Value N)) : Stdlib.at_ off ps = SrcStdlib.at_ off ps := by
  rcases ps with _ | ⟨a, _ | ⟨b, _ | ⟨c, r⟩⟩⟩
  · rfl
  · cases a <;> rfl
  · cases a <;> cases b <;> simp only [Stdlib.at_, SrcStdlib.at_, getStringIndex_is_source, getIndex_is_source, bind, Except.bind]
    · rename_i s i; cases SrcStdlib.get_string_index off i <;> rfl
    · rename_i vs i; cases SrcStdlib.get_index i <;> rfl
  · cases a <;> cases b <;> rfl

theorem between_is_source (ps : List (Value N)) : StdOrder.between ps = SrcStdlib.between ps := by
  rcases ps with _ | ⟨a, _ | ⟨b, _ | ⟨c, _ | ⟨d, r⟩⟩⟩⟩ <;> rfl
theorem compare_is_source (ps : List (Value N)) : StdOrder.compare ps = SrcStdlib.compare ps := by
  rcases ps with _ | ⟨a, _ | ⟨b, _ | ⟨c, r⟩⟩⟩ <;> rfl
theorem bool_is_source (ps : List (Value N)) : Stdlib.bool ps = SrcStdlib.bool ps := by
  rcases ps with _ | ⟨a, _ | ⟨b, r⟩⟩ <;> rfl
theorem empty_is_source (ps : List (Value N)) : Stdlib.empty ps = SrcStdlib.empty ps := by
  rcases ps with _ | ⟨a, _ | ⟨b, r⟩⟩ <;> rfl
theorem length_is_source (ps : List (Value N)) : Stdlib.length ps = SrcStdlib.length ps := by
  rcases ps with _ | ⟨a, _ | ⟨b, r⟩⟩
  · rfl
  · simp only [Stdlib.length, SrcStdlib.length, valueLen_is_source]
  · rfl
theorem all_is_source (ps : List (Value N)) : Stdlib.all ps = SrcStdlib.all ps := by
  unfold Stdlib.all SrcStdlib.all; rw [smartVec_is_source]
theorem any_is_source (ps : List (Value N)) : Stdlib.any ps = SrcStdlib.any ps := by
  unfold Stdlib.any SrcStdlib.any; rw [smartVec_is_source]
theorem ifThen_is_source (ps : List (Value N)) : Stdlib.ifThen ps = SrcStdlib.if_then ps := by
  rcases ps with _ | ⟨a, _ | ⟨b, _ | ⟨c, r⟩⟩⟩
  · rfl
  · cases a <;> rfl
  · cases a <;> simp [Stdlib.ifThen, SrcStdlib.if_then]
  · cases a <;> simp [Stdlib.ifThen, SrcStdlib.if_then]

theorem max_is_source (ps : List (Value N)) : StdOrder.max ps = SrcStdlib.max ps := by
  unfold StdOrder.max SrcStdlib.max
  rw [smartVec_order_is_source]
  cases ps with
  | nil => rfl
  | cons a r => simp only [List.isEmpty_cons, Bool.false_eq_true, if_false]; cases StdOrder.maxV (SrcStdlib.smart_vec (a :: r)) <;> rfl
theorem min_is_source (ps : List (Value N)) : StdOrder.min ps = SrcStdlib.min ps := by
  unfold StdOrder.min SrcStdlib.min
  rw [smartVec_order_is_source]
  cases ps with
  | nil => rfl
  | cons a r => simp only [List.isEmpty_cons, Bool.false_eq_true, if_false]; cases StdOrder.minV (SrcStdlib.smart_vec (a :: r)) <;> rfl

theorem reverse_is_source (ps : List (Value N)) : Stdlib.reverse ps = SrcStdlib.reverse ps := by
  rcases ps with _ | ⟨a, _ | ⟨b, r⟩⟩
  · rfl
  · cases a <;> rfl
  · cases a <;> rfl
theorem float_is_source (ps : List (Value N)) : Stdlib.float ps = SrcStdlib.float ps := by
  rcases ps with _ | ⟨a, _ | ⟨b, r⟩⟩
  · rfl
  · cases a
    case str s => simp only [Stdlib.float, SrcStdlib.float, bind, Except.bind]; cases NumOps.parse (N := N) s <;> rfl
    all_goals rfl
  · cases a <;> rfl
theorem int_is_source (ps : List (Value N)) : Stdlib.int ps = SrcStdlib.int ps := by
  unfold Stdlib.int SrcStdlib.int
  rw [float_is_source]
  cases SrcStdlib.float ps with
  | error e => rfl
  | ok v => cases v <;> rfl

theorem isEven_is_source (x : N) : Stdlib.isEven x = SrcStdlib.is_even x := rfl
theorem even_is_source (ps : List (Value N)) : Stdlib.even ps = SrcStdlib.even ps := by
  rcases ps with _ | ⟨a, _ | ⟨b, r⟩⟩
  · rfl
  · cases a <;> rfl
  · cases a <;> rfl
theorem odd_is_source (ps : List (Value N)) : Stdlib.odd ps = SrcStdlib.odd ps := by
  rcases ps with _ | ⟨a, _ | ⟨b, r⟩⟩
  · rfl
  · cases a <;> rfl
  · cases a <;> rfl
/-- the ten wrappers `generate_std_math_functions!` generates (the translator performs the macro_rules substitution): each is `num1` of the registered
    `f64` method (Registry.builtin binds exactly these: `"abs" ↦ num1 NumX.abs`, …) -/
theorem num1_cases (f : N → N) (g : List (Value N) → Except NativeError (Value N))
    (h0 : g [] = .error (.wrongParameterCount 1)) (h1 : ∀ a, g [a] = match a with | .num x => .ok (.num (f x)) | _ => .error .wrongParameterType)
    (h2 : ∀ a b r, g (a :: b :: r) = .error (.wrongParameterCount 1)) (ps : List (Value N)) : Stdlib.num1 f ps = g ps := by
  rcases ps with _ | ⟨a, _ | ⟨b, r⟩⟩
  · rw [h0]; rfl
  · rw [h1]; cases a <;> rfl
  · rw [h2]; cases a <;> rfl
theorem abs_is_source (ps : List (Value N)) : Stdlib.num1 NumX.abs ps = SrcStdlib.abs ps :=
  num1_cases _ _ rfl (fun a => by cases a <;> rfl) (fun a b r => by cases a <;> rfl) ps
theorem arcTan_is_source (ps : List (Value N)) : Stdlib.num1 NumX.atan ps = SrcStdlib.arc_tan ps :=
  num1_cases _ _ rfl (fun a => by cases a <;> rfl) (fun a b r => by cases a <;> rfl) ps
theorem cos_is_source (ps : List (Value N)) : Stdlib.num1 NumX.cos ps = SrcStdlib.cos ps :=
  num1_cases _ _ rfl (fun a => by cases a <;> rfl) (fun a b r => by cases a <;> rfl) ps
theorem exp_is_source (ps : List (Value N)) : Stdlib.num1 NumX.exp ps = SrcStdlib.exp ps :=
  num1_cases _ _ rfl (fun a => by cases a <;> rfl) (fun a b r => by cases a <;> rfl) ps
theorem frac_is_source (ps : List (Value N)) : Stdlib.num1 NumX.fract ps = SrcStdlib.frac ps :=
  num1_cases _ _ rfl (fun a => by cases a <;> rfl) (fun a b r => by cases a <;> rfl) ps
theorem ln_is_source (ps : List (Value N)) : Stdlib.num1 NumX.ln ps = SrcStdlib.ln ps :=
  num1_cases _ _ rfl (fun a => by cases a <;> rfl) (fun a b r => by cases a <;> rfl) ps
theorem round_is_source (ps : List (Value N)) : Stdlib.num1 NumX.round ps = SrcStdlib.round ps :=
  num1_cases _ _ rfl (fun a => by cases a <;> rfl) (fun a b r => by cases a <;> rfl) ps
theorem sin_is_source (ps : List (Value N)) : Stdlib.num1 NumX.sin ps = SrcStdlib.sin ps :=
  num1_cases _ _ rfl (fun a => by cases a <;> rfl) (fun a b r => by cases a <;> rfl) ps
theorem sqrt_is_source (ps : List (Value N)) : Stdlib.num1 NumX.sqrt ps = SrcStdlib.sqrt ps :=
  num1_cases _ _ rfl (fun a => by cases a <;> rfl) (fun a b r => by cases a <;> rfl) ps
theorem trunc_is_source (ps : List (Value N)) : Stdlib.num1 NumOps.trunc ps = SrcStdlib.trunc ps :=
  num1_cases _ _ rfl (fun a => by cases a <;> rfl) (fun a b r => by cases a <;> rfl) ps
theorem intToHex_is_source (ps : List (Value N)) : Stdlib.intToHex ps = SrcStdlib.int_to_hex ps := by
  rcases ps with _ | ⟨a, _ | ⟨b, r⟩⟩
  · rfl
  · cases a <;> rfl
  · cases a <;> rfl
theorem pow_is_source (ps : List (Value N)) : Stdlib.pow ps = SrcStdlib.pow ps := by
  unfold Stdlib.pow SrcStdlib.pow
  rw [defaultNumber_is_source]
  cases SrcStdlib.default_number ps 1 (NumX.ofNat 2 : N) with
  | error e => rfl
  | ok ex =>
    rcases ps with _ | ⟨a, r⟩
    · rfl
    · cases a <;> rfl

theorem copy_is_source (off : Nat) (ps : List (Value N)) : Stdlib.copy off ps = SrcStdlib.copy off ps := by
  rcases ps with _ | ⟨a, _ | ⟨b, _ | ⟨c, _ | ⟨d, r⟩⟩⟩⟩
  · rfl
  · cases a <;> rfl
  · cases a <;> cases b <;> rfl
  · cases a <;> cases b <;> cases c <;>
      simp only [Stdlib.copy, SrcStdlib.copy, getStringIndex_is_source, getIndex_is_source, bind, Except.bind]
    · rename_i s i n; cases SrcStdlib.get_string_index off i <;> rfl
    · rename_i s i n; cases SrcStdlib.get_index i <;> rfl
  · cases a <;> cases b <;> cases c <;> rfl
theorem count_is_source (ps : List (Value N)) : Stdlib.count ps = SrcStdlib.count ps := by
  rcases ps with _ | ⟨a, _ | ⟨b, _ | ⟨c, r⟩⟩⟩
  · rfl
  · cases a <;> rfl
  · cases a <;> cases b <;> rfl
  · cases a <;> cases b <;> rfl
theorem find_is_source (off : Nat) (ps : List (Value N)) : Stdlib.find off ps = SrcStdlib.find off ps := by
  rcases ps with _ | ⟨a, _ | ⟨b, _ | ⟨c, r⟩⟩⟩
  · rfl
  · cases a <;> rfl
  · cases a <;> cases b <;> simp only [Stdlib.find, SrcStdlib.find] <;> (first | rfl | (split <;> simp_all))
  · cases a <;> cases b <;> rfl
theorem replace_is_source (ps : List (Value N)) : Stdlib.replace ps = SrcStdlib.replace ps := by
  rcases ps with _ | ⟨a, _ | ⟨b, r⟩⟩
  · rfl
  · cases a <;> rfl
  · cases a <;> cases b <;> simp only [Stdlib.replace, SrcStdlib.replace, Stdlib.replaceArr, defaultString_is_source, bind, Except.bind] <;>
      (first | rfl | (cases SrcStdlib.default_string (N := N) _ 2 [] <;> rfl))

theorem lowercase_is_source (cm : Stdlib.CaseMap) (ps : List (Value N)) : Stdlib.lowercase cm ps = SrcStdlib.lowercase cm ps := by
  rcases ps with _ | ⟨a, _ | ⟨b, r⟩⟩
  · rfl
  · cases a <;> rfl
  · cases a <;> rfl
theorem uppercase_is_source (cm : Stdlib.CaseMap) (ps : List (Value N)) : Stdlib.uppercase cm ps = SrcStdlib.uppercase cm ps := by
  rcases ps with _ | ⟨a, _ | ⟨b, r⟩⟩
  · rfl
  · cases a <;> rfl
  · cases a <;> rfl
theorem trim_is_source (ps : List (Value N)) : Stdlib.trim ps = SrcStdlib.trim ps := by
  rcases ps with _ | ⟨a, _ | ⟨b, r⟩⟩
  · rfl
  · cases a <;> rfl
  · cases a <;> rfl
theorem trimLeftF_is_source (ps : List (Value N)) : Stdlib.trimLeftF ps = SrcStdlib.trim_left ps := by
  rcases ps with _ | ⟨a, _ | ⟨b, r⟩⟩
  · rfl
  · cases a <;> rfl
  · cases a <;> rfl
theorem trimRightF_is_source (ps : List (Value N)) : Stdlib.trimRightF ps = SrcStdlib.trim_right ps := by
  rcases ps with _ | ⟨a, _ | ⟨b, r⟩⟩
  · rfl
  · cases a <;> rfl
  · cases a <;> rfl
theorem sameText_is_source (cm : Stdlib.CaseMap) (ps : List (Value N)) : Stdlib.sameText cm ps = SrcStdlib.same_text cm ps := by
  rcases ps with _ | ⟨a, _ | ⟨b, _ | ⟨c, r⟩⟩⟩
  · rfl
  · cases a <;> rfl
  · cases a <;> cases b <;> rfl
  · cases a <;> cases b <;> rfl

theorem contains_is_source (ps : List (Value N)) : Stdlib.contains ps = SrcStdlib.contains ps := by
  rcases ps with _ | ⟨a, _ | ⟨b, _ | ⟨c, r⟩⟩⟩
  · rfl
  · cases a <;> rfl
  · cases a <;> cases b <;> rfl
  · cases a <;> cases b <;> rfl
theorem insert_is_source (off : Nat) (ps : List (Value N)) : Stdlib.insert off ps = SrcStdlib.insert off ps := by
  rcases ps with _ | ⟨a, _ | ⟨b, _ | ⟨c, _ | ⟨d, r⟩⟩⟩⟩
  · rfl
  · cases a <;> rfl
  · cases a <;> cases b <;> rfl
  · cases a <;> cases b <;> cases c <;>
      simp only [Stdlib.insert, SrcStdlib.insert, getStringIndex_is_source, getIndex_is_source, bind, Except.bind]
    all_goals first
      | rfl
      | (split <;> simp_all [List.append_assoc])
  · cases a <;> cases b <;> cases c <;> rfl
theorem unique_is_source (ps : List (Value N)) : Stdlib.unique ps = SrcStdlib.unique ps := by
  rcases ps with _ | ⟨a, _ | ⟨b, r⟩⟩
  · rfl
  · cases a
    case arr vs =>
      have hf : (fun (acc : List (Value N)) (v : Value N) => if acc.any (fun r => Value.eq r v) then acc else acc ++ [v]) =
          (fun result value => if !(List.any result (fun r => Value.eq r value)) then result ++ [value] else result) := by
        funext acc v; cases acc.any (fun r => Value.eq r v) <;> rfl
      simp only [Stdlib.unique, SrcStdlib.unique, Stdlib.dedup, hf]
    all_goals rfl
  · cases a <;> rfl
theorem split_is_source (ps : List (Value N)) : Stdlib.split ps = SrcStdlib.split ps := by
  rcases ps with _ | ⟨a, _ | ⟨b, _ | ⟨c, r⟩⟩⟩
  · rfl
  · cases a <;> rfl
  · cases a <;> cases b <;> rfl
  · cases a <;> cases b <;> rfl

theorem sort_is_source (ps : List (Value N)) : StdOrder.sort ps = SrcStdlib.sort ps := by
  rcases ps with _ | ⟨a, _ | ⟨b, r⟩⟩
  · rfl
  · cases a <;> rfl
  · cases a <;> rfl
theorem chr_is_source (ps : List (Value N)) : Stdlib.chr ps = SrcStdlib.chr ps := by
  rcases ps with _ | ⟨a, _ | ⟨b, r⟩⟩
  · rfl
  · cases a
    case num o => simp only [Stdlib.chr, SrcStdlib.chr]; split <;> rfl
    all_goals rfl
  · cases a <;> rfl
theorem ord_is_source (ps : List (Value N)) : Stdlib.ord ps = SrcStdlib.ord ps := by
  rcases ps with _ | ⟨a, _ | ⟨b, r⟩⟩
  · rfl
  · cases a
    case str s =>
      rcases s with _ | ⟨c, _ | ⟨d, t⟩⟩
      · rfl
      · simp only [Stdlib.ord, SrcStdlib.ord, List.length_singleton, beq_self_eq_true, if_true, List.all_cons, List.all_nil, Bool.and_true, List.head?_cons, Option.getD_some]
        by_cases hc : c.toNat < 128
        · simp [hc, Nat.mod_eq_of_lt (show c.toNat < 256 by omega)]
        · simp [hc]; rfl
      · simp [Stdlib.ord, SrcStdlib.ord]; rfl
    all_goals rfl
  · cases a
    case str s => rcases s with _ | ⟨c, _ | ⟨d, t⟩⟩ <;> rfl
    all_goals rfl

/-! ### the position-coherence theorems of C15, restated about the functions translated from the source -/
section capstone
variable [LawfulIdx N] (off : Nat)

/-- `at(s, first + i)` of the SOURCE function enumerates the characters of `s` -/
theorem at_enumerates_source (s : Str) (hs : off + s.length < 2^53) (i : Nat) (hi : i < s.length) :
    SrcStdlib.at_ off [.str s, .num (NumX.ofNat (off + i) : N)] = .ok (.str [s[i]]) := by
  rw [← at_is_source]; exact C15.at_enumerates off s hs i hi

/-- `copy(s, find(s, x), length(x)) = x` for the SOURCE functions, for every substring `x` of every string `s` -/
theorem copy_find_source (s x : Str) (hs : off + s.length < 2^53) (h : x <:+: s) :
    ∃ p l : N, SrcStdlib.find off [.str s, .str x] = .ok (.num p) ∧ SrcStdlib.length [.str x] = .ok (.num l) ∧
      SrcStdlib.copy off [.str s, .num p, .num l] = .ok (.str x) := by
  simp only [← find_is_source, ← length_is_source, ← copy_is_source]; exact C15.copy_find off s x hs h
end capstone

end Slac.C09Source
