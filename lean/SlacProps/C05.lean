/-
  C05 — `optimize` preserves meaning.
  (A) For trees without a three-argument `if_then` call the optimized tree — or the partially rewritten tree a
      failed `optimize` leaves behind — yields the identical result, value or error, under every variable
      binding (defined or not) of an environment with the same functions.
  (B) For every tree whose variables resolve, if executing the original yields a value then executing the
      optimized (or partially rewritten) tree yields the identical value, provided `if_then`, where bound,
      is the standard function.
  Model: SlacModel/Optimizer.lean.  Environment functions are Lean functions, hence independent of call
  history — the property's "impure functions whose result does not depend on call history".
-/
import SlacProofs.OptRefine
import SlacProofs.OptStable
import SlacProofs.OptExample
set_option autoImplicit false
set_option linter.unusedSectionVars false
namespace Slac.C05
open Slac.Opt
variable {N : Type} [NumOps N]

/-- 6. One `fold_constants` pass — completed or aborted by an error (`(fold env e).tree` is then the partially
    rewritten tree) — never changes what the tree evaluates to, value or error, under any environment `env'`
    with the same functions and arbitrary variable bindings. -/
theorem fold_preserves (env env' : Env N) (hcall : ∀ f vs, env'.call f vs = env.call f vs) (e : Expr N) :
    evalR env' (fold env e).tree = evalR env' e :=
  Slac.Opt.fold_preserves env env' hcall e

/-- 7. Trees without a three-argument `if_then` call: the tree the caller holds after `optimize` — returned
    `Ok` or `Err` — yields the identical result, value or error, under every variable binding. -/
theorem optimize_preserves_noIf3 (env env' : Env N) (hcall : ∀ f vs, env'.call f vs = env.call f vs) :
    ∀ (fuel : Nat) (e e' : Expr N), if3 e = 0 → (optimize env fuel e).tree? = some e' →
      evalR env' e' = evalR env' e := by
  intro fuel
  induction fuel with
  | zero => intro e e' _ h; simp only [optimize, OptRes.tree?] at h; cases h
  | succ fuel ih =>
    intro e e' h3 h
    have hp := fold_preserves env env' hcall e
    simp only [optimize, transform_eq_self e h3] at h
    split at h
    · simp only [OptRes.tree?, Option.some.injEq] at h; subst h; exact hp
    · split at h
      · rw [ih _ _ (by have := if3_fold env e; omega) h]; exact hp
      · simp only [OptRes.tree?, Option.some.injEq] at h; subst h; exact hp

/-- with enough fuel there is such a tree -/
theorem optimize_tree_some (env : Env N) (fuel : Nat) (e : Expr N) (h : mu e < fuel) :
    ∃ e', (optimize env fuel e).tree? = some e' := by
  have := Slac.Opt.optimize_terminates env fuel e h
  cases ho : optimize env fuel e with
  | ok t => exact ⟨t, rfl⟩
  | err t er => exact ⟨t, rfl⟩
  | outOfFuel => exact absurd ho this

/-- 8a. `transform_ternary` on a tree whose variables are bound, `if_then` being the standard function:
    a value stays the same value.  (`env.var n ≠ none` for every variable is all that is used of `Resolved`.) -/
theorem transform_refines_varsBound (env : Env N) (e : Expr N) (hr : VarsBound env e) (hi : IfThenStd env)
    (v : Value N) : evalR env e = .ok v → evalR env (transform e) = .ok v :=
  transform_le env hi e hr v

theorem transform_refines (env : Env N) (e : Expr N) (hr : Resolved env e) (hi : IfThenStd env)
    (v : Value N) : evalR env e = .ok v → evalR env (transform e) = .ok v :=
  transform_refines_varsBound env e hr.1 hi v

/-- 8b, general form: optimize under `env`, execute under any `env'` with the same functions in which the
    variables of the tree are bound. -/
theorem optimize_preserves_value_gen (env env' : Env N) (hcall : ∀ f vs, env'.call f vs = env.call f vs)
    (hi : IfThenStd env') (v : Value N) :
    ∀ (fuel : Nat) (e e' : Expr N), VarsBound env' e → evalR env' e = .ok v →
      (optimize env fuel e).tree? = some e' → evalR env' e' = .ok v := by
  intro fuel
  induction fuel with
  | zero => intro e e' _ _ h; simp only [optimize, OptRes.tree?] at h; cases h
  | succ fuel ih =>
    intro e e' hb hv h
    have ht : evalR env' (transform e) = .ok v := transform_le env' hi e hb v hv
    have hp : evalR env' (fold env (transform e)).tree = .ok v := by
      rw [fold_preserves env env' hcall]; exact ht
    have hb' : VarsBound env' (fold env (transform e)).tree :=
      varsBound_fold env env' _ (varsBound_transform env' e hb)
    simp only [optimize] at h
    split at h
    · simp only [OptRes.tree?, Option.some.injEq] at h; subst h; exact hp
    · split at h
      · exact ih _ _ hb' hp h
      · simp only [OptRes.tree?, Option.some.injEq] at h; subst h; exact hp

/-- 8b. For every tree whose variables and functions resolve in the environment, if executing the original
    yields a value then executing the tree the caller holds after `optimize` — the optimized tree, or the
    partially rewritten tree left behind when `optimize` reports an error — yields the identical value. -/
theorem optimize_preserves_value (env : Env N) (fuel : Nat) (e e' : Expr N) (hr : Resolved env e)
    (hi : IfThenStd env) (v : Value N) (hv : evalR env e = .ok v)
    (h : (optimize env fuel e).tree? = some e') : evalR env e' = .ok v :=
  optimize_preserves_value_gen env env (fun _ _ => rfl) hi v fuel e e' hr.1 hv h

/-- the same with the fuel the driver uses: a tree exists and has the value -/
theorem optimize_preserves_value' (env : Env N) (e : Expr N) (hr : Resolved env e)
    (hi : IfThenStd env) (v : Value N) (hv : evalR env e = .ok v) :
    ∃ e', (optimize env (mu e + 1) e).tree? = some e' ∧ evalR env e' = .ok v := by
  obtain ⟨e', h⟩ := optimize_tree_some env (mu e + 1) e (Nat.lt_succ_self _)
  exact ⟨e', h, optimize_preserves_value env _ e e' hr hi v hv h⟩

/-! ### non-vacuity: the theorems instantiated on concrete trees -/
section Examples
open Slac.Opt.Ex
attribute [local instance] intOps

theorem call_found (f : Str) (hf : f = ifThenName ∨ f = maxName ∨ f = rndName) (vs : List (Value Int)) (n : Str) :
    Ex.call f vs ≠ .error (.functionNotFound n) := by
  rcases hf with rfl | rfl | rfl
  · intro h; simp only [Ex.call, if_true] at h
    split at h
    · rename_i c a b; cases c <;> simp only [ifThen3] at h
      · rename_i bb; cases bb <;> simp only at h <;> cases h
      all_goals cases h
    all_goals cases h
  · intro h; simp only [Ex.call, show maxName ≠ ifThenName by decide, if_false, if_true] at h
    split at h <;> cases h
  · intro h; simp only [Ex.call, show rndName ≠ ifThenName by decide, show rndName ≠ maxName by decide,
      if_false, if_true] at h
    cases h

theorem ifThenStd_env : IfThenStd Ex.env := ifThenStd_of_eq Ex.env (fun _ _ _ => rfl)

/-- `x + if_then(max(1,2) > 1, rnd(), 0 - 1)` resolves in `env` (`x = 5`; `if_then`, `max`, `rnd` registered) -/
theorem resolved_t1 : Resolved Ex.env t1 := by
  refine ⟨?_, ?_⟩
  · simp only [t1, VarsBound, VarsBoundL, and_true]
    decide
  · simp only [t1, FnsResolved, FnsResolvedL, and_true, true_and]
    refine ⟨⟨true, by decide⟩, fun vs n _ => call_found _ (.inl rfl) vs n, ⟨⟨true, by decide⟩, fun vs n _ => call_found _ (.inr (.inl rfl)) vs n⟩,
      ⟨false, by decide⟩, fun vs n _ => call_found _ (.inr (.inr rfl)) vs n⟩

/-- it yields `5 + 4 = 9`, before and after optimization (the optimized tree is `x + rnd()`) -/
example : evalR Ex.env t1 = .ok (.num 9) := by rfl
example : (optimize Ex.env 9 t1).tree? = some (.binary (.var x) (.call rndName []) .plus) := by rfl
example : evalR Ex.env (.binary (.var x) (.call rndName []) .plus) = .ok (.num 9) :=
  optimize_preserves_value Ex.env 9 t1 _ resolved_t1 ifThenStd_env _ (by rfl) (by rfl)
example : evalR Ex.env (transform t1) = .ok (.num 9) :=
  transform_refines Ex.env t1 resolved_t1 ifThenStd_env _ (by rfl)

/-- a failing pass: `[1 + 2, y, -true]` is left as `[3, y, -true]`; under `env'` (`y = 7`) both fail with
    `InvalidUnary(-)`, under `env` (`y` unbound) both fail with `UndefinedVariable(y)` -/
example : (fold Ex.env t2).err = some (.invalidUnary .minus) := by rfl
example : evalR Ex.env' (fold Ex.env t2).tree = evalR Ex.env' t2 := fold_preserves Ex.env Ex.env' (fun _ _ => rfl) t2
example : evalR Ex.env' t2 = .error (.invalidUnary .minus) := by rfl
example : evalR Ex.env t2 = .error (.undefinedVariable y) := by rfl
example : (optimize Ex.env 9 t2).tree? = some (.array [.lit (.num 3), .var y, .unary (.lit (.bool true)) .minus]) := by rfl
example : evalR Ex.env (.array [.lit (.num 3), .var y, .unary (.lit (.bool true)) .minus]) = evalR Ex.env t2 :=
  optimize_preserves_noIf3 Ex.env Ex.env (fun _ _ => rfl) 9 t2 _ (by rfl) (by rfl)

/-- `(y = 0) or (1 < max(2, 3) ? [] : rnd())` optimizes to `(y = 0) or []`; with `y` unbound (`env`) and with
    `y = 7` (`env'`) the results agree -/
example : (optimize Ex.env 9 t3).tree? = some (.binary (.binary (.var y) (.lit (.num 0)) .equal) (.lit (.arr [])) .or) := by rfl
example : evalR Ex.env' (.binary (.binary (.var y) (.lit (.num 0)) .equal) (.lit (.arr [])) .or) = evalR Ex.env' t3 :=
  optimize_preserves_noIf3 Ex.env Ex.env' (fun _ _ => rfl) 9 t3 _ (by rfl) (by rfl)

/-- The hypothesis `Resolved` is necessary: with `y` unbound, `0 = if_then(true, 1, y)` is `true` before
    (the eager call propagates `UndefinedVariable`, which `=` reads as empty) and `false` after. -/
def t4 : Expr Int :=
  .binary (.lit (.num 0)) (.call ifThenName [.lit (.bool true), .lit (.num 1), .var y]) .equal
example : evalR Ex.env t4 = .ok (.bool true) := by rfl
example : optimize Ex.env 9 t4 = .ok (.lit (.bool false)) := by rfl

end Examples

end Slac.C05
