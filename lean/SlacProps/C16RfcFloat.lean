/-
  C16Rfc for the driver's number type — the through-numbers theorems of SlacProps.C16Rfc at `N = Float` (IEEE binary64)
  with NO hypothesis about numbers (`instance : LawfulTimeNum Float` is proved in SlacProofs.F64Time).
  Every theorem here is the generic theorem of the same name (without `_float`).
-/
import SlacProps.C16Rfc
import SlacProofs.F64Time
set_option autoImplicit false
namespace Slac.C16
open Slac.Time Slac.TimeRfc Slac.Stdlib

/-- ROUND TRIP on binary64: `date_from_rfc3339 (date_to_rfc3339 x) = x`, bit for bit, for every date-time number
    `x = total_ms / 86400000` exact to the millisecond in years 0–9999 -/
theorem rfc3339_roundtrip_float (t : DT) (h : Rfc t) (txt : Str)
    (hp : dateToRfc3339 [(encode t : Value Float)] = .ok (.str txt)) :
    dateFromRfc3339 [(.str txt : Value Float)] = some (.ok (encode t)) := rfc3339_roundtrip t h txt hp

theorem rfc2822_roundtrip_float (t : DT) (h : Rfc t) (hs : t.ms % 1000 = 0) (txt : Str)
    (hp : dateToRfc2822 [(encode t : Value Float)] = .ok (.str txt)) :
    dateFromRfc2822 [(.str txt : Value Float)] = some (.ok (encode t)) := rfc2822_roundtrip t h hs txt hp

theorem rfc2822_roundtrip_truncates_float (t : DT) (h : Rfc t) (txt : Str)
    (hp : dateToRfc2822 [(encode t : Value Float)] = .ok (.str txt)) :
    dateFromRfc2822 [(.str txt : Value Float)] = some (.ok (encode ⟨t.days, t.ms / 1000 * 1000⟩)) :=
  rfc2822_roundtrip_truncates t h txt hp

theorem dateToRfc3339_encode_float (t : DT) (h : t.Enc) :
    dateToRfc3339 [(encode t : Value Float)] = .ok (.str (rfc3339 t)) := dateToRfc3339_encode t h

theorem dateToRfc2822_encode_float (t : DT) (h : t.Enc) (hy : 0 ≤ t.year ∧ t.year ≤ 9999) :
    dateToRfc2822 [(encode t : Value Float)] = .ok (.str (rfc2822 t)) := dateToRfc2822_encode t h hy

section
variable {y : Int} {m d h mi s ml : Nat}

theorem spec_components_float (st : Stamp y m d h mi s ml) :
    let x : Value Float := encode (stampDT y m d h mi s ml)
    (dateToString [.str ['%', 'Y'], x] = some (.ok (.str (pad 4 y.toNat))) ∧ year [x] = .ok (.num (NumX.ofInt y))) ∧
    (dateToString [.str ['%', 'm'], x] = some (.ok (.str (pad 2 m))) ∧ month [x] = .ok (.num (NumX.ofNat m))) ∧
    (dateToString [.str ['%', 'd'], x] = some (.ok (.str (pad 2 d))) ∧ day [x] = .ok (.num (NumX.ofNat d))) ∧
    (dateToString [.str ['%', 'H'], x] = some (.ok (.str (pad 2 h))) ∧ hour [x] = .ok (.num (NumX.ofNat h))) ∧
    (dateToString [.str ['%', 'M'], x] = some (.ok (.str (pad 2 mi))) ∧ minute [x] = .ok (.num (NumX.ofNat mi))) ∧
    (dateToString [.str ['%', 'S'], x] = some (.ok (.str (pad 2 s))) ∧ second [x] = .ok (.num (NumX.ofNat s))) ∧
    (dateToString [.str ['%', '3', 'f'], x] = some (.ok (.str (pad 3 ml))) ∧
      millisecond [x] = .ok (.num (NumX.ofNat ml))) := spec_components st

theorem dateToString_invalid_format_float (st : Stamp y m d h mi s ml) (fmt : Str)
    (hf : (items fmt).any Item.failsNaive = true) :
    dateToString [.str fmt, (encode (stampDT y m d h mi s ml) : Value Float)] =
      some (.error (custom "invalid format string")) := dateToString_invalid_format st fmt hf
end

/-! ### non-vacuity on binary64 -/
example : dateFromRfc3339 [(.str (rfc3339 ⟨daysFromCivil 2024 2 29, 86399999⟩) : Value Float)] =
    some (.ok (encode ⟨daysFromCivil 2024 2 29, 86399999⟩)) :=
  dateFromRfc3339_rfc3339 _ ⟨by decide, by decide, by decide⟩
example : dateToRfc3339 [(encode ⟨daysFromCivil 9999 12 31, 86399999⟩ : Value Float)] =
    .ok (.str (rfc3339 ⟨daysFromCivil 9999 12 31, 86399999⟩)) :=
  dateToRfc3339_encode_float _ (Rfc.enc ⟨by decide, by decide, by decide⟩)

end Slac.C16
