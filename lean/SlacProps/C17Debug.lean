/-
  C17 (addendum) — `str` of arrays: `Display for Value` prints an array with Rust's `Debug` (`{v:?}`).
  Model: SlacModel.DebugFmt (`strOfValue`, `debugValue`, `debugList`, `debugF64`, `debugStr`); helper lemmas
  SlacProofs.DebugFmt; kernel-evaluated tests SlacProofs.DebugFmtTests.

  What is proved here is structural and cheap; that the model prints what rustc prints is established by the
  correspondence stream (and by the tests), not by these theorems:
  1. the extension is conservative: on non-arrays `strOfValue` is `Stdlib.valueToString`, and the total `DebugFmt.strF`
     agrees with the partial `Registry.strF` wherever the latter answers; arity arm.
  2. shape of the `Debug` text: variant names, `String("…")` is quoted, `[]` for the empty array, an array is the
     elements' texts joined with `, ` between brackets (for every number printer).
  3. numbers: `Debug for f64` prints the same digits as `Display for f64`; outside the exponent range it is the
     `Display` text with `.0` appended when there is no fraction; NaN/inf coincide.
  4. control characters (C0, DEL, C1, NBSP) never reach the output unescaped.
-/
import SlacModel.Registry
import SlacProofs.DebugFmt
import SlacProofs.DebugFmtTests
set_option autoImplicit false
namespace Slac.C17
open Stdlib DebugFmt

/-! ## 1. conservative extension of the `str` model -/

/-- on Booleans, Strings and Numbers the new `Display for Value` is the old one -/
theorem str_array_conservative (v : Value Float) (h : ∀ xs, v ≠ .arr xs) :
    valueToString v = some (strOfValue v) := by
  cases v with
  | bool b => cases b <;> rfl
  | str s => rfl
  | num x => rfl
  | arr xs => exact absurd rfl (h xs)

/-- wherever `valueToString` answers, `strOfValue` gives the same text -/
theorem str_array_agrees (v : Value Float) (s : Str) (h : valueToString v = some s) : strOfValue v = s := by
  cases v with
  | bool b => cases b <;> (cases h; rfl)
  | str t => cases h; rfl
  | num x => cases h; rfl
  | arr xs => cases h

/-- the only case the old model left open is the array, and there the answer is the `Debug` text of the vector -/
theorem str_array_def (xs : List (Value Float)) :
    valueToString (.arr xs : Value Float) = none ∧ strOfValue (.arr xs) = debugList xs := ⟨rfl, rfl⟩

/-- the total builtin agrees with the registry's partial `str` wherever that one answers -/
theorem strF_extends (ps : List (Value Float)) (r : Res Float) (h : Registry.strF ps = some r) :
    DebugFmt.strF ps = r := by
  match ps, h with
  | [], h => injection h
  | [v], h =>
    simp only [Registry.strF, Option.map_eq_some_iff] at h
    obtain ⟨s, hs, rfl⟩ := h
    simp only [DebugFmt.strF, strFWith, ← str_array_agrees v s hs]; rfl
  | _ :: _ :: _, h => injection h

theorem strF_one (v : Value Float) : DebugFmt.strF [v] = .ok (.str (strOfValue v)) := rfl
theorem strF_wrong_count (ps : List (Value Float)) (h : ps.length ≠ 1) :
    DebugFmt.strF ps = .error (.wrongParameterCount 1) := by
  match ps, h with
  | [], _ => rfl
  | [_], h => exact absurd rfl h
  | _ :: _ :: _, _ => rfl

/-- non-vacuity: a number (old and new model answer), an array (only the new one answers) -/
example : valueToString (.num 1.5 : Value Float) = some (strOfValue (.num 1.5)) :=
  str_array_conservative _ (fun _ h => by cases h)
example : strOfValue (.arr [.num 1.5, .str ['a']]) = "[Number(1.5), String(\"a\")]".toList := by decide +kernel
example : DebugFmt.strF [.bool true, .bool true] = .error (.wrongParameterCount 1) :=
  strF_wrong_count _ (by decide)

/-! ## 2. shape of the `Debug` text (any number printer `dn`) -/
section Shape
variable {N : Type} (dn : N → Str)

theorem debug_bool (b : Bool) :
    debugValueWith dn (.bool b) = "Boolean(".toList ++ (if b then "true".toList else "false".toList) ++ [')'] := by
  cases b <;> rfl
theorem debug_str (s : Str) : debugValueWith dn (.str s) = "String(".toList ++ debugStr s ++ [')'] := rfl
theorem debug_num (x : N) : debugValueWith dn (.num x) = "Number(".toList ++ dn x ++ [')'] := rfl
theorem debug_arr (xs : List (Value N)) :
    debugValueWith dn (.arr xs) = "Array(".toList ++ debugListWith dn xs ++ [')'] := by
  simp only [debugValueWith]; rfl

/-- a string literal is always delimited by double quotes -/
theorem debug_str_quoted (s : Str) : ∃ mid, debugStr s = '"' :: (mid ++ ['"']) := ⟨_, rfl⟩
theorem debug_str_head (s : Str) : (debugStr s).head? = some '"' := rfl
theorem debug_str_last (s : Str) : (debugStr s).getLast? = some '"' := by
  unfold debugStr
  rw [← List.cons_append]; exact List.getLast?_concat ..

/-- characters that need no escape are copied: the text of a plain ASCII word is the word in quotes -/
theorem debug_str_plain (s : Str) (h : ∀ c ∈ s, escapeChar c = [c]) : debugStr s = '"' :: (s ++ ['"']) := by
  unfold debugStr
  congr 2
  induction s with
  | nil => rfl
  | cons c r ih =>
    simp only [List.flatMap_cons, h c (List.mem_cons_self ..)]
    rw [ih (fun d hd => h d (List.mem_cons_of_mem _ hd))]; rfl

theorem debug_list_nil : debugListWith dn ([] : List (Value N)) = ['[', ']'] := by
  simp only [debugListWith]
theorem debugList_nil : debugList [] = "[]".toList := by
  simp only [debugList, debugListWith]; rfl

/-- `Debug for Vec<Value>`: the elements' texts, joined with `, `, between `[` and `]` -/
theorem debug_list_joined (xs : List (Value N)) :
    debugListWith dn xs = '[' :: (List.intercalate [',', ' '] (xs.map (debugValueWith dn)) ++ [']']) :=
  debugListWith_eq dn xs

theorem debug_list_head (xs : List (Value N)) : (debugListWith dn xs).head? = some '[' := by
  rw [debug_list_joined]; rfl
theorem debug_list_last (xs : List (Value N)) : (debugListWith dn xs).getLast? = some ']' := by
  rw [debug_list_joined]
  rw [← List.cons_append]; exact List.getLast?_concat ..

/-- one element: no separator -/
theorem debug_list_singleton (v : Value N) : debugListWith dn [v] = '[' :: (debugValueWith dn v ++ [']']) := by
  simp [debugListWith, debugTailWith]

end Shape

/-- non-vacuity for the shape theorems -/
example : debugStr "it's".toList = '"' :: ("it's".toList ++ ['"']) :=
  debug_str_plain _ (by decide +kernel)
example : debugList [.num 1, .arr [], .bool false] = "[Number(1.0), Array([]), Boolean(false)]".toList := by decide +kernel
example : List.intercalate [',', ' '] ([.num 1, .bool false].map debugValue) = "Number(1.0), Boolean(false)".toList := by
  decide +kernel

/-! ## 3. numbers: `Debug` and `Display` of f64 -/

/-- `Display for f64` is the digit search `shortestDigits` printed plainly: `Debug` (which prints `shortestDigits`
    with a forced fraction or an exponent) therefore shows the same significant digits -/
theorem debug_same_digits (x : Float) : F64.display x = displayViaDigits x := display_eq x

/-- outside the exponent range (`1e-4 ≤ |x| < 1e16` or `x = ±0`) the `Debug` text is the `Display` text, with `.0`
    appended exactly when `Display` printed an integer -/
theorem debug_number_plain (x : Float) (hn : F64.isNaN x = false) (hi : F64.isInf x = false) (he : useExp x = false) :
    debugF64 x = if '.' ∈ F64.display x then F64.display x else F64.display x ++ ['.', '0'] :=
  debugF64_plain x hn hi he

/-- NaN and the infinities print the same in both -/
theorem debug_number_nonfinite (x : Float) (h : F64.isNaN x = true ∨ F64.isInf x = true) : debugF64 x = F64.display x := by
  by_cases hn : F64.isNaN x = true
  · exact debugF64_nan x hn
  · rcases h with h | h
    · exact absurd h hn
    · exact debugF64_inf x (by simpa using hn) h

/-- consequently `float(…)` reads the plain-range `Debug` text of a number back to the number's `Display` text
    plus at most a trailing `.0` — stated on texts only; see `C17.float_str` for the parsing side -/
example : debugF64 1 = F64.display 1 ++ ['.', '0'] := by
  have := debug_number_plain 1 (by decide +kernel) (by decide +kernel) (by decide +kernel)
  rw [this]; decide +kernel
example : debugF64 1.5 = F64.display 1.5 := by
  have := debug_number_plain 1.5 (by decide +kernel) (by decide +kernel) (by decide +kernel)
  rw [this]; decide +kernel
/-- the hypothesis `useExp x = false` is needed: 1e16 prints differently -/
example : useExp 1e16 = true ∧ debugF64 1e16 = "1e16".toList ∧ F64.display 1e16 = "10000000000000000".toList := by
  decide +kernel
example : debugF64 (0.0 / 0.0) = F64.display (0.0 / 0.0) := debug_number_nonfinite _ (Or.inl (by decide +kernel))

/-! ## 4. control characters are always escaped -/

/-- every character with code point 0–31 or 127–160 is written using printable ASCII only, so the `Debug` text of a
    string has no raw control character from those blocks (kernel-evaluated over the 66 code points) -/
theorem debug_str_control (c : Char) (h : c.toNat < 32 ∨ (127 ≤ c.toNat ∧ c.toNat ≤ 160)) :
    (escapeChar c).all printableAscii = true := by
  have hc : Char.ofNat c.toNat = c := by simp
  have hlt : c.toNat < 161 := by omega
  have := escapeChar_control ⟨c.toNat, hlt⟩ (by simp only; omega)
  simpa only [hc] using this

example : escapeChar '\n' = ['\\', 'n'] ∧ (escapeChar '\n').all printableAscii = true :=
  ⟨by decide, debug_str_control _ (Or.inl (by decide))⟩

end Slac.C17
