/-
  C06 — `optimize` always terminates; while running it never calls an impure function and never reads a
  variable (it only calls pure functions, with literal arguments); its result is a fixpoint that contains no
  constant-foldable node and has no more nodes than its input.
  Model: SlacModel/Optimizer.lean (`transform`, `fold`, `optimize`, `optimizeT`, measure `mu`).
-/
import SlacProofs.OptStable
import SlacProofs.OptTrace
import SlacProofs.OptExample
set_option autoImplicit false
set_option linter.unusedSectionVars false
namespace Slac.C06
open Slac.Opt
variable {N : Type} [NumOps N]

/-- 1. Termination: the loop of `optimize` makes at most `mu e + 1` rounds, whatever the environment. -/
theorem optimize_terminates (env : Env N) (fuel : Nat) (e : Expr N) (h : mu e < fuel) :
    optimize env fuel e ≠ .outOfFuel :=
  Slac.Opt.optimize_terminates env fuel e h

/-- `optimizeT` is `optimize` plus the trace. -/
theorem optimizeT_fst (env : Env N) (fuel : Nat) (e : Expr N) : (optimizeT env fuel e).1 = optimize env fuel e := rfl

/-- 2. Purity: every environment event of an `optimize` run is a call `f(vs)` of a function that
    `function_exists` reports as pure for that number of arguments; in particular there is no `lookup`
    event and no call of an impure function. -/
theorem optimize_pure (env : Env N) (fuel : Nat) (e : Expr N) :
    ∀ ev ∈ (optimizeT env fuel e).2, ∃ f vs, ev = .call f vs ∧ env.fnExists f vs.length = .exist true :=
  optimizeTrace_pure env fuel e

theorem optimize_no_lookup (env : Env N) (fuel : Nat) (e : Expr N) (n : Str) :
    Event.lookup n ∉ (optimizeT env fuel e).2 := by
  intro h
  obtain ⟨f, vs, h1, _⟩ := optimize_pure env fuel e _ h
  cases h1

theorem optimize_no_impure_call (env : Env N) (fuel : Nat) (e : Expr N) (f : Str) (vs : List (Value N))
    (himpure : env.fnExists f vs.length ≠ .exist true) : Event.call f vs ∉ (optimizeT env fuel e).2 := by
  intro h
  obtain ⟨f', vs', h1, h2⟩ := optimize_pure env fuel e _ h
  cases h1; exact himpure h2

/-- a tree on which one more round does nothing: no three-argument `if_then` call and `fold` finds nothing -/
def Stable (env : Env N) (e : Expr N) : Prop := if3 e = 0 ∧ (fold env e).found = false

/-- the last round of a successful run found nothing and left the tree as it was -/
theorem optimize_ok_stable (env : Env N) : ∀ (fuel : Nat) (e e' : Expr N),
    optimize env fuel e = .ok e' → Stable env e' := by
  intro fuel
  induction fuel with
  | zero => intro e e' h; simp only [optimize] at h; cases h
  | succ fuel ih =>
    intro e e' h
    simp only [optimize] at h
    split at h
    · cases h
    · split at h
      · exact ih _ _ h
      · rename_i hc
        simp only [transformFound, Bool.or_eq_true, decide_eq_true_eq, not_or, Nat.not_lt, Nat.le_zero,
          Bool.not_eq_true] at hc
        rw [transform_eq_self e hc.1] at hc h
        obtain ⟨h1, _, _⟩ := fold_stable env e hc.1 hc.2
        rw [h1] at h; cases h
        exact ⟨hc.1, hc.2⟩

theorem stable_optimize (env : Env N) (e : Expr N) (hs : Stable env e) (fuel : Nat) (hf : 0 < fuel) :
    optimize env fuel e = .ok e := by
  obtain ⟨fuel, rfl⟩ : ∃ k, fuel = k + 1 := ⟨fuel - 1, by omega⟩
  obtain ⟨h1, h2, _⟩ := fold_stable env e hs.1 hs.2
  simp only [optimize, transform_eq_self e hs.1, h2, transformFound, hs.1, hs.2, h1]
  simp

/-- 3. Fixpoint: optimizing the result again changes nothing (any positive fuel will do). -/
theorem optimize_idempotent' (env : Env N) (fuel fuel' : Nat) (e e' : Expr N)
    (h : optimize env fuel e = .ok e') (hf : 0 < fuel') : optimize env fuel' e' = .ok e' :=
  stable_optimize env e' (optimize_ok_stable env fuel e e' h) fuel' hf

theorem optimize_idempotent (env : Env N) (fuel fuel' : Nat) (e e' : Expr N)
    (h : optimize env fuel e = .ok e') (hf : fuel' > mu e') : optimize env fuel' e' = .ok e' :=
  optimize_idempotent' env fuel fuel' e e' h (by omega)

/-- 4. No constant-foldable node is left: no operator or array whose operands are all literals, no call of a
    pure function within its arity whose arguments are all literals, no conditional with a literal
    condition, no three-argument `if_then` call. -/
theorem no_foldable_node (env : Env N) (fuel : Nat) (e e' : Expr N) (h : optimize env fuel e = .ok e') :
    ∀ n ∈ subterms e', ¬ Foldable env n := by
  obtain ⟨h1, h2⟩ := optimize_ok_stable env fuel e e' h
  exact (fold_stable env e' h1 h2).2.2

/-- 5. Size: the tree the caller holds afterwards — also after a failed run — has no more nodes than
    the input. -/
theorem optimize_size (env : Env N) : ∀ (fuel : Nat) (e e' : Expr N),
    (optimize env fuel e = .ok e' ∨ ∃ er, optimize env fuel e = .err e' er) → nodes e' ≤ nodes e := by
  intro fuel
  induction fuel with
  | zero => intro e e' h; simp only [optimize] at h; rcases h with h | ⟨_, h⟩ <;> cases h
  | succ fuel ih =>
    intro e e' h
    have hstep : nodes (fold env (transform e)).tree ≤ nodes e := by
      have := nodes_fold env (transform e); rw [nodes_transform] at this; exact this
    simp only [optimize] at h
    split at h
    · rcases h with h | ⟨_, h⟩ <;> cases h
      exact hstep
    · split at h
      · exact Nat.le_trans (ih _ _ h) hstep
      · rcases h with h | ⟨_, h⟩ <;> cases h
        exact hstep

/-! ### non-vacuity: the theorems instantiated on concrete trees -/
section Examples
open Slac.Opt.Ex
attribute [local instance] intOps

/-- `x + rnd()` -/
def r1 : Expr Int := .binary (.var x) (.call rndName []) .plus
/-- `[3, y, -true]` -/
def r2 : Expr Int := .array [.lit (.num 3), .var y, .unary (.lit (.bool true)) .minus]

/-- `x + if_then(max(1,2) > 1, rnd(), 0 - 1)` becomes `x + rnd()`; `mu t1 + 1 = 9` rounds suffice -/
theorem run1 : optimize env (mu t1 + 1) t1 = .ok r1 := by rfl
example : optimize env (mu t1 + 1) t1 ≠ .outOfFuel := optimize_terminates env _ t1 (Nat.lt_succ_self _)

/-- the run calls `max(1, 2)` (pure) and nothing else: `rnd` is never called, `x` is never read -/
example : (optimizeT env 9 t1).2 = [.call maxName [.num 1, .num 2]] := by rfl
example : Event.call rndName [] ∉ (optimizeT env 9 t1).2 :=
  optimize_no_impure_call env 9 t1 rndName [] (by decide)
example : Event.lookup x ∉ (optimizeT env 9 t1).2 := optimize_no_lookup env 9 t1 x

/-- the result is a fixpoint without foldable node, and not larger -/
example : optimize env 4 r1 = .ok r1 := optimize_idempotent env 9 4 t1 r1 run1 (by decide)
example : ¬ Foldable env (.call rndName []) :=
  no_foldable_node env 9 t1 r1 run1 _ (by simp [r1, subterms, subtermsL])
example : nodes r1 ≤ nodes t1 := optimize_size env 9 t1 r1 (.inl run1)

/-- a failing run: `[1 + 2, y, -true]` is left as `[3, y, -true]` -/
theorem run2 : optimize env 9 t2 = .err r2 (.invalidUnary .minus) := by rfl
example : nodes r2 ≤ nodes t2 := optimize_size env 9 t2 r2 (.inr ⟨_, run2⟩)

end Examples

end Slac.C06
