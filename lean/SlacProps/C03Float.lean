/-
  C03 (number level) — "IEEE-754 double arithmetic with div truncating toward zero and mod taking the dividend's
  sign", for the project's actual number type: core `Float` with the `NumOps` instance of SlacModel/Num.lean.

  SlacProps/C03.lean proves, for every number type, that `execute` computes what the operator table `binVal`
  prescribes.  This file says what that table does ON DOUBLES:
  * `add_sub_mul_div_are_ieee`  `+ - * /` are core `Float`'s IEEE operations, nothing else happens;
  * `div_truncates`             `a div b = trunc (a / b)`: an integer, between 0 and a / b, with the sign of a / b;
                                `div_integer_part`: it IS the integer part of the quotient (exact values);
                                `div_by_zero`, `zero_div_zero`, `div_nan`: x div ±0 = ±inf, 0 div 0 = NaN;
  * `mod_sign_and_bound`        `x mod y` is C `fmod`: sign of x (also for a zero result), |x mod y| < |y|, and EXACT:
                                value(x mod y) = value(x) - value(y)·trunc(value(x)/value(y));
                                `mod_exact_decoded` (mantissa/exponent form), `ofNatScaled_represents`;
                                `mod_inf`, `mod_zero_dividend`, `mod_nan`: the special cases;
  * `eq_is_ieee`, `cmp_is_ieee`, `order_is_value_order`, `bool_coerces_under_eq`: `=` and the comparisons.
  Values: every finite double x is `F64.units x` units of 2^-1074 (`F64.units : Float → Int`, SlacProofs/F64Sem.lean);
  `F64.unitsN x = |units x|`;  `F64.toRat x = units x / 2^1074 : ℚ` (SlacProofs/F64SemRat.lean; `mod_exact_rat`,
  `div_integer_part_rat` restate the two exactness results over ℚ).  All proofs go back to core's logical float model and the bit-level definitions.
-/
import SlacProofs.F64SemOps
import SlacProofs.F64SemRat
import SlacProofs.InterpLemmas
set_option autoImplicit false
namespace Slac.C03
open F64

/-! ## 1. `+ - * /` -/

/-- On two numbers the four arithmetic operators are core `Float`'s IEEE-754 `+ - * /` (the `NumOps Float` instance
    maps them to `Float.add/sub/mul/div`; the statement holds by unfolding definitions). -/
theorem add_sub_mul_div_are_ieee (a b : Float) :
    binVal .plus (.num a) (.num b) = .ok (.num (a + b)) ∧
    binVal .minus (.num a) (.num b) = .ok (.num (a - b)) ∧
    binVal .multiply (.num a) (.num b) = .ok (.num (a * b)) ∧
    binVal .divide (.num a) (.num b) = .ok (.num (a / b)) := ⟨rfl, rfl, rfl, rfl⟩

/-- `- * / div mod` on anything but two numbers: `InvalidBinaryOperator` (no coercion).  The converse direction for
    every number type is `C03.arithmetic_never_coerces` / `Slac.binVal_arith`. -/
theorem mistyped_operands (op : Op) (hop : op ∈ arithOps) (l r : Value Float)
    (h : l.isNumber = false ∨ r.isNumber = false) : binVal op l r = .error (.invalidBinary op) := by
  simp only [arithOps, List.mem_cons, List.mem_nil_iff, or_false] at hop
  rcases hop with rfl | rfl | rfl | rfl | rfl <;> cases l <;> cases r <;>
    first | rfl | (simp [Value.isNumber] at h)

/-- `+` is defined on two strings, two numbers, two arrays; every other pair is `InvalidBinaryOperator` -/
theorem plus_mistyped (a : Float) (r : Value Float) (h : r.isNumber = false) :
    binVal .plus (.num a) r = .error (.invalidBinary .plus) ∧ binVal .plus r (.num a) = .error (.invalidBinary .plus) := by
  cases r <;> first | exact ⟨rfl, rfl⟩ | (simp [Value.isNumber] at h)

example : binVal .plus (.num (0.1 : Float)) (.num 0.2) = .ok (.num 0.30000000000000004) :=
  congrArg (fun t => Except.ok (Value.num t)) (by decide +kernel)
example : binVal .divide (.num (1 : Float)) (.num 3) = .ok (.num 0.3333333333333333) :=
  congrArg (fun t => Except.ok (Value.num t)) (by decide +kernel)
example : binVal .multiply (.num (1 : Float)) (.bool true) = .error (.invalidBinary .multiply) :=
  mistyped_operands _ (by decide) _ _ (Or.inr rfl)

/-! ## 2. `div` -/

/-- `a div b` is `trunc (a / b)` — the IEEE quotient, then `f64::trunc`.  For every a, b (no side condition):
    the result is integer-valued (`trunc` fixes it), its magnitude does not exceed |a / b|, in the sign-magnitude
    key order it lies between 0 and a / b, and it carries the sign bit of a / b (so -1 div 2 = -0). -/
theorem div_truncates (a b : Float) :
    binVal .div (.num a) (.num b) = .ok (.num (F64.trunc (a / b))) ∧
    F64.trunc (F64.trunc (a / b)) = F64.trunc (a / b) ∧
    magN (bits (F64.trunc (a / b))) ≤ magN (bits (a / b)) ∧
    (0 ≤ keyN (bits (a / b)) → 0 ≤ keyN (bits (F64.trunc (a / b))) ∧ keyN (bits (F64.trunc (a / b))) ≤ keyN (bits (a / b))) ∧
    (keyN (bits (a / b)) ≤ 0 → keyN (bits (a / b)) ≤ keyN (bits (F64.trunc (a / b))) ∧ keyN (bits (F64.trunc (a / b))) ≤ 0) ∧
    signBit (F64.trunc (a / b)) = signBit (a / b) :=
  ⟨rfl, trunc_idempotent _, trunc_mag_le _, (trunc_key_between _).1, (trunc_key_between _).2, trunc_signBit _⟩

set_option exponentiation.threshold 2000 in
/-- For a finite quotient q = a / b (in particular: finite a, finite b ≠ 0, no overflow) the result is finite and is
    EXACTLY the integer part of q, rounded toward zero: in units of 2^-1074 (the integer 1 is 2^1074 units),
    `units (a div b) = (units q).tdiv 2^1074 * 2^1074` (`Int.tdiv` = division truncating toward zero);
    in particular it is a whole number, |a div b| ≤ |q|, and |q| - |a div b| < 1. -/
theorem div_integer_part (a b : Float) (hq : isFinite (a / b) = true) :
    isFinite (F64.trunc (a / b)) = true ∧
    units (F64.trunc (a / b)) = (units (a / b)).tdiv (2^1074) * 2^1074 ∧
    unitsN (F64.trunc (a / b)) % 2^1074 = 0 ∧
    unitsN (F64.trunc (a / b)) ≤ unitsN (a / b) ∧ unitsN (a / b) < unitsN (F64.trunc (a / b)) + 2^1074 := by
  obtain ⟨h1, h2⟩ := unitsN_trunc (a / b) hq
  refine ⟨h2, units_trunc _ hq, ?_, ?_, ?_⟩
  · rw [h1]; exact Nat.mul_mod_left _ _
  · rw [h1]; exact Nat.div_mul_le_self _ _
  · rw [h1]
    have := Nat.div_add_mod (unitsN (a / b)) (2^1074)
    have := Nat.mod_lt (unitsN (a / b)) (Nat.two_pow_pos 1074)
    rw [Nat.mul_comm]; omega

/-- over ℚ: `a div b` is the integer obtained from the (already rounded) quotient a / b by dropping its fraction -/
theorem div_integer_part_rat (a b : Float) (hq : isFinite (a / b) = true) :
    toRat (F64.trunc (a / b)) = (((units (a / b)).tdiv (2^1074) : Int) : ℚ) :=
  toRat_trunc _ hq

/-- the sign of the result is the xor of the operand signs whenever the quotient is not NaN (IEEE sign rule),
    for finite, zero and infinite results alike -/
theorem div_sign (a b : Float) (ha : isNaN a = false) (hb : isNaN b = false) (hq : isNaN (a / b) = false) :
    signBit (F64.trunc (a / b)) = (signBit a != signBit b) := by
  rw [trunc_signBit, signBit_div a b ha hb hq]

/-- `x div ±0` for x ≠ 0 (finite or infinite, not NaN): the infinity with the xor of the signs -/
theorem div_by_zero (a b : Float) (hn : isNaN a = false) (hz : isZero a = false) (hb : isZero b = true) :
    binVal .div (.num a) (.num b) = .ok (.num (ofParts (signBit a != signBit b) 0x7FF0000000000000)) ∧
    isInf (ofParts (signBit a != signBit b) 0x7FF0000000000000) = true ∧
    signBit (ofParts (signBit a != signBit b) 0x7FF0000000000000) = (signBit a != signBit b) := by
  refine ⟨?_, (isInf_ofParts _).1, (isInf_ofParts _).2.1⟩
  show Except.ok (Value.num (F64.trunc (a / b))) = _
  rw [F64.div_by_zero a b hn hz hb, (isInf_ofParts _).2.2]

/-- `±0 div ±0` is NaN -/
theorem zero_div_zero (a b : Float) (ha : isZero a = true) (hb : isZero b = true) :
    binVal .div (.num a) (.num b) = .ok (.num F64.nan) := by
  show Except.ok (Value.num (F64.trunc (a / b))) = _
  rw [F64.zero_div_zero a b ha hb, nan_facts.2.2]

/-- a NaN operand gives NaN -/
theorem div_nan (a b : Float) (h : isNaN a = true ∨ isNaN b = true) :
    binVal .div (.num a) (.num b) = .ok (.num F64.nan) := by
  show Except.ok (Value.num (F64.trunc (a / b))) = _
  rw [F64.nan_div a b h, nan_facts.2.2]

/-- -7 div 2 = -3, 7 div -2 = -3 (toward zero, not floor), 7 div 2 = 3, -1 div 2 = -0, 1e300 div 7 (no i64 detour) -/
example : binVal .div (.num (-7 : Float)) (.num 2) = .ok (.num (-3)) :=
  congrArg (fun t => Except.ok (Value.num t)) (by decide +kernel)
example : binVal .div (.num (7 : Float)) (.num (-2)) = .ok (.num (-3)) :=
  congrArg (fun t => Except.ok (Value.num t)) (by decide +kernel)
example : binVal .div (.num (7 : Float)) (.num 2) = .ok (.num 3) :=
  congrArg (fun t => Except.ok (Value.num t)) (by decide +kernel)
example : binVal .div (.num (-1 : Float)) (.num 2) = .ok (.num (Float.ofBits 0x8000000000000000)) :=
  congrArg (fun t => Except.ok (Value.num t)) (by decide +kernel)
example : binVal .div (.num (1e300 : Float)) (.num 7) = .ok (.num 1.4285714285714286e299) :=
  congrArg (fun t => Except.ok (Value.num t)) (by decide +kernel)
/-- x div 0: 7 div 0 = +inf, -7 div 0 = -inf, 7 div -0 = -inf, 0 div 0 = NaN -/
example : binVal .div (.num (7 : Float)) (.num 0) = .ok (.num F64.inf) ∧
    binVal .div (.num (-7 : Float)) (.num 0) = .ok (.num (-F64.inf)) ∧
    binVal .div (.num (7 : Float)) (.num (Float.ofBits 0x8000000000000000)) = .ok (.num (-F64.inf)) ∧
    binVal .div (.num (0 : Float)) (.num 0) = .ok (.num F64.nan) :=
  ⟨congrArg (fun t => Except.ok (Value.num t)) (by decide +kernel),
   congrArg (fun t => Except.ok (Value.num t)) (by decide +kernel),
   congrArg (fun t => Except.ok (Value.num t)) (by decide +kernel),
   congrArg (fun t => Except.ok (Value.num t)) (by decide +kernel)⟩
/-- the hypotheses of `div_by_zero` / `div_integer_part` on concrete inputs -/
example : isNaN (-7 : Float) = false ∧ isZero (-7 : Float) = false ∧ isZero (0 : Float) = true ∧
    isFinite ((-7 : Float) / 2) = true ∧ units ((-7 : Float) / 2) = -7 * 2^1073 ∧
    units (F64.trunc ((-7 : Float) / 2)) = -3 * 2^1074 := by decide +kernel

/-! ## 3. `mod` -/

/-- `F64.ofNatScaled neg m e` — the constructor `rem` (and `fract`) use for their result — represents ± m·2^e EXACTLY
    whenever that number is a double: m < 2^53, e ≥ -1074, m·2^e < 2^1024.  Value in units of 2^-1074, sign bit,
    and for m ≠ 0 the canonical mantissa/exponent pair (m·2^j, e - j). -/
theorem ofNatScaled_represents (neg : Bool) (m : Nat) (e : Int) (h53 : m < 2^53) (he : -1074 ≤ e)
    (htop : e + (m.log2 : Int) ≤ 1023) :
    unitsN (ofNatScaled neg m e) = m * 2^(e + 1074).toNat ∧ signBit (ofNatScaled neg m e) = neg ∧
    isFinite (ofNatScaled neg m e) = true ∧
    (0 < m → ∃ j : Nat, decode (ofNatScaled neg m e) = (m * 2^j, e - j)) := by
  obtain ⟨h1, h2, h3⟩ := unitsN_ofNatScaled neg m e h53 he htop
  refine ⟨h1, h2, h3, fun hm => ?_⟩
  obtain ⟨j, hc, heq⟩ := ofNatScaled_exact neg m e hm h53 he htop
  exact ⟨j, by rw [heq, decode_mkF _ _ _ hc]⟩

/-- **`x mod y` is C `fmod`, computed exactly.**  For finite x and finite y ≠ 0:
    * the result is finite and has the SIGN BIT OF x — also when it is zero (-7 mod 7 = -0);
    * |x mod y| < |y| (as values, and on the magnitude bits);
    * it is exact: in units of 2^-1074, `units (x mod y) = (units x).tmod (units y)`, the remainder of the division
      that truncates toward zero, i.e. `x - y·trunc(x/y)` evaluated without any rounding. -/
theorem mod_sign_and_bound (x y : Float) (hx : isFinite x = true) (hy : isFinite y = true) (hy0 : isZero y = false) :
    binVal .mod (.num x) (.num y) = .ok (.num (F64.rem x y)) ∧
    isFinite (F64.rem x y) = true ∧
    signBit (F64.rem x y) = signBit x ∧
    unitsN (F64.rem x y) < unitsN y ∧ magN (bits (F64.rem x y)) < magN (bits y) ∧
    unitsN (F64.rem x y) = unitsN x % unitsN y ∧
    units (F64.rem x y) = (units x).tmod (units y) ∧
    units (F64.rem x y) = units x - units y * (units x).tdiv (units y) := by
  obtain ⟨r1, r2, r3⟩ := rem_finite x y hx hy hy0
  have hlt := unitsN_rem_lt x y hx hy hy0
  have hu := units_rem x y hx hy hy0
  exact ⟨rfl, r2, r1, hlt, ((unitsN_mono (F64.rem x y) y).1).2 hlt, r3, hu, by rw [hu, Int.tmod_def]⟩

/-- over ℚ: `x mod y = x - y·k` exactly, with the integer k = x/y rounded toward zero, and |x mod y| < |y| -/
theorem mod_exact_rat (x y : Float) (hx : isFinite x = true) (hy : isFinite y = true) (hy0 : isZero y = false) :
    toRat (F64.rem x y) = toRat x - toRat y * (((units x).tdiv (units y) : Int) : ℚ) ∧
    |toRat (F64.rem x y)| < |toRat y| :=
  ⟨toRat_rem x y hx hy hy0, abs_toRat_rem_lt x y hx hy hy0⟩

/-- the same in mantissa/exponent form: with x = ± mx·2^ex, y = ± my·2^ey (`F64.decode`), e = min ex ey,
    X = mx·2^(ex-e), Y = my·2^(ey-e) (both integers):  x mod y = sign(x) · (X mod Y) · 2^e, represented exactly. -/
theorem mod_exact_decoded (x y : Float) (hx : isFinite x = true) (hx0 : isZero x = false)
    (hy : isFinite y = true) (hy0 : isZero y = false) :
    F64.rem x y = ofNatScaled (signBit x)
      (((decode x).1 * 2^((decode x).2 - min (decode x).2 (decode y).2).toNat) %
        ((decode y).1 * 2^((decode y).2 - min (decode x).2 (decode y).2).toNat)) (min (decode x).2 (decode y).2) ∧
    unitsN (F64.rem x y) =
      (((decode x).1 * 2^((decode x).2 - min (decode x).2 (decode y).2).toNat) %
        ((decode y).1 * 2^((decode y).2 - min (decode x).2 (decode y).2).toNat)) *
        2^(min (decode x).2 (decode y).2 + 1074).toNat :=
  rem_decoded x y hx hx0 hy hy0

/-- `x mod ±inf = x` for finite x (sign and all) -/
theorem mod_inf (x y : Float) (hx : isFinite x = true) (hy : isInf y = true) :
    binVal .mod (.num x) (.num y) = .ok (.num x) := by
  show Except.ok (Value.num (F64.rem x y)) = _
  obtain ⟨hn, hi⟩ := fin_not_nan x hx
  have hny : isNaN y = false := by
    unfold isInf at hy; unfold isNaN isNaNN; rw [decide_eq_true_eq] at hy; rw [decide_eq_false_iff_not]; omega
  have hzy : isZero y = false := by
    unfold isInf at hy; unfold isZero; rw [decide_eq_true_eq] at hy; rw [decide_eq_false_iff_not]; omega
  unfold F64.rem
  simp only [hn, hi, hny, hzy, hy, Bool.or_self, Bool.false_eq_true, if_false, if_true]

/-- `±0 mod y = ±0` (the same zero) for finite y ≠ 0 -/
theorem mod_zero_dividend (x y : Float) (hx : isZero x = true) (hy : isFinite y = true) (hy0 : isZero y = false) :
    binVal .mod (.num x) (.num y) = .ok (.num x) := by
  show Except.ok (Value.num (F64.rem x y)) = _
  have hfx : isFinite x = true := by
    unfold isZero at hx; unfold isFinite; rw [decide_eq_true_eq] at hx ⊢; omega
  obtain ⟨hn, hi⟩ := fin_not_nan x hfx
  obtain ⟨hny, hiy⟩ := fin_not_nan y hy
  unfold F64.rem
  simp only [hn, hi, hny, hiy, hy0, hx, Bool.or_self, Bool.false_eq_true, if_false, if_true]

/-- NaN operand, infinite dividend or zero divisor: NaN -/
theorem mod_nan (x y : Float) (h : isNaN x = true ∨ isNaN y = true ∨ isInf x = true ∨ isZero y = true) :
    binVal .mod (.num x) (.num y) = .ok (.num F64.nan) := by
  show Except.ok (Value.num (F64.rem x y)) = _
  unfold F64.rem
  rw [if_pos]
  rcases h with h | h | h | h <;> simp [h]

/-- -7 mod 2 = -1, 7 mod -2 = 1, -7 mod 7 = -0, 5.5 mod 2 = 1.5, 1e300 mod 3 = 0 (1e300 is the integer
    1000000000000000052504760255204420248704468581108159154915854115511802457988908195786371375080447864043704443832883878176942523235360430575644792184786706982848387200926575803737830233794788090059368953234970799945081119038967640880074652742780142494579258788820056842838115669472196386865459400540160,
    a multiple of 3), 5 mod inf = 5, 5 mod 0 = NaN, -0 mod 3 = -0 -/
example : binVal .mod (.num (-7 : Float)) (.num 2) = .ok (.num (-1)) :=
  congrArg (fun t => Except.ok (Value.num t)) (by decide +kernel)
example : binVal .mod (.num (7 : Float)) (.num (-2)) = .ok (.num 1) :=
  congrArg (fun t => Except.ok (Value.num t)) (by decide +kernel)
example : binVal .mod (.num (-7 : Float)) (.num 7) = .ok (.num (Float.ofBits 0x8000000000000000)) :=
  congrArg (fun t => Except.ok (Value.num t)) (by decide +kernel)
example : binVal .mod (.num (5.5 : Float)) (.num 2) = .ok (.num 1.5) :=
  congrArg (fun t => Except.ok (Value.num t)) (by decide +kernel)
example : binVal .mod (.num (1e300 : Float)) (.num 3) = .ok (.num (Float.ofBits 0)) :=
  congrArg (fun t => Except.ok (Value.num t)) (by decide +kernel)
example : binVal .mod (.num (5 : Float)) (.num F64.inf) = .ok (.num 5) :=
  congrArg (fun t => Except.ok (Value.num t)) (by decide +kernel)
example : binVal .mod (.num (5 : Float)) (.num 0) = .ok (.num F64.nan) :=
  congrArg (fun t => Except.ok (Value.num t)) (by decide +kernel)
example : binVal .mod (.num (Float.ofBits 0x8000000000000000)) (.num 3) = .ok (.num (Float.ofBits 0x8000000000000000)) :=
  congrArg (fun t => Except.ok (Value.num t)) (by decide +kernel)
example : binVal .mod (.num (0.3 : Float)) (.num 0.1) = .ok (.num 0.09999999999999998) :=
  congrArg (fun t => Except.ok (Value.num t)) (by decide +kernel)
/-- the hypotheses of `mod_sign_and_bound` on a concrete input, and its exactness equation evaluated there -/
example : isFinite (-7 : Float) = true ∧ isFinite (2 : Float) = true ∧ isZero (2 : Float) = false ∧
    units (-7 : Float) = -7 * 2^1074 ∧ units (2 : Float) = 2 * 2^1074 ∧ units (F64.rem (-7) 2) = -1 * 2^1074 := by
  decide +kernel
example : isInf F64.inf = true ∧ isFinite (5 : Float) = true := by decide +kernel

/-! ## 4. `=`, `<>`, `<`, `<=`, `>`, `>=` on numbers -/

/-- `=` on two numbers is IEEE `==`: false as soon as one side is NaN (NaN ≠ NaN), true on two zeros of either sign
    (-0 = +0), and otherwise equality of the doubles (bit patterns). -/
theorem eq_is_ieee (a b : Float) :
    Value.eq (.num a) (.num b) = F64.beq a b ∧
    binVal .equal (.num a) (.num b) = .ok (.bool (F64.beq a b)) ∧
    binVal .notEqual (.num a) (.num b) = .ok (.bool (!F64.beq a b)) ∧
    F64.beq a b = (if isNaN a || isNaN b then false
                   else if isZero a && isZero b then true else decide (bits a = bits b)) ∧
    (isNaN a = true ∨ isNaN b = true → F64.beq a b = false) ∧
    (isZero a = true → isZero b = true → F64.beq a b = true) ∧
    (isNaN a = false → isNaN b = false → (isZero a = false ∨ isZero b = false) → (F64.beq a b = true ↔ a = b)) :=
  ⟨rfl, rfl, rfl, beq_ieee a b, beq_nan a b, beq_zeros a b, beq_iff_eq a b⟩

/-- `Ord::cmp` on two numbers is `f64::partial_cmp` with the documented quirk: when a side is NaN (`partial_cmp` is
    `None`) the result is `Equal` — so `NaN <= x` and `NaN >= x` hold while `NaN = x` does not. -/
theorem cmp_is_ieee (a b : Float) :
    Value.cmp (.num a) (.num b) = (F64.pcmp a b).getD .eq ∧
    F64.pcmp a b = (if isNaN a || isNaN b then none else some (cmpInt (keyN (bits a)) (keyN (bits b)))) ∧
    (isNaN a = true ∨ isNaN b = true → Value.cmp (.num a) (.num b) = .eq) ∧
    binVal .less (.num a) (.num b) = .ok (.bool (Value.cmp (.num a) (.num b) == .lt)) ∧
    binVal .lessEqual (.num a) (.num b) = .ok (.bool (Value.cmp (.num a) (.num b) != .gt)) ∧
    binVal .greater (.num a) (.num b) = .ok (.bool (Value.cmp (.num a) (.num b) == .gt)) ∧
    binVal .greaterEqual (.num a) (.num b) = .ok (.bool (Value.cmp (.num a) (.num b) != .lt)) := by
  have h0 : Value.cmp (.num a) (.num b) = (F64.pcmp a b).getD .eq := by rw [Value.cmp]; rfl
  refine ⟨h0, rfl, fun h => ?_, rfl, rfl, rfl, rfl⟩
  rw [h0, pcmp_nan a b h]; rfl

/-- on finite doubles the order is the order of the VALUES (so -0 and +0 compare equal, subnormals are ordered
    correctly, negative numbers are below positive ones) -/
theorem order_is_value_order (a b : Float) (ha : isFinite a = true) (hb : isFinite b = true) :
    Value.cmp (.num a) (.num b) = cmpInt (units a) (units b) ∧
    (binVal .less (.num a) (.num b) = .ok (.bool (decide (units a < units b)))) ∧
    (binVal .equal (.num a) (.num b) = .ok (.bool (decide (units a = units b)))) := by
  have h0 : Value.cmp (.num a) (.num b) = cmpInt (units a) (units b) := by
    rw [(cmp_is_ieee a b).1, pcmp_units a b ha hb]; rfl
  refine ⟨h0, ?_, ?_⟩
  · show Except.ok (Value.bool (Value.cmp (.num a) (.num b) == .lt)) = _
    rw [h0]; unfold cmpInt
    congr 2
    by_cases h1 : units a < units b
    · rw [if_pos h1, decide_eq_true h1]; rfl
    · rw [if_neg h1, decide_eq_false h1]; split <;> rfl
  · show Except.ok (Value.bool (F64.beq a b)) = _
    congr 2
    have hk := pcmp_units a b ha hb
    rw [pcmp_some a b (fin_not_nan a ha).1 (fin_not_nan b hb).1] at hk
    have hk' : cmpInt (keyN (bits a)) (keyN (bits b)) = cmpInt (units a) (units b) := Option.some.inj hk
    unfold F64.beq beqN
    have hna := (fin_not_nan a ha).1; have hnb := (fin_not_nan b hb).1
    unfold isNaN at hna hnb
    rw [hna, hnb]
    simp only [Bool.or_self, Bool.not_false, Bool.true_and]
    rw [Bool.eq_iff_iff, decide_eq_true_eq, decide_eq_true_eq]
    unfold cmpInt at hk'
    constructor
    · intro h; rw [h] at hk'; simp only [Int.lt_irrefl, if_false] at hk'
      by_cases h1 : units a < units b
      · rw [if_pos h1] at hk'; cases hk'
      · rw [if_neg h1] at hk'
        by_cases h2 : units b < units a
        · rw [if_pos h2] at hk'; cases hk'
        · omega
    · intro h; rw [h] at hk'; simp only [Int.lt_irrefl, if_false] at hk'
      by_cases h1 : keyN (bits a) < keyN (bits b)
      · rw [if_pos h1] at hk'; cases hk'
      · rw [if_neg h1] at hk'
        by_cases h2 : keyN (bits b) < keyN (bits a)
        · rw [if_pos h2] at hk'; cases hk'
        · omega

/-- Booleans coerce to 0 / 1 under `=` and `<>` (only there): `true = 1`, `false = 0`, on either side -/
theorem bool_coerces_under_eq (b : Bool) (x : Float) :
    Value.eq (.bool b) (.num x) = F64.beq (if b then 1 else 0) x ∧
    Value.eq (.num x) (.bool b) = F64.beq x (if b then 1 else 0) ∧
    binVal .equal (.bool b) (.num x) = .ok (.bool (F64.beq (if b then 1 else 0) x)) ∧
    binVal .notEqual (.bool b) (.num x) = .ok (.bool (!F64.beq (if b then 1 else 0) x)) := by
  have h1 : Value.eq (.bool b) (.num x) = F64.beq (if b then 1 else 0) x := by rw [Value.eq]; rfl
  have h2 : Value.eq (.num x) (.bool b) = F64.beq x (if b then 1 else 0) := by rw [Value.eq]; rfl
  exact ⟨h1, h2, by show Except.ok (Value.bool (Value.eq _ _)) = _; rw [h1],
    by show Except.ok (Value.bool (!Value.eq _ _)) = _; rw [h1]⟩

/-- NaN = NaN is false, NaN <= 1 and NaN >= 1 are true (the quirk), -0 = 0, 0.1 + 0.2 <> 0.3, true = 1, false = 0,
    true <> 2, -1 < -0, 5e-324 > 0 -/
example : binVal .equal (.num F64.nan) (.num F64.nan) = .ok (.bool false) ∧
    binVal .lessEqual (.num F64.nan) (.num (1 : Float)) = .ok (.bool true) ∧
    binVal .greaterEqual (.num F64.nan) (.num (1 : Float)) = .ok (.bool true) ∧
    binVal .less (.num F64.nan) (.num (1 : Float)) = .ok (.bool false) ∧
    binVal .equal (.num (Float.ofBits 0x8000000000000000)) (.num (0 : Float)) = .ok (.bool true) ∧
    binVal .notEqual (.num ((0.1 : Float) + 0.2)) (.num 0.3) = .ok (.bool true) ∧
    binVal .equal (.bool true) (.num (1 : Float)) = .ok (.bool true) ∧
    binVal .equal (.num (0 : Float)) (.bool false) = .ok (.bool true) ∧
    binVal .notEqual (.bool true) (.num (2 : Float)) = .ok (.bool true) ∧
    binVal .less (.num (-1 : Float)) (.num (Float.ofBits 0x8000000000000000)) = .ok (.bool true) ∧
    binVal .greater (.num (5e-324 : Float)) (.num 0) = .ok (.bool true) := by
  have e : ∀ a b : Float, Value.eq (.num a) (.num b) = F64.beq a b := fun _ _ => rfl
  have c : ∀ a b : Float, Value.cmp (.num a) (.num b) = (F64.pcmp a b).getD .eq := fun a b => (cmp_is_ieee a b).1
  have eb : ∀ (b : Bool) (x : Float), Value.eq (.bool b) (.num x) = F64.beq (if b then 1 else 0) x :=
    fun b x => (bool_coerces_under_eq b x).1
  have be : ∀ (b : Bool) (x : Float), Value.eq (.num x) (.bool b) = F64.beq x (if b then 1 else 0) :=
    fun b x => (bool_coerces_under_eq b x).2.1
  simp only [binVal, e, c, eb, be, Except.ok.injEq, Value.bool.injEq]
  decide +kernel

end Slac.C03
