/-
  C07 (parser half) — `Compiler::compile_ast` is total: for any token list it returns a tree or an error value; it
  never panics and never loops.

  Model: `Slac.Parser.parse` (SlacModel.Parser), which runs the fuel-indexed mutual functions with fuel
  `parseFuel n = 4 * n + 4`.  The model has two crash outcomes, `outOfFuel` (non-termination within the fuel) and
  `panic`; the theorems say neither is ever the outcome:
    * never loops: every recursive call of the Rust parser works on a strictly shorter token suffix or descends from
      `parse_precedence` to `do_prefix`/`do_infix`/`expression_list`, so a call tree of depth `3 * n + 1` is enough
      (`parse_fuel_sufficient`), whatever the tokens are;
    * never panics: the only panic site of compiler.rs is the `self.current - 1` underflow in `previous()` (and its
      `PreviousTokenNotFound` error); `previous()` is only called after an `advance()` that moved the cursor
      (since the D10 fix `parse_precedence` returns `Err(Eof)` *before* advancing at end of input), so the model never
      produces `.panic` — here that is the statement `parse toks ≠ .panic`.
  On the pre-D10 code the first statement was false (`[Minus]` recursed forever).
-/
import SlacProofs.ParserTotal
import SlacProofs.ParserDepth
import SlacProofs.ParserNest
set_option autoImplicit false
namespace Slac.C07
open Slac.Parser
variable {N : Type}

/-- fuel linear in the token count suffices, for every start precedence and every token list -/
theorem parse_fuel_sufficient (p : Nat) (toks : List (Token N)) :
    (∃ r, parsePrec (3 * toks.length + 1) p toks = .ok r) ∨ (∃ err, parsePrec (3 * toks.length + 1) p toks = .err err) := by
  have h := parsePrec_fine (p := p) (toks := toks) (Nat.le_refl _)
  cases hr : parsePrec (3 * toks.length + 1) p toks with
  | ok r => exact .inl ⟨r, rfl⟩
  | err e => exact .inr ⟨e, rfl⟩
  | outOfFuel => rw [hr] at h; exact h.elim
  | panic => rw [hr] at h; exact h.elim

/-- `compile_ast` returns `Ok(tree)` or `Err(error)`: never out of fuel (loops), never a panic -/
theorem parse_total (toks : List (Token N)) : (∃ e, parse toks = .ok e) ∨ (∃ err, parse toks = .err err) := by
  have h := parsePrec_fine (p := 1) (toks := toks) (f := parseFuel toks.length) (by unfold parseFuel; omega)
  unfold parse
  cases hr : parsePrec (parseFuel toks.length) 1 toks with
  | ok r =>
    obtain ⟨e, rest⟩ := r
    cases rest with
    | nil => exact .inl ⟨e, rfl⟩
    | cons t r => exact .inr ⟨_, rfl⟩
  | err e => exact .inr ⟨e, rfl⟩
  | outOfFuel => rw [hr] at h; exact h.elim
  | panic => rw [hr] at h; exact h.elim

theorem parse_ne_outOfFuel (toks : List (Token N)) : parse toks ≠ .outOfFuel := by
  intro h; rcases parse_total toks with ⟨e, he⟩ | ⟨e, he⟩ <;> rw [h] at he <;> cases he

theorem parse_ne_panic (toks : List (Token N)) : parse toks ≠ .panic := by
  intro h; rcases parse_total toks with ⟨e, he⟩ | ⟨e, he⟩ <;> rw [h] at he <;> cases he

/-- the answer does not depend on the fuel once it is at least `3 * n + 1`: `parse` is the fuel-free function -/
theorem parse_fuel_irrelevant (toks : List (Token N)) (f : Nat) (hf : 3 * toks.length + 1 ≤ f) :
    finish (parsePrec f 1 toks) = parse toks := by
  unfold parse
  have h0 : 3 * toks.length + 1 ≤ parseFuel toks.length := by unfold parseFuel; omega
  rw [parsePrec_agree (parsePrec_fine h0) (parsePrec_fine hf)]

/-- more fuel never changes an `Ok`/`Err` outcome of any run (fuel monotonicity) -/
theorem parsePrec_fuel_mono {f f' p : Nat} {toks : List (Token N)} (hle : f ≤ f')
    (h : (∃ r, parsePrec f p toks = .ok r) ∨ (∃ err, parsePrec f p toks = .err err)) :
    parsePrec f' p toks = parsePrec f p toks := by
  refine parsePrec_stable ?_ hle
  rcases h with ⟨r, hr⟩ | ⟨e, he⟩
  · rw [hr]; trivial
  · rw [he]; trivial

/-- recursion depth: at most `length + 1` activations of `parse_precedence` (the only recursive entry point, at most 5
    Rust frames apart) are ever on the stack, for every run — see SlacProofs.ParserDepth for the instrumentation.
    (The fuel bound above is the same fact for the model's own call tree, where loop iterations nest: depth ≤ 3n+1.) -/
theorem parse_depth (toks : List (Token N)) : dPrec (parseFuel toks.length) 1 toks ≤ toks.length + 1 :=
  dPrec_le _ _ _

/-- … and the depth does not grow with the length of the input at all, only with the number of opening tokens
    (`(`, `[`, `not`, `-`): a nested activation that does not follow an opening token is the right operand of a binary
    operator and runs at a strictly higher precedence than its parent, which can happen at most 7 times in a row (levels 1 … 8). -/
theorem parse_depth_openers (toks : List (Token N)) :
    dPrec (parseFuel toks.length) 1 toks ≤ 9 * (1 + openers toks) :=
  dPrec_nest_le _ _

/-! ### tests (concrete inputs) -/
section tests
private abbrev ta : Token Nat := .identifier ['a']

/- both disjuncts of `parse_total` occur -/
example : ∃ e, parse [ta, .plus, ta] = .ok e := ⟨_, rfl⟩
example : ∃ err, parse [ta, .plus] = .err err := ⟨_, rfl⟩
/- inputs ending in a prefix operator (D10: looped before the fix) now end in `Eof` -/
example : parse ([.minus] : List (Token Nat)) = .err .eof := rfl
example : parse ([.not, .minus, .not] : List (Token Nat)) = .err .eof := rfl
example : parse [.leftParen, ta, .minus] = .err .eof := rfl
/- the depth bound is attained: `- - - -` has 4 tokens and 5 nested activations (the last one returns Eof) -/
example : dPrec (parseFuel 4) 1 ([.minus, .minus, .minus, .minus] : List (Token Nat)) = 5 := by decide
/- the precedence ladder `a or a and a xor a = a < a + a * a` reaches 8 frames without any opening token -/
example : dPrec (parseFuel 15) 1 [ta, .or, ta, .and, ta, .xor, ta, .equal, ta, .less, ta, .plus, ta, .star, ta] = 8 := by
  decide
/- a flat expression stays shallow -/
example : dPrec (parseFuel 7) 1 [ta, .plus, ta, .plus, ta, .plus, ta] = 2 := by decide
/- the fuel bound is tight up to the constant: nested brackets `[[[` need fuel exactly 9 = 3 * 3 -/
example : parsePrec 8 1 ([.leftBracket, .leftBracket, .leftBracket] : List (Token Nat)) = .outOfFuel := rfl
example : parsePrec 9 1 ([.leftBracket, .leftBracket, .leftBracket] : List (Token Nat)) = .err .eof := rfl
end tests

end Slac.C07
