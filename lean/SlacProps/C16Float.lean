/-
  C16 for the driver's number type — part B of SlacProps.C16 ("through numbers") specialised to `N = Float`
  (IEEE binary64) with NO hypothesis about numbers: `instance : LawfulTimeNum Float` is proved in
  SlacProofs.F64Time.  In particular the rounding fact `decode_encode_ms`
      (round ((T as f64 / 86400000.0) * 86400000.0)) as i64 = T      for every |T| ≤ 2^48
  is a theorem about core's logical float model: `/` and `*` are shown to satisfy the standard model
  |fl q − q| ≤ 2^-53·|q| (SlacProofs.F64Arith: `div_std`, `mul_std`), the two roundings move T by < 1/2
  (SlacProofs.TimeReal), and `f64::round` picks the nearest integer (SlacProofs.F64RoundHalf).
  Every theorem here is the generic theorem of the same name (without `_float`) at `N := Float`.
-/
import SlacProps.C16
import SlacProofs.F64Time
set_option autoImplicit false
namespace Slac.C16
open Slac.Time Slac.Stdlib

/-- the hypothesis class of the time theorems holds for binary64 -/
theorem lawfulTimeNum_float : LawfulTimeNum Float := inferInstance

/-- the rounding fact itself, on binary64: divide by the day length, multiply back, round, cast -/
theorem decode_encode_ms_float (T : Int) (h1 : -(281474976710656) ≤ T) (h2 : T ≤ 281474976710656) :
    F64.toI64 (F64.round ((F64.ofInt T / F64.ofNat 86400000) * F64.ofNat 86400000)) = T :=
  F64.decode_encode_ms T h1 h2

/-- the standard model of floating-point arithmetic holds for core `Float` division and multiplication
    (finite non-zero operands, exact result of magnitude in [2^-1022, 2^1023)); `F64.toQ` is the exact rational
    value of a finite double -/
theorem float_std_model (x y : Float) (hx : F64.isFinite x = true) (hx0 : F64.isZero x = false)
    (hy : F64.isFinite y = true) (hy0 : F64.isZero y = false) :
    ((2:ℚ)^(-1022:ℤ) ≤ |F64.toQ x / F64.toQ y| → |F64.toQ x / F64.toQ y| < (2:ℚ)^(1023:ℤ) →
      F64.isFinite (x / y) = true ∧ |F64.toQ (x / y) - F64.toQ x / F64.toQ y| ≤ 1 / 2^53 * |F64.toQ x / F64.toQ y|) ∧
    ((2:ℚ)^(-1022:ℤ) ≤ |F64.toQ x * F64.toQ y| → |F64.toQ x * F64.toQ y| < (2:ℚ)^(1023:ℤ) →
      F64.isFinite (x * y) = true ∧ |F64.toQ (x * y) - F64.toQ x * F64.toQ y| ≤ 1 / 2^53 * |F64.toQ x * F64.toQ y|) :=
  ⟨fun h1 h2 => ⟨(F64.div_std x y hx hx0 hy hy0 h1 h2).1, (F64.div_std x y hx hx0 hy hy0 h1 h2).2.2⟩,
   fun h1 h2 => ⟨(F64.mul_std x y hx hx0 hy hy0 h1 h2).1, (F64.mul_std x y hx hx0 hy hy0 h1 h2).2.2⟩⟩

/-! ### B6. decode ∘ encode and the components -/

theorem decode_encode_float (y : Int) (m d ms : Nat) (hv : validDate y m d = true) (hy1 : 1 ≤ y) (hy2 : y ≤ 9999)
    (hms : ms < 86400000) :
    decode (encode ⟨daysFromCivil y m d, ms⟩ : Value Float) = .ok ⟨daysFromCivil y m d, ms⟩ :=
  decode_encode y m d ms hv hy1 hy2 hms

/-- general form: every date-time with |total milliseconds| ≤ 2^48 -/
theorem decode_encode_enc_float (t : DT) (h : t.Enc) : decode (encode t : Value Float) = .ok t :=
  decode_encode_enc t h

section stamps
variable {y : Int} {m d h mi s ml : Nat}

theorem year_spec_float (st : Stamp y m d h mi s ml) :
    year [(encode (stampDT y m d h mi s ml) : Value Float)] = .ok (.num (NumX.ofInt y)) := year_spec st
theorem month_spec_float (st : Stamp y m d h mi s ml) :
    month [(encode (stampDT y m d h mi s ml) : Value Float)] = .ok (.num (NumX.ofNat m)) := month_spec st
theorem day_spec_float (st : Stamp y m d h mi s ml) :
    day [(encode (stampDT y m d h mi s ml) : Value Float)] = .ok (.num (NumX.ofNat d)) := day_spec st
theorem hour_spec_float (st : Stamp y m d h mi s ml) :
    hour [(encode (stampDT y m d h mi s ml) : Value Float)] = .ok (.num (NumX.ofNat h)) := hour_spec st
theorem minute_spec_float (st : Stamp y m d h mi s ml) :
    minute [(encode (stampDT y m d h mi s ml) : Value Float)] = .ok (.num (NumX.ofNat mi)) := minute_spec st
theorem second_spec_float (st : Stamp y m d h mi s ml) :
    second [(encode (stampDT y m d h mi s ml) : Value Float)] = .ok (.num (NumX.ofNat s)) := second_spec st
theorem millisecond_spec_float (st : Stamp y m d h mi s ml) :
    millisecond [(encode (stampDT y m d h mi s ml) : Value Float)] = .ok (.num (NumX.ofNat ml)) :=
  millisecond_spec st
theorem dayOfWeek_spec_float (st : Stamp y m d h mi s ml) :
    dayOfWeek [(encode (stampDT y m d h mi s ml) : Value Float)] =
      .ok (.num (NumX.ofNat (weekday (daysFromCivil y m d)))) := dayOfWeek_spec st
theorem isLeapYear_spec_float (st : Stamp y m d h mi s ml) :
    isLeapYear [(encode (stampDT y m d h mi s ml) : Value Float)] = .ok (.bool (isLeap y)) := isLeapYear_spec st

theorem dateToString_spec_float (st : Stamp y m d h mi s ml) :
    dateToString [.str fmtDate, (encode (stampDT y m d h mi s ml) : Value Float)] = some (.ok (.str (dateText y m d))) ∧
    dateToString [.str fmtTime, (encode (stampDT y m d h mi s ml) : Value Float)] = some (.ok (.str (timeText h mi s))) ∧
    dateToString [.str fmtDatetime, (encode (stampDT y m d h mi s ml) : Value Float)] =
      some (.ok (.str (datetimeText y m d h mi s))) := dateToString_spec st

theorem string_roundtrip_float (st : Stamp y m d h mi s 0) (txt : Str)
    (hp : dateToString [.str fmtDatetime, (encode (stampDT y m d h mi s 0) : Value Float)] = some (.ok (.str txt))) :
    stringToDatetime [(.str txt : Value Float)] = some (.ok (encode (stampDT y m d h mi s 0))) :=
  string_roundtrip st txt hp

theorem incMonth_stamp_float (st : Stamp y m d h mi s ml) (k : Int) (hk1 : -3000000 ≤ k) (hk2 : k ≤ 3000000) :
    ∃ t2 : DT, incMonth [(encode (stampDT y m d h mi s ml) : Value Float), .num (NumX.ofInt k)] = .ok (encode t2) ∧
      t2.ms = ((h * 60 + mi) * 60 + s) * 1000 + ml ∧
      t2.year * 12 + ((t2.month : Int) - 1) = y * 12 + ((m : Int) - 1) + k ∧
      t2.day = min d (daysInMonth t2.year t2.month) := incMonth_stamp st k hk1 hk2
end stamps

/-! ### B7. encode_date, encode_time -/

theorem encodeDate_spec_float (y : Int) (m d : Nat) (hv : validDate y m d = true) :
    encodeDate [(.num (NumX.ofInt y) : Value Float), .num (NumX.ofNat m), .num (NumX.ofNat d)] =
      .ok (encode ⟨daysFromCivil y m d, 0⟩) := encodeDate_spec y m d hv

theorem encodeDate_rejects_float (y : Int) (m d : Nat) (hy1 : -2147483648 ≤ y) (hy2 : y < 2147483648)
    (hm : m < 4294967296) (hd : d < 4294967296) (hv : validDate y m d = false) :
    encodeDate [(.num (NumX.ofInt y) : Value Float), .num (NumX.ofNat m), .num (NumX.ofNat d)] =
      .error (custom "invalid date parameters") := encodeDate_rejects y m d hy1 hy2 hm hd hv

theorem encodeTime_spec_float (h mi s ml : Nat) (hh : h < 24) (hmi : mi < 60) (hs : s < 60) (hml : ml < 1000) :
    encodeTime [(.num (NumX.ofNat h) : Value Float), .num (NumX.ofNat mi), .num (NumX.ofNat s), .num (NumX.ofNat ml)] =
      .ok (encode ⟨0, ((h * 60 + mi) * 60 + s) * 1000 + ml⟩) := encodeTime_spec h mi s ml hh hmi hs hml

theorem encodeTime_spec3_float (h mi s : Nat) (hh : h < 24) (hmi : mi < 60) (hs : s < 60) :
    encodeTime [(.num (NumX.ofNat h) : Value Float), .num (NumX.ofNat mi), .num (NumX.ofNat s)] =
      .ok (encode ⟨0, ((h * 60 + mi) * 60 + s) * 1000⟩) := encodeTime_spec3 h mi s hh hmi hs

theorem encodeTime_rejects_float (h mi s ml : Nat) (hh : h < 4294967296) (hmi : mi < 4294967296)
    (hs : s < 4294967296) (hml : ml < 4294967296) (hbad : 24 ≤ h ∨ 60 ≤ mi ∨ 60 ≤ s) :
    encodeTime [(.num (NumX.ofNat h) : Value Float), .num (NumX.ofNat mi), .num (NumX.ofNat s), .num (NumX.ofNat ml)] =
      .error (custom "invalid time parameters") := encodeTime_rejects h mi s ml hh hmi hs hml hbad

theorem encodeTime_rejects_negative_float (h mi s ml : Int)
    (bh : -4294967296 ≤ h ∧ h ≤ 4294967296) (bmi : -4294967296 ≤ mi ∧ mi ≤ 4294967296)
    (bs : -4294967296 ≤ s ∧ s ≤ 4294967296) (bml : -4294967296 ≤ ml ∧ ml ≤ 4294967296)
    (hneg : h < 0 ∨ mi < 0 ∨ s < 0 ∨ ml < 0) :
    encodeTime [(.num (NumX.ofInt h) : Value Float), .num (NumX.ofInt mi), .num (NumX.ofInt s), .num (NumX.ofInt ml)] =
      .error (custom "invalid time parameters") := encodeTime_rejects_negative h mi s ml bh bmi bs bml hneg

/-! ### B9. inc_month -/

theorem incMonth_spec_float (t : DT) (ht : t.Enc) (k : Int) (hk1 : -2147483648 ≤ k) (hk2 : k < 2147483648) :
    incMonth [(encode t : Value Float), .num (NumX.ofInt k)] =
      match addMonths t k with
      | some t2 => .ok (encode t2)
      | none => .error (custom (if 0 < k then "inc_month increment overflow" else "inc_month decrement underflow")) :=
  incMonth_spec t ht k hk1 hk2

/-! ### B10. date(x) + time(x) = x -/

/-- for every date-time number `x` of the covered range, `date(x) + time(x)` is `x` itself, bit for bit -/
theorem date_plus_time_float (t : DT) (ht : t.Enc) (a b : Value Float)
    (ha : num1 NumOps.trunc [(encode t : Value Float)] = .ok a) (hb : num1 NumX.fract [(encode t : Value Float)] = .ok b) :
    Value.add a b = .ok (encode t) := date_plus_time t ht a b ha hb

/-! ### non-vacuity: concrete stamps on binary64 numbers -/

/-- 2024-02-29T23:59:59.999 as a binary64 date-time number decodes to year 2024 -/
example : year [(encode (stampDT 2024 2 29 23 59 59 999) : Value Float)] = .ok (.num (F64.ofInt 2024)) :=
  year_spec_float ⟨by decide, by decide, by decide, by decide, by decide, by decide, by decide⟩
example : millisecond [(encode (stampDT 9999 12 31 23 59 59 999) : Value Float)] = .ok (.num (F64.ofNat 999)) :=
  millisecond_spec_float ⟨by decide, by decide, by decide, by decide, by decide, by decide, by decide⟩
example : decode (encode ⟨daysFromCivil 1 1 1, 0⟩ : Value Float) = .ok ⟨daysFromCivil 1 1 1, 0⟩ :=
  decode_encode_float 1 1 1 0 (by decide) (by decide) (by decide) (by decide)
/-- the extreme millisecond counts of the covered range -/
example : F64.toI64 (F64.round ((F64.ofInt 281474976710656 / F64.ofNat 86400000) * F64.ofNat 86400000))
    = 281474976710656 := decode_encode_ms_float _ (by decide) (by decide)
example : F64.toI64 (F64.round ((F64.ofInt (-281474976710655) / F64.ofNat 86400000) * F64.ofNat 86400000))
    = -281474976710655 := decode_encode_ms_float _ (by decide) (by decide)

end Slac.C16
