/-
  C11 — check_boolean_result.
  Model: SlacModel.Validate (`checkBool`, src/validate.rs `check_boolean_result`), SlacModel.Interp (`evalR`).
  If the check accepts a tree, every successful execution yields a Boolean — provided the variables and
  calls in result position (which the check documents as "type not known") yield Booleans.  Literals of other
  kinds, arrays, negation and arithmetic are rejected, at top level and in every checked position of a
  (nested) conditional.  All theorems hold for every number implementation and every environment.
-/
import SlacProofs.ValidateLemmas
import SlacProps.C03
set_option autoImplicit false
set_option linter.unusedSectionVars false
namespace Slac.C11
variable {N : Type} [NumOps N]

/-- The sub-trees whose value can become the result and whose kind the check does not know:
    the tree itself if it is a variable or a call; for a conditional those of its two branches
    (the condition is checked too, but does not flow into the result); nothing otherwise. -/
def resultPos : Expr N → List (Expr N)
  | .ternary _ m r op => if op = .ternaryCondition then resultPos m ++ resultPos r else []
  | .var n => [.var n]
  | .call n ps => [.call n ps]
  | _ => []

/-- acceptance of a conditional means acceptance of condition and both branches, and the operator is `?:` -/
theorem checkBool_ternary {l m r : Expr N} {op : Op} (h : checkBool (.ternary l m r op) = .ok ()) :
    op = .ternaryCondition ∧ checkBool l = .ok () ∧ checkBool m = .ok () ∧ checkBool r = .ok () := by
  cases op <;> simp only [checkBool] at h <;> first | cases h | skip
  obtain ⟨h1, h3⟩ := VErr.andThen_ok h
  obtain ⟨h1, h2⟩ := VErr.andThen_ok h1
  exact ⟨rfl, h1, h2, h3⟩

theorem checkBool_binary {l r : Expr N} {op : Op} (h : checkBool (.binary l r op) = .ok ()) : op ∈ boolOps := by
  cases op <;> simp only [checkBool] at h <;> first | decide | cases h

theorem checkBool_unary {r : Expr N} {op : Op} (h : checkBool (.unary r op) = .ok ()) : op = .not := by
  cases op <;> simp only [checkBool] at h <;> first | rfl | cases h

/-- the value of a conditional is the value of one of its branches -/
theorem ternary_value (env : Env N) (l m r : Expr N) (v : Value N)
    (h : evalR env (.ternary l m r .ternaryCondition) = .ok v) : evalR env m = .ok v ∨ evalR env r = .ok v := by
  simp only [evalR, evalT, ternModel] at h ⊢
  generalize evalT env l = c at h
  obtain ⟨c1, c2⟩ := c
  cases c1 with
  | ok cv =>
    simp only at h
    split at h
    · exact .inl h
    · exact .inr h
  | error e => cases h

def Goal (env : Env N) (e : Expr N) : Prop :=
  checkBool e = .ok () → (∀ x ∈ resultPos e, ∀ v, evalR env x = .ok v → v.isBoolean = true) →
    ∀ v, evalR env e = .ok v → v.isBoolean = true

/-- Main theorem: an accepted tree yields a Boolean whenever it succeeds, provided the variables and calls in
    result position do. -/
theorem bool_result (env : Env N) (e : Expr N) (hc : checkBool e = .ok ())
    (hres : ∀ x ∈ resultPos e, ∀ v, evalR env x = .ok v → v.isBoolean = true)
    (v : Value N) (hv : evalR env e = .ok v) : v.isBoolean = true := by
  suffices h : Goal env e from h hc hres v hv
  refine Expr.rec (motive_1 := fun e => Goal env e) (motive_2 := fun _ => True)
    ?_ ?_ ?_ ?_ ?_ ?_ ?_ ?_ ?_ e
  · intro r op _ hc _ v hv
    cases checkBool_unary hc
    exact C03.not_boolean env r v hv
  · intro l r op _ _ hc _ v hv
    exact C03.boolean_results env l r op (checkBool_binary hc) v hv
  · intro l m r op _ ihm ihr hc hres v hv
    obtain ⟨hop, _, hm, hr⟩ := checkBool_ternary hc
    subst hop
    simp only [resultPos, if_true, List.mem_append] at hres
    rcases ternary_value env l m r v hv with h | h
    · exact ihm hm (fun x hx => hres x (.inl hx)) v h
    · exact ihr hr (fun x hx => hres x (.inr hx)) v h
  · intro es _ hc; simp only [checkBool] at hc; cases hc
  · intro w hc _ v hv
    simp only [evalR, evalT] at hv
    injection hv with hv; subst hv
    cases w <;> simp only [checkBool] at hc <;> first | rfl | cases hc
  · intro n _ hres v hv; exact hres _ (by simp [resultPos]) v hv
  · intro n ps _ _ hres v hv; exact hres _ (by simp [resultPos]) v hv
  · trivial
  · intros; trivial

/-- Corollary: a tree without variables or calls in result position needs no side condition. -/
theorem bool_result_closed (env : Env N) (e : Expr N) (hc : checkBool e = .ok ()) (hnil : resultPos e = [])
    (v : Value N) (hv : evalR env e = .ok v) : v.isBoolean = true :=
  bool_result env e hc (by rw [hnil]; intro x hx; cases hx) v hv

/-- The side condition cannot be dropped: a bare variable is accepted and yields whatever is bound. -/
theorem side_condition_needed (x : N) :
    checkBool (N := N) (.var ['a']) = .ok () ∧
    evalR ⟨fun _ => some (.num x), fun _ _ => .error .wrongParameterType, fun _ => true, fun _ _ => .notFound⟩
      (.var ['a']) = .ok (.num x) := ⟨rfl, rfl⟩

/-! ### Rejections -/

def arithOrPlus : List Op := [.plus, .minus, .multiply, .divide, .div, .mod]

/-- a non-Boolean literal, an array, a negation or an arithmetic node -/
inductive Offending : Expr N → Prop
  | lit (v : Value N) : v.isBoolean = false → Offending (.lit v)
  | array (es : List (Expr N)) : Offending (.array es)
  | neg (r : Expr N) : Offending (.unary r .minus)
  | arith (l r : Expr N) (op : Op) : op ∈ arithOrPlus → Offending (.binary l r op)

/-- the error each offending node is rejected with -/
def offenceOf : Expr N → VErr
  | .unary _ op => .invalidUnaryOperator op
  | .binary _ _ op => .invalidBinaryOperator op
  | _ => .literalNotBoolean

theorem rejects_with {e : Expr N} (h : Offending e) : checkBool e = .error (offenceOf e) := by
  cases h with
  | lit v hv => cases v <;> first | rfl | cases hv
  | array es => rfl
  | neg r => rfl
  | arith l r op hop =>
    simp only [arithOrPlus, List.mem_cons, List.mem_nil_iff, or_false] at hop
    rcases hop with rfl | rfl | rfl | rfl | rfl | rfl <;> rfl

/-- Literals of other kinds, arrays, negation and arithmetic are always rejected. -/
theorem rejects {e : Expr N} (h : Offending e) : checkBool e ≠ .ok () := by
  rw [rejects_with h]; intro h'; cases h'

/-- `x` stands in a position of `e` that `check_boolean_result` inspects: `e` itself, or — through any nesting
    of conditionals — a branch (`mid`, `right`) or a condition (`cond`).  The operator of the enclosing ternary
    node is arbitrary (a ternary node with another operator is rejected anyway). -/
inductive Checked : Expr N → Expr N → Prop
  | here (e : Expr N) : Checked e e
  | cond {x l : Expr N} (m r : Expr N) (op : Op) : Checked x l → Checked x (.ternary l m r op)
  | mid {x m : Expr N} (l r : Expr N) (op : Op) : Checked x m → Checked x (.ternary l m r op)
  | right {x r : Expr N} (l m : Expr N) (op : Op) : Checked x r → Checked x (.ternary l m r op)

/-- `x` is a branch-descendant of `e`: only `mid`/`right` steps (the positions whose value is the result). -/
inductive InBranch : Expr N → Expr N → Prop
  | here (e : Expr N) : InBranch e e
  | mid {x m : Expr N} (l r : Expr N) (op : Op) : InBranch x m → InBranch x (.ternary l m r op)
  | right {x r : Expr N} (l m : Expr N) (op : Op) : InBranch x r → InBranch x (.ternary l m r op)

theorem InBranch.checked {x e : Expr N} (h : InBranch x e) : Checked x e := by
  induction h with
  | here => exact .here _
  | mid l r op _ ih => exact .mid l r op ih
  | right l m op _ ih => exact .right l m op ih

/-- An offending node in any checked position (condition or branch, at any nesting of conditionals) makes the
    check fail. -/
theorem rejects_in_checked {x e : Expr N} (hx : Offending x) (h : Checked x e) : checkBool e ≠ .ok () := by
  induction h with
  | here => exact rejects hx
  | cond m r op _ ih => intro hc; exact ih (checkBool_ternary hc).2.1
  | mid l r op _ ih => intro hc; exact ih (checkBool_ternary hc).2.2.1
  | right l m op _ ih => intro hc; exact ih (checkBool_ternary hc).2.2.2

/-- The same when such a node is the middle or right branch of a conditional, at any nesting of conditionals. -/
theorem rejects_in_branches {x e : Expr N} (hx : Offending x) (h : InBranch x e) : checkBool e ≠ .ok () :=
  rejects_in_checked hx h.checked

/-- What is accepted, exactly: `not`, the nine Boolean-valued binary operators, Boolean literals, variables,
    calls, and conditionals all of whose three operands are accepted. -/
theorem accepts_iff (e : Expr N) : checkBool e = .ok () ↔
    (∃ r, e = .unary r .not) ∨ (∃ l r op, e = .binary l r op ∧ op ∈ boolOps) ∨ (∃ b, e = .lit (.bool b)) ∨
    (∃ n, e = .var n) ∨ (∃ n ps, e = .call n ps) ∨
    (∃ l m r, e = .ternary l m r .ternaryCondition ∧ checkBool l = .ok () ∧ checkBool m = .ok () ∧
      checkBool r = .ok ()) := by
  constructor
  · intro h
    cases e with
    | unary r op => cases checkBool_unary h; exact .inl ⟨r, rfl⟩
    | binary l r op => exact .inr (.inl ⟨l, r, op, rfl, checkBool_binary h⟩)
    | ternary l m r op =>
      obtain ⟨rfl, h1, h2, h3⟩ := checkBool_ternary h
      exact .inr (.inr (.inr (.inr (.inr ⟨l, m, r, rfl, h1, h2, h3⟩))))
    | array es => simp only [checkBool] at h; cases h
    | lit v => cases v <;> simp only [checkBool] at h <;> first | exact .inr (.inr (.inl ⟨_, rfl⟩)) | cases h
    | var n => exact .inr (.inr (.inr (.inl ⟨n, rfl⟩)))
    | call n ps => exact .inr (.inr (.inr (.inr (.inl ⟨n, ps, rfl⟩))))
  · rintro (⟨r, rfl⟩ | ⟨l, r, op, rfl, hop⟩ | ⟨b, rfl⟩ | ⟨n, rfl⟩ | ⟨n, ps, rfl⟩ | ⟨l, m, r, rfl, h1, h2, h3⟩)
    · rfl
    · simp only [boolOps, List.mem_cons, List.mem_nil_iff, or_false] at hop
      rcases hop with rfl | rfl | rfl | rfl | rfl | rfl | rfl | rfl | rfl <;> rfl
    · rfl
    · rfl
    · rfl
    · simp only [checkBool, h1, h2, h3, VErr.andThen]

/-! ### Non-vacuity: concrete instances -/
section Examples

/-- `flag ? (a < 1) : (not ok(2))` with every name bound to / returning `true` -/
def exTree : Expr N :=
  .ternary (.var ['f','l','a','g']) (.binary (.var ['a']) (.lit (.bool true)) .less)
    (.ternary (.lit (.bool false)) (.call ['o','k'] [.lit (.str ['x'])]) (.var ['b']) .ternaryCondition)
    .ternaryCondition
def exEnv : Env N := ⟨fun _ => some (.bool true), fun _ _ => .ok (.bool false), fun _ => true, fun _ _ => .exist true⟩

example : checkBool (exTree (N := N)) = .ok () := rfl
example : resultPos (exTree (N := N)) = [.call ['o','k'] [.lit (.str ['x'])], .var ['b']] := rfl
/-- hypotheses of `bool_result` are satisfiable on `exTree`/`exEnv`, and its conclusion is informative -/
example : ∀ v, evalR (exEnv (N := N)) exTree = .ok v → v.isBoolean = true := by
  intro v hv
  refine bool_result exEnv exTree rfl ?_ v hv
  intro x hx w hw
  simp only [exTree, resultPos, if_true, List.cons_append, List.nil_append,
    List.mem_cons, List.mem_nil_iff, or_false] at hx
  rcases hx with rfl | rfl
  · simp only [evalR, evalT, evalList, exEnv] at hw; cases hw; rfl
  · simp only [evalR, evalT, exEnv] at hw; cases hw; rfl
example : ∃ v, evalR (exEnv (N := N)) exTree = .ok v := ⟨_, rfl⟩

/-- `u or 5` with `u` undefined is accepted and yields a Boolean (finding D1 would break exactly this) -/
example (five : N) (env : Env N) (_hu : env.var ['u'] = none) :
    ∀ v, evalR env (.binary (.var ['u']) (.lit (.num five)) .or) = .ok v → v.isBoolean = true :=
  fun v hv => bool_result env _ rfl (by intro x hx; cases hx) v hv

example (x : N) : checkBool (N := N) (.lit (.num x)) ≠ .ok () := rejects (.lit _ rfl)
example : checkBool (N := N) (.lit (.str ['a'])) = .error .literalNotBoolean := rejects_with (.lit _ rfl)
example : checkBool (N := N) (.array [.lit (.bool true)]) ≠ .ok () := rejects (.array _)
example : checkBool (N := N) (.unary (.lit (.bool true)) .minus) = .error (.invalidUnaryOperator .minus) :=
  rejects_with (.neg _)
example (x : N) : checkBool (N := N) (.binary (.lit (.num x)) (.lit (.num x)) .plus) ≠ .ok () :=
  rejects (.arith _ _ _ (by decide))
/-- `c ? (d ? 1 + 1 : true) : false` — arithmetic two conditionals deep -/
example (x : N) : checkBool (N := N)
    (.ternary (.var ['c']) (.ternary (.var ['d']) (.binary (.lit (.num x)) (.lit (.num x)) .plus) (.lit (.bool true))
      .ternaryCondition) (.lit (.bool false)) .ternaryCondition) ≠ .ok () :=
  rejects_in_branches (.arith _ _ _ (by decide)) (.mid _ _ _ (.mid _ _ _ (.here _)))
/-- `-1 ? true : false` — negation as the condition -/
example (x : N) : checkBool (N := N)
    (.ternary (.unary (.lit (.num x)) .minus) (.lit (.bool true)) (.lit (.bool false)) .ternaryCondition) ≠ .ok () :=
  rejects_in_checked (.neg _) (.cond _ _ _ (.here _))

end Examples
end Slac.C11
