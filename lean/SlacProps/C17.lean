/-
  C17 — conversions and math builtins of the standard library (src/stdlib/common.rs str/float/int/bool,
  string.rs chr/ord, math.rs).  Model: SlacModel.Stdlib (generic in the number type `N`, `[NumX N]`), registry
  SlacModel.Registry; the driver's numbers are core `Float` with the bit-level definitions of SlacModel.Num.

  What is proved (details and everything that is relative to a hypothesis are stated at the theorems):
  1. generic in N: every math builtin IS the library function of `NumX` (abs, arc_tan, cos, exp, frac, ln, round,
     sin, sqrt, trunc via the macro arms; pow with default exponent 2), wrong kinds/counts give the Rust arms'
     errors; `int = trunc ∘ float`, `bool = as_bool`, `float` of String/Boolean/Number, `str = Display`.
  2. generic in N with `LawfulAscii N` (two facts about the integers 0..127, proved for Float): chr and ord are
     mutually inverse on 0..127; ord rejects non-ASCII, empty and longer strings; chr rejects every number outside
     0.0..=127.0.  OBSERVATION (`chr_accepts_fractions`): chr does NOT reject fractions inside the range —
     chr(65.5) = "A" (Rust `65.5 as u32`); for Float every accepted number yields a code point ≤ 127.
  3. for the driver's doubles, from core's logical float model (Init/Data/Float/Model, no lemma library exists
     there — the bridge is SlacProofs.F64Bits):
     trunc idempotent / sign-preserving / |trunc x| ≤ |x|;  trunc x + frac x = x for every finite x (bitwise,
     except -0.0 ↦ +0.0);  round = nearest integer, ties away from zero (|x| < 2^52, identity above);
     even(n) ⇔ 2 ∣ n and odd(n) ⇔ ¬ even(n) for every integer |n| ≤ 2^53 (`n as f64`) and for EVERY integer-valued
     double of any magnitude (`even_of_integer_valued`); odd = not even for EVERY number;
     int_to_hex(x) = upper-case hex numeral of the exact integer part of x for every finite x with 0 ≤ ⌊x⌋ < 2^63
     (two's complement below zero, saturation outside i64), and the numeral really is base 16 (evaluates back,
     digits 0-9A-F, no leading 0);
     float(str(x)) = x for EVERY double, unconditionally (`float_str`): printing = shortest digits that read back,
     parsing = `Float.ofScientific`; proved from core's model incl. correct rounding of decimal → binary on all
     four code paths and the 17-digit argument (SlacProofs.F64Parse/F64Rwa/F64Sci/F64Near/F64Search); the
     boundary values are additionally kernel-evaluated (SlacProofs.F64Tests).
-/
import SlacModel.Registry
import SlacProofs.MathHex
import SlacProofs.F64Cast
import SlacProofs.F64RoundHalf
import SlacProofs.F64Even
import SlacProofs.F64Hex
import SlacProofs.F64Tests
import SlacProofs.F64Search
set_option autoImplicit false
namespace Slac.C17
open Stdlib Registry
set_option linter.unusedSectionVars false
variable {N : Type} [NumX N]


/-! ## 1. the math builtins ARE the library functions -/

/-- the registry entries of the ten one-argument math functions -/
theorem registry_math (cm : CaseMap) (off : Nat) :
    builtin (N := N) cm off "abs" = some (tot (num1 NumX.abs)) ∧
    builtin (N := N) cm off "arc_tan" = some (tot (num1 NumX.atan)) ∧
    builtin (N := N) cm off "cos" = some (tot (num1 NumX.cos)) ∧
    builtin (N := N) cm off "exp" = some (tot (num1 NumX.exp)) ∧
    builtin (N := N) cm off "frac" = some (tot (num1 NumX.fract)) ∧
    builtin (N := N) cm off "ln" = some (tot (num1 NumX.ln)) ∧
    builtin (N := N) cm off "round" = some (tot (num1 NumX.round)) ∧
    builtin (N := N) cm off "sin" = some (tot (num1 NumX.sin)) ∧
    builtin (N := N) cm off "sqrt" = some (tot (num1 NumX.sqrt)) ∧
    builtin (N := N) cm off "trunc" = some (tot (num1 NumOps.trunc)) :=
  ⟨rfl, rfl, rfl, rfl, rfl, rfl, rfl, rfl, rfl, rfl⟩

/-- the other builtins of this property -/
theorem registry_conv (cm : CaseMap) (off : Nat) :
    builtin (N := N) cm off "str" = some strF ∧ builtin (N := N) cm off "float" = some (tot float) ∧
    builtin (N := N) cm off "int" = some (tot int) ∧ builtin (N := N) cm off "bool" = some (tot Stdlib.bool) ∧
    builtin (N := N) cm off "chr" = some (tot chr) ∧ builtin (N := N) cm off "ord" = some (tot ord) ∧
    builtin (N := N) cm off "int_to_hex" = some (tot intToHex) ∧ builtin (N := N) cm off "even" = some (tot even) ∧
    builtin (N := N) cm off "odd" = some (tot odd) ∧ builtin (N := N) cm off "pow" = some (tot pow) :=
  ⟨rfl, rfl, rfl, rfl, rfl, rfl, rfl, rfl, rfl, rfl⟩

/-- a call of a registry entry -/
def call (cm : CaseMap) (off : Nat) (name : String) (ps : List (Value N)) : Option (Option (Res N)) :=
  (builtin (N := N) cm off name).map fun f => f ps

/-- macro-generated arms of math.rs: `[Number(x)] => Ok(Number(x.f()))`, `[_] => WrongParameterType`,
    `_ => WrongParameterCount(1)` -/
theorem num1_num (f : N → N) (x : N) : num1 f [.num x] = .ok (.num (f x)) := rfl
theorem num1_wrong_type (f : N → N) (v : Value N) (h : v.isNumber = false) : num1 f [v] = .error .wrongParameterType := by
  cases v <;> first | rfl | simp [Value.isNumber] at h
theorem num1_wrong_count (f : N → N) (ps : List (Value N)) (h : ps.length ≠ 1) :
    num1 f ps = .error (.wrongParameterCount 1) := by
  match ps, h with
  | [], _ => rfl
  | a :: _ :: _, _ => cases a <;> rfl
  | [_], h => simp at h

theorem abs_is_lib (cm : CaseMap) (off : Nat) (x : N) : call cm off "abs" [.num x] = some (some (.ok (.num (NumX.abs x)))) := rfl
theorem arc_tan_is_lib (cm : CaseMap) (off : Nat) (x : N) : call cm off "arc_tan" [.num x] = some (some (.ok (.num (NumX.atan x)))) := rfl
theorem cos_is_lib (cm : CaseMap) (off : Nat) (x : N) : call cm off "cos" [.num x] = some (some (.ok (.num (NumX.cos x)))) := rfl
theorem exp_is_lib (cm : CaseMap) (off : Nat) (x : N) : call cm off "exp" [.num x] = some (some (.ok (.num (NumX.exp x)))) := rfl
theorem frac_is_lib (cm : CaseMap) (off : Nat) (x : N) : call cm off "frac" [.num x] = some (some (.ok (.num (NumX.fract x)))) := rfl
theorem ln_is_lib (cm : CaseMap) (off : Nat) (x : N) : call cm off "ln" [.num x] = some (some (.ok (.num (NumX.ln x)))) := rfl
theorem round_is_lib (cm : CaseMap) (off : Nat) (x : N) : call cm off "round" [.num x] = some (some (.ok (.num (NumX.round x)))) := rfl
theorem sin_is_lib (cm : CaseMap) (off : Nat) (x : N) : call cm off "sin" [.num x] = some (some (.ok (.num (NumX.sin x)))) := rfl
theorem sqrt_is_lib (cm : CaseMap) (off : Nat) (x : N) : call cm off "sqrt" [.num x] = some (some (.ok (.num (NumX.sqrt x)))) := rfl
theorem trunc_is_lib (cm : CaseMap) (off : Nat) (x : N) : call cm off "trunc" [.num x] = some (some (.ok (.num (NumOps.trunc x)))) := rfl

example (cm : CaseMap) : call (N := Float) cm 1 "sqrt" [.num 2] = some (some (.ok (.num (Float.sqrt 2)))) := rfl
example (cm : CaseMap) : call (N := Float) cm 1 "sin" [.str ['x']] = some (some (.error .wrongParameterType)) := rfl
example (cm : CaseMap) : call (N := Float) cm 1 "sin" [] = some (some (.error (.wrongParameterCount 1))) := rfl
example : num1 (N := Float) NumX.abs [.num 1, .num 2] = .error (.wrongParameterCount 1) :=
  num1_wrong_count _ _ (by decide)

/-- pow: default exponent 2 -/
theorem pow_default (x : N) : pow [.num x] = .ok (.num (NumX.pow x (NumX.ofNat 2))) := rfl
theorem pow_two_args (x y : N) : pow [.num x, .num y] = .ok (.num (NumX.pow x y)) := rfl
/-- further parameters are ignored by the function itself (the arity check `optional(1,1)` sits in the caller) -/
theorem pow_more_args (x y : N) (rest : List (Value N)) : pow (.num x :: .num y :: rest) = .ok (.num (NumX.pow x y)) := rfl
theorem pow_no_args : pow ([] : List (Value N)) = .error (.wrongParameterCount 1) := rfl
theorem pow_bad_base (v : Value N) (h : v.isNumber = false) : pow [v] = .error .wrongParameterType := by
  cases v <;> first | rfl | simp [Value.isNumber] at h
/-- a non-number exponent is reported first (`default_number(..)?` precedes the match) -/
theorem pow_bad_exponent (b e : Value N) (h : e.isNumber = false) : pow [b, e] = .error .wrongParameterType := by
  cases e <;> first | rfl | simp [Value.isNumber] at h

example : pow [(.num 10 : Value Float)] = .ok (.num (Float.pow 10 (F64.ofNat 2))) := pow_default 10
example : pow [(.num 10 : Value Float), .num (-3)] = .ok (.num (Float.pow 10 (-3))) := pow_two_args 10 (-3)
example : pow [(.bool true : Value Float)] = .error .wrongParameterType := pow_bad_base _ rfl
example : pow [(.num 10 : Value Float), .bool true] = .error .wrongParameterType := pow_bad_exponent _ _ rfl

/-! ## str / float / int / bool follow the documented conversions -/

theorem bool_def (v : Value N) : Stdlib.bool [v] = .ok (.bool v.asBool) := rfl
theorem bool_wrong_count (ps : List (Value N)) (h : ps.length ≠ 1) : Stdlib.bool ps = .error (.wrongParameterCount 1) := by
  match ps, h with
  | [], _ => rfl
  | _ :: _ :: _, _ => rfl
  | [_], h => simp at h

example : Stdlib.bool [(.str ['x'] : Value Float)] = .ok (.bool true) ∧ Stdlib.bool [(.num 0 : Value Float)] = .ok (.bool false) ∧
    Stdlib.bool [(.arr [] : Value Float)] = .ok (.bool false) := by
  refine ⟨?_, ?_, ?_⟩ <;> rw [bool_def] <;> exact congrArg (fun b => Except.ok (Value.bool b)) (by decide)

theorem float_bool (b : Bool) : float [(.bool b : Value N)] = .ok (.num (NumOps.ofBool b)) := rfl
theorem float_num (x : N) : float [.num x] = .ok (.num x) := rfl
theorem float_of_string (s : Str) :
    float [(.str s : Value N)] = match NumOps.parse (N := N) s with
      | some x => .ok (.num x)
      | none => .error (parseFloatError s) := rfl
theorem float_arr (vs : List (Value N)) : float [.arr vs] = .error .wrongParameterType := rfl
theorem float_wrong_count (ps : List (Value N)) (h : ps.length ≠ 1) : float ps = .error (.wrongParameterCount 1) := by
  match ps, h with
  | [], _ => rfl
  | a :: _ :: _, _ => cases a <;> rfl
  | [_], h => simp at h

/-- the error for EVERY unparsable text: std's `ParseFloatError` text ("cannot parse float from empty string" for `float("")`, "invalid float
    literal" otherwise) as a custom error -/
theorem float_unparsable (s : Str) (h : NumOps.parse (N := N) s = none) :
    float [(.str s : Value N)] = .error (parseFloatError s) := by rw [float_of_string, h]

example : float [(.bool true : Value Float)] = .ok (.num 1) := float_bool true
example : float [(.str ['1','e','3'] : Value Float)] = .ok (.num 1000) := by
  rw [float_of_string]; have : NumOps.parse (N := Float) ['1','e','3'] = some 1000 := by decide +kernel
  rw [this]
example : float [(.str ['a'] : Value Float)] = .error (custom "invalid float literal") :=
  float_unparsable _ (by decide +kernel)
example : float [(.str [] : Value Float)] = .error (custom "cannot parse float from empty string") :=
  float_unparsable _ (by decide +kernel)

/-- `int` is `float` followed by `trunc` -/
theorem int_def (ps : List (Value N)) :
    int ps = match float ps with
      | .ok (.num x) => .ok (.num (NumOps.trunc x))
      | .ok _ => .error .wrongParameterType
      | .error e => .error e := rfl
theorem int_num (x : N) : int [.num x] = .ok (.num (NumOps.trunc x)) := rfl
theorem int_bool (b : Bool) : int [(.bool b : Value N)] = .ok (.num (NumOps.trunc (NumOps.ofBool b))) := rfl
theorem int_of_string (s : Str) :
    int [(.str s : Value N)] = match NumOps.parse (N := N) s with
      | some x => .ok (.num (NumOps.trunc x))
      | none => .error (parseFloatError s) := by
  simp only [int, float]; cases NumOps.parse (N := N) s <;> rfl

example : int [(.str ['-','2','.','7'] : Value Float)] = .ok (.num (-2)) := by
  rw [int_of_string]
  have : NumOps.parse (N := Float) ['-','2','.','7'] = some (-2.7) := by decide +kernel
  rw [this]
  exact congrArg (fun x => Except.ok (Value.num x)) (by decide +kernel : F64.trunc (-2.7) = -2)

/-- `str` is `Display for Value` (arrays are outside the model: Rust's `Debug` rendering) -/
theorem str_def (v : Value N) : strF [v] = (valueToString v).map fun s => .ok (.str s) := rfl
theorem str_num (x : N) : strF [.num x] = some (.ok (.str (NumX.display x))) := rfl
theorem str_bool (b : Bool) : strF [(.bool b : Value N)] = some (.ok (.str (if b then ['t','r','u','e'] else ['f','a','l','s','e']))) := by
  cases b <;> rfl
theorem str_str (s : Str) : strF [(.str s : Value N)] = some (.ok (.str s)) := rfl

/-- `float(str(x)) = x` reduces to the printing/parsing round trip of the number type -/
theorem float_str_of_roundtrip (x : N) (h : NumOps.parse (NumX.display x) = some x) :
    (strF [.num x]).map (fun r => r.bind fun s => float [s]) = some (.ok (.num x)) := by
  simp only [str_num, Option.map, Except.bind, float, h]


/-! ## 2. chr / ord -/

/-- what `chr`/`ord` need from the number type: the integers 0..127 lie in `0.0..=127.0` and survive `as u32`.
    True of IEEE doubles (instance below, SlacProofs.F64Ascii). -/
class LawfulAscii (N : Type) [NumX N] : Prop where
  inAscii_ofNat : ∀ n : Nat, n ≤ 127 → NumX.inAscii (NumX.ofNat n : N) = true
  toU32_ofNat : ∀ n : Nat, n ≤ 127 → NumX.toU32 (NumX.ofNat n : N) = n

theorem char_ofNat_toNat (c : Char) : Char.ofNat c.toNat = c := by
  simp

theorem toNat_char_ofNat (n : Nat) (h : n ≤ 127) : (Char.ofNat n).toNat = n := by
  have : n.isValidChar := Or.inl (by omega)
  simp [Char.ofNat, this, Char.toNat, Char.ofNatAux]

/-- `ord(chr(n)) = n` for every n in 0..127, with both calls succeeding -/
theorem ord_chr [LawfulAscii N] (n : Nat) (h : n ≤ 127) :
    chr [.num (NumX.ofNat n : N)] = .ok (.str [Char.ofNat n]) ∧
    ord [(.str [Char.ofNat n] : Value N)] = .ok (.num (NumX.ofNat n)) := by
  constructor
  · simp only [chr, LawfulAscii.inAscii_ofNat n h, LawfulAscii.toU32_ofNat n h, if_true]
  · simp only [ord, toNat_char_ofNat n h]
    rw [if_pos (by omega)]

/-- `chr(ord(c)) = c` for every ASCII character, with both calls succeeding -/
theorem chr_ord [LawfulAscii N] (c : Char) (h : c.toNat ≤ 127) :
    ord [(.str [c] : Value N)] = .ok (.num (NumX.ofNat c.toNat)) ∧
    chr [.num (NumX.ofNat c.toNat : N)] = .ok (.str [c]) := by
  constructor
  · simp only [ord]; rw [if_pos (by omega)]
  · simp only [chr, LawfulAscii.inAscii_ofNat c.toNat h, LawfulAscii.toU32_ofNat c.toNat h, if_true,
      char_ofNat_toNat]

/-- `ord` rejects everything that is not a single ASCII character -/
theorem ord_rejects :
    (∀ c : Char, 128 ≤ c.toNat → ord [(.str [c] : Value N)] = .error (custom "character is out of ASCII range")) ∧
    ord [(.str [] : Value N)] = .error (custom "string is too long") ∧
    (∀ (a b : Char) (r : Str), ord [(.str (a :: b :: r) : Value N)] = .error (custom "string is too long")) ∧
    (∀ v : Value N, (∀ s, v ≠ .str s) → ord [v] = .error .wrongParameterType) ∧
    (∀ ps : List (Value N), ps.length ≠ 1 → ord ps = .error (.wrongParameterCount 1)) := by
  refine ⟨?_, rfl, fun _ _ _ => rfl, ?_, ?_⟩
  · intro c h; simp only [ord]; rw [if_neg (by omega)]
  · intro v h; cases v with
    | str s => exact absurd rfl (h s)
    | _ => rfl
  · intro ps h
    match ps, h with
    | [], _ => rfl
    | a :: _ :: _, _ =>
      cases a with
      | str s => match s with
        | [] => rfl
        | [_] => rfl
        | _ :: _ :: _ => rfl
      | _ => rfl
    | [_], h => simp at h

/-- `chr` rejects every number outside `0.0..=127.0` (NaN included: `contains` is false) -/
theorem chr_rejects (x : N) (h : NumX.inAscii x = false) :
    chr [.num x] = .error (custom "number is out of ASCII range") := by
  simp only [chr, h]; rfl

theorem chr_accepts (x : N) (h : NumX.inAscii x = true) :
    chr [.num x] = .ok (.str [Char.ofNat (NumX.toU32 x)]) := by
  simp only [chr, h, if_true]

theorem chr_wrong_type (v : Value N) (h : v.isNumber = false) : chr [v] = .error .wrongParameterType := by
  cases v <;> first | rfl | simp [Value.isNumber] at h
theorem chr_wrong_count (ps : List (Value N)) (h : ps.length ≠ 1) : chr ps = .error (.wrongParameterCount 1) := by
  match ps, h with
  | [], _ => rfl
  | a :: _ :: _, _ => cases a <;> rfl
  | [_], h => simp at h

/-! ## even / odd (generic part) -/

/-- `odd(x) = not even(x)` for every number (NaN and infinities included: both sides use the same test) -/
theorem odd_eq_not_even (x : N) :
    even [.num x] = .ok (.bool (isEven x)) ∧ odd [.num x] = .ok (.bool (!isEven x)) := ⟨rfl, rfl⟩

theorem odd_iff_not_even (x : N) (b : Bool) : even [.num x] = .ok (.bool b) ↔ odd [.num x] = .ok (.bool (!b)) := by
  simp only [even, odd]
  constructor
  · intro h; injection h with h; injection h with h; rw [h]
  · intro h; injection h with h; injection h with h
    have : isEven x = b := by cases hx : isEven x <;> cases b <;> simp_all
    rw [this]

theorem even_wrong_type (v : Value N) (h : v.isNumber = false) :
    even [v] = .error .wrongParameterType ∧ odd [v] = .error .wrongParameterType := by
  cases v <;> first | exact ⟨rfl, rfl⟩ | simp [Value.isNumber] at h
theorem even_wrong_count (ps : List (Value N)) (h : ps.length ≠ 1) :
    even ps = .error (.wrongParameterCount 1) ∧ odd ps = .error (.wrongParameterCount 1) := by
  match ps, h with
  | [], _ => exact ⟨rfl, rfl⟩
  | a :: _ :: _, _ => cases a <;> exact ⟨rfl, rfl⟩
  | [_], h => simp at h

/-! ## int_to_hex (generic part) -/

/-- `int_to_hex(x)` is the upper-case hexadecimal numeral of `trunc(x) as i64` when that is non-negative -/
theorem int_to_hex_nonneg (x : N) (h : 0 ≤ NumX.toI64 (NumOps.trunc x)) :
    intToHex [.num x] = .ok (.str (upperHexDigits (NumX.toI64 (NumOps.trunc x)).toNat)) := by
  simp only [intToHex, hexUpperI64]; rw [if_neg (by omega)]

/-- negative values print as 64-bit two's complement (Rust `{:X}` of an `i64`) -/
theorem int_to_hex_neg (x : N) (h : NumX.toI64 (NumOps.trunc x) < 0) :
    intToHex [.num x] = .ok (.str (upperHexDigits (2^64 + NumX.toI64 (NumOps.trunc x)).toNat)) := by
  simp only [intToHex, hexUpperI64]; rw [if_pos h]

/-- what `int_to_hex_spec` needs from the number type: exactly representable integers are fixed by `trunc`
    and survive `as i64`.  True of IEEE doubles for |n| ≤ 2^53 (SlacProofs.F64Cast). -/
class LawfulI64 (N : Type) [NumX N] : Prop where
  trunc_ofInt : ∀ n : Int, n.natAbs ≤ 2^53 → NumOps.trunc (NumX.ofInt n : N) = NumX.ofInt n
  toI64_ofInt : ∀ n : Int, n.natAbs ≤ 2^53 → NumX.toI64 (NumX.ofInt n : N) = n

theorem int_to_hex_spec [LawfulI64 N] (n : Int) (h0 : 0 ≤ n) (h : n ≤ 2^53) :
    intToHex [.num (NumX.ofInt n : N)] = .ok (.str (upperHexDigits n.toNat)) := by
  have hn : n.natAbs ≤ 2^53 := by omega
  rw [int_to_hex_nonneg]
  · rw [LawfulI64.trunc_ofInt n hn, LawfulI64.toI64_ofInt n hn]
  · rw [LawfulI64.trunc_ofInt n hn, LawfulI64.toI64_ofInt n hn]; exact h0

/-- and `upperHexDigits` is the hexadecimal numeral: evaluates back to n, digits 0-9A-F, no leading zero -/
theorem upperHexDigits_is_hex (n : Nat) :
    MathHex.evalHex (upperHexDigits n) = n ∧
    (∀ c ∈ upperHexDigits n, MathHex.isUpperHex c = true) ∧
    (0 < n → (upperHexDigits n).head? ≠ some '0') ∧
    upperHexDigits n ≠ [] :=
  ⟨MathHex.evalHex_upperHexDigits n, MathHex.upperHexDigits_all n, MathHex.upperHexDigits_head n,
   MathHex.upperHexDigits_ne_nil n⟩

theorem int_to_hex_wrong_type (v : Value N) (h : v.isNumber = false) : intToHex [v] = .error .wrongParameterType := by
  cases v <;> first | rfl | simp [Value.isNumber] at h
theorem int_to_hex_wrong_count (ps : List (Value N)) (h : ps.length ≠ 1) :
    intToHex ps = .error (.wrongParameterCount 1) := by
  match ps, h with
  | [], _ => rfl
  | a :: _ :: _, _ => cases a <;> rfl
  | [_], h => simp at h


/-! ## 3. the driver's doubles (core `Float`, bit-level definitions of SlacModel.Num) -/
section FloatFacts
open F64

/-- the two ASCII facts hold for IEEE doubles (128 kernel evaluations) -/
instance : LawfulAscii Float where
  inAscii_ofNat n h := (F64.ascii_table n h).1
  toU32_ofNat n h := (F64.ascii_table n h).2

/-- exactly representable integers are fixed by `trunc` and survive `as i64` -/
instance : LawfulI64 Float where
  trunc_ofInt := F64.trunc_ofInt
  toI64_ofInt := F64.toI64_ofInt

/-- chr and ord are mutually inverse on the whole ASCII range, for the driver's numbers -/
theorem ord_chr_float (n : Nat) (h : n ≤ 127) :
    chr [.num (F64.ofNat n)] = .ok (.str [Char.ofNat n]) ∧
    ord [(.str [Char.ofNat n] : Value Float)] = .ok (.num (F64.ofNat n)) := ord_chr (N := Float) n h
theorem chr_ord_float (c : Char) (h : c.toNat ≤ 127) :
    ord [(.str [c] : Value Float)] = .ok (.num (F64.ofNat c.toNat)) ∧
    chr [.num (F64.ofNat c.toNat)] = .ok (.str [c]) := chr_ord (N := Float) c h

example : chr [(.num 65 : Value Float)] = .ok (.str ['A']) ∧ ord [(.str ['A'] : Value Float)] = .ok (.num 65) :=
  ord_chr_float 65 (by decide)
example : ord [(.str ['é'] : Value Float)] = .error (custom "character is out of ASCII range") :=
  (ord_rejects (N := Float)).1 'é' (by decide)
example : ord [(.str ['a','b'] : Value Float)] = .error (custom "string is too long") := rfl

/-- whatever `chr` accepts, its result is a single ASCII character -/
theorem chr_result_ascii (x : Float) (s : Str) (h : chr [.num x] = .ok (.str s)) :
    ∃ c : Char, s = [c] ∧ c.toNat ≤ 127 ∧ NumX.inAscii x = true := by
  cases hx : NumX.inAscii x with
  | false => rw [chr_rejects x hx] at h; cases h
  | true =>
    rw [chr_accepts x hx] at h
    injection h with h; injection h with h
    refine ⟨Char.ofNat (NumX.toU32 x), h.symm, ?_, rfl⟩
    rw [toNat_char_ofNat _ (F64.toU32_le_of_inAscii x hx)]
    exact F64.toU32_le_of_inAscii x hx

/-- OBSERVATION about "reject everything else": fractions inside 0.0..=127.0 are NOT rejected; they are
    truncated (`ordinal as u32`): chr(65.5) = "A", chr(0.99) = "\0", chr(-0.0) = "\0"; 127.5 and -0.5 are rejected. -/
theorem chr_accepts_fractions :
    chr [(.num 65.5 : Value Float)] = .ok (.str ['A']) ∧
    chr [(.num 0.99 : Value Float)] = .ok (.str [Char.ofNat 0]) ∧
    chr [(.num 127.5 : Value Float)] = .error (custom "number is out of ASCII range") ∧
    chr [(.num (-0.5) : Value Float)] = .error (custom "number is out of ASCII range") ∧
    chr [(.num F64.nan : Value Float)] = .error (custom "number is out of ASCII range") := by
  obtain ⟨h1, h2, h3, h4, _, h6, _, _, h9, h10⟩ := F64Tests.chr_samples
  refine ⟨?_, ?_, chr_rejects _ h3, chr_rejects _ h4, chr_rejects _ h6⟩
  · rw [chr_accepts _ h1, h2]
  · rw [chr_accepts _ h9, h10]

/-! ### even / odd -/

/-- `even(n)` holds iff n is divisible by 2, `odd(n)` iff not, for every integer of either sign that lies in the
    range |n| ≤ 2^53 where doubles represent all integers. -/
theorem even_iff_divisible (n : Int) (h : n.natAbs ≤ 2^53) :
    even [(.num (F64.ofInt n) : Value Float)] = .ok (.bool (decide (n % 2 = 0))) ∧
    odd [(.num (F64.ofInt n) : Value Float)] = .ok (.bool (decide (n % 2 ≠ 0))) := by
  have := F64.isEven_ofInt n h
  constructor
  · simp only [even, this]
  · simp only [odd, this]
    by_cases h2 : n % 2 = 0 <;> simp [h2]

example : even [(.num (F64.ofInt (-7)) : Value Float)] = .ok (.bool false) ∧
    odd [(.num (F64.ofInt (-7)) : Value Float)] = .ok (.bool true) := even_iff_divisible (-7) (by decide)
example : even [(.num (F64.ofInt (-(2^53))) : Value Float)] = .ok (.bool true) :=
  (even_iff_divisible (-(2^53)) (by decide)).1

/-- the same for EVERY integer-valued double — any magnitude (beyond 2^53 all doubles are even integers), either sign,
    ±0: `even(x)` iff the integer x represents (`truncToInt x`, exact) is divisible by 2, `odd(x)` iff not. -/
theorem even_of_integer_valued (x : Float) (hf : F64.isFinite x = true) (hint : NumOps.trunc x = x) :
    even [(.num x : Value Float)] = .ok (.bool (decide (F64.truncToInt x % 2 = 0))) ∧
    odd [(.num x : Value Float)] = .ok (.bool (decide (F64.truncToInt x % 2 ≠ 0))) := by
  have := F64.isEven_of_integer x hf hint
  constructor
  · simp only [even, this]
  · simp only [odd, this]
    by_cases h2 : F64.truncToInt x % 2 = 0 <;> simp [h2]

example : even [(.num (F64.ofInt (2^60 + 2^8)) : Value Float)] = .ok (.bool true) := by
  have h := (even_of_integer_valued (F64.ofInt (2^60 + 2^8)) (by decide +kernel) (by decide +kernel)).1
  rw [h]; exact congrArg (fun b => Except.ok (Value.bool b)) (by decide +kernel)

/-- beyond the integers (tests): `floor` is applied first, so even(-2.5) is false (floor -3); every double ≥ 2^53
    is even; NaN and ±inf are "odd" (`NaN == 0.0` is false) -/
theorem even_beyond_integers :
    isEven (2.5 : Float) = true ∧ isEven (-2.5 : Float) = false ∧ isEven (1e300 : Float) = true ∧
    isEven F64.nan = false ∧ isEven F64.inf = false :=
  ⟨F64Tests.even_samples.1, F64Tests.even_samples.2.1, F64Tests.even_samples.2.2.1,
   F64Tests.even_samples.2.2.2.2.2.2.1, F64Tests.even_samples.2.2.2.2.2.2.2.1⟩

/-! ### int_to_hex -/

/-- `int_to_hex(n)` is the upper-case hexadecimal numeral of n, for every integer 0 ≤ n ≤ 2^53 -/
theorem int_to_hex_float (n : Int) (h0 : 0 ≤ n) (h : n ≤ 2^53) :
    intToHex [(.num (F64.ofInt n) : Value Float)] = .ok (.str (upperHexDigits n.toNat)) :=
  int_to_hex_spec (N := Float) n h0 h

example : intToHex [(.num (F64.ofInt 3735928559) : Value Float)] = .ok (.str ['D','E','A','D','B','E','E','F']) := by
  rw [int_to_hex_float 3735928559 (by decide) (by decide)]
  exact congrArg (fun s => Except.ok (Value.str s)) (by decide)

/-- for EVERY finite double with 0 ≤ ⌊x⌋ < 2^63 (fractions, values beyond 2^53 included): `int_to_hex(x)` is the
    upper-case hexadecimal numeral of the exact integer part of x ("the truncated non-negative value") -/
theorem int_to_hex_of_value (x : Float) (hf : F64.isFinite x = true)
    (h0 : 0 ≤ F64.truncToInt x) (h63 : F64.truncToInt x < 2^63) :
    intToHex [(.num x : Value Float)] = .ok (.str (upperHexDigits (F64.truncToInt x).toNat)) := by
  have h := F64.toI64_trunc x hf
  rw [if_neg (by omega), if_neg (by omega)] at h
  have h' : NumX.toI64 (NumOps.trunc x) = F64.truncToInt x := h
  rw [int_to_hex_nonneg x (by rw [h']; exact h0), h']

example : intToHex [(.num 3735928559.1234 : Value Float)] = .ok (.str ['D','E','A','D','B','E','E','F']) := by
  rw [int_to_hex_of_value _ (by decide +kernel) (by decide +kernel) (by decide +kernel)]
  exact congrArg (fun s => Except.ok (Value.str s)) (by decide +kernel)

/-- negative finite values down to -2^63: the two's complement of the integer part -/
theorem int_to_hex_of_negative (x : Float) (hf : F64.isFinite x = true)
    (h0 : F64.truncToInt x < 0) (h63 : -(2^63) ≤ F64.truncToInt x) :
    intToHex [(.num x : Value Float)] = .ok (.str (upperHexDigits (2^64 + F64.truncToInt x).toNat)) := by
  have h := F64.toI64_trunc x hf
  rw [if_neg (by omega), if_neg (by omega)] at h
  have h' : NumX.toI64 (NumOps.trunc x) = F64.truncToInt x := h
  rw [int_to_hex_neg x (by rw [h']; exact h0), h']

/-- tests: fractions are truncated first; negative values print as two's complement; NaN ↦ "0";
    out-of-range values saturate (`as i64`) -/
theorem int_to_hex_tests :
    intToHex [(.num 3735928559.1234 : Value Float)] = .ok (.str ['D','E','A','D','B','E','E','F']) ∧
    intToHex [(.num (-1) : Value Float)] = .ok (.str (List.replicate 16 'F')) ∧
    intToHex [(.num F64.nan : Value Float)] = .ok (.str ['0']) ∧
    intToHex [(.num 1e300 : Value Float)] = .ok (.str ('7' :: List.replicate 15 'F')) := by
  obtain ⟨h1, h2, h3, h4, h5, h6, _⟩ := F64Tests.hex_samples
  refine ⟨?_, ?_, ?_, ?_⟩
  · rw [int_to_hex_nonneg _ (by have := h1; omega), h1]; exact congrArg _ (congrArg _ h2)
  · rw [int_to_hex_neg _ (by have := h3; omega), h3]; exact congrArg _ (congrArg _ h4)
  · rw [int_to_hex_nonneg _ (by have := h5; omega)]
    exact congrArg (fun s => Except.ok (Value.str s)) (by rw [h5]; decide)
  · rw [int_to_hex_nonneg _ (by have := h6; omega)]
    exact congrArg (fun s => Except.ok (Value.str s)) (by rw [h6]; decide)

/-! ### trunc -/

theorem trunc_idempotent (x : Float) : NumOps.trunc (NumOps.trunc x) = NumOps.trunc x := F64.trunc_idempotent x
/-- `trunc` keeps the sign bit (so trunc(-0.3) = -0.0) -/
theorem trunc_keeps_sign (x : Float) : F64.signBit (NumOps.trunc x) = F64.signBit x := F64.trunc_signBit x
/-- `|trunc x| ≤ |x|`: on the magnitude bits, and in the sign-magnitude key order trunc x lies between 0 and x -/
theorem trunc_toward_zero (x : Float) :
    F64.magN (F64.bits (NumOps.trunc x)) ≤ F64.magN (F64.bits x) ∧
    (0 ≤ F64.keyN (F64.bits x) → 0 ≤ F64.keyN (F64.bits (NumOps.trunc x)) ∧
      F64.keyN (F64.bits (NumOps.trunc x)) ≤ F64.keyN (F64.bits x)) ∧
    (F64.keyN (F64.bits x) ≤ 0 → F64.keyN (F64.bits x) ≤ F64.keyN (F64.bits (NumOps.trunc x)) ∧
      F64.keyN (F64.bits (NumOps.trunc x)) ≤ 0) :=
  ⟨F64.trunc_mag_le x, (F64.trunc_key_between x).1, (F64.trunc_key_between x).2⟩
/-- `trunc` of an exactly representable integer is that integer, and `int(n) = n` -/
theorem trunc_of_integer (n : Int) (h : n.natAbs ≤ 2^53) :
    int [(.num (F64.ofInt n) : Value Float)] = .ok (.num (F64.ofInt n)) := by
  rw [int_num]; exact congrArg _ (congrArg _ (F64.trunc_ofInt n h))

example : (NumOps.trunc (2.75 : Float) = 2 ∧ NumX.fract (2.75 : Float) = 0.75) ∧
    (NumOps.trunc (-2.75 : Float) = -2 ∧ NumX.fract (-2.75 : Float) = -0.75) :=
  ⟨⟨F64Tests.trunc_frac_samples.1, F64Tests.trunc_frac_samples.2.1⟩,
   ⟨F64Tests.trunc_frac_samples.2.2.1, F64Tests.trunc_frac_samples.2.2.2.1⟩⟩

/-! ### frac: trunc(x) + frac(x) = x -/

/-- `frac` is `x - trunc x` (Rust `f64::fract`) -/
theorem frac_def (x : Float) : NumX.fract x = x - NumOps.trunc x := rfl

/-- trunc(x) + frac(x) = x, bit for bit, for every finite x other than -0.0; both the subtraction and the addition
    are exact in IEEE arithmetic (proved from core's `UnpackedFloat.add`/`sub`/`round`). -/
theorem trunc_add_frac (x : Float) (hf : F64.isFinite x = true) (hnz : F64.bits x ≠ 2^63) :
    NumOps.trunc x + NumX.fract x = x := F64.trunc_add_fract x hf hnz
/-- for -0.0 the sum is +0.0 — equal under IEEE `==` — and in that sense the identity holds for every finite x -/
theorem trunc_add_frac_ieee (x : Float) (hf : F64.isFinite x = true) :
    NumOps.beq (NumOps.trunc x + NumX.fract x) x = true := F64.trunc_add_fract_beq x hf
theorem trunc_add_frac_neg_zero :
    NumOps.trunc (Float.ofBits 0x8000000000000000) + NumX.fract (Float.ofBits 0x8000000000000000) = Float.ofBits 0 :=
  F64.trunc_add_fract_neg_zero.1
/-- not for infinities: frac(±inf) = NaN -/
theorem frac_inf_is_nan : F64.isNaN (NumX.fract F64.inf) = true ∧ F64.isNaN (NumX.fract (-F64.inf)) = true :=
  F64.fract_inf

example : NumOps.trunc (0.1 : Float) + NumX.fract (0.1 : Float) = 0.1 := F64Tests.trunc_frac_samples.2.2.2.2.1

/-! ### round: half away from zero -/

/-- for every finite non-zero x = ± m·2^e with e < 0 (that is |x| < 2^52), with q = m / 2^-e (the integer part of
    |x|) and f = m mod 2^-e (the fraction, in units of 2^e):  round x = ±(q+1) if f/2^-e ≥ 1/2, else trunc x. -/
theorem round_half_away (x : Float) (hf : F64.isFinite x = true) (hz : F64.isZero x = false)
    (he : (F64.decode x).2 < 0) :
    NumX.round x =
      if 2 * ((F64.decode x).1 % 2^(-(F64.decode x).2).toNat) ≥ 2^(-(F64.decode x).2).toNat
      then F64.ofInt (if F64.signBit x then -(((F64.decode x).1 / 2^(-(F64.decode x).2).toNat + 1 : Nat) : Int)
                      else (((F64.decode x).1 / 2^(-(F64.decode x).2).toNat + 1 : Nat) : Int))
      else NumOps.trunc x := F64.round_half_away x hf hz he

/-- that integer is the nearest one to m/2^k, and an exact tie goes up in magnitude (away from zero) -/
theorem round_is_nearest (m k q f R : Nat) (hq : q = m / 2^k) (hf : f = m % 2^k)
    (hR : R = if 2 * f ≥ 2^k then q + 1 else q) :
    (2 * (R * 2^k - m) ≤ 2^k ∧ 2 * (m - R * 2^k) ≤ 2^k) ∧ (2 * f = 2^k → R = q + 1) ∧
    (∀ R', 2 * (R' * 2^k - m) < 2^k → 2 * (m - R' * 2^k) < 2^k → R' = R) :=
  F64.round_nearest_arith m k q f R hq hf hR

/-- weak form, for every x at once: the result is x itself, `trunc x`, or `trunc x ± 1` with the sign of x -/
theorem round_cases (x : Float) :
    NumX.round x = x ∨ NumX.round x = NumOps.trunc x ∨
    (F64.signBit x = false ∧ NumX.round x = NumOps.trunc x + 1) ∨
    (F64.signBit x = true ∧ NumX.round x = NumOps.trunc x - 1) := F64.round_cases x

/-- everything else is returned unchanged: |x| ≥ 2^52 (already integral), NaN, ±inf, ±0 -/
theorem round_identity (x : Float) (h : F64.expBits x ≥ 1075) : NumX.round x = x := F64.round_big x h
theorem round_zero : NumX.round (Float.ofBits 0) = Float.ofBits 0 ∧
    NumX.round (Float.ofBits 0x8000000000000000) = Float.ofBits 0x8000000000000000 := F64.round_zero

/-- and `trunc x` there is the integer float ±q (so the result of `round` is always an integer float) -/
theorem trunc_is_integer_part (x : Float) (hf : F64.isFinite x = true) (hz : F64.isZero x = false)
    (he1 : -52 ≤ (F64.decode x).2) (he2 : (F64.decode x).2 < 0) :
    NumOps.trunc x = F64.ofInt (if F64.signBit x then -(((F64.decode x).1 / 2^(-(F64.decode x).2).toNat : Nat) : Int)
                                else (((F64.decode x).1 / 2^(-(F64.decode x).2).toNat : Nat) : Int)) := by
  obtain ⟨s, m, e, h, rfl⟩ := F64.exists_mkF x hf hz
  rw [F64.decode_mkF s m e h] at he1 he2 ⊢
  simp only [] at he1 he2 ⊢
  rw [F64.signBit_mkF s m e h]
  show F64.trunc _ = _
  rw [(F64.trunc_mkF_mid_ofInt s m e h he1 he2).1]
  cases s <;> rfl

/-- the tie cases (tests): 0.5 ↦ 1, 1.5 ↦ 2, 2.5 ↦ 3, -0.5 ↦ -1, -2.5 ↦ -3; the largest double below 0.5 ↦ 0 -/
theorem round_ties :
    NumX.round (0.5 : Float) = 1 ∧ NumX.round (1.5 : Float) = 2 ∧ NumX.round (2.5 : Float) = 3 ∧
    NumX.round (-0.5 : Float) = -1 ∧ NumX.round (-2.5 : Float) = -3 ∧
    NumX.round (0.49999999999999994 : Float) = Float.ofBits 0 :=
  ⟨F64Tests.round_ties.1, F64Tests.round_ties.2.1, F64Tests.round_ties.2.2.1, F64Tests.round_ties.2.2.2.1,
   F64Tests.round_ties.2.2.2.2.1, F64Tests.round_ties.2.2.2.2.2.1⟩

/-! ### float(str(x)) = x -/

/-- **float(str(x)) = x for every number** (the driver's doubles; bit for bit — the model's single NaN included).
    `str` prints the shortest decimal that reads back (Rust `Display`), `float` parses it (Rust `FromStr`).
    Proof (SlacProofs.F64Parse, F64Rwa, F64Sci, F64Near, F64Search), all from core's logical float model:
    * structural half: whatever digits c and decimal exponent p `display` emits — integer part, optional fraction,
      leading "0.", trailing zeros, sign — `parse` reads the same (c, p) back (`F64.parse_body`); the exponent never
      reaches the parser's clamp (`F64.displayCand_snd_ge`); "NaN", "inf", "-inf", "0", "-0" by evaluation;
    * number-theoretic half: all four code paths of `Float.ofScientific` round the decimal VALUE
      (`F64.sci_false`, `F64.sci_true`, `F64.rwaFrac_congr`); a value within relative 2^-54 of a double rounds to it
      (`F64.rwaFrac_near`); with 17 digits the nearer candidate is that close because 10^16 > 2^53 (`F64.step17_ok`),
      so the shortest-digits search succeeds within its fuel and its result reads back (`F64.displaySearchOk`). -/
theorem float_str (x : Float) :
    float [(.str (NumX.display x) : Value Float)] = .ok (.num x) ∧
    (strF [(.num x : Value Float)]).map (fun r => r.bind fun s => float [s]) = some (.ok (.num x)) := by
  have hp : NumOps.parse (NumX.display x) = some x := F64.parse_display_all x
  exact ⟨by rw [float_of_string, hp], float_str_of_roundtrip x hp⟩

/-- the isolated search hypothesis of `F64.parse_display` holds for every finite non-zero double -/
theorem display_search_ok (x : Float) (hf : F64.isFinite x = true) (hz : F64.isZero x = false) :
    F64.DisplaySearchOk x := F64.displaySearchOk x hf hz

/-- TESTS: the full round trip, kernel-evaluated on boundary values: ±0, ±1, ±0.1, the smallest subnormal 5e-324,
    the largest double 1.7976931348623157e308, 2^53+1 (↦ 2^53), 2^53+2, 0.30000000000000004, 0.3, 1e21, 1e22, 1e23,
    1e-7, the smallest normal, 1e300, ±inf, NaN, … (`F64Tests.samples`) -/
theorem float_str_tests : ∀ x ∈ F64Tests.samples, float [(.str (NumX.display x) : Value Float)] = .ok (.num x) := by
  intro x hx
  rw [float_of_string]
  have : NumOps.parse (NumX.display x) = some x := F64Tests.roundtrip_samples x hx
  rw [this]

example : float [(.str ['0','.','1'] : Value Float)] = .ok (.num 0.1) ∧ NumX.display (0.1 : Float) = ['0','.','1'] := by
  refine ⟨?_, F64Tests.display_texts.1⟩
  have := float_str_tests 0.1 (.tail _ (.tail _ (.tail _ (.tail _ (.head _)))))
  rwa [show NumX.display (0.1 : Float) = ['0','.','1'] from F64Tests.display_texts.1] at this

end FloatFacts

end Slac.C17
