/-
  C10 (clause "… the tree is still accepted after optimize") — if `check_variables_and_functions` accepts a tree
  against an environment, it accepts the tree the caller holds after `transform_ternary`, after one
  `fold_constants` pass (completed or aborted by an error) and after `optimize` (returned `Ok` or `Err`).
  Model: SlacModel.Validate (`checkVF`, src/validate.rs), SlacModel.Optimizer (`transform`, `fold`, `optimize`,
  src/optimizer.rs).  Proofs: SlacProofs/OptCheck.lean.  All theorems hold for every number implementation and every
  environment (no lawfulness assumption is needed for the stability itself).
  The property is one-directional: `optimize_can_repair_rejection`.
-/
import SlacProofs.OptCheck
import SlacProofs.OptExample
import SlacProps.C10
set_option autoImplicit false
set_option linter.unusedSectionVars false
namespace Slac.C10
open Slac.Opt
variable {N : Type} [NumOps N]

/-- 1. `transform_ternary` keeps acceptance: a three-argument `if_then` call becomes a conditional node over the
    same three (unvisited) arguments — the requirement that `if_then` exists is dropped, the requirements on the
    arguments are identical; every other node is kept (a call with its name and argument count). -/
theorem check_stable_under_transform (env : Env N) (e : Expr N) :
    checkVF env e = .ok () → checkVF env (Opt.transform e) = .ok () :=
  checkVF_transform env e

/-- 2. One `fold_constants` pass keeps acceptance — also in the partially rewritten tree left behind when the pass
    was aborted by an error (`(fold env e).err ≠ none`; no hypothesis on `err`): nodes are replaced by literals
    (always accepted), a literal-condition conditional by one of its accepted branches, otherwise children are
    rewritten. -/
theorem check_stable_under_fold (env : Env N) (e : Expr N) :
    checkVF env e = .ok () → checkVF env (Opt.fold env e).tree = .ok () :=
  checkVF_fold env env e

/-- 2, general form: folding against `env`, validating against any `env'` -/
theorem check_stable_under_fold_gen (env env' : Env N) (e : Expr N) :
    checkVF env' e = .ok () → checkVF env' (Opt.fold env e).tree = .ok () :=
  checkVF_fold env env' e

/-- 3. The tree the caller holds after `optimize` returned — the optimized tree (`Ok`) or the partially rewritten
    tree of the failed round (`Err`) — is accepted if the original was. -/
theorem check_stable_under_optimize (env : Env N) (fuel : Nat) (e e' : Expr N) :
    checkVF env e = .ok () → (Opt.optimize env fuel e).tree? = some e' → checkVF env e' = .ok () :=
  checkVF_optimize env env fuel e e'

/-- 3, general form: optimizing against `env`, validating against any `env'` (for instance the environment of a
    later execution, with the same or with different bindings) -/
theorem check_stable_under_optimize_gen (env env' : Env N) (fuel : Nat) (e e' : Expr N) :
    checkVF env' e = .ok () → (Opt.optimize env fuel e).tree? = some e' → checkVF env' e' = .ok () :=
  checkVF_optimize env env' fuel e e'

/-- 3, with fuel that always suffices (`Slac.Opt.optimize_terminates`): `optimize` returns and the tree it leaves
    is accepted -/
theorem check_stable_under_optimize_total (env : Env N) (e : Expr N) (h : checkVF env e = .ok ()) :
    ∃ e', (Opt.optimize env (mu e + 1) e).tree? = some e' ∧ checkVF env e' = .ok () := by
  have hne := Slac.Opt.optimize_terminates env (mu e + 1) e (Nat.lt_succ_self _)
  cases ho : optimize env (mu e + 1) e with
  | ok t => exact ⟨t, rfl, check_stable_under_optimize env _ e t h (by rw [ho]; rfl)⟩
  | err t er => exact ⟨t, rfl, check_stable_under_optimize env _ e t h (by rw [ho]; rfl)⟩
  | outOfFuel => exact absurd ho hne

/-- Consequence, with the main theorem of C10: a tree accepted against a lawful environment can be optimized and
    then executed without ever failing with an undefined-variable or function-not-found error. -/
theorem optimized_no_unresolved (env : Env N) (henv : Lawful env) (fuel : Nat) (e e' : Expr N)
    (hc : checkVF env e = .ok ()) (ho : (Opt.optimize env fuel e).tree? = some e') :
    (∀ n, evalR env e' ≠ .error (.undefinedVariable n)) ∧
    (∀ f g, evalR env e' ≠ .error (.native f (.functionNotFound g))) :=
  check_ok_no_unresolved env henv e' (check_stable_under_optimize env fuel e e' hc ho)

/-! ### Non-vacuity and the failing converse: concrete instances -/
section OptExamples
open Slac.Opt.Ex
attribute [local instance] intOps

/-- `x + if_then(max(1,2) > 1, rnd(), 0 - 1)` is accepted by the toy environment (`x` bound; `if_then` 2–3, `max` 2,
    `rnd` 0 arguments); so are its transform `x + (max(1,2) > 1 ? rnd() : 0 - 1)`, the fold of that,
    `x + (true ? rnd() : -1)`, and the optimized tree `x + rnd()` -/
example : checkVF Ex.env t1 = .ok () := by rfl
example : transform t1 = .binary (.var x) (.ternary
    (.binary (.call maxName [.lit (.num 1), .lit (.num 2)]) (.lit (.num 1)) .greater) (.call rndName [])
    (.binary (.lit (.num 0)) (.lit (.num 1)) .minus) .ternaryCondition) .plus := by rfl
example : checkVF Ex.env (transform t1) = .ok () := check_stable_under_transform Ex.env t1 (by rfl)
example : (fold Ex.env (transform t1)).tree = .binary (.var x) (.ternary
    (.binary (.lit (.num 2)) (.lit (.num 1)) .greater) (.call rndName []) (.lit (.num (-1))) .ternaryCondition) .plus := by
  rfl
example : checkVF Ex.env (fold Ex.env (transform t1)).tree = .ok () :=
  check_stable_under_fold Ex.env _ (check_stable_under_transform Ex.env t1 (by rfl))
example : (optimize Ex.env 9 t1).tree? = some (.binary (.var x) (.call rndName []) .plus) := by rfl
example : checkVF Ex.env (.binary (.var x) (.call rndName []) .plus) = .ok () :=
  check_stable_under_optimize Ex.env 9 t1 _ (by rfl) (by rfl)
example : ∃ e', (optimize Ex.env (mu t1 + 1) t1).tree? = some e' ∧ checkVF Ex.env e' = .ok () :=
  check_stable_under_optimize_total Ex.env t1 (by rfl)

/-- `[1 + 2, x, -true, max(1, 2)]`: accepted; the pass folds the first element and is then aborted by
    `InvalidUnary(-)`; the partially rewritten tree `[3, x, -true, max(1, 2)]` that `optimize` leaves behind with
    its `Err` is accepted -/
def t5 : Expr Int :=
  .array [.binary (.lit (.num 1)) (.lit (.num 2)) .plus, .var x, .unary (.lit (.bool true)) .minus,
    .call maxName [.lit (.num 1), .lit (.num 2)]]
def t5' : Expr Int :=
  .array [.lit (.num 3), .var x, .unary (.lit (.bool true)) .minus, .call maxName [.lit (.num 1), .lit (.num 2)]]
example : checkVF Ex.env t5 = .ok () := by rfl
example : (fold Ex.env t5).err = some (.invalidUnary .minus) ∧ (fold Ex.env t5).tree = t5' := ⟨by rfl, by rfl⟩
example : optimize Ex.env 9 t5 = .err t5' (.invalidUnary .minus) := by rfl
example : checkVF Ex.env t5' = .ok () := check_stable_under_optimize Ex.env 9 t5 t5' (by rfl) (by rfl)

/-- acceptance by another environment than the one optimized against: `env'` (`y` bound instead of `x`) accepts
    `if_then(y = 0, max(1, 2), rnd())` and hence what `optimize Ex.env` makes of it, `y = 0 ? 2 : rnd()` -/
example : checkVF Ex.env' (.ternary (.binary (.var y) (.lit (.num 0)) .equal) (.lit (.num 2)) (.call rndName [])
    .ternaryCondition) = .ok () :=
  check_stable_under_optimize_gen Ex.env Ex.env' 9
    (.call ifThenName [.binary (.var y) (.lit (.num 0)) .equal, .call maxName [.lit (.num 1), .lit (.num 2)],
      .call rndName []]) _ (by rfl) (by rfl)

/-- The converse direction is false: optimizing can turn a rejected tree into an accepted one, because
    `fold_constants` discards the branch a literal condition does not select.
    `if_then(true, 1, y)` with `y` unbound is rejected (`MissingVariable(y)`) and optimizes to `1`;
    `true ? 1 : nope(x)` with no function `nope` is rejected (`MissingFunction(nope)`) and optimizes to `1`. -/
theorem optimize_can_repair_rejection :
    (checkVF Ex.env (.call ifThenName [.lit (.bool true), .lit (.num 1), .var y]) = .error (.missingVariable y) ∧
     optimize Ex.env 9 (.call ifThenName [.lit (.bool true), .lit (.num 1), .var y]) = .ok (.lit (.num 1)) ∧
     checkVF Ex.env (.lit (.num 1) : Expr Int) = .ok ()) ∧
    (checkVF Ex.env (.ternary (.lit (.bool true)) (.lit (.num 1)) (.call ['n', 'o', 'p', 'e'] [.var x])
        .ternaryCondition) = .error (.missingFunction ['n', 'o', 'p', 'e']) ∧
     optimize Ex.env 9 (.ternary (.lit (.bool true)) (.lit (.num 1)) (.call ['n', 'o', 'p', 'e'] [.var x])
        .ternaryCondition) = .ok (.lit (.num 1))) :=
  ⟨⟨by rfl, by rfl, by rfl⟩, by rfl, by rfl⟩

/-- in general form: acceptance of the optimized tree does not imply acceptance of the original -/
theorem optimize_accept_not_conversely :
    ¬ ∀ (env : Env Int) (fuel : Nat) (e e' : Expr Int),
      (optimize env fuel e).tree? = some e' → checkVF env e' = .ok () → checkVF env e = .ok () := by
  intro h
  have := h Ex.env 9 (.call ifThenName [.lit (.bool true), .lit (.num 1), .var y]) (.lit (.num 1)) (by rfl) (by rfl)
  exact absurd this (by rw [optimize_can_repair_rejection.1.1]; intro h'; cases h')

end OptExamples
end Slac.C10
