/-
  SlacProofs.TimeRfcScan — evaluation lemmas for chrono's scanners (SlacModel.TimeParse) on printed decimal
  fields: `number` on digit characters, literals, the setters on `Parsed`.  Used by SlacProofs.TimeStr (default
  formats) and SlacProofs.TimeRfcRound (RFC 3339 / RFC 2822 round trips).
-/
import SlacModel.TimeRfc
set_option autoImplicit false
set_option linter.unusedSimpArgs false
set_option linter.unusedVariables false
namespace Slac.Time
open Stdlib

/-! ### digit characters -/

theorem digit_dc : ∀ k, k < 10 → digit? k.digitChar = some k := by decide
theorem isWs_dc : ∀ k, k < 10 → isWs k.digitChar = false := by decide
theorem size_dc : ∀ k, k < 10 → k.digitChar.utf8Size = 1 := by decide
theorem dc_ne_minus : ∀ k, k < 10 → (k.digitChar == '-') = false := by decide
theorem dc_ne_plus : ∀ k, k < 10 → (k.digitChar == '+') = false := by decide
theorem isDigit_dc (k : Nat) (h : k < 10) : isDigit k.digitChar = true := by simp [isDigit, digit_dc k h]

theorem utf8Len_cons (c : Char) (r : Str) : utf8Len (c :: r) = c.utf8Size + utf8Len r := rfl
theorem utf8Size_pos (c : Char) : 1 ≤ c.utf8Size := by
  unfold Char.utf8Size; simp only []; repeat' split
  all_goals omega
theorem length_le_utf8Len (s : Str) : s.length ≤ utf8Len s := by
  induction s with
  | nil => simp [utf8Len]
  | cons c r ih => have := utf8Size_pos c; simp only [List.length_cons, utf8Len_cons]; omega

theorem trimStart_dc (k : Nat) (h : k < 10) (r : Str) : trimStart (k.digitChar :: r) = k.digitChar :: r := by
  simp [trimStart, List.dropWhile, isWs_dc k h]

/-! ### `number` -/

theorem numberGo_stop (min max : Nat) (s : Str) (i acc : Nat) (h : max ≤ i) :
    numberGo min max s i acc = .ok (s, acc) := by
  cases s with
  | nil => rfl
  | cons c r => simp [numberGo, h]

theorem numberGo_dc (min max k : Nat) (hk : k < 10) (r : Str) (i acc : Nat) (hi : i < max)
    (hacc : acc * 10 + k ≤ i64Max) :
    numberGo min max (k.digitChar :: r) i acc = numberGo min max r (i + 1) (acc * 10 + k) := by
  have h1 : ¬ max ≤ i := by omega
  have h2 : ¬ acc * 10 + k > i64Max := by omega
  simp [numberGo, h1, digit_dc k hk, h2]

theorem numberGo_nondigit (min max : Nat) (c : Char) (r : Str) (i acc : Nat) (hc : digit? c = none) (hmin : min ≤ i) :
    numberGo min max (c :: r) i acc = .ok (c :: r, acc) := by
  by_cases h : max ≤ i
  · exact numberGo_stop _ _ _ _ _ h
  · have : ¬ i < min := by omega
    simp [numberGo, h, hc, this]

theorem number_def (s : Str) (min max : Nat) (h : min ≤ s.length) : number s min max = numberGo min max s 0 0 := by
  have := length_le_utf8Len s
  have h2 : ¬ utf8Len s < min := by omega
  simp [number, h2]

/-- two digits, width 2 -/
theorem number_2 (a b : Nat) (ha : a < 10) (hb : b < 10) (r : Str) (min : Nat) (hmin : min ≤ 2) :
    number (a.digitChar :: b.digitChar :: r) min 2 = .ok (r, a * 10 + b) := by
  rw [number_def _ _ _ (by simp; omega), numberGo_dc _ _ a ha _ _ _ (by omega) (by simp [i64Max]; omega),
    numberGo_dc _ _ b hb _ _ _ (by omega) (by simp [i64Max]; omega), numberGo_stop _ _ _ _ _ (by omega)]
  simp

/-- four digits, width 4 -/
theorem number_4 (a b c d : Nat) (ha : a < 10) (hb : b < 10) (hc : c < 10) (hd : d < 10) (r : Str) :
    number (a.digitChar :: b.digitChar :: c.digitChar :: d.digitChar :: r) 1 4 =
      .ok (r, a * 1000 + b * 100 + c * 10 + d) := by
  rw [number_def _ _ _ (by simp), numberGo_dc _ _ a ha _ _ _ (by omega) (by simp [i64Max]; omega),
    numberGo_dc _ _ b hb _ _ _ (by omega) (by simp [i64Max]; omega),
    numberGo_dc _ _ c hc _ _ _ (by omega) (by simp [i64Max]; omega),
    numberGo_dc _ _ d hd _ _ _ (by omega) (by simp [i64Max]; omega), numberGo_stop _ _ _ _ _ (by omega)]
  congr 2; omega

/-! ### literals, numeric items -/

theorem parseLiteral_cons (c : Char) (r : Str) : parseLiteral [c] (c :: r) = .ok r := by
  simp [parseLiteral, utf8Len]

theorem parseNumeric_2 (n : Numeric) (hw : numericWidth n = 2) (hs : numericSigned n = false) (a b : Nat)
    (ha : a < 10) (hb : b < 10) (r : Str) (p : Parsed) :
    parseNumeric n (a.digitChar :: b.digitChar :: r) p =
      (setNumeric n p ((a * 10 + b : Nat) : Int)).map fun p' => (r, p') := by
  simp only [parseNumeric, trimStart_dc a ha, hs, hw, Bool.false_and, Bool.false_eq_true, if_false,
    number_2 a b ha hb r 1 (by omega)]
  rfl

theorem parseNumeric_year4 (a b c d : Nat) (ha : a < 10) (hb : b < 10) (hc : c < 10) (hd : d < 10) (r : Str) (p : Parsed) :
    parseNumeric .year (a.digitChar :: b.digitChar :: c.digitChar :: d.digitChar :: r) p =
      (p.setYear ((a * 1000 + b * 100 + c * 10 + d : Nat) : Int)).map fun p' => (r, p') := by
  simp only [parseNumeric, trimStart_dc a ha, numericSigned, numericWidth, List.head?, Bool.true_and,
    dc_ne_minus a ha, dc_ne_plus a ha, number_4 a b c d ha hb hc hd r]
  simp [setNumeric]
  rfl

theorem parseItems_ok {it : Item} {its : List Item} {s s' : Str} {p p' : Parsed}
    (h : parseItem it s p = .ok (s', p')) : parseItems (it :: its) s p = parseItems its s' p' := by
  simp [parseItems, h]
theorem parseItems_err {it : Item} {its : List Item} {s : Str} {p : Parsed} {e : PErr}
    (h : parseItem it s p = .error e) : parseItems (it :: its) s p = .error e := by
  simp [parseItems, h]

theorem item_lit (c : Char) (r : Str) (p : Parsed) : parseItem (.literal [c]) (c :: r) p = .ok (r, p) := by
  simp [parseItem, parseLiteral_cons, Except.map]
theorem item_space_dc (sp : Str) (k : Nat) (hk : k < 10) (r : Str) (p : Parsed) :
    parseItem (.space sp) (' ' :: k.digitChar :: r) p = .ok (k.digitChar :: r, p) := by
  simp [parseItem, trimStart, List.dropWhile, isWs_dc k hk, (by decide : isWs ' ' = true)]

/-- a two-digit numeric item: outcome of the setter on the two-digit value -/
theorem item_num2 (n : Numeric) (pd : Pad) (hw : numericWidth n = 2) (hs : numericSigned n = false) (v : Nat)
    (hv : v < 100) (r : Str) (p : Parsed) :
    parseItem (.numeric n pd) ((v / 10).digitChar :: (v % 10).digitChar :: r) p =
      (setNumeric n p (v : Int)).map fun p' => (r, p') := by
  have e : v / 10 * 10 + v % 10 = v := by omega
  simp only [parseItem, parseNumeric_2 n hw hs _ _ (by omega : v / 10 < 10) (by omega : v % 10 < 10), e]

theorem item_year4 (pd : Pad) (y : Nat) (hy : y < 10000) (r : Str) (p : Parsed) :
    parseItem (.numeric .year pd)
      ((y / 1000).digitChar :: (y / 100 % 10).digitChar :: (y / 10 % 10).digitChar :: (y % 10).digitChar :: r) p =
      (p.setYear (y : Int)).map fun p' => (r, p') := by
  have e : y / 1000 * 1000 + y / 100 % 10 * 100 + y / 10 % 10 * 10 + y % 10 = y := by omega
  simp only [parseItem, parseNumeric_year4 _ _ _ _ (by omega : y / 1000 < 10) (by omega : y / 100 % 10 < 10)
    (by omega : y / 10 % 10 < 10) (by omega : y % 10 < 10), e]

/-! ### setters -/

theorem inR_true {lo hi v : Int} (h1 : lo ≤ v) (h2 : v ≤ hi) : inR lo hi v = true := by simp [inR, h1, h2]
theorem inR_false {lo hi v : Int} (h : v < lo ∨ hi < v) : inR lo hi v = false := by
  simp only [inR, Bool.and_eq_false_iff, decide_eq_false_iff_not]; omega

theorem setYear_small (p : Parsed) (hp : p.year = none) (y : Nat) (hy : y < 10000) :
    p.setYear (y : Int) = .ok { p with year := some (y : Int) } := by
  have : inR i32Min i32Max (y : Int) = true := inR_true (by simp only [i32Min]; omega) (by simp only [i32Max]; omega)
  simp [Parsed.setYear, this, hp, setIf, Except.map]

theorem setMonth_eval (p : Parsed) (hp : p.month = none) (m : Nat) :
    p.setMonth (m : Int) = if 1 ≤ m ∧ m ≤ 12 then .ok { p with month := some m } else .error .outOfRange := by
  by_cases h : 1 ≤ m ∧ m ≤ 12
  · have : inR 1 12 (m : Int) = true := inR_true (by omega) (by omega)
    simp [Parsed.setMonth, this, hp, setIf, Except.map, h]
  · have : inR 1 12 (m : Int) = false := inR_false (by omega)
    simp [Parsed.setMonth, this, h]

theorem setDay_eval (p : Parsed) (hp : p.day = none) (d : Nat) :
    p.setDay (d : Int) = if 1 ≤ d ∧ d ≤ 31 then .ok { p with day := some d } else .error .outOfRange := by
  by_cases h : 1 ≤ d ∧ d ≤ 31
  · have : inR 1 31 (d : Int) = true := inR_true (by omega) (by omega)
    simp [Parsed.setDay, this, hp, setIf, Except.map, h]
  · have : inR 1 31 (d : Int) = false := inR_false (by omega)
    simp [Parsed.setDay, this, h]

theorem setHour_eval (p : Parsed) (hp1 : p.hourDiv12 = none) (hp2 : p.hourMod12 = none) (h : Nat) :
    p.setHour (h : Int) =
      if h < 24 then .ok { p with hourDiv12 := some (h / 12), hourMod12 := some (h % 12) } else .error .outOfRange := by
  by_cases hh : h < 24
  · have : inR 0 23 (h : Int) = true := inR_true (by omega) (by omega)
    simp [Parsed.setHour, this, hp1, hp2, setIf, Except.map, hh]
  · have : inR 0 23 (h : Int) = false := inR_false (by omega)
    simp [Parsed.setHour, this, hh]

theorem setMinute_eval (p : Parsed) (hp : p.minute = none) (m : Nat) :
    p.setMinute (m : Int) = if m < 60 then .ok { p with minute := some m } else .error .outOfRange := by
  by_cases h : m < 60
  · have : inR 0 59 (m : Int) = true := inR_true (by omega) (by omega)
    simp [Parsed.setMinute, this, hp, setIf, Except.map, h]
  · have : inR 0 59 (m : Int) = false := inR_false (by omega)
    simp [Parsed.setMinute, this, h]

theorem setSecond_eval (p : Parsed) (hp : p.second = none) (s : Nat) :
    p.setSecond (s : Int) = if s ≤ 60 then .ok { p with second := some s } else .error .outOfRange := by
  by_cases h : s ≤ 60
  · have : inR 0 60 (s : Int) = true := inR_true (by omega) (by omega)
    simp [Parsed.setSecond, this, hp, setIf, Except.map, h]
  · have : inR 0 60 (s : Int) = false := inR_false (by omega)
    simp [Parsed.setSecond, this, h]

/-! ### resolution of year-month-day and hour-minute-second fields -/

theorem route_ymd (p : Parsed) (y : Int) (giy : Option Int) (m d : Nat) (hm : p.month = some m) (hd : p.day = some d) :
    p.route (some y) giy = .ymd y m d := by
  simp [Parsed.route, hm, hd]

/-- year, month, day (and possibly a weekday, which must agree) given, no other date field -/
theorem toNaiveDate_ymd_of (p : Parsed) (y : Int) (m d : Nat) (wd : Option Nat)
    (e1 : p.year = some y) (e2 : p.month = some m) (e3 : p.day = some d) (e4 : p.weekday = wd)
    (n1 : p.yearDiv100 = none) (n2 : p.yearMod100 = none) (n3 : p.isoYear = none) (n4 : p.isoYearMod100 = none)
    (n5 : p.quarter = none) (n6 : p.weekFromSun = none) (n7 : p.weekFromMon = none) (n8 : p.isoWeek = none)
    (n9 : p.ordinal = none) :
    p.toNaiveDate =
      if validDate y m d then
        (if optEqOr wd (weekday (daysFromCivil y m d)) then .ok (daysFromCivil y m d) else .error .impossible)
      else .error .outOfRange := by
  by_cases hv : validDate y m d = true
  · simp only [Parsed.toNaiveDate, e1, n1, n2, n3, n4, resolveYear, route_ymd p y none m d e2 e3, Parsed.candidate,
      fromYmd, hv, if_true, verifyIsoWeekDate, verifyOrdinal, optEqOr, e4, n5, n6, n7, n8, n9,
      Option.isNone, Bool.and_true, Bool.true_and, ite_self]
    cases wd with
    | none => simp [optEqOr]
    | some w =>
      by_cases hw : w = weekday (daysFromCivil y m d)
      · simp [optEqOr, hw]
      · simp [optEqOr, hw]
  · simp [Parsed.toNaiveDate, e1, n1, n2, n3, n4, resolveYear, route_ymd p y none m d e2 e3, Parsed.candidate, fromYmd, hv]

theorem toNaiveDate_ymd (y : Int) (m d : Nat) (wd : Option Nat) :
    ({ year := some y, month := some m, day := some d, weekday := wd } : Parsed).toNaiveDate =
      if validDate y m d then
        (if optEqOr wd (weekday (daysFromCivil y m d)) then .ok (daysFromCivil y m d) else .error .impossible)
      else .error .outOfRange :=
  toNaiveDate_ymd_of _ y m d wd rfl rfl rfl rfl rfl rfl rfl rfl rfl rfl rfl rfl rfl

/-- the date fields do not matter for the time, and vice versa: stated for the field sets the default formats and the
    RFC parsers produce -/
theorem toNaiveTime_hms (p : Parsed) (h mi s : Nat) (n : Option Nat)
    (e1 : p.hourDiv12 = some (h / 12)) (e2 : p.hourMod12 = some (h % 12)) (e3 : p.minute = some mi)
    (e4 : p.second = some s) (e5 : p.nanosecond = n) :
    p.toNaiveTime = .ok ⟨h * 3600 + mi * 60 + min s 59, (if s = 60 then 1000000000 else 0) + n.getD 0⟩ := by
  have e : (h / 12 * 12 + h % 12) = h := by omega
  cases n <;> simp [Parsed.toNaiveTime, e1, e2, e3, e4, e5, e]

/-! ### the overflow predicate is false without an ISO week number -/

theorem route_not_iso (p : Parsed) (gy giy : Option Int) (h : p.isoWeek = none) (iy : Int) (iw wd : Nat) :
    p.route gy giy ≠ .iso iy iw wd := by
  unfold Parsed.route
  rw [h]
  split <;> simp_all

theorem dateOverflow_isoWeek_none (p : Parsed) (h : p.isoWeek = none) : p.dateOverflow = false := by
  unfold Parsed.dateOverflow
  split
  · split
    · rename_i heq
      exact absurd heq (route_not_iso p _ _ h _ _ _)
    · rfl
  · rfl

theorem datetimeOverflow_ok (p : Parsed) (off : Int) (h : p.isoWeek = none) (d : Int) (t : NTime)
    (hd : p.toNaiveDate = .ok d) (ht : p.toNaiveTime = .ok t) : p.datetimeOverflow off = false := by
  simp [Parsed.datetimeOverflow, dateOverflow_isoWeek_none p h, hd, ht]

end Slac.Time
