/-
  SlacProofs.F64Hex — `trunc(x) as i64` is the (saturated) exact integer part `truncToInt x` of every finite double
  (`toI64_trunc`), via `truncToInt (trunc x) = truncToInt x`.  Used by C17 `int_to_hex_of_value`.
-/
import SlacProofs.F64Even
set_option autoImplicit false
namespace Slac
namespace F64
open Float.Model Float.Model.UnpackedFloat

theorem truncToInt_zeroF (s : Sign) : truncToInt (zeroF s) = 0 := by cases s <;> decide +kernel

set_option exponentiation.threshold 2000 in
/-- the integer part of `trunc x` is the integer part of x -/
theorem truncToInt_trunc_mkF (s : Sign) (m : Nat) (e : Int) (h : Canon m e) :
    truncToInt (trunc (mkF s m e h.pos)) = truncToInt (mkF s m e h.pos) := by
  have hlt := h.lt
  by_cases he0 : 0 ≤ e
  · rw [trunc_mkF_int s m e h (Or.inl he0)]
  · by_cases he : e < -52
    · rw [trunc_mkF_small s m e h he, truncToInt_zeroF, truncToInt_mkF s m e h, if_neg (by omega)]
      have hbig : m < 2^(-e).toNat := Nat.lt_of_lt_of_le hlt (Nat.pow_le_pow_right (by decide) (by omega))
      rw [Nat.shiftRight_eq_div_pow, Nat.div_eq_of_lt hbig]
      cases s <;> rfl
    · obtain ⟨hc', ht⟩ := trunc_mkF_mid s m e h (by omega) (by omega)
      rw [ht, truncToInt_mkF _ _ _ hc', truncToInt_mkF s m e h, if_neg (by omega), if_neg (by omega)]
      rw [Nat.shiftRight_eq_div_pow, Nat.shiftRight_eq_div_pow, Nat.mul_div_cancel _ (Nat.two_pow_pos _)]

theorem truncToInt_trunc (x : Float) (hf : isFinite x = true) : truncToInt (trunc x) = truncToInt x := by
  by_cases hz : isZero x = true
  · have hb := bits_lt x
    unfold isZero magN at hz; rw [decide_eq_true_eq] at hz
    have : bits x = 0 ∨ bits x = 2^63 := by omega
    rcases this with h0 | h0
    · have hx : x = Float.ofBits 0 := by apply eq_of_bits_eq; rw [h0]; decide +kernel
      rw [hx]; decide +kernel
    · have hx : x = Float.ofBits 0x8000000000000000 := by apply eq_of_bits_eq; rw [h0]; decide +kernel
      rw [hx]; decide +kernel
  · have hz' : isZero x = false := by cases h : isZero x <;> simp_all
    obtain ⟨s, m, e, h, rfl⟩ := exists_mkF x hf hz'
    exact truncToInt_trunc_mkF s m e h

theorem isFinite_trunc (x : Float) (hf : isFinite x = true) : isFinite (trunc x) = true := by
  have := trunc_mag_le x
  unfold isFinite at hf ⊢; rw [decide_eq_true_eq] at hf ⊢; omega

/-- `trunc(x) as i64` is the (saturated) integer part of x, for every finite x -/
theorem toI64_trunc (x : Float) (hf : isFinite x = true) :
    toI64 (trunc x) = (if truncToInt x < -(2^63) then -(2^63) else if truncToInt x > 2^63 - 1 then 2^63 - 1
      else truncToInt x) := by
  have hft := isFinite_trunc x hf
  unfold isFinite at hft; rw [decide_eq_true_eq] at hft
  have hn : isNaN (trunc x) = false := by unfold isNaN isNaNN; simp; omega
  have hi : isInf (trunc x) = false := by unfold isInf; simp; omega
  unfold toI64 toIntSat
  rw [hn, hi, truncToInt_trunc x hf]
  simp only [Bool.false_eq_true, if_false]

end F64
end Slac
