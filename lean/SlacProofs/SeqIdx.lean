/-
  SlacProofs.SeqIdx — `LawfulIdx`: the facts about numbers that the position laws of C15 need
  ("small integers are exact in binary64"), as hypotheses on the abstract number type, and what follows
  from them for `get_index` / `get_string_index`.  A toy instance (N = Int) is in SlacProofs.SeqToy.
-/
import SlacModel.Stdlib
set_option autoImplicit false
namespace Slac
open NumX

/-- Index numbers behave like integers.  Every field is a true statement about IEEE binary64 with
    `ofNat n = n as f64`, `ofInt i = i as f64`, `toUsize x = x as usize`, `floorUsize x = x.floor() as usize`,
    `add = +`, `pcmp = partial_cmp`, `zero = 0.0`. -/
class LawfulIdx (N : Type) [NumX N] : Prop where
  /-- `(n as f64) as usize = n` -/
  toUsize_ofNat : ∀ n : Nat, n < 2^53 → toUsize (ofNat n : N) = n
  /-- `(n as f64).floor() as usize = n` -/
  floorUsize_ofNat : ∀ n : Nat, n < 2^53 → floorUsize (ofNat n : N) = n
  /-- `n as f64 + m as f64 = (n+m) as f64` -/
  add_ofNat : ∀ n m : Nat, n + m < 2^53 → NumOps.add (ofNat n : N) (ofNat m) = ofNat (n + m)
  /-- `0.0 = 0 as f64` -/
  zero_eq : (NumOps.zero : N) = ofNat 0
  /-- `partial_cmp` of two small naturals is their order -/
  pcmp_ofNat : ∀ n m : Nat, n < 2^53 → m < 2^53 → NumOps.pcmp (ofNat n : N) (ofNat m) = some (compare n m)
  /-- `-1.0 + 1.0 = 0.0` -/
  neg_one_add_one : NumOps.add (ofInt (-1) : N) (ofNat 1) = ofNat 0
  /-- `-1.0 + 0.0 = -1.0` -/
  neg_one_add_zero : NumOps.add (ofInt (-1) : N) (ofNat 0) = ofInt (-1)
  /-- `-1.0 < 0.0` -/
  pcmp_neg_one : NumOps.pcmp (ofInt (-1) : N) (ofNat 0) = some .lt

namespace LawfulIdx
variable {N : Type} [NumX N] [LawfulIdx N]

theorem two53_pos : 0 < 2^53 := by decide

theorem ge0_ofNat (n : Nat) (h : n < 2^53) : ge0 (ofNat n : N) = true := by
  unfold ge0
  rw [zero_eq, pcmp_ofNat n 0 h two53_pos]
  rcases Nat.eq_zero_or_pos n with h0 | h0
  · subst h0; simp
  · rw [Nat.compare_eq_gt.2 h0]

theorem gt0_ofNat (n : Nat) (h : n < 2^53) : gt0 (ofNat n : N) = decide (0 < n) := by
  unfold gt0
  rw [zero_eq, pcmp_ofNat n 0 h two53_pos]
  rcases Nat.eq_zero_or_pos n with h0 | h0
  · subst h0; simp
  · rw [Nat.compare_eq_gt.2 h0]; simp [h0]

theorem ge0_neg_one : ge0 (ofInt (-1) : N) = false := by
  unfold ge0
  rw [zero_eq, pcmp_neg_one]

theorem ofNat_inj (n m : Nat) (hn : n < 2^53) (hm : m < 2^53) (h : (ofNat n : N) = ofNat m) : n = m := by
  have h1 := pcmp_ofNat (N := N) n m hn hm
  rw [h, pcmp_ofNat m m hm hm] at h1
  have h2 : compare m m = .eq := Nat.compare_eq_eq.2 rfl
  rw [h2] at h1
  exact Nat.compare_eq_eq.1 (Option.some.inj h1).symm

/-- `first - 1` for the two string bases -/
theorem neg_one_add (off : Nat) (h : off ≤ 1) :
    NumOps.add (ofInt (-1) : N) (ofNat off) = if off = 0 then ofInt (-1) else ofNat 0 := by
  have : off = 0 ∨ off = 1 := by omega
  rcases this with rfl | rfl
  · simp [neg_one_add_zero]
  · simp [neg_one_add_one]

/-- `first - 1 < first` -/
theorem pcmp_neg_one_add (off : Nat) (h : off ≤ 1) :
    NumOps.pcmp (NumOps.add (ofInt (-1) : N) (ofNat off)) (ofNat off) = some .lt := by
  have : off = 0 ∨ off = 1 := by omega
  rcases this with rfl | rfl
  · rw [neg_one_add_zero, pcmp_neg_one]
  · rw [neg_one_add_one, pcmp_ofNat 0 1 (by decide) (by decide)]; rfl

open Stdlib

theorem getIndex_ofNat (n : Nat) (h : n < 2^53) : getIndex (ofNat n : N) = .ok n := by
  unfold getIndex; rw [ge0_ofNat n h, toUsize_ofNat n h]; rfl

theorem getIndex_neg_one : getIndex (ofInt (-1) : N) = .error .indexNegative := by
  unfold getIndex; rw [ge0_neg_one]; rfl

theorem getStringIndex_ofNat (off n : Nat) (h : n < 2^53) :
    getStringIndex off (ofNat n : N) = if off ≤ n then .ok (n - off) else .error (.indexOutOfBounds n) := by
  unfold getStringIndex; rw [getIndex_ofNat n h]

theorem getStringIndex_add (off i : Nat) (h : off + i < 2^53) :
    getStringIndex off (ofNat (off + i) : N) = .ok i := by
  rw [getStringIndex_ofNat _ _ h, if_pos (Nat.le_add_right _ _), Nat.add_sub_cancel_left]

theorem getStringIndex_neg_one (off : Nat) : getStringIndex off (ofInt (-1) : N) = .error .indexNegative := by
  unfold getStringIndex; rw [getIndex_neg_one]

end LawfulIdx
end Slac
