/-
  SlacProofs.ParserDepth — recursion depth of the Pratt parser.

  `parse_precedence` is the only entry point of the recursion in compiler.rs: every cycle of calls goes through it
  (parse_precedence → do_prefix → unary | grouping → expression | array → expression_list → expression
                    → do_infix  → binary | call → expression_list → expression            → parse_precedence),
  with at most 5 frames between two activations.  The `while` loops of `parse_precedence` and `expression_list` run
  their bodies one after the other in the same frame, so the depth of a loop is the *maximum* over its iterations.

  `dPrec fuel p toks` = the largest number of simultaneously active `parse_precedence` frames during the run
  `parsePrec fuel p toks` (instrumentation of SlacModel.Parser, same case analysis, loops combined with `max`).
  Theorem `dPrec_le`: it is at most `toks.length + 1` — every activation consumes a token before it recurses.
-/
import SlacProofs.ParserTotal
set_option autoImplicit false
namespace Slac.Parser
variable {N : Type}

/-- continue with `k` on success, depth 0 otherwise (the Rust function has returned) -/
def onOk {α : Type} (x : COut N α) (k : α → Nat) : Nat :=
  match x with
  | .ok a => k a
  | _ => 0

mutual
def dPrec : Nat → Nat → List (Token N) → Nat
  | 0, _, _ => 0
  | _+1, _, [] => 1
  | f+1, p, t :: r => 1 + max (dPrefix f t r) (onOk (doPrefix f t r) fun x => dLoop f p x.1 x.2)
def dPrefix : Nat → Token N → List (Token N) → Nat
  | 0, _, _ => 0
  | f+1, t, rest =>
    match t with
    | .leftParen => dPrec f 1 rest
    | .leftBracket => dList f false rest
    | .not => dPrec f 8 rest
    | .minus => dPrec f 8 rest
    | _ => 0
def dLoop : Nat → Nat → Expr N → List (Token N) → Nat
  | 0, _, _, _ => 0
  | f+1, p, left, toks =>
    match toks with
    | [] => 0
    | t :: rest =>
      if p ≤ Token.prec t then max (dInfix f t left rest) (onOk (doInfix f t left rest) fun x => dLoop f p x.1 x.2)
      else 0
def dInfix : Nat → Token N → Expr N → List (Token N) → Nat
  | 0, _, _, _ => 0
  | f+1, t, left, rest =>
    match Token.binOp? t with
    | some _ => dPrec f (nextPrec (Token.prec t)) rest
    | none =>
      match t with
      | .leftParen =>
        match left with
        | .var _ => dList f true rest
        | _ => 0
      | _ => 0
def dList : Nat → Bool → List (Token N) → Nat
  | 0, _, _ => 0
  | f+1, b, toks =>
    match toks with
    | [] => 0
    | t :: _ =>
      if isClose b t then 0
      else max (dPrec f 1 toks) (onOk (parsePrec f 1 toks) fun x => dList f b (dropComma x.2))
end

theorem onOk_le {α : Type} {x : COut N α} {k : α → Nat} {n : Nat} (h : ∀ a, x = .ok a → k a ≤ n) : onOk x k ≤ n := by
  cases x with
  | ok a => exact h a rfl
  | err e => exact Nat.zero_le _
  | outOfFuel => exact Nat.zero_le _
  | panic => exact Nat.zero_le _

theorem depth_le (f : Nat) :
    (∀ p (toks : List (Token N)), dPrec f p toks ≤ toks.length + 1) ∧
    (∀ (t : Token N) rest, dPrefix f t rest ≤ rest.length + 1) ∧
    (∀ p (l : Expr N) toks, dLoop f p l toks ≤ toks.length) ∧
    (∀ (t : Token N) l rest, dInfix f t l rest ≤ rest.length + 1) ∧
    (∀ b (toks : List (Token N)), dList f b toks ≤ toks.length + 1) := by
  induction f with
  | zero =>
    refine ⟨?_, ?_, ?_, ?_, ?_⟩ <;> intros
    · rw [dPrec.eq_def]; exact Nat.zero_le _
    · rw [dPrefix.eq_def]; exact Nat.zero_le _
    · rw [dLoop.eq_def]; exact Nat.zero_le _
    · rw [dInfix.eq_def]; exact Nat.zero_le _
    · rw [dList.eq_def]; exact Nat.zero_le _
  | succ f ih =>
    obtain ⟨ih1, ih2, ih3, ih4, ih5⟩ := ih
    refine ⟨?_, ?_, ?_, ?_, ?_⟩
    · intro p toks
      cases toks with
      | nil => rw [dPrec.eq_def]; exact Nat.le_refl _
      | cons t r =>
        rw [dPrec.eq_def]
        simp only [List.length_cons]
        have h1 := ih2 t r
        have h2 : onOk (doPrefix f t r) (fun x => dLoop f p x.1 x.2) ≤ r.length := by
          refine onOk_le (fun a ha => ?_)
          have := (shrink f).2.1 _ _ _ ha
          have := ih3 p a.1 a.2
          omega
        omega
    · intro t rest
      rw [dPrefix.eq_def]
      cases t <;> simp only <;> first
        | exact Nat.zero_le _
        | exact ih1 _ _
        | exact ih5 _ _
    · intro p l toks
      cases toks with
      | nil => rw [dLoop.eq_def]; exact Nat.zero_le _
      | cons t rest =>
        rw [dLoop.eq_def]
        simp only [List.length_cons]
        split
        · have h1 := ih4 t l rest
          have h2 : onOk (doInfix f t l rest) (fun x => dLoop f p x.1 x.2) ≤ rest.length := by
            refine onOk_le (fun a ha => ?_)
            have := (shrink f).2.2.2.1 _ _ _ _ ha
            have := ih3 p a.1 a.2
            omega
          omega
        · exact Nat.zero_le _
    · intro t l rest
      rw [dInfix.eq_def]
      simp only
      split
      · exact ih1 _ _
      · split
        · split
          · exact ih5 _ _
          · exact Nat.zero_le _
        · exact Nat.zero_le _
    · intro b toks
      cases toks with
      | nil => rw [dList.eq_def]; exact Nat.zero_le _
      | cons t rest =>
        rw [dList.eq_def]
        simp only
        split
        · exact Nat.zero_le _
        · have h1 := ih1 1 (t :: rest)
          have h2 : onOk (parsePrec f 1 (t :: rest)) (fun x => dList f b (dropComma x.2)) ≤ (t :: rest).length := by
            refine onOk_le (fun a ha => ?_)
            have := (shrink f).1 _ _ _ ha
            have := ih5 b (dropComma a.2)
            have := dropComma_length a.2
            omega
          omega

theorem dPrec_le (f p : Nat) (toks : List (Token N)) : dPrec f p toks ≤ toks.length + 1 := (depth_le f).1 p toks

end Slac.Parser
