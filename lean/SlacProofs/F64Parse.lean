/-
  SlacProofs.F64Parse — `F64.parse (F64.display x) = some x` (C17 `float(str(x)) = x`).
  (a) structural half, proved for every candidate: whatever digits c and decimal exponent p the printer emits
      (`body c p`: integer part, optional fraction, optional leading "0.", sign), the parser reads the same
      (c, p) back and returns `Float.ofScientific` of them with the sign (`parse_body`); the special texts
      "NaN", "inf", "-inf", "0", "-0" are handled by evaluation.
  (b) the remaining number-theoretic claim is isolated as `DisplaySearchOk x` (decidable for every concrete x):
      the candidate `displayCand x` the shortest-digits search settles on reads back as |x|.
      It is PROVED for every finite non-zero x in SlacProofs.F64Search (`displaySearchOk`, `parse_display_all`).
  (c) `parse_display`: (a) + (b) ⇒ `parse (display x) = some x`, bit for bit, for every x (NaN, ±inf, ±0 need no
      hypothesis).
  Also: negation flips the sign bit (`bits_neg`), `-(-x) = x`.
-/
import SlacProofs.F64Int
import SlacModel.Display
set_option autoImplicit false
namespace Slac
namespace F64

/-- what `parse` does after the sign and the special words: digits, optional fraction, optional exponent -/
def parseNum (neg : Bool) (cs : Str) : Option Float :=
  let sgn (x : Float) : Float := if neg then -x else x
    let ip := cs.takeWhile isDig
    let r1 := cs.dropWhile isDig
    let (fp, r2) := match r1 with
      | '.' :: r => (r.takeWhile isDig, r.dropWhile isDig)
      | r => ([], r)
    if ip.isEmpty && fp.isEmpty then none else
    let expo : Option Int := match r2 with
      | [] => some 0
      | c :: r =>
        if c == 'e' || c == 'E' then
          let (eneg, r) := match r with
            | '-' :: r' => (true, r')
            | '+' :: r' => (false, r')
            | r' => (false, r')
          if r.isEmpty || !r.all isDig then none
          else
            let v : Nat := digitsVal r
            some (if eneg then -(v : Int) else v)
        else none
    match expo with
    | none => none
    | some ex =>
      let m : Nat := digitsVal (ip ++ fp)
      let e10 : Int := ex - fp.length
      let e10 := if e10 > 400 ∧ m ≠ 0 then 400 + (0 : Int) else e10
      let nd : Nat := ip.length + fp.length
      let e10 := if e10 < -1200 - (nd : Int) then -1200 - (nd : Int) else e10
      some (sgn (if e10 ≥ 0 then Float.ofScientific m false e10.toNat else Float.ofScientific m true (-e10).toNat))


theorem char_le_iff (a b : Char) : a ≤ b ↔ a.toNat ≤ b.toNat := by
  rw [Char.le_def, UInt32.le_iff_toNat_le]; rfl

theorem isDig_iff (c : Char) : isDig c = true ↔ 48 ≤ c.toNat ∧ c.toNat ≤ 57 := by
  unfold isDig
  rw [Bool.and_eq_true, decide_eq_true_eq, decide_eq_true_eq, char_le_iff, char_le_iff]
  rfl

theorem lowerAscii_of_not_upper (c : Char) (h : ¬ (65 ≤ c.toNat ∧ c.toNat ≤ 90)) : lowerAscii c = c := by
  unfold lowerAscii
  rw [if_neg]
  rw [Bool.and_eq_true, decide_eq_true_eq, decide_eq_true_eq, char_le_iff, char_le_iff]
  exact h

theorem char_ne_of_toNat_ne (a b : Char) (h : a.toNat ≠ b.toNat) : a ≠ b := fun e => h (by rw [e])

theorem words_false (d : Char) (t : Str) (hd : isDig d = true) :
    (List.map lowerAscii (d :: t) == ['i', 'n', 'f'] ||
      List.map lowerAscii (d :: t) == ['i', 'n', 'f', 'i', 'n', 'i', 't', 'y']) = false ∧
    (List.map lowerAscii (d :: t) == ['n', 'a', 'n']) = false := by
  rw [isDig_iff] at hd
  have h1 : lowerAscii d = d := lowerAscii_of_not_upper d (by omega)
  have hi : (d == 'i') = false := by
    rw [beq_eq_false_iff_ne]; exact char_ne_of_toNat_ne _ _ (by show d.toNat ≠ 105; omega)
  have hn : (d == 'n') = false := by
    rw [beq_eq_false_iff_ne]; exact char_ne_of_toNat_ne _ _ (by show d.toNat ≠ 110; omega)
  simp only [List.map_cons, h1, List.cons_beq_cons, hi, hn, Bool.false_and, Bool.or_self, and_self]

theorem parse_neg_digit (d : Char) (t : Str) (hd : isDig d = true) :
    parse ('-' :: d :: t) = parseNum true (d :: t) := by
  unfold parse parseNum
  simp only []
  rw [(words_false d t hd).1, (words_false d t hd).2]
  simp only [Bool.false_eq_true, if_false, if_true]
  rfl

theorem parse_pos_digit (d : Char) (t : Str) (hd : isDig d = true) :
    parse (d :: t) = parseNum false (d :: t) := by
  have hd' := (isDig_iff d).1 hd
  have hm : d ≠ '-' := char_ne_of_toNat_ne _ _ (by show d.toNat ≠ 45; omega)
  have hp : d ≠ '+' := char_ne_of_toNat_ne _ _ (by show d.toNat ≠ 43; omega)
  have hs : parse.match_1 (fun _ => Bool × Str) (d :: t) (fun r => (true, r)) (fun r => (false, r))
      (fun r => (false, r)) = (false, d :: t) := by
    split
    · rename_i h; injection h with h _; exact absurd h hm
    · rename_i h; injection h with h _; exact absurd h hp
    · rfl
  unfold parse parseNum
  rw [hs]
  simp only []
  rw [(words_false d t hd).1, (words_false d t hd).2]
  simp only [Bool.false_eq_true, if_false]
  rfl

def sgnB (neg : Bool) (x : Float) : Float := if neg then -x else x

theorem isDig_dot : isDig '.' = false := by decide

theorem parseNum_int (neg : Bool) (D : Str) (hne : D ≠ []) (hD : ∀ c ∈ D, isDig c = true) :
    parseNum neg D = some (sgnB neg (Float.ofScientific (digitsVal D) false 0)) := by
  have h1 : List.takeWhile isDig D = D := by
    have := List.takeWhile_append_of_pos (p := isDig) (l₁ := D) (l₂ := []) hD
    simpa using this
  have h2 : List.dropWhile isDig D = [] := by
    have := List.dropWhile_append_of_pos (p := isDig) (l₁ := D) (l₂ := []) hD
    simpa using this
  have h3 : D.isEmpty = false := by cases D <;> simp_all
  unfold parseNum
  simp only [h1, h2, h3, List.append_nil, List.length_nil, Bool.false_and, Bool.false_eq_true, if_false]
  have c : ¬ ((D.length : Int) < -1200) := by omega
  simp [sgnB, c]

theorem parseNum_frac (neg : Bool) (D F : Str) (hne : D ≠ []) (hD : ∀ c ∈ D, isDig c = true)
    (hF : ∀ c ∈ F, isDig c = true) (hFne : F ≠ []) (hlen : F.length ≤ 1200) :
    parseNum neg (D ++ '.' :: F) = some (sgnB neg (Float.ofScientific (digitsVal (D ++ F)) true F.length)) := by
  have h1 : List.takeWhile isDig (D ++ '.' :: F) = D := by
    rw [List.takeWhile_append_of_pos hD, List.takeWhile_cons_of_neg (by simp [isDig_dot])]; simp
  have h2 : List.dropWhile isDig (D ++ '.' :: F) = '.' :: F := by
    rw [List.dropWhile_append_of_pos hD, List.dropWhile_cons_of_neg (by simp [isDig_dot])]
  have h3 : List.takeWhile isDig F = F := by
    have := List.takeWhile_append_of_pos (p := isDig) (l₁ := F) (l₂ := []) hF
    simpa using this
  have h4 : List.dropWhile isDig F = [] := by
    have := List.dropWhile_append_of_pos (p := isDig) (l₁ := F) (l₂ := []) hF
    simpa using this
  have h5 : D.isEmpty = false := by cases D <;> simp_all
  have hFl : 0 < F.length := by cases F <;> simp_all
  unfold parseNum
  simp only [h1, h2, h3, h4, h5, Bool.false_and, Bool.false_eq_true, if_false]
  have c1 : ¬ ((0 : Int) - (F.length : Int) > 400 ∧ digitsVal (D ++ F) ≠ 0) := by omega
  simp only [c1, if_false]
  have c2 : ¬ ((0 : Int) - (F.length : Int) < -1200 - ((D.length + F.length : Nat) : Int)) := by omega
  simp only [c2, if_false]
  have c3 : ¬ ((0 : Int) - (F.length : Int) ≥ 0) := by omega
  simp only [c3, if_false]
  have c4 : (-((0 : Int) - (F.length : Int))).toNat = F.length := by omega
  rw [c4]; rfl

theorem digitsVal_eq (l : Str) : digitsVal l = Nat.ofDigitChars 10 l 0 := by
  unfold digitsVal Nat.ofDigitChars
  generalize 0 = init
  induction l generalizing init with
  | nil => rfl
  | cons a as ih =>
    simp only [List.foldl_cons]
    rw [ih]
    congr 1
    show init * 10 + (a.toNat - 48) = 10 * init + (a.toNat - 48)
    omega

theorem isDig_of_isDigit (c : Char) (h : c.isDigit = true) : isDig c = true := by
  rw [isDig_iff]
  unfold Char.isDigit at h
  rw [Bool.and_eq_true, decide_eq_true_eq, decide_eq_true_eq] at h
  exact ⟨UInt32.le_iff_toNat_le.1 h.1, UInt32.le_iff_toNat_le.1 h.2⟩

theorem toDigits_isDig (c : Nat) : ∀ d ∈ Nat.toDigits 10 c, isDig d = true :=
  fun _ hd => isDig_of_isDigit _ (Nat.isDigit_of_mem_toDigits (by decide) (by decide) hd)

theorem digitsVal_toDigits (c : Nat) : digitsVal (Nat.toDigits 10 c) = c := by
  rw [digitsVal_eq]; exact Nat.ofDigitChars_ten_toDigits

theorem digitsVal_append_zeros (ds : Str) (k : Nat) :
    digitsVal (ds ++ List.replicate k '0') = digitsVal ds * 10^k := by
  rw [digitsVal_eq, digitsVal_eq, Nat.ofDigitChars_append, Nat.ofDigitChars_replicate_zero, Nat.mul_comm]

theorem digitsVal_zeros_append (ds : Str) (k : Nat) :
    digitsVal (List.replicate k '0' ++ ds) = digitsVal ds := by
  rw [digitsVal_eq, digitsVal_eq, Nat.ofDigitChars_append, Nat.ofDigitChars_replicate_zero]
  simp

theorem isDig_zero : isDig '0' = true := by decide

theorem replicate_isDig (k : Nat) : ∀ d ∈ List.replicate k '0', isDig d = true := by
  intro d hd; rw [List.mem_replicate] at hd; rw [hd.2]; exact isDig_zero

theorem parse_signed (neg : Bool) (d : Char) (t : Str) (hd : isDig d = true) :
    parse ((if neg then ['-'] else []) ++ d :: t) = parseNum neg (d :: t) := by
  cases neg
  · exact parse_pos_digit d t hd
  · exact parse_neg_digit d t hd

/-- the text `display` builds from the decimal candidate c·10^p (without the sign) -/
def body (c : Nat) (p : Int) : Str :=
  let ds := Nat.toDigits 10 c
  if p ≥ 0 then ds ++ List.replicate p.toNat '0'
  else
    let q := (-p).toNat
    if ds.length ≤ q then '0' :: '.' :: (List.replicate (q - ds.length) '0' ++ ds)
    else ds.take (ds.length - q) ++ '.' :: ds.drop (ds.length - q)

/-- the number `parse` computes from `body c p` -/
def readBack (c : Nat) (p : Int) : Float :=
  if p ≥ 0 then Float.ofScientific (c * 10^p.toNat) false 0 else Float.ofScientific c true (-p).toNat

theorem parse_int_shape (neg : Bool) (D : Str) (hne : D ≠ []) (hD : ∀ c ∈ D, isDig c = true) :
    parse ((if neg then ['-'] else []) ++ D) = some (sgnB neg (Float.ofScientific (digitsVal D) false 0)) := by
  cases D with
  | nil => exact absurd rfl hne
  | cons d t =>
    rw [parse_signed neg d t (hD d (by simp)), parseNum_int neg _ hne hD]

theorem parse_frac_shape (neg : Bool) (D F : Str) (hne : D ≠ []) (hD : ∀ c ∈ D, isDig c = true)
    (hF : ∀ c ∈ F, isDig c = true) (hFne : F ≠ []) (hlen : F.length ≤ 1200) :
    parse ((if neg then ['-'] else []) ++ (D ++ '.' :: F)) =
      some (sgnB neg (Float.ofScientific (digitsVal (D ++ F)) true F.length)) := by
  cases D with
  | nil => exact absurd rfl hne
  | cons d t =>
    rw [List.cons_append, parse_signed neg d _ (hD d (by simp)), ← List.cons_append,
      parseNum_frac neg _ F hne hD hF hFne hlen]

/-- structural half of the round trip: whatever candidate (c, p) the printer emits, the parser reads the
    same digits and decimal exponent back -/
theorem parse_body (neg : Bool) (c : Nat) (p : Int) (hp : -1200 ≤ p) :
    parse ((if neg then ['-'] else []) ++ body c p) = some (sgnB neg (readBack c p)) := by
  have hds := toDigits_isDig c
  have hne : Nat.toDigits 10 c ≠ [] := Nat.toDigits_ne_nil
  have hval := digitsVal_toDigits c
  unfold body readBack
  simp only []
  by_cases h0 : p ≥ 0
  · rw [if_pos h0, if_pos h0]
    rw [parse_int_shape neg _ (by simp [hne]) (by
      intro d hd; rcases List.mem_append.1 hd with h | h
      · exact hds d h
      · exact replicate_isDig _ d h)]
    rw [digitsVal_append_zeros, hval]
  · rw [if_neg h0, if_neg h0]
    generalize hq : (-p).toNat = q
    have hq1 : 1 ≤ q := by omega
    have hq2 : q ≤ 1200 := by omega
    by_cases hl : (Nat.toDigits 10 c).length ≤ q
    · rw [if_pos hl]
      have := parse_frac_shape neg ['0'] (List.replicate (q - (Nat.toDigits 10 c).length) '0' ++ Nat.toDigits 10 c)
        (by simp) (by intro d hd; simp at hd; rw [hd]; exact isDig_zero)
        (by intro d hd; rcases List.mem_append.1 hd with h | h
            · exact replicate_isDig _ d h
            · exact hds d h)
        (by simp [hne]) (by simp; omega)
      rw [show '0' :: '.' :: (List.replicate (q - (Nat.toDigits 10 c).length) '0' ++ Nat.toDigits 10 c) =
        ['0'] ++ '.' :: (List.replicate (q - (Nat.toDigits 10 c).length) '0' ++ Nat.toDigits 10 c) from rfl, this]
      have e1 : digitsVal (['0'] ++ (List.replicate (q - (Nat.toDigits 10 c).length) '0' ++ Nat.toDigits 10 c)) = c := by
        rw [show ['0'] ++ (List.replicate (q - (Nat.toDigits 10 c).length) '0' ++ Nat.toDigits 10 c) =
          List.replicate (q - (Nat.toDigits 10 c).length + 1) '0' ++ Nat.toDigits 10 c from by
            rw [List.replicate_succ]; rfl]
        rw [digitsVal_zeros_append, hval]
      have e2 : (List.replicate (q - (Nat.toDigits 10 c).length) '0' ++ Nat.toDigits 10 c).length = q := by
        simp; omega
      rw [e1, e2]
    · rw [if_neg hl]
      have hl' : q < (Nat.toDigits 10 c).length := by omega
      have := parse_frac_shape neg ((Nat.toDigits 10 c).take ((Nat.toDigits 10 c).length - q))
        ((Nat.toDigits 10 c).drop ((Nat.toDigits 10 c).length - q))
        (by intro h; have := congrArg List.length h; simp at this; omega)
        (fun d hd => hds d (List.mem_of_mem_take hd))
        (fun d hd => hds d (List.mem_of_mem_drop hd))
        (by intro h; have := congrArg List.length h; simp at this; omega)
        (by simp; omega)
      rw [this, List.take_append_drop, hval]
      have e2 : ((Nat.toDigits 10 c).drop ((Nat.toDigits 10 c).length - q)).length = q := by simp; omega
      rw [e2]

/-- the decimal candidate (c, p) — digits c, exponent p, value c·10^p — that `display` settles on for a finite
    non-zero x (search for the shortest digit string that reads back, then drop trailing zeros) -/
def displayCand (x : Float) : Nat × Int :=
  let neg := signBit x
  let ax := if neg then -x else x
  let (m, e) := decode ax
  let num : Nat := if e ≥ 0 then m <<< e.toNat else m
  let den : Nat := if e ≥ 0 then 1 else 1 <<< (-e).toNat
  let k0 : Int := (decLen num : Int) - (decLen den : Int)
  let k : Int :=
    let pow (i : Int) : Nat × Nat := if i ≥ 0 then (10 ^ i.toNat, 1) else (1, 10 ^ (-i).toNat)
    let ge (i : Int) : Bool := let (pn, pd) := pow i; ratCmp num den pn pd != .lt
    if ge (k0 + 1) then k0 + 2 else if ge k0 then k0 + 1 else if ge (k0 - 1) then k0 else k0 - 1
  let (c, p) := displaySearch ax num den k 1 18
  stripZeros c p 20

theorem display_finite (x : Float) (h1 : isNaN x = false) (h2 : isInf x = false) (h3 : isZero x = false) :
    display x = (if signBit x then ['-'] else []) ++ body (displayCand x).1 (displayCand x).2 := by
  unfold display
  rw [if_neg (by rw [h1]; decide), if_neg (by rw [h2]; decide), if_neg (by rw [h3]; decide)]
  unfold displayCand body
  cases signBit x <;> rfl

open Float.Model Float.Model.UnpackedFloat in
theorem sbit_neg (s : Sign) : sbit (-s) = 1 - sbit s := by cases s <;> rfl

open Float.Model Float.Model.UnpackedFloat in
/-- negation flips the sign bit (non-NaN) -/
theorem bits_neg (x : Float) (h : ¬ (bits x / 2^52 % 2^11 = 2047 ∧ bits x % 2^52 ≠ 0)) :
    bits (-x) = (bits x + 2^63) % 2^64 := by
  have hb := bits_lt x
  show bits (Float.neg x) = _
  unfold Float.neg
  show bits (Float.ofModel (Float.Model.neg _)) = _
  unfold Float.Model.neg
  rw [bits_ofModel_pack, unpack_bits]
  have hs := sbit_signN (bits x)
  by_cases hE : bits x / 2^52 % 2^11 = 2047
  · have hM : bits x % 2^52 = 0 := by
      by_cases hM : bits x % 2^52 = 0
      · exact hM
      · exact absurd ⟨hE, hM⟩ h
    rw [unpackN_inf _ hE hM]
    simp only [UnpackedFloat.neg, packN, sbit_neg]
    omega
  · by_cases hE0 : bits x / 2^52 % 2^11 = 0
    · by_cases hM : bits x % 2^52 = 0
      · rw [unpackN_zero _ hE0 hM]
        simp only [UnpackedFloat.neg, packN, sbit_neg]
        omega
      · rw [unpackN_subnormal _ hE0 hM]
        simp only [UnpackedFloat.neg, packN, sbit_neg]
        have hl : (bits x % 2^52).log2 < 52 := log2_lt_of _ _ (Nat.mod_lt _ (by decide)) hM
        rw [if_neg (by omega), if_neg (by omega)]
        omega
    · rw [unpackN_normal _ hE hE0]
      simp only [UnpackedFloat.neg, packN, sbit_neg]
      have hl : (2^52 + bits x % 2^52).log2 = 52 := log2_eq_of _ _ (by omega) (by omega)
      rw [if_neg (by omega), if_pos (by omega)]
      omega

theorem neg_neg_of_not_nan (x : Float) (h : ¬ (bits x / 2^52 % 2^11 = 2047 ∧ bits x % 2^52 ≠ 0)) : -(-x) = x := by
  apply eq_of_bits_eq
  have hb := bits_lt x
  have h1 := bits_neg x h
  have h2 := bits_neg (-x) (by rw [h1]; omega)
  rw [h2, h1]; omega

/-! ### the printed candidate's decimal exponent stays far above the parser's clamp -/

theorem displaySearch_succ_cases (ax : Float) (num den : Nat) (k : Int) (fuel n : Nat) :
    (displaySearch ax num den k n (fuel + 1)).2 = k - n ∨
    displaySearch ax num den k n (fuel + 1) = displaySearch ax num den k (n + 1) fuel := by
  rw [displaySearch]
  simp only []
  repeat' split
  all_goals first | exact Or.inl rfl | exact Or.inr rfl

theorem displaySearch_snd_ge (ax : Float) (num den : Nat) (k : Int) (fuel n : Nat) :
    (displaySearch ax num den k n fuel).2 ≥ min 0 (k - n - fuel) := by
  induction fuel generalizing n with
  | zero => rw [displaySearch]; simp only []; omega
  | succ fuel ih =>
    rcases displaySearch_succ_cases ax num den k fuel n with h | h
    · rw [h]; omega
    · rw [h]; have := ih (n + 1); push_cast at this ⊢; omega

theorem stripZeros_snd_ge (c : Nat) (p : Int) (fuel : Nat) : (stripZeros c p fuel).2 ≥ p := by
  induction fuel generalizing c p with
  | zero => rw [stripZeros]; exact Int.le_refl _
  | succ fuel ih =>
    unfold stripZeros
    split
    · have := ih (c / 10) (p + 1); omega
    · exact Int.le_refl _

theorem decode_snd_ge (x : Float) : (decode x).2 ≥ -1074 := by
  unfold decode; simp only []; split
  · exact Int.le_refl _
  · show ((expBits x : Int) - 1075) ≥ -1074
    rename_i h; have : expBits x ≠ 0 := by simpa using h
    omega

theorem decLen_pos (n : Nat) : 1 ≤ decLen n := by unfold decLen; exact Nat.length_toDigits_pos

set_option exponentiation.threshold 2000 in
theorem decLen_two_pow (j : Nat) (hj : j ≤ 1074) : decLen (2^j) ≤ 324 := by
  unfold decLen
  rw [Nat.length_toDigits_le_iff (by decide) (by decide)]
  calc 2^j ≤ 2^1074 := Nat.pow_le_pow_right (by decide) hj
    _ < 10^324 := by decide +kernel

/-- the decimal-exponent estimate of `display` (first power of ten above the value) -/
def selK (num den : Nat) (k0 : Int) : Int :=
  let pow (i : Int) : Nat × Nat := if i ≥ 0 then (10 ^ i.toNat, 1) else (1, 10 ^ (-i).toNat)
  let ge (i : Int) : Bool := let (pn, pd) := pow i; ratCmp num den pn pd != .lt
  if ge (k0 + 1) then k0 + 2 else if ge k0 then k0 + 1 else if ge (k0 - 1) then k0 else k0 - 1

theorem selK_ge (num den : Nat) (k0 : Int) : selK num den k0 ≥ k0 - 1 := by
  unfold selK
  extract_lets pow ge
  split
  · omega
  · split
    · omega
    · split <;> omega

/-- `displayCand` with the decoded magnitude as a parameter -/
def candOf (ax : Float) (d : Nat × Int) : Nat × Int :=
  let (m, e) := d
  let num : Nat := if e ≥ 0 then m <<< e.toNat else m
  let den : Nat := if e ≥ 0 then 1 else 1 <<< (-e).toNat
  let k0 : Int := (decLen num : Int) - (decLen den : Int)
  let k : Int := selK num den k0
  let (c, p) := displaySearch ax num den k 1 18
  stripZeros c p 20

theorem displayCand_eq (x : Float) :
    displayCand x = candOf (if signBit x then -x else x) (decode (if signBit x then -x else x)) := rfl

theorem candOf_snd_ge (ax : Float) (m : Nat) (e : Int) (he : e ≥ -1074) : (candOf ax (m, e)).2 ≥ -343 := by
  unfold candOf
  simp only []
  refine Int.le_trans ?_ (stripZeros_snd_ge _ _ _)
  refine Int.le_trans ?_ (displaySearch_snd_ge _ _ _ _ _ _)
  have hnum := decLen_pos (if e ≥ 0 then m <<< e.toNat else m)
  have hden : decLen (if e ≥ 0 then 1 else 1 <<< (-e).toNat) ≤ 324 := by
    split
    · exact decLen_two_pow 0 (by omega)
    · rw [Nat.shiftLeft_eq, Nat.one_mul]; exact decLen_two_pow _ (by omega)
  have hk := selK_ge (if e ≥ 0 then m <<< e.toNat else m) (if e ≥ 0 then 1 else 1 <<< (-e).toNat)
    ((decLen (if e ≥ 0 then m <<< e.toNat else m) : Int) - (decLen (if e ≥ 0 then 1 else 1 <<< (-e).toNat) : Int))
  generalize selK _ _ _ = kk at hk ⊢
  omega

/-- the decimal exponent of the printed candidate is never below -343: `parse` does not clamp it -/
theorem displayCand_snd_ge (x : Float) : (displayCand x).2 ≥ -343 := by
  rw [displayCand_eq]
  have := decode_snd_ge (if signBit x then -x else x)
  generalize decode (if signBit x then -x else x) = d at this ⊢
  obtain ⟨m, e⟩ := d
  exact candOf_snd_ge _ m e this

/-- the remaining, number-theoretic half of the round trip for a finite non-zero x: the candidate the search
    settles on reads back as |x|. -/
def DisplaySearchOk (x : Float) : Prop :=
  readBack (displayCand x).1 (displayCand x).2 = (if signBit x then -x else x)

instance (x : Float) : Decidable (DisplaySearchOk x) := by unfold DisplaySearchOk; infer_instance

theorem special_texts :
    parse ['N','a','N'] = some nan ∧ parse ['i','n','f'] = some inf ∧ parse ['-','i','n','f'] = some (-inf) ∧
    parse ['0'] = some (Float.ofBits 0) ∧ parse ['-','0'] = some (Float.ofBits 0x8000000000000000) ∧
    bits nan = 0x7FF8000000000000 ∧ bits inf = 0x7FF0000000000000 ∧ bits (-inf) = 0xFFF0000000000000 ∧
    bits (Float.ofBits 0) = 0 ∧ bits (Float.ofBits 0x8000000000000000) = 0x8000000000000000 := by
  decide +kernel

/-- `float(str(x)) = x`: parsing the printed text gives the same double back (bit for bit; the model's only NaN
    is the canonical one), for NaN, ±inf, ±0 unconditionally and for every other x from `DisplaySearchOk x`. -/
theorem parse_display (x : Float)
    (h : isNaN x = false → isInf x = false → isZero x = false → DisplaySearchOk x) :
    parse (display x) = some x := by
  have hb := bits_lt x
  obtain ⟨t1, t2, t3, t4, t5, b1, b2, b3, b4, b5⟩ := special_texts
  by_cases hn : isNaN x = true
  · have hx : x = nan := by
      apply eq_of_bits_eq; rw [b1]
      unfold isNaN isNaNN magN at hn; rw [decide_eq_true_eq] at hn
      exact bits_valid x (by omega) (by omega)
    unfold display; rw [if_pos hn, t1, hx]
  · have hn' : isNaN x = false := by cases h : isNaN x <;> simp_all
    by_cases hi : isInf x = true
    · unfold display; rw [if_neg hn, if_pos hi]
      unfold isInf magN at hi; rw [decide_eq_true_eq] at hi
      rw [signBit_eq]
      by_cases hs : bits x / 2^63 = 1
      · rw [decide_eq_true hs, if_pos rfl, t3]; congr 1; apply eq_of_bits_eq; rw [b3]; omega
      · rw [decide_eq_false hs]; simp only [Bool.false_eq_true, if_false]
        rw [t2]; congr 1; apply eq_of_bits_eq; rw [b2]; omega
    · have hi' : isInf x = false := by cases h : isInf x <;> simp_all
      by_cases hz : isZero x = true
      · unfold display; rw [if_neg hn, if_neg hi, if_pos hz]
        unfold isZero magN at hz; rw [decide_eq_true_eq] at hz
        rw [signBit_eq]
        by_cases hs : bits x / 2^63 = 1
        · rw [decide_eq_true hs, if_pos rfl, t5]; congr 1; apply eq_of_bits_eq; rw [b5]; omega
        · rw [decide_eq_false hs]; simp only [Bool.false_eq_true, if_false]
          rw [t4]; congr 1; apply eq_of_bits_eq; rw [b4]; omega
      · have hz' : isZero x = false := by cases h : isZero x <;> simp_all
        have hr : DisplaySearchOk x := h hn' hi' hz'
        unfold DisplaySearchOk at hr
        have hp : -1200 ≤ (displayCand x).2 := by have := displayCand_snd_ge x; omega
        rw [display_finite x hn' hi' hz', parse_body _ _ _ hp, hr]
        congr 1
        unfold sgnB
        cases hs : signBit x
        · rfl
        · simp only [if_true]
          apply neg_neg_of_not_nan
          unfold isNaN isNaNN magN at hn'
          rw [decide_eq_false_iff_not] at hn'
          omega

end F64
end Slac
