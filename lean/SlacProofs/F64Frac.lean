/-
  SlacProofs.F64Frac — `trunc(x) + frac(x) = x` for the driver's doubles, proved from core's float model:
  every finite non-zero double is a canonical `mkF` (`exists_mkF`); `trunc` on canonical floats (zero of the same
  sign below 1, low mantissa bits cleared between 1 and 2^52, identity above); the subtraction `x - trunc x` and
  the addition `trunc x + (x - trunc x)` are exact in core's `UnpackedFloat.sub`/`add` (`sub_add_exact`).
  Result: `trunc_add_fract` (bit for bit, every finite x ≠ -0.0), `trunc_add_fract_neg_zero` (the exception:
  -0.0 ↦ +0.0, IEEE-equal), `trunc_add_fract_beq` (IEEE `==`, every finite x), `fract_inf` (NaN at ±inf).
-/
import SlacProofs.F64Int
import SlacModel.NumX
set_option autoImplicit false
namespace Slac
namespace F64
open Float.Model Float.Model.UnpackedFloat

/-- every finite non-zero double is a canonical `mkF` -/
theorem exists_mkF (x : Float) (hf : isFinite x = true) (hz : isZero x = false) :
    ∃ (s : Sign) (m : Nat) (e : Int) (h : Canon m e), x = mkF s m e h.pos := by
  have hb := bits_lt x
  unfold isFinite magN at hf; rw [decide_eq_true_eq] at hf
  unfold isZero magN at hz; rw [decide_eq_false_iff_not] at hz
  have hsb := sbit_signN (bits x)
  by_cases hE : bits x / 2^52 % 2^11 = 0
  · have hM : 0 < bits x % 2^52 := by omega
    have hc : Canon (bits x % 2^52) (-1074) := Canon.of_subnormal hM (Nat.mod_lt _ (by decide))
    refine ⟨signN (bits x), bits x % 2^52, -1074, hc, ?_⟩
    apply eq_of_bits_eq
    rw [bits_mkF2 _ _ _ hc]
    have hl : (bits x % 2^52).log2 < 52 := log2_lt_of _ _ (Nat.mod_lt _ (by decide)) (by omega)
    unfold magOf; rw [if_neg (by omega)]; omega
  · have hc : Canon (2^52 + bits x % 2^52) (((bits x / 2^52 % 2^11 : Nat) : Int) - 1075) :=
      Canon.of_normal (by omega) (by omega) (by omega) (by omega)
    refine ⟨signN (bits x), _, _, hc, ?_⟩
    apply eq_of_bits_eq
    rw [bits_mkF2 _ _ _ hc]
    have hl : (2^52 + bits x % 2^52).log2 = 52 := log2_eq_of _ _ (by omega) (by omega)
    unfold magOf; rw [if_pos hl]; omega

theorem float_sub_def (x y : Float) :
    x - y = Float.ofModel (Float.Model.pack (UnpackedFloat.sub B64 x.toModel.unpack y.toModel.unpack)) := rfl
theorem float_add_def (x y : Float) :
    x + y = Float.ofModel (Float.Model.pack (UnpackedFloat.add B64 x.toModel.unpack y.toModel.unpack)) := rfl

/-- signed zero -/
def zeroF (s : Sign) : Float := Float.ofModel (Float.Model.pack (.zero s))

theorem bits_zeroF (s : Sign) : bits (zeroF s) = sbit s * 2^63 := by
  rw [zeroF, bits_ofModel_pack]; rfl

theorem unpack_zeroF (s : Sign) : (zeroF s).toModel.unpack = .zero s := by
  have hs := sbit_le s
  rw [unpack_bits, bits_zeroF, unpackN_zero _ (by omega) (by omega)]
  congr 1
  have := signN_add s 0 (by decide); simpa using this

/-- |x| < 1: `trunc` gives the zero of the same sign -/
theorem trunc_mkF_small (s : Sign) (m : Nat) (e : Int) (h : Canon m e) (he : e < -52) :
    trunc (mkF s m e h.pos) = zeroF s := by
  apply eq_of_bits_eq
  rw [bits_trunc, bits_mkF2 s m e h, bits_zeroF]
  have hlt := h.lt; have hm0 : m ≠ 0 := by have := h.pos; omega
  have hs := sbit_le s
  have hmag := magOf_lt m e h
  have hE : (sbit s * 2^63 + magOf m e) / 2^52 % 2^11 < 1023 := by
    unfold magOf
    rcases h.cases with ⟨hl, he'⟩ | ⟨hl, he'⟩
    · rw [if_pos hl]
      have h52 : 2^52 ≤ m := (Nat.le_log2 hm0).1 (by omega)
      generalize hbe : (e + 1075).toNat = be
      have : be < 1023 := by omega
      omega
    · rw [if_neg (by omega)]
      have h52 : m < 2^52 := (Nat.log2_lt hm0).1 hl
      omega
  rw [truncN_small _ hE]
  omega

theorem dvd_add_div_mul (c a k : Nat) (h : 2^k ∣ c) : (c + a) / 2^k * 2^k = c + a / 2^k * 2^k := by
  obtain ⟨q, rfl⟩ := h
  rw [Nat.mul_add_div (Nat.two_pow_pos k), Nat.add_mul, Nat.mul_comm q]

/-- 1 ≤ |x| < 2^52: `trunc` clears the k = -e low mantissa bits -/
theorem trunc_mkF_mid (s : Sign) (m : Nat) (e : Int) (h : Canon m e) (he1 : -52 ≤ e) (he2 : e < 0) :
    ∃ h' : Canon (m / 2^(-e).toNat * 2^(-e).toNat) e,
      trunc (mkF s m e h.pos) = mkF s (m / 2^(-e).toNat * 2^(-e).toNat) e h'.pos := by
  have hlt := h.lt; have hm0 : m ≠ 0 := by have := h.pos; omega
  have hs := sbit_le s
  have hl : m.log2 = 52 := by rcases h.cases with ⟨hl, _⟩ | ⟨_, h2⟩ <;> omega
  have h52 : 2^52 ≤ m := (Nat.le_log2 hm0).1 (by omega)
  generalize hk : (-e).toNat = k
  have hk1 : 1 ≤ k := by omega
  have hk52 : k ≤ 52 := by omega
  have d52 : 2^k ∣ 2^52 := Nat.pow_dvd_pow 2 hk52
  have hm'1 : 2^52 ≤ m / 2^k * 2^k := by
    obtain ⟨q, hq⟩ := d52
    have : 2^52 / 2^k ≤ m / 2^k := Nat.div_le_div_right h52
    have h2 : 2^52 / 2^k * 2^k = 2^52 := Nat.div_mul_cancel ⟨q, hq⟩
    calc 2^52 = 2^52 / 2^k * 2^k := h2.symm
      _ ≤ m / 2^k * 2^k := Nat.mul_le_mul_right _ this
  have hm'2 : m / 2^k * 2^k ≤ m := Nat.div_mul_le_self _ _
  have hc' : Canon (m / 2^k * 2^k) e := Canon.of_normal hm'1 (by omega) (by omega) h.le
  refine ⟨hc', ?_⟩
  apply eq_of_bits_eq
  rw [bits_trunc, bits_mkF2 s m e h, bits_mkF2 _ _ _ hc']
  have hl' : (m / 2^k * 2^k).log2 = 52 := log2_eq_of _ _ hm'1 (by omega)
  unfold magOf; rw [if_pos hl, if_pos hl']
  generalize hbe : (e + 1075).toNat = be
  have hbe' : be = 1075 - k := by omega
  have hE : (sbit s * 2^63 + (be * 2^52 + (m - 2^52))) / 2^52 % 2^11 = be := by omega
  rw [truncN_mid _ (by rw [hE]; omega) (by rw [hE]; omega), hE]
  have hkk : 1075 - be = k := by omega
  rw [hkk]
  have d63 : 2^k ∣ 2^63 := Nat.pow_dvd_pow 2 (by omega)
  have dS : 2^k ∣ sbit s * 2^63 := Nat.dvd_mul_left_of_dvd d63 _
  have dB : 2^k ∣ be * 2^52 := Nat.dvd_mul_left_of_dvd d52 _
  rw [dvd_add_div_mul _ _ _ dS, dvd_add_div_mul _ _ _ dB]
  have := dvd_add_div_mul (2^52) (m - 2^52) k d52
  have e2 : 2^52 + (m - 2^52) = m := by omega
  rw [e2] at this
  omega

theorem normalize_apply (s : Sign) (r : Nat) (e : Int) (z : Sign) (hr : 0 < r) :
    normalize B64 (s.apply (r : Int)) e z = UnpackedFloat.round B64 s r e := by
  cases s
  · have : compare (Sign.negative.apply (r : Int)) 0 = .lt := by
      rw [Int.compare_eq_lt]; show -(r:Int) < 0; omega
    unfold normalize; rw [this]
    show UnpackedFloat.round B64 .negative (-(-(r:Int))).toNat e = _
    congr 1; omega
  · have : compare (Sign.positive.apply (r : Int)) 0 = .gt := by
      rw [Int.compare_eq_gt]; show 0 < (r:Int); omega
    unfold normalize; rw [this]
    show UnpackedFloat.round B64 .positive ((r:Int)).toNat e = _
    congr 1

theorem normalize_zero (e : Int) (z : Sign) : normalize B64 0 e z = .zero z := by
  unfold normalize; rfl

theorem apply_sub (s : Sign) (a b : Nat) (h : b ≤ a) : s.apply (a : Int) - s.apply (b : Int) = s.apply ((a - b : Nat) : Int) := by
  cases s <;> simp only [Sign.apply] <;> omega
theorem apply_add (s : Sign) (a b : Nat) : s.apply (a : Int) + s.apply (b : Int) = s.apply ((a + b : Nat) : Int) := by
  cases s <;> simp only [Sign.apply] <;> omega

/-- x - x = +0 for finite non-zero x -/
theorem sub_self_mkF (s : Sign) (m : Nat) (e : Int) (h : Canon m e) :
    mkF s m e h.pos - mkF s m e h.pos = zeroF .positive := by
  rw [float_sub_def, unpack_mkF s m e h]
  simp only [UnpackedFloat.sub, decreaseExponent]
  rw [Int.sub_self, normalize_zero]; rfl

theorem sub_zero_mkF (s z : Sign) (m : Nat) (e : Int) (h : Canon m e) :
    mkF s m e h.pos - zeroF z = mkF s m e h.pos := by
  rw [float_sub_def, unpack_mkF s m e h, unpack_zeroF]; rfl

theorem add_zero_mkF (s z : Sign) (m : Nat) (e : Int) (h : Canon m e) :
    mkF s m e h.pos + zeroF z = mkF s m e h.pos := by
  rw [float_add_def, unpack_mkF s m e h, unpack_zeroF]; rfl

theorem zero_add_mkF (s z : Sign) (m : Nat) (e : Int) (h : Canon m e) :
    zeroF z + mkF s m e h.pos = mkF s m e h.pos := by
  rw [float_add_def, unpack_mkF s m e h, unpack_zeroF]; rfl

theorem Canon.ge {m : Nat} {e : Int} (h : Canon m e) : -1074 ≤ e := by
  rcases h.cases with ⟨_, h1⟩ | ⟨_, h1⟩ <;> omega

/-- exact subtraction of a smaller same-sign, same-exponent value, followed by adding it back -/
theorem sub_add_exact (s : Sign) (m m' : Nat) (e : Int) (h : Canon m e) (h' : Canon m' e) (hlt : m' < m) :
    ∃ (r : Nat) (T : Int) (hc : Canon r T),
      mkF s m e h.pos - mkF s m' e h'.pos = mkF s r T hc.pos ∧
      mkF s m' e h'.pos + mkF s r T hc.pos = mkF s m e h.pos := by
  have hm53 := h.lt
  have hge := h.ge
  have hd0 : m - m' ≠ 0 := by omega
  have hdl : (m - m').log2 < 53 := (Nat.log2_lt hd0).2 (by omega)
  have hT : tgt (m - m') e ≤ e := by unfold tgt; omega
  generalize hTT : tgt (m - m') e = T at hT
  generalize hj : (e - T).toNat = j
  have hej : e - (j : Int) = T := by omega
  have hc : Canon ((m - m') * 2^j) T := by
    refine ⟨Nat.mul_pos (by omega) (Nat.two_pow_pos _), ?_, by have := h.le; omega⟩
    have := tgt_mul (m - m') j e hd0
    rw [hej, hTT] at this; exact this
  refine ⟨(m - m') * 2^j, T, hc, ?_, ?_⟩
  · rw [float_sub_def, unpack_mkF s m e h, unpack_mkF s m' e h']
    simp only [UnpackedFloat.sub, decreaseExponent]
    have e0 : (e - min e e).toNat = 0 := by omega
    simp only [e0, Nat.shiftLeft_zero]
    rw [apply_sub s m m' (by omega), normalize_apply s (m - m') _ _ (by omega)]
    have emin : min e e = e := by omega
    rw [emin, round_up s (m - m') e (by omega) (by rw [hTT]; exact hT)]
    unfold mkF
    congr 3
    · rw [hTT, hj]
  · rw [float_add_def, unpack_mkF s m' e h', unpack_mkF _ _ _ hc]
    simp only [UnpackedFloat.add, decreaseExponent]
    have emin : min e T = T := by omega
    have e1 : (e - T).toNat = j := hj
    have e2 : (T - T).toNat = 0 := by omega
    simp only [emin, e1, e2, Nat.shiftLeft_eq, Nat.pow_zero, Nat.mul_one]
    rw [apply_add, normalize_apply _ _ _ _ (by
      have := Nat.two_pow_pos j
      have : 0 < (m - m') * 2^j := Nat.mul_pos (by omega) this
      omega)]
    have e3 : m' * 2^j + (m - m') * 2^j = m * 2^j := by rw [← Nat.add_mul]; congr 1; omega
    rw [e3, ← hej, round_down s m j e h.pos h.tgt_eq]
    rfl

theorem trunc_add_fract_mkF (s : Sign) (m : Nat) (e : Int) (h : Canon m e) :
    trunc (mkF s m e h.pos) + fract (mkF s m e h.pos) = mkF s m e h.pos := by
  unfold fract
  by_cases he0 : 0 ≤ e
  · rw [trunc_mkF_int s m e h (Or.inl he0), sub_self_mkF s m e h, add_zero_mkF s _ m e h]
  · by_cases he : e < -52
    · rw [trunc_mkF_small s m e h he, sub_zero_mkF s _ m e h, zero_add_mkF s _ m e h]
    · obtain ⟨hc', ht⟩ := trunc_mkF_mid s m e h (by omega) (by omega)
      rw [ht]
      have hle : m / 2^(-e).toNat * 2^(-e).toNat ≤ m := Nat.div_mul_le_self _ _
      by_cases heq : m / 2^(-e).toNat * 2^(-e).toNat = m
      · have : mkF s (m / 2^(-e).toNat * 2^(-e).toNat) e hc'.pos = mkF s m e h.pos := by
          congr 1
        rw [this, sub_self_mkF s m e h, add_zero_mkF s _ m e h]
      · obtain ⟨r, T, hc, h1, h2⟩ := sub_add_exact s m _ e h hc' (by omega)
        rw [h1, h2]

/-- `trunc(x) + frac(x) = x`, bit for bit, for every finite x except -0.0 (where IEEE gives +0.0) -/
theorem trunc_add_fract (x : Float) (hf : isFinite x = true) (hnz : bits x ≠ 2^63) :
    trunc x + fract x = x := by
  by_cases hz : isZero x = true
  · have hb := bits_lt x
    unfold isZero magN at hz; rw [decide_eq_true_eq] at hz
    have : bits x = 0 := by omega
    have hx : x = Float.ofBits 0 := by apply eq_of_bits_eq; rw [this]; decide +kernel
    rw [hx]; decide +kernel
  · have hz' : isZero x = false := by cases h : isZero x <;> simp_all
    obtain ⟨s, m, e, h, rfl⟩ := exists_mkF x hf hz'
    exact trunc_add_fract_mkF s m e h

/-- the excluded case: -0.0 gives +0.0, which is IEEE-equal to -0.0 -/
theorem trunc_add_fract_neg_zero :
    trunc (Float.ofBits 0x8000000000000000) + fract (Float.ofBits 0x8000000000000000) = Float.ofBits 0 ∧
    beq (Float.ofBits 0) (Float.ofBits 0x8000000000000000) = true := by decide +kernel

/-- in IEEE equality the identity holds for every finite x -/
theorem trunc_add_fract_beq (x : Float) (hf : isFinite x = true) : beq (trunc x + fract x) x = true := by
  by_cases hnz : bits x = 2^63
  · have hx : x = Float.ofBits 0x8000000000000000 := by apply eq_of_bits_eq; rw [hnz]; decide +kernel
    rw [hx, trunc_add_fract_neg_zero.1]; exact trunc_add_fract_neg_zero.2
  · rw [trunc_add_fract x hf hnz]
    unfold isFinite at hf; rw [decide_eq_true_eq] at hf
    unfold beq beqN isNaNN
    simp; omega

/-- infinities: frac(±inf) is NaN (inf - inf), so the identity is about finite numbers only -/
theorem fract_inf : isNaN (fract inf) = true ∧ isNaN (fract (-inf)) = true := by decide +kernel

end F64
end Slac
