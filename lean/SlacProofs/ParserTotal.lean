/-
  SlacProofs.ParserTotal — basic facts about the Pratt-parser model (SlacModel.Parser):
    * unfolding lemmas,
    * `stable`  : once a run ends in `ok`/`err`, more fuel does not change its outcome (fuel monotonicity),
    * `shrink`  : successful calls consume tokens (every recursive call works on a shorter or equal suffix),
    * `enough`  : fuel `3 * length + c` always suffices, i.e. the call tree of the parser is at most that deep.
-/
import SlacModel.Parser
set_option autoImplicit false
namespace Slac.Parser
variable {N : Type}

/-- the outcome is a value of the Rust function (`Ok` or `Err`), not a crash of the model -/
def Fine {α : Type} : COut N α → Prop
  | .ok _ => True
  | .err _ => True
  | .outOfFuel => False
  | .panic => False

section andThen
variable {α β : Type}

@[simp] theorem andThen_ok (a : α) (k : α → COut N β) : andThen (.ok a) k = k a := rfl
@[simp] theorem andThen_err (e : CErr N) (k : α → COut N β) : andThen (.err e) k = .err e := rfl
@[simp] theorem andThen_oof (k : α → COut N β) : andThen .outOfFuel k = .outOfFuel := rfl
@[simp] theorem andThen_panic (k : α → COut N β) : andThen .panic k = .panic := rfl

theorem andThen_eq_ok {x : COut N α} {k : α → COut N β} {b : β} :
    andThen x k = .ok b ↔ ∃ a, x = .ok a ∧ k a = .ok b := by
  cases x with
  | ok a => simp
  | err e => simp
  | outOfFuel => simp
  | panic => simp

theorem fine_andThen {x : COut N α} {k : α → COut N β} (hx : Fine x) (hk : ∀ a, x = .ok a → Fine (k a)) :
    Fine (andThen x k) := by
  cases x with
  | ok a => exact hk a rfl
  | err e => trivial
  | outOfFuel => exact hx
  | panic => exact hx

theorem andThen_stable {x x' : COut N α} {k k' : α → COut N β}
    (hx : Fine x → x' = x) (hk : ∀ a, Fine (k a) → k' a = k a) (h : Fine (andThen x k)) :
    andThen x' k' = andThen x k := by
  cases x with
  | ok a => rw [hx trivial]; exact hk a h
  | err e => rw [hx trivial]; rfl
  | outOfFuel => exact h.elim
  | panic => exact h.elim

end andThen

/-! ### unfolding -/

theorem parsePrec_zero (p : Nat) (toks : List (Token N)) : parsePrec 0 p toks = .outOfFuel := by
  rw [parsePrec.eq_def]
theorem parsePrec_nil (f p : Nat) : parsePrec (f+1) p ([] : List (Token N)) = .err .eof := by
  rw [parsePrec.eq_def]
theorem parsePrec_cons (f p : Nat) (t : Token N) (r : List (Token N)) :
    parsePrec (f+1) p (t :: r) = andThen (doPrefix f t r) fun x => infixLoop f p x.1 x.2 := by
  rw [parsePrec.eq_def]

theorem doPrefix_zero (t : Token N) (rest : List (Token N)) : doPrefix 0 t rest = .outOfFuel := by
  rw [doPrefix.eq_def]
theorem doPrefix_succ (f : Nat) (t : Token N) (rest : List (Token N)) :
    doPrefix (f+1) t rest =
      (match t with
      | .literal v => .ok (.lit v, rest)
      | .identifier s => .ok (.var s, rest)
      | .leftParen => andThen (parsePrec f 1 rest) fun x => chompParen x.1 x.2
      | .leftBracket => andThen (exprList f false rest) fun x => .ok (.array x.1, x.2)
      | .not => andThen (parsePrec f 8 rest) fun x => .ok (.unary x.1 .not, x.2)
      | .minus => andThen (parsePrec f 8 rest) fun x => .ok (.unary x.1 .minus, x.2)
      | _ => .err (.noValidPrefixToken t)) := by
  rw [doPrefix.eq_def]; rfl

theorem infixLoop_zero (p : Nat) (l : Expr N) (toks : List (Token N)) : infixLoop 0 p l toks = .outOfFuel := by
  rw [infixLoop.eq_def]
theorem infixLoop_nil (f p : Nat) (l : Expr N) : infixLoop (f+1) p l ([] : List (Token N)) = .ok (l, []) := by
  rw [infixLoop.eq_def]
theorem infixLoop_cons (f p : Nat) (l : Expr N) (t : Token N) (rest : List (Token N)) :
    infixLoop (f+1) p l (t :: rest) =
      if p ≤ Token.prec t then andThen (doInfix f t l rest) fun x => infixLoop f p x.1 x.2
      else .ok (l, t :: rest) := by
  rw [infixLoop.eq_def]

theorem doInfix_zero (t : Token N) (l : Expr N) (rest : List (Token N)) : doInfix 0 t l rest = .outOfFuel := by
  rw [doInfix.eq_def]
theorem doInfix_succ (f : Nat) (t : Token N) (left : Expr N) (rest : List (Token N)) :
    doInfix (f+1) t left rest =
      (match Token.binOp? t with
      | some op => andThen (parsePrec f (nextPrec (Token.prec t)) rest) fun x => .ok (.binary left x.1 op, x.2)
      | none =>
        match t with
        | .leftParen =>
          match left with
          | .var name => andThen (exprList f true rest) fun x => .ok (.call name x.1, x.2)
          | _ => .err (.callNotOnVariable t)
        | _ => .err (.noValidInfixToken t)) := by
  rw [doInfix.eq_def]; rfl

theorem exprList_zero (b : Bool) (toks : List (Token N)) : exprList 0 b toks = .outOfFuel := by
  rw [exprList.eq_def]
theorem exprList_nil (f : Nat) (b : Bool) : exprList (f+1) b ([] : List (Token N)) = .err .eof := by
  rw [exprList.eq_def]
theorem exprList_cons (f : Nat) (b : Bool) (t : Token N) (rest : List (Token N)) :
    exprList (f+1) b (t :: rest) =
      if isClose b t then .ok ([], rest)
      else andThen (parsePrec f 1 (t :: rest)) fun x =>
        andThen (exprList f b (dropComma x.2)) fun y => .ok (x.1 :: y.1, y.2) := by
  rw [exprList.eq_def]

/-! ### fuel monotonicity -/

theorem stable (f : Nat) :
    (∀ p (toks : List (Token N)), Fine (parsePrec f p toks) → parsePrec (f+1) p toks = parsePrec f p toks) ∧
    (∀ (t : Token N) rest, Fine (doPrefix f t rest) → doPrefix (f+1) t rest = doPrefix f t rest) ∧
    (∀ p (l : Expr N) toks, Fine (infixLoop f p l toks) → infixLoop (f+1) p l toks = infixLoop f p l toks) ∧
    (∀ (t : Token N) l rest, Fine (doInfix f t l rest) → doInfix (f+1) t l rest = doInfix f t l rest) ∧
    (∀ b (toks : List (Token N)), Fine (exprList f b toks) → exprList (f+1) b toks = exprList f b toks) := by
  induction f with
  | zero =>
    simp [parsePrec_zero, doPrefix_zero, infixLoop_zero, doInfix_zero, exprList_zero, Fine]
  | succ f ih =>
    obtain ⟨ih1, ih2, ih3, ih4, ih5⟩ := ih
    refine ⟨?_, ?_, ?_, ?_, ?_⟩
    · intro p toks h
      cases toks with
      | nil => rw [parsePrec_nil, parsePrec_nil]
      | cons t r =>
        rw [parsePrec_cons] at h
        rw [parsePrec_cons, parsePrec_cons]
        exact andThen_stable (ih2 t r) (fun a => ih3 p a.1 a.2) h
    · intro t rest h
      rw [doPrefix_succ] at h
      rw [doPrefix_succ, doPrefix_succ]
      cases t <;> first
        | rfl
        | exact andThen_stable (ih1 _ _) (fun _ _ => rfl) h
        | exact andThen_stable (ih5 _ _) (fun _ _ => rfl) h
    · intro p l toks h
      cases toks with
      | nil => rw [infixLoop_nil, infixLoop_nil]
      | cons t rest =>
        rw [infixLoop_cons] at h
        rw [infixLoop_cons, infixLoop_cons]
        split
        · rename_i hc
          rw [if_pos hc] at h
          exact andThen_stable (ih4 t l rest) (fun a => ih3 p a.1 a.2) h
        · rfl
    · intro t l rest h
      rw [doInfix_succ] at h
      rw [doInfix_succ, doInfix_succ]
      split
      · rename_i op hb
        simp only [hb] at h
        exact andThen_stable (ih1 _ _) (fun _ _ => rfl) h
      · rename_i hb
        simp only [hb] at h
        split
        · split
          · exact andThen_stable (ih5 _ _) (fun _ _ => rfl) h
          · rfl
        · rfl
    · intro b toks h
      cases toks with
      | nil => rw [exprList_nil, exprList_nil]
      | cons t rest =>
        rw [exprList_cons] at h
        rw [exprList_cons, exprList_cons]
        split
        · rfl
        · rename_i hc
          rw [if_neg hc] at h
          exact andThen_stable (ih1 _ _) (fun a => andThen_stable (ih5 _ _) (fun _ _ => rfl)) h

theorem parsePrec_stable {f f' p : Nat} {toks : List (Token N)} (h : Fine (parsePrec f p toks)) (hle : f ≤ f') :
    parsePrec f' p toks = parsePrec f p toks := by
  induction hle with
  | refl => rfl
  | step _ ih => rw [(stable _).1 p toks (by rw [ih]; exact h), ih]

theorem infixLoop_stable {f f' p : Nat} {l : Expr N} {toks : List (Token N)} (h : Fine (infixLoop f p l toks))
    (hle : f ≤ f') : infixLoop f' p l toks = infixLoop f p l toks := by
  induction hle with
  | refl => rfl
  | step _ ih => rw [(stable _).2.2.1 p l toks (by rw [ih]; exact h), ih]

theorem exprList_stable {f f' : Nat} {b : Bool} {toks : List (Token N)} (h : Fine (exprList f b toks))
    (hle : f ≤ f') : exprList f' b toks = exprList f b toks := by
  induction hle with
  | refl => rfl
  | step _ ih => rw [(stable _).2.2.2.2 b toks (by rw [ih]; exact h), ih]

theorem fine_of_eq_ok {α : Type} {x : COut N α} {a : α} (h : x = .ok a) : Fine x := by rw [h]; trivial

theorem parsePrec_mono {f f' p : Nat} {toks : List (Token N)} {r} (h : parsePrec f p toks = .ok r) (hle : f ≤ f') :
    parsePrec f' p toks = .ok r := by
  rw [parsePrec_stable (fine_of_eq_ok h) hle, h]

theorem infixLoop_mono {f f' p : Nat} {l : Expr N} {toks : List (Token N)} {r}
    (h : infixLoop f p l toks = .ok r) (hle : f ≤ f') : infixLoop f' p l toks = .ok r := by
  rw [infixLoop_stable (fine_of_eq_ok h) hle, h]

theorem exprList_mono {f f' : Nat} {b : Bool} {toks : List (Token N)} {r}
    (h : exprList f b toks = .ok r) (hle : f ≤ f') : exprList f' b toks = .ok r := by
  rw [exprList_stable (fine_of_eq_ok h) hle, h]

/-- two runs that both end in a value of the Rust function agree, whatever their fuels -/
theorem parsePrec_agree {f f' p : Nat} {toks : List (Token N)} (h : Fine (parsePrec f p toks))
    (h' : Fine (parsePrec f' p toks)) : parsePrec f' p toks = parsePrec f p toks := by
  rcases Nat.le_total f f' with hle | hle
  · exact parsePrec_stable h hle
  · exact (parsePrec_stable h' hle).symm

/-! ### successful calls consume tokens -/

theorem chompParen_ok {e : Expr N} {r : List (Token N)} {x} (h : chompParen e r = .ok x) :
    x.1 = e ∧ r = .rightParen :: x.2 := by
  unfold chompParen at h
  split at h
  · cases h; exact ⟨rfl, rfl⟩
  · cases h
  · cases h

theorem dropComma_length (r : List (Token N)) : (dropComma r).length ≤ r.length := by
  unfold dropComma
  split
  · simp
  · exact Nat.le_refl _

theorem shrink (f : Nat) :
    (∀ p (toks : List (Token N)) x, parsePrec f p toks = .ok x → x.2.length + 1 ≤ toks.length) ∧
    (∀ (t : Token N) rest x, doPrefix f t rest = .ok x → x.2.length ≤ rest.length) ∧
    (∀ p (l : Expr N) toks x, infixLoop f p l toks = .ok x → x.2.length ≤ toks.length) ∧
    (∀ (t : Token N) l rest x, doInfix f t l rest = .ok x → x.2.length + 1 ≤ rest.length) ∧
    (∀ b (toks : List (Token N)) x, exprList f b toks = .ok x → x.2.length + 1 ≤ toks.length) := by
  induction f with
  | zero =>
    simp [parsePrec_zero, doPrefix_zero, infixLoop_zero, doInfix_zero, exprList_zero]
  | succ f ih =>
    obtain ⟨ih1, ih2, ih3, ih4, ih5⟩ := ih
    refine ⟨?_, ?_, ?_, ?_, ?_⟩
    · intro p toks x h
      cases toks with
      | nil => rw [parsePrec_nil] at h; cases h
      | cons t r =>
        rw [parsePrec_cons, andThen_eq_ok] at h
        obtain ⟨a, ha, hk⟩ := h
        have := ih2 _ _ _ ha
        have := ih3 _ _ _ _ hk
        simp only [List.length_cons]; omega
    · intro t rest x h
      rw [doPrefix_succ] at h
      cases t <;> simp only [andThen_eq_ok] at h
      case literal v => cases h; exact Nat.le_refl _
      case identifier s => cases h; exact Nat.le_refl _
      case leftParen =>
        obtain ⟨a, ha, hk⟩ := h
        have := ih1 _ _ _ ha
        have := (chompParen_ok hk).2
        have : a.2.length = x.2.length + 1 := by rw [this]; rfl
        omega
      case leftBracket =>
        obtain ⟨a, ha, hk⟩ := h
        have := ih5 _ _ _ ha
        cases hk; simp only; omega
      case not =>
        obtain ⟨a, ha, hk⟩ := h
        have := ih1 _ _ _ ha
        cases hk; simp only; omega
      case minus =>
        obtain ⟨a, ha, hk⟩ := h
        have := ih1 _ _ _ ha
        cases hk; simp only; omega
      all_goals cases h
    · intro p l toks x h
      cases toks with
      | nil => rw [infixLoop_nil] at h; cases h; exact Nat.le_refl _
      | cons t rest =>
        rw [infixLoop_cons] at h
        split at h
        · rw [andThen_eq_ok] at h
          obtain ⟨a, ha, hk⟩ := h
          have := ih4 _ _ _ _ ha
          have := ih3 _ _ _ _ hk
          simp only [List.length_cons]; omega
        · cases h; exact Nat.le_refl _
    · intro t l rest x h
      rw [doInfix_succ] at h
      split at h
      · rw [andThen_eq_ok] at h
        obtain ⟨a, ha, hk⟩ := h
        have := ih1 _ _ _ ha
        cases hk; simp only; omega
      · split at h
        · split at h
          · rw [andThen_eq_ok] at h
            obtain ⟨a, ha, hk⟩ := h
            have := ih5 _ _ _ ha
            cases hk; simp only; omega
          · cases h
        · cases h
    · intro b toks x h
      cases toks with
      | nil => rw [exprList_nil] at h; cases h
      | cons t rest =>
        rw [exprList_cons] at h
        split at h
        · cases h; simp
        · rw [andThen_eq_ok] at h
          obtain ⟨a, ha, hk⟩ := h
          rw [andThen_eq_ok] at hk
          obtain ⟨c, hc, hk⟩ := hk
          have := ih1 _ _ _ ha
          have := ih5 _ _ _ hc
          have := dropComma_length a.2
          cases hk; simp only at *; omega

/-! ### linear fuel suffices -/

theorem fine_chompParen (e : Expr N) (r : List (Token N)) : Fine (chompParen e r) := by
  unfold chompParen; split <;> trivial

theorem enough (f : Nat) :
    (∀ p (toks : List (Token N)), 3 * toks.length + 1 ≤ f → Fine (parsePrec f p toks)) ∧
    (∀ (t : Token N) rest, 3 * rest.length + 3 ≤ f → Fine (doPrefix f t rest)) ∧
    (∀ p (l : Expr N) toks, 3 * toks.length + 1 ≤ f → Fine (infixLoop f p l toks)) ∧
    (∀ (t : Token N) l rest, 3 * rest.length + 3 ≤ f → Fine (doInfix f t l rest)) ∧
    (∀ b (toks : List (Token N)), 3 * toks.length + 2 ≤ f → Fine (exprList f b toks)) := by
  induction f with
  | zero =>
    refine ⟨?_, ?_, ?_, ?_, ?_⟩ <;> intros <;> omega
  | succ f ih =>
    obtain ⟨ih1, ih2, ih3, ih4, ih5⟩ := ih
    refine ⟨?_, ?_, ?_, ?_, ?_⟩
    · intro p toks hf
      cases toks with
      | nil => rw [parsePrec_nil]; trivial
      | cons t r =>
        simp only [List.length_cons] at hf
        rw [parsePrec_cons]
        refine fine_andThen (ih2 _ _ (by omega)) (fun a ha => ih3 _ _ _ ?_)
        have := (shrink f).2.1 _ _ _ ha
        omega
    · intro t rest hf
      rw [doPrefix_succ]
      cases t <;> first
        | trivial
        | exact fine_andThen (ih1 _ _ (by omega)) (fun a _ => fine_chompParen _ _)
        | exact fine_andThen (ih1 _ _ (by omega)) (fun a _ => trivial)
        | exact fine_andThen (ih5 _ _ (by omega)) (fun a _ => trivial)
    · intro p l toks hf
      cases toks with
      | nil => rw [infixLoop_nil]; trivial
      | cons t rest =>
        simp only [List.length_cons] at hf
        rw [infixLoop_cons]
        split
        · refine fine_andThen (ih4 _ _ _ (by omega)) (fun a ha => ih3 _ _ _ ?_)
          have := (shrink f).2.2.2.1 _ _ _ _ ha
          omega
        · trivial
    · intro t l rest hf
      rw [doInfix_succ]
      split
      · exact fine_andThen (ih1 _ _ (by omega)) (fun a _ => trivial)
      · split
        · split
          · exact fine_andThen (ih5 _ _ (by omega)) (fun a _ => trivial)
          · trivial
        · trivial
    · intro b toks hf
      cases toks with
      | nil => rw [exprList_nil]; trivial
      | cons t rest =>
        rw [exprList_cons]
        split
        · trivial
        · refine fine_andThen (ih1 _ _ (by omega)) (fun a ha => ?_)
          refine fine_andThen (ih5 _ _ ?_) (fun c _ => trivial)
          have := (shrink f).1 _ _ _ ha
          have := dropComma_length a.2
          omega

theorem parsePrec_fine {f p : Nat} {toks : List (Token N)} (h : 3 * toks.length + 1 ≤ f) :
    Fine (parsePrec f p toks) := (enough f).1 p toks h

/-- if some fuel gives `ok r`, the fixed fuel of `parse` gives the same -/
theorem parsePrec_at_parseFuel {f p : Nat} {toks : List (Token N)} {r} (h : parsePrec f p toks = .ok r) :
    parsePrec (parseFuel toks.length) p toks = .ok r := by
  rw [parsePrec_agree (fine_of_eq_ok h) (parsePrec_fine (by unfold parseFuel; omega)), h]

end Slac.Parser
