/-
  SlacProofs.OptMu — the termination measure of `optimize`: one `transform` pass never increases μ and
  strictly decreases it when it rewrites something; the same for one `fold` pass.
-/
import SlacModel.Optimizer
set_option autoImplicit false
set_option linter.unusedSectionVars false
set_option linter.unusedSimpArgs false
namespace Slac.Opt
variable {N : Type} [NumOps N]

theorem transformL_length (es : List (Expr N)) : (transformL es).length = es.length := by
  induction es with
  | nil => rfl
  | cons e es ih => simp [transformL, ih]

/-- weight of a call node depends only on name and argument count -/
def callW (n : Str) (k : Nat) : Nat := if n = ifThenName then (if k = 3 then 2 else 1) else 1

theorem mu_call (n : Str) (ps : List (Expr N)) : mu (.call n ps) = callW n ps.length + muL ps := by
  simp only [mu, callW]
  split
  · congr 1
    match ps with
    | [] => rfl
    | [_] => rfl
    | [_, _] => rfl
    | [_, _, _] => rfl
    | _ :: _ :: _ :: _ :: _ => simp
  · rfl

/-- one transform pass never increases μ, and strictly decreases it when it rewrites something -/
theorem mu_transform (e : Expr N) : mu (transform e) + min (if3 e) 1 ≤ mu e := by
  refine Expr.rec
    (motive_1 := fun e => mu (transform e) + min (if3 e) 1 ≤ mu e)
    (motive_2 := fun es => muL (transformL es) + min (if3L es) 1 ≤ muL es)
    ?_ ?_ ?_ ?_ ?_ ?_ ?_ ?_ ?_ e
  · intro r op ih; simp only [transform, mu, if3] at *; omega
  · intro l r op ihl ihr; simp only [transform, mu, if3] at *; omega
  · intro l m r op ihl ihm ihr; simp only [transform, mu, if3] at *; omega
  · intro es ih; simp only [transform, mu, if3] at *; omega
  · intro v; simp [transform, mu, if3]
  · intro n; simp [transform, mu, if3]
  · intro n ps ih
    by_cases hn : n = ifThenName
    · subst hn
      match ps, ih with
      | [a, b, c], _ =>
        simp only [transform, if3, if_true, mu, muL]
        omega
      | [], ih => simp only [transform, if3, if_true, mu, transformL] at *; omega
      | [_], ih => simp only [transform, if3, if_true, mu, transformL] at *; omega
      | [_, _], ih => simp only [transform, if3, if_true, mu, transformL] at *; omega
      | _ :: _ :: _ :: _ :: _, ih =>
        simp only [transform, if3, if_true, mu, transformL] at *; omega
    · simp only [transform, if3, if_neg hn, mu] at *; omega
  · simp [transformL, muL, if3L]
  · intro e es ihe ihes
    simp only [transformL, muL, if3L] at *
    omega

def FOK (env : Env N) (e : Expr N) : Prop :=
  mu (fold env e).tree ≤ mu e ∧
  ((fold env e).found = true → (fold env e).err = none → mu (fold env e).tree + 1 ≤ mu e)
def FLOK (env : Env N) (es : List (Expr N)) : Prop :=
  (foldL env es).1.length = es.length ∧
  muL (foldL env es).1 ≤ muL es ∧
  ((foldL env es).2.1 = true → (foldL env es).2.2 = none → muL (foldL env es).1 + 1 ≤ muL es)

theorem exec_ok (env : Env N) (e : Expr N) (h : 1 ≤ mu e) :
    mu (exec env e).tree ≤ mu e ∧
    ((exec env e).found = true → (exec env e).err = none → mu (exec env e).tree + 1 ≤ mu e) := by
  simp only [exec]
  split
  · simp only [mu]; omega
  · simp

theorem mu_fold (env : Env N) (e : Expr N) : FOK env e := by
  refine Expr.rec (motive_1 := fun e => FOK env e) (motive_2 := fun es => FLOK env es)
    ?_ ?_ ?_ ?_ ?_ ?_ ?_ ?_ ?_ e
  · intro r op ih
    simp only [FOK, fold] at *
    split
    · exact exec_ok env _ (by simp only [mu]; omega)
    · simp only [mu]
      refine ⟨by omega, fun hf he => ?_⟩
      have := ih.2 hf he; omega
  · intro l r op ihl ihr
    simp only [FOK, fold] at *
    split
    · exact exec_ok env _ (by simp only [mu]; omega)
    · split
      · simp only [mu]; simp_all
      · simp only [mu, Bool.or_eq_true]
        rename_i hnone
        refine ⟨by omega, ?_⟩
        intro hf he
        rcases hf with hf | hf
        · have := ihl.2 hf hnone; omega
        · have := ihr.2 hf he; omega
  · intro l m r op ihl ihm ihr
    simp only [FOK, fold] at *
    split
    · simp only [mu]
      split <;> omega
    · split
      · simp only [mu]; simp_all
      · rename_i hl
        split
        · simp only [mu]; simp_all; omega
        · rename_i hm
          simp only [mu, Bool.or_eq_true]
          refine ⟨by omega, ?_⟩
          intro hf he
          rcases hf with (hf | hf) | hf
          · have := ihl.2 hf hl; omega
          · have := ihm.2 hf hm; omega
          · have := ihr.2 hf he; omega
  · intro es ih
    simp only [FOK, FLOK, fold] at *
    split
    · exact exec_ok env _ (by simp only [mu]; omega)
    · simp only [mu]
      obtain ⟨_, h2, h3⟩ := ih
      refine ⟨by omega, ?_⟩
      intro hf he; have := h3 hf he; omega
  · intro v; simp [FOK, fold]
  · intro n; simp [FOK, fold]
  · intro n ps ih
    simp only [FOK, FLOK, fold] at *
    split
    · split
      · exact exec_ok env _ (by rw [mu_call]; simp only [callW]; split <;> (try split) <;> omega)
      · simp
    · obtain ⟨h1, h2, h3⟩ := ih
      simp only [mu_call, h1]
      refine ⟨by omega, ?_⟩
      intro hf he; have := h3 hf he; omega
  · simp [FLOK, foldL, muL]
  · intro e es ihe ihes
    simp only [FOK, FLOK, foldL] at *
    obtain ⟨g1, g2, g3⟩ := ihes
    split
    · simp only [muL, List.length_cons]; simp_all
    · rename_i hnone
      simp only [muL, List.length_cons, Bool.or_eq_true]
      refine ⟨by omega, by omega, ?_⟩
      intro hf he
      rcases hf with hf | hf
      · have := ihe.2 hf hnone; omega
      · have := g3 hf he; omega

theorem foldL_length (env : Env N) (es : List (Expr N)) : (foldL env es).1.length = es.length := by
  induction es with
  | nil => rfl
  | cons e es ih =>
    simp only [foldL]
    split
    · rfl
    · simp [ih]

/-- the repeat-until-stable loop never runs out of fuel μ e + 1 -/
theorem optimize_terminates (env : Env N) :
    ∀ fuel (e : Expr N), mu e < fuel → optimize env fuel e ≠ .outOfFuel := by
  intro fuel
  induction fuel with
  | zero => intro e h; omega
  | succ fuel ih =>
    intro e h
    simp only [optimize]
    split
    · simp
    · rename_i hnone
      split
      · rename_i hc
        apply ih
        have ht := mu_transform e
        have hf := mu_fold env (transform e)
        simp only [transformFound, Bool.or_eq_true, decide_eq_true_eq] at hc
        rcases hc with hc | hc
        · have : min (if3 e) 1 = 1 := by omega
          have := hf.1; omega
        · have := hf.2 hc hnone; omega
      · simp

end Slac.Opt
