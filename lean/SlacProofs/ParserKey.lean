/-
  SlacProofs.ParserKey — the Pratt-loop lemma: parsing any rendering of `e` (SlacModel.Render `Rn`) followed by `rest`
  behaves like the infix loop started with `e` on `rest`:

      Rn q' e ts → q ≤ q' → follow rest ≤ min q' 7 →
        infixLoop f q e rest = ok R → ∃ f', parsePrec f' q (ts ++ rest) = ok R

  One lemma per constructor of `Bare`/`Rn`/`RnList`, assembled with the generated recursor (three motives).
-/
import SlacModel.Render
import SlacProofs.ParserTotal
set_option autoImplicit false
namespace Slac.Parser
open Slac.Render
variable {N : Type}

/-- precedence of the token that follows (0 at end of input) -/
def follow : List (Token N) → Nat
  | [] => 0
  | t :: _ => Token.prec t

/-- the loop stops when the next token binds weaker than p -/
theorem infixLoop_stop (f p : Nat) (e : Expr N) (rest : List (Token N)) (h : follow rest < p) :
    infixLoop (f+1) p e rest = .ok (e, rest) := by
  cases rest with
  | nil => rw [infixLoop_nil]
  | cons t r => simp only [follow] at h; rw [infixLoop_cons, if_neg (by omega)]

theorem opLvl_binOp {t : Token N} {op : Op} (h : Token.binOp? t = some op) : opLvl op = Token.prec t := by
  cases t <;> simp [Token.binOp?] at h <;> subst h <;> rfl

theorem lvl_binOp {t : Token N} {op : Op} {l r : Expr N} (h : Token.binOp? t = some op) :
    lvl (Expr.binary l r op) = Token.prec t := opLvl_binOp h

theorem prec_binOp_le {t : Token N} {op : Op} (h : Token.binOp? t = some op) :
    1 ≤ Token.prec t ∧ Token.prec t ≤ 7 := by
  cases t <;> simp [Token.binOp?] at h <;> simp [Token.prec]

theorem nextPrec_binOp {t : Token N} {op : Op} (h : Token.binOp? t = some op) :
    nextPrec (Token.prec t) = Token.prec t + 1 := by
  have := (prec_binOp_le h).2
  unfold nextPrec; rw [if_neg (by omega)]

theorem isClose_closeTok (b : Bool) : isClose b (closeTok b : Token N) = true := by cases b <;> rfl

/-- first token of a rendering is never a closing token, and renderings are nonempty -/
def HeadOK (ts : List (Token N)) : Prop := ∃ t r, ts = t :: r ∧ ∀ b, isClose b t = false

theorem bare_head {e : Expr N} {ts : List (Token N)} (h : Bare e ts) : HeadOK ts := by
  refine Bare.rec (motive_1 := fun _ ts _ => HeadOK ts) (motive_2 := fun _ _ ts _ => HeadOK ts)
    (motive_3 := fun _ _ _ => True) ?_ ?_ ?_ ?_ ?_ ?_ ?_ ?_ ?_ ?_ ?_ ?_ h
  · intro v; exact ⟨_, _, rfl, by intro b; cases b <;> rfl⟩
  · intro n; exact ⟨_, _, rfl, by intro b; cases b <;> rfl⟩
  · intro r ts _ _; exact ⟨_, _, rfl, by intro b; cases b <;> rfl⟩
  · intro r ts _ _; exact ⟨_, _, rfl, by intro b; cases b <;> rfl⟩
  · intro l r op t tl tr _ _ _ ihl _
    obtain ⟨t', r', rfl, hc⟩ := ihl
    exact ⟨t', _, rfl, hc⟩
  · intro es ts _ _; exact ⟨_, _, rfl, by intro b; cases b <;> rfl⟩
  · intro n ps ts _ _; exact ⟨_, _, rfl, by intro b; cases b <;> rfl⟩
  · intro q e ts _ _ ih; exact ih
  · intro q e ts _ _; exact ⟨_, _, rfl, by intro b; cases b <;> rfl⟩
  · trivial
  · intros; trivial
  · intros; trivial

theorem rn_head {q : Nat} {e : Expr N} {ts : List (Token N)} (h : Rn q e ts) : HeadOK ts := by
  cases h with
  | bare _ hb => exact bare_head hb
  | paren _ => exact ⟨_, _, rfl, by intro b; cases b <;> rfl⟩

/-! ### motives -/

def M2 (q' : Nat) (e : Expr N) (ts : List (Token N)) : Prop :=
  ∀ q rest, q ≤ q' → q ≤ 8 → follow rest ≤ q' → follow rest ≤ 7 →
    ∀ f R, infixLoop f q e rest = .ok R → ∃ f', parsePrec f' q (ts ++ rest) = .ok R
def M1 (e : Expr N) (ts : List (Token N)) : Prop :=
  ∀ q rest, q ≤ lvl e → q ≤ 8 → follow rest ≤ lvl e → follow rest ≤ 7 →
    ∀ f R, infixLoop f q e rest = .ok R → ∃ f', parsePrec f' q (ts ++ rest) = .ok R
def M3 (es : List (Expr N)) (ts : List (Token N)) : Prop :=
  ∀ b rest, ∃ f', exprList f' b (ts ++ closeTok b :: rest) = .ok (es, rest)

/-! ### expressions -/

/-- after an atom-like prefix, parsePrec continues with the loop -/
theorem after_prefix {f q : Nat} {t : Token N} {r rest : List (Token N)} {e : Expr N} {R}
    (hp : ∀ f0, doPrefix (f0+1) t r = .ok (e, rest))
    (hL : infixLoop f q e rest = .ok R) : ∃ f', parsePrec f' q (t :: r) = .ok R := by
  refine ⟨f + 1 + 1, ?_⟩
  rw [parsePrec_cons, hp]
  exact infixLoop_mono hL (by omega)

theorem c_lit (v : Value N) : M1 (.lit v) [.literal v] := by
  intro q rest _ _ _ _ f R hL
  exact after_prefix (fun f0 => by rw [doPrefix_succ]; rfl) hL

theorem c_var (n : Str) : M1 (N := N) (.var n) [.identifier n] := by
  intro q rest _ _ _ _ f R hL
  exact after_prefix (fun f0 => by rw [doPrefix_succ]; rfl) hL

theorem c_unot {r : Expr N} {ts : List (Token N)} (ih : M2 8 r ts) : M1 (.unary r .not) (.not :: ts) := by
  intro q rest _ _ _ h7 f R hL
  obtain ⟨f1, h1⟩ := ih 8 rest (Nat.le_refl _) (Nat.le_refl _) (by omega) h7 1 (r, rest)
    (infixLoop_stop 0 8 r rest (by omega))
  refine ⟨max f1 f + 2, ?_⟩
  show parsePrec (max f1 f + 1 + 1) q (Token.not :: (ts ++ rest)) = _
  rw [parsePrec_cons, doPrefix_succ]
  simp only
  rw [parsePrec_mono h1 (Nat.le_max_left _ _)]
  exact infixLoop_mono hL (by omega)

theorem c_uminus {r : Expr N} {ts : List (Token N)} (ih : M2 8 r ts) : M1 (.unary r .minus) (.minus :: ts) := by
  intro q rest _ _ _ h7 f R hL
  obtain ⟨f1, h1⟩ := ih 8 rest (Nat.le_refl _) (Nat.le_refl _) (by omega) h7 1 (r, rest)
    (infixLoop_stop 0 8 r rest (by omega))
  refine ⟨max f1 f + 2, ?_⟩
  show parsePrec (max f1 f + 1 + 1) q (Token.minus :: (ts ++ rest)) = _
  rw [parsePrec_cons, doPrefix_succ]
  simp only
  rw [parsePrec_mono h1 (Nat.le_max_left _ _)]
  exact infixLoop_mono hL (by omega)

theorem c_binary {l r : Expr N} {op : Op} {t : Token N} {tl tr : List (Token N)} (hb : Token.binOp? t = some op)
    (ihl : M2 (Token.prec t) l tl) (ihr : M2 (Token.prec t + 1) r tr) :
    M1 (.binary l r op) (tl ++ t :: tr) := by
  intro q rest hq hq8 hfo h7 f R hL
  have hlv := lvl_binOp (l := l) (r := r) hb
  have ⟨hp1, hp7⟩ := prec_binOp_le hb
  rw [hlv] at hq hfo
  obtain ⟨f1, h1⟩ := ihr (Token.prec t + 1) rest (Nat.le_refl _) (by omega) (by omega) h7 1 (r, rest)
    (infixLoop_stop 0 _ r rest (by omega))
  have step2 : infixLoop (max f1 f + 2) q l (t :: (tr ++ rest)) = .ok R := by
    show infixLoop (max f1 f + 1 + 1) q l (t :: (tr ++ rest)) = _
    rw [infixLoop_cons, if_pos hq, doInfix_succ]
    simp only [hb]
    rw [nextPrec_binOp hb, parsePrec_mono h1 (Nat.le_max_left _ _)]
    exact infixLoop_mono hL (by omega)
  obtain ⟨f', h'⟩ := ihl q (t :: (tr ++ rest)) hq hq8 (by simp [follow]) hp7 _ R step2
  refine ⟨f', ?_⟩
  have : (tl ++ t :: tr) ++ rest = tl ++ (t :: (tr ++ rest)) := by simp
  rw [this]; exact h'

theorem c_array {es : List (Expr N)} {ts : List (Token N)} (ih : M3 es ts) :
    M1 (.array es) (.leftBracket :: (ts ++ [.rightBracket])) := by
  intro q rest _ _ _ _ f R hL
  obtain ⟨f1, h1⟩ := ih false rest
  refine ⟨max f1 f + 2, ?_⟩
  show parsePrec (max f1 f + 1 + 1) q (Token.leftBracket :: ((ts ++ [Token.rightBracket]) ++ rest)) = _
  rw [parsePrec_cons, doPrefix_succ]
  simp only
  have : (ts ++ [Token.rightBracket]) ++ rest = ts ++ closeTok false :: rest := by simp [closeTok]
  rw [this, exprList_mono h1 (Nat.le_max_left _ _)]
  exact infixLoop_mono hL (by omega)

theorem c_call {n : Str} {ps : List (Expr N)} {ts : List (Token N)} (ih : M3 ps ts) :
    M1 (.call n ps) (.identifier n :: .leftParen :: (ts ++ [.rightParen])) := by
  intro q rest _ hq8 _ _ f R hL
  obtain ⟨f1, h1⟩ := ih true rest
  refine ⟨max f1 f + 3, ?_⟩
  show parsePrec (max f1 f + 2 + 1) q
    (Token.identifier n :: Token.leftParen :: ((ts ++ [Token.rightParen]) ++ rest)) = _
  rw [parsePrec_cons]
  have hp : doPrefix (max f1 f + 2) (Token.identifier n : Token N)
      (Token.leftParen :: ((ts ++ [Token.rightParen]) ++ rest))
      = .ok (.var n, Token.leftParen :: ((ts ++ [Token.rightParen]) ++ rest)) := by
    show doPrefix (max f1 f + 1 + 1) _ _ = _
    rw [doPrefix_succ]
  rw [hp]
  simp only [andThen_ok]
  show infixLoop (max f1 f + 1 + 1) q (Expr.var n) _ = _
  rw [infixLoop_cons, if_pos (by simp [Token.prec]; omega), doInfix_succ]
  simp only [Token.binOp?]
  have : (ts ++ [Token.rightParen]) ++ rest = ts ++ closeTok true :: rest := by simp [closeTok]
  rw [this, exprList_mono h1 (Nat.le_max_left _ _)]
  exact infixLoop_mono hL (by omega)

theorem c_bare {q' : Nat} {e : Expr N} {ts : List (Token N)} (hq' : q' ≤ lvl e) (ih : M1 e ts) : M2 q' e ts := by
  intro q rest hq hq8 hfo h7 f R hL
  exact ih q rest (by omega) hq8 (by omega) h7 f R hL

theorem c_paren {q' : Nat} {e : Expr N} {ts : List (Token N)} (ih : M2 1 e ts) :
    M2 q' e (.leftParen :: (ts ++ [.rightParen])) := by
  intro q rest _ _ _ _ f R hL
  obtain ⟨f1, h1⟩ := ih 1 (Token.rightParen :: rest) (Nat.le_refl _) (by omega) (by simp [follow, Token.prec])
    (by simp [follow, Token.prec]) 1 (e, Token.rightParen :: rest)
    (infixLoop_stop 0 1 e _ (by simp [follow, Token.prec]))
  refine ⟨max f1 f + 2, ?_⟩
  show parsePrec (max f1 f + 1 + 1) q (Token.leftParen :: ((ts ++ [Token.rightParen]) ++ rest)) = _
  have e1 : (ts ++ [Token.rightParen]) ++ rest = ts ++ Token.rightParen :: rest := by simp
  rw [e1, parsePrec_cons, doPrefix_succ]
  simp only
  rw [parsePrec_mono h1 (Nat.le_max_left _ _)]
  simp only [andThen_ok, chompParen]
  exact infixLoop_mono hL (by omega)

/-! ### lists -/

theorem exprList_cons_step (f : Nat) (b : Bool) (t : Token N) (r : List (Token N)) (hc : isClose b t = false) :
    exprList (f+1) b (t :: r) =
      andThen (parsePrec f 1 (t :: r)) fun x =>
        andThen (exprList f b (dropComma x.2)) fun y => .ok (x.1 :: y.1, y.2) := by
  rw [exprList_cons, hc]; rfl

theorem exprList_close (f : Nat) (b : Bool) (rest : List (Token N)) :
    exprList (f+1) b (closeTok b :: rest) = .ok ([], rest) := by
  rw [exprList_cons, isClose_closeTok]; rfl

theorem dropComma_closeTok (b : Bool) (rest : List (Token N)) :
    dropComma (closeTok b :: rest) = closeTok b :: rest := by
  cases b <;> rfl

theorem c_nil : M3 (N := N) [] [] := by
  intro b rest
  exact ⟨1, exprList_close 0 b rest⟩

theorem c_single {e : Expr N} {ts : List (Token N)} (hr : Rn 1 e ts) (ih : M2 1 e ts) : M3 [e] ts := by
  intro b rest
  obtain ⟨t0, r0, rfl, hc⟩ := rn_head hr
  obtain ⟨f1, h1⟩ := ih 1 (closeTok b :: rest) (Nat.le_refl _) (by omega)
    (by cases b <;> simp [follow, Token.prec, closeTok])
    (by cases b <;> simp [follow, Token.prec, closeTok]) 1 (e, closeTok b :: rest)
    (infixLoop_stop 0 1 e _ (by cases b <;> simp [follow, Token.prec, closeTok]))
  refine ⟨f1 + 1 + 1, ?_⟩
  show exprList (f1 + 1 + 1) b (t0 :: (r0 ++ closeTok b :: rest)) = _
  rw [exprList_cons_step _ _ _ _ (hc b)]
  have := parsePrec_mono h1 (Nat.le_succ f1)
  rw [show t0 :: (r0 ++ closeTok b :: rest) = (t0 :: r0) ++ closeTok b :: rest from rfl, this]
  simp only [andThen_ok]
  rw [dropComma_closeTok, exprList_close]
  rfl

theorem c_cons {e e' : Expr N} {es : List (Expr N)} {ts ts' : List (Token N)} (hr : Rn 1 e ts) (ih1 : M2 1 e ts)
    (ih2 : M3 (e' :: es) ts') : M3 (e :: e' :: es) (ts ++ .comma :: ts') := by
  intro b rest
  obtain ⟨t0, r0, rfl, hc⟩ := rn_head hr
  obtain ⟨f1, h1⟩ := ih1 1 (Token.comma :: (ts' ++ closeTok b :: rest)) (Nat.le_refl _) (by omega)
    (by simp [follow, Token.prec]) (by simp [follow, Token.prec]) 1 (e, Token.comma :: (ts' ++ closeTok b :: rest))
    (infixLoop_stop 0 1 e _ (by simp [follow, Token.prec]))
  obtain ⟨f2, h2⟩ := ih2 b rest
  refine ⟨max f1 f2 + 1, ?_⟩
  have e1 : ((t0 :: r0) ++ Token.comma :: ts') ++ closeTok b :: rest
      = t0 :: (r0 ++ Token.comma :: (ts' ++ closeTok b :: rest)) := by simp
  rw [e1, exprList_cons_step _ _ _ _ (hc b)]
  have := parsePrec_mono h1 (Nat.le_max_left f1 f2)
  rw [show t0 :: (r0 ++ Token.comma :: (ts' ++ closeTok b :: rest))
      = (t0 :: r0) ++ Token.comma :: (ts' ++ closeTok b :: rest) from rfl, this]
  simp only [andThen_ok, dropComma]
  rw [exprList_mono h2 (Nat.le_max_right f1 f2)]
  rfl

/-- Key lemma, all three judgements at once. -/
theorem key_rn {q' : Nat} {e : Expr N} {ts : List (Token N)} (h : Rn q' e ts) : M2 q' e ts := by
  refine Rn.rec (motive_1 := fun e ts _ => M1 e ts) (motive_2 := fun q e ts _ => M2 q e ts)
    (motive_3 := fun es ts _ => M3 es ts) ?_ ?_ ?_ ?_ ?_ ?_ ?_ ?_ ?_ ?_ ?_ ?_ h
  · exact c_lit
  · exact c_var
  · intro r ts _ ih; exact c_unot ih
  · intro r ts _ ih; exact c_uminus ih
  · intro l r op t tl tr hb _ _ ihl ihr; exact c_binary hb ihl ihr
  · intro es ts _ ih; exact c_array ih
  · intro n ps ts _ ih; exact c_call ih
  · intro q e ts hq _ ih; exact c_bare hq ih
  · intro q e ts _ ih; exact c_paren ih
  · exact c_nil
  · intro e ts hr ih; exact c_single hr ih
  · intro e e' es ts ts' hr _ ih1 ih2; exact c_cons hr ih1 ih2

/-- Any rendering of `e` (minimal, full, or anything between) parses back to `e`. -/
theorem parsePrec_of_renders {e : Expr N} {ts : List (Token N)} (h : Rn 1 e ts) :
    ∃ f, parsePrec f 1 ts = .ok (e, []) := by
  have := key_rn h 1 [] (Nat.le_refl _) (by omega) (by simp [follow]) (by simp [follow]) 1 (e, [])
    (infixLoop_stop 0 1 e [] (by simp [follow]))
  simpa using this

end Slac.Parser
