/-
  SlacProofs.ParserNest — the recursion depth of the parser depends on the number of *opening* tokens
  (`(`, `[`, `not`, `-`), not on the length of the input:

      dPrec f 1 toks ≤ 9 * (1 + openers toks)

  (`dPrec` = number of simultaneously active `parse_precedence` frames, SlacProofs.ParserDepth.)
  Reason: a nested activation either follows an opening token, or is the right operand of a binary operator and then
  runs at a strictly higher precedence than its parent — at most 7 such steps (Or … Unary) before an opener is needed.
  So a flat input of any length (`a + b * c - d …`) is parsed in constant stack.
-/
import SlacProofs.ParserDepth
set_option autoImplicit false
namespace Slac.Parser
variable {N : Type}

/-! ### results are suffixes of the input -/

def Sfx (a b : List (Token N)) : Prop := ∃ pre, b = pre ++ a

theorem Sfx.refl (a : List (Token N)) : Sfx a a := ⟨[], rfl⟩
theorem Sfx.trans {a b c : List (Token N)} (h1 : Sfx a b) (h2 : Sfx b c) : Sfx a c := by
  obtain ⟨p1, rfl⟩ := h1; obtain ⟨p2, rfl⟩ := h2
  exact ⟨p2 ++ p1, by simp⟩
theorem Sfx.cons {a b : List (Token N)} (t : Token N) (h : Sfx a b) : Sfx a (t :: b) := by
  obtain ⟨p, rfl⟩ := h; exact ⟨t :: p, rfl⟩

theorem dropComma_sfx (r : List (Token N)) : Sfx (dropComma r) r := by
  unfold dropComma
  split
  · exact Sfx.cons _ (Sfx.refl _)
  · exact Sfx.refl _

theorem suffix (f : Nat) :
    (∀ p (toks : List (Token N)) x, parsePrec f p toks = .ok x → Sfx x.2 toks) ∧
    (∀ (t : Token N) rest x, doPrefix f t rest = .ok x → Sfx x.2 rest) ∧
    (∀ p (l : Expr N) toks x, infixLoop f p l toks = .ok x → Sfx x.2 toks) ∧
    (∀ (t : Token N) l rest x, doInfix f t l rest = .ok x → Sfx x.2 rest) ∧
    (∀ b (toks : List (Token N)) x, exprList f b toks = .ok x → Sfx x.2 toks) := by
  induction f with
  | zero =>
    simp [parsePrec_zero, doPrefix_zero, infixLoop_zero, doInfix_zero, exprList_zero]
  | succ f ih =>
    obtain ⟨ih1, ih2, ih3, ih4, ih5⟩ := ih
    refine ⟨?_, ?_, ?_, ?_, ?_⟩
    · intro p toks x h
      cases toks with
      | nil => rw [parsePrec_nil] at h; cases h
      | cons t r =>
        rw [parsePrec_cons, andThen_eq_ok] at h
        obtain ⟨a, ha, hk⟩ := h
        exact Sfx.cons _ ((ih3 _ _ _ _ hk).trans (ih2 _ _ _ ha))
    · intro t rest x h
      rw [doPrefix_succ] at h
      cases t <;> simp only [andThen_eq_ok] at h
      case literal v => cases h; exact Sfx.refl _
      case identifier s => cases h; exact Sfx.refl _
      case leftParen =>
        obtain ⟨a, ha, hk⟩ := h
        have h1 := ih1 _ _ _ ha
        rw [(chompParen_ok hk).2] at h1
        exact (Sfx.cons _ (Sfx.refl _)).trans h1
      case leftBracket =>
        obtain ⟨a, ha, hk⟩ := h
        cases hk; exact ih5 _ _ a ha
      case not =>
        obtain ⟨a, ha, hk⟩ := h
        cases hk; exact ih1 _ _ a ha
      case minus =>
        obtain ⟨a, ha, hk⟩ := h
        cases hk; exact ih1 _ _ a ha
      all_goals cases h
    · intro p l toks x h
      cases toks with
      | nil => rw [infixLoop_nil] at h; cases h; exact Sfx.refl _
      | cons t rest =>
        rw [infixLoop_cons] at h
        split at h
        · rw [andThen_eq_ok] at h
          obtain ⟨a, ha, hk⟩ := h
          exact Sfx.cons _ ((ih3 _ _ _ _ hk).trans (ih4 _ _ _ _ ha))
        · cases h; exact Sfx.refl _
    · intro t l rest x h
      rw [doInfix_succ] at h
      split at h
      · rw [andThen_eq_ok] at h
        obtain ⟨a, ha, hk⟩ := h
        cases hk; exact ih1 _ _ a ha
      · split at h
        · split at h
          · rw [andThen_eq_ok] at h
            obtain ⟨a, ha, hk⟩ := h
            cases hk; exact ih5 _ _ a ha
          · cases h
        · cases h
    · intro b toks x h
      cases toks with
      | nil => rw [exprList_nil] at h; cases h
      | cons t rest =>
        rw [exprList_cons] at h
        split at h
        · cases h; exact Sfx.cons _ (Sfx.refl _)
        · rw [andThen_eq_ok] at h
          obtain ⟨a, ha, hk⟩ := h
          rw [andThen_eq_ok] at hk
          obtain ⟨c, hc, hk⟩ := hk
          cases hk
          exact ((ih5 _ _ _ hc).trans (dropComma_sfx _)).trans (ih1 _ _ _ ha)

/-! ### opening tokens -/

/-- tokens after which `do_prefix` recurses, plus `(` as the call operator -/
def isOpener : Token N → Bool
  | .leftParen | .leftBracket | .not | .minus => true
  | _ => false

def openers : List (Token N) → Nat
  | [] => 0
  | t :: r => (if isOpener t then 1 else 0) + openers r

theorem openers_cons (t : Token N) (r : List (Token N)) :
    openers (t :: r) = (if isOpener t then 1 else 0) + openers r := rfl

theorem openers_sfx {a b : List (Token N)} (h : Sfx a b) : openers a ≤ openers b := by
  obtain ⟨pre, rfl⟩ := h
  induction pre with
  | nil => exact Nat.le_refl _
  | cons t p ih => rw [List.cons_append, openers_cons]; omega

theorem openers_le_length (ts : List (Token N)) : openers ts ≤ ts.length := by
  induction ts with
  | nil => exact Nat.le_refl _
  | cons t r ih => rw [openers_cons, List.length_cons]; split <;> omega

/-! ### the bound -/

theorem nest_le (f : Nat) :
    (∀ p (toks : List (Token N)), dPrec f p toks ≤ (9 - p) + 1 + 9 * openers toks) ∧
    (∀ (t : Token N) rest, dPrefix f t rest ≤ 9 * openers (t :: rest)) ∧
    (∀ p (l : Expr N) toks, dLoop f p l toks ≤ (9 - p) + 9 * openers toks) ∧
    (∀ (t : Token N) l rest, dInfix f t l rest ≤ (9 - Token.prec t) + 9 * openers (t :: rest)) ∧
    (∀ b (toks : List (Token N)), dList f b toks ≤ 9 + 9 * openers toks) := by
  induction f with
  | zero =>
    refine ⟨?_, ?_, ?_, ?_, ?_⟩ <;> intros
    · rw [dPrec.eq_def]; exact Nat.zero_le _
    · rw [dPrefix.eq_def]; exact Nat.zero_le _
    · rw [dLoop.eq_def]; exact Nat.zero_le _
    · rw [dInfix.eq_def]; exact Nat.zero_le _
    · rw [dList.eq_def]; exact Nat.zero_le _
  | succ f ih =>
    obtain ⟨ih1, ih2, ih3, ih4, ih5⟩ := ih
    refine ⟨?_, ?_, ?_, ?_, ?_⟩
    · intro p toks
      cases toks with
      | nil => rw [dPrec.eq_def]; simp only; omega
      | cons t r =>
        rw [dPrec.eq_def]
        simp only
        have h1 := ih2 t r
        have h2 : onOk (doPrefix f t r) (fun x => dLoop f p x.1 x.2) ≤ (9 - p) + 9 * openers (t :: r) := by
          refine onOk_le (fun a ha => ?_)
          have := openers_sfx (Sfx.cons t ((suffix f).2.1 _ _ _ ha))
          have := ih3 p a.1 a.2
          omega
        omega
    · intro t rest
      rw [dPrefix.eq_def, openers_cons]
      cases t <;> simp only [isOpener] <;> first
        | exact Nat.zero_le _
        | (have := ih1 1 rest; simp only [if_true]; omega)
        | (have := ih1 8 rest; simp only [if_true]; omega)
        | (have := ih5 false rest; simp only [if_true]; omega)
    · intro p l toks
      cases toks with
      | nil => rw [dLoop.eq_def]; exact Nat.zero_le _
      | cons t rest =>
        rw [dLoop.eq_def]
        simp only
        split
        · rename_i hp
          have h1 := ih4 t l rest
          have h2 : onOk (doInfix f t l rest) (fun x => dLoop f p x.1 x.2) ≤ (9 - p) + 9 * openers (t :: rest) := by
            refine onOk_le (fun a ha => ?_)
            have := openers_sfx (Sfx.cons t ((suffix f).2.2.2.1 _ _ _ _ ha))
            have := ih3 p a.1 a.2
            omega
          omega
        · exact Nat.zero_le _
    · intro t l rest
      rw [dInfix.eq_def, openers_cons]
      simp only
      split
      · rename_i op hb
        have hb' : Token.binOp? t = some op := hb
        have := ih1 (nextPrec (Token.prec t)) rest
        have hle : Token.prec t ≤ 7 := by
          cases t <;> simp [Token.binOp?] at hb' <;> simp [Token.prec]
        have : nextPrec (Token.prec t) = Token.prec t + 1 := by unfold nextPrec; rw [if_neg (by omega)]
        omega
      · split
        · split
          · have := ih5 true rest
            simp only [isOpener, if_true, Token.prec]
            omega
          · exact Nat.zero_le _
        · exact Nat.zero_le _
    · intro b toks
      cases toks with
      | nil => rw [dList.eq_def]; exact Nat.zero_le _
      | cons t rest =>
        rw [dList.eq_def]
        simp only
        split
        · exact Nat.zero_le _
        · have h1 := ih1 1 (t :: rest)
          have h2 : onOk (parsePrec f 1 (t :: rest)) (fun x => dList f b (dropComma x.2))
              ≤ 9 + 9 * openers (t :: rest) := by
            refine onOk_le (fun a ha => ?_)
            have := openers_sfx ((dropComma_sfx a.2).trans ((suffix f).1 _ _ _ ha))
            have := ih5 b (dropComma a.2)
            omega
          omega

theorem dPrec_nest_le (f : Nat) (toks : List (Token N)) : dPrec f 1 toks ≤ 9 * (1 + openers toks) := by
  have := (nest_le f).1 1 toks
  omega

end Slac.Parser
