/-
  SlacProofs.OptExample — a concrete number instance, environment and trees used by the non-vacuity
  examples beside the C05 / C06 theorems.
-/
import SlacModel.Optimizer
set_option autoImplicit false
namespace Slac.Opt.Ex

/-- integers as a toy number implementation (theorems hold for every instance) -/
@[reducible] def intOps : NumOps Int where
  add := (· + ·)
  sub := (· - ·)
  mul := (· * ·)
  div := (· / ·)
  rem := (· % ·)
  trunc := id
  neg := (- ·)
  pcmp := fun a b => some (compare a b)
  beq := (· == ·)
  zero := 0
  ofBool := fun b => if b then 1 else 0
  parse := fun _ => none

attribute [local instance] intOps

def maxName : Str := ['m', 'a', 'x']
def rndName : Str := ['r', 'n', 'd']
def x : Str := ['x']
def y : Str := ['y']

/-- `if_then` (standard, pure, 2–3 arguments), `max` (pure, 2 arguments), `rnd` (impure, no argument) -/
def call (f : Str) (vs : List (Value Int)) : Except NativeError (Value Int) :=
  if f = ifThenName then
    match vs with
    | [c, a, b] => ifThen3 c a b
    | [.bool c, a] => .ok (if c then a else Value.empty a)
    | [_, _] => .error .wrongParameterType
    | _ => .error (.wrongParameterCount 2)
  else if f = maxName then
    match vs with
    | [.num a, .num b] => .ok (.num (if a < b then b else a))
    | _ => .error .wrongParameterType
  else if f = rndName then .ok (.num 4)
  else .error (.functionNotFound f)

def fnExists (f : Str) (k : Nat) : FnRes :=
  if f = ifThenName then (if k < 2 || k > 3 then .wrongArity 2 3 else .exist true)
  else if f = maxName then (if k = 2 then .exist true else .wrongArity 2 2)
  else if f = rndName then (if k = 0 then .exist false else .wrongArity 0 0)
  else .notFound

/-- `x = 5`, `y` unbound -/
def env : Env Int where
  var := fun n => if n = x then some (.num 5) else none
  call := call
  varExists := fun n => n = x
  fnExists := fnExists

/-- same functions, but `x` unbound and `y = 7` -/
def env' : Env Int := { env with var := fun n => if n = y then some (.num 7) else none, varExists := fun n => n = y }

/-- `x + if_then(max(1, 2) > 1, rnd(), 0 - 1)`: resolved, with a three-argument `if_then`, a pure and an
    impure call -/
def t1 : Expr Int :=
  .binary (.var x)
    (.call ifThenName
      [.binary (.call maxName [.lit (.num 1), .lit (.num 2)]) (.lit (.num 1)) .greater,
       .call rndName [],
       .binary (.lit (.num 0)) (.lit (.num 1)) .minus]) .plus

/-- `[1 + 2, y, -true]`: the first element folds, the pass then fails on `-true` -/
def t2 : Expr Int :=
  .array [.binary (.lit (.num 1)) (.lit (.num 2)) .plus, .var y, .unary (.lit (.bool true)) .minus]

/-- `(y = 0) or (1 < max(2, 3) ? [] : rnd())`: no three-argument `if_then`, an unbound variable -/
def t3 : Expr Int :=
  .binary (.binary (.var y) (.lit (.num 0)) .equal)
    (.ternary (.binary (.lit (.num 1)) (.call maxName [.lit (.num 2), .lit (.num 3)]) .less)
      (.array []) (.call rndName []) .ternaryCondition) .or

end Slac.Opt.Ex
