/-
  SlacProofs.OptStable — what a round of `optimize` that finds nothing tells about the tree, node counts,
  and invariants (`if3 = 0`, `VarsBound`) kept by the two passes.
-/
import SlacProofs.OptMu
set_option autoImplicit false
set_option linter.unusedSectionVars false
set_option linter.unusedSimpArgs false
namespace Slac.Opt
variable {N : Type} [NumOps N]

theorem exec_found (env : Env N) (e : Expr N) : (exec env e).found = true := by
  simp only [exec]; split <;> rfl

theorem exec_tree (env : Env N) (e : Expr N) : (exec env e).tree = e ∨ ∃ v, (exec env e).tree = .lit v := by
  simp only [exec]; split
  · exact .inr ⟨_, rfl⟩
  · exact .inl rfl

/-- three-argument-`if_then` weight of a call node depends only on name and argument count -/
def callI (n : Str) (k : Nat) : Nat := if n = ifThenName then (if k = 3 then 1 else 0) else 0

theorem if3_call (n : Str) (ps : List (Expr N)) : if3 (.call n ps) = callI n ps.length + if3L ps := by
  simp only [if3, callI]
  split
  · match ps with
    | [] => simp
    | [_] => simp
    | [_, _] => simp
    | [_, _, _] => simp
    | _ :: _ :: _ :: _ :: _ => simp
  · simp

theorem transform_call_ne (n : Str) (ps : List (Expr N)) (h : callI n ps.length = 0) :
    transform (.call n ps) = .call n (transformL ps) := by
  simp only [transform]
  split
  · rename_i hn
    match ps, h with
    | [], _ => rfl
    | [_], _ => rfl
    | [_, _], _ => rfl
    | [_, _, _], h => simp [callI, hn] at h
    | _ :: _ :: _ :: _ :: _, _ => rfl
  · rfl

/-- `transform` sets its flag iff it changes the tree: no three-argument `if_then` call, nothing to do -/
theorem transform_eq_self (e : Expr N) : if3 e = 0 → transform e = e := by
  refine Expr.rec
    (motive_1 := fun e => if3 e = 0 → transform e = e)
    (motive_2 := fun es => if3L es = 0 → transformL es = es)
    ?_ ?_ ?_ ?_ ?_ ?_ ?_ ?_ ?_ e
  · intro r op ih h; simp only [if3] at h; simp only [transform, ih h]
  · intro l r op ihl ihr h; simp only [if3] at h
    simp only [transform, ihl (by omega), ihr (by omega)]
  · intro l m r op ihl ihm ihr h; simp only [if3] at h
    simp only [transform, ihl (by omega), ihm (by omega), ihr (by omega)]
  · intro es ih h; simp only [if3] at h; simp only [transform, ih h]
  · intro v _; rfl
  · intro n _; rfl
  · intro n ps ih h
    rw [if3_call] at h
    rw [transform_call_ne n ps (by omega), ih (by omega)]
  · intro _; rfl
  · intro e es ihe ihes h; simp only [if3L] at h
    simp only [transformL, ihe (by omega), ihes (by omega)]

theorem transform_ne_self (e : Expr N) : transform e = e → if3 e = 0 := by
  refine Expr.rec
    (motive_1 := fun e => transform e = e → if3 e = 0)
    (motive_2 := fun es => transformL es = es → if3L es = 0)
    ?_ ?_ ?_ ?_ ?_ ?_ ?_ ?_ ?_ e
  · intro r op ih h; simp only [transform, Expr.unary.injEq, and_true] at h; simp only [if3, ih h]
  · intro l r op ihl ihr h; simp only [transform, Expr.binary.injEq, and_true] at h
    simp only [if3, ihl h.1, ihr h.2]
  · intro l m r op ihl ihm ihr h; simp only [transform, Expr.ternary.injEq, and_true] at h
    simp only [if3, ihl h.1, ihm h.2.1, ihr h.2.2]
  · intro es ih h; simp only [transform, Expr.array.injEq] at h; simp only [if3, ih h]
  · intro v _; rfl
  · intro n _; rfl
  · intro n ps ih h
    rw [if3_call]
    by_cases hc : callI n ps.length = 0
    · rw [transform_call_ne n ps hc] at h
      simp only [Expr.call.injEq, true_and] at h
      rw [ih h, hc]
    · exfalso
      simp only [callI] at hc
      split at hc
      · rename_i hn
        match ps, hc with
        | [], hc => simp at hc
        | [_], hc => simp at hc
        | [_, _], hc => simp at hc
        | [_, _, _], _ => simp [transform, hn] at h
        | _ :: _ :: _ :: _ :: _, hc => simp at hc
      · exact hc rfl
  · intro _; rfl
  · intro e es ihe ihes h
    simp only [transformL, List.cons.injEq] at h
    simp only [if3L, ihe h.1, ihes h.2]

theorem transform_eq_self_iff (e : Expr N) : transform e = e ↔ transformFound e = false := by
  simp only [transformFound, decide_eq_false_iff_not, Nat.not_lt, Nat.le_zero]
  exact ⟨transform_ne_self e, transform_eq_self e⟩

/-! ### node counts -/

theorem nodes_transform (e : Expr N) : nodes (transform e) = nodes e := by
  refine Expr.rec
    (motive_1 := fun e => nodes (transform e) = nodes e)
    (motive_2 := fun es => nodesL (transformL es) = nodesL es)
    ?_ ?_ ?_ ?_ ?_ ?_ ?_ ?_ ?_ e
  · intro r op ih; simp only [transform, nodes, ih]
  · intro l r op ihl ihr; simp only [transform, nodes, ihl, ihr]
  · intro l m r op ihl ihm ihr; simp only [transform, nodes, ihl, ihm, ihr]
  · intro es ih; simp only [transform, nodes, ih]
  · intro v; rfl
  · intro n; rfl
  · intro n ps ih
    simp only [transform]
    split
    · split
      · simp only [nodes, nodesL]; omega
      · simp only [nodes, ih]
    · simp only [nodes, ih]
  · rfl
  · intro e es ihe ihes; simp only [transformL, nodesL, ihe, ihes]

theorem nodes_pos (e : Expr N) : 1 ≤ nodes e := by
  cases e <;> simp only [nodes] <;> omega

theorem nodes_exec (env : Env N) (e : Expr N) : nodes (exec env e).tree ≤ nodes e := by
  rcases exec_tree env e with h | ⟨v, h⟩ <;> rw [h]
  · exact Nat.le_refl _
  · exact nodes_pos e

theorem nodes_fold (env : Env N) (e : Expr N) : nodes (fold env e).tree ≤ nodes e := by
  refine Expr.rec
    (motive_1 := fun e => nodes (fold env e).tree ≤ nodes e)
    (motive_2 := fun es => nodesL (foldL env es).1 ≤ nodesL es)
    ?_ ?_ ?_ ?_ ?_ ?_ ?_ ?_ ?_ e
  · intro r op ih
    simp only [fold]
    split
    · exact nodes_exec env _
    · simp only [nodes]; omega
  · intro l r op ihl ihr
    simp only [fold]
    split
    · exact nodes_exec env _
    · split <;> simp only [nodes] <;> omega
  · intro l m r op ihl ihm ihr
    simp only [fold]
    split
    · simp only [nodes]; split <;> omega
    · split
      · simp only [nodes]; omega
      · split <;> simp only [nodes] <;> omega
  · intro es ih
    simp only [fold]
    split
    · exact nodes_exec env _
    · simp only [nodes]; omega
  · intro v; exact Nat.le_refl _
  · intro n; exact Nat.le_refl _
  · intro n ps ih
    simp only [fold]
    split
    · split
      · exact nodes_exec env _
      · exact Nat.le_refl _
    · simp only [nodes]; omega
  · exact Nat.le_refl _
  · intro e es ihe ihes
    simp only [foldL]
    split <;> simp only [nodesL] <;> omega

/-! ### `fold` introduces no three-argument `if_then` call -/

theorem if3_exec (env : Env N) (e : Expr N) : if3 (exec env e).tree ≤ if3 e := by
  rcases exec_tree env e with h | ⟨v, h⟩ <;> rw [h]
  · exact Nat.le_refl _
  · simp only [if3]; omega

theorem if3_fold (env : Env N) (e : Expr N) : if3 (fold env e).tree ≤ if3 e := by
  refine Expr.rec
    (motive_1 := fun e => if3 (fold env e).tree ≤ if3 e)
    (motive_2 := fun es => if3L (foldL env es).1 ≤ if3L es)
    ?_ ?_ ?_ ?_ ?_ ?_ ?_ ?_ ?_ e
  · intro r op ih
    simp only [fold]
    split
    · exact if3_exec env _
    · simp only [if3]; omega
  · intro l r op ihl ihr
    simp only [fold]
    split
    · exact if3_exec env _
    · split <;> simp only [if3] <;> omega
  · intro l m r op ihl ihm ihr
    simp only [fold]
    split
    · simp only [if3]; split <;> omega
    · split
      · simp only [if3]; omega
      · split <;> simp only [if3] <;> omega
  · intro es ih
    simp only [fold]
    split
    · exact if3_exec env _
    · simp only [if3]; omega
  · intro v; exact Nat.le_refl _
  · intro n; exact Nat.le_refl _
  · intro n ps ih
    simp only [fold]
    split
    · split
      · exact if3_exec env _
      · exact Nat.le_refl _
    · simp only [if3_call, foldL_length]; omega
  · exact Nat.le_refl _
  · intro e es ihe ihes
    simp only [foldL]
    split <;> simp only [if3L] <;> omega

/-! ### both passes keep variables bound -/

theorem varsBound_transform (env : Env N) (e : Expr N) : VarsBound env e → VarsBound env (transform e) := by
  refine Expr.rec
    (motive_1 := fun e => VarsBound env e → VarsBound env (transform e))
    (motive_2 := fun es => VarsBoundL env es → VarsBoundL env (transformL es))
    ?_ ?_ ?_ ?_ ?_ ?_ ?_ ?_ ?_ e
  · intro r op ih h; simp only [transform, VarsBound] at h ⊢; exact ih h
  · intro l r op ihl ihr h; simp only [transform, VarsBound] at h ⊢; exact ⟨ihl h.1, ihr h.2⟩
  · intro l m r op ihl ihm ihr h; simp only [transform, VarsBound] at h ⊢
    exact ⟨ihl h.1, ihm h.2.1, ihr h.2.2⟩
  · intro es ih h; simp only [transform, VarsBound] at h ⊢; exact ih h
  · intro v h; exact h
  · intro n h; exact h
  · intro n ps ih h
    simp only [VarsBound] at h
    simp only [transform]
    split
    · split
      · simp only [VarsBoundL, and_true] at h; simp only [VarsBound]; exact h
      · simp only [VarsBound]; exact ih h
    · simp only [VarsBound]; exact ih h
  · intro h; exact h
  · intro e es ihe ihes h; simp only [transformL, VarsBoundL] at h ⊢; exact ⟨ihe h.1, ihes h.2⟩

theorem varsBound_exec (env env' : Env N) (e : Expr N) (h : VarsBound env' e) : VarsBound env' (exec env e).tree := by
  rcases exec_tree env e with h' | ⟨v, h'⟩ <;> rw [h']
  · exact h
  · simp only [VarsBound]

theorem varsBound_fold (env env' : Env N) (e : Expr N) : VarsBound env' e → VarsBound env' (fold env e).tree := by
  refine Expr.rec
    (motive_1 := fun e => VarsBound env' e → VarsBound env' (fold env e).tree)
    (motive_2 := fun es => VarsBoundL env' es → VarsBoundL env' (foldL env es).1)
    ?_ ?_ ?_ ?_ ?_ ?_ ?_ ?_ ?_ e
  · intro r op ih h
    simp only [fold]
    split
    · exact varsBound_exec env env' _ h
    · simp only [VarsBound] at h ⊢; exact ih h
  · intro l r op ihl ihr h
    simp only [fold]
    split
    · exact varsBound_exec env env' _ h
    · simp only [VarsBound] at h
      split <;> simp only [VarsBound]
      · exact ⟨ihl h.1, h.2⟩
      · exact ⟨ihl h.1, ihr h.2⟩
  · intro l m r op ihl ihm ihr h
    simp only [VarsBound] at h
    simp only [fold]
    split
    · simp only; split
      · exact h.2.1
      · exact h.2.2
    · split
      · simp only [VarsBound]; exact ⟨ihl h.1, h.2.1, h.2.2⟩
      · split <;> simp only [VarsBound]
        · exact ⟨ihl h.1, ihm h.2.1, h.2.2⟩
        · exact ⟨ihl h.1, ihm h.2.1, ihr h.2.2⟩
  · intro es ih h
    simp only [fold]
    split
    · exact varsBound_exec env env' _ h
    · simp only [VarsBound] at h ⊢; exact ih h
  · intro v h; exact h
  · intro n h; exact h
  · intro n ps ih h
    simp only [fold]
    split
    · split
      · exact varsBound_exec env env' _ h
      · exact h
    · simp only [VarsBound] at h ⊢; exact ih h
  · intro h; exact h
  · intro e es ihe ihes h
    simp only [VarsBoundL] at h
    simp only [foldL]
    split <;> simp only [VarsBoundL]
    · exact ⟨ihe h.1, h.2⟩
    · exact ⟨ihe h.1, ihes h.2⟩

/-! ### a round that finds nothing: the tree is unchanged and has no foldable node -/

theorem not_foldable_lit (env : Env N) {es : List (Expr N)} (h : allLit es = true) :
    ∀ n ∈ subtermsL es, ¬ Foldable env n := by
  induction es with
  | nil => intro n hn; simp [subtermsL] at hn
  | cons e es ih =>
    simp only [allLit, List.all_cons, Bool.and_eq_true] at h
    intro n hn
    simp only [subtermsL, List.mem_append] at hn
    rcases hn with hn | hn
    · cases e <;> simp [isLit] at h
      simp only [subterms, List.mem_singleton] at hn
      subst hn; simp [Foldable]
    · exact ih (by simpa [allLit] using h.2) n hn

theorem fold_stable (env : Env N) (e : Expr N) : if3 e = 0 → (fold env e).found = false →
    (fold env e).tree = e ∧ (fold env e).err = none ∧ ∀ n ∈ subterms e, ¬ Foldable env n := by
  refine Expr.rec
    (motive_1 := fun e => if3 e = 0 → (fold env e).found = false →
      (fold env e).tree = e ∧ (fold env e).err = none ∧ ∀ n ∈ subterms e, ¬ Foldable env n)
    (motive_2 := fun es => if3L es = 0 → (foldL env es).2.1 = false →
      (foldL env es).1 = es ∧ (foldL env es).2.2 = none ∧ ∀ n ∈ subtermsL es, ¬ Foldable env n)
    ?_ ?_ ?_ ?_ ?_ ?_ ?_ ?_ ?_ e
  · intro r op ih h3 hf
    simp only [if3] at h3
    simp only [fold] at hf ⊢
    split at hf
    · rw [exec_found] at hf; cases hf
    · rename_i hl
      rw [if_neg hl]
      obtain ⟨h1, h2, h4⟩ := ih h3 hf
      refine ⟨by simp only [h1], h2, ?_⟩
      intro n hn
      simp only [subterms, List.mem_cons] at hn
      rcases hn with rfl | hn
      · simpa [Foldable] using hl
      · exact h4 n hn
  · intro l r op ihl ihr h3 hf
    simp only [if3] at h3
    simp only [fold] at hf ⊢
    split at hf
    · rw [exec_found] at hf; cases hf
    · rename_i hl
      rw [if_neg hl]
      split at hf
      · rename_i er her
        simp only at hf
        have := (ihl (by omega) hf).2.1
        rw [this] at her; cases her
      · rename_i hnone
        simp only [Bool.or_eq_false_iff] at hf
        obtain ⟨a1, a2, a3⟩ := ihl (by omega) hf.1
        obtain ⟨b1, b2, b3⟩ := ihr (by omega) hf.2
        simp only [hnone, a1, b1, b2, true_and]
        intro n hn
        simp only [subterms, List.mem_cons, List.mem_append] at hn
        rcases hn with rfl | hn | hn
        · simpa [Foldable] using hl
        · exact a3 n hn
        · exact b3 n hn
  · intro l m r op ihl ihm ihr h3 hf
    simp only [if3] at h3
    simp only [fold] at hf ⊢
    split at hf
    · cases hf
    · rename_i hnl
      have hnf : ¬ Foldable env (.ternary l m r op) := by
        simp only [Foldable]
        rintro ⟨h1, h2⟩
        cases l <;> simp [isLit] at h1
        exact hnl _ rfl h2
      split at hf
      · rename_i er her
        simp only at hf
        have := (ihl (by omega) hf).2.1
        rw [this] at her; cases her
      · rename_i hn1
        split at hf
        · rename_i er her
          simp only [Bool.or_eq_false_iff] at hf
          have := (ihm (by omega) hf.2).2.1
          rw [this] at her; cases her
        · rename_i hn2
          simp only [Bool.or_eq_false_iff] at hf
          obtain ⟨a1, a2, a3⟩ := ihl (by omega) hf.1.1
          obtain ⟨b1, b2, b3⟩ := ihm (by omega) hf.1.2
          obtain ⟨c1, c2, c3⟩ := ihr (by omega) hf.2
          simp only [hn1, hn2, a1, b1, c1, c2, true_and]
          intro n hn
          simp only [subterms, List.mem_cons, List.mem_append] at hn
          rcases hn with rfl | (hn | hn) | hn
          · exact hnf
          · exact a3 n hn
          · exact b3 n hn
          · exact c3 n hn
  · intro es ih h3 hf
    simp only [if3] at h3
    simp only [fold] at hf ⊢
    split at hf
    · rw [exec_found] at hf; cases hf
    · rename_i hl
      rw [if_neg hl]
      simp only at hf
      obtain ⟨a1, a2, a3⟩ := ih h3 hf
      refine ⟨by simp only [a1], a2, ?_⟩
      intro n hn
      simp only [subterms, List.mem_cons] at hn
      rcases hn with rfl | hn
      · simpa [Foldable] using hl
      · exact a3 n hn
  · intro v _ _
    refine ⟨rfl, rfl, ?_⟩
    intro n hn; simp only [subterms, List.mem_singleton] at hn; subst hn; simp [Foldable]
  · intro v _ _
    refine ⟨rfl, rfl, ?_⟩
    intro n hn; simp only [subterms, List.mem_singleton] at hn; subst hn; simp [Foldable]
  · intro f ps ih h3 hf
    rw [if3_call] at h3
    have hci : ¬ (f = ifThenName ∧ ps.length = 3) := by
      rintro ⟨h1, h2⟩
      have : callI f ps.length = 1 := by simp [callI, h1, h2]
      omega
    simp only [fold] at hf ⊢
    split at hf
    · rename_i hl
      rw [if_pos hl]
      split at hf
      · rw [exec_found] at hf; cases hf
      · rename_i hne
        refine ⟨rfl, rfl, ?_⟩
        intro n hn
        simp only [subterms, List.mem_cons] at hn
        rcases hn with rfl | hn
        · simp only [Foldable]
          rintro (⟨_, h2⟩ | h2)
          · exact hne h2
          · exact hci h2
        · exact not_foldable_lit env hl n hn
    · rename_i hl
      rw [if_neg hl]
      simp only at hf
      obtain ⟨a1, a2, a3⟩ := ih (by omega) hf
      refine ⟨by simp only [a1], a2, ?_⟩
      intro n hn
      simp only [subterms, List.mem_cons] at hn
      rcases hn with rfl | hn
      · simp only [Foldable]
        rintro (⟨h1, _⟩ | h2)
        · exact hl h1
        · exact hci h2
      · exact a3 n hn
  · intro _ _
    refine ⟨rfl, rfl, ?_⟩
    intro n hn; simp [subtermsL] at hn
  · intro e es ihe ihes h3 hf
    simp only [if3L] at h3
    simp only [foldL] at hf ⊢
    split at hf
    · rename_i er her
      simp only at hf
      have := (ihe (by omega) hf).2.1
      rw [this] at her; cases her
    · rename_i hnone
      simp only [Bool.or_eq_false_iff] at hf
      obtain ⟨a1, a2, a3⟩ := ihe (by omega) hf.1
      obtain ⟨b1, b2, b3⟩ := ihes (by omega) hf.2
      simp only [hnone, a1, b1, b2, true_and]
      intro n hn
      simp only [subtermsL, List.mem_append] at hn
      rcases hn with hn | hn
      · exact a3 n hn
      · exact b3 n hn

end Slac.Opt
