/-
  SlacProofs.SeqSearch — the search family of SlacModel.Seq (`splitOn`, `countOcc`, `containsSeq`, `findSeq`,
  `replaceSeq`, `intercalate`) against the independent meanings of SlacProofs.SeqSpec.
  Method: the accumulator/skip loop `splitAux` is reduced to two recursion equations for `splitOn`
  (`splitOn_nil`, `splitOn_cons`); everything else is induction over the haystack with these.
-/
import SlacModel.Seq
import SlacProofs.SeqSpec
set_option autoImplicit false
set_option linter.unusedSectionVars false
namespace Slac.Seq
open Slac.SeqSpec
variable {α : Type} [DecidableEq α]

theorem isPrefix_iff (n h : List α) : isPrefix n h = true ↔ n <+: h := by
  induction n generalizing h with
  | nil => simp [isPrefix]
  | cons a as ih =>
    cases h with
    | nil => simp [isPrefix]
    | cons b bs => simp [isPrefix, List.cons_prefix_cons, ih]

/-- put `p` in front of the first piece -/
def headApp (p : List α) : List (List α) → List (List α)
  | [] => [p]
  | q :: qs => (p ++ q) :: qs

theorem headApp_nil (l : List (List α)) (h : l ≠ []) : headApp [] l = l := by
  cases l with
  | nil => exact absurd rfl h
  | cons q qs => rfl

theorem headApp_headApp (p q : List α) (l : List (List α)) (h : l ≠ []) :
    headApp p (headApp q l) = headApp (p ++ q) l := by
  cases l with
  | nil => exact absurd rfl h
  | cons r rs => simp [headApp]

theorem headApp_ne_nil (p : List α) (l : List (List α)) : headApp p l ≠ [] := by
  cases l <;> simp [headApp]

theorem length_headApp (p : List α) (l : List (List α)) (h : l ≠ []) : (headApp p l).length = l.length := by
  cases l with
  | nil => exact absurd rfl h
  | cons r rs => rfl

theorem splitAux_ne_nil (n cur : List α) (k : Nat) (h : List α) : splitAux n cur k h ≠ [] := by
  induction h generalizing cur k with
  | nil => unfold splitAux; split <;> simp
  | cons c t ih =>
    cases k with
    | succ k => rw [splitAux]; exact ih _ _
    | zero =>
      rw [splitAux.eq_def]; simp only
      split
      · split <;> simp
      · exact ih _ _

theorem splitAux_nil_hay (n cur : List α) (k : Nat) : splitAux n cur k [] = splitAux n cur 0 [] := by
  cases k <;> simp [splitAux]

theorem splitAux_skip (n cur : List α) (k : Nat) (h : List α) :
    splitAux n cur k h = splitAux n cur 0 (h.drop k) := by
  induction k generalizing h with
  | zero => simp
  | succ k ih =>
    cases h with
    | nil => simp [splitAux]
    | cons c t => rw [splitAux]; simpa using ih t

theorem splitAux_cur (n cur : List α) (h : List α) :
    splitAux n cur 0 h = headApp cur.reverse (splitAux n [] 0 h) := by
  induction h generalizing cur with
  | nil => unfold splitAux; split <;> simp [headApp]
  | cons c t ih =>
    rw [splitAux.eq_def]; simp only
    conv => rhs; rw [splitAux.eq_def]; simp only
    split
    · cases n <;> simp [headApp]
    · rw [ih (c :: cur), ih [c], headApp_headApp _ _ _ (splitAux_ne_nil _ _ _ _)]
      simp

theorem splitOn_ne_nil (n h : List α) : splitOn n h ≠ [] := splitAux_ne_nil _ _ _ _

theorem splitOn_nil (n : List α) : splitOn n [] = if n = [] then [[], []] else [[]] := by
  cases n <;> simp [splitOn, splitAux]

theorem splitOn_cons (n : List α) (c : α) (t : List α) :
    splitOn n (c :: t) =
      if n <+: c :: t then
        [] :: (if n = [] then headApp [c] (splitOn n t) else splitOn n ((c :: t).drop n.length))
      else headApp [c] (splitOn n t) := by
  unfold splitOn
  rw [splitAux.eq_def]; simp only
  by_cases hp : n <+: c :: t
  · rw [if_pos ((isPrefix_iff _ _).2 hp), if_pos hp]
    cases n with
    | nil => simp [splitAux_cur [] [c] t]
    | cons a nt =>
      simp only [List.reverse_nil, List.length_cons, List.drop_succ_cons, reduceCtorEq, if_false]
      rw [splitAux_skip]
  · rw [if_neg (fun h => hp ((isPrefix_iff _ _).1 h)), if_neg hp, splitAux_cur]
    simp

/-! ### find -/
theorem findSeq_nil (n : List α) : findSeq n [] = if n = [] then some 0 else none := by
  unfold findSeq; rw [splitOn_nil]
  by_cases hn : n = [] <;> simp [hn]

theorem findSeq_cons (n : List α) (c : α) (t : List α) :
    findSeq n (c :: t) = if n <+: c :: t then some 0 else (findSeq n t).map (· + 1) := by
  unfold findSeq; rw [splitOn_cons]
  by_cases hp : n <+: c :: t
  · simp only [if_pos hp]
    by_cases hn : n = []
    · simp only [if_pos hn]
      have := headApp_ne_nil [c] (splitOn n t)
      revert this; cases headApp [c] (splitOn n t) <;> simp
    · simp only [if_neg hn]
      have := splitOn_ne_nil n ((c :: t).drop n.length)
      revert this; cases splitOn n ((c :: t).drop n.length) <;> simp
  · simp only [if_neg hp]
    have := splitOn_ne_nil n t
    revert this
    cases splitOn n t with
    | nil => simp
    | cons p ps => cases ps <;> simp [headApp]

theorem findSeq_eq_some_iff (n h : List α) (i : Nat) : findSeq n h = some i ↔ FirstOcc n h i := by
  unfold FirstOcc
  induction h generalizing i with
  | nil =>
    rw [findSeq_nil]
    by_cases hn : n = []
    · subst hn
      simp only [if_true, Option.some.injEq, List.drop_nil, List.prefix_rfl, List.length_nil, true_and]
      constructor
      · intro h; subst h; exact ⟨Nat.le_refl _, fun j hj => absurd hj (Nat.not_lt_zero _)⟩
      · intro h; omega
    · simp [hn]
  | cons c t ih =>
    rw [findSeq_cons]
    by_cases hp : n <+: c :: t
    · simp only [if_pos hp, Option.some.injEq]
      constructor
      · intro h; subst h; simp [hp]
      · intro ⟨_, _, h3⟩
        cases i with
        | zero => rfl
        | succ i => exact absurd hp (by simpa using h3 0 (Nat.succ_pos _))
    · simp only [if_neg hp, Option.map_eq_some_iff]
      constructor
      · rintro ⟨j, hj, rfl⟩
        obtain ⟨h1, h2, h3⟩ := (ih j).1 hj
        refine ⟨by simpa using h1, by simpa using h2, ?_⟩
        intro k hk
        cases k with
        | zero => simpa using hp
        | succ k => simpa using h3 k (by omega)
      · intro ⟨h1, h2, h3⟩
        cases i with
        | zero => exact absurd (by simpa using h1) hp
        | succ i =>
          refine ⟨i, (ih i).2 ⟨by simpa using h1, by simpa using h2, ?_⟩, rfl⟩
          intro k hk
          simpa using h3 (k + 1) (by omega)

theorem findSeq_isSome_iff (n h : List α) : (findSeq n h).isSome = true ↔ n <:+: h := by
  induction h with
  | nil =>
    rw [findSeq_nil]
    by_cases hn : n = []
    · simp [hn]
    · simp [hn]
  | cons c t ih =>
    rw [findSeq_cons, List.infix_cons_iff]
    by_cases hp : n <+: c :: t
    · simp [hp]
    · rw [if_neg hp, Option.isSome_map, ih]; simp [hp]

theorem findSeq_eq_none_iff (n h : List α) : findSeq n h = none ↔ ¬ n <:+: h := by
  rw [← findSeq_isSome_iff]; cases findSeq n h <;> simp

/-! ### contains / count -/
theorem containsSeq_eq_isSome (n h : List α) : containsSeq n h = (findSeq n h).isSome := by
  unfold containsSeq countOcc findSeq
  have := splitOn_ne_nil n h
  revert this
  cases splitOn n h with
  | nil => simp
  | cons p ps => cases ps <;> simp

theorem containsSeq_iff (n h : List α) : containsSeq n h = true ↔ n <:+: h := by
  rw [containsSeq_eq_isSome, findSeq_isSome_iff]

theorem length_splitOn_pos (n h : List α) : 0 < (splitOn n h).length :=
  List.length_pos_iff.2 (splitOn_ne_nil n h)

theorem length_splitOn (n h : List α) : (splitOn n h).length = countOcc n h + 1 := by
  have := length_splitOn_pos n h
  unfold countOcc; omega

theorem countOcc_nil (n : List α) : countOcc n [] = if n = [] then 1 else 0 := by
  unfold countOcc; rw [splitOn_nil]; split <;> rfl

theorem countOcc_cons (n : List α) (c : α) (t : List α) :
    countOcc n (c :: t) =
      if n <+: c :: t then 1 + countOcc n ((c :: t).drop (max n.length 1)) else countOcc n t := by
  have e1 := length_splitOn n (c :: t)
  rw [splitOn_cons] at e1
  by_cases hp : n <+: c :: t
  · rw [if_pos hp] at e1 ⊢
    by_cases hn : n = []
    · subst hn
      rw [if_pos rfl, List.length_cons, length_headApp _ _ (splitOn_ne_nil _ _), length_splitOn] at e1
      simp only [List.length_nil, Nat.zero_max, List.drop_succ_cons, List.drop_zero]
      omega
    · rw [if_neg hn, List.length_cons, length_splitOn] at e1
      have : max n.length 1 = n.length := by
        have : n.length ≠ 0 := fun h => hn (List.length_eq_zero_iff.1 h)
        omega
      rw [this]; omega
  · rw [if_neg hp] at e1 ⊢
    rw [length_headApp _ _ (splitOn_ne_nil _ _), length_splitOn] at e1
    omega

theorem countOcc_eq_occCount (n h : List α) : countOcc n h = occCount n h := by
  fun_induction occCount n h with
  | case1 hn => rw [countOcc_nil, if_pos hn]
  | case2 hn => rw [countOcc_nil, if_neg hn]
  | case3 c t hp ih => rw [countOcc_cons, if_pos hp, ih]
  | case4 c t hp ih => rw [countOcc_cons, if_neg hp, ih]

theorem occCount_le (n h : List α) : occCount n h ≤ h.length + 1 := by
  fun_induction occCount n h with
  | case1 hn => simp
  | case2 hn => simp
  | case3 c t hp ih =>
    simp only [List.length_drop, List.length_cons] at ih ⊢
    omega
  | case4 c t hp ih => simp only [List.length_cons]; omega

theorem countOcc_le (n h : List α) : countOcc n h ≤ h.length + 1 := by
  rw [countOcc_eq_occCount]; exact occCount_le n h

/-! ### join / replace -/
theorem intercalate_eq_join (sep : List α) (ps : List (List α)) : intercalate sep ps = join sep ps := by
  induction ps with
  | nil => rfl
  | cons p ps ih =>
    cases ps with
    | nil => rfl
    | cons q qs => simp only [intercalate, join, ih]

theorem join_headApp (sep p : List α) (l : List (List α)) (h : l ≠ []) :
    join sep (headApp p l) = p ++ join sep l := by
  cases l with
  | nil => exact absurd rfl h
  | cons q qs => cases qs <;> simp [headApp, join]

theorem join_nil_cons (sep : List α) (l : List (List α)) (h : l ≠ []) :
    join sep ([] :: l) = sep ++ join sep l := by
  cases l with
  | nil => exact absurd rfl h
  | cons q qs => simp [join]

theorem replaceSeq_eq_replaceAll (frm to hay : List α) : replaceSeq frm to hay = replaceAll frm to hay := by
  unfold replaceSeq; rw [intercalate_eq_join]
  fun_induction replaceAll frm to hay with
  | case1 hn => rw [splitOn_nil, if_pos hn]; simp [join]
  | case2 hn => rw [splitOn_nil, if_neg hn]; simp [join]
  | case3 c t hn ih =>
    subst hn
    rw [splitOn_cons, if_pos (List.nil_prefix), if_pos rfl, join_nil_cons _ _ (headApp_ne_nil _ _),
      join_headApp _ _ _ (splitOn_ne_nil _ _), ih]
    simp
  | case4 c t hn hp ih =>
    rw [splitOn_cons, if_pos hp, if_neg hn, join_nil_cons _ _ (splitOn_ne_nil _ _), ih]
  | case5 c t hn hp ih =>
    rw [splitOn_cons, if_neg hp, join_headApp _ _ _ (splitOn_ne_nil _ _), ih]
    simp

/-- replacing `sep` by itself changes nothing -/
theorem replaceAll_self (sep hay : List α) : replaceAll sep sep hay = hay := by
  fun_induction replaceAll sep sep hay with
  | case1 hn => exact hn
  | case2 hn => rfl
  | case3 c t hn ih => subst hn; simp [ih]
  | case4 c t hn hp ih =>
    rw [ih]
    obtain ⟨r, hr⟩ := hp
    rw [← hr]; simp
  | case5 c t hn hp ih => rw [ih]

/-- `hay.split(sep).join(sep) = hay` -/
theorem join_splitOn (sep hay : List α) : join sep (splitOn sep hay) = hay := by
  have h := replaceSeq_eq_replaceAll sep sep hay
  unfold replaceSeq at h; rw [intercalate_eq_join] at h
  rw [h, replaceAll_self]

theorem intercalate_splitOn (sep hay : List α) : intercalate sep (splitOn sep hay) = hay := by
  rw [intercalate_eq_join, join_splitOn]

end Slac.Seq
