/-
  SlacProofs.F64Round — exact cases of core's `UnpackedFloat.round`/`roundWithAccuracy` for binary64, canonical
  finite floats (`Canon`, `mkF`) with their bit patterns, and `Float.ofScientific n false 0` for 0 < n < 2^53
  (`n as f64` is exact).  Everything is proved from the definitions in Init/Data/Float/Model/**.
-/
import SlacProofs.F64Bits
set_option autoImplicit false
namespace Slac
namespace F64
open Float.Model Float.Model.UnpackedFloat

/-- target exponent for binary64 -/
def tgt (m : Nat) (e : Int) : Int := max ((m.log2 : Int) + 1 + e - 53) (-1074)

theorem targetExponent_eq (m : Nat) (e : Int) :
    B64.targetExponent (totalExponent m e) = tgt m e := by
  unfold Format.targetExponent totalExponent tgt
  have h1 : (B64.mantissaBits : Int) = 53 := by decide
  have h2 : B64.minExponent = -1074 := by decide
  rw [h1, h2]

theorem shiftRight_zero (em : ExtendedMantissa) : em >>> 0 = em := rfl
theorem shiftRight_succ (em : ExtendedMantissa) (k : Nat) : em >>> (k+1) = (em >>> k).shiftRightOne := rfl

theorem shiftRight_exact (m k : Nat) :
    (⟨m * 2^k, false, false⟩ : ExtendedMantissa) >>> k = ⟨m, false, false⟩ := by
  induction k generalizing m with
  | zero => simp [shiftRight_zero]
  | succ k ih =>
    rw [shiftRight_succ]
    have : m * 2^(k+1) = (m * 2) * 2^k := by rw [Nat.pow_succ]; ac_rfl
    rw [this, ih]
    simp [ExtendedMantissa.shiftRightOne]

theorem log2_mul_two_pow (m k : Nat) (h : m ≠ 0) : (m * 2^k).log2 = m.log2 + k := by
  induction k with
  | zero => simp
  | succ k ih =>
    have : m * 2^(k+1) = 2 * (m * 2^k) := by rw [Nat.pow_succ]; ac_rfl
    rw [this, Nat.log2_two_mul (by have := Nat.two_pow_pos k; exact Nat.mul_ne_zero h (by omega)), ih]
    omega

/-- rounding an exactly representable value: m·2^k at exponent T-k where T is its target exponent -/
theorem rwa_exact (s : Sign) (m k : Nat) (T : Int) (hm : 0 < m) (hT : tgt m T = T) :
    roundWithAccuracy B64 s (m * 2^k) (T - k) .exact = .finite s m T hm := by
  have hm0 : m ≠ 0 := by omega
  have ht1 : tgt (m * 2^k) (T - k) = T := by
    unfold tgt at hT ⊢; rw [log2_mul_two_pow m k hm0]; push_cast; omega
  unfold roundWithAccuracy shiftToTargetExponent
  simp only [targetExponent_eq, ht1]
  unfold shiftToExponent
  simp only [ExtendedMantissa.ofMantissaAndAccuracy]
  have hk : (T - (T - (k:Int))).toNat = k := by omega
  simp only [hk, shiftRight_exact]
  simp only [ExtendedMantissa.roundedMantissa, ExtendedMantissa.accuracy, Accuracy.roundToNearestEven]
  have e1 : T - (k:Int) + (k:Int) = T := by omega
  simp only [e1, hT, Int.sub_self, Int.toNat_zero, shiftRight_zero]
  rw [dif_neg hm0]
  congr 1
  omega

theorem tgt_mul (m k : Nat) (e : Int) (h : m ≠ 0) : tgt (m * 2^k) (e - k) = tgt m e := by
  unfold tgt; rw [log2_mul_two_pow m k h]; push_cast; omega

/-- `round` of a value whose exponent is at or above the target: shift left, exact -/
theorem round_up (s : Sign) (m : Nat) (e : Int) (hm : 0 < m) (hle : tgt m e ≤ e) :
    UnpackedFloat.round B64 s m e =
      .finite s (m * 2^(e - tgt m e).toNat) (tgt m e) (Nat.mul_pos hm (Nat.two_pow_pos _)) := by
  unfold UnpackedFloat.round decreaseExponent
  simp only [targetExponent_eq, Nat.shiftLeft_eq]
  have hm0 : m ≠ 0 := by omega
  generalize hT : tgt m e = T at hle ⊢
  generalize hj : (e - T).toNat = j
  have e2 : e - (j:Int) = T := by omega
  have h1 : tgt (m * 2^j) T = T := by
    have := tgt_mul m j e hm0
    rw [e2] at this; rw [this, hT]
  have := rwa_exact s (m * 2^j) 0 T (Nat.mul_pos hm (Nat.two_pow_pos _)) h1
  simp only [Nat.pow_zero, Nat.mul_one, Int.natCast_zero, Int.sub_zero] at this
  rw [e2]
  exact this

/-- `round` of M·2^k at exponent T-k when (M,T) is canonical: shift right, exact -/
theorem round_down (s : Sign) (M k : Nat) (T : Int) (hM : 0 < M) (hT : tgt M T = T) :
    UnpackedFloat.round B64 s (M * 2^k) (T - k) = .finite s M T hM := by
  unfold UnpackedFloat.round decreaseExponent
  have hM0 : M ≠ 0 := by omega
  simp only [targetExponent_eq, tgt_mul M k T hM0, hT]
  have : (T - (k:Int) - T).toNat = 0 := by omega
  simp only [this, Nat.shiftLeft_zero, Int.natCast_zero, Int.sub_zero]
  exact rwa_exact s M k T hM hT

/-- canonical binary64 representation: `m·2^e`, m < 2^53, exponent equal to the target exponent, no overflow -/
structure Canon (m : Nat) (e : Int) : Prop where
  pos : 0 < m
  tgt_eq : tgt m e = e
  le : e ≤ 971

theorem Canon.cases {m : Nat} {e : Int} (h : Canon m e) :
    (m.log2 = 52 ∧ -1074 ≤ e) ∨ (m.log2 < 52 ∧ e = -1074) := by
  have := h.tgt_eq; unfold tgt at this; omega

theorem Canon.lt {m : Nat} {e : Int} (h : Canon m e) : m < 2^53 := by
  have hm0 : m ≠ 0 := by have := h.pos; omega
  have : m.log2 < 53 := by rcases h.cases with h | h <;> omega
  exact (Nat.log2_lt hm0).1 this

theorem Canon.of_normal {m : Nat} {e : Int} (h1 : 2^52 ≤ m) (h2 : m < 2^53) (h3 : -1074 ≤ e) (h4 : e ≤ 971) :
    Canon m e := by
  have hl := log2_eq_of m 52 h1 h2
  exact ⟨by omega, by unfold tgt; omega, h4⟩

theorem Canon.of_subnormal {m : Nat} (h1 : 0 < m) (h2 : m < 2^52) : Canon m (-1074) := by
  have hl := log2_lt_of m 52 h2 (by omega)
  exact ⟨h1, by unfold tgt; omega, by omega⟩

/-- the Float with unpacked form `finite s m e` -/
def mkF (s : Sign) (m : Nat) (e : Int) (hm : 0 < m) : Float :=
  Float.ofModel (Float.Model.pack (.finite s m e hm))

theorem signN_add (s : Sign) (r : Nat) (hr : r < 2^63) : signN (sbit s * 2^63 + r) = s := by
  unfold signN; cases s <;> simp [sbit] <;> omega

theorem unpackN_packN_finite (s : Sign) (m : Nat) (e : Int) (h : Canon m e) :
    unpackN (packN (.finite s m e h.pos)) = .finite s m e h.pos := by
  have hlt := h.lt
  have hm0 : m ≠ 0 := by have := h.pos; omega
  have hle := h.le
  simp only [packN]
  rw [if_neg (by omega)]
  rcases h.cases with ⟨hl, he⟩ | ⟨hl, he⟩
  · rw [if_pos (by omega)]
    have h52 : 2^52 ≤ m := (Nat.le_log2 hm0).1 (by omega)
    generalize hbe : (e + 1075).toNat = be
    have hbe1 : 1 ≤ be := by omega
    have hbe2 : be ≤ 2046 := by omega
    have hs : signN (sbit s * 2^63 + be * 2^52 + m % 2^52) = s := by
      rw [Nat.add_assoc]; exact signN_add s _ (by omega)
    have hs' : sbit s ≤ 1 := by cases s <;> simp [sbit]
    have hE : (sbit s * 2^63 + be * 2^52 + m % 2^52) / 2^52 % 2^11 = be := by omega
    have hM : (sbit s * 2^63 + be * 2^52 + m % 2^52) % 2^52 = m % 2^52 := by omega
    rw [unpackN_normal _ (by omega) (by omega)]
    congr 1
    · rw [hM]; omega
    · rw [hE]; omega
  · rw [if_neg (by omega)]
    have h52 : m < 2^52 := (Nat.log2_lt hm0).1 hl
    have hs : signN (sbit s * 2^63 + m % 2^52) = s := signN_add s _ (by omega)
    have hs' : sbit s ≤ 1 := by cases s <;> simp [sbit]
    have hE : (sbit s * 2^63 + m % 2^52) / 2^52 % 2^11 = 0 := by omega
    have hM : (sbit s * 2^63 + m % 2^52) % 2^52 = m := by omega
    rw [unpackN_subnormal _ hE (by omega)]
    congr 1; omega

theorem unpack_mkF (s : Sign) (m : Nat) (e : Int) (h : Canon m e) :
    (mkF s m e h.pos).toModel.unpack = .finite s m e h.pos := by
  rw [unpack_bits, mkF, bits_ofModel_pack, unpackN_packN_finite s m e h]

/-- bit pattern of a canonical float -/
theorem bits_mkF (s : Sign) (m : Nat) (e : Int) (h : Canon m e) :
    bits (mkF s m e h.pos) =
      sbit s * 2^63 + (if m.log2 = 52 then (e + 1075).toNat * 2^52 + (m - 2^52) else m) := by
  have hlt := h.lt
  have hm0 : m ≠ 0 := by have := h.pos; omega
  have hle := h.le
  rw [mkF, bits_ofModel_pack]
  simp only [packN]
  rw [if_neg (by omega)]
  rcases h.cases with ⟨hl, he⟩ | ⟨hl, he⟩
  · have h52 : 2^52 ≤ m := (Nat.le_log2 hm0).1 (by omega)
    rw [if_pos (by omega), if_pos hl]; omega
  · have h52 : m < 2^52 := (Nat.log2_lt hm0).1 hl
    rw [if_neg (by omega), if_neg (by omega)]; omega

theorem sign_mul_pos (s : Sign) : s * Sign.positive = s := by cases s <;> rfl

theorem unpackN_one : unpackN 0x3FF0000000000000 = .finite .positive (2^52) (-52) (by decide) := by
  rw [unpackN_normal _ (by decide) (by decide)]
  congr 1

/-- multiplying a canonical finite value by 1.0 in the model -/
theorem mul_one_canon (s : Sign) (m : Nat) (e : Int) (h : Canon m e) :
    UnpackedFloat.mul B64 (.finite s m e h.pos) (.finite .positive (2^52) (-52) (by decide)) = .finite s m e h.pos := by
  simp only [UnpackedFloat.mul, sign_mul_pos]
  have := rwa_exact s m 52 e h.pos h.tgt_eq
  exact this

/-- `n as f64` for 0 < n < 2^53 is exact -/
theorem ofNat_unpacked (n : Nat) (h0 : 0 < n) (h : n < 2^53) :
    UnpackedFloat.ofNat B64 n =
      .finite .positive (n * 2^(52 - n.log2)) ((n.log2 : Int) - 52) (Nat.mul_pos h0 (Nat.two_pow_pos _)) := by
  have hn0 : n ≠ 0 := by omega
  have hl : n.log2 < 53 := (Nat.log2_lt hn0).2 h
  unfold UnpackedFloat.ofNat UnpackedFloat.ofInt normalize
  have : compare (n : Int) 0 = .gt := by
    rw [Int.compare_eq_gt]; omega
  simp only [this, Int.toNat_natCast]
  have ht : tgt n 0 = (n.log2 : Int) - 52 := by unfold tgt; omega
  rw [round_up .positive n 0 h0 (by rw [ht]; omega)]
  congr 1
  · rw [ht]; congr 2; omega

theorem canon_ofNat (n : Nat) (h0 : 0 < n) (h : n < 2^53) : Canon (n * 2^(52 - n.log2)) ((n.log2 : Int) - 52) := by
  have hn0 : n ≠ 0 := by omega
  have hl : n.log2 < 53 := (Nat.log2_lt hn0).2 h
  have : (n * 2^(52 - n.log2)).log2 = 52 := by rw [log2_mul_two_pow n _ hn0]; omega
  exact ⟨Nat.mul_pos h0 (Nat.two_pow_pos _), by unfold tgt; omega, by omega⟩

theorem unpack_ofBits_one : (Float.ofBits 0x3FF0000000000000).toModel.unpack = .finite .positive (2^52) (-52) (by decide) := by
  rw [unpack_bits, bits_ofBits_of _ (by decide)]
  exact unpackN_one

/-- `Float.ofScientific n false 0` (= `n as f64`) for 0 < n < 2^53 -/
theorem ofScientific_nat (n : Nat) (h0 : 0 < n) (h : n < 2^53) :
    Float.ofScientific n false 0 = mkF .positive (n * 2^(52 - n.log2)) ((n.log2 : Int) - 52) (canon_ofNat n h0 h).pos := by
  unfold Float.ofScientific
  rw [dif_pos ⟨h, by decide⟩]
  simp only [Bool.false_eq_true, if_false]
  have hp : Float.exactlyRepresentablePowersOfTen[0]'(by decide) = Float.ofBits 0x3FF0000000000000 := rfl
  rw [hp]
  show Float.mul _ _ = _
  unfold Float.mul
  show Float.ofModel (Float.Model.mul _ _) = _
  unfold Float.Model.mul
  rw [unpack_ofBits_one]
  have hu : (n.toUInt64.toFloat).toModel.unpack =
      .finite .positive (n * 2^(52 - n.log2)) ((n.log2 : Int) - 52) (canon_ofNat n h0 h).pos := by
    have e1 : n.toUInt64.toFloat = mkF .positive (n * 2^(52 - n.log2)) ((n.log2 : Int) - 52) (canon_ofNat n h0 h).pos := by
      unfold UInt64.toFloat Float.Model.ofUInt64 UnpackedFloat.ofUInt64 mkF
      have : n.toUInt64.toNat = n := by
        show (UInt64.ofNat n).toNat = n
        rw [UInt64.toNat_ofNat']; omega
      rw [this, ofNat_unpacked n h0 h]
    rw [e1, unpack_mkF _ _ _ (canon_ofNat n h0 h)]
  rw [hu, mul_one_canon _ _ _ (canon_ofNat n h0 h)]
  rfl

end F64
end Slac
