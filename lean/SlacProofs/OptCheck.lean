/-
  SlacProofs.OptCheck — acceptance by `check_variables_and_functions` (`checkVF`, SlacModel.Validate) is kept by
  both optimizer passes (`transform`, `fold`; SlacModel.Optimizer).  The environment `env` that `fold` executes
  against and the environment `env'` that validates may differ (nothing about `env` is used).
-/
import SlacProofs.OptStable
import SlacProofs.ValidateLemmas
set_option autoImplicit false
set_option linter.unusedSectionVars false
set_option linter.unusedSimpArgs false
namespace Slac.Opt
variable {N : Type} [NumOps N]

/-! ### what acceptance of a node says about its children -/

theorem andThen_ok_iff (a b : Except VErr Unit) : VErr.andThen a b = .ok () ↔ a = .ok () ∧ b = .ok () := by
  constructor
  · exact VErr.andThen_ok
  · rintro ⟨rfl, rfl⟩; rfl

theorem checkVF_unary (env : Env N) (r : Expr N) (op : Op) :
    checkVF env (.unary r op) = .ok () ↔ checkVF env r = .ok () := by
  simp only [checkVF]

theorem checkVF_binary (env : Env N) (l r : Expr N) (op : Op) :
    checkVF env (.binary l r op) = .ok () ↔ checkVF env l = .ok () ∧ checkVF env r = .ok () := by
  simp only [checkVF, andThen_ok_iff]

theorem checkVF_ternary (env : Env N) (l m r : Expr N) (op : Op) :
    checkVF env (.ternary l m r op) = .ok () ↔
      checkVF env l = .ok () ∧ checkVF env m = .ok () ∧ checkVF env r = .ok () := by
  simp only [checkVF, andThen_ok_iff, and_assoc]

theorem checkVF_array (env : Env N) (es : List (Expr N)) :
    checkVF env (.array es) = .ok () ↔ checkVFList env es = .ok () := by
  simp only [checkVF]

theorem checkVF_lit (env : Env N) (v : Value N) : checkVF env (.lit v) = .ok () := by
  simp only [checkVF]

/-- a call is accepted iff the environment knows the function with that many arguments and every argument is
    accepted -/
theorem checkVF_call (env : Env N) (n : Str) (ps : List (Expr N)) :
    checkVF env (.call n ps) = .ok () ↔
      (∃ p, env.fnExists n ps.length = .exist p) ∧ checkVFList env ps = .ok () := by
  simp only [checkVF]
  cases h : env.fnExists n ps.length with
  | exist p => simp only [FnRes.exist.injEq, exists_eq', true_and]
  | notFound =>
    constructor
    · intro h'; cases h'
    · rintro ⟨⟨p, hp⟩, _⟩; cases hp
  | wrongArity mn mx =>
    constructor
    · intro h'; cases h'
    · rintro ⟨⟨p, hp⟩, _⟩; cases hp

theorem checkVFList_nil (env : Env N) : checkVFList env ([] : List (Expr N)) = .ok () := by
  simp only [checkVFList]

theorem checkVFList_cons (env : Env N) (e : Expr N) (es : List (Expr N)) :
    checkVFList env (e :: es) = .ok () ↔ checkVF env e = .ok () ∧ checkVFList env es = .ok () := by
  simp only [checkVFList, andThen_ok_iff]

/-! ### `transform_ternary` -/

/-- `transform` keeps acceptance: a three-argument `if_then` call becomes a conditional over the same three
    arguments (the requirement that `if_then` exists is dropped, those on the arguments stay); a call that is kept
    keeps its name and its number of arguments. -/
theorem checkVF_transform (env : Env N) (e : Expr N) : checkVF env e = .ok () → checkVF env (transform e) = .ok () := by
  refine Expr.rec
    (motive_1 := fun e => checkVF env e = .ok () → checkVF env (transform e) = .ok ())
    (motive_2 := fun es => checkVFList env es = .ok () → checkVFList env (transformL es) = .ok ())
    ?_ ?_ ?_ ?_ ?_ ?_ ?_ ?_ ?_ e
  · intro r op ih h; simp only [transform, checkVF_unary] at h ⊢; exact ih h
  · intro l r op ihl ihr h; simp only [transform, checkVF_binary] at h ⊢; exact ⟨ihl h.1, ihr h.2⟩
  · intro l m r op ihl ihm ihr h; simp only [transform, checkVF_ternary] at h ⊢
    exact ⟨ihl h.1, ihm h.2.1, ihr h.2.2⟩
  · intro es ih h; simp only [transform, checkVF_array] at h ⊢; exact ih h
  · intro v h; exact h
  · intro n h; exact h
  · intro n ps ih h
    rw [checkVF_call] at h
    simp only [transform]
    split
    · split
      · simp only [checkVFList_cons, checkVFList_nil, and_true] at h
        rw [checkVF_ternary]; exact h.2
      · rw [checkVF_call, transformL_length]; exact ⟨h.1, ih h.2⟩
    · rw [checkVF_call, transformL_length]; exact ⟨h.1, ih h.2⟩
  · intro h; exact h
  · intro e es ihe ihes h; simp only [transformL, checkVFList_cons] at h ⊢; exact ⟨ihe h.1, ihes h.2⟩

/-! ### `fold_constants` -/

theorem checkVF_exec (env env' : Env N) (e : Expr N) (h : checkVF env' e = .ok ()) :
    checkVF env' (exec env e).tree = .ok () := by
  rcases exec_tree env e with h' | ⟨v, h'⟩ <;> rw [h']
  · exact h
  · exact checkVF_lit env' v

/-- `fold` keeps acceptance, also in the partially rewritten tree an aborted pass leaves behind: a node is replaced
    by a literal, a literal-condition conditional by one of its branches, or the children are rewritten (a call
    keeping its name and its number of arguments). -/
theorem checkVF_fold (env env' : Env N) (e : Expr N) :
    checkVF env' e = .ok () → checkVF env' (fold env e).tree = .ok () := by
  refine Expr.rec
    (motive_1 := fun e => checkVF env' e = .ok () → checkVF env' (fold env e).tree = .ok ())
    (motive_2 := fun es => checkVFList env' es = .ok () → checkVFList env' (foldL env es).1 = .ok ())
    ?_ ?_ ?_ ?_ ?_ ?_ ?_ ?_ ?_ e
  · intro r op ih h
    simp only [fold]
    split
    · exact checkVF_exec env env' _ h
    · simp only [checkVF_unary] at h ⊢; exact ih h
  · intro l r op ihl ihr h
    simp only [fold]
    split
    · exact checkVF_exec env env' _ h
    · simp only [checkVF_binary] at h
      split <;> simp only [checkVF_binary]
      · exact ⟨ihl h.1, h.2⟩
      · exact ⟨ihl h.1, ihr h.2⟩
  · intro l m r op ihl ihm ihr h
    simp only [checkVF_ternary] at h
    simp only [fold]
    split
    · simp only; split
      · exact h.2.1
      · exact h.2.2
    · split
      · simp only [checkVF_ternary]; exact ⟨ihl h.1, h.2.1, h.2.2⟩
      · split <;> simp only [checkVF_ternary]
        · exact ⟨ihl h.1, ihm h.2.1, h.2.2⟩
        · exact ⟨ihl h.1, ihm h.2.1, ihr h.2.2⟩
  · intro es ih h
    simp only [fold]
    split
    · exact checkVF_exec env env' _ h
    · simp only [checkVF_array] at h ⊢; exact ih h
  · intro v h; exact h
  · intro n h; exact h
  · intro n ps ih h
    simp only [fold]
    split
    · split
      · exact checkVF_exec env env' _ h
      · exact h
    · rw [checkVF_call] at h
      simp only [checkVF_call, foldL_length]
      exact ⟨h.1, ih h.2⟩
  · intro h; exact h
  · intro e es ihe ihes h
    simp only [checkVFList_cons] at h
    simp only [foldL]
    split <;> simp only [checkVFList_cons]
    · exact ⟨ihe h.1, h.2⟩
    · exact ⟨ihe h.1, ihes h.2⟩

/-! ### `optimize` -/

/-- the tree the caller holds after `optimize env` returned — `Ok` or `Err` — is accepted by every environment
    `env'` that accepted the original -/
theorem checkVF_optimize (env env' : Env N) :
    ∀ (fuel : Nat) (e e' : Expr N), checkVF env' e = .ok () → (optimize env fuel e).tree? = some e' →
      checkVF env' e' = .ok () := by
  intro fuel
  induction fuel with
  | zero => intro e e' _ h; simp only [optimize, OptRes.tree?] at h; cases h
  | succ fuel ih =>
    intro e e' hc h
    have hp : checkVF env' (fold env (transform e)).tree = .ok () :=
      checkVF_fold env env' _ (checkVF_transform env' e hc)
    simp only [optimize] at h
    split at h
    · simp only [OptRes.tree?, Option.some.injEq] at h; subst h; exact hp
    · split at h
      · exact ih _ _ hp h
      · simp only [OptRes.tree?, Option.some.injEq] at h; subst h; exact hp

end Slac.Opt
