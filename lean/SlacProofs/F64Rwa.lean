/-
  SlacProofs.F64Rwa — core's `roundWithAccuracy` on fractions.  `rwaFrac s A B e` is the model's rounding of the
  value (A/B)·2^e (integer part A/B with the accuracy of the remainder);
  * `rwaFrac_eq`: closed form (shift to the target exponent = divide, round to nearest even, renormalise);
  * `rwaFrac_scale`, `rwaFrac_shift`: common factors and powers of two moved between numerator and exponent do not
    change the result;  `rwaFrac_congr`: **the result depends only on the value** (for descriptions whose exponent
    is at most the target exponent, i.e. where rounding only drops bits).
  This is the basis of the `float(str(x)) = x` proof: all four code paths of `Float.ofScientific` are `rwaFrac`s.
-/
import SlacProofs.F64Round
set_option autoImplicit false
namespace Slac
namespace F64
open Float.Model Float.Model.UnpackedFloat

/-- extended mantissa of a fraction A/B: integer part with the accuracy of the remainder -/
def emFrac (A B : Nat) : ExtendedMantissa :=
  ExtendedMantissa.ofMantissaAndAccuracy (A / B) (accuracyOfFraction (A % B) B)

theorem emFrac_shiftOne (A B : Nat) (hB : 0 < B) : (emFrac A B).shiftRightOne = emFrac A (B * 2) := by
  have hdm := Nat.div_add_mod A B
  have hr := Nat.mod_lt A hB
  have hq : A / (B * 2) = A / B / 2 := (Nat.div_div_eq_div_mul A B 2).symm
  have hdm2 := Nat.div_add_mod (A / B) 2
  have hr2 : A % (B * 2) = (A / B % 2) * B + A % B := by
    have h1 := Nat.div_add_mod A (B * 2)
    have h2 := Nat.mod_lt A (show 0 < B * 2 by omega)
    rw [hq] at h1
    -- A = B*2*(Q/2) + A%(B*2) and A = B*(2*(Q/2) + Q%2) + A%B
    have h3 : B * (A / B) = B * (2 * (A / B / 2)) + B * (A / B % 2) := by rw [← Nat.mul_add, hdm2]
    have h4 : B * 2 * (A / B / 2) = B * (2 * (A / B / 2)) := by rw [Nat.mul_assoc]
    rw [Nat.mul_comm (A / B % 2) B]
    omega
  unfold emFrac ExtendedMantissa.shiftRightOne
  rw [hq, hr2]
  rcases Nat.mod_two_eq_zero_or_one (A / B) with h0 | h1
  · rw [h0, Nat.zero_mul, Nat.zero_add]
    unfold accuracyOfFraction
    by_cases hR : A % B = 0
    · simp [hR, ExtendedMantissa.ofMantissaAndAccuracy, h0]
    · have hlt : compare (2 * (A % B)) (B * 2) = .lt := by rw [Nat.compare_eq_lt]; omega
      rw [if_neg hR, if_neg hR, hlt]
      rcases Nat.lt_trichotomy (2 * (A % B)) B with hc | hc | hc
      · have : compare (2 * (A % B)) B = .lt := by rw [Nat.compare_eq_lt]; exact hc
        simp [this, ExtendedMantissa.ofMantissaAndAccuracy, h0]
      · have : compare (2 * (A % B)) B = .eq := by rw [Nat.compare_eq_eq]; exact hc
        simp [this, ExtendedMantissa.ofMantissaAndAccuracy, h0]
      · have : compare (2 * (A % B)) B = .gt := by rw [Nat.compare_eq_gt]; exact hc
        simp [this, ExtendedMantissa.ofMantissaAndAccuracy, h0]
  · rw [h1, Nat.one_mul]
    unfold accuracyOfFraction
    have hne : B + A % B ≠ 0 := by omega
    rw [if_neg hne]
    by_cases hR : A % B = 0
    · have : compare (2 * (B + A % B)) (B * 2) = .eq := by rw [Nat.compare_eq_eq]; omega
      rw [hR, Nat.add_zero] at this ⊢
      rw [this]
      simp [ExtendedMantissa.ofMantissaAndAccuracy, h1]
    · have hgt : compare (2 * (B + A % B)) (B * 2) = .gt := by rw [Nat.compare_eq_gt]; omega
      rw [if_neg hR, hgt]
      rcases Nat.lt_trichotomy (2 * (A % B)) B with hc | hc | hc
      · have : compare (2 * (A % B)) B = .lt := by rw [Nat.compare_eq_lt]; exact hc
        simp [this, ExtendedMantissa.ofMantissaAndAccuracy, h1]
      · have : compare (2 * (A % B)) B = .eq := by rw [Nat.compare_eq_eq]; exact hc
        simp [this, ExtendedMantissa.ofMantissaAndAccuracy, h1]
      · have : compare (2 * (A % B)) B = .gt := by rw [Nat.compare_eq_gt]; exact hc
        simp [this, ExtendedMantissa.ofMantissaAndAccuracy, h1]

theorem emFrac_shift (A B : Nat) (hB : 0 < B) (j : Nat) : (emFrac A B) >>> j = emFrac A (B * 2^j) := by
  induction j with
  | zero => simp [shiftRight_zero]
  | succ j ih =>
    rw [shiftRight_succ, ih, emFrac_shiftOne A _ (Nat.mul_pos hB (Nat.two_pow_pos j)), Nat.pow_succ, Nat.mul_assoc]

theorem shift_mantissa (em : ExtendedMantissa) (j : Nat) : (em >>> j).mantissa = em.mantissa / 2^j := by
  induction j with
  | zero => simp [shiftRight_zero]
  | succ j ih =>
    rw [shiftRight_succ]
    show (em >>> j).mantissa / 2 = _
    rw [ih, Nat.div_div_eq_div_mul, Nat.pow_succ]

/-- round-to-nearest-even of the fraction A/B to an integer -/
def rneFrac (A B : Nat) : Nat :=
  if 2 * (A % B) < B then A / B else if 2 * (A % B) = B then A / B + A / B % 2 else A / B + 1

theorem emFrac_rounded (A B : Nat) (hB : 0 < B) : (emFrac A B).roundedMantissa = rneFrac A B := by
  have hr := Nat.mod_lt A hB
  unfold emFrac ExtendedMantissa.roundedMantissa rneFrac accuracyOfFraction
  by_cases hR : A % B = 0
  · rw [if_pos hR, hR, if_pos (by omega)]; rfl
  · rw [if_neg hR]
    rcases Nat.lt_trichotomy (2 * (A % B)) B with hc | hc | hc
    · have : compare (2 * (A % B)) B = .lt := by rw [Nat.compare_eq_lt]; exact hc
      rw [this, if_pos hc]; rfl
    · have : compare (2 * (A % B)) B = .eq := by rw [Nat.compare_eq_eq]; exact hc
      rw [this, if_neg (by omega), if_pos hc]; rfl
    · have : compare (2 * (A % B)) B = .gt := by rw [Nat.compare_eq_gt]; exact hc
      rw [this, if_neg (by omega), if_neg (by omega)]; rfl

/-- `roundWithAccuracy` applied to the fraction A/B scaled by 2^e -/
def rwaFrac (s : Sign) (A B : Nat) (e : Int) : UnpackedFloat :=
  roundWithAccuracy B64 s (A / B) e (accuracyOfFraction (A % B) B)

/-- the two steps of `roundWithAccuracy` on a fraction, in closed form -/
theorem rwaFrac_eq (s : Sign) (A B : Nat) (e : Int) (hB : 0 < B) :
    rwaFrac s A B e =
      (let j := (tgt (A / B) e - e).toNat
       let r := rneFrac A (B * 2^j)
       let e₁ := e + (j : Int)
       let j₂ := (tgt r e₁ - e₁).toNat
       if h : r / 2^j₂ = 0 then .zero s else .finite s (r / 2^j₂) (e₁ + (j₂ : Int)) (Nat.pos_of_ne_zero h)) := by
  unfold rwaFrac roundWithAccuracy shiftToTargetExponent shiftToExponent
  simp only [targetExponent_eq]
  have h1 : ExtendedMantissa.ofMantissaAndAccuracy (A / B) (accuracyOfFraction (A % B) B) = emFrac A B := rfl
  have h2 := emFrac_rounded A (B * 2^(tgt (A / B) e - e).toNat) (Nat.mul_pos hB (Nat.two_pow_pos _))
  simp only [h1, emFrac_shift A B hB, h2]
  simp only [shift_mantissa, ExtendedMantissa.ofMantissaAndAccuracy]

theorem aof_scale (R B t : Nat) (ht : 0 < t) : accuracyOfFraction (R * t) (B * t) = accuracyOfFraction R B := by
  unfold accuracyOfFraction
  by_cases hR : R = 0
  · simp [hR]
  · have : R * t ≠ 0 := Nat.mul_ne_zero hR (by omega)
    rw [if_neg hR, if_neg this]
    congr 1
    rcases Nat.lt_trichotomy (2 * R) B with hc | hc | hc
    · have h1 : compare (2 * R) B = .lt := by rw [Nat.compare_eq_lt]; exact hc
      have h2 : compare (2 * (R * t)) (B * t) = .lt := by
        rw [Nat.compare_eq_lt, ← Nat.mul_assoc]; exact Nat.mul_lt_mul_of_pos_right hc ht
      rw [h1, h2]
    · have h1 : compare (2 * R) B = .eq := by rw [Nat.compare_eq_eq]; exact hc
      have h2 : compare (2 * (R * t)) (B * t) = .eq := by rw [Nat.compare_eq_eq, ← Nat.mul_assoc, hc]
      rw [h1, h2]
    · have h1 : compare (2 * R) B = .gt := by rw [Nat.compare_eq_gt]; exact hc
      have h2 : compare (2 * (R * t)) (B * t) = .gt := by
        rw [Nat.compare_eq_gt, ← Nat.mul_assoc]; exact Nat.mul_lt_mul_of_pos_right hc ht
      rw [h1, h2]

/-- a common factor of numerator and denominator does not matter -/
theorem rwaFrac_scale (s : Sign) (A B t : Nat) (e : Int) (ht : 0 < t) :
    rwaFrac s (A * t) (B * t) e = rwaFrac s A B e := by
  unfold rwaFrac
  rw [Nat.mul_div_mul_right _ _ ht, Nat.mul_mod_mul_right, aof_scale _ _ _ ht]

theorem rneFrac_scale (A B t : Nat) (ht : 0 < t) : rneFrac (A * t) (B * t) = rneFrac A B := by
  unfold rneFrac
  rw [Nat.mul_div_mul_right _ _ ht, Nat.mul_mod_mul_right]
  have h1 : (2 * (A % B * t) < B * t) ↔ (2 * (A % B) < B) := by
    rw [← Nat.mul_assoc]; exact Nat.mul_lt_mul_right ht
  have h2 : (2 * (A % B * t) = B * t) ↔ (2 * (A % B) = B) := by
    rw [← Nat.mul_assoc]; exact Nat.mul_right_cancel_iff ht
  simp only [h1, h2]

theorem log2_div_mul (A B k : Nat) (hB : 0 < B) (hQ : 1 ≤ A / B) : (A * 2^k / B).log2 = (A / B).log2 + k := by
  have hq0 : A / B ≠ 0 := by omega
  have hlo : A / B * 2^k ≤ A * 2^k / B := by
    rw [Nat.le_div_iff_mul_le hB]
    calc A / B * 2^k * B = (A / B * B) * 2^k := by ac_rfl
      _ ≤ A * 2^k := Nat.mul_le_mul_right _ (Nat.div_mul_le_self A B)
  have hhi : A * 2^k / B < (A / B + 1) * 2^k := by
    rw [Nat.div_lt_iff_lt_mul hB]
    have : A < (A / B + 1) * B := by
      have := Nat.div_add_mod A B; have := Nat.mod_lt A hB
      rw [Nat.add_mul, Nat.one_mul, Nat.mul_comm]; omega
    calc A * 2^k < (A / B + 1) * B * 2^k := Nat.mul_lt_mul_of_pos_right this (Nat.two_pow_pos k)
      _ = (A / B + 1) * 2^k * B := by ac_rfl
  have h1 : 2^((A / B).log2 + k) ≤ A * 2^k / B := by
    rw [Nat.pow_add]
    exact Nat.le_trans (Nat.mul_le_mul_right _ (Nat.log2_self_le hq0)) hlo
  have h2 : A * 2^k / B < 2^((A / B).log2 + k + 1) := by
    have : A / B + 1 ≤ 2^((A / B).log2 + 1) := Nat.lt_log2_self
    calc A * 2^k / B < (A / B + 1) * 2^k := hhi
      _ ≤ 2^((A / B).log2 + 1) * 2^k := Nat.mul_le_mul_right _ this
      _ = 2^((A / B).log2 + k + 1) := by rw [← Nat.pow_add]; congr 1; omega
  exact log2_eq_of _ _ h1 h2

theorem tgt_div_mul (A B k : Nat) (e : Int) (hB : 0 < B) (he : e ≤ tgt (A / B) e) :
    tgt (A * 2^k / B) (e - k) = tgt (A / B) e := by
  by_cases hQ : 1 ≤ A / B
  · unfold tgt; rw [log2_div_mul A B k hB hQ]; push_cast; omega
  · have hq0 : A / B = 0 := Nat.lt_one_iff.1 (Nat.not_le.1 hQ)
    rw [hq0] at he ⊢
    have hl0 : Nat.log2 0 = 0 := Nat.log2_zero
    have he' : e ≤ -1074 := by unfold tgt at he; rw [hl0] at he; omega
    have hAB : A < B := by
      rcases Nat.lt_or_ge A B with h | h
      · exact h
      · have := Nat.div_pos h hB; omega
    have hlt : A * 2^k / B < 2^k := by
      rw [Nat.div_lt_iff_lt_mul hB, Nat.mul_comm (2^k) B]
      exact Nat.mul_lt_mul_of_pos_right hAB (Nat.two_pow_pos k)
    have hlog : (A * 2^k / B).log2 ≤ k := by
      by_cases h0 : A * 2^k / B = 0
      · rw [h0, hl0]; omega
      · have := (Nat.log2_lt h0).2 hlt; omega
    unfold tgt; rw [hl0]; omega

/-- moving a power of two from the exponent into the numerator does not matter (when bits are only dropped) -/
theorem rwaFrac_shift (s : Sign) (A B k : Nat) (e : Int) (hB : 0 < B) (he : e ≤ tgt (A / B) e) :
    rwaFrac s (A * 2^k) B (e - k) = rwaFrac s A B e := by
  rw [rwaFrac_eq s _ B _ hB, rwaFrac_eq s A B e hB]
  have hT := tgt_div_mul A B k e hB he
  simp only [hT]
  have hj : (tgt (A / B) e - (e - (k:Int))).toNat = (tgt (A / B) e - e).toNat + k := by omega
  have hr : rneFrac (A * 2^k) (B * 2^((tgt (A / B) e - e).toNat + k)) = rneFrac A (B * 2^(tgt (A / B) e - e).toNat) := by
    rw [Nat.pow_add, ← Nat.mul_assoc, rneFrac_scale _ _ _ (Nat.two_pow_pos k)]
  have he1 : e - (k:Int) + (((tgt (A / B) e - e).toNat + k : Nat) : Int) = e + ((tgt (A / B) e - e).toNat : Int) := by
    push_cast; omega
  simp only [hj, hr, he1]

/-- **the rounding depends only on the value**: two descriptions A·2^e/B = A'·2^e'/B' with enough bits round alike -/
theorem rwaFrac_congr (s : Sign) (A B A' B' : Nat) (e e' e₀ : Int) (hB : 0 < B) (hB' : 0 < B')
    (he : e ≤ tgt (A / B) e) (he' : e' ≤ tgt (A' / B') e')
    (h0 : e₀ ≤ e) (h0' : e₀ ≤ e')
    (hval : A * B' * 2^(e - e₀).toNat = A' * B * 2^(e' - e₀).toNat) :
    rwaFrac s A B e = rwaFrac s A' B' e' := by
  have h1 := rwaFrac_shift s A B (e - e₀).toNat e hB he
  have h2 := rwaFrac_shift s A' B' (e' - e₀).toNat e' hB' he'
  have e1 : e - ((e - e₀).toNat : Int) = e₀ := by omega
  have e2 : e' - ((e' - e₀).toNat : Int) = e₀ := by omega
  rw [e1] at h1; rw [e2] at h2
  rw [← h1, ← h2, ← rwaFrac_scale s _ B B' e₀ hB', ← rwaFrac_scale s (A' * _) B' B e₀ hB]
  congr 1
  · calc A * 2^(e - e₀).toNat * B' = A * B' * 2^(e - e₀).toNat := by ac_rfl
      _ = A' * B * 2^(e' - e₀).toNat := hval
      _ = A' * 2^(e' - e₀).toNat * B := by ac_rfl
  · exact Nat.mul_comm B B'

end F64
end Slac
