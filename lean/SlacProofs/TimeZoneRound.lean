/-
  SlacProofs.TimeZoneRound — chrono's RFC 3339 / RFC 2822 parsers invert the printers of SlacModel.TimeRfc AT ANY
  WHOLE-MINUTE OFFSET below 24 h (`rfc3339At off`, `rfc2822At off`): the parsed UTC date-time is the printed local
  date-time shifted by `−off`.  Generalises SlacProofs.TimeRfcRound (offset +00:00).
-/
import SlacProofs.TimeRfcRound
set_option autoImplicit false
set_option linter.unusedSimpArgs false
set_option linter.unusedVariables false
namespace Slac.Time
open Stdlib TimeRfc

/-! ### the offset text -/

/-- a whole-minute offset below 24 h prints as sign, `HH`, [`:`], `MM` with no rounding -/
theorem fmtOffset_colon (off : Int) (h1 : -86400 < off) (h2 : off < 86400) (hm : off % 60 = 0) :
    fmtOffset true off = offsetText (decide (off < 0)) (off.natAbs / 3600) (off.natAbs / 60 % 60) := by
  have e1 : (off.natAbs + 30) / 60 / 60 = off.natAbs / 3600 := by omega
  have e2 : (off.natAbs + 30) / 60 % 60 = off.natAbs / 60 % 60 := by omega
  have b1 : off.natAbs / 3600 < 100 := by omega
  have b2 : off.natAbs / 60 % 60 < 100 := by omega
  by_cases hn : off < 0
  · simp only [fmtOffset, offsetText, e1, e2, two, pad2_spec _ b1, pad2_spec _ b2, hn, if_true, decide_true, List.cons_append,
      List.nil_append]
  · simp only [fmtOffset, offsetText, e1, e2, two, pad2_spec _ b1, pad2_spec _ b2, hn, if_false, if_true, decide_false, List.cons_append,
      List.nil_append, Bool.false_eq_true]

/-- the signed value the parser reads back from that text -/
theorem offset_value (off : Int) (hm : off % 60 = 0) :
    (if decide (off < 0) = true then -((off.natAbs / 3600 * 3600 + off.natAbs / 60 % 60 * 60 : Nat) : Int)
     else ((off.natAbs / 3600 * 3600 + off.natAbs / 60 % 60 * 60 : Nat) : Int)) = off := by
  by_cases hn : off < 0
  · simp only [hn, decide_true, if_true]; omega
  · simp only [hn, decide_false, Bool.false_eq_true, if_false]; omega

/-! ### RFC 3339 -/

/-- fraction as printed by `autoSi` (nothing or `.mmm`), then an explicit offset `±hh:mm` -/
theorem rfc3339Tail_frac_offset (date : Int) (h mi s milli : Nat) (hd1 : -719528 ≤ date) (hd2 : date ≤ 2932896)
    (hh : h < 24) (hmi : mi < 60) (hs : s < 60) (hml : milli < 1000) (neg : Bool) (oh om : Nat) (hoh : oh < 24) (hom : om < 60) :
    rfc3339Tail date h mi s (autoSi milli ++ offsetText neg oh om) =
      .ok (shiftNDT ⟨date, ⟨h * 3600 + mi * 60 + s, milli * 1000000⟩⟩
        (if neg then -((oh * 3600 + om * 60 : Nat) : Int) else ((oh * 3600 + om * 60 : Nat) : Int))) := by
  by_cases h0 : milli = 0
  · subst h0
    have := rfc3339Tail_offset date h mi s hd1 hd2 hh hmi (by omega) neg oh om hoh hom
    have h60 : ¬ s = 60 := by omega
    have hmin : min s 59 = s := by omega
    simp only [h60, hmin, if_false] at this
    simpa [autoSi] using this
  · have hr : ¬ (h ≥ 24 ∨ mi ≥ 60 ∨ s > 60) := by omega
    have h60 : ¬ s = 60 := by omega
    have hmin : min s 59 = s := by omega
    have hto := timezoneOffset_text neg oh om (by omega) hom
    have hb : (milli == 0) = false := by simp [h0]
    have e : milli / 100 * 100 + milli / 10 % 10 * 10 + milli % 10 = milli := by omega
    have hfrac : ∀ (c0 : Char) (r : Str), digit? c0 = none →
        fracPart ('.' :: (milli / 100).digitChar :: (milli / 10 % 10).digitChar :: (milli % 10).digitChar :: c0 :: r) =
          .ok (c0 :: r, milli * 1000000) := by
      intro c0 r hc
      have hd : isDigit c0 = false := by simp [isDigit, hc]
      simp only [fracPart, nanosecond,
        number_3_stop _ _ _ (by omega : milli / 100 < 10) (by omega : milli / 10 % 10 < 10) (by omega : milli % 10 < 10) c0 r hc 9 (by omega), e]
      simp [List.dropWhile, hd]
    cases neg
    · simp only [offsetText, Bool.false_eq_true, if_false] at hto
      have hv : validOffset ((oh * 3600 + om * 60 : Nat) : Int) = true := by simp [validOffset]; omega
      have hsub := subOffset_shift ⟨date, ⟨h * 3600 + mi * 60 + s, milli * 1000000⟩⟩
        ((oh * 3600 + om * 60 : Nat) : Int) (yearInRange_near _ (by simp only [shiftNDT]; omega) (by simp only [shiftNDT]; omega))
      simp only [rfc3339Tail, autoSi, hb, pad3_spec milli hml, offsetText, Bool.false_eq_true, if_false, List.cons_append,
        List.nil_append, hfrac '+' _ (by decide), bind, Except.bind, hr, h60, hmin, hto, hv, Bool.not_true, ne_eq,
        not_true_eq_false, if_true, Nat.zero_add, hsub]
    · simp only [offsetText, if_true] at hto
      have hv : validOffset (-((oh * 3600 + om * 60 : Nat) : Int)) = true := by simp [validOffset]; omega
      have hsub := subOffset_shift ⟨date, ⟨h * 3600 + mi * 60 + s, milli * 1000000⟩⟩
        (-((oh * 3600 + om * 60 : Nat) : Int)) (yearInRange_near _ (by simp only [shiftNDT]; omega) (by simp only [shiftNDT]; omega))
      simp only [rfc3339Tail, autoSi, hb, pad3_spec milli hml, offsetText, if_true, Bool.false_eq_true, if_false, List.cons_append,
        List.nil_append, hfrac '-' _ (by decide), bind, Except.bind, hr, h60, hmin, hto, hv, Bool.not_true, ne_eq,
        not_true_eq_false, Nat.zero_add, hsub]

theorem rfc3339At_text (off : Int) (t : DT) (hms : t.ms < 86400000) (h0 : 0 ≤ t.year) (h1 : t.year ≤ 9999) :
    rfc3339At off t = rfc3339Head t.year.toNat t.month t.day t.hour t.minute t.second (autoSi t.milli ++ fmtOffset true off) := by
  obtain ⟨_, _, _, hm1, hm12, hd1, hd31⟩ := dt_date t h0 h1
  obtain ⟨hh, hmi, hs, _⟩ := dt_fields t hms
  have hy : 0 ≤ t.year ∧ t.year ≤ 9999 := ⟨h0, h1⟩
  simp only [rfc3339At, year3339, hy, and_self, if_true, two, TimeRfc.hms, pad4_spec _ (by omega : t.year.toNat < 10000),
    pad2_spec _ (by omega : t.month < 100), pad2_spec _ (by omega : t.day < 100), pad2_spec _ (by omega : t.hour < 100),
    pad2_spec _ (by omega : t.minute < 100), pad2_spec _ (by omega : t.second < 100), rfc3339Head,
    List.cons_append, List.nil_append, List.append_assoc]

/-- `parse_from_rfc3339 ∘ to_rfc3339` at a whole-minute offset: the UTC date-time `off` seconds before the printed one -/
theorem rfc3339Utc_rfc3339At (off : Int) (t : DT) (hms : t.ms < 86400000) (h0 : 0 ≤ t.year) (h1 : t.year ≤ 9999)
    (ho1 : -86400 < off) (ho2 : off < 86400) (hm : off % 60 = 0) :
    rfc3339Utc (rfc3339At off t) = .ok (shiftNDT (toNDT t) off) := by
  obtain ⟨hval, hdays, hyr, hm1, hm12, hd1, hd31⟩ := dt_date t h0 h1
  obtain ⟨hh, hmi, hs, hml, hsec, _⟩ := dt_fields t hms
  have hy : ((t.year.toNat : Nat) : Int) = t.year := by omega
  have hr := days_range0 t.year t.month t.day ((validDate_iff _ _ _).1 hval).2 h0 h1
  rw [hdays] at hr
  rw [rfc3339At_text off t hms h0 h1, rfc3339Utc_head _ _ _ _ _ _ (by omega) (by omega) (by omega) (by omega) (by omega) (by omega),
    hy, if_pos hval, hdays, fmtOffset_colon off ho1 ho2 hm,
    rfc3339Tail_frac_offset _ _ _ _ _ hr.1 hr.2 hh hmi hs hml _ _ _ (by omega) (by omega), offset_value off hm, hsec]
  rfl

/-! ### RFC 2822 -/

/-- `±hhmm` -/
def offsetText2822 (neg : Bool) (oh om : Nat) : Str :=
  (if neg then '-' else '+') :: (oh / 10).digitChar :: (oh % 10).digitChar :: (om / 10).digitChar :: [(om % 10).digitChar]

theorem fmtOffset_nocolon (off : Int) (h1 : -86400 < off) (h2 : off < 86400) (hm : off % 60 = 0) :
    fmtOffset false off = offsetText2822 (decide (off < 0)) (off.natAbs / 3600) (off.natAbs / 60 % 60) := by
  have e1 : (off.natAbs + 30) / 60 / 60 = off.natAbs / 3600 := by omega
  have e2 : (off.natAbs + 30) / 60 % 60 = off.natAbs / 60 % 60 := by omega
  have b1 : off.natAbs / 3600 < 100 := by omega
  have b2 : off.natAbs / 60 % 60 < 100 := by omega
  by_cases hn : off < 0
  · simp only [fmtOffset, offsetText2822, e1, e2, two, pad2_spec _ b1, pad2_spec _ b2, hn, if_true, if_false, decide_true,
      List.cons_append, List.nil_append, Bool.false_eq_true]
  · simp only [fmtOffset, offsetText2822, e1, e2, two, pad2_spec _ b1, pad2_spec _ b2, hn, if_false, if_true, decide_false,
      List.cons_append, List.nil_append, Bool.false_eq_true]

theorem timezoneOffset2822_text (neg : Bool) (oh om : Nat) (hoh : oh < 100) (hom : om < 60) :
    timezoneOffset2822 (offsetText2822 neg oh om) =
      .ok ([], if neg then -((oh * 3600 + om * 60 : Nat) : Int) else ((oh * 3600 + om * 60 : Nat) : Int)) := by
  have e1 : oh / 10 * 10 + oh % 10 = oh := by omega
  have e2 : om / 10 * 10 + om % 10 = om := by omega
  have h5 : om / 10 ≤ 5 := by omega
  have hl : ¬ utf8Len [(om / 10).digitChar, (om % 10).digitChar] < 2 := by
    have := length_le_utf8Len [(om / 10).digitChar, (om % 10).digitChar]; simp at this; omega
  cases neg
  · simp [offsetText2822, timezoneOffset2822, List.takeWhile, (by decide : isAsciiAlpha '+' = false), timezoneOffset,
      twoDigits_dc _ _ (by omega : oh / 10 < 10) (by omega : oh % 10 < 10), consumeColon,
      twoDigits_dc _ _ (by omega : om / 10 < 10) (by omega : om % 10 < 10), hl, h5, e1, e2]
  · simp [offsetText2822, timezoneOffset2822, List.takeWhile, (by decide : isAsciiAlpha '-' = false), timezoneOffset,
      twoDigits_dc _ _ (by omega : oh / 10 < 10) (by omega : oh % 10 < 10), consumeColon,
      twoDigits_dc _ _ (by omega : om / 10 < 10) (by omega : om % 10 < 10), hl, h5, e1, e2]

theorem skipComments_nil (n : Nat) : skipComments n [] = [] := by
  cases n with
  | zero => rfl
  | succ k => simp [skipComments, comment2822, trimStart]

theorem rfcZone_offset (p : Parsed) (hp : p.offset = none) (neg : Bool) (oh om : Nat) (hoh : oh < 24) (hom : om < 60) :
    rfcZone (offsetText2822 neg oh om) p =
      .ok ([], { p with offset := some (if neg then -((oh * 3600 + om * 60 : Nat) : Int) else ((oh * 3600 + om * 60 : Nat) : Int)) }) := by
  have h1 := timezoneOffset2822_text neg oh om (by omega) hom
  have h2 : inR i32Min i32Max (if neg then -((oh * 3600 + om * 60 : Nat) : Int) else ((oh * 3600 + om * 60 : Nat) : Int)) = true := by
    cases neg <;> simp [inR, i32Min, i32Max] <;> omega
  simp only [rfcZone, bind, Except.bind, h1, Parsed.setOffset, h2, if_true, hp, setIf, Except.map, pure, Except.pure, skipComments_nil,
    List.length_nil]

/-- the text `to_rfc2822` prints, from its components and the zone text -/
def rfc2822TextZ (w d m y h mi s : Nat) (zone : Str) : Str :=
  weekdayName w ++ ',' :: ' ' :: (Nat.toDigits 10 d ++ ' ' :: (monthName m ++ ' ' ::
    (y / 1000).digitChar :: (y / 100 % 10).digitChar :: (y / 10 % 10).digitChar :: (y % 10).digitChar :: ' ' ::
    (h / 10).digitChar :: (h % 10).digitChar :: ':' :: (mi / 10).digitChar :: (mi % 10).digitChar :: ':' ::
    (s / 10).digitChar :: (s % 10).digitChar :: ' ' :: zone))

theorem parseRfc2822_textZ (w d m y h mi s : Nat) (hw : w < 7) (hd1 : 1 ≤ d) (hd : d ≤ 31) (hm1 : 1 ≤ m) (hm : m ≤ 12)
    (hy : y < 10000) (hh : h < 24) (hmi : mi < 60) (hs : s < 60) (neg : Bool) (oh om : Nat) (hoh : oh < 24) (hom : om < 60) :
    parseRfc2822 (rfc2822TextZ w d m y h mi s (offsetText2822 neg oh om)) {} =
      .ok ([], { weekday := some w, day := some d, month := some m, year := some (y : Int), hourDiv12 := some (h / 12),
                 hourMod12 := some (h % 12), minute := some mi, second := some s,
                 offset := some (if neg then -((oh * 3600 + om * 60 : Nat) : Int) else ((oh * 3600 + om * 60 : Nat) : Int)) }) := by
  have hsw : Parsed.setWeekday {} w = .ok { weekday := some w } := rfl
  have sc1 : ∀ r : Str, scanSpace (' ' :: (h / 10).digitChar :: r) = .ok ((h / 10).digitChar :: r) := by
    intro r; simp [scanSpace, (by decide : isWs ' ' = true), trimStart_dc _ (by omega : h / 10 < 10)]
  have sc2 : scanSpace (' ' :: offsetText2822 neg oh om) = .ok (offsetText2822 neg oh om) := by
    cases neg <;> simp [offsetText2822, scanSpace, (by decide : isWs ' ' = true), trimStart, List.dropWhile,
      (by decide : isWs '+' = false), (by decide : isWs '-' = false)]
  have ts : ∀ r : Str, trimStart (' ' :: (Nat.toDigits 10 d ++ r)) = Nat.toDigits 10 d ++ r := by
    intro r
    have : trimStart (' ' :: (Nat.toDigits 10 d ++ r)) = trimStart (Nat.toDigits 10 d ++ r) := by
      simp [trimStart, List.dropWhile, (by decide : isWs ' ' = true)]
    rw [this, trimStart_digits d (by omega)]
  have hz := rfcZone_offset { weekday := some w, day := some d, month := some m, year := some (y : Int), hourDiv12 := some (h / 12), hourMod12 := some (h % 12), minute := some mi, second := some s } rfl neg oh om hoh hom
  simp only [parseRfc2822, rfc2822TextZ, bind, Except.bind, rfcDow_name w hw, hsw, Except.map, ts,
    rfcDate_text d m y hd1 hd hm1 hm hy, sc1, rfcTime_text h mi s hh hmi hs, sc2, hz]

theorem rfc2822At_text (off : Int) (t : DT) (hms : t.ms < 86400000) (h0 : 0 ≤ t.year) (h1 : t.year ≤ 9999) :
    rfc2822At off t = rfc2822TextZ (weekday t.days) t.day t.month t.year.toNat t.hour t.minute t.second (fmtOffset false off) := by
  obtain ⟨_, _, _, hm1, hm12, hd1, hd31⟩ := dt_date t h0 h1
  obtain ⟨hh, hmi, hs, _⟩ := dt_fields t hms
  simp only [rfc2822At, rfc2822TextZ, two, TimeRfc.hms, pad4_spec _ (by omega : t.year.toNat < 10000),
    pad2_spec _ (by omega : t.hour < 100), pad2_spec _ (by omega : t.minute < 100), pad2_spec _ (by omega : t.second < 100),
    List.cons_append, List.nil_append, List.append_assoc]

/-- `parse_from_rfc2822 ∘ to_rfc2822` at a whole-minute offset: the UTC date-time `off` seconds before the printed
    one, at the whole second (the text has no fraction) -/
theorem rfc2822Utc_rfc2822At (off : Int) (t : DT) (hms : t.ms < 86400000) (h0 : 0 ≤ t.year) (h1 : t.year ≤ 9999)
    (ho1 : -86400 < off) (ho2 : off < 86400) (hm : off % 60 = 0) :
    rfc2822Utc (rfc2822At off t) = .ok (shiftNDT ⟨t.days, ⟨t.ms / 1000, 0⟩⟩ off) := by
  obtain ⟨hval, hdays, hyr, hm1, hm12, hd1, hd31⟩ := dt_date t h0 h1
  obtain ⟨hh, hmi, hs, hml, hsec, _⟩ := dt_fields t hms
  have hy : ((t.year.toNat : Nat) : Int) = t.year := by omega
  have hwd := weekday_lt t.days
  have hr := days_range0 t.year t.month t.day ((validDate_iff _ _ _).1 hval).2 h0 h1
  rw [hdays] at hr
  rw [rfc2822At_text off t hms h0 h1, fmtOffset_nocolon off ho1 ho2 hm, rfc2822Utc,
    parseRfc2822_textZ _ _ _ _ _ _ _ hwd hd1 hd31 hm1 hm12 (by omega) hh hmi hs _ _ _ (by omega) (by omega), hy, offset_value off hm]
  have hd := toNaiveDate_ymd_of
    { weekday := some (weekday t.days), day := some t.day, month := some t.month, year := some t.year, hourDiv12 := some (t.hour / 12), hourMod12 := some (t.hour % 12), minute := some t.minute, second := some t.second, offset := some off }
    t.year t.month t.day (some (weekday t.days)) rfl rfl rfl rfl rfl rfl rfl rfl rfl rfl rfl rfl rfl
  rw [if_pos hval, hdays] at hd
  have hw : optEqOr (some (weekday t.days)) (weekday t.days) = true := by simp [optEqOr]
  rw [if_pos hw] at hd
  have ht := toNaiveTime_hms
    { weekday := some (weekday t.days), day := some t.day, month := some t.month, year := some t.year, hourDiv12 := some (t.hour / 12), hourMod12 := some (t.hour % 12), minute := some t.minute, second := some t.second, offset := some off }
    t.hour t.minute t.second none rfl rfl rfl rfl rfl
  have h60 : ¬ t.second = 60 := by omega
  have hmin : min t.second 59 = t.second := by omega
  have hv : validOffset off = true := by simp [validOffset]; omega
  have hsub := subOffset_shift ⟨t.days, ⟨t.ms / 1000, 0⟩⟩ off
    (yearInRange_near _ (by simp only [shiftNDT]; omega) (by simp only [shiftNDT]; omega))
  simp only [Parsed.toDatetimeUtc, Parsed.toNaiveDatetime, hd, ht]
  simp [validOffset, h60, hmin, hsec, hv, hsub, ho1, ho2]

end Slac.Time
