/-
  SlacProofs.ValidateLemmas — where the errors of the interpreter model come from (an operator node fails with
  an error of one of its operands or with its own `Invalid…Operator`), the sub-tree relation, and the
  `and_then` combinator of the validation model.
-/
import SlacModel.Validate
import SlacModel.Interp
set_option autoImplicit false
set_option linter.unusedSectionVars false
namespace Slac
variable {N : Type} [NumOps N]

/-! ### `and_then` -/

theorem VErr.andThen_ok {a b : Except VErr Unit} (h : VErr.andThen a b = .ok ()) : a = .ok () ∧ b = .ok () := by
  cases a with
  | ok u => cases u; exact ⟨rfl, h⟩
  | error e => cases h

theorem VErr.andThen_error {a b : Except VErr Unit} {x : VErr} (h : VErr.andThen a b = .error x) :
    a = .error x ∨ (a = .ok () ∧ b = .error x) := by
  cases a with
  | ok u => cases u; exact .inr ⟨rfl, h⟩
  | error e => exact .inl h

/-! ### provenance of errors -/

theorem binVal_err {op : Op} {a b : Value N} {x : Err} (h : binVal op a b = .error x) : x = .invalidBinary op := by
  cases op <;> simp only [binVal] at h <;>
    first
    | (cases h; rfl)
    | (cases a <;> cases b <;> simp only [Value.add, Value.arith, Value.xor] at h <;> cases h <;> rfl)
    | cases h

theorem un_err {op : Op} {m : R N} {x : Err} (h : (unModel op m).1 = .error x) :
    m.1 = .error x ∨ x = .invalidUnary op := by
  obtain ⟨m1, m2⟩ := m
  cases m1 with
  | ok v =>
    right
    cases op <;> simp only [unModel, Value.not] at h <;> first | (cases h; done) | (cases h; rfl) | skip
    cases v <;> simp only [Value.neg] at h <;> cases h <;> rfl
  | error e => left; exact h

theorem rightBool_err {tl : List (Event N)} {m : R N} {x : Err} (h : (rightBool tl m).1 = .error x) :
    m.1 = .error x := by
  obtain ⟨m1, m2⟩ := m
  cases m1 with
  | ok v => simp only [rightBool] at h; cases h
  | error e => cases e <;> simp only [rightBool] at h <;> first | exact h | cases h

theorem bin_err {op : Op} {l r : R N} {x : Err} (h : (binModel op l r).1 = .error x) :
    l.1 = .error x ∨ r.1 = .error x ∨ x = .invalidBinary op := by
  obtain ⟨l1, l2⟩ := l
  cases l1 with
  | ok lv =>
    by_cases hand : op = .and
    · subst hand
      simp only [binModel] at h
      split at h
      · exact .inr (.inl (rightBool_err h))
      · cases h
    by_cases hor : op = .or
    · subst hor
      simp only [binModel] at h
      split at h
      · cases h
      · exact .inr (.inl (rightBool_err h))
    obtain ⟨r1, r2⟩ := r
    cases r1 with
    | ok rv =>
      right; right
      cases op <;> first | exact absurd rfl hand | exact absurd rfl hor | (simp only [binModel] at h; exact binVal_err h)
    | error e =>
      right; left
      cases e <;> cases op <;>
        first | exact absurd rfl hand | exact absurd rfl hor | (simp only [binModel] at h; first | exact h | cases h)
  | error e =>
    cases e with
    | undefinedVariable n =>
      cases op <;> simp only [binModel] at h <;>
        first
        | exact .inl h
        | cases h
        | exact .inr (.inl (rightBool_err h))
        | (obtain ⟨r1, r2⟩ := r
           cases r1 with
           | ok rv => cases h
           | error e' => cases e' <;> simp only at h <;> first | exact .inr (.inl h) | cases h)
    | invalidUnary o => cases op <;> exact .inl h
    | invalidBinary o => cases op <;> exact .inl h
    | invalidTernary o => cases op <;> exact .inl h
    | native f ne => cases op <;> exact .inl h

theorem tern_err {op : Op} {c m r : R N} {x : Err} (h : (ternModel op c m r).1 = .error x) :
    c.1 = .error x ∨ m.1 = .error x ∨ r.1 = .error x ∨ x = .invalidTernary op := by
  obtain ⟨c1, c2⟩ := c
  cases op <;> first | (simp only [ternModel] at h; cases h; exact .inr (.inr (.inr rfl))) | skip
  cases c1 with
  | ok cv =>
    simp only [ternModel] at h
    split at h
    · exact .inr (.inl h)
    · exact .inr (.inr (.inl h))
  | error e => exact .inl h

theorem evalList_length (env : Env N) : ∀ (es : List (Expr N)) (vs : List (Value N)),
    (evalList env es).1 = .ok vs → vs.length = es.length := by
  intro es
  induction es with
  | nil => intro vs h; simp only [evalList] at h; cases h; rfl
  | cons e es ih =>
    intro vs h
    simp only [evalList] at h
    generalize evalT env e = x at h
    obtain ⟨x1, x2⟩ := x
    cases x1 with
    | ok v =>
      simp only at h
      generalize hy : evalList env es = y at h ih
      obtain ⟨y1, y2⟩ := y
      cases y1 with
      | ok ws => simp only at h; cases h; simp only [List.length_cons, ih ws rfl]
      | error e => cases h
    | error e => cases h

/-! ### sub-trees -/

/-- `Sub x e`: `x` occurs in `e` as a sub-tree (reflexive) -/
inductive Sub : Expr N → Expr N → Prop
  | refl (e : Expr N) : Sub e e
  | unary {x r : Expr N} (op : Op) : Sub x r → Sub x (.unary r op)
  | binL {x l : Expr N} (r : Expr N) (op : Op) : Sub x l → Sub x (.binary l r op)
  | binR {x r : Expr N} (l : Expr N) (op : Op) : Sub x r → Sub x (.binary l r op)
  | ternL {x l : Expr N} (m r : Expr N) (op : Op) : Sub x l → Sub x (.ternary l m r op)
  | ternM {x m : Expr N} (l r : Expr N) (op : Op) : Sub x m → Sub x (.ternary l m r op)
  | ternR {x r : Expr N} (l m : Expr N) (op : Op) : Sub x r → Sub x (.ternary l m r op)
  | array {x c : Expr N} {es : List (Expr N)} : c ∈ es → Sub x c → Sub x (.array es)
  | call {x c : Expr N} (n : Str) {ps : List (Expr N)} : c ∈ ps → Sub x c → Sub x (.call n ps)

end Slac
