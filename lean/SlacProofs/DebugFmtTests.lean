/-
  SlacProofs.DebugFmtTests — TESTS (kernel-evaluated examples) for SlacModel.DebugFmt.  Expected texts are what
  rustc prints for `format!("{:?}", …)` (checked once against a scratch Rust program; the standing tie is the
  correspondence stream).  Nothing here is a property theorem.
-/
import SlacModel.DebugFmt
set_option autoImplicit false
namespace Slac
namespace DebugFmt

/-! #### test: the threshold constants are the f64 literals `1e-4` and `1e+16` -/
example : F64.bits (1e-4 : Float) = bits1em4 := by decide +kernel
example : F64.bits (1e16 : Float) = bits1e16 := by decide +kernel

/-! #### tests: `Debug for f64` -/
example : debugF64 1 = "1.0".toList := by decide +kernel
example : debugF64 1.5 = "1.5".toList := by decide +kernel
example : debugF64 1e16 = "1e16".toList := by decide +kernel
example : debugF64 9999999999999998 = "9999999999999998.0".toList := by decide +kernel
example : debugF64 1e-5 = "1e-5".toList := by decide +kernel
example : debugF64 0.0001 = "0.0001".toList := by decide +kernel
example : debugF64 0.00009999999999999999 = "9.999999999999999e-5".toList := by decide +kernel
example : debugF64 0 = "0.0".toList := by decide +kernel
example : debugF64 (-0.0) = "-0.0".toList := by decide +kernel
example : debugF64 (0.0 / 0.0) = "NaN".toList := by decide +kernel
example : debugF64 (-(0.0 / 0.0)) = "NaN".toList := by decide +kernel
example : debugF64 (1.0 / 0.0) = "inf".toList := by decide +kernel
example : debugF64 (-1.0 / 0.0) = "-inf".toList := by decide +kernel
example : debugF64 1e300 = "1e300".toList := by decide +kernel
example : debugF64 5e-324 = "5e-324".toList := by decide +kernel
example : debugF64 123456789012345680 = "1.2345678901234568e17".toList := by decide +kernel
example : debugF64 123456.789 = "123456.789".toList := by decide +kernel
example : debugF64 0.1 = "0.1".toList := by decide +kernel
example : debugF64 100 = "100.0".toList := by decide +kernel
example : debugF64 (-1.5e-7) = "-1.5e-7".toList := by decide +kernel
example : debugF64 1.7976931348623157e308 = "1.7976931348623157e308".toList := by decide +kernel

/-! #### tests: `Display` and `Debug` use the same digits -/
example : F64.display 123456789012345680 = "123456789012345680".toList := by decide +kernel
example : F64.display 1e16 = "10000000000000000".toList := by decide +kernel

/-! #### tests: `Debug for str` -/
example : debugStr [] = ['"', '"'] := by decide
example : debugStr "it's".toList = "\"it's\"".toList := by decide +kernel
example : debugStr "a\"b".toList = ['"', 'a', '\\', '"', 'b', '"'] := by decide +kernel
example : debugStr ['x', '\n', '\t', '\r', '\\', Char.ofNat 0] =
    ['"', 'x', '\\', 'n', '\\', 't', '\\', 'r', '\\', '\\', '\\', '0', '"'] := by decide +kernel
/-- combining acute accent (Grapheme_Extend) is escaped, the emoji is not -/
example : debugStr ['e', Char.ofNat 0x301, Char.ofNat 0x1F600] =
    ['"', 'e', '\\', 'u', '{', '3', '0', '1', '}', Char.ofNat 0x1F600, '"'] := by decide +kernel
/-- DEL, a C1 control, no-break space (escaped), soft hyphen (escaped), ä (printable) -/
example : debugStr [Char.ofNat 0x7F, Char.ofNat 0x85, Char.ofNat 0xA0, Char.ofNat 0xAD, Char.ofNat 0xE4] =
    "\"\\u{7f}\\u{85}\\u{a0}\\u{ad}".toList ++ [Char.ofNat 0xE4, '"'] := by decide +kernel
example : debugStr [Char.ofNat 0x10FFFF, Char.ofNat 1] = "\"\\u{10ffff}\\u{1}\"".toList := by decide +kernel

/-! #### tests: values and arrays -/
example : strOfValue (.arr []) = "[]".toList := by decide +kernel
example : debugValue (.arr []) = "Array([])".toList := by decide +kernel
example : strOfValue (.arr [.num 1, .str "a\"b".toList, .arr [], .arr [.bool true, .bool false, .arr [.num (-0.0)]], .num 1e16]) =
    "[Number(1.0), String(\"a\\\"b\"), Array([]), Array([Boolean(true), Boolean(false), Array([Number(-0.0)])]), Number(1e16)]".toList := by
  decide +kernel
example : strOfValue (.arr [.num (0.0 / 0.0), .num 1e-5, .num 5e-324]) = "[Number(NaN), Number(1e-5), Number(5e-324)]".toList := by
  decide +kernel
/-- non-arrays are printed by `Display`, not `Debug` -/
example : strOfValue (.num 1) = "1".toList := by decide +kernel
example : strOfValue (.num 1e16) = "10000000000000000".toList := by decide +kernel
example : strOfValue (.str "a\"b".toList) = "a\"b".toList := by decide +kernel
example : strOfValue (.bool true) = "true".toList := by decide +kernel

end DebugFmt
end Slac
