/-
  SlacProofs.UnlexTree — leaf tokens (literals, names) of a tree versus the tokens of its renderings and of the
  token list it was parsed from:
    * a rendering of `e` consists of the leaves of `e` and structural tokens (parentheses, brackets, commas,
      operators), and contains every leaf;
    * whatever the parser returns has its leaves among the tokens it consumed.
-/
import SlacModel.Unlex
import SlacProofs.ParserRender
set_option autoImplicit false
namespace Slac.Unlex
open Slac.Parser Slac.Render
variable {N : Type}

/-- neither a literal nor an identifier -/
def Structural : Token N → Bool
  | .literal _ | .identifier _ => false
  | _ => true

/-! ### unfolding -/

theorem leaves_unary (r : Expr N) (op : Op) : leaves (.unary r op) = leaves r := by rw [leaves]
theorem leaves_binary (l r : Expr N) (op : Op) : leaves (.binary l r op) = leaves l ++ leaves r := by rw [leaves]
theorem leaves_ternary (l m r : Expr N) (op : Op) :
    leaves (.ternary l m r op) = leaves l ++ (leaves m ++ leaves r) := by rw [leaves]
theorem leaves_array (es : List (Expr N)) : leaves (.array es) = leavesList es := by rw [leaves]
theorem leaves_lit (v : Value N) : leaves (.lit v : Expr N) = [.literal v] := by rw [leaves]
theorem leaves_var (n : Str) : leaves (.var n : Expr N) = [.identifier n] := by rw [leaves]
theorem leaves_call (n : Str) (ps : List (Expr N)) : leaves (.call n ps) = .identifier n :: leavesList ps := by
  rw [leaves]
theorem leavesList_nil : leavesList ([] : List (Expr N)) = [] := by rw [leavesList]
theorem leavesList_cons (e : Expr N) (es : List (Expr N)) : leavesList (e :: es) = leaves e ++ leavesList es := by
  rw [leavesList]

theorem structural_binOp {t : Token N} {op : Op} (h : Token.binOp? t = some op) : Structural t = true := by
  cases t <;> first | rfl | simp [Token.binOp?] at h

/-! ### renderings -/

/-- every token of a rendering is a leaf of the tree or structural -/
theorem rn_tokens {q : Nat} {e : Expr N} {ts : List (Token N)} (h : Rn q e ts) :
    ∀ t ∈ ts, t ∈ leaves e ∨ Structural t = true := by
  refine Rn.rec (motive_1 := fun e ts _ => ∀ t ∈ ts, t ∈ leaves e ∨ Structural t = true)
    (motive_2 := fun _ e ts _ => ∀ t ∈ ts, t ∈ leaves e ∨ Structural t = true)
    (motive_3 := fun es ts _ => ∀ t ∈ ts, t ∈ leavesList es ∨ Structural t = true)
    ?_ ?_ ?_ ?_ ?_ ?_ ?_ ?_ ?_ ?_ ?_ ?_ h
  · intro v t ht; rw [leaves_lit]; exact .inl ht
  · intro n t ht; rw [leaves_var]; exact .inl ht
  · intro r ts _ ih t ht
    rw [leaves_unary]
    rcases List.mem_cons.mp ht with h | h
    · subst h; exact .inr rfl
    · exact ih t h
  · intro r ts _ ih t ht
    rw [leaves_unary]
    rcases List.mem_cons.mp ht with h | h
    · subst h; exact .inr rfl
    · exact ih t h
  · intro l r op t tl tr hb _ _ ihl ihr u hu
    rw [leaves_binary]
    rcases List.mem_append.mp hu with h | h
    · rcases ihl u h with h' | h'
      · exact .inl (List.mem_append_left _ h')
      · exact .inr h'
    · rcases List.mem_cons.mp h with h | h
      · subst h; exact .inr (structural_binOp hb)
      · rcases ihr u h with h' | h'
        · exact .inl (List.mem_append_right _ h')
        · exact .inr h'
  · intro es ts _ ih t ht
    rw [leaves_array]
    rcases List.mem_cons.mp ht with h | h
    · subst h; exact .inr rfl
    · rcases List.mem_append.mp h with h | h
      · exact ih t h
      · simp only [List.mem_cons, List.not_mem_nil, or_false] at h
        subst h; exact .inr rfl
  · intro n ps ts _ ih t ht
    rw [leaves_call]
    rcases List.mem_cons.mp ht with h | h
    · subst h; exact .inl (by simp)
    · rcases List.mem_cons.mp h with h | h
      · subst h; exact .inr rfl
      · rcases List.mem_append.mp h with h | h
        · rcases ih t h with h' | h'
          · exact .inl (List.mem_cons_of_mem _ h')
          · exact .inr h'
        · simp only [List.mem_cons, List.not_mem_nil, or_false] at h
          subst h; exact .inr rfl
  · intro q e ts _ _ ih; exact ih
  · intro q e ts _ ih t ht
    rcases List.mem_cons.mp ht with h | h
    · subst h; exact .inr rfl
    · rcases List.mem_append.mp h with h | h
      · exact ih t h
      · simp only [List.mem_cons, List.not_mem_nil, or_false] at h
        subst h; exact .inr rfl
  · intro t ht; cases ht
  · intro e ts _ ih t ht
    rw [leavesList_cons, leavesList_nil, List.append_nil]; exact ih t ht
  · intro e e' es ts ts' _ _ ih1 ih2 t ht
    rw [leavesList_cons]
    rcases List.mem_append.mp ht with h | h
    · rcases ih1 t h with h' | h'
      · exact .inl (List.mem_append_left _ h')
      · exact .inr h'
    · rcases List.mem_cons.mp h with h | h
      · subst h; exact .inr rfl
      · rcases ih2 t h with h' | h'
        · exact .inl (List.mem_append_right _ h')
        · exact .inr h'

/-- every leaf of the tree occurs in each of its renderings -/
theorem rn_leaves {q : Nat} {e : Expr N} {ts : List (Token N)} (h : Rn q e ts) : ∀ t ∈ leaves e, t ∈ ts := by
  refine Rn.rec (motive_1 := fun e ts _ => ∀ t ∈ leaves e, t ∈ ts)
    (motive_2 := fun _ e ts _ => ∀ t ∈ leaves e, t ∈ ts)
    (motive_3 := fun es ts _ => ∀ t ∈ leavesList es, t ∈ ts)
    ?_ ?_ ?_ ?_ ?_ ?_ ?_ ?_ ?_ ?_ ?_ ?_ h
  · intro v t ht; rw [leaves_lit] at ht; exact ht
  · intro n t ht; rw [leaves_var] at ht; exact ht
  · intro r ts _ ih t ht; rw [leaves_unary] at ht; exact List.mem_cons_of_mem _ (ih t ht)
  · intro r ts _ ih t ht; rw [leaves_unary] at ht; exact List.mem_cons_of_mem _ (ih t ht)
  · intro l r op t tl tr _ _ _ ihl ihr u hu
    rw [leaves_binary] at hu
    rcases List.mem_append.mp hu with h | h
    · exact List.mem_append_left _ (ihl u h)
    · exact List.mem_append_right _ (List.mem_cons_of_mem _ (ihr u h))
  · intro es ts _ ih t ht
    rw [leaves_array] at ht
    exact List.mem_cons_of_mem _ (List.mem_append_left _ (ih t ht))
  · intro n ps ts _ ih t ht
    rw [leaves_call] at ht
    rcases List.mem_cons.mp ht with h | h
    · subst h; simp
    · exact List.mem_cons_of_mem _ (List.mem_cons_of_mem _ (List.mem_append_left _ (ih t h)))
  · intro q e ts _ _ ih; exact ih
  · intro q e ts _ ih t ht; exact List.mem_cons_of_mem _ (List.mem_append_left _ (ih t ht))
  · intro t ht; rw [leavesList_nil] at ht; cases ht
  · intro e ts _ ih t ht
    rw [leavesList_cons, leavesList_nil, List.append_nil] at ht; exact ih t ht
  · intro e e' es ts ts' _ _ ih1 ih2 t ht
    rw [leavesList_cons] at ht
    rcases List.mem_append.mp ht with h | h
    · exact List.mem_append_left _ (ih1 t h)
    · exact List.mem_append_right _ (List.mem_cons_of_mem _ (ih2 t h))

/-- a property that holds of the leaves of a tree and of every structural token holds of every token of every
    rendering of the tree -/
theorem rn_all {P : Token N → Prop} (hs : ∀ t : Token N, Structural t = true → P t) {q : Nat} {e : Expr N}
    {ts : List (Token N)} (h : Rn q e ts) (hl : ∀ t ∈ leaves e, P t) : ∀ t ∈ ts, P t := by
  intro t ht
  rcases rn_tokens h t ht with h' | h'
  · exact hl t h'
  · exact hs t h'

/-- a rendering has at least one token -/
theorem rn_ne_nil {q : Nat} {e : Expr N} {ts : List (Token N)} (h : Rn q e ts) : ts ≠ [] := by
  cases h with
  | bare _ hb =>
    cases hb with
    | binary _ _ _ => simp
    | _ => simp
  | paren _ => simp

/-! ### the parser -/

theorem chompParen_sub {e : Expr N} {r : List (Token N)} {x} (h : chompParen e r = .ok x) :
    x.1 = e ∧ ∀ u ∈ x.2, u ∈ r := by
  obtain ⟨h1, h2⟩ := chompParen_ok h
  exact ⟨h1, fun u hu => by rw [h2]; exact List.mem_cons_of_mem _ hu⟩

theorem dropComma_sub (r : List (Token N)) : ∀ u ∈ dropComma r, u ∈ r := by
  unfold dropComma
  split
  · intro u hu; exact List.mem_cons_of_mem _ hu
  · intro u hu; exact hu

/-- if `P` holds of all tokens given to the parser, it holds of the leaves of the tree returned (and of the
    tokens left over) -/
theorem parser_leaves (P : Token N → Prop) (f : Nat) :
    (∀ p (toks : List (Token N)) x, (∀ u ∈ toks, P u) → parsePrec f p toks = .ok x →
      (∀ u ∈ leaves x.1, P u) ∧ (∀ u ∈ x.2, P u)) ∧
    (∀ (t : Token N) rest x, P t → (∀ u ∈ rest, P u) → doPrefix f t rest = .ok x →
      (∀ u ∈ leaves x.1, P u) ∧ (∀ u ∈ x.2, P u)) ∧
    (∀ p (l : Expr N) toks x, (∀ u ∈ leaves l, P u) → (∀ u ∈ toks, P u) → infixLoop f p l toks = .ok x →
      (∀ u ∈ leaves x.1, P u) ∧ (∀ u ∈ x.2, P u)) ∧
    (∀ (t : Token N) l rest x, (∀ u ∈ leaves l, P u) → (∀ u ∈ rest, P u) → doInfix f t l rest = .ok x →
      (∀ u ∈ leaves x.1, P u) ∧ (∀ u ∈ x.2, P u)) ∧
    (∀ b (toks : List (Token N)) x, (∀ u ∈ toks, P u) → exprList f b toks = .ok x →
      (∀ u ∈ leavesList x.1, P u) ∧ (∀ u ∈ x.2, P u)) := by
  induction f with
  | zero =>
    simp [parsePrec_zero, doPrefix_zero, infixLoop_zero, doInfix_zero, exprList_zero]
  | succ f ih =>
    obtain ⟨ih1, ih2, ih3, ih4, ih5⟩ := ih
    refine ⟨?_, ?_, ?_, ?_, ?_⟩
    · intro p toks x hP h
      cases toks with
      | nil => rw [parsePrec_nil] at h; cases h
      | cons t r =>
        rw [parsePrec_cons, andThen_eq_ok] at h
        obtain ⟨a, ha, hk⟩ := h
        have h2 := ih2 _ _ _ (hP t (by simp)) (fun u hu => hP u (List.mem_cons_of_mem _ hu)) ha
        exact ih3 _ _ _ _ h2.1 h2.2 hk
    · intro t rest x hPt hP h
      rw [doPrefix_succ] at h
      cases t <;> simp only [andThen_eq_ok] at h
      case literal v =>
        cases h
        refine ⟨?_, hP⟩
        intro u hu; rw [leaves_lit] at hu
        simp only [List.mem_cons, List.not_mem_nil, or_false] at hu
        subst hu; exact hPt
      case identifier s =>
        cases h
        refine ⟨?_, hP⟩
        intro u hu; rw [leaves_var] at hu
        simp only [List.mem_cons, List.not_mem_nil, or_false] at hu
        subst hu; exact hPt
      case leftParen =>
        obtain ⟨a, ha, hk⟩ := h
        have h1 := ih1 _ _ _ hP ha
        obtain ⟨he, hs⟩ := chompParen_sub hk
        rw [he]
        exact ⟨h1.1, fun u hu => h1.2 u (hs u hu)⟩
      case leftBracket =>
        obtain ⟨a, ha, hk⟩ := h
        have h5 := ih5 _ _ _ hP ha
        cases hk
        simp only [leaves_array]
        exact h5
      case not =>
        obtain ⟨a, ha, hk⟩ := h
        have h1 := ih1 _ _ _ hP ha
        cases hk
        simp only [leaves_unary]
        exact h1
      case minus =>
        obtain ⟨a, ha, hk⟩ := h
        have h1 := ih1 _ _ _ hP ha
        cases hk
        simp only [leaves_unary]
        exact h1
      all_goals cases h
    · intro p l toks x hl hP h
      cases toks with
      | nil => rw [infixLoop_nil] at h; cases h; exact ⟨hl, hP⟩
      | cons t rest =>
        rw [infixLoop_cons] at h
        split at h
        · rw [andThen_eq_ok] at h
          obtain ⟨a, ha, hk⟩ := h
          have h4 := ih4 _ _ _ _ hl (fun u hu => hP u (List.mem_cons_of_mem _ hu)) ha
          exact ih3 _ _ _ _ h4.1 h4.2 hk
        · cases h; exact ⟨hl, hP⟩
    · intro t l rest x hl hP h
      rw [doInfix_succ] at h
      split at h
      · rw [andThen_eq_ok] at h
        obtain ⟨a, ha, hk⟩ := h
        have h1 := ih1 _ _ _ hP ha
        cases hk
        simp only [leaves_binary]
        refine ⟨?_, h1.2⟩
        intro u hu
        rcases List.mem_append.mp hu with h' | h'
        · exact hl u h'
        · exact h1.1 u h'
      · split at h
        · split at h
          · rw [andThen_eq_ok] at h
            obtain ⟨a, ha, hk⟩ := h
            have h5 := ih5 _ _ _ hP ha
            cases hk
            simp only [leaves_call]
            refine ⟨?_, h5.2⟩
            intro u hu
            rcases List.mem_cons.mp hu with h' | h'
            · subst h'; exact hl _ (by rw [leaves_var]; simp)
            · exact h5.1 u h'
          · cases h
        · cases h
    · intro b toks x hP h
      cases toks with
      | nil => rw [exprList_nil] at h; cases h
      | cons t rest =>
        rw [exprList_cons] at h
        split at h
        · cases h
          refine ⟨?_, fun u hu => hP u (List.mem_cons_of_mem _ hu)⟩
          rw [leavesList_nil]; intro u hu; cases hu
        · rw [andThen_eq_ok] at h
          obtain ⟨a, ha, hk⟩ := h
          rw [andThen_eq_ok] at hk
          obtain ⟨c, hc, hk⟩ := hk
          have h1 := ih1 _ _ _ hP ha
          have h5 := ih5 _ _ _ (fun u hu => h1.2 u (dropComma_sub _ u hu)) hc
          cases hk
          simp only [leavesList_cons]
          refine ⟨?_, h5.2⟩
          intro u hu
          rcases List.mem_append.mp hu with h' | h'
          · exact h1.1 u h'
          · exact h5.1 u h'

/-- the leaves of a parsed tree are tokens of the input -/
theorem parse_leaves {toks : List (Token N)} {e : Expr N} (h : parse toks = .ok e) : ∀ u ∈ leaves e, u ∈ toks := by
  have hp : parsePrec (parseFuel toks.length) 1 toks = .ok (e, []) := by
    unfold parse finish at h
    split at h
    · rename_i heq; cases h; exact heq
    all_goals cases h
  exact ((parser_leaves (fun u => u ∈ toks) _).1 _ _ _ (fun u hu => hu) hp).1

end Slac.Unlex
