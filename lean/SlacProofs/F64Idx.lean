/-
  SlacProofs.F64Idx — `instance : LawfulIdx Float`: the driver's binary64 numbers satisfy every hypothesis the
  position laws of C15 make about numbers ("small integers are exact in binary64").
  * `ofInt_natCast`   `F64.ofInt (n : Int) = F64.ofNat n`;
  * `toUsize_ofNat`, `floorToUsize_ofNat`   `(n as f64) as usize = n`, `(n as f64).floor() as usize = n` (n < 2^53);
  * `add_ofNat`       IEEE addition of two naturals with n + m < 2^53 is exact;
  * `bits_ofNat`, `natBits_lt`   the bit pattern of `n as f64` and its strict monotonicity;
  * `pcmp_ofNat`      `partial_cmp` of two naturals below 2^53 is their order.
-/
import SlacProofs.F64RoundHalf
import SlacProofs.F64Cast
import SlacProofs.SeqIdx
set_option autoImplicit false
namespace Slac
namespace F64
open Float.Model Float.Model.UnpackedFloat

theorem ofInt_natCast (n : Nat) : F64.ofInt (n : Int) = F64.ofNat n := by
  unfold F64.ofInt F64.ofNat
  simp only [Int.natAbs_natCast]
  rw [if_neg (by omega)]

theorem toIntSat_ofInt (n lo hi : Int) (h : n.natAbs ≤ 2^53) (h1 : lo ≤ n) (h2 : n ≤ hi) :
    toIntSat (F64.ofInt n) lo hi = n := by
  unfold toIntSat
  rw [(isNaN_ofInt n h).1, (isNaN_ofInt n h).2, truncToInt_ofInt n h]
  simp only [Bool.false_eq_true, if_false]
  rw [if_neg (by omega), if_neg (by omega)]

/-- `(n as f64) as usize = n` -/
theorem toUsize_ofNat (n : Nat) (h : n < 2^53) : toUsize (F64.ofNat n) = n := by
  rw [← ofInt_natCast]
  unfold toUsize
  rw [toIntSat_ofInt _ _ _ (by omega) (by omega) (by omega)]
  omega

theorem floorToInt_ofNat (n : Nat) (h : n < 2^53) : floorToInt (F64.ofNat n) = n := by
  by_cases h0 : n = 0
  · subst h0; decide +kernel
  · have hpos : 0 < n := Nat.pos_of_ne_zero h0
    have hc := canon_ofNat n hpos h
    have hL : n.log2 < 53 := (Nat.log2_lt h0).2 h
    rw [ofNat_eq n hpos h]
    unfold floorToInt
    simp only [decode_mkF _ _ _ hc, signBit_mkF _ _ _ hc]
    have hs : decide (sbit Sign.positive = 1) = false := by simp [sbit]
    simp only [hs, Bool.false_eq_true, if_false]
    split
    · have e1 : ((n.log2 : Int) - 52).toNat = 0 := by omega
      have e2 : 52 - n.log2 = 0 := by omega
      rw [e1, e2]; simp
    · have e1 : (-((n.log2 : Int) - 52)).toNat = 52 - n.log2 := by omega
      rw [e1, Nat.shiftRight_eq_div_pow, Nat.mul_div_cancel _ (Nat.two_pow_pos _)]

theorem isNaN_ofNat (n : Nat) (h : n < 2^53) : isNaN (F64.ofNat n) = false ∧ isInf (F64.ofNat n) = false := by
  rw [← ofInt_natCast]; exact isNaN_ofInt _ (by omega)

/-- `(n as f64).floor() as usize = n` -/
theorem floorToUsize_ofNat (n : Nat) (h : n < 2^53) : floorToUsize (F64.ofNat n) = n := by
  unfold floorToUsize
  rw [(isNaN_ofNat n h).1, (isNaN_ofNat n h).2, floorToInt_ofNat n h]
  simp only [Bool.false_eq_true, if_false]
  rw [if_neg (by omega), if_neg (by omega)]
  omega

theorem ofNat_zero_eq : F64.ofNat 0 = zeroF .positive := by
  apply eq_of_bits_eq; rw [bits_ofNat_zero, bits_zeroF]; rfl

theorem zero_add_zero : F64.ofNat 0 + F64.ofNat 0 = F64.ofNat 0 := by decide +kernel

/-- `n as f64 + m as f64 = (n + m) as f64`: IEEE addition of small naturals is exact -/
theorem add_ofNat (n m : Nat) (h : n + m < 2^53) : F64.ofNat n + F64.ofNat m = F64.ofNat (n + m) := by
  by_cases hn : n = 0
  · subst hn
    by_cases hm : m = 0
    · subst hm; exact zero_add_zero
    · rw [Nat.zero_add, ofNat_zero_eq, ofNat_eq m (by omega) (by omega)]
      exact zero_add_mkF _ _ _ _ (canon_ofNat m (by omega) (by omega))
  · by_cases hm : m = 0
    · subst hm
      rw [Nat.add_zero, ofNat_zero_eq, ofNat_eq n (by omega) (by omega)]
      exact add_zero_mkF _ _ _ _ (canon_ofNat n (by omega) (by omega))
    · rw [← ofInt_natCast, ← ofInt_natCast, ← ofInt_natCast,
        ofInt_add (n : Int) (m : Int) (by omega) (by omega) (by omega) (by omega) (by omega) (by omega)]
      congr 1

/-- bit pattern of `n as f64` (n < 2^53): biased exponent log2 n + 1023, the bits of n below its leading one -/
def natBits (n : Nat) : Nat :=
  if n = 0 then 0 else (n.log2 + 1023) * 2^52 + (n * 2^(52 - n.log2) - 2^52)

theorem bits_ofNat (n : Nat) (h : n < 2^53) : bits (F64.ofNat n) = natBits n := by
  unfold natBits
  by_cases h0 : n = 0
  · subst h0; exact bits_ofNat_zero
  · rw [if_neg h0]
    have hpos : 0 < n := Nat.pos_of_ne_zero h0
    have hc := canon_ofNat n hpos h
    have hL : n.log2 < 53 := (Nat.log2_lt h0).2 h
    rw [ofNat_eq n hpos h, bits_mkF2 _ _ _ hc]
    have hl : (n * 2^(52 - n.log2)).log2 = 52 := by rw [log2_mul_two_pow n _ h0]; omega
    unfold magOf; rw [if_pos hl]
    have e1 : ((n.log2 : Int) - 52 + 1075).toNat = n.log2 + 1023 := by omega
    rw [e1]; simp [sbit]

/-- the scaled significand of a positive n < 2^53 lies in [2^52, 2^53) -/
theorem sig_bounds (n : Nat) (h0 : n ≠ 0) (h : n < 2^53) :
    2^52 ≤ n * 2^(52 - n.log2) ∧ n * 2^(52 - n.log2) < 2^53 := by
  have hL : n.log2 < 53 := (Nat.log2_lt h0).2 h
  have hl : (n * 2^(52 - n.log2)).log2 = 52 := by rw [log2_mul_two_pow n _ h0]; omega
  have hne : n * 2^(52 - n.log2) ≠ 0 := Nat.mul_ne_zero h0 (by have := Nat.two_pow_pos (52 - n.log2); omega)
  exact ⟨(Nat.le_log2 hne).1 (by omega), (Nat.log2_lt hne).1 (by omega)⟩

theorem natBits_bound (n : Nat) (h : n < 2^53) : natBits n < 0x4340000000000000 := by
  unfold natBits
  by_cases h0 : n = 0
  · rw [if_pos h0]; decide
  · rw [if_neg h0]
    have hL : n.log2 < 53 := (Nat.log2_lt h0).2 h
    have := sig_bounds n h0 h
    omega

/-- the encoding of naturals below 2^53 is strictly monotone -/
theorem natBits_lt (n m : Nat) (hm : m < 2^53) (hlt : n < m) : natBits n < natBits m := by
  have hm0 : m ≠ 0 := by omega
  have hsm := sig_bounds m hm0 hm
  have hLm : m.log2 < 53 := (Nat.log2_lt hm0).2 hm
  unfold natBits
  rw [if_neg hm0]
  by_cases h0 : n = 0
  · rw [if_pos h0]; omega
  · rw [if_neg h0]
    have hsn := sig_bounds n h0 (by omega)
    have hLn : n.log2 < 53 := (Nat.log2_lt h0).2 (by omega)
    have hle : n.log2 ≤ m.log2 := by
      have h1 : 2^n.log2 ≤ n := Nat.log2_self_le h0
      have h2 : m < 2^(m.log2 + 1) := Nat.lt_log2_self
      have : 2^n.log2 < 2^(m.log2 + 1) := by omega
      have := (Nat.pow_lt_pow_iff_right (by decide : 1 < 2)).1 this
      omega
    by_cases heq : n.log2 = m.log2
    · rw [heq]
      have : n * 2^(52 - m.log2) < m * 2^(52 - m.log2) :=
        Nat.mul_lt_mul_of_pos_right hlt (Nat.two_pow_pos _)
      rw [heq] at hsn
      omega
    · have hl : n.log2 + 1 ≤ m.log2 := by omega
      have : (n.log2 + 1023 + 1) * 2^52 ≤ (m.log2 + 1023) * 2^52 := Nat.mul_le_mul_right _ (by omega)
      omega

theorem keyN_small (b : Nat) (h : b < 0x7FF0000000000000) : isNaNN b = false ∧ keyN b = (b : Int) := by
  have h1 : b % 2^63 = b := Nat.mod_eq_of_lt (by omega)
  have h2 : ¬ (b / 2^63 % 2 = 1) := by omega
  constructor
  · unfold isNaNN magN; rw [h1]; simp; omega
  · unfold keyN negN magN; rw [h1]; simp [h2]

/-- `partial_cmp` of the doubles of two naturals below 2^53 is the order of the naturals -/
theorem pcmp_ofNat (n m : Nat) (hn : n < 2^53) (hm : m < 2^53) :
    pcmp (F64.ofNat n) (F64.ofNat m) = some (compare n m) := by
  unfold pcmp pcmpN
  rw [bits_ofNat n hn, bits_ofNat m hm]
  have bn := natBits_bound n hn
  have bm := natBits_bound m hm
  obtain ⟨n1, n2⟩ := keyN_small (natBits n) (by omega)
  obtain ⟨m1, m2⟩ := keyN_small (natBits m) (by omega)
  rw [n1, m1, n2, m2]
  simp only [Bool.or_self, Bool.false_eq_true, if_false]
  congr 1
  unfold cmpInt
  rcases Nat.lt_trichotomy n m with hlt | heq | hgt
  · have := natBits_lt n m hm hlt
    rw [if_pos (by omega), Nat.compare_eq_lt.2 hlt]
  · subst heq
    rw [if_neg (by omega), if_neg (by omega), Nat.compare_eq_eq.2 rfl]
  · have := natBits_lt m n hn hgt
    rw [if_neg (by omega), if_pos (by omega), Nat.compare_eq_gt.2 hgt]

theorem numzero_eq : (NumOps.zero : Float) = F64.ofNat 0 := by
  apply eq_of_bits_eq; rw [bits_numzero, bits_ofNat_zero]

theorem closed_idx_facts :
    F64.ofInt (-1) + F64.ofNat 1 = F64.ofNat 0 ∧ F64.ofInt (-1) + F64.ofNat 0 = F64.ofInt (-1) ∧
    pcmp (F64.ofInt (-1)) (F64.ofNat 0) = some .lt := by decide +kernel

end F64

/-- binary64 satisfies every number hypothesis of the C15 position laws -/
instance : LawfulIdx Float where
  toUsize_ofNat := F64.toUsize_ofNat
  floorUsize_ofNat := F64.floorToUsize_ofNat
  add_ofNat := F64.add_ofNat
  zero_eq := F64.numzero_eq
  pcmp_ofNat := F64.pcmp_ofNat
  neg_one_add_one := F64.closed_idx_facts.1
  neg_one_add_zero := F64.closed_idx_facts.2.1
  pcmp_neg_one := F64.closed_idx_facts.2.2

end Slac
