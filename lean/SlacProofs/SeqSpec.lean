/-
  SlacProofs.SeqSpec — the documentation-level meaning of the sequence builtins (property C15), written with
  core `List` notions only: `<+:` (IsPrefix), `<:+:` (IsInfix), `take`/`drop`/`filter`/`reverse`.
  Nothing here mentions `Seq.splitAux`/`Seq.splitOn` of the model; the model is compared against these
  definitions in SlacProofs.SeqSearch / SlacProps.C15.
-/
set_option autoImplicit false
namespace Slac.SeqSpec
variable {α : Type}

/-- `i` is the position (counted in elements, from 0) of the first occurrence of `x` in `s`:
    `x` starts at `i`, and at no earlier position. -/
def FirstOcc (x s : List α) (i : Nat) : Prop :=
  x <+: s.drop i ∧ i ≤ s.length ∧ ∀ j, j < i → ¬ x <+: s.drop j

section
variable [DecidableEq α]

/-- number of leftmost non-overlapping occurrences of `x` in `s` (Rust `s.match_indices(x).count()`):
    scan from the left; when `x` starts here, count it and continue behind it (at least one element
    further, so the empty pattern matches once at every boundary: `occCount [] "abc" = 4`). -/
def occCount (x : List α) : List α → Nat
  | [] => if x = [] then 1 else 0
  | c :: t =>
    if x <+: c :: t then 1 + occCount x ((c :: t).drop (max x.length 1))
    else occCount x t
termination_by s => s.length
decreasing_by
  all_goals simp only [List.length_drop, List.length_cons]
  all_goals omega

/-- `s` with `y` spliced in for every leftmost non-overlapping occurrence of `x` (Rust `s.replace(x, y)`;
    for the empty pattern: `y` at every boundary, `"abc".replace("", "-") = "-a-b-c-"`). -/
def replaceAll (x y : List α) : List α → List α
  | [] => if x = [] then y else []
  | c :: t =>
    if x = [] then y ++ c :: replaceAll x y t
    else if x <+: c :: t then y ++ replaceAll x y ((c :: t).drop x.length)
    else c :: replaceAll x y t
termination_by s => s.length
decreasing_by
  all_goals simp only [List.length_drop, List.length_cons]
  all_goals first | omega | (have : x.length ≠ 0 := by (intro h; simp_all [List.length_eq_zero_iff])); omega

/-- join with a separator (`[p0, p1, p2] ↦ p0 ++ sep ++ p1 ++ sep ++ p2`) -/
def join (sep : List α) : List (List α) → List α
  | [] => []
  | [p] => p
  | p :: q :: ps => p ++ sep ++ join sep (q :: ps)

/-- `ps` is *the* split of `s` at the non-empty separator `x`: the pieces joined with `x` give `s` back,
    every piece but the last is delimited by the leftmost occurrence of `x` behind the previous delimiter
    (`x` occurs in `p ++ x` only at the very end), and the last piece contains no `x`. -/
def IsSplit (x s : List α) (ps : List (List α)) : Prop :=
  ps ≠ [] ∧ join x ps = s ∧ (∀ p, p ∈ ps.dropLast → FirstOcc x (p ++ x) p.length) ∧
  (∀ p, ps.getLast? = some p → ¬ x <:+: p)

/-- the split at the empty pattern (Rust `s.split("")`): an empty piece, the singletons, an empty piece -/
def splitEmpty (s : List α) : List (List α) := [] :: s.map (fun c => [c]) ++ [[]]

end

set_option wf.preprocess false in
/-- first-occurrence de-duplication w.r.t. a (not necessarily reflexive/symmetric/transitive) test `r`:
    keep the head, drop everything behind it that the head `r`-equals, continue. -/
def dedupBy (r : α → α → Bool) : List α → List α
  | [] => []
  | v :: vs => v :: dedupBy r (vs.filter fun w => !r v w)
termination_by l => l.length
decreasing_by
  simp only [List.length_cons]
  exact Nat.lt_succ_of_le (List.length_filter_le _ _)

/-- `line` without the double quotes and without the separators that stand outside double quotes;
    `inQ` = "we are inside double quotes". -/
def csvKeep (sep : Char) : Bool → List Char → List Char
  | _, [] => []
  | inQ, c :: cs =>
    if c = sep ∧ inQ = false then csvKeep sep inQ cs
    else if c = '"' then csvKeep sep (!inQ) cs
    else c :: csvKeep sep inQ cs

/-- number of separators outside double quotes -/
def csvSeps (sep : Char) : Bool → List Char → Nat
  | _, [] => 0
  | inQ, c :: cs =>
    if c = sep ∧ inQ = false then csvSeps sep inQ cs + 1
    else if c = '"' then csvSeps sep (!inQ) cs
    else csvSeps sep inQ cs

/-- position `k` of `line` is inside double quotes: an odd number of `"` before it -/
def quotedAt (line : List Char) (k : Nat) : Bool := (line.take k).count '"' % 2 == 1

/-- index-wise reading of `csvKeep`: keep the character at position `k` unless it is a `"` or it is the
    separator and position `k` is not inside double quotes -/
def csvContent (sep : Char) (line : List Char) : List Char :=
  (line.zipIdx.filter fun ck => ck.1 != '"' && !(ck.1 == sep && !quotedAt line ck.2)).map (·.1)

end Slac.SeqSpec
