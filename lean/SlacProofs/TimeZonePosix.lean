/-
  SlacProofs.TimeZonePosix — chrono's POSIX-rule zones (SlacModel.TimeZone, `Posix.Alt`) against the model's calendar:
  chrono's own calendar helpers agree with the proleptic Gregorian calendar of SlacModel.TimeCore for ALL years, and the
  northern-hemisphere `Mm.w.d` zones are lawful in the sense of SlacProps.C16Zone.
-/
import SlacProofs.TimeCal
import SlacModel.TimeZone
set_option autoImplicit false
set_option linter.unusedSimpArgs false
set_option linter.unusedVariables false
namespace Slac.Time
open Posix

/-! ### chrono's calendar helpers are the proleptic Gregorian calendar -/

theorem leapYear_eq (y : Int) : leapYear y = isLeap y := by
  rw [Bool.eq_iff_iff, isLeap_iff]
  simp only [leapYear, Bool.or_eq_true, Bool.and_eq_true, beq_iff_eq, bne_iff_ne, ne_eq]
  constructor <;> intro h <;> omega

/-- `days_since_unix_epoch` (two formulas with truncating division) = days since 1970-01-01 of the civil date, every year -/
theorem daysSinceUnixEpoch_eq (y : Int) (m : Nat) (hm1 : 1 ≤ m) (hm12 : m ≤ 12) (d : Int) :
    daysSinceUnixEpoch y m d = daysFromCivil y m 1 + d - 1 := by
  have hm : m = 1 ∨ m = 2 ∨ m = 3 ∨ m = 4 ∨ m = 5 ∨ m = 6 ∨ m = 7 ∨ m = 8 ∨ m = 9 ∨ m = 10 ∨ m = 11 ∨ m = 12 := by omega
  have hl : leapYear y = true ↔ (y % 400 = 0 ∨ (y % 4 = 0 ∧ y % 100 ≠ 0)) := by
    simp only [leapYear]
    by_cases h4 : y % 4 = 0 <;> by_cases h100 : y % 100 = 0 <;> by_cases h400 : y % 400 = 0 <;> simp [h4, h100, h400]
  by_cases hleap : leapYear y = true
  · have hl' := hl.1 hleap
    rcases hm with rfl | rfl | rfl | rfl | rfl | rfl | rfl | rfl | rfl | rfl | rfl | rfl <;>
      simp only [daysSinceUnixEpoch, hleap, quot, cumulNormal, daysFromCivil, List.getD_cons_zero, List.getD_cons_succ] <;>
      simp <;> (repeat' split) <;> omega
  · have hl' : ¬ (y % 400 = 0 ∨ (y % 4 = 0 ∧ y % 100 ≠ 0)) := fun h => hleap (hl.2 h)
    have hleap' : leapYear y = false := by simpa using hleap
    rcases hm with rfl | rfl | rfl | rfl | rfl | rfl | rfl | rfl | rfl | rfl | rfl | rfl <;>
      simp only [daysSinceUnixEpoch, hleap', quot, cumulNormal, daysFromCivil, List.getD_cons_zero, List.getD_cons_succ] <;>
      simp <;> (repeat' split) <;> omega

/-- `UtcDateTime::from_timespec(unix).year` is the calendar year of the day `⌊unix / 86400⌋`, for every instant -/
theorem utcYear_eq (u : Int) : utcYear u = (civilFromDays (u / 86400)).1 := by
  obtain ⟨z, hz⟩ : ∃ z, z = u / 86400 := ⟨_, rfl⟩
  obtain ⟨era, hera⟩ : ∃ era, era = (z + 719468) / 146097 := ⟨_, rfl⟩
  obtain ⟨doe, hdoe⟩ : ∃ doe, doe = z + 719468 - era * 146097 := ⟨_, rfl⟩
  obtain ⟨c, hc⟩ : ∃ c, c = min (doe / 36524) 3 := ⟨_, rfl⟩
  obtain ⟨r1, hr1⟩ : ∃ r1, r1 = doe - 36524 * c := ⟨_, rfl⟩
  obtain ⟨q, hq⟩ : ∃ q, q = min (r1 / 1461) 24 := ⟨_, rfl⟩
  obtain ⟨r2, hr2⟩ : ∃ r2, r2 = r1 - 1461 * q := ⟨_, rfl⟩
  obtain ⟨s, hs⟩ : ∃ s, s = min (r2 / 365) 3 := ⟨_, rfl⟩
  obtain ⟨doy, hdoy⟩ : ∃ doy, doy = r2 - 365 * s := ⟨_, rfl⟩
  obtain ⟨mp, hmp⟩ : ∃ mp, mp = (5 * doy + 2) / 153 := ⟨_, rfl⟩
  obtain ⟨dd, hdd⟩ : ∃ dd, dd = doy - (153 * mp + 2) / 5 + 1 := ⟨_, rfl⟩
  have b0 : 0 ≤ doe ∧ doe ≤ 146096 := by omega
  have b1 : 0 ≤ c ∧ c ≤ 3 ∧ 0 ≤ r1 ∧ r1 ≤ 36524 ∧ (r1 = 36524 → c = 3) := by omega
  have b2 : 0 ≤ q ∧ q ≤ 24 ∧ 0 ≤ r2 ∧ r2 ≤ 1460 ∧ (r2 = 1460 → q < 24 ∨ c = 3) := by omega
  have b3 : 0 ≤ s ∧ s ≤ 3 ∧ 0 ≤ doy ∧ doy ≤ 365 ∧ (doy = 365 → s = 3 ∧ r2 = 1460) := by omega
  have b4 : 0 ≤ mp ∧ mp ≤ 11 := by omega
  have hmpc : mp = 0 ∨ mp = 1 ∨ mp = 2 ∨ mp = 3 ∨ mp = 4 ∨ mp = 5 ∨ mp = 6 ∨ mp = 7 ∨ mp = 8 ∨ mp = 9 ∨
      mp = 10 ∨ mp = 11 := by omega
  have h100 : (100 * c + 4 * q + s) / 100 = c := by omega
  have h4 : (100 * c + 4 * q + s) / 4 = 25 * c + q := by omega
  have hp : Parts z era (100 * c + 4 * q + s) mp dd := by
    refine ⟨?_, ?_, ?_, ?_, ?_, ?_, ?_, ?_⟩ <;> omega
  rw [← hz, civilFromDays_parts hp]
  -- chrono's side: days since 2000-03-01 = z − 11017, and 719468 + 11017 = 5 · 146097
  have e0 : (u - 951868800) / 86400 = z - 11017 := by omega
  have e1 : (z - 11017) / 146097 = era - 5 := by omega
  have e2 : (z - 11017) % 146097 = doe := by omega
  simp only [utcYear, e0, e1, e2, Parts.civil]
  rw [← hc, (by omega : doe - c * 36524 = r1), ← hq, (by omega : r1 - q * 1461 = r2), ← hs, (by omega : r2 - s * 365 = doy)]
  by_cases h306 : doy ≥ 306
  · have : mp ≥ 10 := by omega
    have hm : ¬ mp < 10 := by omega
    have hm2 : mp - 9 ≤ 2 := by omega
    simp only [h306, hm, hm2, if_true, if_false]; omega
  · have hm : mp < 10 := by omega
    have hm2 : ¬ mp + 3 ≤ 2 := by omega
    simp only [h306, hm, hm2, if_true, if_false]; omega

/-! ### `Mm.w.d` transition dates -/

/-- the transition date of an `Mm.w.d` rule is a day of month `m` of that year -/
theorem transitionDate_mw (m w wd : Nat) (hm1 : 1 ≤ m) (hm12 : m ≤ 12) (hw1 : 1 ≤ w) (hw5 : w ≤ 5) (hwd : wd ≤ 6) (y : Int) :
    ∃ md : Int, (RuleDay.monthWeekday m w wd).transitionDate y = (m, md) ∧ 1 ≤ md ∧ md ≤ (daysInMonth y m : Int) := by
  have hm : m = 1 ∨ m = 2 ∨ m = 3 ∨ m = 4 ∨ m = 5 ∨ m = 6 ∨ m = 7 ∨ m = 8 ∨ m = 9 ∨ m = 10 ∨ m = 11 ∨ m = 12 := by omega
  simp only [RuleDay.transitionDate]
  generalize (4 + daysSinceUnixEpoch y m 1) % 7 = W
  refine ⟨_, rfl, ?_, ?_⟩
  · rcases hm with rfl | rfl | rfl | rfl | rfl | rfl | rfl | rfl | rfl | rfl | rfl | rfl <;>
      simp only [daysInMonthNormal, List.getD_cons_zero, List.getD_cons_succ, leapYear_eq] <;> simp <;> (repeat' split) <;> omega
  · rcases hm with rfl | rfl | rfl | rfl | rfl | rfl | rfl | rfl | rfl | rfl | rfl | rfl <;>
      simp only [daysInMonthNormal, List.getD_cons_zero, List.getD_cons_succ, leapYear_eq, daysInMonth] <;> simp <;> (repeat' split) <;> omega

theorem unixTime_of_date (r : RuleDay) (y : Int) (m : Nat) (md : Int) (h : r.transitionDate y = (m, md))
    (hm1 : 1 ≤ m) (hm12 : m ≤ 12) (dt : Int) :
    r.unixTime y dt = (daysFromCivil y m 1 + md - 1) * 86400 + dt := by
  simp only [RuleDay.unixTime, h, daysSinceUnixEpoch_eq y m hm1 hm12]

/-- where the months lie within their year (day numbers) -/
theorem month_first_mono (y : Int) (m1 m2 : Nat) (h1 : 1 ≤ m1) (h : m1 ≤ m2) (h2 : m2 ≤ 12) :
    daysFromCivil y m1 1 ≤ daysFromCivil y m2 1 := by
  simp only [daysFromCivil]; omega

theorem month_last (y : Int) (m : Nat) (hm1 : 1 ≤ m) (hm : m < 12) :
    daysFromCivil y m 1 + (daysInMonth y m : Int) = daysFromCivil y (m + 1) 1 := by
  have := days_next_month y m hm1 hm
  have hm' : m = 1 ∨ m = 2 ∨ m = 3 ∨ m = 4 ∨ m = 5 ∨ m = 6 ∨ m = 7 ∨ m = 8 ∨ m = 9 ∨ m = 10 ∨ m = 11 := by omega
  rcases daysInMonth_cases y m hm1 (by omega) with ⟨_, hd⟩ | ⟨_, hd⟩ | ⟨_, hl, hd⟩ | ⟨_, hl, hd⟩ <;> rw [hd] <;>
    rcases hm' with rfl | rfl | rfl | rfl | rfl | rfl | rfl | rfl | rfl | rfl | rfl <;> simp only [daysFromCivil] <;> omega

theorem feb_first (y : Int) : daysFromCivil y 2 1 = daysFromCivil y 1 1 + 31 := by simp only [daysFromCivil]; omega
theorem dec_first (y : Int) : daysFromCivil y 12 1 + 31 = daysFromCivil (y + 1) 1 1 := by simp only [daysFromCivil]; omega
theorem year_len (y : Int) : daysFromCivil y 1 1 + 365 ≤ daysFromCivil (y + 1) 1 1 := by simp only [daysFromCivil]; omega

/-- the year of a day number, as bounds, and conversely -/
theorem year_bounds (z : Int) :
    daysFromCivil (civilFromDays z).1 1 1 ≤ z ∧ z < daysFromCivil ((civilFromDays z).1 + 1) 1 1 := by
  have hv := civilFromDays_validMD z
  have hr := days_roundtrip z
  have hb := days_bounds _ _ _ hv
  rw [hr] at hb
  have hn := days_next_year (civilFromDays z).1
  have e : daysFromCivil (civilFromDays z).1 12 31 + 1 = daysFromCivil ((civilFromDays z).1 + 1) 1 1 := by omega
  omega

theorem year_unique (z y : Int) (h1 : daysFromCivil y 1 1 ≤ z) (h2 : z < daysFromCivil (y + 1) 1 1) : (civilFromDays z).1 = y := by
  obtain ⟨b1, b2⟩ := year_bounds z
  generalize (civilFromDays z).1 = y2 at b1 b2
  by_cases hlt : y2 < y
  · have := (days_year_mono (y2 + 1) y (by omega)).1; omega
  · by_cases hgt : y < y2
    · have := (days_year_mono (y + 1) y2 (by omega)).1; omega
    · omega

/-- both transitions of a year, for `Mm.w.d` rules with start month ≥ February, before the end month ≤ November:
    day numbers `DS < DE` well inside the year -/
theorem mw_year_facts (ms ws ds me we de : Nat) (h2 : 2 ≤ ms) (hlt : ms < me) (h11 : me ≤ 11)
    (hws1 : 1 ≤ ws) (hws5 : ws ≤ 5) (hds : ds ≤ 6) (hwe1 : 1 ≤ we) (hwe5 : we ≤ 5) (hde : de ≤ 6) (y : Int) :
    ∃ DS DE : Int,
      (∀ dt, (RuleDay.monthWeekday ms ws ds).unixTime y dt = DS * 86400 + dt) ∧
      (∀ dt, (RuleDay.monthWeekday me we de).unixTime y dt = DE * 86400 + dt) ∧
      ((RuleDay.monthWeekday ms ws ds).transitionDate y).1 = ms ∧ ((RuleDay.monthWeekday me we de).transitionDate y).1 = me ∧
      daysFromCivil y 1 1 + 31 ≤ DS ∧ DS + 1 ≤ DE ∧ DE + 32 ≤ daysFromCivil (y + 1) 1 1 := by
  obtain ⟨mdS, hS, s1, s2⟩ := transitionDate_mw ms ws ds (by omega) (by omega) hws1 hws5 hds y
  obtain ⟨mdE, hE, e1, e2⟩ := transitionDate_mw me we de (by omega) (by omega) hwe1 hwe5 hde y
  refine ⟨daysFromCivil y ms 1 + mdS - 1, daysFromCivil y me 1 + mdE - 1,
    fun dt => unixTime_of_date _ y ms mdS hS (by omega) (by omega) dt,
    fun dt => unixTime_of_date _ y me mdE hE (by omega) (by omega) dt, by rw [hS], by rw [hE], ?_, ?_, ?_⟩
  · have := month_first_mono y 2 ms (by omega) h2 (by omega)
    have := feb_first y
    omega
  · have := month_last y ms (by omega) (by omega)
    have := month_first_mono y (ms + 1) me (by omega) (by omega) (by omega)
    omega
  · have := month_last y me (by omega) (by omega)
    have := month_first_mono y (me + 1) 12 (by omega) (by omega) (by omega)
    have := dec_first y
    omega

end Slac.Time
