/-
  SlacProofs.F64Search — the number-theoretic half of `float(str(x)) = x`, proved for EVERY finite non-zero double:
  * `sciOf_near`: a decimal candidate c·10^p within relative 2^-54 of x converts (`Float.ofScientific`, any code
    path) to x;  `sciOf_congr`: the conversion depends only on the decimal value;
  * `selK_spec` + `scaled_ge`: with 17 digits the scaled value is ≥ 10^16 > 2^53, so the nearer of the two
    17-digit candidates is within relative 2^-54: `step17_ok` — the search succeeds at the latest at 17 digits;
  * `displaySearch_found`: the first successful step returns a candidate that reads back (`==`, hence `=`);
  * `strip_inv`: dropping trailing zeros keeps the value;  `readBack_eq_sciOf`: `parse`'s re-association
    (c·10^p as an integer) keeps the value;
  * `displaySearchOk : isFinite x → ¬ isZero x → DisplaySearchOk x`, and
    **`parse_display_all : parse (display x) = some x`** for every x.
-/
import SlacProofs.F64Near
import SlacProofs.F64Parse
set_option autoImplicit false
namespace Slac
namespace F64
open Float.Model Float.Model.UnpackedFloat

/-- numerator / denominator of the value m·2^e as `display` forms them -/
def numOf (m : Nat) (e : Int) : Nat := if e ≥ 0 then m <<< e.toNat else m
def denOf (e : Int) : Nat := if e ≥ 0 then 1 else 1 <<< (-e).toNat

theorem denOf_pos (e : Int) : 0 < denOf e := by
  unfold denOf; split
  · decide
  · rw [Nat.shiftLeft_eq, Nat.one_mul]; exact Nat.two_pow_pos _

/-- a value cn/cd within relative 2^-54 of x = m·2^e = num/den, described with a large enough scale 2^J, rounds to x -/
theorem near_gen (s : Sign) (m : Nat) (e : Int) (hc : Canon m e) (cn cd J : Nat) (hcd : 0 < cd)
    (hJ : -(J : Int) ≤ e - 1)
    (H1 : cn * denOf e * 2^54 < numOf m e * cd * 2^54 + numOf m e * cd)
    (H2 : numOf m e * cd * 2^54 < cn * denOf e * 2^54 + numOf m e * cd) :
    rwaFrac s (cn * 2^J) cd (-(J : Int)) = .finite s m e hc.pos := by
  apply rwaFrac_near s m e hc (cn * 2^J) cd (-(J : Int)) hcd hJ
  · generalize hg : (e - -(J : Int)).toNat = g
    by_cases he : e ≥ 0
    · have hnum : numOf m e = m * 2^e.toNat := by unfold numOf; rw [if_pos he, Nat.shiftLeft_eq]
      have hden : denOf e = 1 := by unfold denOf; rw [if_pos he]
      rw [hnum, hden] at H1
      have hgJ : g = e.toNat + J := by omega
      rw [hgJ, Nat.pow_add]
      have := Nat.mul_lt_mul_of_pos_right H1 (Nat.two_pow_pos J)
      calc cn * 2^J * 2^54 = cn * 1 * 2^54 * 2^J := by ring
        _ < (m * 2^e.toNat * cd * 2^54 + m * 2^e.toNat * cd) * 2^J := this
        _ = m * (cd * (2^e.toNat * 2^J)) * 2^54 + m * (cd * (2^e.toNat * 2^J)) := by ring
    · have hnum : numOf m e = m := by unfold numOf; rw [if_neg he]
      have hden : denOf e = 2^(-e).toNat := by unfold denOf; rw [if_neg he, Nat.shiftLeft_eq, Nat.one_mul]
      rw [hnum, hden] at H1
      have hJg : J = g + (-e).toNat := by omega
      rw [hJg, Nat.pow_add]
      have := Nat.mul_lt_mul_of_pos_right H1 (Nat.two_pow_pos g)
      calc cn * (2^g * 2^(-e).toNat) * 2^54 = cn * 2^(-e).toNat * 2^54 * 2^g := by ring
        _ < (m * cd * 2^54 + m * cd) * 2^g := this
        _ = m * (cd * 2^g) * 2^54 + m * (cd * 2^g) := by ring
  · generalize hg : (e - -(J : Int)).toNat = g
    by_cases he : e ≥ 0
    · have hnum : numOf m e = m * 2^e.toNat := by unfold numOf; rw [if_pos he, Nat.shiftLeft_eq]
      have hden : denOf e = 1 := by unfold denOf; rw [if_pos he]
      rw [hnum, hden] at H2
      have hgJ : g = e.toNat + J := by omega
      rw [hgJ, Nat.pow_add]
      have := Nat.mul_lt_mul_of_pos_right H2 (Nat.two_pow_pos J)
      calc m * (cd * (2^e.toNat * 2^J)) * 2^54 = m * 2^e.toNat * cd * 2^54 * 2^J := by ring
        _ < (cn * 1 * 2^54 + m * 2^e.toNat * cd) * 2^J := this
        _ = cn * 2^J * 2^54 + m * (cd * (2^e.toNat * 2^J)) := by ring
    · have hnum : numOf m e = m := by unfold numOf; rw [if_neg he]
      have hden : denOf e = 2^(-e).toNat := by unfold denOf; rw [if_neg he, Nat.shiftLeft_eq, Nat.one_mul]
      rw [hnum, hden] at H2
      have hJg : J = g + (-e).toNat := by omega
      rw [hJg, Nat.pow_add]
      have := Nat.mul_lt_mul_of_pos_right H2 (Nat.two_pow_pos g)
      calc m * (cd * 2^g) * 2^54 = m * cd * 2^54 * 2^g := by ring
        _ < (cn * 2^(-e).toNat * 2^54 + m * cd) * 2^g := this
        _ = cn * (2^g * 2^(-e).toNat) * 2^54 + m * (cd * 2^g) := by ring

theorem refInt_scale (n J : Nat) (hn : 0 < n) (hJ : 53 ≤ J) :
    rwaFrac .positive (n * 2^J) 1 (-(J : Int)) = refInt n := by
  unfold refInt
  have := rwaFrac_shift .positive (n * 2^53) 1 (J - 53) (-53) (by decide) (refInt_bits n hn)
  have e1 : n * 2^53 * 2^(J - 53) = n * 2^J := by
    rw [Nat.mul_assoc, ← Nat.pow_add]; exact congrArg (fun t => n * 2^t) (by omega)
  have e2 : (-53 : Int) - ((J - 53 : Nat) : Int) = -(J : Int) := by omega
  rw [e1, e2] at this; exact this

theorem refFrac_scale (c q J : Nat) (hc : 0 < c) (hJ : 4 * q + 53 ≤ J) :
    rwaFrac .positive (c * 2^J) (10^q) (-(J : Int)) = refFrac c q := by
  unfold refFrac
  generalize hK : 4 * q + 53 = K at hJ
  have hb := refFrac_bits c q hc
  rw [hK] at hb
  have := rwaFrac_shift .positive (c * 2^K) (10^q) (J - K) (-(K : Int)) (Nat.pow_pos (by decide)) hb
  have e1 : c * 2^K * 2^(J - K) = c * 2^J := by
    rw [Nat.mul_assoc, ← Nat.pow_add]; exact congrArg (fun t => c * 2^t) (by omega)
  have e2 : (-(K : Int)) - ((J - K : Nat) : Int) = -(J : Int) := by omega
  rw [e1, e2] at this; exact this

/-- what `display`'s search and `parse` compute from the candidate digits c and decimal exponent p -/
def sciOf (c : Nat) (p : Int) : Float :=
  if p ≥ 0 then Float.ofScientific c false p.toNat else Float.ofScientific c true (-p).toNat

/-- the candidate as a fraction cn/cd -/
def cnOf (c : Nat) (p : Int) : Nat := if p ≥ 0 then c * 10^p.toNat else c
def cdOf (p : Int) : Nat := if p ≥ 0 then 1 else 10^(-p).toNat

/-- `sciOf c p` as the reference rounding of its value -/
theorem sciOf_ref (c : Nat) (p : Int) (hc : 0 < c) (hp1 : -2048 ≤ p) (hp2 : p ≤ 2048) :
    sciOf c p = Float.ofModel (Float.Model.pack
      (if p ≥ 0 then refInt (c * 10^p.toNat) else refFrac c (-p).toNat)) := by
  unfold sciOf
  by_cases h : p ≥ 0
  · rw [if_pos h, if_pos h, sci_false c p.toNat hc (by omega)]
  · rw [if_neg h, if_neg h, sci_true c (-p).toNat hc (by omega) (by omega)]

/-- a decimal candidate within relative 2^-54 of the positive double m·2^e converts to that double -/
theorem sciOf_near (m : Nat) (e : Int) (hm : Canon m e) (c : Nat) (p : Int) (hc : 0 < c)
    (hp1 : -2048 ≤ p) (hp2 : p ≤ 2048)
    (H1 : cnOf c p * denOf e * 2^54 < numOf m e * cdOf p * 2^54 + numOf m e * cdOf p)
    (H2 : numOf m e * cdOf p * 2^54 < cnOf c p * denOf e * 2^54 + numOf m e * cdOf p) :
    sciOf c p = mkF .positive m e hm.pos := by
  rw [sciOf_ref c p hc hp1 hp2]
  unfold mkF
  congr 2
  have hge := hm.ge
  by_cases h : p ≥ 0
  · rw [if_pos h]
    have hcn : cnOf c p = c * 10^p.toNat := by unfold cnOf; rw [if_pos h]
    have hcd : cdOf p = 1 := by unfold cdOf; rw [if_pos h]
    rw [hcn, hcd] at H1 H2
    have hn : 0 < c * 10^p.toNat := Nat.mul_pos hc (Nat.pow_pos (by decide))
    rw [← refInt_scale (c * 10^p.toNat) 1200 hn (by decide)]
    exact near_gen .positive m e hm _ 1 1200 (by decide) (by omega) H1 H2
  · rw [if_neg h]
    have hcn : cnOf c p = c := by unfold cnOf; rw [if_neg h]
    have hcd : cdOf p = 10^(-p).toNat := by unfold cdOf; rw [if_neg h]
    rw [hcn, hcd] at H1 H2
    rw [← refFrac_scale c (-p).toNat (4 * (-p).toNat + 1200) hc (by omega)]
    exact near_gen .positive m e hm c _ _ (Nat.pow_pos (by decide)) (by omega) H1 H2

/-! ### the digit search of `display` -/
def vnOf (num : Nat) (p : Int) : Nat := if p ≥ 0 then num else num * 10 ^ (-p).toNat
def vdOf (den : Nat) (p : Int) : Nat := if p ≥ 0 then den * 10 ^ p.toNat else den
def loOf (num den : Nat) (p : Int) : Nat := vnOf num p / vdOf den p

theorem displaySearch_succ (ax : Float) (num den : Nat) (k : Int) (n fuel : Nat) :
    displaySearch ax num den k n (fuel + 1) =
      (if (decide (loOf num den (k - n) > 0) && (sciOf (loOf num den (k - n)) (k - n) == ax)
            && (sciOf (loOf num den (k - n) + 1) (k - n) == ax)) = true then
        (if 2 * vnOf num (k - n) < (loOf num den (k - n) + (loOf num den (k - n) + 1)) * vdOf den (k - n)
          then (loOf num den (k - n), k - n) else (loOf num den (k - n) + 1, k - n))
      else if (decide (loOf num den (k - n) > 0) && (sciOf (loOf num den (k - n)) (k - n) == ax)) = true then
        (loOf num den (k - n), k - n)
      else if (sciOf (loOf num den (k - n) + 1) (k - n) == ax) = true then (loOf num den (k - n) + 1, k - n)
      else displaySearch ax num den k (n + 1) fuel) := by
  rw [displaySearch]
  rfl

/-- step n₀ of the search succeeds -/
def StepOk (ax : Float) (num den : Nat) (k : Int) (n₀ : Nat) : Prop :=
  (loOf num den (k - n₀) > 0 ∧ (sciOf (loOf num den (k - n₀)) (k - n₀) == ax) = true) ∨
  (sciOf (loOf num den (k - n₀) + 1) (k - n₀) == ax) = true

/-- if some step within the fuel succeeds, the search returns a candidate that reads back (`==`) as ax -/
theorem displaySearch_found (ax : Float) (num den : Nat) (k : Int) (fuel n : Nat)
    (h : ∃ n₀, n ≤ n₀ ∧ n₀ < n + fuel ∧ StepOk ax num den k n₀) :
    0 < (displaySearch ax num den k n fuel).1 ∧
    (sciOf (displaySearch ax num den k n fuel).1 (displaySearch ax num den k n fuel).2 == ax) = true ∧
    ∃ n₁, n ≤ n₁ ∧ n₁ < n + fuel ∧ (displaySearch ax num den k n fuel).2 = k - n₁ := by
  induction fuel generalizing n with
  | zero => obtain ⟨n₀, h1, h2, _⟩ := h; omega
  | succ fuel ih =>
    rw [displaySearch_succ]
    by_cases hLo : (decide (loOf num den (k - n) > 0) && (sciOf (loOf num den (k - n)) (k - n) == ax)) = true
    · have hLo' := hLo
      rw [Bool.and_eq_true, decide_eq_true_eq] at hLo'
      by_cases hHi : (sciOf (loOf num den (k - n) + 1) (k - n) == ax) = true
      · rw [if_pos (by rw [Bool.and_eq_true]; exact ⟨hLo, hHi⟩)]
        split
        · exact ⟨hLo'.1, hLo'.2, n, by omega, by omega, rfl⟩
        · exact ⟨by omega, hHi, n, by omega, by omega, rfl⟩
      · rw [if_neg (by rw [Bool.and_eq_true]; exact fun h => hHi h.2), if_pos hLo]
        exact ⟨hLo'.1, hLo'.2, n, by omega, by omega, rfl⟩
    · rw [if_neg (by rw [Bool.and_eq_true]; exact fun h => hLo h.1), if_neg hLo]
      by_cases hHi : (sciOf (loOf num den (k - n) + 1) (k - n) == ax) = true
      · rw [if_pos hHi]; exact ⟨by omega, hHi, n, by omega, by omega, rfl⟩
      · rw [if_neg hHi]
        obtain ⟨n₀, h1, h2, h3⟩ := h
        have hne : n₀ ≠ n := by
          intro heq; subst heq
          rcases h3 with ⟨hpos, hb⟩ | hb
          · exact hLo (by rw [Bool.and_eq_true, decide_eq_true_eq]; exact ⟨hpos, hb⟩)
          · exact hHi hb
        obtain ⟨r1, r2, n₁, r3, r4, r5⟩ := ih (n + 1) ⟨n₀, by omega, by omega, h3⟩
        exact ⟨r1, r2, n₁, by omega, by omega, r5⟩

/-! ### the decimal exponent estimate -/
/-- value num/den ≥ 10^i -/
def GeTen (num den : Nat) (i : Int) : Prop :=
  if i ≥ 0 then 10^i.toNat * den ≤ num else den ≤ num * 10^(-i).toNat

theorem ratCmp_ge_iff (num den : Nat) (i : Int) :
    ((match (if i ≥ 0 then ((10:Nat) ^ i.toNat, 1) else (1, 10 ^ (-i).toNat) : Nat × Nat) with
      | (pn, pd) => ratCmp num den pn pd != Ordering.lt) = true) ↔ GeTen num den i := by
  unfold GeTen ratCmp
  by_cases h : i ≥ 0
  · simp only [if_pos h]
    rw [bne_iff_ne, Ne, Nat.compare_eq_lt]; omega
  · simp only [if_neg h]
    rw [bne_iff_ne, Ne, Nat.compare_eq_lt]; omega

theorem selK_spec (num den : Nat) (k0 : Int) (hbase : GeTen num den (k0 - 2)) :
    GeTen num den (selK num den k0 - 1) := by
  unfold selK
  extract_lets pow ge
  have hge : ∀ i, ge i = true ↔ GeTen num den i := fun i => ratCmp_ge_iff num den i
  split
  · rename_i h; have := (hge _).1 h
    have e : k0 + 2 - 1 = k0 + 1 := by omega
    rw [e]; exact this
  · split
    · rename_i h; have := (hge _).1 h
      have e : k0 + 1 - 1 = k0 := by omega
      rw [e]; exact this
    · split
      · rename_i h; exact (hge _).1 h
      · have e : k0 - 1 - 1 = k0 - 2 := by omega
        rw [e]; exact hbase

theorem decLen_lower (n : Nat) (hn : 0 < n) : 10^(decLen n - 1) ≤ n := by
  unfold decLen
  by_cases h1 : (Nat.toDigits 10 n).length - 1 = 0
  · rw [h1]; exact hn
  · have := (Nat.length_toDigits_le_iff (b := 10) (n := n) (k := (Nat.toDigits 10 n).length - 1)
      (by decide) (by omega))
    rcases Nat.lt_or_ge n (10^((Nat.toDigits 10 n).length - 1)) with hlt | hge
    · have := this.2 hlt; omega
    · exact hge

theorem decLen_upper (n : Nat) : n < 10^(decLen n) := by
  unfold decLen
  exact (Nat.length_toDigits_le_iff (b := 10) (by decide) Nat.length_toDigits_pos).1 (Nat.le_refl _)

theorem geTen_base (num den : Nat) (hnum : 0 < num) :
    GeTen num den ((decLen num : Int) - (decLen den : Int) - 2) := by
  have h1 := decLen_lower num hnum
  have h2 := decLen_upper den
  have ha := decLen_pos num
  generalize decLen num = a at *
  generalize decLen den = b at *
  unfold GeTen
  by_cases h : (a : Int) - (b : Int) - 2 ≥ 0
  · rw [if_pos h]
    have e : ((a : Int) - (b : Int) - 2).toNat = a - b - 2 := by omega
    rw [e]
    calc 10^(a - b - 2) * den ≤ 10^(a - b - 2) * 10^b := Nat.mul_le_mul_left _ (Nat.le_of_lt h2)
      _ = 10^(a - 2) := by rw [← Nat.pow_add]; congr 1; omega
      _ ≤ 10^(a - 1) := Nat.pow_le_pow_right (by decide) (by omega)
      _ ≤ num := h1
  · rw [if_neg h]
    have e : (-((a : Int) - (b : Int) - 2)).toNat = b + 2 - a := by omega
    rw [e]
    calc den ≤ 10^b := Nat.le_of_lt h2
      _ ≤ 10^(a - 1 + (b + 2 - a)) := Nat.pow_le_pow_right (by decide) (by omega)
      _ = 10^(a - 1) * 10^(b + 2 - a) := Nat.pow_add _ _ _
      _ ≤ num * 10^(b + 2 - a) := Nat.mul_le_mul_right _ h1

/-- with 17 digits the scaled value has at least 17 integer digits -/
theorem scaled_ge (num den : Nat) (k : Int) (h : GeTen num den (k - 1)) :
    10^16 * vdOf den (k - 17) ≤ vnOf num (k - 17) := by
  unfold GeTen at h
  unfold vdOf vnOf
  by_cases hp : k - 17 ≥ 0
  · rw [if_pos hp, if_pos hp]
    rw [if_pos (by omega)] at h
    have e : (k - 1).toNat = 16 + (k - 17).toNat := by omega
    rw [e, Nat.pow_add] at h
    calc 10^16 * (den * 10^(k - 17).toNat) = 10^16 * 10^(k - 17).toNat * den := by ring
      _ ≤ num := h
  · rw [if_neg hp, if_neg hp]
    by_cases hi : k - 1 ≥ 0
    · rw [if_pos hi] at h
      have e : 16 = (k - 1).toNat + (-(k - 17)).toNat := by omega
      calc 10^16 * den = 10^((k - 1).toNat + (-(k - 17)).toNat) * den := by rw [← e]
        _ = 10^(-(k - 17)).toNat * (10^(k - 1).toNat * den) := by rw [Nat.pow_add]; ring
        _ ≤ 10^(-(k - 17)).toNat * num := Nat.mul_le_mul_left _ h
        _ = num * 10^(-(k - 17)).toNat := Nat.mul_comm _ _
    · rw [if_neg hi] at h
      have e : (-(k - 17)).toNat = (-(k - 1)).toNat + 16 := by omega
      rw [e, Nat.pow_add]
      calc 10^16 * den ≤ 10^16 * (num * 10^(-(k - 1)).toNat) := Nat.mul_le_mul_left _ h
        _ = num * (10^(-(k - 1)).toNat * 10^16) := by ring

theorem cn_den_eq (c num den : Nat) (p : Int) (m : Nat) (e : Int) (hnum : num = numOf m e) (hden : den = denOf e) :
    cnOf c p * denOf e = c * vdOf den p ∧ numOf m e * cdOf p = vnOf num p := by
  unfold cnOf cdOf vdOf vnOf
  rw [← hnum, ← hden]
  by_cases hp : p ≥ 0
  · simp only [if_pos hp]; constructor
    · ring
    · ring
  · simp only [if_neg hp]; exact ⟨trivial, trivial⟩

/-- at 17 digits the nearer of the two candidates converts back to the double -/
theorem step17_ok (m : Nat) (e : Int) (hm : Canon m e) (k : Int)
    (hk1 : -2031 ≤ k) (hk2 : k ≤ 2065)
    (hge : GeTen (numOf m e) (denOf e) (k - 1)) :
    StepOk (mkF .positive m e hm.pos) (numOf m e) (denOf e) k 17 := by
  have hsc := scaled_ge _ _ k hge
  generalize hp : k - 17 = p at hsc
  have hpe : k - ((17 : Nat) : Int) = p := by omega
  unfold StepOk
  rw [hpe]
  generalize hnum : numOf m e = num at *
  generalize hden : denOf e = den at *
  have hdenpos : 0 < den := by rw [← hden]; exact denOf_pos e
  have hvdpos : 0 < vdOf den p := by
    unfold vdOf; split
    · exact Nat.mul_pos hdenpos (Nat.pow_pos (by decide))
    · exact hdenpos
  unfold loOf
  generalize hvn : vnOf num p = vn at *
  generalize hvd : vdOf den p = vd at *
  have hdm := Nat.div_add_mod vn vd
  have hr := Nat.mod_lt vn hvdpos
  have hlo : 10^16 ≤ vn / vd := by rw [Nat.le_div_iff_mul_le hvdpos]; exact hsc
  have hself : (mkF .positive m e hm.pos == mkF .positive m e hm.pos) = true := float_beq_self_mkF _ _ _ hm
  have hqv : vd * (vn / vd) ≤ vn := by omega
  have hbig : 2^53 * vd < vn := by
    have : (2:Nat)^53 < 10^16 := by decide
    calc 2^53 * vd < 10^16 * vd := Nat.mul_lt_mul_of_pos_right this hvdpos
      _ ≤ vn := hsc
  by_cases hclose : 2 * (vn % vd) < vd
  · left
    refine ⟨by omega, ?_⟩
    obtain ⟨e1, e2⟩ := cn_den_eq (vn / vd) num den p m e hnum.symm hden.symm
    rw [hvd] at e1; rw [hvn] at e2
    have := sciOf_near m e hm (vn / vd) p (by omega) (by omega) (by omega)
      (by rw [e1, e2]; rw [Nat.mul_comm (vn / vd) vd]; omega)
      (by rw [e1, e2]; rw [Nat.mul_comm (vn / vd) vd]; omega)
    rw [this]; exact hself
  · right
    obtain ⟨e1, e2⟩ := cn_den_eq (vn / vd + 1) num den p m e hnum.symm hden.symm
    rw [hvd] at e1; rw [hvn] at e2
    have hmul : (vn / vd + 1) * vd = vd * (vn / vd) + vd := by ring
    have := sciOf_near m e hm (vn / vd + 1) p (by omega) (by omega) (by omega)
      (by rw [e1, e2, hmul]; omega)
      (by rw [e1, e2, hmul]; omega)
    rw [this]; exact hself

/-! ### the conversion depends only on the decimal value -/

theorem ref_as_rwa (c : Nat) (p : Int) (hc : 0 < c) (J : Nat) (hJ : 4 * (-p).toNat + 53 ≤ J) :
    (if p ≥ 0 then refInt (c * 10^p.toNat) else refFrac c (-p).toNat) =
      rwaFrac .positive (cnOf c p * 2^J) (cdOf p) (-(J : Int)) := by
  unfold cnOf cdOf
  by_cases h : p ≥ 0
  · simp only [if_pos h]
    exact (refInt_scale _ J (Nat.mul_pos hc (Nat.pow_pos (by decide))) (by omega)).symm
  · simp only [if_neg h]
    exact (refFrac_scale c _ J hc hJ).symm

theorem cdOf_pos (p : Int) : 0 < cdOf p := by
  unfold cdOf; split
  · decide
  · exact Nat.pow_pos (by decide)

/-- two decimal candidates with the same value convert to the same double -/
theorem sciOf_congr (c c' : Nat) (p p' : Int) (hc : 0 < c) (hc' : 0 < c')
    (hp1 : -2048 ≤ p) (hp2 : p ≤ 2048) (hp1' : -2048 ≤ p') (hp2' : p' ≤ 2048)
    (hval : cnOf c p * cdOf p' = cnOf c' p' * cdOf p) : sciOf c p = sciOf c' p' := by
  rw [sciOf_ref c p hc hp1 hp2, sciOf_ref c' p' hc' hp1' hp2']
  congr 2
  obtain ⟨J, hJ⟩ : ∃ J : Nat, 4 * 2048 + 53 ≤ J := ⟨_, Nat.le_refl _⟩
  rw [ref_as_rwa c p hc J (by omega), ref_as_rwa c' p' hc' J (by omega)]
  rw [← rwaFrac_scale .positive _ (cdOf p) (cdOf p') _ (cdOf_pos p'),
    ← rwaFrac_scale .positive (cnOf c' p' * _) (cdOf p') (cdOf p) _ (cdOf_pos p)]
  congr 1
  · calc cnOf c p * 2^J * cdOf p' = cnOf c p * cdOf p' * 2^J := by ring
      _ = cnOf c' p' * cdOf p * 2^J := by rw [hval]
      _ = cnOf c' p' * 2^J * cdOf p := by ring
  · exact Nat.mul_comm _ _

theorem float_eq_pack_unpack (y : Float) : y = Float.ofModel (Float.Model.pack y.toModel.unpack) := by
  have h : Float.ofBits y.toBits = Float.ofModel (Float.Model.pack y.toModel.unpack) := rfl
  rw [← h, ofBits_bits]

/-- IEEE `==` with a finite non-zero double is equality of doubles -/
theorem eq_of_beq_mkF (y : Float) (m : Nat) (e : Int) (h : Canon m e)
    (hb : (y == mkF .positive m e h.pos) = true) : y = mkF .positive m e h.pos := by
  have hb' : Float.Model.beq y.toModel (mkF .positive m e h.pos).toModel = true := hb
  unfold Float.Model.beq at hb'
  rw [unpack_mkF _ _ _ h] at hb'
  rw [float_eq_pack_unpack y]
  unfold mkF
  congr 2
  generalize y.toModel.unpack = u at hb'
  unfold UnpackedFloat.beq at hb'
  cases u with
  | notANumber => simp [UnpackedFloat.compare] at hb'
  | infinity s => cases s <;> simp [UnpackedFloat.compare] at hb'
  | zero s => simp [UnpackedFloat.compare] at hb'
  | finite s m' e' hm' =>
    cases s with
    | negative => simp [UnpackedFloat.compare] at hb'
    | positive =>
      simp only [UnpackedFloat.compare] at hb'
      have hcmp : (compare e' e).then (compare m' m) = .eq := by simpa using hb'
      rw [Ordering.then_eq_eq] at hcmp
      have h1 : e' = e := by have := hcmp.1; rwa [Int.compare_eq_eq] at this
      have h2 : m' = m := by have := hcmp.2; rwa [Nat.compare_eq_eq] at this
      subst h1; subst h2; rfl

theorem strip_value (c' : Nat) (p : Int) :
    cnOf c' (p + 1) * cdOf p = cnOf (10 * c') p * cdOf (p + 1) := by
  unfold cnOf cdOf
  by_cases h0 : p ≥ 0
  · rw [if_pos (by omega : p + 1 ≥ 0), if_pos h0, if_pos h0, if_pos (by omega : p + 1 ≥ 0)]
    have : (p + 1).toNat = p.toNat + 1 := by omega
    rw [this, Nat.pow_succ]; ring
  · by_cases h1 : p = -1
    · subst h1
      have e1 : ((-1:Int) + 1 ≥ 0) := by decide
      have e2 : ¬ ((-1:Int) ≥ 0) := by decide
      have e3 : ((-1:Int) + 1).toNat = 0 := by decide
      have e4 : (-(-1:Int)).toNat = 1 := by decide
      rw [if_pos e1, if_neg e2, if_neg e2, if_pos e1, e3, e4]
      ring
    · rw [if_neg (by omega : ¬ p + 1 ≥ 0), if_neg h0, if_neg h0, if_neg (by omega : ¬ p + 1 ≥ 0)]
      have : (-p).toNat = (-(p + 1)).toNat + 1 := by omega
      rw [this, Nat.pow_succ]; ring

/-- dropping trailing zeros of the digits does not change the converted double -/
theorem strip_inv (fuel : Nat) : ∀ (c : Nat) (p : Int), 0 < c → -2048 ≤ p → p + fuel ≤ 2048 →
    0 < (stripZeros c p fuel).1 ∧ sciOf (stripZeros c p fuel).1 (stripZeros c p fuel).2 = sciOf c p ∧
    p ≤ (stripZeros c p fuel).2 ∧ (stripZeros c p fuel).2 ≤ p + fuel := by
  induction fuel with
  | zero => intro c p hc _ _; rw [stripZeros]; exact ⟨hc, rfl, by omega, by omega⟩
  | succ fuel ih =>
    intro c p hc hp1 hp2
    rw [stripZeros]
    by_cases hz : (c % 10 == 0 && c != 0) = true
    · rw [if_pos hz]
      rw [Bool.and_eq_true, beq_iff_eq] at hz
      have hc10 : c = 10 * (c / 10) := by have := Nat.div_add_mod c 10; omega
      have hc' : 0 < c / 10 := by omega
      obtain ⟨r1, r2, r3, r4⟩ := ih (c / 10) (p + 1) hc' (by omega) (by push_cast at hp2 ⊢; omega)
      refine ⟨r1, ?_, by omega, by push_cast at r4 ⊢; omega⟩
      rw [r2]
      apply sciOf_congr _ _ _ _ hc' hc (by omega) (by push_cast at hp2; omega) hp1 (by push_cast at hp2; omega)
      have := strip_value (c / 10) p
      rw [← hc10] at this
      exact this
    · rw [if_neg hz]; exact ⟨hc, rfl, by omega, by omega⟩

theorem selK_le (num den : Nat) (k0 : Int) : selK num den k0 ≤ k0 + 2 := by
  unfold selK
  extract_lets pow ge
  split
  · omega
  · split
    · omega
    · split <;> omega

theorem numOf_pos (m : Nat) (e : Int) (hm : 0 < m) : 0 < numOf m e := by
  unfold numOf; split
  · rw [Nat.shiftLeft_eq]; exact Nat.mul_pos hm (Nat.two_pow_pos _)
  · exact hm

set_option exponentiation.threshold 2000 in
theorem decLen_numOf (m : Nat) (e : Int) (h : Canon m e) : decLen (numOf m e) ≤ 309 := by
  have hlt := h.lt; have hle := h.le
  unfold decLen
  rw [Nat.length_toDigits_le_iff (by decide) (by decide)]
  have hb : numOf m e < 2^1024 := by
    unfold numOf; split
    · rw [Nat.shiftLeft_eq]
      calc m * 2^e.toNat < 2^53 * 2^e.toNat := Nat.mul_lt_mul_of_pos_right hlt (Nat.two_pow_pos _)
        _ = 2^(53 + e.toNat) := (Nat.pow_add _ _ _).symm
        _ ≤ 2^1024 := Nat.pow_le_pow_right (by decide) (by omega)
    · exact Nat.lt_of_lt_of_le hlt (Nat.pow_le_pow_right (by decide) (by decide))
  exact Nat.lt_trans hb (by decide +kernel)

theorem decLen_denOf (e : Int) (he : -1074 ≤ e) : decLen (denOf e) ≤ 324 := by
  unfold denOf; split
  · exact decLen_two_pow 0 (by omega)
  · rw [Nat.shiftLeft_eq, Nat.one_mul]; exact decLen_two_pow _ (by omega)

/-- the candidate `display` settles on for the positive double m·2^e converts back to it -/
theorem candOf_ok (m : Nat) (e : Int) (hm : Canon m e) :
    0 < (candOf (mkF .positive m e hm.pos) (m, e)).1 ∧
    sciOf (candOf (mkF .positive m e hm.pos) (m, e)).1 (candOf (mkF .positive m e hm.pos) (m, e)).2 =
      mkF .positive m e hm.pos ∧
    -400 ≤ (candOf (mkF .positive m e hm.pos) (m, e)).2 ∧ (candOf (mkF .positive m e hm.pos) (m, e)).2 ≤ 400 := by
  unfold candOf
  simp only []
  have hnum : (if e ≥ 0 then m <<< e.toNat else m) = numOf m e := rfl
  have hden : (if e ≥ 0 then 1 else 1 <<< (-e).toNat) = denOf e := rfl
  rw [hnum, hden]
  have hnpos := numOf_pos m e hm.pos
  have ha1 := decLen_pos (numOf m e)
  have ha2 := decLen_numOf m e hm
  have hb1 := decLen_pos (denOf e)
  have hb2 := decLen_denOf e hm.ge
  have hk1 := selK_ge (numOf m e) (denOf e) ((decLen (numOf m e) : Int) - (decLen (denOf e) : Int))
  have hk2 := selK_le (numOf m e) (denOf e) ((decLen (numOf m e) : Int) - (decLen (denOf e) : Int))
  have hge := selK_spec (numOf m e) (denOf e) _ (geTen_base (numOf m e) (denOf e) hnpos)
  generalize hk : selK (numOf m e) (denOf e) ((decLen (numOf m e) : Int) - (decLen (denOf e) : Int)) = k at *
  have hstep := step17_ok m e hm k (by omega) (by omega) hge
  obtain ⟨r1, r2, n₁, r3, r4, r5⟩ := displaySearch_found (mkF .positive m e hm.pos) (numOf m e) (denOf e) k 18 1
    ⟨17, by omega, by omega, hstep⟩
  have r2' := eq_of_beq_mkF _ m e hm r2
  generalize displaySearch (mkF .positive m e hm.pos) (numOf m e) (denOf e) k 1 18 = cp at *
  obtain ⟨c, p⟩ := cp
  simp only [] at r1 r2' r5 ⊢
  obtain ⟨s1, s2, s3, s4⟩ := strip_inv 20 c p r1 (by omega) (by omega)
  exact ⟨s1, by rw [s2, r2'], by omega, by omega⟩

theorem readBack_eq_sciOf (c : Nat) (p : Int) (hc : 0 < c) (hp1 : -2048 ≤ p) (hp2 : p ≤ 2048) :
    readBack c p = sciOf c p := by
  unfold readBack
  by_cases h : p ≥ 0
  · rw [if_pos h]
    have : Float.ofScientific (c * 10^p.toNat) false 0 = sciOf (c * 10^p.toNat) 0 := rfl
    rw [this]
    apply sciOf_congr _ _ _ _ (Nat.mul_pos hc (Nat.pow_pos (by decide))) hc (by decide) (by decide) hp1 hp2
    unfold cnOf cdOf
    rw [if_pos (by decide : (0:Int) ≥ 0), if_pos h, if_pos h, if_pos (by decide : (0:Int) ≥ 0)]
    simp
  · rw [if_neg h]; unfold sciOf; rw [if_neg h]

/-- **the shortest-digits search always succeeds**: the hypothesis of `parse_display` holds for every finite
    non-zero double -/
theorem displaySearchOk (x : Float) (hf : isFinite x = true) (hz : isZero x = false) : DisplaySearchOk x := by
  unfold DisplaySearchOk
  obtain ⟨s, m, e, h, rfl⟩ := exists_mkF x hf hz
  have hax : (if signBit (mkF s m e h.pos) then -(mkF s m e h.pos) else mkF s m e h.pos) = mkF .positive m e h.pos := by
    rw [signBit_mkF s m e h]
    cases s
    · simp only [sbit, decide_true, if_true]; rw [neg_mkF _ _ _ h]; rfl
    · simp [sbit]
  rw [displayCand_eq, hax, decode_mkF _ _ _ h]
  obtain ⟨c1, c2, c3, c4⟩ := candOf_ok m e h
  rw [readBack_eq_sciOf _ _ c1 (by omega) (by omega), c2]

/-- **`parse (display x) = some x` for every double** -/
theorem parse_display_all (x : Float) : parse (display x) = some x := by
  apply parse_display
  intro hn hi hz
  apply displaySearchOk x _ hz
  unfold isNaN isNaNN at hn; unfold isInf at hi; unfold isFinite
  rw [decide_eq_false_iff_not] at hn hi
  rw [decide_eq_true_eq]; omega

end F64
end Slac
