/-
  SlacProofs.F64Trunc — `F64.trunc` on the numeric bit pattern (`truncN`) and its consequences:
  idempotence, sign preservation, |trunc x| ≤ |x| (magnitude part of the pattern / sign-magnitude key).
  Also the Nat forms of `expBits`, `fracBits`, `signBit`, `ofParts`.
-/
import SlacProofs.F64Bits
set_option autoImplicit false
namespace Slac
namespace F64

theorem expBits_eq (x : Float) : expBits x = bits x / 2^52 % 2^11 := by
  unfold expBits bits
  rw [UInt64.toNat_and, UInt64.toNat_shiftRight]
  show (x.toBits.toNat >>> 52) &&& (2^11 - 1) = _
  rw [Nat.and_two_pow_sub_one_eq_mod, Nat.shiftRight_eq_div_pow]

theorem fracBits_eq (x : Float) : fracBits x = bits x % 2^52 := by
  unfold fracBits bits
  rw [UInt64.toNat_and]
  show x.toBits.toNat &&& (2^52 - 1) = _
  rw [Nat.and_two_pow_sub_one_eq_mod]

theorem signBit_eq (x : Float) : signBit x = decide (bits x / 2^63 = 1) := by
  unfold signBit bits
  have h : (x.toBits >>> 63).toNat = x.toBits.toNat / 2^63 := by
    rw [UInt64.toNat_shiftRight]; show x.toBits.toNat >>> 63 = _; rw [Nat.shiftRight_eq_div_pow]
  rw [← h, Bool.eq_iff_iff, beq_iff_eq, decide_eq_true_eq, ← UInt64.toNat_inj]
  rfl

theorem ofParts_toNat (neg : Bool) (n : Nat) (h : n < 2^63) :
    (UInt64.ofNat n ||| (if neg then (0x8000000000000000 : UInt64) else 0)).toNat = n + (if neg then 2^63 else 0) := by
  rw [UInt64.toNat_or, UInt64.toNat_ofNat']
  have hn : n % 2^64 = n := Nat.mod_eq_of_lt (by omega)
  rw [hn]
  cases neg
  · simp
  · show n ||| 2^63 = n + 2^63
    rw [Nat.or_comm]; have := Nat.two_pow_add_eq_or_of_lt h 1; rw [Nat.mul_one] at this; rw [← this]; omega

/-- bits of `ofParts` for a non-NaN magnitude -/
theorem bits_ofParts (neg : Bool) (n : Nat) (h : n ≤ 0x7FF0000000000000) :
    bits (ofParts neg n) = n + (if neg then 2^63 else 0) := by
  unfold ofParts
  have h2 := ofParts_toNat neg n (by omega)
  rw [bits_ofBits_of, h2]
  rw [h2]
  intro hE hM
  cases neg <;> simp at hE hM ⊢ <;> omega

/-- `F64.trunc` on bit patterns -/
def truncN (b : Nat) : Nat :=
  let eb := b / 2^52 % 2^11
  if eb ≥ 1075 then b
  else if eb < 1023 then b / 2^63 * 2^63
  else b / 2^(1075 - eb) * 2^(1075 - eb)

theorem shift_toNat (b : UInt64) (d : Nat) (hd : d < 64) :
    ((b >>> d.toUInt64) <<< d.toUInt64).toNat = b.toNat / 2^d * 2^d := by
  have hd' : d.toUInt64.toNat % 64 = d := by
    show (UInt64.ofNat d).toNat % 64 = d
    rw [UInt64.toNat_ofNat']; omega
  rw [UInt64.toNat_shiftLeft, UInt64.toNat_shiftRight, hd', Nat.shiftRight_eq_div_pow, Nat.shiftLeft_eq]
  apply Nat.mod_eq_of_lt
  have := b.toBitVec.isLt
  calc b.toNat / 2^d * 2^d ≤ b.toNat := Nat.div_mul_le_self _ _
    _ < 2^64 := this

/-- dropping d ≤ 52 low bits does not touch bits 52.. -/
theorem div_mul_div (b d : Nat) (hd : d ≤ 52) : b / 2^d * 2^d / 2^52 = b / 2^52 := by
  have h52 : (2:Nat)^52 = 2^d * 2^(52 - d) := by rw [← Nat.pow_add]; congr 1; omega
  rw [h52, ← Nat.div_div_eq_div_mul, ← Nat.div_div_eq_div_mul,
    Nat.mul_div_cancel _ (Nat.two_pow_pos d)]

theorem div_mul_div63 (b d : Nat) (hd : d ≤ 52) : b / 2^d * 2^d / 2^63 = b / 2^63 := by
  have h63 : (2:Nat)^63 = 2^52 * 2^11 := by decide
  rw [h63, ← Nat.div_div_eq_div_mul, ← Nat.div_div_eq_div_mul, div_mul_div b d hd]

theorem bits_trunc (x : Float) : bits (trunc x) = truncN (bits x) := by
  unfold trunc truncN
  simp only [expBits_eq]
  have hlt := bits_lt x
  split
  · rfl
  · split
    · rw [bits_ofParts _ 0 (by decide), signBit_eq]
      by_cases h : bits x / 2^63 = 1
      · simp [h]
      · have : bits x / 2^63 = 0 := by omega
        simp [this]
    · rename_i h1 h2
      have hd : 1075 - bits x / 2 ^ 52 % 2 ^ 11 ≤ 52 := by omega
      have hs := shift_toNat x.toBits (1075 - bits x / 2 ^ 52 % 2 ^ 11) (by omega)
      rw [bits_ofBits_of, hs]; rfl
      rw [hs]
      intro hE
      exfalso
      have := div_mul_div x.toBits.toNat _ hd
      rw [this] at hE
      exact h1 (by show bits x / 2 ^ 52 % 2 ^ 11 ≥ 1075; unfold bits; omega)

theorem truncN_sign (b : Nat) : truncN b / 2^63 = b / 2^63 := by
  unfold truncN; simp only []
  split
  · rfl
  · split
    · rw [Nat.mul_div_cancel _ (by decide : 0 < 2^63)]
    · exact div_mul_div63 b _ (by omega)

theorem truncN_big (b : Nat) (h1 : b / 2^52 % 2^11 ≥ 1075) : truncN b = b := by
  unfold truncN; simp only []; rw [if_pos h1]
theorem truncN_small (b : Nat) (h2 : b / 2^52 % 2^11 < 1023) : truncN b = b / 2^63 * 2^63 := by
  unfold truncN; simp only []; rw [if_neg (by omega), if_pos h2]
theorem truncN_mid (b : Nat) (h1 : ¬ b / 2^52 % 2^11 ≥ 1075) (h2 : ¬ b / 2^52 % 2^11 < 1023) :
    truncN b = b / 2^(1075 - b / 2^52 % 2^11) * 2^(1075 - b / 2^52 % 2^11) := by
  unfold truncN; simp only []; rw [if_neg h1, if_neg h2]

theorem truncN_idem (b : Nat) : truncN (truncN b) = truncN b := by
  by_cases h1 : b / 2^52 % 2^11 ≥ 1075
  · rw [truncN_big b h1, truncN_big b h1]
  · by_cases h2 : b / 2^52 % 2^11 < 1023
    · rw [truncN_small b h2]
      have : (b / 2^63 * 2^63) / 2^52 % 2^11 = 0 := by omega
      rw [truncN_small _ (by omega), Nat.mul_div_cancel _ (by decide : 0 < 2^63)]
    · have e := truncN_mid b h1 h2
      generalize hd : 1075 - b / 2^52 % 2^11 = d at e
      have hd52 : d ≤ 52 := by omega
      have hE : truncN b / 2^52 = b / 2^52 := by rw [e]; exact div_mul_div b d hd52
      rw [truncN_mid (truncN b) (by rw [hE]; exact h1) (by rw [hE]; exact h2), hE, hd, e,
        Nat.mul_div_cancel _ (Nat.two_pow_pos d)]

theorem trunc_idempotent (x : Float) : trunc (trunc x) = trunc x := by
  apply eq_of_bits_eq
  rw [bits_trunc, bits_trunc, truncN_idem _]

theorem trunc_signBit (x : Float) : signBit (trunc x) = signBit x := by
  rw [signBit_eq, signBit_eq, bits_trunc, truncN_sign]

theorem mod_div_mul_le (b d : Nat) (hd : d ≤ 63) : (b / 2^d * 2^d) % 2^63 ≤ b % 2^63 := by
  have h63 : (2:Nat)^63 = 2^d * 2^(63 - d) := by rw [← Nat.pow_add]; congr 1; omega
  have key : (b / 2^d * 2^d) % 2^63 = (b % 2^63) / 2^d * 2^d := by
    rw [h63, Nat.mul_comm (b / 2^d), Nat.mul_mod_mul_left, Nat.mod_mul_right_div_self, Nat.mul_comm]
  rw [key]; exact Nat.div_mul_le_self _ _

theorem truncN_mag_le (b : Nat) : magN (truncN b) ≤ magN b := by
  unfold magN truncN; simp only []
  split
  · exact Nat.le_refl _
  · split
    · rw [Nat.mul_mod_left]; exact Nat.zero_le _
    · exact mod_div_mul_le b _ (by omega)

/-- `|trunc x| ≤ |x|` on the magnitude part of the bit patterns (which orders non-NaN magnitudes) -/
theorem trunc_mag_le (x : Float) : magN (bits (trunc x)) ≤ magN (bits x) := by
  rw [bits_trunc]; exact truncN_mag_le _

theorem negN_eq (b : Nat) (hb : b < 2^64) : negN b = decide (b / 2^63 = 1) := by
  unfold negN; congr 1; apply propext; omega

/-- in the sign-magnitude key order: trunc x lies between 0 and x -/
theorem trunc_key_between (x : Float) :
    (0 ≤ keyN (bits x) → 0 ≤ keyN (bits (trunc x)) ∧ keyN (bits (trunc x)) ≤ keyN (bits x)) ∧
    (keyN (bits x) ≤ 0 → keyN (bits x) ≤ keyN (bits (trunc x)) ∧ keyN (bits (trunc x)) ≤ 0) := by
  have hm := trunc_mag_le x
  have hs : negN (bits (trunc x)) = negN (bits x) := by
    rw [negN_eq _ (bits_lt _), negN_eq _ (bits_lt _), bits_trunc, truncN_sign]
  unfold keyN
  rw [hs]
  split <;> constructor <;> intro h <;> omega

end F64
end Slac
